/-
Pure bit-list arithmetic used by the C07 builder proofs: little-endian
`toNat`, ripple addition / subtraction / comparison on bit lists.
-/
import MpcVerif.Model.Builders

namespace Mpc.Bld

/-! ### toNat -/

@[simp] theorem toNat_nil : toNat [] = 0 := rfl
@[simp] theorem toNat_cons (b : Bool) (bs : List Bool) : toNat (b :: bs) = b.toNat + 2 * toNat bs := rfl

theorem toNat_lt (bs : List Bool) : toNat bs < 2 ^ bs.length := by
  induction bs with
  | nil => simp
  | cons b bs ih =>
    simp only [toNat_cons, List.length_cons, Nat.pow_succ]
    have : b.toNat ≤ 1 := Bool.toNat_le b
    omega

theorem toNat_append (a b : List Bool) : toNat (a ++ b) = toNat a + 2 ^ a.length * toNat b := by
  induction a with
  | nil => simp
  | cons x a ih =>
    simp only [List.cons_append, toNat_cons, ih, List.length_cons]
    grind

@[simp] theorem toNat_replicate_false (k : Nat) : toNat (List.replicate k false) = 0 := by
  induction k with
  | zero => rfl
  | succ k ih => simp [List.replicate_succ, ih]

/-- `k` copies of a bit: `2^k - 1` times the bit. -/
theorem toNat_replicate_add (k : Nat) (b : Bool) :
    toNat (List.replicate k b) + b.toNat = 2 ^ k * b.toNat := by
  induction k with
  | zero => simp
  | succ k ih =>
    simp only [List.replicate_succ, toNat_cons, Nat.pow_succ]
    generalize toNat (List.replicate k b) = T at *
    generalize 2 ^ k = P at *
    have : P * 2 * b.toNat = 2 * (P * b.toNat) := by grind
    omega

theorem toNat_append_zeros (a : List Bool) (k : Nat) : toNat (a ++ List.replicate k false) = toNat a := by
  simp [toNat_append]

theorem toNat_take (a : List Bool) (n : Nat) : toNat (a.take n) = toNat a % 2 ^ n := by
  induction a generalizing n with
  | nil => simp
  | cons x a ih =>
    cases n with
    | zero => simp [Nat.mod_one]
    | succ n =>
      simp only [List.take_succ_cons, toNat_cons, ih, Nat.pow_succ]
      have : x.toNat ≤ 1 := Bool.toNat_le x
      have h2 : 0 < 2 ^ n := Nat.two_pow_pos n
      -- (x + 2 * A) % (2^n * 2) = x + 2 * (A % 2^n)
      have := Nat.mod_add_div (toNat a) (2 ^ n)
      have hlt := Nat.mod_lt (toNat a) h2
      generalize toNat a % 2 ^ n = r at *
      generalize toNat a / 2 ^ n = q at *
      generalize 2 ^ n = m at *
      rw [← this]
      have : x.toNat + 2 * (r + m * q) = (x.toNat + 2 * r) + (m * 2) * q := by grind
      rw [this, Nat.add_mul_mod_self_left, Nat.mod_eq_of_lt (by omega)]

/-- Zero padding of a bit list to length `n` (`xs` if already long enough). -/
def padTo (xs : List Bool) (n : Nat) : List Bool := xs ++ List.replicate (n - xs.length) false

@[simp] theorem padTo_length (xs : List Bool) (n : Nat) : (padTo xs n).length = max xs.length n := by
  simp [padTo]; omega

@[simp] theorem toNat_padTo (xs : List Bool) (n : Nat) : toNat (padTo xs n) = toNat xs := by
  simp [padTo, toNat_append_zeros]

/-- Equal-length bit lists with the same value are equal. -/
theorem toNat_inj : ∀ (a b : List Bool), a.length = b.length → toNat a = toNat b → a = b
  | [], [], _, _ => rfl
  | [], _ :: _, h, _ => by simp at h
  | _ :: _, [], h, _ => by simp at h
  | x :: a, y :: b, hl, hv => by
    simp only [toNat_cons] at hv
    simp only [List.length_cons, Nat.add_right_cancel_iff] at hl
    have hx : x.toNat ≤ 1 := Bool.toNat_le x
    have hy : y.toNat ≤ 1 := Bool.toNat_le y
    have h1 : x.toNat = y.toNat := by omega
    have h2 : toNat a = toNat b := by omega
    have : x = y := by cases x <;> cases y <;> simp_all
    rw [this, toNat_inj a b hl h2]

/-! ### addition -/

/-- Carry of a full adder. -/
def carry (a b c : Bool) : Bool := (a && b) || (c && (a != b))

theorem fullAdder_sum (a b c : Bool) :
    ((a != b) != c).toNat + 2 * (carry a b c).toNat = a.toNat + b.toNat + c.toNat := by
  cases a <;> cases b <;> cases c <;> rfl

/-- The carry as `NewFullAdder` computes it: `cin ⊕ ((b⊕cin) ∧ (a⊕cin))`. -/
theorem carry_circuit (a b c : Bool) : (c != ((b != c) && (a != c))) = carry a b c := by
  cases a <;> cases b <;> cases c <;> rfl

/-- Sum bits followed by the final carry. -/
def addBits : List (Bool × Bool) → Bool → List Bool
  | [], c => [c]
  | (a, b) :: r, c => ((a != b) != c) :: addBits r (carry a b c)

@[simp] theorem addBits_length (l : List (Bool × Bool)) (c : Bool) : (addBits l c).length = l.length + 1 := by
  induction l generalizing c with
  | nil => rfl
  | cons p r ih => obtain ⟨a, b⟩ := p; simp [addBits, ih]

theorem toNat_addBits (l : List (Bool × Bool)) (c : Bool) :
    toNat (addBits l c) = toNat (l.map Prod.fst) + toNat (l.map Prod.snd) + c.toNat := by
  induction l generalizing c with
  | nil => simp [addBits]
  | cons p r ih =>
    obtain ⟨a, b⟩ := p
    simp only [addBits, toNat_cons, ih, List.map_cons]
    have := fullAdder_sum a b c
    omega

/-! ### subtraction -/

/-- Borrow of a full subtractor computing `x - y - c`. -/
def borrow (x y c : Bool) : Bool := (!x && y) || (!(x != y) && c)

theorem fullSub_diff (x y c : Bool) :
    x.toNat + 2 * (borrow x y c).toNat = ((x != y) != c).toNat + y.toNat + c.toNat := by
  cases x <;> cases y <;> cases c <;> rfl

/-- The gates of `NewFullSubtractor(y, x, cin, …)`: difference and borrow. -/
theorem fullSub_circuit (x y c : Bool) :
    ((y == (x == c)) = ((x != y) != c)) ∧ ((((x == c) && (y != c)) != c) = borrow x y c) := by
  cases x <;> cases y <;> cases c <;> exact ⟨rfl, rfl⟩

/-- Difference bits followed by the final borrow. -/
def subBits : List (Bool × Bool) → Bool → List Bool
  | [], c => [c]
  | (x, y) :: r, c => ((x != y) != c) :: subBits r (borrow x y c)

@[simp] theorem subBits_length (l : List (Bool × Bool)) (c : Bool) : (subBits l c).length = l.length + 1 := by
  induction l generalizing c with
  | nil => rfl
  | cons p r ih => obtain ⟨a, b⟩ := p; simp [subBits, ih]

/-- `X + 2^(n+1)·bout = (D + 2^n·bout) + Y + c`: the difference bits with the
borrow appended, read as a number, are `X - Y - c` modulo `2^(n+1)`. -/
theorem toNat_subBits (l : List (Bool × Bool)) (c : Bool) :
    toNat (l.map Prod.fst) + 2 ^ (l.length + 1) * ((subBits l c).getLastD false).toNat =
      toNat (subBits l c) + toNat (l.map Prod.snd) + c.toNat := by
  induction l generalizing c with
  | nil => simp [subBits]; omega
  | cons p r ih =>
    obtain ⟨x, y⟩ := p
    have hne : subBits r (borrow x y c) ≠ [] := by
      intro h; have := congrArg List.length h; simp at this
    have hl : (((x != y) != c) :: subBits r (borrow x y c)).getLastD false =
        (subBits r (borrow x y c)).getLastD false := by
      cases hs : subBits r (borrow x y c) with
      | nil => exact absurd hs hne
      | cons _ _ => rfl
    simp only [subBits, toNat_cons, List.map_cons, List.length_cons, hl]
    have h1 := ih (borrow x y c)
    have h2 := fullSub_diff x y c
    have : 2 ^ (r.length + 1 + 1) = 2 * 2 ^ (r.length + 1) := by rw [Nat.pow_succ]; omega
    rw [this]
    generalize 2 ^ (r.length + 1) = P at *
    generalize ((subBits r (borrow x y c)).getLastD false).toNat = bo at *
    have : 2 * P * bo = 2 * (P * bo) := by grind
    omega

/-! ### comparison -/

/-- One step of the comparator chain: `cin ⊕ ((cin ≡ y) ∧ (cin ⊕ x))`. -/
theorem cmp_circuit (x y c : Bool) : (c != ((c == y) && (c != x))) = (if x = y then c else x) := by
  cases x <;> cases y <;> cases c <;> rfl

/-- The comparator chain from the least significant bit. -/
def cmpFold : List (Bool × Bool) → Bool → Bool
  | [], c => c
  | (x, y) :: r, c => cmpFold r (if x = y then c else x)

theorem cmpFold_spec (l : List (Bool × Bool)) (c : Bool) :
    cmpFold l c = (decide (toNat (l.map Prod.snd) < toNat (l.map Prod.fst)) ||
      (decide (toNat (l.map Prod.fst) = toNat (l.map Prod.snd)) && c)) := by
  induction l generalizing c with
  | nil => simp [cmpFold]
  | cons p r ih =>
    obtain ⟨x, y⟩ := p
    simp only [cmpFold, ih, List.map_cons, toNat_cons]
    generalize toNat (r.map Prod.fst) = X
    generalize toNat (r.map Prod.snd) = Y
    cases x <;> cases y <;> cases c <;> simp <;>
      first
      | omega
      | (rw [Bool.eq_iff_iff]; simp only [Bool.or_eq_true, decide_eq_true_eq]; omega)

/-! ### equality -/

theorem padTo_eq_iff (a b : List Bool) (n : Nat) (ha : a.length ≤ n) (hb : b.length ≤ n) :
    padTo a n = padTo b n ↔ toNat a = toNat b := by
  constructor
  · intro h
    have := congrArg toNat h
    simpa using this
  · intro h
    apply toNat_inj
    · simp; omega
    · simpa using h

/-! ### two's complement -/

theorem toNat_getLast (bs : List Bool) (h : bs ≠ []) :
    toNat bs = toNat bs.dropLast + 2 ^ (bs.length - 1) * (bs.getLastD false).toNat := by
  induction bs with
  | nil => exact absurd rfl h
  | cons b bs ih =>
    cases bs with
    | nil => simp
    | cons b' bs' =>
      have := ih (by simp)
      simp only [List.dropLast_cons_cons, toNat_cons, List.length_cons] at this ⊢
      have hl : (b :: b' :: bs').getLastD false = (b' :: bs').getLastD false := rfl
      rw [hl]
      generalize ((b' :: bs').getLastD false).toNat = t at *
      have hp : 2 ^ (bs'.length + 1 + 1 - 1) = 2 * 2 ^ (bs'.length + 1 - 1) := by
        have : bs'.length + 1 + 1 - 1 = (bs'.length + 1 - 1) + 1 := by omega
        rw [this, Nat.pow_succ]; omega
      rw [hp]
      generalize 2 ^ (bs'.length + 1 - 1) = P at *
      have : 2 * P * t = 2 * (P * t) := by grind
      omega

/-! ### sign extension -/

/-- Sign extension of a bit list to length `n`. -/
def sextTo (xs : List Bool) (n : Nat) : List Bool := xs ++ List.replicate (n - xs.length) (xs.getLastD false)

@[simp] theorem sextTo_length (xs : List Bool) (n : Nat) : (sextTo xs n).length = max xs.length n := by
  simp [sextTo]; omega

theorem sextTo_self (xs : List Bool) (n : Nat) (h : n ≤ xs.length) : sextTo xs n = xs := by
  have : n - xs.length = 0 := by omega
  simp [sextTo, this]

theorem getLastD_append_replicate (xs : List Bool) (k : Nat) (t : Bool) (hk : 0 < k) :
    (xs ++ List.replicate k t).getLastD false = t := by
  obtain ⟨k', rfl⟩ : ∃ k', k = k' + 1 := ⟨k - 1, by omega⟩
  rw [List.replicate_succ', ← List.append_assoc, List.getLastD_eq_getLast?]
  simp

/-- Sign extension does not change the two's complement value. -/
theorem toInt_sextTo (xs : List Bool) (n : Nat) (hne : xs ≠ []) : toInt (sextTo xs n) = toInt xs := by
  by_cases hk : n ≤ xs.length
  · rw [sextTo_self xs n hk]
  · have hkpos : 0 < n - xs.length := by omega
    have hlast : (sextTo xs n).getLastD false = xs.getLastD false :=
      getLastD_append_replicate xs _ _ hkpos
    have hrep := toNat_replicate_add (n - xs.length) (xs.getLastD false)
    have hlen : (sextTo xs n).length = n := by simp; omega
    have hval : toNat (sextTo xs n) = toNat xs + 2 ^ xs.length * toNat (List.replicate (n - xs.length) (xs.getLastD false)) := by
      simp only [sextTo]; exact toNat_append _ _
    have hpow : 2 ^ n = 2 ^ xs.length * 2 ^ (n - xs.length) := by rw [← Nat.pow_add]; congr 1; omega
    simp only [toInt, hlast, hlen, hval]
    have hc1 : ((2 : Int) ^ n) = ((2 ^ n : Nat) : Int) := by simp
    have hc2 : ((2 : Int) ^ xs.length) = ((2 ^ xs.length : Nat) : Int) := by simp
    rw [hc1, hc2, hpow]
    cases htop : xs.getLastD false with
    | false => rw [htop] at hrep; simp at hrep ⊢
    | true =>
      rw [htop] at hrep
      simp only [Bool.toNat_true, Nat.mul_one, if_true] at hrep ⊢
      generalize toNat (List.replicate (n - xs.length) true) = R at *
      generalize 2 ^ (n - xs.length) = K at *
      generalize 2 ^ xs.length = P at *
      have : P * K = P * R + P := by rw [← hrep, Nat.mul_add]; omega
      push_cast
      omega

end Mpc.Bld

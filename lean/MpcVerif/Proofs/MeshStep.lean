/-
Preservation of the invariant `Inv` (Proofs/Mesh.lean) by the steps of the
`Join`/`Connect` goroutines (the accept goroutine: Proofs/MeshAccept.lean).
-/
import MpcVerif.Proofs.Mesh

set_option linter.unusedSimpArgs false
set_option linter.unusedVariables false

namespace Mpc.Mesh

theorem sbit_congr (s s' : State) (j k : Nat) (h : s'.infl j = s.infl j) : sbit s' j k = sbit s j k := by
  simp [sbit, h]

theorem sbit_of_not_stored (s : State) (j k : Nat) (h : ∀ i, s.infl j ≠ .stored i k) : sbit s j k = 0 := by
  unfold sbit
  cases hi : s.infl j with
  | stored i k' =>
    by_cases e : k' = k
    · subst e; exact absurd hi (h i)
    · simp [e]
  | _ => rfl

theorem advance_ne_joined (c : Cfg) (s : State) (p k : Nat) : advance c s p k ≠ .joined := by
  unfold advance; split <;> simp

theorem infoPhase_ne_joined (c : Cfg) (s : State) (r : List Nat) : infoPhase c s r ≠ .joined := by
  cases r with
  | nil => exact advance_ne_joined c s 0 1
  | cons a l => simp [infoPhase]

/-- `phase' i = joined → phase i = joined` for a step that moves one party to a non-joined phase. -/
macro "phase_frame" : tactic => `(tactic| (
  intro i e; simp only [upd_apply] at e; split at e
  · first
    | (simp at e; done)
    | exact absurd e (advance_ne_joined _ _ _ _)
    | exact absurd e (infoPhase_ne_joined _ _ _)
  · exact e))

macro "acc_frame" : tactic => `(tactic| (
  intro j e; first | exact e | (simp only [upd_apply]; split <;> first | rfl | exact e)))

theorem inv_join (c : Cfg) (hc : c.Ok) (s s' : State) (h : Inv c s) (i : Nat)
    (hs : step c s (.join i) = some s') : Inv c s' := by
  simp only [step] at hs
  split at hs
  · rename_i hph
    split at hs
    · rename_i hi
      simp only [Option.some.injEq] at hs
      subst hs
      have hP := h.peer i hi.1 hi.2
      have hinit := hP.init hph
      have hn2 := hc.n2
      have hm1 := hc.m1
      have hi0 : i ≠ 0 := by omega
      refine ⟨h.notBad, ?_, ?_, ?_, ?_, ?_, ?_, ?_, ?_⟩
      · intro j
        have := h.infl j
        unfold InflInv at this ⊢
        simp only [upd3_apply, upd_apply]
        have h1 := hinit.1
        have h2 := hinit.2.2.2.1
        cases hi : s.infl j with
        | none => trivial
        | taken a k => rw [hi] at this; simp only; grind [Dials]
        | stored a k => rw [hi] at this; simp only; grind [Dials]
      · intro p hp; simp [upd_apply]; split
        · omega
        · exact h.outside p hp
      · intro p q k cn hcn
        simp only [upd3_apply] at hcn
        split at hcn
        · rename_i e; obtain ⟨rfl, rfl, rfl⟩ := e
          simp at hcn; subst hcn
          simp [wire]; omega
        · exact h.slot p q k cn hcn
      · intro a b k hd hcn
        simp only [upd3_apply] at hcn ⊢
        have := h.accSlot a b k hd
        grind [Dials]
      · intro a b k hp
        have := h.pendSlot a b k hp
        simp only [upd3_apply]
        grind [Dials]
      · intro a b k hd hcn
        simp only [upd3_apply, upd_apply] at hcn ⊢
        have := h.dialSlot a b k hd
        have := hinit.1
        grind [Dials]
      · apply h.leader.congr <;> first | (intro _; rfl) | exact Iff.rfl | simp [upd_apply, upd3_apply, Ne.symm hi0]
      · intro q hq hqn
        by_cases hqi : q = i
        · subst hqi
          refine ⟨?_, ?_, ?_, ?_, ?_, ?_⟩
          · simp [upd_apply]
          · intro _
            simp [upd_apply, upd3_apply, Ne.symm hi0, joinTable, hinit]
            exact h.acc_none ⟨hq, Or.inl rfl⟩ (hinit.1 0 0)
          · simp [upd_apply]
          · simp [upd_apply]
          · simp [upd_apply]
          · simp [upd_apply, prog]
        · apply (h.peer q hq hqn).congr <;> first | (intro _; rfl) | exact Iff.rfl | simp [upd_apply, upd3_apply, hqi, Ne.symm hi0]
    · simp at hs
  · simp at hs

theorem inv_lconnect (c : Cfg) (hc : c.Ok) (s s' : State) (h : Inv c s)
    (hs : step c s .lconnect = some s') : Inv c s' := by
  simp only [step] at hs
  split at hs
  · rename_i hph
    simp only [Option.some.injEq] at hs
    subst hs
    have hn2 := hc.n2
    have hm1 := hc.m1
    have hL := h.leader
    have hini := hL.initial hph
    refine ⟨h.notBad, h.infl_frame rfl rfl rfl (by acc_frame) (by phase_frame), ?_, h.slot, h.accSlot, h.pendSlot, (h.dialSlot_frame rfl rfl rfl (by
      intro i e; simp only [upd_apply]; split
      · rename_i e'; subst e'; simp [hph] at e
      · exact e)), ?_, ?_⟩
    · intro p hp
      have : p ≠ 0 := by omega
      simp [upd_apply, this]; exact h.outside p hp
    · refine ⟨?_, hL.np0, hL.knownMem, hL.knownNodup, hL.lenKnown, ?_, ?_, ?_, ?_, hL.mail0⟩
      · right; left; exact ⟨0, by omega, by simp [upd_apply]⟩
      · simp [upd_apply]
      · intro _
        refine ⟨by simp [upd_apply], ?_⟩
        intro k hk
        have : missing s 0 c.n k = c.n - 1 := missing_all_none s 0 c.n k (fun x _ => hini.2 x k)
        have hs0 : sbit s 0 k = 0 := by simp [sbit, h.infl_none hini.1]
        simp only [missing] at this ⊢
        simp [upd_apply, hk, this]
        exact hs0
      · intro k hk; simp [upd_apply, roundsDone] at hk
      · intro r hr; simp [upd_apply] at hr
    · intro q hq hqn
      have hq0 : q ≠ 0 := by omega
      apply (h.peer q hq hqn).congr <;> first | (intro _; rfl) | exact Iff.rfl | simp [upd_apply, hq0, hph, infoSentTo]
  · simp at hs

theorem inv_hello (c : Cfg) (hc : c.Ok) (s s' : State) (h : Inv c s) (i : Nat)
    (hs : step c s (.hello i) = some s') : Inv c s' := by
  simp only [step] at hs
  split at hs
  · rename_i hph
    simp only [Option.some.injEq] at hs
    subst hs
    have hn2 := hc.n2
    have hi0 : i ≠ 0 := by
      intro e; subst e
      rcases h.leader.shape with e | ⟨k, _, e⟩ | ⟨r, _, e⟩ | e <;> simp [hph] at e
    have hin : i < c.n := by
      apply Decidable.byContradiction; intro hn
      have := h.outside i (by omega); simp [hph] at this
    have hP := h.peer i (by omega) hin
    have hj := hP.joined hph
    have hnt : s.infl 0 ≠ .taken i 0 := by
      intro e
      have := h.infl 0
      unfold InflInv at this
      rw [e] at this
      exact this.2.2.2.2.2.2 rfl rfl hph
    refine ⟨h.notBad, ?_, ?_, h.slot, ?_, ?_, ?_, ?_, ?_⟩
    · intro j
      have := h.infl j
      unfold InflInv at this ⊢
      simp only [upd3_apply, upd_apply]
      cases hi : s.infl j with
      | none => trivial
      | taken a k => rw [hi] at this; simp only; grind [Dials]
      | stored a k => rw [hi] at this; simp only; grind [Dials]
    · intro p hp
      have : p ≠ i := by omega
      simp [upd_apply, this]; exact h.outside p hp
    · intro a b k hd hcn
      have := h.accSlot a b k hd hcn
      refine ⟨this.1, ?_⟩
      simp only [upd3_apply]
      split
      · rename_i e; obtain ⟨rfl, rfl, rfl⟩ := e
        simp [hj.2.2.1] at hcn
      · exact this.2
    · intro a b k hp
      simp only [upd3_apply] at hp
      split at hp
      · rename_i e; obtain ⟨rfl, rfl, rfl⟩ := e
        exact ⟨⟨by omega, Or.inl rfl⟩, by simp [hj.1, joinTable], hj.2.2.1, by omega⟩
      · exact h.pendSlot a b k hp
    · intro a b k hd hcn
      simp only [upd3_apply, upd_apply] at hcn ⊢
      have := h.dialSlot a b k hd hcn
      have := hj.1
      grind [joinTable]
    · apply h.leader.congr <;> first | (intro _; rfl) | exact Iff.rfl | simp [upd_apply, Ne.symm hi0]
    · intro q hq hqn
      by_cases hqi : q = i
      · subst hqi
        refine ⟨?_, ?_, ?_, ?_, ?_, ?_⟩
        · simp [upd_apply]
        · simp [upd_apply]
        · intro _
          simp only [upd_apply, Ne.symm hi0, if_false]
          refine ⟨hj.1, ?_, hj.2.2.2.2.1, hj.2.2.2.2.2.1, ?_, ?_⟩
          · intro j k
            simp only [upd3_apply]
            split
            · rename_i e; obtain ⟨rfl, -, rfl⟩ := e
              simp [hj.2.2.1, hnt]
            · rename_i e
              simp [hj.2.1 j k]
              intro e1 e2; exact absurd ⟨e1, trivial, e2⟩ e
          · simp [hj.2.2.2.1, hj.2.2.2.2.2.2]
          · intro l hl; simp [hj.2.2.2.1] at hl
        · simp [upd_apply]
        · simp [upd_apply]
        · simp [upd_apply, prog]
      · apply (h.peer q hq hqn).congr <;> first | (intro _; rfl) | exact Iff.rfl | simp [upd_apply, upd3_apply, hqi, Ne.symm hi0]
  · simp at hs

/-- A party whose phase is `run` is a peer in range (the leader never has
something to dial). -/
theorem Inv.run_peer {c : Cfg} {s : State} (h : Inv c s) {i k j : Nat} {rest : List Nat}
    (hph : s.phase i = .run k (j :: rest)) : 0 < i ∧ i < c.n := by
  constructor
  · apply Nat.pos_of_ne_zero; intro e; subst e
    rcases h.leader.shape with e | ⟨k, _, e⟩ | ⟨r, _, e⟩ | e <;> simp [hph] at e
  · apply Decidable.byContradiction; intro hn
    have := h.outside i (by omega); simp [hph] at this

theorem inv_dial (c : Cfg) (hc : c.Ok) (s s' : State) (h : Inv c s) (i : Nat)
    (hs : step c s (.dial i) = some s') : Inv c s' := by
  simp only [step] at hs
  split at hs
  · rename_i k j rest hph
    have hn2 := hc.n2
    have hm256 := hc.m256
    obtain ⟨hi, hin⟩ := h.run_peer hph
    have hi0 : i ≠ 0 := by omega
    have hP := h.peer i hi hin
    have hk := hP.runLt k _ hph
    have hA := hP.active k (j :: rest) (by simp [hph, prog])
    obtain ⟨pre, hpre, hdial⟩ := hA.dialed
    have hpre := hpre hk
    have hjt : j ∈ targets s i k := by rw [hpre]; simp
    have hjt' := (hA.mem_targets hi j).mp hjt
    have hnd := hA.targets_nodup
    rw [hpre] at hnd
    have hjpre : j ∉ pre := by
      intro hj
      have := (List.nodup_append.mp hnd).2.2 j hj j (by simp)
      exact this rfl
    have hjrest : j ∉ rest := by
      have := (List.nodup_append.mp hnd).2.1
      exact (List.nodup_cons.mp this).1
    have hD : Dials i j := by
      refine ⟨hi, ?_⟩
      by_cases hj0 : j = 0
      · exact Or.inl hj0
      · right; simpa [hj0] using hjt'.2
    have hij : i ≠ j := by rcases hD.2 with e | e <;> omega
    have hnone : s.conn i j k = none := by
      cases hcn : s.conn i j k with
      | none => rfl
      | some v =>
        have := (hdial j k hD).mp (by simp [hcn])
        rcases this.2 with ⟨e1, e2⟩ | e | ⟨_, _, e⟩
        · simp [e1, e2] at hjt'
        · omega
        · exact absurd e hjpre
    have hacc_none : s.conn j i k = none := h.acc_none hD hnone
    have hjph : j ≠ 0 → s.phase j ≠ .init := by
      intro hj0
      have := h.past0 hc hA.sent j (by omega) hjt'.1
      exact (h.peer_started (by omega) hjt'.1 this).1
    split at hs
    · omega
    · rename_i hk255
      rw [helloId_of_le k hk255] at hs
      split at hs
      · rename_i e; exact absurd e.2 (hjph e.1)
      · simp only [hnone, Option.some.injEq] at hs
        subst hs
        refine ⟨h.notBad, ?_, ?_, ?_, ?_, ?_, ?_, ?_, ?_⟩
        · intro j'
          have := h.infl j'
          unfold InflInv at this ⊢
          simp only [upd3_apply, upd_apply]
          cases hi : s.infl j' with
          | none => trivial
          | taken a k' => rw [hi] at this; simp only; grind [Dials]
          | stored a k' => rw [hi] at this; simp only; grind [Dials]
        · intro p hp
          have : p ≠ i := by omega
          simp [upd_apply, this]; exact h.outside p hp
        · intro p q k' cn hcn
          simp only [upd3_apply] at hcn
          split at hcn
          · rename_i e; obtain ⟨e1, e2, e3⟩ := e
            simp at hcn; subst hcn
            rw [e1, e2, e3]
            refine ⟨?_, hij, hin, hjt'.1, hk⟩
            simp only [wire]
            rcases hD.2 with e | e
            · simp [e]
            · have : j ≠ 0 := by omega
              simp [this, hi0, e]
          · exact h.slot p q k' cn hcn
        · intro a b k' hd hcn
          simp only [upd3_apply] at hcn ⊢
          have := h.accSlot a b k' hd
          grind [Dials]
        · intro a b k' hp
          simp only [upd3_apply] at hp ⊢
          have := h.pendSlot a b k'
          grind [Dials]
        · intro a b k' hd hcn
          simp only [upd3_apply, upd_apply] at hcn ⊢
          have := h.dialSlot a b k' hd
          grind [Dials]
        · apply h.leader.congr <;> first | (intro _; rfl) | exact Iff.rfl | simp [upd_apply, upd3_apply, Ne.symm hi0]
        · intro q hq hqn
          by_cases hqi : q = i
          · subst hqi
            refine ⟨?_, ?_, ?_, ?_, ?_, ?_⟩
            · simp [upd_apply]
            · simp [upd_apply]
            · simp [upd_apply]
            · simp [upd_apply]
            · simp [upd_apply]; exact hk
            · intro k' todo hp
              simp [upd_apply, prog] at hp
              obtain ⟨e1, e2⟩ := hp
              subst e1 e2
              refine ⟨hA.kle, ?_, ?_, ?_, ?_, ?_, ?_, ?_, ?_, ?_⟩
              · simpa [upd_apply, Ne.symm hi0] using hA.sent
              · exact hA.nomail
              · exact hA.acc
              · exact hA.np
              · exact hA.knownMem
              · exact hA.knownNodup
              · refine ⟨pre ++ [j], ?_, ?_⟩
                · intro _
                  show targets s q k = _
                  rw [hpre]; simp
                · intro j' k'' hd'
                  have := hdial j' k'' hd'
                  simp only [upd3_apply]
                  split
                  · rename_i e; obtain ⟨-, e1, e2⟩ := e
                    rw [e1, e2]
                    simp [hjt'.1, hk]
                  · rename_i e
                    rw [this]
                    simp only [List.mem_append, List.mem_singleton]
                    constructor
                    · rintro ⟨h1, h2 | h2 | ⟨h2, h3, h4⟩⟩
                      · exact ⟨h1, Or.inl h2⟩
                      · exact ⟨h1, Or.inr (Or.inl h2)⟩
                      · exact ⟨h1, Or.inr (Or.inr ⟨h2, h3, Or.inl h4⟩)⟩
                    · rintro ⟨h1, h2 | h2 | ⟨h2, h3, h4 | h4⟩⟩
                      · exact ⟨h1, Or.inl h2⟩
                      · exact ⟨h1, Or.inr (Or.inl h2)⟩
                      · exact ⟨h1, Or.inr (Or.inr ⟨h2, h3, h4⟩)⟩
                      · exact absurd ⟨trivial, h4, h2⟩ e
              · intro k'' hk''
                rw [hA.need k'' hk'']
                symm
                congr 1
                apply missing_congr
                intro y hy0 hyq
                simp only [upd3_apply]
                split
                · rename_i e
                  rcases hD.2 with e' | e' <;> omega
                · rfl
              · exact hA.waited
          · apply (h.peer q hq hqn).congr <;> first | (intro _; rfl) | exact Iff.rfl | simp [upd_apply, upd3_apply, hqi, Ne.symm hi0]
  · simp at hs

theorem targets_leader (s : State) (k : Nat) : targets s 0 k = [] := by simp [targets]

theorem infoSentTo_infoPhase (c : Cfg) (hc : c.Ok) (s : State) (rest : List Nat) (q : Nat) :
    infoSentTo (infoPhase c s rest) q ↔ q ∉ rest := by
  cases rest with
  | nil =>
    simp only [infoPhase, advance]
    split <;> simp [infoSentTo]
  | cons a l => simp [infoPhase, infoSentTo]

theorem inv_info (c : Cfg) (hc : c.Ok) (s s' : State) (h : Inv c s)
    (hs : step c s .info = some s') : Inv c s' := by
  simp only [step] at hs
  split at hs
  · rename_i j rest hph
    simp only [Option.some.injEq] at hs
    subst hs
    have hn2 := hc.n2
    have hm1 := hc.m1
    have hL := h.leader
    have hne : s.phase 0 ≠ .init := by simp [hph]
    have h00 : s.need 0 0 = 0 := hL.waited 0 (by simp [hph, roundsDone]) (by omega)
    obtain ⟨hkm, hklen, hall⟩ := h.leader_all hc h00 hne
    obtain ⟨hrnd, hrmem⟩ := hL.infoRest _ hph
    have hjr : j ∉ rest := (List.nodup_cons.mp hrnd).1
    have hj := hrmem j (by simp)
    have hj0 : j ≠ 0 := by omega
    have hjw := h.peer_waiting hj.1 hj.2 (hall j hj.1 hj.2) (by simp [hph, infoSentTo])
    have hgood : GoodMail c j ((s.known 0).filter fun q => decide (q ≠ 0 ∧ q ≠ j)) := by
      refine ⟨List.Nodup.sublist List.filter_sublist hL.knownNodup, ?_, ?_⟩
      · intro x; simp [List.mem_filter, hkm]; omega
      · have e : ((s.known 0).filter fun q => decide (q ≠ 0 ∧ q ≠ j)) =
            ((s.known 0).filter (fun x => decide (x ≠ 0))).filter (fun x => decide (x ≠ j)) := by
          rw [List.filter_filter]; apply List.filter_congr; intro x _; simp [And.comm]
        rw [e]
        have h1 := length_filter_ne (s.known 0) hL.knownNodup 0 ((hkm 0).mpr (by omega))
        have h2 := length_filter_ne ((s.known 0).filter (fun x => decide (x ≠ 0)))
          (List.Nodup.sublist List.filter_sublist hL.knownNodup) j
          (by simp [List.mem_filter, hkm, hj.2, hj0])
        omega
    refine ⟨h.notBad, h.infl_frame rfl rfl rfl (by acc_frame) (by phase_frame), ?_, h.slot, h.accSlot, h.pendSlot, (h.dialSlot_frame rfl rfl rfl (by
      intro i e; simp only [upd_apply]; split
      · rename_i e'; subst e'; simp [hph] at e
      · exact e)), ?_, ?_⟩
    · intro p hp
      have : p ≠ 0 := by omega
      simp [upd_apply, this]; exact h.outside p hp
    · refine ⟨?_, hL.np0, hL.knownMem, hL.knownNodup, hL.lenKnown, ?_, ?_, ?_, ?_, ?_⟩
      · simp only [upd_apply, if_true]
        cases rest with
        | nil =>
          simp only [infoPhase, advance, targets_leader]
          split
          · right; left; exact ⟨1, by omega, rfl⟩
          · right; right; right; rfl
        | cons a l => right; right; left; exact ⟨a :: l, by simp, rfl⟩
      · intro e
        simp only [upd_apply, if_true] at e
        cases rest with
        | nil => simp only [infoPhase, advance] at e; split at e <;> simp at e
        | cons a l => simp [infoPhase] at e
      · intro _
        exact hL.started hne
      · intro k hk hkm'
        simp only [upd_apply, if_true] at hk
        have : k = 0 := by
          cases rest with
          | nil =>
            simp only [infoPhase, advance] at hk
            split at hk <;> simp [roundsDone] at hk <;> omega
          | cons a l => simp [infoPhase, roundsDone] at hk; omega
        subst this; exact h00
      · intro r hr
        simp only [upd_apply, if_true] at hr
        cases rest with
        | nil => simp only [infoPhase, advance] at hr; split at hr <;> simp at hr
        | cons a l =>
          simp [infoPhase] at hr; subst hr
          exact ⟨(List.nodup_cons.mp hrnd).2, fun x hx => hrmem x (by simp [hx])⟩
      · simp [upd_apply, Ne.symm hj0]; exact hL.mail0
    · intro q hq hqn
      have hq0 : q ≠ 0 := by omega
      by_cases hqj : q = j
      · subst hqj
        have hPq := h.peer q hq hqn
        have hh := hPq.hello hjw.1
        refine ⟨?_, ?_, ?_, ?_, ?_, ?_⟩
        · simp [upd_apply, hq0, hjw.1]
        · simp [upd_apply, hq0, hjw.1]
        · intro _
          simp only [upd_apply, hq0, if_false, if_true]
          refine ⟨hh.1, hh.2.1, hh.2.2.1, hh.2.2.2.1, ?_, ?_⟩
          · simp [infoSentTo_infoPhase c hc, hjr]
          · intro l hl
            simp only [Option.some.injEq] at hl; subst hl; exact hgood
        · simp [upd_apply, hq0, hjw.1]
        · simp [upd_apply, hq0, hjw.1]
        · simp [upd_apply, hq0, hjw.1, prog]
      · apply (h.peer q hq hqn).congr <;> first | (intro _; rfl) | exact Iff.rfl | simp [upd_apply, hq0, hqj, hph]
        rw [infoSentTo_infoPhase c hc]; simp [infoSentTo, hqj]
  · simp at hs

theorem inv_waitDone_leader0 (c : Cfg) (hc : c.Ok) (s : State) (h : Inv c s)
    (hph : s.phase 0 = .run 0 []) (h00 : s.need 0 0 = 0) (R : List Nat)
    (hR : R = (s.known 0).filter (· ≠ 0)) :
    Inv c { s with phase := upd s.phase 0 (infoPhase c s R) } := by
  have hn2 := hc.n2
  have hm1 := hc.m1
  have hL := h.leader
  have hne : s.phase 0 ≠ .init := by simp [hph]
  obtain ⟨hkm, hklen, hall⟩ := h.leader_all hc h00 hne
  have hrm : ∀ x, x ∈ R ↔ 0 < x ∧ x < c.n := by
    intro x; subst hR; simp [List.mem_filter, hkm]; omega
  have hRn : R.Nodup := by subst hR; exact List.Nodup.sublist List.filter_sublist hL.knownNodup
  obtain ⟨a, l, hal⟩ : ∃ a l, R = a :: l := by
    cases hr : R with
    | nil => have := (hrm 1).mpr (by omega); rw [hr] at this; simp at this
    | cons a l => exact ⟨a, l, rfl⟩
  have hip : infoPhase c s R = .info R := by
    rw [hal]; rfl
  rw [hip]
  refine ⟨h.notBad, h.infl_frame rfl rfl rfl (by acc_frame) (by phase_frame), ?_, h.slot, h.accSlot, h.pendSlot, (h.dialSlot_frame rfl rfl rfl (by
      intro i e; simp only [upd_apply]; split
      · rename_i e'; subst e'; simp [hph] at e
      · exact e)), ?_, ?_⟩
  · intro p hp
    have : p ≠ 0 := by omega
    simp [upd_apply, this]; exact h.outside p hp
  · refine ⟨?_, hL.np0, hL.knownMem, hL.knownNodup, hL.lenKnown, ?_, ?_, ?_, ?_, hL.mail0⟩
    · right; right; left; exact ⟨R, by rw [hal]; simp, by simp [upd_apply]⟩
    · simp [upd_apply]
    · intro _; exact hL.started hne
    · intro k hk hkm'
      simp [upd_apply, roundsDone] at hk
      subst hk; exact h00
    · intro r hr
      simp [upd_apply] at hr; subst hr
      exact ⟨hRn, fun x hx => (hrm x).mp hx⟩
  · intro q hq hqn
    have hq0 : q ≠ 0 := by omega
    apply (h.peer q hq hqn).congr <;> first | (intro _; rfl) | exact Iff.rfl | simp [upd_apply, hq0, hph, infoSentTo]
    exact (hrm q).mpr ⟨hq, hqn⟩

theorem infoSentTo_advance_succ (c : Cfg) (s : State) (p k q : Nat) :
    infoSentTo (advance c s p (k + 1)) q := by
  unfold advance
  by_cases h : k + 1 < c.m <;> simp [h, infoSentTo]

theorem inv_waitDone_leader (c : Cfg) (hc : c.Ok) (s : State) (h : Inv c s) (k : Nat)
    (hph : s.phase 0 = .run (k + 1) []) (h0 : s.need 0 (k + 1) = 0) :
    Inv c { s with phase := upd s.phase 0 (advance c s 0 (k + 1 + 1)) } := by
  have hn2 := hc.n2
  have hm1 := hc.m1
  have hL := h.leader
  have hne : s.phase 0 ≠ .init := by simp [hph]
  have hk : k + 1 < c.m := by
    rcases hL.shape with e | ⟨k', hk', e⟩ | ⟨r, _, e⟩ | e <;> simp [hph] at e
    omega
  refine ⟨h.notBad, h.infl_frame rfl rfl rfl (by acc_frame) (by phase_frame), ?_, h.slot, h.accSlot, h.pendSlot, (h.dialSlot_frame rfl rfl rfl (by
      intro i e; simp only [upd_apply]; split
      · rename_i e'; subst e'; simp [hph] at e
      · exact e)), ?_, ?_⟩
  · intro p hp
    have : p ≠ 0 := by omega
    simp [upd_apply, this]; exact h.outside p hp
  · refine ⟨?_, hL.np0, hL.knownMem, hL.knownNodup, hL.lenKnown, ?_, ?_, ?_, ?_, hL.mail0⟩
    · simp only [upd_apply, if_true, advance, targets_leader]
      split
      · right; left; exact ⟨k + 1 + 1, by omega, rfl⟩
      · right; right; right; rfl
    · simp only [upd_apply, if_true, advance]; split <;> simp
    · intro _; exact hL.started hne
    · intro k' hk' hkm'
      by_cases e : k' = k + 1
      · subst e; exact h0
      · apply hL.waited k' _ hkm'
        simp only [upd_apply, if_true, advance] at hk'
        split at hk' <;> simp [roundsDone] at hk' <;> simp [hph, roundsDone] <;> omega
    · intro r hr
      simp only [upd_apply, if_true, advance] at hr; split at hr <;> simp at hr
  · intro q hq hqn
    have hq0 : q ≠ 0 := by omega
    apply (h.peer q hq hqn).congr <;> first | (intro _; rfl) | exact Iff.rfl | simp [upd_apply, hq0, hph, infoSentTo]
    exact infoSentTo_advance_succ c s 0 (k + 1) q

theorem inv_waitDone_peer (c : Cfg) (hc : c.Ok) (s : State) (h : Inv c s) (p k : Nat) (hp0 : p ≠ 0)
    (hph : s.phase p = .run k []) (h0 : s.need p k = 0) :
    Inv c { s with phase := upd s.phase p (advance c s p (k + 1)) } := by
  have hn2 := hc.n2
  have hm1 := hc.m1
  have hpn : p < c.n := by
    apply Decidable.byContradiction; intro hn
    have := h.outside p (by omega); simp [hph] at this
  have hpp : 0 < p := by omega
  have hP := h.peer p hpp hpn
  have hk := hP.runLt k _ hph
  have hA := hP.active k [] (by simp [hph, prog])
  obtain ⟨pre, hpre, hdial⟩ := hA.dialed
  have hpre := hpre hk
  simp only [List.append_nil] at hpre
  refine ⟨h.notBad, h.infl_frame rfl rfl rfl (by acc_frame) (by phase_frame), ?_, h.slot, h.accSlot, h.pendSlot, (h.dialSlot_frame rfl rfl rfl (by
      intro i e; simp only [upd_apply]; split
      · rename_i e'; subst e'; simp [hph] at e
      · exact e)), ?_, ?_⟩
  · intro q hq
    have : q ≠ p := by omega
    simp [upd_apply, this]; exact h.outside q hq
  · apply h.leader.congr <;> first | (intro _; rfl) | exact Iff.rfl | simp [upd_apply, Ne.symm hp0]
  · intro q hq hqn
    by_cases hqp : q = p
    · subst hqp
      have hnew : ActiveInv c s q (k + 1) (if k + 1 < c.m then targets s q (k + 1) else []) := by
        refine ⟨by omega, hA.sent, hA.nomail, hA.acc, hA.np, hA.knownMem, hA.knownNodup, ?_, hA.need, ?_⟩
        · refine ⟨[], ?_, ?_⟩
          · intro hlt; simp [hlt]
          · intro j k' hd
            rw [hdial j k' hd]
            have hmt := hA.mem_targets hpp j
            rw [hpre] at hmt
            simp only [List.not_mem_nil, and_false, or_false]
            constructor
            · rintro ⟨h1, h2 | h2 | ⟨h2, h3, h4⟩⟩
              · exact ⟨h1, Or.inl h2⟩
              · exact ⟨h1, Or.inr ⟨by omega, h2.2⟩⟩
              · exact ⟨h1, Or.inr ⟨by omega, by omega⟩⟩
            · rintro ⟨h1, h2 | ⟨h2, h3⟩⟩
              · exact ⟨h1, Or.inl h2⟩
              · refine ⟨h1, ?_⟩
                by_cases e : k' = k
                · subst e
                  by_cases hj0 : j = 0
                  · by_cases hk0 : k' = 0
                    · exact Or.inl ⟨hj0, hk0⟩
                    · right; right; exact ⟨rfl, hk, hmt.mpr ⟨h1, by simp [hj0, hk0]⟩⟩
                  · right; right
                    refine ⟨rfl, hk, hmt.mpr ⟨h1, ?_⟩⟩
                    rcases hd.2 with e | e
                    · exact absurd e hj0
                    · simp [hj0, e]
                · exact Or.inr (Or.inl ⟨by omega, h3⟩)
        · intro k' hk' hkm
          by_cases e : k' = k
          · subst e; exact h0
          · exact hA.waited k' (by omega) hkm
      refine ⟨?_, ?_, ?_, ?_, ?_, ?_⟩
      · simp only [upd_apply, if_true, advance]; split <;> simp
      · simp only [upd_apply, if_true, advance]; split <;> simp
      · simp only [upd_apply, if_true, advance]; split <;> simp
      · simp only [upd_apply, if_true, advance]; split <;> simp
      · intro k' todo
        simp only [upd_apply, if_true, advance]; split
        · simp; intro e _; omega
        · simp
      · intro k' todo hp
        simp only [upd_apply, if_true, advance] at hp
        by_cases hlt : k + 1 < c.m
        · simp [hlt, prog] at hp
          obtain ⟨e1, e2⟩ := hp
          subst e1 e2
          have := hnew
          simp only [hlt, if_true] at this
          exact this.congr (by simp [upd_apply, hp0, Ne.symm hp0]) rfl rfl rfl rfl (fun _ _ => rfl) (fun _ => rfl) (fun _ => rfl)
        · simp [hlt, prog] at hp
          obtain ⟨e1, e2⟩ := hp
          subst e1 e2
          have := hnew
          simp only [hlt, if_false] at this
          have e : k + 1 = c.m := by omega
          rw [e] at this
          exact this.congr (by simp [upd_apply, hp0, Ne.symm hp0]) rfl rfl rfl rfl (fun _ _ => rfl) (fun _ => rfl) (fun _ => rfl)
    · apply (h.peer q hq hqn).congr <;> first | (intro _; rfl) | exact Iff.rfl | simp [upd_apply, hqp, hp0, Ne.symm hp0]

theorem inv_waitDone (c : Cfg) (hc : c.Ok) (s s' : State) (h : Inv c s) (p : Nat)
    (hs : step c s (.waitDone p) = some s') : Inv c s' := by
  simp only [step] at hs
  split at hs
  · rename_i k hph
    split at hs
    · rename_i h0
      split at hs
      · rename_i e
        obtain ⟨e1, e2⟩ := e
        subst e1 e2
        simp only [Option.some.injEq] at hs
        subst hs
        exact inv_waitDone_leader0 c hc s h hph h0 _ rfl
      · rename_i e
        simp only [Option.some.injEq] at hs
        subst hs
        by_cases hp0 : p = 0
        · subst hp0
          cases k with
          | zero => simp at e
          | succ k => exact inv_waitDone_leader c hc s h k hph h0
        · exact inv_waitDone_peer c hc s h p k hp0 hph h0
    · simp at hs
  · simp at hs

theorem inv_recvInfo (c : Cfg) (hc : c.Ok) (s s' : State) (h : Inv c s) (i : Nat)
    (hs : step c s (.recvInfo i) = some s') : Inv c s' := by
  simp only [step] at hs
  split at hs
  · rename_i l hph hml
    have hn2 := hc.n2
    have hm1 := hc.m1
    have hi0 : i ≠ 0 := by
      intro e; subst e
      rcases h.leader.shape with e | ⟨k, _, e⟩ | ⟨r, _, e⟩ | e <;> simp [hph] at e
    have hin : i < c.n := by
      apply Decidable.byContradiction; intro hn
      have := h.outside i (by omega); simp [hph] at this
    have hip : 0 < i := by omega
    have hP := h.peer i hip hin
    have hh := hP.hello hph
    obtain ⟨hlnd, hlmem, hllen⟩ := hh.2.2.2.2.2 l hml
    have hsent : infoSentTo (s.phase 0) i := hh.2.2.2.2.1.mp (by simp [hml])
    have hany : (l.any fun q => decide (2 + l.length ≤ q)) = false := by
      rw [List.any_eq_false]
      intro q hq
      have := (hlmem q).mp hq
      simp; omega
    rw [if_neg (by simp [hany])] at hs
    simp only [Option.some.injEq] at hs
    subst hs
    have hkm : ∀ x, x ∈ l.foldl (fun kn q => ins q kn) (s.known i) ↔ x < c.n := by
      intro x
      rw [mem_foldl_ins, hh.2.2.2.1, hlmem]
      simp; omega
    have hknd : (l.foldl (fun kn q => ins q kn) (s.known i)).Nodup := by
      apply nodup_foldl_ins _ _ hlnd
      · intro q hq
        have := (hlmem q).mp hq
        rw [hh.2.2.2.1]; simp; omega
      · rw [hh.2.2.2.1]; simp; omega
    have hna : (l.filter (fun x => decide (x < i))).length = i - 1 := by
      apply length_of_mem_iff _ (List.Nodup.sublist List.filter_sublist hlnd)
      intro x; simp [List.mem_filter, hlmem]; omega
    refine ⟨h.notBad, h.infl_frame rfl rfl rfl (by acc_frame) (by phase_frame), ?_, h.slot, h.accSlot, h.pendSlot, (h.dialSlot_frame rfl rfl rfl (by
      intro i e; simp only [upd_apply]; split
      · rename_i e'; subst e'; simp [hph] at e
      · exact e)), ?_, ?_⟩
    · intro p hp
      have : p ≠ i := by omega
      simp [upd_apply, this]; exact h.outside p hp
    · apply h.leader.congr <;> first | (intro _; rfl) | exact Iff.rfl | simp [upd_apply, Ne.symm hi0]
    · intro q hq hqn
      by_cases hqi : q = i
      · subst hqi
        have hadv : ∀ st : State, advance c st q 0 = .run 0 (targets st q 0) := by
          intro st; simp [advance]; omega
        refine ⟨?_, ?_, ?_, ?_, ?_, ?_⟩
        · simp [upd_apply, hadv]
        · simp [upd_apply, hadv]
        · simp [upd_apply, hadv]
        · simp [upd_apply, hadv]
        · simp [upd_apply, hadv]; omega
        · intro k todo hp
          simp only [upd_apply, if_true, hadv, prog, Option.some.injEq, Prod.mk.injEq] at hp
          obtain ⟨e1, e2⟩ := hp
          subst e1 e2
          refine ⟨by omega, ?_, ?_, ?_, ?_, ?_, ?_, ?_, ?_, ?_⟩
          · simpa [upd_apply, Ne.symm hi0] using hsent
          · simp [upd_apply]
          · simp [upd_apply]
          · simp [upd_apply]; omega
          · simpa [upd_apply] using hkm
          · simpa [upd_apply] using hknd
          · refine ⟨[], ?_, ?_⟩
            · intro _; simp [targets, upd_apply]
            · intro j k' hd
              show (s.conn q j k').isSome = true ↔ _
              rw [hh.1 j k']
              simp [joinTable]
              intro e1 e2; omega
          · intro k' hk'
            simp only [upd_apply, if_true, hk']
            rw [hna]
            have hs0 : sbit s q k' = 0 := by simp [sbit, h.infl_none hh.2.2.1]
            have hm0 : missing s q q k' = q - 1 := by
              apply missing_all_none
              intro x hx
              rw [hh.1 x k']; simp [joinTable]; omega
            symm
            show missing s q q k' + sbit s q k' = q - 1
            omega
          · intro k' hk'; omega
      · apply (h.peer q hq hqn).congr <;> first | (intro _; rfl) | exact Iff.rfl | simp [upd_apply, hqi, Ne.symm hi0]
  · simp at hs

/-- Facts about a pending connection in an invariant state. -/
structure PendFacts (c : Cfg) (s : State) (j i k : Nat) : Prop where
  dials : Dials i j
  dset : (s.conn i j k).isSome
  anone : s.conn j i k = none
  jn : j < c.n
  inn : i < c.n
  km : k < c.m
  ij : i ≠ j

theorem Inv.pendFacts {c : Cfg} {s : State} (h : Inv c s) {j i k : Nat} (hp : s.pend j i k = true) :
    PendFacts c s j i k := by
  obtain ⟨hd, hset, hnone, hjn⟩ := h.pendSlot i j k hp
  cases hcn : s.conn i j k with
  | none => simp [hcn] at hset
  | some v =>
    have := h.slot i j k v hcn
    exact ⟨hd, hset, hnone, hjn, this.2.2.1, this.2.2.2.2, this.2.1⟩

/-- A peer whose accept goroutine runs is past `connectPeerToLeader`. -/
theorem Inv.acc_active {c : Cfg} {s : State} (h : Inv c s) {j : Nat} (hj : 0 < j) (hjn : j < c.n)
    (hacc : s.acc j = true) : ∃ k todo, prog c (s.phase j) = some (k, todo) := by
  have hP := h.peer j hj hjn
  cases hph : s.phase j with
  | init => have := (hP.init hph).2.2.2.1; simp [hacc] at this
  | joined => have := (hP.joined hph).2.2.2.2.1; simp [hacc] at this
  | hello => have := (hP.hello hph).2.2.1; simp [hacc] at this
  | run k t => exact ⟨k, t, rfl⟩
  | info r => exact absurd hph (hP.notInfo r)
  | done => exact ⟨c.m, [], rfl⟩

theorem Inv.need_pos {c : Cfg} {s : State} (h : Inv c s) {j i k : Nat}
    (hp : s.pend j i k = true) (hacc : s.acc j = true) : 0 < s.need j k := by
  have hf := h.pendFacts hp
  by_cases hj0 : j = 0
  · subst hj0
    have hne : s.phase 0 ≠ .init := by
      intro e; have := (h.leader.initial e).1; simp [hacc] at this
    rw [(h.leader.started hne).2 k hf.km]
    exact Nat.lt_of_lt_of_le (missing_pos s 0 c.n k i hf.dials.1 hf.inn hf.anone) (Nat.le_add_right _ _)
  · obtain ⟨k0, todo, hpr⟩ := h.acc_active (by omega) hf.jn hacc
    have hA := (h.peer j (by omega) hf.jn).active k0 todo hpr
    rw [hA.need k hf.km]
    have : i < j := by rcases hf.dials.2 with e | e <;> omega
    exact Nat.lt_of_lt_of_le (missing_pos s j j k i hf.dials.1 this hf.anone) (Nat.le_add_right _ _)

/-- A peer that has dialled the leader for a connection id above 0 is in the leader's list. -/
theorem Inv.dialer_known {c : Cfg} {s : State} (h : Inv c s) (hc : c.Ok) {i k : Nat} (hi : 0 < i)
    (hin : i < c.n) (hset : (s.conn i 0 k).isSome) (hk : k ≠ 0) : i ∈ s.known 0 := by
  have hP := h.peer i hi hin
  have hi0 : i ≠ 0 := by omega
  have fromSent : infoSentTo (s.phase 0) i → i ∈ s.known 0 := by
    intro hsent
    rw [h.leader.knownMem]; right
    exact h.past0 hc hsent i hi hin
  cases hph : s.phase i with
  | init => simp [(hP.init hph).1] at hset
  | joined => simp [(hP.joined hph).1, joinTable, hk] at hset
  | hello => simp [(hP.hello hph).1, joinTable, hk] at hset
  | run k' t => exact fromSent (hP.active k' t (by simp [hph, prog])).sent
  | info r => exact absurd hph (hP.notInfo r)
  | done => exact fromSent (hP.active c.m [] (by simp [hph, prog])).sent

end Mpc.Mesh

/-
Preservation of the invariant `Inv` (Proofs/Mesh.lean) by every step of the
atomic mesh system.
-/
import MpcVerif.Proofs.Mesh

set_option linter.unusedSimpArgs false
set_option linter.unusedVariables false

namespace Mpc.Mesh

theorem inv_join (c : Cfg) (hc : c.Ok) (s s' : State) (h : Inv c s) (i : Nat)
    (hs : step c s (.join i) = some s') : Inv c s' := by
  simp only [step] at hs
  split at hs
  · rename_i hph
    split at hs
    · rename_i hi
      simp only [Option.some.injEq] at hs
      subst hs
      have hP := h.peer i hi.1 hi.2
      have hinit := hP.init hph
      have hn2 := hc.n2
      have hm1 := hc.m1
      have hi0 : i ≠ 0 := by omega
      refine ⟨h.notBad, h.noInfl, ?_, ?_, ?_, ?_, ?_, ?_, ?_⟩
      · intro p hp; simp [upd_apply]; split
        · omega
        · exact h.outside p hp
      · intro p q k cn hcn
        simp only [upd3_apply] at hcn
        split at hcn
        · rename_i e; obtain ⟨rfl, rfl, rfl⟩ := e
          simp at hcn; subst hcn
          simp [wire]; omega
        · exact h.slot p q k cn hcn
      · intro a b k hd hcn
        simp only [upd3_apply] at hcn ⊢
        have := h.accSlot a b k hd
        grind [Dials]
      · intro a b k hp
        have := h.pendSlot a b k hp
        simp only [upd3_apply]
        grind [Dials]
      · intro a b k hd hcn
        simp only [upd3_apply, upd_apply] at hcn ⊢
        have := h.dialSlot a b k hd
        have := hinit.1
        grind [Dials]
      · apply h.leader.congr <;> simp [upd_apply, upd3_apply, Ne.symm hi0]
      · intro q hq hqn
        by_cases hqi : q = i
        · subst hqi
          refine ⟨?_, ?_, ?_, ?_, ?_, ?_⟩
          · simp [upd_apply]
          · intro _
            simp [upd_apply, upd3_apply, Ne.symm hi0, joinTable, hinit]
            exact h.acc_none ⟨hq, Or.inl rfl⟩ (hinit.1 0 0)
          · simp [upd_apply]
          · simp [upd_apply]
          · simp [upd_apply]
          · simp [upd_apply, prog]
        · apply (h.peer q hq hqn).congr <;> simp [upd_apply, upd3_apply, hqi, Ne.symm hi0]
    · simp at hs
  · simp at hs

theorem inv_lconnect (c : Cfg) (hc : c.Ok) (s s' : State) (h : Inv c s)
    (hs : step c s .lconnect = some s') : Inv c s' := by
  simp only [step] at hs
  split at hs
  · rename_i hph
    simp only [Option.some.injEq] at hs
    subst hs
    have hn2 := hc.n2
    have hm1 := hc.m1
    have hL := h.leader
    have hini := hL.initial hph
    refine ⟨h.notBad, h.noInfl, ?_, h.slot, h.accSlot, h.pendSlot, (h.dialSlot_frame rfl rfl (by
      intro i e; simp only [upd_apply]; split
      · rename_i e'; subst e'; simp [hph] at e
      · exact e)), ?_, ?_⟩
    · intro p hp
      have : p ≠ 0 := by omega
      simp [upd_apply, this]; exact h.outside p hp
    · refine ⟨?_, hL.np0, hL.knownMem, hL.knownNodup, hL.lenKnown, ?_, ?_, ?_, ?_, hL.mail0⟩
      · right; left; exact ⟨0, by omega, by simp [upd_apply]⟩
      · simp [upd_apply]
      · intro _
        refine ⟨by simp [upd_apply], ?_⟩
        intro k hk
        have : missing s 0 c.n k = c.n - 1 := missing_all_none s 0 c.n k (fun x _ => hini.2 x k)
        simp only [missing] at this ⊢
        simp [upd_apply, hk, this]
      · intro k hk; simp [upd_apply, roundsDone] at hk
      · intro r hr; simp [upd_apply] at hr
    · intro q hq hqn
      have hq0 : q ≠ 0 := by omega
      apply (h.peer q hq hqn).congr <;> simp [upd_apply, hq0, hph, infoSentTo]
  · simp at hs

theorem inv_hello (c : Cfg) (hc : c.Ok) (s s' : State) (h : Inv c s) (i : Nat)
    (hs : step c s (.hello i) = some s') : Inv c s' := by
  simp only [step] at hs
  split at hs
  · rename_i hph
    simp only [Option.some.injEq] at hs
    subst hs
    have hn2 := hc.n2
    have hi0 : i ≠ 0 := by
      intro e; subst e
      rcases h.leader.shape with e | ⟨k, _, e⟩ | ⟨r, _, e⟩ | e <;> simp [hph] at e
    have hin : i < c.n := by
      apply Decidable.byContradiction; intro hn
      have := h.outside i (by omega); simp [hph] at this
    have hP := h.peer i (by omega) hin
    have hj := hP.joined hph
    refine ⟨h.notBad, h.noInfl, ?_, h.slot, ?_, ?_, ?_, ?_, ?_⟩
    · intro p hp
      have : p ≠ i := by omega
      simp [upd_apply, this]; exact h.outside p hp
    · intro a b k hd hcn
      have := h.accSlot a b k hd hcn
      refine ⟨this.1, ?_⟩
      simp only [upd3_apply]
      split
      · rename_i e; obtain ⟨rfl, rfl, rfl⟩ := e
        simp [hj.2.2.1] at hcn
      · exact this.2
    · intro a b k hp
      simp only [upd3_apply] at hp
      split at hp
      · rename_i e; obtain ⟨rfl, rfl, rfl⟩ := e
        exact ⟨⟨by omega, Or.inl rfl⟩, by simp [hj.1, joinTable], hj.2.2.1, by omega⟩
      · exact h.pendSlot a b k hp
    · intro a b k hd hcn
      simp only [upd3_apply, upd_apply] at hcn ⊢
      have := h.dialSlot a b k hd hcn
      have := hj.1
      grind [joinTable]
    · apply h.leader.congr <;> simp [upd_apply, Ne.symm hi0]
    · intro q hq hqn
      by_cases hqi : q = i
      · subst hqi
        refine ⟨?_, ?_, ?_, ?_, ?_, ?_⟩
        · simp [upd_apply]
        · simp [upd_apply]
        · intro _
          simp only [upd_apply, Ne.symm hi0, if_false]
          refine ⟨hj.1, ?_, hj.2.2.2.2.1, hj.2.2.2.2.2.1, ?_, ?_⟩
          · intro j k
            simp only [upd3_apply]
            split
            · rename_i e; obtain ⟨rfl, -, rfl⟩ := e
              simp [hj.2.2.1]
            · rename_i e
              simp [hj.2.1 j k]
              intro e1 e2; exact absurd ⟨e1, trivial, e2⟩ e
          · simp [hj.2.2.2.1, hj.2.2.2.2.2.2]
          · intro l hl; simp [hj.2.2.2.1] at hl
        · simp [upd_apply]
        · simp [upd_apply]
        · simp [upd_apply, prog]
      · apply (h.peer q hq hqn).congr <;> simp [upd_apply, upd3_apply, hqi, Ne.symm hi0]
  · simp at hs

/-- A party whose phase is `run` is a peer in range (the leader never has
something to dial). -/
theorem Inv.run_peer {c : Cfg} {s : State} (h : Inv c s) {i k j : Nat} {rest : List Nat}
    (hph : s.phase i = .run k (j :: rest)) : 0 < i ∧ i < c.n := by
  constructor
  · apply Nat.pos_of_ne_zero; intro e; subst e
    rcases h.leader.shape with e | ⟨k, _, e⟩ | ⟨r, _, e⟩ | e <;> simp [hph] at e
  · apply Decidable.byContradiction; intro hn
    have := h.outside i (by omega); simp [hph] at this

theorem inv_dial (c : Cfg) (hc : c.Ok) (s s' : State) (h : Inv c s) (i : Nat)
    (hs : step c s (.dial i) = some s') : Inv c s' := by
  simp only [step] at hs
  split at hs
  · rename_i k j rest hph
    have hn2 := hc.n2
    have hm256 := hc.m256
    obtain ⟨hi, hin⟩ := h.run_peer hph
    have hi0 : i ≠ 0 := by omega
    have hP := h.peer i hi hin
    have hk := hP.runLt k _ hph
    have hA := hP.active k (j :: rest) (by simp [hph, prog])
    obtain ⟨pre, hpre, hdial⟩ := hA.dialed
    have hpre := hpre hk
    have hjt : j ∈ targets s i k := by rw [hpre]; simp
    have hjt' := (hA.mem_targets hi j).mp hjt
    have hnd := hA.targets_nodup
    rw [hpre] at hnd
    have hjpre : j ∉ pre := by
      intro hj
      have := (List.nodup_append.mp hnd).2.2 j hj j (by simp)
      exact this rfl
    have hjrest : j ∉ rest := by
      have := (List.nodup_append.mp hnd).2.1
      exact (List.nodup_cons.mp this).1
    have hD : Dials i j := by
      refine ⟨hi, ?_⟩
      by_cases hj0 : j = 0
      · exact Or.inl hj0
      · right; simpa [hj0] using hjt'.2
    have hij : i ≠ j := by rcases hD.2 with e | e <;> omega
    have hnone : s.conn i j k = none := by
      cases hcn : s.conn i j k with
      | none => rfl
      | some v =>
        have := (hdial j k hD).mp (by simp [hcn])
        rcases this.2 with ⟨e1, e2⟩ | e | ⟨_, _, e⟩
        · simp [e1, e2] at hjt'
        · omega
        · exact absurd e hjpre
    have hacc_none : s.conn j i k = none := h.acc_none hD hnone
    have hjph : j ≠ 0 → s.phase j ≠ .init := by
      intro hj0
      have := h.past0 hc hA.sent j (by omega) hjt'.1
      exact (h.peer_started (by omega) hjt'.1 this).1
    split at hs
    · omega
    · split at hs
      · rename_i e; exact absurd e.2 (hjph e.1)
      · simp only [hnone, Option.some.injEq] at hs
        subst hs
        refine ⟨h.notBad, h.noInfl, ?_, ?_, ?_, ?_, ?_, ?_, ?_⟩
        · intro p hp
          have : p ≠ i := by omega
          simp [upd_apply, this]; exact h.outside p hp
        · intro p q k' cn hcn
          simp only [upd3_apply] at hcn
          split at hcn
          · rename_i e; obtain ⟨e1, e2, e3⟩ := e
            simp at hcn; subst hcn
            rw [e1, e2, e3]
            refine ⟨?_, hij, hin, hjt'.1, hk⟩
            simp only [wire]
            rcases hD.2 with e | e
            · simp [e]
            · have : j ≠ 0 := by omega
              simp [this, hi0, e]
          · exact h.slot p q k' cn hcn
        · intro a b k' hd hcn
          simp only [upd3_apply] at hcn ⊢
          have := h.accSlot a b k' hd
          grind [Dials]
        · intro a b k' hp
          simp only [upd3_apply] at hp ⊢
          have := h.pendSlot a b k'
          grind [Dials]
        · intro a b k' hd hcn
          simp only [upd3_apply, upd_apply] at hcn ⊢
          have := h.dialSlot a b k' hd
          grind [Dials]
        · apply h.leader.congr <;> simp [upd_apply, upd3_apply, Ne.symm hi0]
        · intro q hq hqn
          by_cases hqi : q = i
          · subst hqi
            refine ⟨?_, ?_, ?_, ?_, ?_, ?_⟩
            · simp [upd_apply]
            · simp [upd_apply]
            · simp [upd_apply]
            · simp [upd_apply]
            · simp [upd_apply]; exact hk
            · intro k' todo hp
              simp [upd_apply, prog] at hp
              obtain ⟨e1, e2⟩ := hp
              subst e1 e2
              refine ⟨hA.kle, ?_, ?_, ?_, ?_, ?_, ?_, ?_, ?_, ?_⟩
              · simpa [upd_apply, Ne.symm hi0] using hA.sent
              · exact hA.nomail
              · exact hA.acc
              · exact hA.np
              · exact hA.knownMem
              · exact hA.knownNodup
              · refine ⟨pre ++ [j], ?_, ?_⟩
                · intro _
                  show targets s q k = _
                  rw [hpre]; simp
                · intro j' k'' hd'
                  have := hdial j' k'' hd'
                  simp only [upd3_apply]
                  split
                  · rename_i e; obtain ⟨-, e1, e2⟩ := e
                    rw [e1, e2]
                    simp [hjt'.1, hk]
                  · rename_i e
                    rw [this]
                    simp only [List.mem_append, List.mem_singleton]
                    constructor
                    · rintro ⟨h1, h2 | h2 | ⟨h2, h3, h4⟩⟩
                      · exact ⟨h1, Or.inl h2⟩
                      · exact ⟨h1, Or.inr (Or.inl h2)⟩
                      · exact ⟨h1, Or.inr (Or.inr ⟨h2, h3, Or.inl h4⟩)⟩
                    · rintro ⟨h1, h2 | h2 | ⟨h2, h3, h4 | h4⟩⟩
                      · exact ⟨h1, Or.inl h2⟩
                      · exact ⟨h1, Or.inr (Or.inl h2)⟩
                      · exact ⟨h1, Or.inr (Or.inr ⟨h2, h3, h4⟩)⟩
                      · exact absurd ⟨trivial, h4, h2⟩ e
              · intro k'' hk''
                rw [hA.need k'' hk'']
                symm
                apply missing_congr
                intro y hy0 hyq
                simp only [upd3_apply]
                split
                · rename_i e
                  rcases hD.2 with e' | e' <;> omega
                · rfl
              · exact hA.waited
          · apply (h.peer q hq hqn).congr <;> simp [upd_apply, upd3_apply, hqi, Ne.symm hi0]
  · simp at hs

theorem targets_leader (s : State) (k : Nat) : targets s 0 k = [] := by simp [targets]

theorem infoSentTo_infoPhase (c : Cfg) (hc : c.Ok) (s : State) (rest : List Nat) (q : Nat) :
    infoSentTo (infoPhase c s rest) q ↔ q ∉ rest := by
  cases rest with
  | nil =>
    simp only [infoPhase, advance]
    split <;> simp [infoSentTo]
  | cons a l => simp [infoPhase, infoSentTo]

theorem inv_info (c : Cfg) (hc : c.Ok) (s s' : State) (h : Inv c s)
    (hs : step c s .info = some s') : Inv c s' := by
  simp only [step] at hs
  split at hs
  · rename_i j rest hph
    simp only [Option.some.injEq] at hs
    subst hs
    have hn2 := hc.n2
    have hm1 := hc.m1
    have hL := h.leader
    have hne : s.phase 0 ≠ .init := by simp [hph]
    have h00 : s.need 0 0 = 0 := hL.waited 0 (by simp [hph, roundsDone]) (by omega)
    obtain ⟨hkm, hklen, hall⟩ := h.leader_all hc h00 hne
    obtain ⟨hrnd, hrmem⟩ := hL.infoRest _ hph
    have hjr : j ∉ rest := (List.nodup_cons.mp hrnd).1
    have hj := hrmem j (by simp)
    have hj0 : j ≠ 0 := by omega
    have hjw := h.peer_waiting hj.1 hj.2 (hall j hj.1 hj.2) (by simp [hph, infoSentTo])
    have hgood : GoodMail c j ((s.known 0).filter fun q => decide (q ≠ 0 ∧ q ≠ j)) := by
      refine ⟨List.Nodup.sublist List.filter_sublist hL.knownNodup, ?_, ?_⟩
      · intro x; simp [List.mem_filter, hkm]; omega
      · have e : ((s.known 0).filter fun q => decide (q ≠ 0 ∧ q ≠ j)) =
            ((s.known 0).filter (fun x => decide (x ≠ 0))).filter (fun x => decide (x ≠ j)) := by
          rw [List.filter_filter]; apply List.filter_congr; intro x _; simp [And.comm]
        rw [e]
        have h1 := length_filter_ne (s.known 0) hL.knownNodup 0 ((hkm 0).mpr (by omega))
        have h2 := length_filter_ne ((s.known 0).filter (fun x => decide (x ≠ 0)))
          (List.Nodup.sublist List.filter_sublist hL.knownNodup) j
          (by simp [List.mem_filter, hkm, hj.2, hj0])
        omega
    refine ⟨h.notBad, h.noInfl, ?_, h.slot, h.accSlot, h.pendSlot, (h.dialSlot_frame rfl rfl (by
      intro i e; simp only [upd_apply]; split
      · rename_i e'; subst e'; simp [hph] at e
      · exact e)), ?_, ?_⟩
    · intro p hp
      have : p ≠ 0 := by omega
      simp [upd_apply, this]; exact h.outside p hp
    · refine ⟨?_, hL.np0, hL.knownMem, hL.knownNodup, hL.lenKnown, ?_, ?_, ?_, ?_, ?_⟩
      · simp only [upd_apply, if_true]
        cases rest with
        | nil =>
          simp only [infoPhase, advance, targets_leader]
          split
          · right; left; exact ⟨1, by omega, rfl⟩
          · right; right; right; rfl
        | cons a l => right; right; left; exact ⟨a :: l, by simp, rfl⟩
      · intro e
        simp only [upd_apply, if_true] at e
        cases rest with
        | nil => simp only [infoPhase, advance] at e; split at e <;> simp at e
        | cons a l => simp [infoPhase] at e
      · intro _
        exact hL.started hne
      · intro k hk hkm'
        simp only [upd_apply, if_true] at hk
        have : k = 0 := by
          cases rest with
          | nil =>
            simp only [infoPhase, advance] at hk
            split at hk <;> simp [roundsDone] at hk <;> omega
          | cons a l => simp [infoPhase, roundsDone] at hk; omega
        subst this; exact h00
      · intro r hr
        simp only [upd_apply, if_true] at hr
        cases rest with
        | nil => simp only [infoPhase, advance] at hr; split at hr <;> simp at hr
        | cons a l =>
          simp [infoPhase] at hr; subst hr
          exact ⟨(List.nodup_cons.mp hrnd).2, fun x hx => hrmem x (by simp [hx])⟩
      · simp [upd_apply, Ne.symm hj0]; exact hL.mail0
    · intro q hq hqn
      have hq0 : q ≠ 0 := by omega
      by_cases hqj : q = j
      · subst hqj
        have hPq := h.peer q hq hqn
        have hh := hPq.hello hjw.1
        refine ⟨?_, ?_, ?_, ?_, ?_, ?_⟩
        · simp [upd_apply, hq0, hjw.1]
        · simp [upd_apply, hq0, hjw.1]
        · intro _
          simp only [upd_apply, hq0, if_false, if_true]
          refine ⟨hh.1, hh.2.1, hh.2.2.1, hh.2.2.2.1, ?_, ?_⟩
          · simp [infoSentTo_infoPhase c hc, hjr]
          · intro l hl
            simp only [Option.some.injEq] at hl; subst hl; exact hgood
        · simp [upd_apply, hq0, hjw.1]
        · simp [upd_apply, hq0, hjw.1]
        · simp [upd_apply, hq0, hjw.1, prog]
      · apply (h.peer q hq hqn).congr <;> simp [upd_apply, hq0, hqj, hph]
        rw [infoSentTo_infoPhase c hc]; simp [infoSentTo, hqj]
  · simp at hs

theorem inv_waitDone_leader0 (c : Cfg) (hc : c.Ok) (s : State) (h : Inv c s)
    (hph : s.phase 0 = .run 0 []) (h00 : s.need 0 0 = 0) (R : List Nat)
    (hR : R = (s.known 0).filter (· ≠ 0)) :
    Inv c { s with phase := upd s.phase 0 (infoPhase c s R) } := by
  have hn2 := hc.n2
  have hm1 := hc.m1
  have hL := h.leader
  have hne : s.phase 0 ≠ .init := by simp [hph]
  obtain ⟨hkm, hklen, hall⟩ := h.leader_all hc h00 hne
  have hrm : ∀ x, x ∈ R ↔ 0 < x ∧ x < c.n := by
    intro x; subst hR; simp [List.mem_filter, hkm]; omega
  have hRn : R.Nodup := by subst hR; exact List.Nodup.sublist List.filter_sublist hL.knownNodup
  obtain ⟨a, l, hal⟩ : ∃ a l, R = a :: l := by
    cases hr : R with
    | nil => have := (hrm 1).mpr (by omega); rw [hr] at this; simp at this
    | cons a l => exact ⟨a, l, rfl⟩
  have hip : infoPhase c s R = .info R := by
    rw [hal]; rfl
  rw [hip]
  refine ⟨h.notBad, h.noInfl, ?_, h.slot, h.accSlot, h.pendSlot, (h.dialSlot_frame rfl rfl (by
      intro i e; simp only [upd_apply]; split
      · rename_i e'; subst e'; simp [hph] at e
      · exact e)), ?_, ?_⟩
  · intro p hp
    have : p ≠ 0 := by omega
    simp [upd_apply, this]; exact h.outside p hp
  · refine ⟨?_, hL.np0, hL.knownMem, hL.knownNodup, hL.lenKnown, ?_, ?_, ?_, ?_, hL.mail0⟩
    · right; right; left; exact ⟨R, by rw [hal]; simp, by simp [upd_apply]⟩
    · simp [upd_apply]
    · intro _; exact hL.started hne
    · intro k hk hkm'
      simp [upd_apply, roundsDone] at hk
      subst hk; exact h00
    · intro r hr
      simp [upd_apply] at hr; subst hr
      exact ⟨hRn, fun x hx => (hrm x).mp hx⟩
  · intro q hq hqn
    have hq0 : q ≠ 0 := by omega
    apply (h.peer q hq hqn).congr <;> simp [upd_apply, hq0, hph, infoSentTo]
    exact (hrm q).mpr ⟨hq, hqn⟩

theorem infoSentTo_advance_succ (c : Cfg) (s : State) (p k q : Nat) :
    infoSentTo (advance c s p (k + 1)) q := by
  unfold advance
  by_cases h : k + 1 < c.m <;> simp [h, infoSentTo]

theorem inv_waitDone_leader (c : Cfg) (hc : c.Ok) (s : State) (h : Inv c s) (k : Nat)
    (hph : s.phase 0 = .run (k + 1) []) (h0 : s.need 0 (k + 1) = 0) :
    Inv c { s with phase := upd s.phase 0 (advance c s 0 (k + 1 + 1)) } := by
  have hn2 := hc.n2
  have hm1 := hc.m1
  have hL := h.leader
  have hne : s.phase 0 ≠ .init := by simp [hph]
  have hk : k + 1 < c.m := by
    rcases hL.shape with e | ⟨k', hk', e⟩ | ⟨r, _, e⟩ | e <;> simp [hph] at e
    omega
  refine ⟨h.notBad, h.noInfl, ?_, h.slot, h.accSlot, h.pendSlot, (h.dialSlot_frame rfl rfl (by
      intro i e; simp only [upd_apply]; split
      · rename_i e'; subst e'; simp [hph] at e
      · exact e)), ?_, ?_⟩
  · intro p hp
    have : p ≠ 0 := by omega
    simp [upd_apply, this]; exact h.outside p hp
  · refine ⟨?_, hL.np0, hL.knownMem, hL.knownNodup, hL.lenKnown, ?_, ?_, ?_, ?_, hL.mail0⟩
    · simp only [upd_apply, if_true, advance, targets_leader]
      split
      · right; left; exact ⟨k + 1 + 1, by omega, rfl⟩
      · right; right; right; rfl
    · simp only [upd_apply, if_true, advance]; split <;> simp
    · intro _; exact hL.started hne
    · intro k' hk' hkm'
      by_cases e : k' = k + 1
      · subst e; exact h0
      · apply hL.waited k' _ hkm'
        simp only [upd_apply, if_true, advance] at hk'
        split at hk' <;> simp [roundsDone] at hk' <;> simp [hph, roundsDone] <;> omega
    · intro r hr
      simp only [upd_apply, if_true, advance] at hr; split at hr <;> simp at hr
  · intro q hq hqn
    have hq0 : q ≠ 0 := by omega
    apply (h.peer q hq hqn).congr <;> simp [upd_apply, hq0, hph, infoSentTo]
    exact infoSentTo_advance_succ c s 0 (k + 1) q

theorem inv_waitDone_peer (c : Cfg) (hc : c.Ok) (s : State) (h : Inv c s) (p k : Nat) (hp0 : p ≠ 0)
    (hph : s.phase p = .run k []) (h0 : s.need p k = 0) :
    Inv c { s with phase := upd s.phase p (advance c s p (k + 1)) } := by
  have hn2 := hc.n2
  have hm1 := hc.m1
  have hpn : p < c.n := by
    apply Decidable.byContradiction; intro hn
    have := h.outside p (by omega); simp [hph] at this
  have hpp : 0 < p := by omega
  have hP := h.peer p hpp hpn
  have hk := hP.runLt k _ hph
  have hA := hP.active k [] (by simp [hph, prog])
  obtain ⟨pre, hpre, hdial⟩ := hA.dialed
  have hpre := hpre hk
  simp only [List.append_nil] at hpre
  refine ⟨h.notBad, h.noInfl, ?_, h.slot, h.accSlot, h.pendSlot, (h.dialSlot_frame rfl rfl (by
      intro i e; simp only [upd_apply]; split
      · rename_i e'; subst e'; simp [hph] at e
      · exact e)), ?_, ?_⟩
  · intro q hq
    have : q ≠ p := by omega
    simp [upd_apply, this]; exact h.outside q hq
  · apply h.leader.congr <;> simp [upd_apply, Ne.symm hp0]
  · intro q hq hqn
    by_cases hqp : q = p
    · subst hqp
      have hnew : ActiveInv c s q (k + 1) (if k + 1 < c.m then targets s q (k + 1) else []) := by
        refine ⟨by omega, hA.sent, hA.nomail, hA.acc, hA.np, hA.knownMem, hA.knownNodup, ?_, hA.need, ?_⟩
        · refine ⟨[], ?_, ?_⟩
          · intro hlt; simp [hlt]
          · intro j k' hd
            rw [hdial j k' hd]
            have hmt := hA.mem_targets hpp j
            rw [hpre] at hmt
            simp only [List.not_mem_nil, and_false, or_false]
            constructor
            · rintro ⟨h1, h2 | h2 | ⟨h2, h3, h4⟩⟩
              · exact ⟨h1, Or.inl h2⟩
              · exact ⟨h1, Or.inr ⟨by omega, h2.2⟩⟩
              · exact ⟨h1, Or.inr ⟨by omega, by omega⟩⟩
            · rintro ⟨h1, h2 | ⟨h2, h3⟩⟩
              · exact ⟨h1, Or.inl h2⟩
              · refine ⟨h1, ?_⟩
                by_cases e : k' = k
                · subst e
                  by_cases hj0 : j = 0
                  · by_cases hk0 : k' = 0
                    · exact Or.inl ⟨hj0, hk0⟩
                    · right; right; exact ⟨rfl, hk, hmt.mpr ⟨h1, by simp [hj0, hk0]⟩⟩
                  · right; right
                    refine ⟨rfl, hk, hmt.mpr ⟨h1, ?_⟩⟩
                    rcases hd.2 with e | e
                    · exact absurd e hj0
                    · simp [hj0, e]
                · exact Or.inr (Or.inl ⟨by omega, h3⟩)
        · intro k' hk' hkm
          by_cases e : k' = k
          · subst e; exact h0
          · exact hA.waited k' (by omega) hkm
      refine ⟨?_, ?_, ?_, ?_, ?_, ?_⟩
      · simp only [upd_apply, if_true, advance]; split <;> simp
      · simp only [upd_apply, if_true, advance]; split <;> simp
      · simp only [upd_apply, if_true, advance]; split <;> simp
      · simp only [upd_apply, if_true, advance]; split <;> simp
      · intro k' todo
        simp only [upd_apply, if_true, advance]; split
        · simp; intro e _; omega
        · simp
      · intro k' todo hp
        simp only [upd_apply, if_true, advance] at hp
        by_cases hlt : k + 1 < c.m
        · simp [hlt, prog] at hp
          obtain ⟨e1, e2⟩ := hp
          subst e1 e2
          have := hnew
          simp only [hlt, if_true] at this
          exact this.congr (by simp [upd_apply, hp0, Ne.symm hp0]) rfl rfl rfl rfl (fun _ _ => rfl) (fun _ => rfl)
        · simp [hlt, prog] at hp
          obtain ⟨e1, e2⟩ := hp
          subst e1 e2
          have := hnew
          simp only [hlt, if_false] at this
          have e : k + 1 = c.m := by omega
          rw [e] at this
          exact this.congr (by simp [upd_apply, hp0, Ne.symm hp0]) rfl rfl rfl rfl (fun _ _ => rfl) (fun _ => rfl)
    · apply (h.peer q hq hqn).congr <;> simp [upd_apply, hqp, hp0, Ne.symm hp0]

theorem inv_waitDone (c : Cfg) (hc : c.Ok) (s s' : State) (h : Inv c s) (p : Nat)
    (hs : step c s (.waitDone p) = some s') : Inv c s' := by
  simp only [step] at hs
  split at hs
  · rename_i k hph
    split at hs
    · rename_i h0
      split at hs
      · rename_i e
        obtain ⟨e1, e2⟩ := e
        subst e1 e2
        simp only [Option.some.injEq] at hs
        subst hs
        exact inv_waitDone_leader0 c hc s h hph h0 _ rfl
      · rename_i e
        simp only [Option.some.injEq] at hs
        subst hs
        by_cases hp0 : p = 0
        · subst hp0
          cases k with
          | zero => simp at e
          | succ k => exact inv_waitDone_leader c hc s h k hph h0
        · exact inv_waitDone_peer c hc s h p k hp0 hph h0
    · simp at hs
  · simp at hs

theorem inv_recvInfo (c : Cfg) (hc : c.Ok) (s s' : State) (h : Inv c s) (i : Nat)
    (hs : step c s (.recvInfo i) = some s') : Inv c s' := by
  simp only [step] at hs
  split at hs
  · rename_i l hph hml
    have hn2 := hc.n2
    have hm1 := hc.m1
    have hi0 : i ≠ 0 := by
      intro e; subst e
      rcases h.leader.shape with e | ⟨k, _, e⟩ | ⟨r, _, e⟩ | e <;> simp [hph] at e
    have hin : i < c.n := by
      apply Decidable.byContradiction; intro hn
      have := h.outside i (by omega); simp [hph] at this
    have hip : 0 < i := by omega
    have hP := h.peer i hip hin
    have hh := hP.hello hph
    obtain ⟨hlnd, hlmem, hllen⟩ := hh.2.2.2.2.2 l hml
    have hsent : infoSentTo (s.phase 0) i := hh.2.2.2.2.1.mp (by simp [hml])
    have hany : (l.any fun q => decide (2 + l.length ≤ q)) = false := by
      rw [List.any_eq_false]
      intro q hq
      have := (hlmem q).mp hq
      simp; omega
    rw [if_neg (by simp [hany])] at hs
    simp only [Option.some.injEq] at hs
    subst hs
    have hkm : ∀ x, x ∈ l.foldl (fun kn q => ins q kn) (s.known i) ↔ x < c.n := by
      intro x
      rw [mem_foldl_ins, hh.2.2.2.1, hlmem]
      simp; omega
    have hknd : (l.foldl (fun kn q => ins q kn) (s.known i)).Nodup := by
      apply nodup_foldl_ins _ _ hlnd
      · intro q hq
        have := (hlmem q).mp hq
        rw [hh.2.2.2.1]; simp; omega
      · rw [hh.2.2.2.1]; simp; omega
    have hna : (l.filter (fun x => decide (x < i))).length = i - 1 := by
      apply length_of_mem_iff _ (List.Nodup.sublist List.filter_sublist hlnd)
      intro x; simp [List.mem_filter, hlmem]; omega
    refine ⟨h.notBad, h.noInfl, ?_, h.slot, h.accSlot, h.pendSlot, (h.dialSlot_frame rfl rfl (by
      intro i e; simp only [upd_apply]; split
      · rename_i e'; subst e'; simp [hph] at e
      · exact e)), ?_, ?_⟩
    · intro p hp
      have : p ≠ i := by omega
      simp [upd_apply, this]; exact h.outside p hp
    · apply h.leader.congr <;> simp [upd_apply, Ne.symm hi0]
    · intro q hq hqn
      by_cases hqi : q = i
      · subst hqi
        have hadv : ∀ st : State, advance c st q 0 = .run 0 (targets st q 0) := by
          intro st; simp [advance]; omega
        refine ⟨?_, ?_, ?_, ?_, ?_, ?_⟩
        · simp [upd_apply, hadv]
        · simp [upd_apply, hadv]
        · simp [upd_apply, hadv]
        · simp [upd_apply, hadv]
        · simp [upd_apply, hadv]; omega
        · intro k todo hp
          simp only [upd_apply, if_true, hadv, prog, Option.some.injEq, Prod.mk.injEq] at hp
          obtain ⟨e1, e2⟩ := hp
          subst e1 e2
          refine ⟨by omega, ?_, ?_, ?_, ?_, ?_, ?_, ?_, ?_, ?_⟩
          · simpa [upd_apply, Ne.symm hi0] using hsent
          · simp [upd_apply]
          · simp [upd_apply]
          · simp [upd_apply]; omega
          · simpa [upd_apply] using hkm
          · simpa [upd_apply] using hknd
          · refine ⟨[], ?_, ?_⟩
            · intro _; simp [targets, upd_apply]
            · intro j k' hd
              show (s.conn q j k').isSome = true ↔ _
              rw [hh.1 j k']
              simp [joinTable]
              intro e1 e2; omega
          · intro k' hk'
            simp only [upd_apply, if_true, hk']
            rw [hna]
            symm
            apply missing_all_none
            intro x hx
            show s.conn q x k' = none
            rw [hh.1 x k']; simp [joinTable]; omega
          · intro k' hk'; omega
      · apply (h.peer q hq hqn).congr <;> simp [upd_apply, hqi, Ne.symm hi0]
  · simp at hs

/-- Facts about a pending connection in an invariant state. -/
structure PendFacts (c : Cfg) (s : State) (j i k : Nat) : Prop where
  dials : Dials i j
  dset : (s.conn i j k).isSome
  anone : s.conn j i k = none
  jn : j < c.n
  inn : i < c.n
  km : k < c.m
  ij : i ≠ j

theorem Inv.pendFacts {c : Cfg} {s : State} (h : Inv c s) {j i k : Nat} (hp : s.pend j i k = true) :
    PendFacts c s j i k := by
  obtain ⟨hd, hset, hnone, hjn⟩ := h.pendSlot i j k hp
  cases hcn : s.conn i j k with
  | none => simp [hcn] at hset
  | some v =>
    have := h.slot i j k v hcn
    exact ⟨hd, hset, hnone, hjn, this.2.2.1, this.2.2.2.2, this.2.1⟩

/-- A peer whose accept goroutine runs is past `connectPeerToLeader`. -/
theorem Inv.acc_active {c : Cfg} {s : State} (h : Inv c s) {j : Nat} (hj : 0 < j) (hjn : j < c.n)
    (hacc : s.acc j = true) : ∃ k todo, prog c (s.phase j) = some (k, todo) := by
  have hP := h.peer j hj hjn
  cases hph : s.phase j with
  | init => have := (hP.init hph).2.2.2.1; simp [hacc] at this
  | joined => have := (hP.joined hph).2.2.2.2.1; simp [hacc] at this
  | hello => have := (hP.hello hph).2.2.1; simp [hacc] at this
  | run k t => exact ⟨k, t, rfl⟩
  | info r => exact absurd hph (hP.notInfo r)
  | done => exact ⟨c.m, [], rfl⟩

theorem Inv.need_pos {c : Cfg} {s : State} (h : Inv c s) {j i k : Nat}
    (hp : s.pend j i k = true) (hacc : s.acc j = true) : 0 < s.need j k := by
  have hf := h.pendFacts hp
  by_cases hj0 : j = 0
  · subst hj0
    have hne : s.phase 0 ≠ .init := by
      intro e; have := (h.leader.initial e).1; simp [hacc] at this
    rw [(h.leader.started hne).2 k hf.km]
    exact missing_pos s 0 c.n k i hf.dials.1 hf.inn hf.anone
  · obtain ⟨k0, todo, hpr⟩ := h.acc_active (by omega) hf.jn hacc
    have hA := (h.peer j (by omega) hf.jn).active k0 todo hpr
    rw [hA.need k hf.km]
    have : i < j := by rcases hf.dials.2 with e | e <;> omega
    exact missing_pos s j j k i hf.dials.1 this hf.anone

theorem inv_accept_state (c : Cfg) (hc : c.Ok) (s s' : State) (h : Inv c s) (j i k : Nat)
    (hp : s.pend j i k = true) (hacc : s.acc j = true) (kn' : List Nat)
    (hkn : (j = 0 ∧ k = 0 ∧ kn' = ins i (s.known 0)) ∨ (¬(j = 0 ∧ k = 0) ∧ kn' = s.known j))
    (hs' : s' = { s with pend := upd3 s.pend j i k false, need := upd2 s.need j k (s.need j k - 1), conn := upd3 s.conn j i k (some ⟨i, j, k⟩), known := upd s.known j kn' }) :
    Inv c s' := by
  have e_pend : s'.pend = upd3 s.pend j i k false := by subst hs'; rfl
  have e_need : s'.need = upd2 s.need j k (s.need j k - 1) := by subst hs'; rfl
  have e_conn : s'.conn = upd3 s.conn j i k (some ⟨i, j, k⟩) := by subst hs'; rfl
  have e_known : s'.known = upd s.known j kn' := by subst hs'; rfl
  have e_phase : s'.phase = s.phase := by subst hs'; rfl
  have e_np : s'.np = s.np := by subst hs'; rfl
  have e_acc : s'.acc = s.acc := by subst hs'; rfl
  have e_infl : s'.infl = s.infl := by subst hs'; rfl
  have e_mail : s'.mail = s.mail := by subst hs'; rfl
  have e_bad : s'.bad = s.bad := by subst hs'; rfl
  clear hs'
  have hn2 := hc.n2
  have hm1 := hc.m1
  have hf := h.pendFacts hp
  have hnp := h.need_pos hp hacc
  have hi0 : i ≠ 0 := by have := hf.dials.1; omega
  have hstoreb : ∀ b, i < b → missing s' j b k + 1 = missing s j b k := by
    intro b hb
    apply missing_store s s' j b k i hf.dials.1 hb hf.anone
    · simp [e_conn, upd3_apply]
    · intro y hy; simp [e_conn, upd3_apply, hy]
  have hother : ∀ b k', k' ≠ k → missing s' j b k' = missing s j b k' := by
    intro b k' hk'
    apply missing_congr
    intro y _ _; simp [e_conn, upd3_apply, hk']
  refine ⟨by rw [e_bad]; exact h.notBad, by rw [e_infl]; exact h.noInfl, by rw [e_phase]; exact h.outside,
    ?_, ?_, ?_, ?_, ?_, ?_⟩
  · intro p q k' cn hcn
    simp only [e_conn, upd3_apply] at hcn
    split at hcn
    · rename_i e; obtain ⟨e1, e2, e3⟩ := e
      simp at hcn; subst hcn
      rw [e1, e2, e3]
      refine ⟨?_, Ne.symm hf.ij, hf.jn, hf.inn, hf.km⟩
      simp only [wire, hi0, if_false]
      rcases hf.dials.2 with e | e
      · simp [e]
      · have : j ≠ 0 := by omega
        have : ¬ j < i := by omega
        simp [*]
    · exact h.slot p q k' cn hcn
  · intro a b k' hd hcn
    simp only [e_conn, e_pend, upd3_apply] at hcn ⊢
    have := h.accSlot a b k' hd
    have := hf.dials
    have := hf.dset
    grind [Dials]
  · intro a b k' hp'
    simp only [e_conn, e_pend, upd3_apply] at hp' ⊢
    have := h.pendSlot a b k'
    have := hf.dials
    grind [Dials]
  · intro a b k' hd hcn
    simp only [e_conn, e_pend, e_phase, upd3_apply] at hcn ⊢
    have := h.dialSlot a b k' hd
    have := hf.dials
    grind [Dials]
  · -- leader
    have hL := h.leader
    by_cases hj0 : j = 0
    · subst hj0
      have hne : s.phase 0 ≠ .init := by
        intro e; have := (hL.initial e).1; simp [hacc] at this
      have hni : k = 0 → i ∉ s.known 0 := by
        intro e; subst e
        rw [hL.knownMem]; simp [hi0, hf.anone]
      have hkn' : kn' = if k = 0 then ins i (s.known 0) else s.known 0 := by
        rcases hkn with ⟨_, e, e'⟩ | ⟨e, e'⟩
        · simp [e, e']
        · have : k ≠ 0 := by simpa using e
          simp [this, e']
      refine ⟨by rw [e_phase]; exact hL.shape, by rw [e_np]; exact hL.np0, ?_, ?_, ?_, ?_, ?_, ?_,
        by rw [e_phase]; exact hL.infoRest, by rw [e_mail]; exact hL.mail0⟩
      · intro x
        simp only [e_known, e_conn, upd_same, upd3_apply, hkn']
        by_cases hk0 : k = 0
        · subst hk0
          simp only [if_true, mem_ins, hL.knownMem]
          by_cases hx : x = i
          · subst hx; simp
          · simp [hx]
        · simp only [hk0, if_false, hL.knownMem]
          simp [Ne.symm hk0]
      · simp only [e_known, upd_same, hkn']
        by_cases hk0 : k = 0
        · simp only [hk0, if_true]; exact nodup_ins i _ hL.knownNodup (hni hk0)
        · simp only [hk0, if_false]; exact hL.knownNodup
      · simp only [e_known, upd_same, hkn']
        by_cases hk0 : k = 0
        · subst hk0
          have := hstoreb c.n hf.inn
          simp only [if_true, length_ins i _ (hni rfl)]
          have := hL.lenKnown
          omega
        · simp only [hk0, if_false]
          rw [hother c.n 0 (Ne.symm hk0)]
          exact hL.lenKnown
      · intro e; rw [e_phase] at e; exact absurd e hne
      · intro _
        refine ⟨by rw [e_acc]; exact hacc, ?_⟩
        intro k' hk'
        simp only [e_need, upd2_apply]
        by_cases e : k' = k
        · subst e
          have := hstoreb c.n hf.inn
          have := (hL.started hne).2 k' hk'
          simp only [true_and, if_true]
          omega
        · simp only [e, and_false, if_false]
          rw [hother c.n k' e]
          exact (hL.started hne).2 k' hk'
      · intro k' hk' hkm
        rw [e_phase] at hk'
        simp only [e_need, upd2_apply]
        by_cases e : k' = k
        · subst e
          have := hL.waited k' hk' hkm
          omega
        · simp only [e, and_false, if_false]
          exact hL.waited k' hk' hkm
    · have hj0' : 0 ≠ j := Ne.symm hj0
      apply hL.congr <;>
        simp [e_phase, e_np, e_known, e_conn, e_acc, e_need, e_mail, upd_apply, upd2_apply, upd3_apply, hj0, hj0']
  · -- peers
    intro q hq hqn
    have hq0 : q ≠ 0 := by omega
    by_cases hqj : q = j
    · subst hqj
      obtain ⟨k0, todo, hpr⟩ := h.acc_active hq hqn hacc
      have hP := h.peer q hq hqn
      have hA := hP.active k0 todo hpr
      have hiq : i < q := by rcases hf.dials.2 with e | e <;> omega
      have hkn' : kn' = s.known q := by
        rcases hkn with ⟨e, _⟩ | ⟨_, e⟩
        · omega
        · exact e
      have hph : ∀ ph, s.phase q = ph → prog c ph = some (k0, todo) := by intro ph e; rw [← e]; exact hpr
      refine ⟨?_, ?_, ?_, by rw [e_phase]; exact hP.notInfo, by rw [e_phase]; exact hP.runLt, ?_⟩
      · intro e; rw [e_phase] at e; have := hph _ e; simp [prog] at this
      · intro e; rw [e_phase] at e; have := hph _ e; simp [prog] at this
      · intro e; rw [e_phase] at e; have := hph _ e; simp [prog] at this
      · intro k1 todo1 hpr1
        rw [e_phase] at hpr1
        have : k1 = k0 ∧ todo1 = todo := by
          rw [hpr] at hpr1; simp at hpr1; exact ⟨hpr1.1.symm, hpr1.2.symm⟩
        obtain ⟨e1, e2⟩ := this
        subst e1 e2
        obtain ⟨pre, hpre, hdial⟩ := hA.dialed
        refine ⟨hA.kle, by rw [e_phase]; exact hA.sent, by rw [e_mail]; exact hA.nomail,
          by rw [e_acc]; exact hA.acc, by rw [e_np]; exact hA.np, ?_, ?_, ?_, ?_, ?_⟩
        · simpa [e_known, hkn'] using hA.knownMem
        · simpa [e_known, hkn'] using hA.knownNodup
        · refine ⟨pre, ?_, ?_⟩
          · intro hlt
            rw [← hpre hlt]
            simp [targets, e_known, hkn']
          · intro x k' hd
            rw [← hdial x k' hd]
            simp only [e_conn, upd3_apply]
            split
            · rename_i e
              have := hd.2
              omega
            · rfl
        · intro k' hk'
          simp only [e_need, upd2_apply]
          by_cases e : k' = k
          · subst e
            have h1 := hstoreb q hiq
            have := hA.need k' hk'
            simp only [true_and, if_true]
            omega
          · simp only [e, and_false, if_false]
            rw [hA.need k' hk', hother q k' e]
        · intro k' hk' hkm
          simp only [e_need, upd2_apply]
          by_cases e : k' = k
          · subst e
            have := hA.waited k' hk' hkm
            omega
          · simp only [e, and_false, if_false]
            exact hA.waited k' hk' hkm
    · by_cases hqi : q = i
      · subst hqi
        have hP := h.peer q hq hqn
        have hjq : j ≠ q := Ne.symm hqj
        refine ⟨?_, ?_, ?_, by rw [e_phase]; exact hP.notInfo, by rw [e_phase]; exact hP.runLt, ?_⟩
        · intro e; rw [e_phase] at e
          have := (hP.init e).2.1 j k
          simp [hp] at this
        · intro e; rw [e_phase] at e
          have := (hP.joined e).2.1 j k
          simp [hp] at this
        · intro e; rw [e_phase] at e
          have hh := hP.hello e
          have hjk := (hh.2.1 j k).mp hp
          obtain ⟨ej, ek, _⟩ := hjk
          subst ej ek
          refine ⟨?_, ?_, by rw [e_acc]; exact hh.2.2.1, ?_, by rw [e_mail, e_phase]; exact hh.2.2.2.2.1,
            by rw [e_mail]; exact hh.2.2.2.2.2⟩
          · intro x k'; simp [e_conn, upd3_apply, hq0]; exact hh.1 x k'
          · intro j' k'
            simp only [e_pend, e_conn, upd3_apply]
            by_cases e' : j' = 0 ∧ k' = 0
            · simp [e'.1, e'.2]
            · have := (hh.2.1 j' k')
              have hne : ¬ (j' = 0 ∧ True ∧ k' = 0) := by intro e''; exact e' ⟨e''.1, e''.2.2⟩
              simp only [hne, if_false]
              rw [this]
              constructor
              · rintro ⟨e1, e2, _⟩; exact absurd ⟨e1, e2⟩ e'
              · rintro ⟨e1, e2, _⟩; exact absurd ⟨e1, e2⟩ e'
          · simp [e_known, upd_apply, hq0]; exact hh.2.2.2.1
        · intro k0 todo hpr
          rw [e_phase] at hpr
          apply (hP.active k0 todo hpr).congr <;>
            simp [e_phase, e_np, e_known, e_conn, e_acc, e_need, e_mail, upd_apply, upd2_apply, upd3_apply, hqj, hjq]
      · apply (h.peer q hq hqn).congr <;>
          simp [e_phase, e_np, e_known, e_conn, e_acc, e_need, e_mail, e_pend, upd_apply, upd2_apply, upd3_apply,
            hqj, hqi, Ne.symm hqj, Ne.symm hqi]

/-- The peer whose hello to the leader is pending sits in `connectPeerToLeader`. -/
theorem Inv.dialer_hello {c : Cfg} {s : State} (h : Inv c s) (hc : c.Ok) {i : Nat}
    (hp : s.pend 0 i 0 = true) : s.phase i = .hello := by
  have hf := h.pendFacts hp
  have hP := h.peer i hf.dials.1 hf.inn
  cases hph : s.phase i with
  | init => have := (hP.init hph).2.1 0 0; simp [hp] at this
  | joined => have := (hP.joined hph).2.1 0 0; simp [hp] at this
  | hello => rfl
  | run k t =>
    have := h.past0 hc (hP.active k t (by simp [hph, prog])).sent i hf.dials.1 hf.inn
    simp [hf.anone] at this
  | info r => exact absurd hph (hP.notInfo r)
  | done =>
    have := h.past0 hc (hP.active c.m [] (by simp [hph, prog])).sent i hf.dials.1 hf.inn
    simp [hf.anone] at this

/-- A peer that has dialled the leader for a connection id above 0 is in the leader's list. -/
theorem Inv.dialer_known {c : Cfg} {s : State} (h : Inv c s) (hc : c.Ok) {i k : Nat} (hi : 0 < i)
    (hin : i < c.n) (hset : (s.conn i 0 k).isSome) (hk : k ≠ 0) : i ∈ s.known 0 := by
  have hP := h.peer i hi hin
  have hi0 : i ≠ 0 := by omega
  have fromSent : infoSentTo (s.phase 0) i → i ∈ s.known 0 := by
    intro hsent
    rw [h.leader.knownMem]; right
    exact h.past0 hc hsent i hi hin
  cases hph : s.phase i with
  | init => simp [(hP.init hph).1] at hset
  | joined => simp [(hP.joined hph).1, joinTable, hk] at hset
  | hello => simp [(hP.hello hph).1, joinTable, hk] at hset
  | run k' t => exact fromSent (hP.active k' t (by simp [hph, prog])).sent
  | info r => exact absurd hph (hP.notInfo r)
  | done => exact fromSent (hP.active c.m [] (by simp [hph, prog])).sent

/-- What the atomic accept does in an invariant state. -/
theorem accept_shape (c : Cfg) (hc : c.Ok) (s s' : State) (h : Inv c s) (j i k : Nat)
    (hs : step c s (.accept j i k) = some s') :
    s.pend j i k = true ∧ s.acc j = true ∧ ∃ kn',
      ((j = 0 ∧ k = 0 ∧ kn' = ins i (s.known 0)) ∨ (¬(j = 0 ∧ k = 0) ∧ kn' = s.known j)) ∧
      s' = { s with pend := upd3 s.pend j i k false, need := upd2 s.need j k (s.need j k - 1), conn := upd3 s.conn j i k (some ⟨i, j, k⟩), known := upd s.known j kn' } := by
  have hn2 := hc.n2
  simp only [step, stepAccDec] at hs
  by_cases hpre : s.acc j = true ∧ s.infl j = none ∧ s.pend j i k = true
  · obtain ⟨hacc, hinfl, hp⟩ := hpre
    refine ⟨hp, hacc, ?_⟩
    have hf := h.pendFacts hp
    have hnp := h.need_pos hp hacc
    have hi0 : i ≠ 0 := by have := hf.dials.1; omega
    rw [if_pos ⟨hacc, hinfl, hp⟩, if_pos ⟨hf.km, hnp⟩] at hs
    simp only [Option.bind_some, stepAccStore, upd_same] at hs
    have hnpj : s.np j = c.n := by
      by_cases hj0 : j = 0
      · subst hj0; exact h.leader.np0
      · obtain ⟨k0, todo, hpr⟩ := h.acc_active (by omega) hf.jn hacc
        exact ((h.peer j (by omega) hf.jn).active k0 todo hpr).np
    rw [if_neg (by have := hf.inn; omega)] at hs
    have e1 : upd (upd s.infl j (some (i, k))) j none = s.infl := by
      funext x; simp only [upd_apply]; split
      · rename_i e; rw [e]; exact hinfl.symm
      · rfl
    by_cases hmem : i ∈ s.known j
    · rw [if_pos hmem] at hs
      simp only [hf.anone, Option.some.injEq] at hs
      have e2 : upd s.known j (s.known j) = s.known := by
        funext x; simp only [upd_apply]; split
        · rename_i e; rw [e]
        · rfl
      refine ⟨s.known j, Or.inr ⟨?_, rfl⟩, ?_⟩
      · rintro ⟨e, e'⟩
        subst e e'
        have := (h.leader.knownMem i).mp hmem
        simp [hi0, hf.anone] at this
      · rw [← hs, e1, e2]
    · rw [if_neg hmem] at hs
      simp only [Option.some.injEq] at hs
      have hj0 : j = 0 := by
        apply Decidable.byContradiction; intro hj0
        obtain ⟨k0, todo, hpr⟩ := h.acc_active (by omega) hf.jn hacc
        exact hmem ((((h.peer j (by omega) hf.jn).active k0 todo hpr).knownMem i).mpr hf.inn)
      subst hj0
      have hk0 : k = 0 := by
        apply Decidable.byContradiction; intro hk0
        exact hmem (h.dialer_known hc hf.dials.1 hf.inn hf.dset hk0)
      subst hk0
      have hhello := h.dialer_hello hc hp
      have hjt := ((h.peer i hf.dials.1 hf.inn).hello hhello).1
      have e3 : (fun p q k' => if p = 0 ∧ q = i then (if k' = 0 then some (Conn.mk i 0 0) else none)
          else s.conn p q k') = upd3 s.conn 0 i 0 (some ⟨i, 0, 0⟩) := by
        funext p q k'
        simp only [upd3_apply]
        by_cases e : p = 0 ∧ q = i
        · obtain ⟨ep, eq⟩ := e
          subst ep eq
          by_cases ek : k' = 0
          · simp [ek]
          · simp only [ek, and_false, if_false, and_self, if_true]
            symm
            apply h.acc_none hf.dials
            rw [hjt]; simp [joinTable, ek]
        · have : ¬ (p = 0 ∧ q = i ∧ k' = 0) := fun e' => e ⟨e'.1, e'.2.1⟩
          simp [e, this]
      refine ⟨ins i (s.known 0), Or.inl ⟨rfl, rfl, rfl⟩, ?_⟩
      rw [← hs, e1, e3]
  · rw [if_neg hpre] at hs
    simp at hs

theorem inv_accept (c : Cfg) (hc : c.Ok) (s s' : State) (h : Inv c s) (j i k : Nat)
    (hs : step c s (.accept j i k) = some s') : Inv c s' := by
  obtain ⟨hp, hacc, kn', hkn, he⟩ := accept_shape c hc s s' h j i k hs
  exact inv_accept_state c hc s s' h j i k hp hacc kn' hkn he

/-- Every atomic step preserves the invariant. -/
theorem inv_step (c : Cfg) (hc : c.Ok) (s s' : State) (h : Inv c s) (e : Ev) (he : e.atomic = true)
    (hs : step c s e = some s') : Inv c s' := by
  cases e with
  | join i => exact inv_join c hc s s' h i hs
  | lconnect => exact inv_lconnect c hc s s' h hs
  | hello i => exact inv_hello c hc s s' h i hs
  | accDec j i k => simp [Ev.atomic] at he
  | accStore j => simp [Ev.atomic] at he
  | accept j i k => exact inv_accept c hc s s' h j i k hs
  | waitDone p => exact inv_waitDone c hc s s' h p hs
  | info => exact inv_info c hc s s' h hs
  | recvInfo i => exact inv_recvInfo c hc s s' h i hs
  | dial i => exact inv_dial c hc s s' h i hs

theorem reach_inv (c : Cfg) (hc : c.Ok) (s : State) (hr : ReachA c s) : Inv c s := by
  induction hr with
  | init => exact inv_init c hc
  | step e _ he hs ih => exact inv_step c hc _ _ ih e he hs

end Mpc.Mesh

/-
Lemmas about alterations given as position sets and about the coefficient
vector (Model/KosSet.lean): the error sum of the acceptance condition for the
error matrix of a position list (`psum_posRow`), for one column at a set of
rows (`posSum_colAt`), the specification of `distinctNZ`, and the receiver's
checksum `x` as the XOR of the coefficients of the chosen rows (`receiveKos_x`,
the basis of recovering the coefficients from the real receiver's behaviour).
Core Lean only.
-/
import MpcVerif.Model.KosSet
import MpcVerif.Proofs.Kos
namespace Mpc.Kos
open Mpc.Iknp Mpc.Clmul

theorem labelBit_bitLabel (j k : Nat) (hj : j < 128) (hk : k < 128) : labelBit (bitLabel j) k = decide (j = k) := by
  unfold labelBit bitLabel
  have h1 := labelPos_lt hj
  have h2 := labelPos_lt hk
  rw [BitVec.getLsbD_shiftLeft]
  by_cases h : j = k
  · subst h; simp [h2]
  · have hne : labelPos j ≠ labelPos k := fun e => h (labelPos_inj hj hk e)
    simp only [h, decide_false]
    by_cases hlt : labelPos k < labelPos j
    · simp [hlt]
    · have : labelPos k - labelPos j ≠ 0 := by omega
      simp [BitVec.getLsbD_one, this]

theorem bitLabel_ne_zero (j : Nat) (hj : j < 128) : bitLabel j ≠ 0#128 := by
  intro h
  have := labelBit_bitLabel j j hj hj
  rw [h] at this
  simp at this

theorem bitLabel_and (delta : Label) (j : Nat) (hj : j < 128) :
    bitLabel j &&& delta = if labelBit delta j = true then bitLabel j else 0#128 := by
  apply label_ext
  intro k hk
  rw [labelBit_and, labelBit_bitLabel j k hj hk]
  by_cases h : j = k
  · subst h
    by_cases hd : labelBit delta j = true
    · simp [hd, labelBit_bitLabel j j hj hj]
    · simp [hd]
  · by_cases hd : labelBit delta j = true
    · simp [h, hd, labelBit_bitLabel j k hj hk]
    · simp [h, hd]

theorem lsum_zero (n : Nat) (f : Nat → Label) (h : ∀ i, i < n → f i = 0#128) : lsum n f = 0#128 := by
  induction n with
  | zero => rfl
  | succ k ih => simp [lsum, ih (fun i hi => h i (by omega)), h k (by omega)]

theorem lsum_single (n : Nat) (f : Nat → Label) (i0 : Nat) (h0 : i0 < n) (h : ∀ i, i < n → i ≠ i0 → f i = 0#128) :
    lsum n f = f i0 := by
  induction n with
  | zero => omega
  | succ k ih =>
    by_cases hk : i0 = k
    · subst hk
      simp [lsum, lsum_zero i0 f (fun i hi => h i (by omega) (by omega))]
    · simp [lsum, ih (by omega) (fun i hi hne => h i (by omega) hne), h k (by omega) (fun e => hk e.symm)]


theorem posRow_nil (r : Nat) : posRow [] r = 0#128 := rfl

theorem posRow_cons (p : Pos) (ps : List Pos) (r : Nat) :
    posRow (p :: ps) r = if p.1 = r then posRow ps r ^^^ bitLabel p.2 else posRow ps r := rfl

theorem posSum_cons (chi : Nat → Label) (delta : Label) (N : Nat) (p : Pos) (ps : List Pos) :
    posSum chi delta N (p :: ps) =
      if p.1 < N ∧ labelBit delta p.2 = true then pxor (posSum chi delta N ps) (mul128 (chi p.1) (bitLabel p.2))
      else posSum chi delta N ps := rfl

/-- The error sum of the acceptance condition for the error matrix of a
position list. -/
theorem psum_posRow (chi : Nat → Label) (delta : Label) (N : Nat) (ps : List Pos) (hcol : ∀ p, p ∈ ps → p.2 < 128) :
    (psum N fun r => mul128 (chi r) (posRow ps r &&& delta)) = posSum chi delta N ps := by
  induction ps with
  | nil =>
    apply psum_zero
    intro r _
    rw [posRow_nil, BitVec.zero_and, mul128_zero_right]
  | cons p ps ih =>
    have hp : p.2 < 128 := hcol p (List.mem_cons_self ..)
    have ih' := ih (fun q hq => hcol q (List.mem_cons_of_mem _ hq))
    have e : (fun r => mul128 (chi r) (posRow (p :: ps) r &&& delta)) =
        fun r => pxor (mul128 (chi r) (posRow ps r &&& delta))
          (if p.1 = r then mul128 (chi r) (bitLabel p.2 &&& delta) else pzero) := by
      funext r
      rw [posRow_cons]
      by_cases h : p.1 = r
      · simp only [h, if_true]
        have : (posRow ps r ^^^ bitLabel p.2) &&& delta = (posRow ps r &&& delta) ^^^ (bitLabel p.2 &&& delta) := by
          ext k hk; simp [Bool.and_xor_distrib_right]
        rw [this, mul128_xor_right]
      · simp only [h, if_false, pxor_zero]
    rw [e, psum_pxor, ih', posSum_cons]
    by_cases hN : p.1 < N
    · rw [psum_single _ _ p.1 hN (fun i _ hne => by
        have : p.1 ≠ i := fun e => hne e.symm
        simp [this])]
      simp only [if_true]
      rw [bitLabel_and _ _ hp]
      by_cases hd : labelBit delta p.2 = true
      · simp [hN, hd]
      · simp [hN, hd, mul128_zero_right]
    · rw [psum_zero _ _ (fun i hi => by
        have : p.1 ≠ i := by omega
        simp [this])]
      simp [hN]


/-- One column at the rows of `S`: the error sum is `(XOR of chi over S) * X^i` if `Delta` selects the column. -/
theorem posSum_colAt (chi : Nat → Label) (delta : Label) (N : Nat) (S : List Nat) (i : Nat) (hS : ∀ r, r ∈ S → r < N) :
    posSum chi delta N (colAt S i) =
      if labelBit delta i = true then mul128 (rowXor chi S) (bitLabel i) else pzero := by
  induction S with
  | nil => simp [colAt, posSum, rowXor, mul128_zero_left]
  | cons r S ih =>
    have ih' := ih (fun q hq => hS q (List.mem_cons_of_mem _ hq))
    have hr : r < N := hS r (List.mem_cons_self ..)
    show posSum chi delta N ((r, i) :: colAt S i) = _
    rw [posSum_cons, ih']
    by_cases hd : labelBit delta i = true
    · simp only [hr, hd, and_self, if_true]
      show _ = mul128 (rowXor chi S ^^^ chi r) (bitLabel i)
      rw [mul128_xor_left]
    · simp [hd]

theorem posRow_colAt_not_mem (S : List Nat) (i r : Nat) (h : r ∉ S) : posRow (colAt S i) r = 0#128 := by
  induction S with
  | nil => rfl
  | cons q S ih =>
    show posRow ((q, i) :: colAt S i) r = _
    rw [posRow_cons]
    have hq : q ≠ r := fun e => h (e ▸ List.mem_cons_self ..)
    simp only [hq, if_false]
    exact ih (fun hm => h (List.mem_cons_of_mem _ hm))

theorem posRow_colAt_mem (S : List Nat) (i r : Nat) (hnd : S.Nodup) (h : r ∈ S) : posRow (colAt S i) r = bitLabel i := by
  induction S with
  | nil => cases h
  | cons q S ih =>
    show posRow ((q, i) :: colAt S i) r = _
    rw [posRow_cons]
    have hnd' := List.nodup_cons.mp hnd
    by_cases hq : q = r
    · subst hq
      simp only [if_true]
      rw [posRow_colAt_not_mem _ _ _ hnd'.1]
      simp
    · simp only [hq, if_false]
      rcases List.mem_cons.mp h with e | hm
      · exact absurd e.symm hq
      · exact ih hnd'.2 hm

theorem distinctNZ_spec (chi : Nat → Label) (N : Nat) (h : distinctNZ chi N = true) :
    (∀ r, r < N → chi r ≠ 0#128) ∧ ∀ r r', r < N → r' < N → r ≠ r' → chi r ≠ chi r' := by
  unfold distinctNZ at h
  rw [List.all_eq_true] at h
  have key : ∀ r r', r < N → r' < r → chi r' ≠ chi r := by
    intro r r' hr hlt
    have := h r (List.mem_range.mpr hr)
    rw [Bool.and_eq_true, List.all_eq_true] at this
    have := this.2 r' (List.mem_range.mpr hlt)
    simpa using this
  refine ⟨?_, ?_⟩
  · intro r hr
    have := h r (List.mem_range.mpr hr)
    rw [Bool.and_eq_true] at this
    simpa using this.1
  · intro r r' hr hr' hne
    rcases Nat.lt_or_gt_of_ne hne with hlt | hgt
    · exact key r' r hr' hlt
    · exact fun e => key r r' hr hgt e.symm


/-- The receiver's checksum `x` is the XOR of the coefficients of the rows whose choice bit is set. -/
theorem receiveKos_x (X : Label → Nat → Label) (R0 R1 SS : Nat → Nat → Byte) (delta : Label)
    (hb : BaseOK R0 R1 SS delta) (rs : RecvSt) (ss : SendSt) (hs : InStep rs ss) (b : Array Bool)
    (b0 b1 seed2 : Label) :
    (receiveKos X R0 R1 rs b b0 b1 seed2).x =
      lsum (b.size + 256) fun r => if choiceAt b b0 b1 r = true then X seed2 r else 0#128 := by
  let bcv := bcvOf b0 b1
  let r1 := receive R0 R1 rs b
  let r2 := receive R0 R1 r1.1 bcv
  obtain ⟨ss1, sent, _, hst1, _, hl1', _, _⟩ :=
    label_call_err R0 R1 SS delta hb rs ss hs b (zeroLike r1.2.2) [] (shape_zeroLike _)
  obtain ⟨ss2, cvS, _, _, _, hl2', _, _⟩ :=
    label_call_err R0 R1 SS delta hb r1.1 ss1 hst1 bcv (zeroLike r2.2.2) [] (shape_zeroLike _)
  have hbcv : bcv.size = 256 := size_bcvOf b0 b1
  rw [hbcv] at hl2'
  have hrsz : r1.2.1.toArray.size = b.size := by simp; exact hl1'
  have hrcvsz : r2.2.1.toArray.size = 256 := by simp; exact hl2'
  have hrecv := chk_total (X seed2) (fun i => b.getD i false) (fun j => bcv.getD j false) r1.2.1.toArray r2.2.1.toArray
    b.size hrsz
  show (chkTail (X seed2) (fun j => bcv.getD j false) r2.2.1.toArray
    (chkLoop (X seed2) (fun i => b.getD i false) r1.2.1.toArray b.size (b.size + 1) 0 {})).x = _
  rw [hrecv, hrcvsz]
  rfl

/-- A probe call whose only set choice bit is the one of row `r0` sends `x = chi_r0`. -/
theorem receiveKos_x_unit (X : Label → Nat → Label) (R0 R1 SS : Nat → Nat → Byte) (delta : Label)
    (hb : BaseOK R0 R1 SS delta) (rs : RecvSt) (ss : SendSt) (hs : InStep rs ss) (b : Array Bool)
    (b0 b1 seed2 : Label) (r0 : Nat) (hr0 : r0 < b.size + 256)
    (hunit : ∀ r, r < b.size + 256 → choiceAt b b0 b1 r = decide (r = r0)) :
    (receiveKos X R0 R1 rs b b0 b1 seed2).x = X seed2 r0 := by
  rw [receiveKos_x X R0 R1 SS delta hb rs ss hs]
  rw [lsum_single _ _ r0 hr0 (fun r hr hne => by simp [hunit r hr, hne])]
  simp [hunit r0 hr0]
end Mpc.Kos

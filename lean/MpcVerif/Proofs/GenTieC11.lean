/-
T1 tie (DESIGN.md 1.3) of the fixed-width encoders / decoders of `p2p.Conn` (p2p/protocol.go:
`NeedSpace`, `SendByte`, `SendUint16`, `SendUint32`, `ReceiveByte`, `ReceiveUint16`,
`ReceiveUint32`) to the C11 model Model/Conn.lean: the definitions of MpcVerif/Gen/LeafC11.lean,
regenerated from the current Go source by `gofacts translate -group C11` on every run of
checks/C11.py, are

  * the reservation test of `Sender.reserve` / `Recv.ensure` (`WritePos+n > len(WriteBuf)`,
    `ReadStart+n > ReadEnd`) followed by the opaque `Flush` / `Fill` (parameters `flush`, `fill`:
    `none` = a non-nil error, which the method returns),
  * then exactly the bytes `Conn.beList n v` of the model's wire format written at `WritePos`
    (`wput`), resp. `Conn.decodeList` of the `n` bytes at `ReadStart` (`rtake`), and the position
    advanced by `n`.

A `*p2p.Conn` is `(WriteBuf, WritePos, ReadBuf, ReadStart, ReadEnd)`.  Hypotheses: positions are
inside the buffers, buffers are smaller than 2^62 bytes, and `Flush` / `Fill` return a state
with room for the value (what `Sender.flush` / `Recv.fill` of the model provide).  Core Lean only.
-/
import MpcVerif.Gen.LeafC11
import MpcVerif.Proofs.GenTieLib
import MpcVerif.Model.Conn

namespace Mpc.GenTie
open Mpc Mpc.Gen Mpc.Gen.C11

abbrev Flush := ConnS → Option ConnS
abbrev Fill := ConnS → BitVec 64 → Option ConnS

/-- `0 ≤ WritePos` and `WritePos + n ≤ len(WriteBuf)`. -/
abbrev WRoom (c : ConnS) (n : Nat) : Prop := c.2.1.toNat + n ≤ c.1.size ∧ c.1.size < 2^62

/-- The bytes of the model's `be k n` (Model/Conn.lean) as the translator's bytes. -/
def beBV (k n : Nat) : List (BitVec 8) := (Conn.beList k n).map UInt8.toBitVec

/-- `a[p+i] = l[i]` for all `i`. -/
def wputL : Array (BitVec 8) → Nat → List (BitVec 8) → Array (BitVec 8)
  | a, _, [] => a
  | a, p, b :: bs => wputL (a.setIfInBounds p b) (p + 1) bs

theorem size_wputL (a : Array (BitVec 8)) (p : Nat) (l : List (BitVec 8)) : (wputL a p l).size = a.size := by
  induction l generalizing a p with
  | nil => rfl
  | cons b bs ih => simp [wputL, ih]

theorem take_wputL (a : Array (BitVec 8)) (p : Nat) (l : List (BitVec 8)) (h : p + l.length ≤ a.size) :
    (wputL a p l).toList.take (p + l.length) = a.toList.take p ++ l := by
  induction l generalizing a p with
  | nil => simp [wputL]
  | cons b bs ih =>
    simp only [wputL, List.length_cons] at h ⊢
    have := ih (a.setIfInBounds p b) (p + 1) (by simp; omega)
    rw [show p + (bs.length + 1) = p + 1 + bs.length by omega, this]
    have hp : p < a.size := by omega
    simp only [Array.toList_setIfInBounds]
    rw [List.take_add_one]
    simp [List.take_set_of_le, hp]

/-- `WriteBuf[WritePos+i] = l[i]` for all `i`, then `WritePos += len(l)`. -/
def wput (c : ConnS) (l : List (BitVec 8)) : ConnS :=
  (wputL c.1 c.2.1.toNat l, c.2.1 + BitVec.ofNat 64 l.length, c.2.2)

/-- `WriteBuf[0:WritePos]`: the model's `Sender.cur`. -/
def wcur (c : ConnS) : List (BitVec 8) := c.1.toList.take c.2.1.toNat

/-- `wput` is the model's `Sender.put`: it appends to `cur`. -/
theorem wcur_wput (c : ConnS) (l : List (BitVec 8)) (h : c.2.1.toNat + l.length ≤ c.1.size) (hs : c.1.size < 2^62) :
    wcur (wput c l) = wcur c ++ l := by
  have : (c.2.1 + BitVec.ofNat 64 l.length).toNat = c.2.1.toNat + l.length := by
    simp only [BitVec.toNat_add, BitVec.toNat_ofNat]; omega
  simp only [wcur, wput, this]
  exact take_wputL c.1 c.2.1.toNat l h

theorem ofNat8_mod (n : Nat) : BitVec.ofNat 8 (n % 256) = BitVec.ofNat 8 n := by
  apply BitVec.eq_of_toNat_eq; simp

theorem u8_bv (n : Nat) : (UInt8.ofNat (n % 256)).toBitVec = BitVec.ofNat 8 n := by
  rw [← ofNat8_mod]; rfl

theorem beBV1 (n : Nat) : beBV 1 n = [BitVec.ofNat 8 n] := by
  simp [beBV, Conn.beList, u8_bv]
theorem beBV2 (n : Nat) : beBV 2 n = [BitVec.ofNat 8 (n / 256), BitVec.ofNat 8 n] := by
  simp [beBV, Conn.beList, u8_bv]
theorem beBV4 (n : Nat) : beBV 4 n =
    [BitVec.ofNat 8 (n / 256 / 256 / 256), BitVec.ofNat 8 (n / 256 / 256), BitVec.ofNat 8 (n / 256), BitVec.ofNat 8 n] := by
  simp [beBV, Conn.beList, u8_bv]

/-- Go: `byte(x & 0xff) = byte(x)`. -/
theorem byte_mask (x : BitVec 32) : BitVec.setWidth 8 (x &&& 0xff#32) = BitVec.setWidth 8 x := by
  apply BitVec.eq_of_getLsbD_eq; intro i hi
  have hall : ∀ j, j < 8 → (0xff#32).getLsbD j = true := by decide
  have hall8 : ∀ j, j < 8 → (0xff#8).getLsbD j = true := by decide
  simp [BitVec.getLsbD_setWidth, hall i hi, hall8 i hi]
/-- Go: `byte(uint32(val) >> s)` for `s + 8 ≤ 32`. -/
theorem byte_shr (val : BitVec 64) (s : Nat) (hs : s + 8 ≤ 32) :
    BitVec.setWidth 8 (BitVec.setWidth 32 val >>> s) = BitVec.ofNat 8 (val.toNat / 2 ^ s) := by
  apply BitVec.eq_of_toNat_eq
  simp only [BitVec.toNat_setWidth, BitVec.toNat_ushiftRight, BitVec.toNat_ofNat, Nat.shiftRight_eq_div_pow]
  have e : (2:Nat) ^ 32 = 2 ^ s * 2 ^ (32 - s) := by rw [← Nat.pow_add]; congr 1; omega
  rw [e, Nat.mod_mul_right_div_self]
  have e2 : (2:Nat) ^ (32 - s) = 2 ^ 8 * 2 ^ (24 - s) := by rw [← Nat.pow_add]; congr 1; omega
  rw [e2, Nat.mod_mul_right_mod]
/-- Go: `byte(uint32(val))`. -/
theorem byte_u32 (val : BitVec 64) : BitVec.setWidth 8 (BitVec.setWidth 32 val) = BitVec.ofNat 8 val.toNat := by
  have := byte_shr val 0 (by omega)
  simpa using this
/-- Go: `byte(val)`. -/
theorem byte_int (val : BitVec 64) : BitVec.setWidth 8 val = BitVec.ofNat 8 val.toNat := by
  apply BitVec.eq_of_toNat_eq
  simp only [BitVec.toNat_setWidth, BitVec.toNat_ofNat]

/-- Closes `some (WriteBuf', WritePos', rest) = some (wput c bytes)` after the guards are evaluated: the bytes whatever the
order in which they were stored (`p` = `WritePos`), the position however it was advanced. -/
macro "wput_close" p:term : tactic =>
  `(tactic| (simp (disch := omega) only [byte_mask, byte_shr, byte_u32, byte_int, wput, wputL, beBV1, beBV2, beBV4,
               List.length_cons, List.length_nil, Nat.pow_succ, Nat.pow_zero, Nat.div_div_eq_div_mul, Nat.div_one, Nat.reduceMul,
               Nat.reduceAdd, Nat.add_zero] <;>
             (refine congrArg some (Prod.ext ?_ (Prod.ext ?_ rfl)) <;>
              first
               | with_reducible rfl
               | (apply BitVec.eq_of_toNat_eq; simp only [BitVec.toNat_add, BitVec.toNat_ofNat]; omega)
               | arr_cases $p)))

/-- `if c.WritePos+n > len(c.WriteBuf)` -/
theorem reserve_cond (c : ConnS) (n : Nat) (h : c.2.1.toNat ≤ c.1.size) (hs : c.1.size < 2^62) (hn : n < 2^62) :
    BitVec.slt (BitVec.ofNat 64 c.1.size) (c.2.1 + BitVec.ofNat 64 n) = decide (c.1.size < c.2.1.toNat + n) := by
  rw [slt_toNat _ _ (by rw [ofNat_size _ (by omega)]; omega) (by rw [add_lit_toNat _ _ (by omega)]; omega),
    ofNat_size _ (by omega), add_lit_toNat _ _ (by omega)]

theorem tie_NeedSpace (c : ConnS) (flush : Flush) (fill : Fill) (n : BitVec 64)
    (h : c.2.1.toNat ≤ c.1.size) (hs : c.1.size < 2^62) (hn : n.toNat < 2^62) :
    Conn.NeedSpace c flush fill n = if c.1.size < c.2.1.toNat + n.toNat then flush c else some c := by
  have ha : (c.2.1 + n).toNat = c.2.1.toNat + n.toNat := by rw [BitVec.toNat_add]; omega
  simp only [Conn.NeedSpace]
  by_cases hc : c.1.size < c.2.1.toNat + n.toNat
  · have h2 : ¬ (c.2.1.toNat + n.toNat ≤ c.1.size) := by omega
    int_norm <;> simp [ha, hc, h2]
  · have h2 : c.2.1.toNat + n.toNat ≤ c.1.size := by omega
    int_norm <;> simp [ha, hc, h2]

theorem tie_SendUint16_room (c : ConnS) (flush : Flush) (fill : Fill) (val : BitVec 64) (hr : WRoom c 2) :
    Conn.SendUint16 c flush fill val = some (wput c (beBV 2 val.toNat)) := by
  obtain ⟨wb, wp, rest⟩ := c
  have hr1 : wp.toNat + 2 ≤ wb.size := hr.1
  have hr2 : wb.size < 2^62 := hr.2
  simp only [Conn.SendUint16]
  guard_norm
  wput_close wp.toNat

theorem tie_SendUint16 (c : ConnS) (flush : Flush) (fill : Fill) (val : BitVec 64)
    (h : c.2.1.toNat ≤ c.1.size) (hs : c.1.size < 2^62) (hfl : ∀ c1, flush c = some c1 → WRoom c1 2) :
    Conn.SendUint16 c flush fill val =
      (if c.1.size < c.2.1.toNat + 2 then flush c else some c).bind (fun c1 => some (wput c1 (beBV 2 val.toNat))) := by
  by_cases hc : c.1.size < c.2.1.toNat + 2
  · cases hf : flush c with
    | none =>
      simp only [Conn.SendUint16]
      guard_norm
      simp [hf, hc]
    | some c1 =>
      obtain ⟨hr1, hr2⟩ := hfl c1 hf
      obtain ⟨wb, wp, rest⟩ := c1
      simp only at hr1 hr2
      simp only [Conn.SendUint16]
      guard_norm
      simp only [hf, hc, Option.elim, if_true, Option.bind]
      guard_norm
      wput_close wp.toNat
  · rw [tie_SendUint16_room c flush fill val ⟨by omega, hs⟩]
    simp [hc]

theorem tie_SendByte_room (c : ConnS) (flush : Flush) (fill : Fill) (val : BitVec 8) (hr : WRoom c 1) :
    Conn.SendByte c flush fill val = some (wput c ([val])) := by
  obtain ⟨wb, wp, rest⟩ := c
  have hr1 : wp.toNat + 1 ≤ wb.size := hr.1
  have hr2 : wb.size < 2^62 := hr.2
  simp only [Conn.SendByte]
  guard_norm
  wput_close wp.toNat

theorem tie_SendByte (c : ConnS) (flush : Flush) (fill : Fill) (val : BitVec 8)
    (h : c.2.1.toNat ≤ c.1.size) (hs : c.1.size < 2^62) (hfl : ∀ c1, flush c = some c1 → WRoom c1 1) :
    Conn.SendByte c flush fill val =
      (if c.1.size < c.2.1.toNat + 1 then flush c else some c).bind (fun c1 => some (wput c1 ([val]))) := by
  by_cases hc : c.1.size < c.2.1.toNat + 1
  · cases hf : flush c with
    | none =>
      simp only [Conn.SendByte]
      guard_norm
      simp [hf, hc]
    | some c1 =>
      obtain ⟨hr1, hr2⟩ := hfl c1 hf
      obtain ⟨wb, wp, rest⟩ := c1
      simp only at hr1 hr2
      simp only [Conn.SendByte]
      guard_norm
      simp only [hf, hc, Option.elim, if_true, Option.bind]
      guard_norm
      wput_close wp.toNat
  · rw [tie_SendByte_room c flush fill val ⟨by omega, hs⟩]
    simp [hc]

theorem tie_SendUint32_room (c : ConnS) (flush : Flush) (fill : Fill) (val : BitVec 64) (hr : WRoom c 4) :
    Conn.SendUint32 c flush fill val = some (wput c (beBV 4 val.toNat)) := by
  obtain ⟨wb, wp, rest⟩ := c
  have hr1 : wp.toNat + 4 ≤ wb.size := hr.1
  have hr2 : wb.size < 2^62 := hr.2
  simp only [Conn.SendUint32]
  guard_norm
  wput_close wp.toNat

theorem tie_SendUint32 (c : ConnS) (flush : Flush) (fill : Fill) (val : BitVec 64)
    (h : c.2.1.toNat ≤ c.1.size) (hs : c.1.size < 2^62) (hfl : ∀ c1, flush c = some c1 → WRoom c1 4) :
    Conn.SendUint32 c flush fill val =
      (if c.1.size < c.2.1.toNat + 4 then flush c else some c).bind (fun c1 => some (wput c1 (beBV 4 val.toNat))) := by
  by_cases hc : c.1.size < c.2.1.toNat + 4
  · cases hf : flush c with
    | none =>
      simp only [Conn.SendUint32]
      guard_norm
      simp [hf, hc]
    | some c1 =>
      obtain ⟨hr1, hr2⟩ := hfl c1 hf
      obtain ⟨wb, wp, rest⟩ := c1
      simp only at hr1 hr2
      simp only [Conn.SendUint32]
      guard_norm
      simp only [hf, hc, Option.elim, if_true, Option.bind]
      guard_norm
      wput_close wp.toNat
  · rw [tie_SendUint32_room c flush fill val ⟨by omega, hs⟩]
    simp [hc]

/-! ## Receive half -/

/-- `0 ≤ ReadStart` and `ReadStart + n ≤ len(ReadBuf)`. -/
abbrev RRoom (c : ConnS) (n : Nat) : Prop := c.2.2.2.1.toNat + n ≤ c.2.2.1.size ∧ c.2.2.1.size < 2^62

/-- The `n` bytes at `ReadStart`, as the model's bytes. -/
def rtake (c : ConnS) (n : Nat) : List UInt8 :=
  (List.range n).map fun i => UInt8.ofBitVec (c.2.2.1.getD (c.2.2.2.1.toNat + i) 0#8)

/-- `ReadStart += n` -/
def radv (c : ConnS) (n : Nat) : ConnS := (c.1, c.2.1, c.2.2.1, c.2.2.2.1 + BitVec.ofNat 64 n, c.2.2.2.2)

/-- `if c.ReadStart+n > c.ReadEnd` -/
theorem ensure_cond (c : ConnS) (n : Nat) (h0 : c.2.2.2.1.toNat < 2^62) (h1 : c.2.2.2.2.toNat < 2^62) (hn : n < 2^62) :
    BitVec.slt c.2.2.2.2 (c.2.2.2.1 + BitVec.ofNat 64 n) = decide (c.2.2.2.2.toNat < c.2.2.2.1.toNat + n) := by
  rw [slt_toNat _ _ (by omega) (by rw [add_lit_toNat _ _ (by omega)]; omega), add_lit_toNat _ _ (by omega)]

/-- `val <<= 8; val |= uint32(b)` while the value still fits 24 bits. -/
theorem acc_step (x : BitVec 32) (b : BitVec 8) (hx : x.toNat < 2^24) :
    ((x <<< 8) ||| BitVec.setWidth 32 b).toNat = x.toNat * 256 + b.toNat := by
  have hb := b.isLt
  simp only [BitVec.toNat_or, BitVec.toNat_shiftLeft, BitVec.toNat_setWidth, Nat.shiftLeft_eq]
  rw [Nat.mod_eq_of_lt (by omega), Nat.mod_eq_of_lt (by omega)]
  have := Nat.shiftLeft_add_eq_or_of_lt (i := 8) hb x.toNat
  rw [Nat.shiftLeft_eq] at this
  omega

theorem tie_ReceiveByte_room (c : ConnS) (flush : Flush) (fill : Fill) (hr : RRoom c 1)
    (he : c.2.2.2.1.toNat + 1 ≤ c.2.2.2.2.toNat) (h1 : c.2.2.2.2.toNat < 2^62) :
    Conn.ReceiveByte c flush fill = some (radv c 1, c.2.2.1.getD c.2.2.2.1.toNat 0#8) := by
  obtain ⟨wb, wp, rb, rs, re⟩ := c
  have hr1 : rs.toNat + 1 ≤ rb.size := hr.1
  have hr2 : rb.size < 2^62 := hr.2
  simp only at he h1
  simp only [Conn.ReceiveByte]
  guard_norm
  simp only [radv]
  first | rfl | done | (refine congrArg some (Prod.ext ?_ rfl); first | rfl | (refine Prod.ext rfl (Prod.ext rfl (Prod.ext rfl (Prod.ext ?_ rfl))); apply BitVec.eq_of_toNat_eq; simp only [BitVec.toNat_add, BitVec.toNat_ofNat]; omega))

theorem u8_toNat (b : BitVec 8) : (UInt8.ofBitVec b).toNat = b.toNat := rfl

theorem decode2 (b0 b1 : BitVec 8) :
    BitVec.setWidth 64 ((BitVec.setWidth 32 b0 <<< 8) ||| BitVec.setWidth 32 b1) =
      BitVec.ofNat 64 (Conn.decodeList [UInt8.ofBitVec b0, UInt8.ofBitVec b1]) := by
  apply BitVec.eq_of_toNat_eq
  have hb0 := b0.isLt
  have hb1 := b1.isLt
  have s1 := acc_step (BitVec.setWidth 32 b0) b1 (by simp only [BitVec.toNat_setWidth]; omega)
  simp only [BitVec.toNat_setWidth] at s1
  rw [Nat.mod_eq_of_lt (show b0.toNat < 2^32 by omega)] at s1
  simp only [BitVec.toNat_setWidth, s1, Conn.decodeList, List.foldl, BitVec.toNat_ofNat, u8_toNat]
  omega

theorem decode4 (b0 b1 b2 b3 : BitVec 8) :
    BitVec.setWidth 64 ((((((BitVec.setWidth 32 b0 <<< 8) ||| BitVec.setWidth 32 b1) <<< 8) ||| BitVec.setWidth 32 b2) <<< 8) |||
        BitVec.setWidth 32 b3) =
      BitVec.ofNat 64 (Conn.decodeList [UInt8.ofBitVec b0, UInt8.ofBitVec b1, UInt8.ofBitVec b2, UInt8.ofBitVec b3]) := by
  apply BitVec.eq_of_toNat_eq
  have hb0 := b0.isLt
  have hb1 := b1.isLt
  have hb2 := b2.isLt
  have hb3 := b3.isLt
  have s1 := acc_step (BitVec.setWidth 32 b0) b1 (by simp only [BitVec.toNat_setWidth]; omega)
  simp only [BitVec.toNat_setWidth] at s1
  rw [Nat.mod_eq_of_lt (show b0.toNat < 2^32 by omega)] at s1
  have s2 := acc_step ((BitVec.setWidth 32 b0 <<< 8) ||| BitVec.setWidth 32 b1) b2 (by rw [s1]; omega)
  rw [s1] at s2
  have s3 := acc_step ((((BitVec.setWidth 32 b0 <<< 8) ||| BitVec.setWidth 32 b1) <<< 8) ||| BitVec.setWidth 32 b2) b3
    (by rw [s2]; omega)
  rw [s2] at s3
  rw [BitVec.toNat_setWidth, s3]
  simp only [Conn.decodeList, List.foldl, BitVec.toNat_ofNat, u8_toNat]
  omega

theorem tie_ReceiveUint16_room (c : ConnS) (flush : Flush) (fill : Fill) (hr : RRoom c 2)
    (he : c.2.2.2.1.toNat + 2 ≤ c.2.2.2.2.toNat) (h1 : c.2.2.2.2.toNat < 2^62) :
    Conn.ReceiveUint16 c flush fill = some (radv c 2, BitVec.ofNat 64 (Conn.decodeList (rtake c 2))) := by
  obtain ⟨wb, wp, rb, rs, re⟩ := c
  have hr1 : rs.toNat + 2 ≤ rb.size := hr.1
  have hr2 : rb.size < 2^62 := hr.2
  simp only at he h1
  simp only [Conn.ReceiveUint16]
  guard_norm
  simp only [radv, decode2]
  first | rfl | done | (refine congrArg some (Prod.ext ?_ rfl); first | rfl | (refine Prod.ext rfl (Prod.ext rfl (Prod.ext rfl (Prod.ext ?_ rfl))); apply BitVec.eq_of_toNat_eq; simp only [BitVec.toNat_add, BitVec.toNat_ofNat]; omega))

theorem tie_ReceiveUint32_room (c : ConnS) (flush : Flush) (fill : Fill) (hr : RRoom c 4)
    (he : c.2.2.2.1.toNat + 4 ≤ c.2.2.2.2.toNat) (h1 : c.2.2.2.2.toNat < 2^62) :
    Conn.ReceiveUint32 c flush fill = some (radv c 4, BitVec.ofNat 64 (Conn.decodeList (rtake c 4))) := by
  obtain ⟨wb, wp, rb, rs, re⟩ := c
  have hr1 : rs.toNat + 4 ≤ rb.size := hr.1
  have hr2 : rb.size < 2^62 := hr.2
  simp only at he h1
  simp only [Conn.ReceiveUint32]
  guard_norm
  simp only [radv, decode4]
  first | rfl | done | (refine congrArg some (Prod.ext ?_ rfl); first | rfl | (refine Prod.ext rfl (Prod.ext rfl (Prod.ext rfl (Prod.ext ?_ rfl))); apply BitVec.eq_of_toNat_eq; simp only [BitVec.toNat_add, BitVec.toNat_ofNat]; omega))

theorem tie_ReceiveByte (c : ConnS) (flush : Flush) (fill : Fill)
    (h0 : c.2.2.2.1.toNat < 2^62) (h1 : c.2.2.2.2.toNat ≤ c.2.2.1.size) (hs : c.2.2.1.size < 2^62)
    (hfi : ∀ c1, fill c 1#64 = some c1 → RRoom c1 1 ∧ c1.2.2.2.1.toNat + 1 ≤ c1.2.2.2.2.toNat ∧ c1.2.2.2.2.toNat < 2^62) :
    Conn.ReceiveByte c flush fill =
      (if c.2.2.2.2.toNat < c.2.2.2.1.toNat + 1 then fill c 1#64 else some c).bind
        (fun c1 => some (radv c1 1, c1.2.2.1.getD c1.2.2.2.1.toNat 0#8)) := by
  by_cases hlt : c.2.2.2.2.toNat < c.2.2.2.1.toNat + 1
  · cases hf : fill c 1#64 with
    | none =>
      simp only [Conn.ReceiveByte]
      guard_norm
      simp [hf, hlt]
    | some c1 =>
      obtain ⟨hr, he, hre⟩ := hfi c1 hf
      have := tie_ReceiveByte_room c1 flush fill hr he hre
      simp only [Conn.ReceiveByte] at this ⊢
      guard_norm
      simp only [hf, hlt, Option.elim, if_true, Option.bind]
      obtain ⟨wb, wp, rb, rs, re⟩ := c1
      have hr1 : rs.toNat + 1 ≤ rb.size := hr.1
      have hr2 : rb.size < 2^62 := hr.2
      simp only at he hre
      guard_norm at this
      guard_norm
      exact this
  · rw [tie_ReceiveByte_room c flush fill ⟨by omega, hs⟩ (by omega) (by omega)]
    simp [hlt]

theorem tie_ReceiveUint16 (c : ConnS) (flush : Flush) (fill : Fill)
    (h0 : c.2.2.2.1.toNat < 2^62) (h1 : c.2.2.2.2.toNat ≤ c.2.2.1.size) (hs : c.2.2.1.size < 2^62)
    (hfi : ∀ c1, fill c 2#64 = some c1 → RRoom c1 2 ∧ c1.2.2.2.1.toNat + 2 ≤ c1.2.2.2.2.toNat ∧ c1.2.2.2.2.toNat < 2^62) :
    Conn.ReceiveUint16 c flush fill =
      (if c.2.2.2.2.toNat < c.2.2.2.1.toNat + 2 then fill c 2#64 else some c).bind
        (fun c1 => some (radv c1 2, BitVec.ofNat 64 (Conn.decodeList (rtake c1 2)))) := by
  by_cases hlt : c.2.2.2.2.toNat < c.2.2.2.1.toNat + 2
  · cases hf : fill c 2#64 with
    | none =>
      simp only [Conn.ReceiveUint16]
      guard_norm
      simp [hf, hlt]
    | some c1 =>
      obtain ⟨hr, he, hre⟩ := hfi c1 hf
      have := tie_ReceiveUint16_room c1 flush fill hr he hre
      simp only [Conn.ReceiveUint16] at this ⊢
      guard_norm
      simp only [hf, hlt, Option.elim, if_true, Option.bind]
      obtain ⟨wb, wp, rb, rs, re⟩ := c1
      have hr1 : rs.toNat + 2 ≤ rb.size := hr.1
      have hr2 : rb.size < 2^62 := hr.2
      simp only at he hre
      guard_norm at this
      guard_norm
      exact this
  · rw [tie_ReceiveUint16_room c flush fill ⟨by omega, hs⟩ (by omega) (by omega)]
    simp [hlt]

theorem tie_ReceiveUint32 (c : ConnS) (flush : Flush) (fill : Fill)
    (h0 : c.2.2.2.1.toNat < 2^62) (h1 : c.2.2.2.2.toNat ≤ c.2.2.1.size) (hs : c.2.2.1.size < 2^62)
    (hfi : ∀ c1, fill c 4#64 = some c1 → RRoom c1 4 ∧ c1.2.2.2.1.toNat + 4 ≤ c1.2.2.2.2.toNat ∧ c1.2.2.2.2.toNat < 2^62) :
    Conn.ReceiveUint32 c flush fill =
      (if c.2.2.2.2.toNat < c.2.2.2.1.toNat + 4 then fill c 4#64 else some c).bind
        (fun c1 => some (radv c1 4, BitVec.ofNat 64 (Conn.decodeList (rtake c1 4)))) := by
  by_cases hlt : c.2.2.2.2.toNat < c.2.2.2.1.toNat + 4
  · cases hf : fill c 4#64 with
    | none =>
      simp only [Conn.ReceiveUint32]
      guard_norm
      simp [hf, hlt]
    | some c1 =>
      obtain ⟨hr, he, hre⟩ := hfi c1 hf
      have := tie_ReceiveUint32_room c1 flush fill hr he hre
      simp only [Conn.ReceiveUint32] at this ⊢
      guard_norm
      simp only [hf, hlt, Option.elim, if_true, Option.bind]
      obtain ⟨wb, wp, rb, rs, re⟩ := c1
      have hr1 : rs.toNat + 4 ≤ rb.size := hr.1
      have hr2 : rb.size < 2^62 := hr.2
      simp only at he hre
      guard_norm at this
      guard_norm
      exact this
  · rw [tie_ReceiveUint32_room c flush fill ⟨by omega, hs⟩ (by omega) (by omega)]
    simp [hlt]

/-! ### Concrete values of the generated definitions -/

example : Conn.SendUint16 (#[0#8, 0#8, 0#8], 1#64, #[], 0#64, 0#64) (fun _ => none) (fun _ _ => none) 0x1234#64 =
    some (#[0#8, 0x12#8, 0x34#8], 3#64, #[], 0#64, 0#64) := by decide
example : Conn.SendUint16 (#[0#8, 0#8, 0#8], 2#64, #[], 0#64, 0#64) (fun _ => none) (fun _ _ => none) 0x1234#64 = none := by
  decide
example : Conn.ReceiveUint16 (#[], 0#64, #[0x12#8, 0x34#8], 0#64, 2#64) (fun _ => none) (fun _ _ => none) =
    some ((#[], 0#64, #[0x12#8, 0x34#8], 2#64, 2#64), 0x1234#64) := by decide

end Mpc.GenTie

/-
C04 under an arbitrary SAFE tweak accounting: the induction of
`Proofs/SymGarble.lean` (`gates_phi`) for the gate loop `garbleGatesAcc`
(`Model/TweakAcc.lean`), in which the counter advances by `tw g.op` with
`g.op.tweaks ≤ tw g.op`.  The per-gate lemmas (`core_phi`, `core_below`,
`newAtoms_bounds`) are those of the whole-circuit proof: a gate only needs the
functional's atoms to be below its counter value and leaves everything it
produced below `id + g.op.tweaks ≤ id + tw g.op`.
-/
import MpcVerif.Proofs.SymGarble
import MpcVerif.Proofs.TweakAcc

namespace Mpc.Sym
open Mpc LabelAlg
variable {Code : Type}

/-- The functional built along the gate list under the accounting `tw`. -/
noncomputable def phiGatesAcc (σ : Atom Code → Bool) (code : SymL Code → Code) (tw : TweakAcc) :
    List Gate → Store (WireL (SymL Code)) → Store Bool → Nat → List (Atom Code) → List (Atom Code)
  | [], _, _, _, S => S
  | g :: gs, gw, pv, id, S =>
    phiGatesAcc σ code tw gs
      (gw.set g.out (garbleCore (symHash σ code) (symR σ) g.op (gw.get g.in0) (gw.get g.in1) id).1)
      (g.evalPlain pv) (id + tw g.op)
      (S ++ newAtoms code g.op (gw.get g.in0) (gw.get g.in1) (pv.get g.in0) (pv.get g.in1) id)

theorem gates_phi_acc (σ : Atom Code → Bool) (hσ : σ .R = true) (code : SymL Code → Code)
    (hsep : Separates σ code) (tw : TweakAcc) (hs : ∀ op : Op, op.tweaks ≤ tw op) (n : Nat)
    (gs : List Gate) :
    ∀ (D : Nat → Bool) (gw : Store (WireL (SymL Code))) (pv : Store Bool) (id : Nat)
      (S : List (Atom Code)),
      gw.size = n → pv.size = n → wfFrom n gs D = true → InvS σ D gw pv id S →
      (∀ rows ∈ (garbleGatesAcc (symHash σ code) (symR σ) tw gs gw id).2.2, ∀ row ∈ rows,
        phi (phiGatesAcc σ code tw gs gw pv id S) row = false) ∧
      InvS σ (definedAfter gs D) (garbleGatesAcc (symHash σ code) (symR σ) tw gs gw id).1
        (evalPlainGates gs pv) (garbleGatesAcc (symHash σ code) (symR σ) tw gs gw id).2.1
        (phiGatesAcc σ code tw gs gw pv id S) ∧
      (∀ x, Below id x → phi (phiGatesAcc σ code tw gs gw pv id S) x = phi S x) ∧
      id ≤ (garbleGatesAcc (symHash σ code) (symR σ) tw gs gw id).2.1 := by
  induction gs with
  | nil =>
    intro D gw pv id S _ _ _ hinv
    refine ⟨?_, hinv, fun _ _ => rfl, Nat.le_refl _⟩
    intro rows hrows
    simp [garbleGatesAcc] at hrows
  | cons g gs ih =>
    intro D gw pv id S hg hp hwf hinv
    simp only [wfFrom, Bool.and_eq_true, decide_eq_true_eq, Bool.or_eq_true,
      Bool.not_eq_true'] at hwf
    obtain ⟨⟨⟨⟨⟨hd0, hd1⟩, hi0⟩, hi1⟩, hout⟩, hrest⟩ := hwf
    obtain ⟨hwires, hSb, hR⟩ := hinv
    obtain ⟨ha1, hpa, hBa⟩ := hwires g.in0 hd0
    have hb : g.op.binary = true → (gw.get g.in1).l1 = (gw.get g.in1).l0 ^^^ symR σ ∧
        phi S (gw.get g.in1).l0 = pv.get g.in1 ∧ Below id (gw.get g.in1).l0 := by
      intro hbin
      cases hd1 with
      | inl h => rw [hbin] at h; cases h
      | inr h => exact hwires g.in1 h
    have hr := symR_sbit σ hσ
    have hle : id + g.op.tweaks ≤ id + tw g.op := Nat.add_le_add_left (hs g.op) id
    let H := symHash σ code
    let N := newAtoms code g.op (gw.get g.in0) (gw.get g.in1) (pv.get g.in0) (pv.get g.in1) id
    have hN := newAtoms_bounds code g.op (gw.get g.in0) (gw.get g.in1) (pv.get g.in0)
      (pv.get g.in1) id
    have hstab1 : ∀ x, Below id x → phi (S ++ N) x = phi S x :=
      fun x hx => phi_append_below S N id x hN.1 hx
    obtain ⟨hout0, hrows0⟩ := core_phi σ hσ code hsep S g.op (gw.get g.in0) (gw.get g.in1)
      (pv.get g.in0) (pv.get g.in1) id ha1 hpa hBa hb hSb hR
    have hrel : Rel (symR σ) (gw.get g.in0) ((gw.get g.in0).labelFor (pv.get g.in0))
        (pv.get g.in0) := ⟨ha1, rfl⟩
    have hrelb : g.op.binary = true →
        Rel (symR σ) (gw.get g.in1) ((gw.get g.in1).labelFor (pv.get g.in1)) (pv.get g.in1) :=
      fun hbin => ⟨(hb hbin).1, rfl⟩
    obtain ⟨_, _, ⟨hout1, _⟩⟩ := core_correct H (symR σ) hr g.op (gw.get g.in0) (gw.get g.in1)
      _ _ (pv.get g.in0) (pv.get g.in1) id hrel hrelb
    have hBa1 : Below id (gw.get g.in0).l1 := by rw [ha1]; exact hBa.xor (symR_below σ id)
    have hcb : Below (id + g.op.tweaks)
          (garbleCore H (symR σ) g.op (gw.get g.in0) (gw.get g.in1) id).1.l0 ∧
        (∀ row ∈ (garbleCore H (symR σ) g.op (gw.get g.in0) (gw.get g.in1) id).2,
          Below (id + g.op.tweaks) row) := by
      cases hbin : g.op.binary with
      | true =>
        obtain ⟨hb1, _, hBb⟩ := hb hbin
        have hBb1 : Below id (gw.get g.in1).l1 := by rw [hb1]; exact hBb.xor (symR_below σ id)
        have := core_below σ code g.op (gw.get g.in0) (gw.get g.in1) id hBa hBa1 hBb hBb1
        exact ⟨this.1, this.2.2⟩
      | false =>
        have hop : g.op = .inv := by
          cases hh : g.op <;> simp [hh, Op.binary] at hbin
          rfl
        have hirr : garbleCore H (symR σ) g.op (gw.get g.in0) (gw.get g.in1) id =
            garbleCore H (symR σ) g.op (gw.get g.in0) (gw.get g.in0) id := by
          rw [hop]; rfl
        rw [hirr]
        have := core_below σ code g.op (gw.get g.in0) (gw.get g.in0) id hBa hBa1 hBa hBa1
        exact ⟨this.1, this.2.2⟩
    obtain ⟨hBout, hBrows⟩ := hcb
    have hinv1 : InvS σ (fun w => w == g.out || D w)
        (gw.set g.out (garbleCore H (symR σ) g.op (gw.get g.in0) (gw.get g.in1) id).1)
        (g.evalPlain pv) (id + tw g.op) (S ++ N) := by
      refine ⟨?_, (hSb.mono (Nat.le_add_right _ _)).append (hN.2.mono hle), ?_⟩
      · intro w hw
        simp only [Gate.evalPlain]
        by_cases hwo : g.out = w
        · subst hwo
          rw [Store.get_set_eq _ _ _ (by omega), Store.get_set_eq _ _ _ (by omega)]
          exact ⟨hout1, hout0, hBout.mono hle⟩
        · rw [Store.get_set_ne _ _ _ _ hwo, Store.get_set_ne _ _ _ _ hwo]
          have hDw : D w = true := by
            simp only [Bool.or_eq_true, beq_iff_eq] at hw
            cases hw with
            | inl h => exact absurd h.symm hwo
            | inr h => exact h
          obtain ⟨h1, h2, h3⟩ := hwires w hDw
          exact ⟨h1, by rw [hstab1 _ h3]; exact h2, h3.mono (Nat.le_add_right _ _)⟩
      · rw [hstab1 _ (symR_below σ id)]; exact hR
    obtain ⟨ihrows, ihinv, ihstab, ihle⟩ := ih (fun w => w == g.out || D w)
      (gw.set g.out (garbleCore H (symR σ) g.op (gw.get g.in0) (gw.get g.in1) id).1)
      (g.evalPlain pv) (id + tw g.op) (S ++ N)
      (by simp [hg]) (by simp [Gate.evalPlain, hp]) hrest hinv1
    refine ⟨?_, ?_, ?_, ?_⟩
    · intro rows hrows row hrow
      rw [garbleGatesAcc_cons] at hrows
      simp only [List.mem_cons] at hrows
      show phi (phiGatesAcc σ code tw gs
        (gw.set g.out (garbleCore H (symR σ) g.op (gw.get g.in0) (gw.get g.in1) id).1) (g.evalPlain pv)
        (id + tw g.op) (S ++ N)) row = false
      cases hrows with
      | inl h =>
        subst h
        rw [ihstab row ((hBrows row hrow).mono hle)]
        exact hrows0 row hrow
      | inr h =>
        exact ihrows rows h row hrow
    · rw [garbleGatesAcc_cons, evalPlainGates_cons]
      exact ihinv
    · intro x hx
      show phi (phiGatesAcc σ code tw gs
        (gw.set g.out (garbleCore H (symR σ) g.op (gw.get g.in0) (gw.get g.in1) id).1) (g.evalPlain pv)
        (id + tw g.op) (S ++ N)) x = phi S x
      rw [ihstab x (hx.mono (Nat.le_add_right _ _)), hstab1 x hx]
    · rw [garbleGatesAcc_cons]
      exact Nat.le_trans (Nat.le_add_right id (tw g.op)) ihle

end Mpc.Sym

/-
C10: the online phase of the GMW model keeps, on every wire, the XOR of the
parties' shares equal to the plain value (`Sim`), through local gates
(`sim_rest`) and Beaver AND batches (`sim_ands`), for any number of parties.
-/
import MpcVerif.Model.Gmw
import MpcVerif.Proofs.Equiv
import MpcVerif.Proofs.GmwTriples
import MpcVerif.Proofs.GmwPool

set_option linter.unusedSimpArgs false
set_option linter.unusedVariables false

namespace Mpc.Gmw
open Mpc

/-! ### XOR of bit lists -/

theorem xorB_append (l1 l2 : List Bool) : xorB (l1 ++ l2) = (xorB l1 != xorB l2) := by
  induction l1 with
  | nil => simp [xorB_nil]
  | cons a l ih => rw [List.cons_append, xorB_cons, xorB_cons, ih]; cases a <;> cases xorB l <;> cases xorB l2 <;> rfl

theorem xorB_map_xor {α : Type} (l : List α) (f g : α → Bool) :
    xorB (l.map fun x => f x != g x) = (xorB (l.map f) != xorB (l.map g)) := by
  induction l with
  | nil => rfl
  | cons a l ih =>
    simp only [List.map_cons, xorB_cons, ih]
    cases f a <;> cases g a <;> cases xorB (l.map f) <;> cases xorB (l.map g) <;> rfl

theorem xorB_map_false {α : Type} (l : List α) : xorB (l.map fun _ => false) = false := by
  induction l with
  | nil => rfl
  | cons a l ih => simp only [List.map_cons, xorB_cons, ih]; rfl

theorem xorB_map_ite {α : Type} (l : List α) (c : Prop) [Decidable c] (f g : α → Bool) :
    xorB (l.map fun x => if c then f x else g x) = if c then xorB (l.map f) else xorB (l.map g) := by
  split <;> rfl

theorem xorB_map_and {α : Type} (l : List α) (f g : α → Bool) (h : ∀ x ∈ l, f x = g x) :
    xorB (l.map f) = xorB (l.map g) := by
  rw [List.map_congr_left h]

/-! ### Party ids -/

/-- The parties are numbered `0 .. n-1` in list order. -/
def Ids (n : Nat) (ps : List Party) : Prop := ps.map (·.id) = List.range n

theorem ids_head {n : Nat} {ps : List Party} (h : Ids n ps) (hn : 0 < n) :
    ∃ p0 t, ps = p0 :: t ∧ p0.id = 0 ∧ ∀ q ∈ t, q.id ≠ 0 := by
  unfold Ids at h
  match ps, h with
  | [], h =>
    have : (List.range n).length = 0 := by rw [← h]; rfl
    simp at this; omega
  | p0 :: t, h =>
    obtain ⟨m, rfl⟩ : ∃ m, n = m + 1 := ⟨n - 1, by omega⟩
    rw [List.range_succ_eq_map, List.map_cons, List.cons.injEq] at h
    refine ⟨p0, t, rfl, h.1, fun q hq h0 => ?_⟩
    have : q.id ∈ List.map Nat.succ (List.range m) := by rw [← h.2]; exact List.mem_map_of_mem hq
    simp at this
    omega

theorem ids_nodup {n : Nat} {ps : List Party} (h : Ids n ps) : (ps.map (·.id)).Nodup := by
  rw [h]; exact List.nodup_range

theorem ids_length {n : Nat} {ps : List Party} (h : Ids n ps) : ps.length = n := by
  have := congrArg List.length h
  simpa using this

/-- Splitting at a member: nobody else has its id. -/
theorem ids_split {n : Nat} {ps : List Party} (h : Ids n ps) (p : Party) (hp : p ∈ ps) :
    ∃ pre post, ps = pre ++ p :: post ∧ (∀ q ∈ pre, q.id ≠ p.id) ∧ (∀ q ∈ post, q.id ≠ p.id) := by
  obtain ⟨pre, post, rfl⟩ := List.append_of_mem hp
  have hnd := ids_nodup h
  rw [List.map_append, List.map_cons, List.nodup_append] at hnd
  obtain ⟨_, h2, h3⟩ := hnd
  rw [List.nodup_cons] at h2
  refine ⟨pre, post, rfl, fun q hq he => ?_, fun q hq he => ?_⟩
  · exact h3 q.id (List.mem_map_of_mem hq) p.id List.mem_cons_self he
  · exact h2.1 (by rw [← he]; exact List.mem_map_of_mem hq)

/-- A constant XORed in by party 0 only flips the reconstruction. -/
theorem xorB_flip0 {n : Nat} {ps : List Party} (h : Ids n ps) (hn : 0 < n) (f : Party → Bool) :
    xorB (ps.map fun p => f p != (p.id == 0)) = !(xorB (ps.map f)) := by
  obtain ⟨p0, t, rfl, h0, ht⟩ := ids_head h hn
  simp only [List.map_cons, xorB_cons, h0]
  have : t.map (fun p => f p != (p.id == 0)) = t.map f := by
    apply List.map_congr_left
    intro q hq
    have h1 : (q.id == 0) = false := beq_eq_false_iff_ne.mpr (ht q hq)
    rw [h1]; cases f q <;> rfl
  rw [this]
  cases f p0 <;> cases xorB (t.map f) <;> rfl

theorem xorW_only0 {n : Nat} {ps : List Party} (h : Ids n ps) (hn : 0 < n) (v : Word) :
    xorW (ps.map fun p => if p.id = 0 then v else 0#64) = v := by
  obtain ⟨p0, t, rfl, h0, ht⟩ := ids_head h hn
  simp only [List.map_cons, xorW_cons, h0, if_true]
  have : t.map (fun p => if p.id = 0 then v else 0#64) = t.map fun _ => 0#64 := by
    apply List.map_congr_left
    intro q hq
    simp [ht q hq]
  rw [this, xorW_map_zero]
  simp

/-! ### Reconstruction and the simulation relation -/

theorem recon_def (ps : List Party) (w : Nat) : recon ps w = xorB (ps.map fun p => p.wires.get w) := rfl

/-- `S` is the plain store the shares reconstruct to. -/
def Sim (N : Nat) (ps : List Party) (S : Store Bool) : Prop :=
  S.size = N ∧ (∀ p ∈ ps, p.wires.size = N) ∧ ∀ w, recon ps w = S.get w

/-! ### Local gates -/

def restStep (g : Gate) (ps : List Party) : List Party :=
  ps.map fun p => { p with wires := evalRest p.id g p.wires }

theorem evalRest_size (id : Nat) (g : Gate) (w : Store Bool) : (evalRest id g w).size = w.size := by
  unfold evalRest
  cases g.op <;> simp

theorem restStep_ids {n : Nat} {ps : List Party} (g : Gate) (h : Ids n ps) : Ids n (restStep g ps) := by
  unfold Ids restStep at *
  rw [List.map_map]
  exact h

theorem evalRest_get (id : Nat) (g : Gate) (w : Store Bool) (x : Nat) (ho : g.out < w.size)
    (hs : g.op = .xor ∨ g.op = .xnor ∨ g.op = .inv) :
    (evalRest id g w).get x =
      if g.out = x then
        (match g.op with
         | .xor => (w.get g.in0 != w.get g.in1)
         | .xnor => ((w.get g.in0 != w.get g.in1) != (id == 0))
         | _ => (w.get g.in0 != (id == 0)))
      else w.get x := by
  unfold evalRest
  rcases hs with h | h | h <;> simp only [h] <;> exact Store.get_set _ _ _ _ ho

theorem sim_rest {n N : Nat} {ps : List Party} {S : Store Bool} (g : Gate) (hid : Ids n ps) (hn : 0 < n)
    (hsim : Sim N ps S) (ho : g.out < N) (hs : g.op = .xor ∨ g.op = .xnor ∨ g.op = .inv) :
    Sim N (restStep g ps) (g.evalPlain S) := by
  obtain ⟨hS, hsz, hrec⟩ := hsim
  refine ⟨by simp [Gate.evalPlain, hS], ?_, ?_⟩
  · intro p hp
    simp only [restStep, List.mem_map] at hp
    obtain ⟨q, hq, rfl⟩ := hp
    simp [evalRest_size, hsz q hq]
  · intro x
    have hget : (g.evalPlain S).get x =
        if g.out = x then g.op.eval (S.get g.in0) (S.get g.in1) else S.get x :=
      Store.get_set _ _ _ _ (by omega)
    rw [hget, recon_def, restStep, List.map_map]
    have hmap : (ps.map ((fun p : Party => p.wires.get x) ∘ fun p => { p with wires := evalRest p.id g p.wires })) =
        ps.map fun p => if g.out = x then
          (match g.op with
           | .xor => (p.wires.get g.in0 != p.wires.get g.in1)
           | .xnor => ((p.wires.get g.in0 != p.wires.get g.in1) != (p.id == 0))
           | _ => (p.wires.get g.in0 != (p.id == 0)))
        else p.wires.get x := by
      apply List.map_congr_left
      intro p hp
      simp only [Function.comp]
      exact evalRest_get p.id g p.wires x (by rw [hsz p hp]; exact ho) hs
    rw [hmap, xorB_map_ite]
    split
    · rw [← hrec g.in0, ← hrec g.in1, recon_def, recon_def]
      rcases hs with h | h | h <;> simp only [h, Op.eval]
      · exact xorB_map_xor ps _ _
      · rw [xorB_flip0 hid hn (fun p => (p.wires.get g.in0 != p.wires.get g.in1)), xorB_map_xor]
        cases xorB (ps.map fun p => p.wires.get g.in0) <;> cases xorB (ps.map fun p => p.wires.get g.in1) <;> rfl
      · exact xorB_flip0 hid hn (fun p => p.wires.get g.in0)
    · exact hrec x

/-! ### Beaver AND: word algebra and bit packing -/

theorem beaver_word (A B X Y : Word) :
    (A &&& B) ^^^ ((X ^^^ A) &&& B) ^^^ ((Y ^^^ B) &&& A) ^^^ ((X ^^^ A) &&& (Y ^^^ B)) = X &&& Y := by
  apply BitVec.eq_of_getLsbD_eq
  intro i hi
  simp only [BitVec.getLsbD_xor, BitVec.getLsbD_and]
  cases A.getLsbD i <;> cases B.getLsbD i <;> cases X.getLsbD i <;> cases Y.getLsbD i <;> rfl

theorem getLsbD_wordOfBits_aux (f : Nat → Bool) (o : Nat) : ∀ m, m ≤ 64 →
    ((List.range m).foldl (fun (acc : Word) k => if f k then acc ||| (1#64 <<< k) else acc) 0#64).getLsbD o =
      (decide (o < m) && f o) := by
  intro m
  induction m with
  | zero => intro _; simp
  | succ m ih =>
    intro hm
    rw [List.range_succ, List.foldl_append]
    simp only [List.foldl_cons, List.foldl_nil]
    split
    · rename_i hf
      rw [BitVec.getLsbD_or, ih (by omega), BitVec.getLsbD_shiftLeft]
      by_cases hom : o = m
      · subst hom; simp [hf]; omega
      · by_cases hlt : o < m
        · have : o < m + 1 := by omega
          simp [hlt, this]
        · have h2 : ¬ o < m + 1 := by omega
          simp only [hlt, h2, decide_false, Bool.false_and, Bool.false_or]
          have h1 : (1#64).getLsbD (o - m) = false := by
            simp [BitVec.getLsbD_one]; omega
          rw [h1]; simp
    · rename_i hf
      rw [ih (by omega)]
      by_cases hom : o = m
      · subst hom; simp [hf]
      · have : (decide (o < m + 1)) = decide (o < m) := by
          apply decide_eq_decide.mpr; omega
        rw [this]

theorem getLsbD_wordOfBits (f : Nat → Bool) (o : Nat) :
    (wordOfBits f).getLsbD o = (decide (o < 64) && f o) :=
  getLsbD_wordOfBits_aux f o 64 (Nat.le_refl _)

/-! ### setOuts -/

def setOutsFrom (z : Words) : Nat → List Gate → Store Bool → Store Bool
  | _, [], w => w
  | k, g :: t, w => setOutsFrom z (k + 1) t (w.set g.out (bit z k))

theorem setOuts_eq (w : Store Bool) (batch : List Gate) (z : Words) :
    setOuts w batch z = setOutsFrom z 0 batch w := by
  unfold setOuts
  suffices h : ∀ k w, (batch.zipIdx k).foldl (fun w gi => w.set gi.1.out (bit z gi.2)) w = setOutsFrom z k batch w from h 0 w
  induction batch with
  | nil => intro k w; rfl
  | cons g t ih => intro k w; simp only [List.zipIdx_cons, List.foldl_cons, setOutsFrom]; exact ih _ _

theorem setOutsFrom_size (z : Words) : ∀ (batch : List Gate) (k : Nat) (w : Store Bool),
    (setOutsFrom z k batch w).size = w.size := by
  intro batch
  induction batch with
  | nil => intro k w; rfl
  | cons g t ih => intro k w; simp only [setOutsFrom]; rw [ih]; simp

theorem setOutsFrom_frame (z : Words) : ∀ (batch : List Gate) (k : Nat) (w : Store Bool) (x : Nat),
    (∀ g ∈ batch, g.out ≠ x) → (setOutsFrom z k batch w).get x = w.get x := by
  intro batch
  induction batch with
  | nil => intro k w x _; rfl
  | cons g t ih =>
    intro k w x h
    simp only [setOutsFrom]
    rw [ih _ _ _ (fun g' hg' => h g' (List.mem_cons_of_mem _ hg'))]
    exact Store.get_set_ne _ _ _ _ (h g List.mem_cons_self)

theorem setOutsFrom_get (z : Words) : ∀ (batch : List Gate) (k : Nat) (w : Store Bool),
    (batch.map (·.out)).Nodup → (∀ g ∈ batch, g.out < w.size) →
    ∀ j (hj : j < batch.length), (setOutsFrom z k batch w).get (batch[j].out) = bit z (k + j) := by
  intro batch
  induction batch with
  | nil => intro k w _ _ j hj; simp at hj
  | cons g t ih =>
    intro k w hnd hsz j hj
    simp only [List.map_cons, List.nodup_cons, List.mem_map, not_exists, not_and] at hnd
    simp only [setOutsFrom]
    match j, hj with
    | 0, _ =>
      simp only [List.getElem_cons_zero, Nat.add_zero]
      rw [setOutsFrom_frame z t _ _ _ (fun g' hg' => hnd.1 g' hg')]
      exact Store.get_set_eq _ _ _ (hsz g List.mem_cons_self)
    | j + 1, hj =>
      simp only [List.getElem_cons_succ]
      have := ih (k + 1) (w.set g.out (bit z k)) hnd.2
        (fun g' hg' => by simp; exact hsz g' (List.mem_cons_of_mem _ hg')) j (by simpa using hj)
      rw [this]
      congr 1; omega

/-! ### An independent AND batch evaluated in sequence reads the old store only -/

theorem evalPlain_indep : ∀ (batch : List Gate) (S : Store Bool),
    (batch.map (·.out)).Nodup → (∀ g ∈ batch, g.out < S.size) →
    (∀ g ∈ batch, ∀ h ∈ batch, h.out ≠ g.in0 ∧ h.out ≠ g.in1) →
    ∀ g ∈ batch, (evalPlainGates batch S).get g.out = g.op.eval (S.get g.in0) (S.get g.in1) := by
  intro batch
  induction batch with
  | nil => intro S _ _ _ g hg; simp at hg
  | cons g0 t ih =>
    intro S hnd hsz hind g hg
    simp only [List.map_cons, List.nodup_cons, List.mem_map, not_exists, not_and] at hnd
    rw [evalPlainGates_cons]
    rcases List.mem_cons.mp hg with rfl | hg'
    · rw [evalPlainGates_frame t g.out _ (fun g' hg' => hnd.1 g' hg')]
      exact Store.get_set_eq _ _ _ (hsz g List.mem_cons_self)
    · have := ih (g0.evalPlain S) hnd.2
        (fun g' hg'' => by simp [Gate.evalPlain]; exact hsz g' (List.mem_cons_of_mem _ hg''))
        (fun a ha b hb => hind a (List.mem_cons_of_mem _ ha) b (List.mem_cons_of_mem _ hb)) g hg'
      rw [this]
      have h0 := hind g hg g0 List.mem_cons_self
      have e0 : (g0.evalPlain S).get g.in0 = S.get g.in0 := Store.get_set_ne _ _ _ _ h0.1
      have e1 : (g0.evalPlain S).get g.in1 = S.get g.in1 := Store.get_set_ne _ _ _ _ h0.2
      rw [e0, e1]

end Mpc.Gmw

/-
C10: the online phase of the GMW model keeps, on every wire, the XOR of the
parties' shares equal to the plain value (`Sim`), through local gates
(`sim_rest`) and Beaver AND batches (`sim_ands`), for any number of parties.
-/
import MpcVerif.Model.Gmw
import MpcVerif.Proofs.Equiv
import MpcVerif.Proofs.GmwTriples
import MpcVerif.Proofs.GmwPool

set_option linter.unusedSimpArgs false
set_option linter.unusedVariables false

namespace Mpc.Gmw
open Mpc

/-! ### XOR of bit lists -/

theorem xorB_append (l1 l2 : List Bool) : xorB (l1 ++ l2) = (xorB l1 != xorB l2) := by
  induction l1 with
  | nil => simp [xorB_nil]
  | cons a l ih => rw [List.cons_append, xorB_cons, xorB_cons, ih]; cases a <;> cases xorB l <;> cases xorB l2 <;> rfl

theorem xorB_map_xor {α : Type} (l : List α) (f g : α → Bool) :
    xorB (l.map fun x => f x != g x) = (xorB (l.map f) != xorB (l.map g)) := by
  induction l with
  | nil => rfl
  | cons a l ih =>
    simp only [List.map_cons, xorB_cons, ih]
    cases f a <;> cases g a <;> cases xorB (l.map f) <;> cases xorB (l.map g) <;> rfl

theorem xorB_map_false {α : Type} (l : List α) : xorB (l.map fun _ => false) = false := by
  induction l with
  | nil => rfl
  | cons a l ih => simp only [List.map_cons, xorB_cons, ih]; rfl

theorem xorB_map_ite {α : Type} (l : List α) (c : Prop) [Decidable c] (f g : α → Bool) :
    xorB (l.map fun x => if c then f x else g x) = if c then xorB (l.map f) else xorB (l.map g) := by
  split <;> rfl

theorem xorB_map_and {α : Type} (l : List α) (f g : α → Bool) (h : ∀ x ∈ l, f x = g x) :
    xorB (l.map f) = xorB (l.map g) := by
  rw [List.map_congr_left h]

/-! ### Party ids -/

/-- The parties are numbered `0 .. n-1` in list order. -/
def Ids (n : Nat) (ps : List Party) : Prop := ps.map (·.id) = List.range n

theorem ids_head {n : Nat} {ps : List Party} (h : Ids n ps) (hn : 0 < n) :
    ∃ p0 t, ps = p0 :: t ∧ p0.id = 0 ∧ ∀ q ∈ t, q.id ≠ 0 := by
  unfold Ids at h
  match ps, h with
  | [], h =>
    have : (List.range n).length = 0 := by rw [← h]; rfl
    simp at this; omega
  | p0 :: t, h =>
    obtain ⟨m, rfl⟩ : ∃ m, n = m + 1 := ⟨n - 1, by omega⟩
    rw [List.range_succ_eq_map, List.map_cons, List.cons.injEq] at h
    refine ⟨p0, t, rfl, h.1, fun q hq h0 => ?_⟩
    have : q.id ∈ List.map Nat.succ (List.range m) := by rw [← h.2]; exact List.mem_map_of_mem hq
    simp at this
    omega

theorem ids_nodup {n : Nat} {ps : List Party} (h : Ids n ps) : (ps.map (·.id)).Nodup := by
  rw [h]; exact List.nodup_range

theorem ids_length {n : Nat} {ps : List Party} (h : Ids n ps) : ps.length = n := by
  have := congrArg List.length h
  simpa using this

/-- Splitting at a member: nobody else has its id. -/
theorem ids_split {n : Nat} {ps : List Party} (h : Ids n ps) (p : Party) (hp : p ∈ ps) :
    ∃ pre post, ps = pre ++ p :: post ∧ (∀ q ∈ pre, q.id ≠ p.id) ∧ (∀ q ∈ post, q.id ≠ p.id) := by
  obtain ⟨pre, post, rfl⟩ := List.append_of_mem hp
  have hnd := ids_nodup h
  rw [List.map_append, List.map_cons, List.nodup_append] at hnd
  obtain ⟨_, h2, h3⟩ := hnd
  rw [List.nodup_cons] at h2
  refine ⟨pre, post, rfl, fun q hq he => ?_, fun q hq he => ?_⟩
  · exact h3 q.id (List.mem_map_of_mem hq) p.id List.mem_cons_self he
  · exact h2.1 (by rw [← he]; exact List.mem_map_of_mem hq)

/-- A constant XORed in by party 0 only flips the reconstruction. -/
theorem xorB_flip0 {n : Nat} {ps : List Party} (h : Ids n ps) (hn : 0 < n) (f : Party → Bool) :
    xorB (ps.map fun p => f p != (p.id == 0)) = !(xorB (ps.map f)) := by
  obtain ⟨p0, t, rfl, h0, ht⟩ := ids_head h hn
  simp only [List.map_cons, xorB_cons, h0]
  have : t.map (fun p => f p != (p.id == 0)) = t.map f := by
    apply List.map_congr_left
    intro q hq
    have h1 : (q.id == 0) = false := beq_eq_false_iff_ne.mpr (ht q hq)
    rw [h1]; cases f q <;> rfl
  rw [this]
  cases f p0 <;> cases xorB (t.map f) <;> rfl

theorem xorW_only0 {n : Nat} {ps : List Party} (h : Ids n ps) (hn : 0 < n) (v : Word) :
    xorW (ps.map fun p => if p.id = 0 then v else 0#64) = v := by
  obtain ⟨p0, t, rfl, h0, ht⟩ := ids_head h hn
  simp only [List.map_cons, xorW_cons, h0, if_true]
  have : t.map (fun p => if p.id = 0 then v else 0#64) = t.map fun _ => 0#64 := by
    apply List.map_congr_left
    intro q hq
    simp [ht q hq]
  rw [this, xorW_map_zero]
  simp

/-! ### Reconstruction and the simulation relation -/

theorem recon_def (ps : List Party) (w : Nat) : recon ps w = xorB (ps.map fun p => p.wires.get w) := rfl

/-- `S` is the plain store the shares reconstruct to. -/
def Sim (N : Nat) (ps : List Party) (S : Store Bool) : Prop :=
  S.size = N ∧ (∀ p ∈ ps, p.wires.size = N) ∧ ∀ w, recon ps w = S.get w

/-! ### Local gates -/

def restStep (g : Gate) (ps : List Party) : List Party :=
  ps.map fun p => { p with wires := evalRest p.id g p.wires }

theorem evalRest_size (id : Nat) (g : Gate) (w : Store Bool) : (evalRest id g w).size = w.size := by
  unfold evalRest
  cases g.op <;> simp

theorem restStep_ids {n : Nat} {ps : List Party} (g : Gate) (h : Ids n ps) : Ids n (restStep g ps) := by
  unfold Ids restStep at *
  rw [List.map_map]
  exact h

theorem evalRest_get (id : Nat) (g : Gate) (w : Store Bool) (x : Nat) (ho : g.out < w.size)
    (hs : g.op = .xor ∨ g.op = .xnor ∨ g.op = .inv) :
    (evalRest id g w).get x =
      if g.out = x then
        (match g.op with
         | .xor => (w.get g.in0 != w.get g.in1)
         | .xnor => ((w.get g.in0 != w.get g.in1) != (id == 0))
         | _ => (w.get g.in0 != (id == 0)))
      else w.get x := by
  unfold evalRest
  rcases hs with h | h | h <;> simp only [h] <;> exact Store.get_set _ _ _ _ ho

theorem sim_rest {n N : Nat} {ps : List Party} {S : Store Bool} (g : Gate) (hid : Ids n ps) (hn : 0 < n)
    (hsim : Sim N ps S) (ho : g.out < N) (hs : g.op = .xor ∨ g.op = .xnor ∨ g.op = .inv) :
    Sim N (restStep g ps) (g.evalPlain S) := by
  obtain ⟨hS, hsz, hrec⟩ := hsim
  refine ⟨by simp [Gate.evalPlain, hS], ?_, ?_⟩
  · intro p hp
    simp only [restStep, List.mem_map] at hp
    obtain ⟨q, hq, rfl⟩ := hp
    simp [evalRest_size, hsz q hq]
  · intro x
    have hget : (g.evalPlain S).get x =
        if g.out = x then g.op.eval (S.get g.in0) (S.get g.in1) else S.get x :=
      Store.get_set _ _ _ _ (by omega)
    rw [hget, recon_def, restStep, List.map_map]
    have hmap : (ps.map ((fun p : Party => p.wires.get x) ∘ fun p => { p with wires := evalRest p.id g p.wires })) =
        ps.map fun p => if g.out = x then
          (match g.op with
           | .xor => (p.wires.get g.in0 != p.wires.get g.in1)
           | .xnor => ((p.wires.get g.in0 != p.wires.get g.in1) != (p.id == 0))
           | _ => (p.wires.get g.in0 != (p.id == 0)))
        else p.wires.get x := by
      apply List.map_congr_left
      intro p hp
      simp only [Function.comp]
      exact evalRest_get p.id g p.wires x (by rw [hsz p hp]; exact ho) hs
    rw [hmap, xorB_map_ite]
    split
    · rw [← hrec g.in0, ← hrec g.in1, recon_def, recon_def]
      rcases hs with h | h | h <;> simp only [h, Op.eval]
      · exact xorB_map_xor ps _ _
      · rw [xorB_flip0 hid hn (fun p => (p.wires.get g.in0 != p.wires.get g.in1)), xorB_map_xor]
        cases xorB (ps.map fun p => p.wires.get g.in0) <;> cases xorB (ps.map fun p => p.wires.get g.in1) <;> rfl
      · exact xorB_flip0 hid hn (fun p => p.wires.get g.in0)
    · exact hrec x

/-! ### Beaver AND: word algebra and bit packing -/

theorem beaver_word (A B X Y : Word) :
    (A &&& B) ^^^ ((X ^^^ A) &&& B) ^^^ ((Y ^^^ B) &&& A) ^^^ ((X ^^^ A) &&& (Y ^^^ B)) = X &&& Y := by
  apply BitVec.eq_of_getLsbD_eq
  intro i hi
  simp only [BitVec.getLsbD_xor, BitVec.getLsbD_and]
  cases A.getLsbD i <;> cases B.getLsbD i <;> cases X.getLsbD i <;> cases Y.getLsbD i <;> rfl

theorem getLsbD_wordOfBits_aux (f : Nat → Bool) (o : Nat) : ∀ m, m ≤ 64 →
    ((List.range m).foldl (fun (acc : Word) k => if f k then acc ||| (1#64 <<< k) else acc) 0#64).getLsbD o =
      (decide (o < m) && f o) := by
  intro m
  induction m with
  | zero => intro _; simp
  | succ m ih =>
    intro hm
    rw [List.range_succ, List.foldl_append]
    simp only [List.foldl_cons, List.foldl_nil]
    split
    · rename_i hf
      rw [BitVec.getLsbD_or, ih (by omega), BitVec.getLsbD_shiftLeft]
      by_cases hom : o = m
      · subst hom; simp [hf]; omega
      · by_cases hlt : o < m
        · have : o < m + 1 := by omega
          simp [hlt, this]
        · have h2 : ¬ o < m + 1 := by omega
          simp only [hlt, h2, decide_false, Bool.false_and, Bool.false_or]
          have h1 : (1#64).getLsbD (o - m) = false := by
            simp [BitVec.getLsbD_one]; omega
          rw [h1]; simp
    · rename_i hf
      rw [ih (by omega)]
      by_cases hom : o = m
      · subst hom; simp [hf]
      · have : (decide (o < m + 1)) = decide (o < m) := by
          apply decide_eq_decide.mpr; omega
        rw [this]

theorem getLsbD_wordOfBits (f : Nat → Bool) (o : Nat) :
    (wordOfBits f).getLsbD o = (decide (o < 64) && f o) :=
  getLsbD_wordOfBits_aux f o 64 (Nat.le_refl _)

/-! ### setOuts -/

def setOutsFrom (z : Words) : Nat → List Gate → Store Bool → Store Bool
  | _, [], w => w
  | k, g :: t, w => setOutsFrom z (k + 1) t (w.set g.out (bit z k))

theorem setOuts_eq (w : Store Bool) (batch : List Gate) (z : Words) :
    setOuts w batch z = setOutsFrom z 0 batch w := by
  unfold setOuts
  suffices h : ∀ k w, (batch.zipIdx k).foldl (fun w gi => w.set gi.1.out (bit z gi.2)) w = setOutsFrom z k batch w from h 0 w
  induction batch with
  | nil => intro k w; rfl
  | cons g t ih => intro k w; simp only [List.zipIdx_cons, List.foldl_cons, setOutsFrom]; exact ih _ _

theorem setOutsFrom_size (z : Words) : ∀ (batch : List Gate) (k : Nat) (w : Store Bool),
    (setOutsFrom z k batch w).size = w.size := by
  intro batch
  induction batch with
  | nil => intro k w; rfl
  | cons g t ih => intro k w; simp only [setOutsFrom]; rw [ih]; simp

theorem setOutsFrom_frame (z : Words) : ∀ (batch : List Gate) (k : Nat) (w : Store Bool) (x : Nat),
    (∀ g ∈ batch, g.out ≠ x) → (setOutsFrom z k batch w).get x = w.get x := by
  intro batch
  induction batch with
  | nil => intro k w x _; rfl
  | cons g t ih =>
    intro k w x h
    simp only [setOutsFrom]
    rw [ih _ _ _ (fun g' hg' => h g' (List.mem_cons_of_mem _ hg'))]
    exact Store.get_set_ne _ _ _ _ (h g List.mem_cons_self)

theorem setOutsFrom_get (z : Words) : ∀ (batch : List Gate) (k : Nat) (w : Store Bool),
    (batch.map (·.out)).Nodup → (∀ g ∈ batch, g.out < w.size) →
    ∀ j (hj : j < batch.length), (setOutsFrom z k batch w).get (batch[j].out) = bit z (k + j) := by
  intro batch
  induction batch with
  | nil => intro k w _ _ j hj; simp at hj
  | cons g t ih =>
    intro k w hnd hsz j hj
    simp only [List.map_cons, List.nodup_cons, List.mem_map, not_exists, not_and] at hnd
    simp only [setOutsFrom]
    match j, hj with
    | 0, _ =>
      simp only [List.getElem_cons_zero, Nat.add_zero]
      rw [setOutsFrom_frame z t _ _ _ (fun g' hg' => hnd.1 g' hg')]
      exact Store.get_set_eq _ _ _ (hsz g List.mem_cons_self)
    | j + 1, hj =>
      simp only [List.getElem_cons_succ]
      have := ih (k + 1) (w.set g.out (bit z k)) hnd.2
        (fun g' hg' => by simp; exact hsz g' (List.mem_cons_of_mem _ hg')) j (by simpa using hj)
      rw [this]
      congr 1; omega

/-! ### An independent AND batch evaluated in sequence reads the old store only -/

theorem evalPlain_indep : ∀ (batch : List Gate) (S : Store Bool),
    (batch.map (·.out)).Nodup → (∀ g ∈ batch, g.out < S.size) →
    (∀ g ∈ batch, ∀ h ∈ batch, h.out ≠ g.in0 ∧ h.out ≠ g.in1) →
    ∀ g ∈ batch, (evalPlainGates batch S).get g.out = g.op.eval (S.get g.in0) (S.get g.in1) := by
  intro batch
  induction batch with
  | nil => intro S _ _ _ g hg; simp at hg
  | cons g0 t ih =>
    intro S hnd hsz hind g hg
    simp only [List.map_cons, List.nodup_cons, List.mem_map, not_exists, not_and] at hnd
    rw [evalPlainGates_cons]
    rcases List.mem_cons.mp hg with rfl | hg'
    · rw [evalPlainGates_frame t g.out _ (fun g' hg' => hnd.1 g' hg')]
      exact Store.get_set_eq _ _ _ (hsz g List.mem_cons_self)
    · have := ih (g0.evalPlain S) hnd.2
        (fun g' hg'' => by simp [Gate.evalPlain]; exact hsz g' (List.mem_cons_of_mem _ hg''))
        (fun a ha b hb => hind a (List.mem_cons_of_mem _ ha) b (List.mem_cons_of_mem _ hb)) g hg'
      rw [this]
      have h0 := hind g hg g0 List.mem_cons_self
      have e0 : (g0.evalPlain S).get g.in0 = S.get g.in0 := Store.get_set_ne _ _ _ _ h0.1
      have e1 : (g0.evalPlain S).get g.in1 = S.get g.in1 := Store.get_set_ne _ _ _ _ h0.2
      rw [e0, e1]

/-! ### broadcastXORs -/

theorem wget_xorBitvec (r v : Words) (k : Nat) (hk : k < r.size) (hv : v.size = r.size) :
    wget (xorBitvec r v) k = wget r k ^^^ wget v k := by
  unfold xorBitvec
  rw [wget_mkA _ _ _ hk]
  simp [hv, hk]

theorem openAt_fold (id W : Nat) : ∀ (all : List (Nat × Words)) (own : Words), own.size = W →
    (∀ q ∈ all, q.2.size = W) →
    (openAt id own all).size = W ∧
    ∀ k, k < W → wget (openAt id own all) k =
      wget own k ^^^ xorW (all.map fun q => if q.1 = id then 0#64 else wget q.2 k) := by
  intro all
  induction all with
  | nil => intro own ho _; exact ⟨ho, fun k _ => by simp [openAt, xorW_nil]⟩
  | cons q t ih =>
    intro own ho hall
    have hq := hall q List.mem_cons_self
    have ht : ∀ q' ∈ t, q'.2.size = W := fun q' h => hall q' (List.mem_cons_of_mem _ h)
    simp only [openAt, List.foldl_cons]
    by_cases hid : q.1 = id
    · simp only [hid, if_true]
      obtain ⟨h1, h2⟩ := ih own ho ht
      refine ⟨h1, fun k hk => ?_⟩
      have := h2 k hk
      simp only [openAt] at this
      rw [this, List.map_cons, xorW_cons]
      simp [hid]
    · simp only [hid, if_false]
      have hs : (xorBitvec own q.2).size = W := by simp [xorBitvec, mkA_size, ho]
      obtain ⟨h1, h2⟩ := ih (xorBitvec own q.2) hs ht
      refine ⟨h1, fun k hk => ?_⟩
      have := h2 k hk
      simp only [openAt] at this
      rw [this, List.map_cons, xorW_cons, wget_xorBitvec _ _ _ (by omega) (by omega)]
      simp only [hid, if_false]
      rw [BitVec.xor_assoc]

/-- Every party opens the same vector: the XOR of all parties' vectors. -/
theorem open_all {n W : Nat} {ps : List Party} (hid : Ids n ps) (d : Party → Words)
    (hsz : ∀ q ∈ ps, (d q).size = W) (p : Party) (hp : p ∈ ps) (k : Nat) (hk : k < W) :
    wget (openAt p.id (d p) (ps.map fun q => (q.id, d q))) k = xorW (ps.map fun q => wget (d q) k) := by
  obtain ⟨h1, h2⟩ := openAt_fold p.id W (ps.map fun q => (q.id, d q)) (d p) (hsz p hp)
    (by intro q hq; simp only [List.mem_map] at hq; obtain ⟨r, hr, rfl⟩ := hq; exact hsz r hr)
  rw [h2 k hk, List.map_map]
  obtain ⟨pre, post, rfl, hpre, hpost⟩ := ids_split hid p hp
  have e1 : (pre.map ((fun q : Nat × Words => if q.1 = p.id then 0#64 else wget q.2 k) ∘ fun q => (q.id, d q))) =
      pre.map fun q => wget (d q) k := by
    apply List.map_congr_left; intro q hq; simp [hpre q hq]
  have e2 : (post.map ((fun q : Nat × Words => if q.1 = p.id then 0#64 else wget q.2 k) ∘ fun q => (q.id, d q))) =
      post.map fun q => wget (d q) k := by
    apply List.map_congr_left; intro q hq; simp [hpost q hq]
  simp only [List.map_append, List.map_cons, xorW_append, xorW_cons, e1, e2, Function.comp, if_true]
  generalize xorW (pre.map fun q => wget (d q) k) = A
  generalize xorW (post.map fun q => wget (d q) k) = B
  generalize wget (d p) k = C
  apply BitVec.eq_of_getLsbD_eq; intro i hi
  simp only [BitVec.getLsbD_xor, BitVec.getLsbD_zero]
  cases A.getLsbD i <;> cases B.getLsbD i <;> cases C.getLsbD i <;> rfl

/-! ### andBatchFlush at all parties -/

/-- `nw.Pool.Get(len, nw.triples)` at one party (pool holds enough words). -/
def getT (len : Nat) (p : Party) : Party :=
  { p with trip := (p.trip.append p.pool len).1, pool := (p.trip.append p.pool len).2.1 }

/-- steps 2, 3 and the result wires at one party -/
def finP (batch : List Gate) (W : Nat) (ds es : List (Nat × Words)) (p : Party) : Party :=
  { p with
    wires := setOuts p.wires batch
      (andZ p (openAt p.id (maskedDE p batch.toArray W).1 ds) (openAt p.id (maskedDE p batch.toArray W).2 es) W)
    trip := p.trip.clear }

theorem andStep_eq (batch : List Gate) (ps : List Party) (hne : batch.isEmpty = false)
    (hall : ∀ p ∈ ps, (batch.length + 63) / 64 ≤ p.pool.words) :
    andStep batch ps = some (
      let W := (batch.length + 63) / 64
      let ps1 := ps.map (getT batch.length)
      ps1.map (finP batch W (ps1.map fun q => (q.id, (maskedDE q batch.toArray W).1))
        (ps1.map fun q => (q.id, (maskedDE q batch.toArray W).2)))) := by
  unfold andStep
  have : (ps.all fun p => decide ((batch.length + 63) / 64 ≤ p.pool.words)) = true := by
    simp only [List.all_eq_true, decide_eq_true_eq]; exact hall
  simp only [hne, this, Bool.false_eq_true, if_false, Bool.not_true, List.map_map]
  rfl

theorem packIn_bit (w : Store Bool) (ba : Array Gate) (W : Nat) (sec : Bool) (j : Nat) (hj : j < ba.size)
    (hW : j / 64 < W) :
    (wget (packIn w ba W sec) (j / 64)).getLsbD (j % 64) = w.get (if sec then ba[j].in1 else ba[j].in0) := by
  unfold packIn
  rw [wget_mkA _ _ _ hW, getLsbD_wordOfBits]
  have e : 64 * (j / 64) + j % 64 = j := Nat.div_add_mod j 64
  have hlt : j % 64 < 64 := Nat.mod_lt _ (by decide)
  simp only [hlt, decide_true, Bool.true_and, e, hj, dite_true]

theorem getT_spec (len : Nat) (p : Party) (hw : p.trip.words = 0) (htw : p.trip.WF) (hp : p.pool.WF)
    (hk : (len + 63) / 64 ≤ p.pool.words) :
    (getT len p).id = p.id ∧ (getT len p).wires = p.wires ∧
    (getT len p).trip.words = (len + 63) / 64 ∧ (getT len p).pool.WF ∧
    (getT len p).pool.words = p.pool.words - (len + 63) / 64 ∧
    (∀ i, i < (len + 63) / 64 → wget (getT len p).trip.a i = wget p.pool.a i ∧
      wget (getT len p).trip.b i = wget p.pool.b i ∧ wget (getT len p).trip.c i = wget p.pool.c i) ∧
    (∀ i, i < p.pool.words - (len + 63) / 64 → wget (getT len p).pool.a i = wget p.pool.a (i + (len + 63) / 64) ∧
      wget (getT len p).pool.b i = wget p.pool.b (i + (len + 63) / 64) ∧
      wget (getT len p).pool.c i = wget p.pool.c (i + (len + 63) / 64)) := by
  obtain ⟨h1, h2, _, h4, h5, h6⟩ := append_fresh p.trip p.pool len htw hp hw hk
  exact ⟨rfl, rfl, h1, h4, h2, h5, h6⟩

theorem wget_andZ (p : Party) (dO eO : Words) (W k : Nat) (hk : k < W) :
    wget (andZ p dO eO W) k =
      ((wget p.trip.c k ^^^ (wget dO k &&& wget p.trip.b k)) ^^^ (wget eO k &&& wget p.trip.a k)) ^^^
        (if p.id = 0 then wget dO k &&& wget eO k else 0#64) := by
  unfold andZ
  rw [wget_mkA _ _ _ hk]
  split <;> simp

theorem wget_maskedDE (p : Party) (ba : Array Gate) (W k : Nat) (hk : k < W) :
    wget (maskedDE p ba W).1 k = wget (packIn p.wires ba W false) k ^^^ wget p.trip.a k ∧
    wget (maskedDE p ba W).2 k = wget (packIn p.wires ba W true) k ^^^ wget p.trip.b k := by
  unfold maskedDE
  exact ⟨wget_mkA _ _ _ hk, wget_mkA _ _ _ hk⟩

theorem size_maskedDE (p : Party) (ba : Array Gate) (W : Nat) :
    (maskedDE p ba W).1.size = W ∧ (maskedDE p ba W).2.size = W := by
  unfold maskedDE
  exact ⟨mkA_size _ _, mkA_size _ _⟩

/-- State of the parties between two AND batches: ids in order, `nw.triples`
cleared, all pools well-formed with `L` words that are valid triples. -/
structure St (n L : Nat) (ps : List Party) : Prop where
  ids : Ids n ps
  trip : ∀ p ∈ ps, p.trip.words = 0 ∧ p.trip.WF
  pwf : ∀ p ∈ ps, p.pool.WF ∧ p.pool.words = L
  valid : ∀ k, k < L →
    xorW (ps.map fun p => wget p.pool.a k) &&& xorW (ps.map fun p => wget p.pool.b k) =
      xorW (ps.map fun p => wget p.pool.c k)

/-- XOR over the parties of the `z` words is the AND of the reconstructed
input words (Beaver), for every word of the batch. -/
theorem and_words {n L : Nat} {ps : List Party} (hst : St n L ps) (hn : 0 < n) (batch : List Gate)
    (hW : (batch.length + 63) / 64 ≤ L) (k : Nat) (hk : k < (batch.length + 63) / 64) :
    let W := (batch.length + 63) / 64
    let ps1 := ps.map (getT batch.length)
    let ds := ps1.map fun q => (q.id, (maskedDE q batch.toArray W).1)
    let es := ps1.map fun q => (q.id, (maskedDE q batch.toArray W).2)
    xorW (ps1.map fun q => wget (andZ q (openAt q.id (maskedDE q batch.toArray W).1 ds)
        (openAt q.id (maskedDE q batch.toArray W).2 es) W) k) =
      xorW (ps.map fun p => wget (packIn p.wires batch.toArray W false) k) &&&
      xorW (ps.map fun p => wget (packIn p.wires batch.toArray W true) k) := by
  intro W ps1 ds es
  have hid1 : Ids n ps1 := by
    have := hst.ids
    unfold Ids at this ⊢
    simp only [ps1, List.map_map]
    exact this
  have hspec : ∀ p ∈ ps, _ := fun p hp =>
    getT_spec batch.length p (hst.trip p hp).1 (hst.trip p hp).2 (hst.pwf p hp).1
      (by rw [(hst.pwf p hp).2]; exact hW)
  -- what every party opens
  have hD : ∀ q ∈ ps1, wget (openAt q.id (maskedDE q batch.toArray W).1 ds) k =
      xorW (ps1.map fun r => wget (maskedDE r batch.toArray W).1 k) := fun q hq =>
    open_all hid1 (fun r => (maskedDE r batch.toArray W).1) (fun r _ => (size_maskedDE r _ _).1) q hq k hk
  have hE : ∀ q ∈ ps1, wget (openAt q.id (maskedDE q batch.toArray W).2 es) k =
      xorW (ps1.map fun r => wget (maskedDE r batch.toArray W).2 k) := fun q hq =>
    open_all hid1 (fun r => (maskedDE r batch.toArray W).2) (fun r _ => (size_maskedDE r _ _).2) q hq k hk
  generalize hDk : xorW (ps1.map fun r => wget (maskedDE r batch.toArray W).1 k) = D at hD
  generalize hEk : xorW (ps1.map fun r => wget (maskedDE r batch.toArray W).2 k) = E at hE
  have hz : (ps1.map fun q => wget (andZ q (openAt q.id (maskedDE q batch.toArray W).1 ds)
        (openAt q.id (maskedDE q batch.toArray W).2 es) W) k) =
      ps1.map fun q => ((wget q.trip.c k ^^^ (D &&& wget q.trip.b k)) ^^^ (E &&& wget q.trip.a k)) ^^^
        (if q.id = 0 then D &&& E else 0#64) := by
    apply List.map_congr_left
    intro q hq
    rw [wget_andZ _ _ _ _ _ hk, hD q hq, hE q hq]
  rw [hz, xorW_map_xor, xorW_map_xor, xorW_map_xor, xorW_map_and_left, xorW_map_and_left,
    xorW_only0 hid1 hn]
  -- the triple words are the pool words
  have ha : (ps1.map fun q => wget q.trip.a k) = ps.map fun p => wget p.pool.a k := by
    simp only [ps1, List.map_map]
    apply List.map_congr_left; intro p hp
    exact ((hspec p hp).2.2.2.2.2.1 k hk).1
  have hb : (ps1.map fun q => wget q.trip.b k) = ps.map fun p => wget p.pool.b k := by
    simp only [ps1, List.map_map]
    apply List.map_congr_left; intro p hp
    exact ((hspec p hp).2.2.2.2.2.1 k hk).2.1
  have hc : (ps1.map fun q => wget q.trip.c k) = ps.map fun p => wget p.pool.c k := by
    simp only [ps1, List.map_map]
    apply List.map_congr_left; intro p hp
    exact ((hspec p hp).2.2.2.2.2.1 k hk).2.2
  have hx : (ps1.map fun r => wget (maskedDE r batch.toArray W).1 k) =
      ps1.map fun r => wget (packIn r.wires batch.toArray W false) k ^^^ wget r.trip.a k := by
    apply List.map_congr_left; intro r _; exact (wget_maskedDE r _ _ _ hk).1
  have hy : (ps1.map fun r => wget (maskedDE r batch.toArray W).2 k) =
      ps1.map fun r => wget (packIn r.wires batch.toArray W true) k ^^^ wget r.trip.b k := by
    apply List.map_congr_left; intro r _; exact (wget_maskedDE r _ _ _ hk).2
  have hX : (ps1.map fun r => wget (packIn r.wires batch.toArray W false) k) =
      ps.map fun p => wget (packIn p.wires batch.toArray W false) k := by
    simp only [ps1, List.map_map]
    apply List.map_congr_left; intro p hp
    simp only [Function.comp, (hspec p hp).2.1]
  have hY : (ps1.map fun r => wget (packIn r.wires batch.toArray W true) k) =
      ps.map fun p => wget (packIn p.wires batch.toArray W true) k := by
    simp only [ps1, List.map_map]
    apply List.map_congr_left; intro p hp
    simp only [Function.comp, (hspec p hp).2.1]
  rw [hx, xorW_map_xor, hX, ha] at hDk
  rw [hy, xorW_map_xor, hY, hb] at hEk
  rw [ha, hb, hc, ← hst.valid k (by omega), ← hDk, ← hEk]
  exact beaver_word _ _ _ _

theorem bit_def (z : Words) (i : Nat) : bit z i = (wget z (i / 64)).getLsbD (i % 64) := rfl

theorem sim_ands {n N L : Nat} {ps : List Party} {S : Store Bool} (hst : St n L ps) (hn : 0 < n)
    (hsim : Sim N ps S) (batch : List Gate) (hne : batch ≠ []) (hop : ∀ g ∈ batch, g.op = .and)
    (hout : ∀ g ∈ batch, g.out < N) (hnd : (batch.map (·.out)).Nodup)
    (hind : ∀ g ∈ batch, ∀ h ∈ batch, h.out ≠ g.in0 ∧ h.out ≠ g.in1)
    (hW : (batch.length + 63) / 64 ≤ L) :
    ∃ ps', andStep batch ps = some ps' ∧ St n (L - (batch.length + 63) / 64) ps' ∧
      Sim N ps' (evalPlainGates batch S) := by
  obtain ⟨hS, hsz, hrec⟩ := hsim
  have hall : ∀ p ∈ ps, (batch.length + 63) / 64 ≤ p.pool.words := fun p hp => by
    rw [(hst.pwf p hp).2]; exact hW
  have hemp : batch.isEmpty = false := by
    cases batch with
    | nil => exact absurd rfl hne
    | cons _ _ => rfl
  refine ⟨_, andStep_eq batch ps hemp hall, ?_, ?_⟩
  all_goals
    simp only []
    generalize hWd : (batch.length + 63) / 64 = W at *
    generalize hds : ((ps.map (getT batch.length)).map fun q => (q.id, (maskedDE q batch.toArray W).1)) = ds
    generalize hes : ((ps.map (getT batch.length)).map fun q => (q.id, (maskedDE q batch.toArray W).2)) = es
  · -- state invariant
    have hspec : ∀ p ∈ ps, _ := fun p hp =>
      getT_spec batch.length p (hst.trip p hp).1 (hst.trip p hp).2 (hst.pwf p hp).1
        (by rw [hWd]; exact hall p hp)
    refine ⟨?_, ?_, ?_, ?_⟩
    · have := hst.ids
      unfold Ids at this ⊢
      simp only [List.map_map]
      exact this
    · intro q hq
      simp only [List.mem_map] at hq
      obtain ⟨q1, ⟨p, hp, rfl⟩, rfl⟩ := hq
      exact ⟨clear_words _, clear_WF _⟩
    · intro q hq
      simp only [List.mem_map] at hq
      obtain ⟨q1, ⟨p, hp, rfl⟩, rfl⟩ := hq
      have h := hspec p hp
      rw [hWd] at h
      exact ⟨h.2.2.2.1, by rw [← (hst.pwf p hp).2]; exact h.2.2.2.2.1⟩
    · intro k hk
      have e : ∀ (f : Triples → Words),
          (∀ p ∈ ps, wget (f (getT batch.length p).pool) k = wget (f p.pool) (k + W)) →
          (((ps.map (getT batch.length)).map (finP batch W ds es)).map fun p => wget (f p.pool) k) =
            ps.map fun p => wget (f p.pool) (k + W) := by
        intro f hf
        simp only [List.map_map]
        apply List.map_congr_left
        intro p hp
        exact hf p hp
      have hk' : ∀ p ∈ ps, k < p.pool.words - W := fun p hp => by rw [(hst.pwf p hp).2]; exact hk
      rw [e (·.a) (fun p hp => by have h := hspec p hp; rw [hWd] at h; exact (h.2.2.2.2.2.2 k (hk' p hp)).1),
        e (·.b) (fun p hp => by have h := hspec p hp; rw [hWd] at h; exact (h.2.2.2.2.2.2 k (hk' p hp)).2.1),
        e (·.c) (fun p hp => by have h := hspec p hp; rw [hWd] at h; exact (h.2.2.2.2.2.2 k (hk' p hp)).2.2)]
      exact hst.valid (k + W) (by omega)
  · -- simulation
    have hSb : ∀ g ∈ batch, g.out < S.size := fun g hg => by rw [hS]; exact hout g hg
    refine ⟨by rw [evalPlainGates_size]; exact hS, ?_, ?_⟩
    · intro q hq
      simp only [List.mem_map] at hq
      obtain ⟨q1, ⟨p, hp, rfl⟩, rfl⟩ := hq
      simp only [finP, setOuts_eq, setOutsFrom_size]
      exact hsz p hp
    · intro x
      rw [recon_def, List.map_map, List.map_map]
      by_cases hx : ∃ g ∈ batch, g.out = x
      · obtain ⟨g, hg, rfl⟩ := hx
        obtain ⟨j, hj, rfl⟩ := List.getElem_of_mem hg
        rw [evalPlain_indep batch S hnd hSb hind _ hg, hop _ hg]
        -- every party's new share of the output wire is bit j of its z
        have h1 : (ps.map (((fun p : Party => p.wires.get batch[j].out) ∘ finP batch W ds es) ∘ getT batch.length)) =
            (ps.map (getT batch.length)).map fun q => bit (andZ q (openAt q.id (maskedDE q batch.toArray W).1 ds)
              (openAt q.id (maskedDE q batch.toArray W).2 es) W) j := by
          rw [List.map_map]
          apply List.map_congr_left
          intro p hp
          simp only [Function.comp, finP, setOuts_eq]
          have := setOutsFrom_get (andZ (getT batch.length p)
              (openAt (getT batch.length p).id (maskedDE (getT batch.length p) batch.toArray W).1 ds)
              (openAt (getT batch.length p).id (maskedDE (getT batch.length p) batch.toArray W).2 es) W)
            batch 0 (getT batch.length p).wires hnd
            (fun g' hg' => by show g'.out < p.wires.size; rw [hsz p hp]; exact hout g' hg') j hj
          rw [this, Nat.zero_add]
        rw [h1]
        have hjW : j / 64 < W := by omega
        have h2 : ((ps.map (getT batch.length)).map fun q => bit (andZ q (openAt q.id (maskedDE q batch.toArray W).1 ds)
              (openAt q.id (maskedDE q batch.toArray W).2 es) W) j) =
            ((ps.map (getT batch.length)).map fun q => wget (andZ q (openAt q.id (maskedDE q batch.toArray W).1 ds)
              (openAt q.id (maskedDE q batch.toArray W).2 es) W) (j / 64)).map (·.getLsbD (j % 64)) := by
          simp only [List.map_map]; apply List.map_congr_left; intro p _; rfl
        rw [h2, ← getLsbD_xorW]
        have hw := and_words hst hn batch (by rw [hWd]; exact hW) (j / 64) (by rw [hWd]; exact hjW)
        simp only [hWd, hds, hes] at hw
        rw [hw, BitVec.getLsbD_and, getLsbD_xorW, getLsbD_xorW, List.map_map, List.map_map]
        have hjs : j < batch.toArray.size := by simpa using hj
        have e0 : (ps.map ((fun x : Word => x.getLsbD (j % 64)) ∘ fun p => wget (packIn p.wires batch.toArray W false) (j / 64))) =
            ps.map fun p => p.wires.get batch[j].in0 := by
          apply List.map_congr_left; intro p _
          simp only [Function.comp]
          rw [packIn_bit _ _ _ _ j hjs hjW]; simp
        have e1 : (ps.map ((fun x : Word => x.getLsbD (j % 64)) ∘ fun p => wget (packIn p.wires batch.toArray W true) (j / 64))) =
            ps.map fun p => p.wires.get batch[j].in1 := by
          apply List.map_congr_left; intro p _
          simp only [Function.comp]
          rw [packIn_bit _ _ _ _ j hjs hjW]; simp
        rw [e0, e1, ← recon_def, ← recon_def, hrec, hrec]
        rfl
      · have hx' : ∀ g ∈ batch, g.out ≠ x := fun g hg h => hx ⟨g, hg, h⟩
        rw [evalPlainGates_frame batch x S hx', ← hrec x, recon_def]
        apply congrArg
        apply List.map_congr_left
        intro p hp
        simp only [Function.comp, finP, setOuts_eq]
        rw [setOutsFrom_frame _ _ _ _ _ hx']
        rfl

/-! ### The level loop -/

theorem St_wires {n L : Nat} {ps : List Party} (hst : St n L ps) (f : Party → Store Bool) :
    St n L (ps.map fun p => { p with wires := f p }) := by
  refine ⟨?_, ?_, ?_, ?_⟩
  · have := hst.ids
    unfold Ids at this ⊢
    rw [List.map_map]; exact this
  · intro q hq
    simp only [List.mem_map] at hq
    obtain ⟨p, hp, rfl⟩ := hq
    exact hst.trip p hp
  · intro q hq
    simp only [List.mem_map] at hq
    obtain ⟨p, hp, rfl⟩ := hq
    exact hst.pwf p hp
  · intro k hk
    simp only [List.map_map]
    exact hst.valid k hk

theorem evalPlainGates_append (l1 l2 : List Gate) (S : Store Bool) :
    evalPlainGates (l1 ++ l2) S = evalPlainGates l2 (evalPlainGates l1 S) := by
  simp [evalPlainGates, List.foldl_append]

/-- What `Network.run` requires of one level. -/
def BlockOK (N : Nat) (b : List Gate × List Gate) : Prop :=
  (∀ g ∈ b.1, (g.op = .xor ∨ g.op = .xnor ∨ g.op = .inv) ∧ g.out < N) ∧
  (∀ g ∈ b.2, g.op = .and ∧ g.out < N) ∧ (b.2.map (·.out)).Nodup ∧
  (∀ g ∈ b.2, ∀ h ∈ b.2, h.out ≠ g.in0 ∧ h.out ≠ g.in1)

/-- Triple words the level loop consumes. -/
def needW (bs : List (List Gate × List Gate)) : Nat := (bs.map fun b => (b.2.length + 63) / 64).sum

theorem sim_restFold {n N L : Nat} (hn : 0 < n) : ∀ (rest : List Gate) (ps : List Party) (S : Store Bool),
    St n L ps → Sim N ps S → (∀ g ∈ rest, (g.op = .xor ∨ g.op = .xnor ∨ g.op = .inv) ∧ g.out < N) →
    St n L (ps.map fun p => { p with wires := rest.foldl (fun w g => evalRest p.id g w) p.wires }) ∧
    Sim N (ps.map fun p => { p with wires := rest.foldl (fun w g => evalRest p.id g w) p.wires })
      (evalPlainGates rest S) := by
  intro rest
  induction rest with
  | nil =>
    intro ps S hst hsim _
    have : (ps.map fun p => ({ p with wires := ([] : List Gate).foldl (fun w g => evalRest p.id g w) p.wires } : Party)) = ps := by
      conv => rhs; rw [← List.map_id ps]
      apply List.map_congr_left; intro p _; rfl
    rw [this]
    exact ⟨hst, hsim⟩
  | cons g t ih =>
    intro ps S hst hsim hok
    have e : (ps.map fun p => ({ p with wires := (g :: t).foldl (fun w g => evalRest p.id g w) p.wires } : Party)) =
        (restStep g ps).map fun p => { p with wires := t.foldl (fun w g => evalRest p.id g w) p.wires } := by
      simp only [restStep, List.map_map]
      rfl
    rw [e, evalPlainGates_cons]
    have hg := hok g List.mem_cons_self
    exact ih (restStep g ps) (g.evalPlain S) (St_wires hst _) (sim_rest g hst.ids hn hsim hg.2 hg.1)
      (fun g' hg' => hok g' (List.mem_cons_of_mem _ hg'))

theorem sim_blocks {n N : Nat} (hn : 0 < n) : ∀ (bs : List (List Gate × List Gate)) (ps : List Party)
    (S : Store Bool) (L : Nat), St n L ps → Sim N ps S → (∀ b ∈ bs, BlockOK N b) → needW bs ≤ L →
    ∃ ps', runBlocks bs ps = some ps' ∧ St n (L - needW bs) ps' ∧
      Sim N ps' (evalPlainGates (bs.flatMap fun b => b.1 ++ b.2) S) := by
  intro bs
  induction bs with
  | nil =>
    intro ps S L hst hsim _ _
    exact ⟨ps, rfl, by simpa [needW] using hst, by simpa [evalPlainGates] using hsim⟩
  | cons b bs ih =>
    intro ps S L hst hsim hok hL
    obtain ⟨rest, ands⟩ := b
    have hb := hok (rest, ands) List.mem_cons_self
    have hL' : (ands.length + 63) / 64 + needW bs ≤ L := by simpa [needW] using hL
    obtain ⟨hst1, hsim1⟩ := sim_restFold (L := L) hn rest ps S hst hsim hb.1
    simp only [runBlocks, List.flatMap_cons, evalPlainGates_append]
    by_cases hne : ands = []
    · subst hne
      have : andStep [] (ps.map fun p => { p with wires := rest.foldl (fun w g => evalRest p.id g w) p.wires }) =
          some (ps.map fun p => { p with wires := rest.foldl (fun w g => evalRest p.id g w) p.wires }) := rfl
      rw [this]
      have hL2 : needW bs ≤ L := by omega
      obtain ⟨ps', h1, h2, h3⟩ := ih _ _ L hst1 hsim1 (fun b hb => hok b (List.mem_cons_of_mem _ hb)) hL2
      refine ⟨ps', h1, ?_, by simpa [evalPlainGates] using h3⟩
      have : needW ((rest, []) :: bs) = needW bs := by simp [needW]
      rw [this]; exact h2
    · obtain ⟨ps2, h1, hst2, hsim2⟩ := sim_ands hst1 hn hsim1 ands hne (fun g hg => (hb.2.1 g hg).1)
        (fun g hg => (hb.2.1 g hg).2) hb.2.2.1 hb.2.2.2 (by omega)
      rw [h1]
      obtain ⟨ps', h3, h4, h5⟩ := ih ps2 _ (L - (ands.length + 63) / 64) hst2 hsim2
        (fun b hb => hok b (List.mem_cons_of_mem _ hb)) (by omega)
      refine ⟨ps', h3, ?_, h5⟩
      have : L - needW ((rest, ands) :: bs) = L - (ands.length + 63) / 64 - needW bs := by
        simp [needW]; omega
      rw [this]; exact h4

end Mpc.Gmw

/-
Helper lemmas for C20, the block-wise writer (Model/VoleWire.lean): the byte
stream of `SendData; Flush` is independent of the write-buffer size, every
block fits the buffer, and a message longer than the buffer takes at least
two blocks.
-/
import MpcVerif.Model.VoleWire

namespace Mpc.Vole

theorem be32_length (n : Nat) : (be32 n).length = 4 := rfl

theorem flush_stream (c : WConn) : c.flush.stream = c.stream := by
  unfold WConn.flush WConn.stream
  split <;> simp

theorem flush_pending (c : WConn) : c.flush.pending = [] := by
  unfold WConn.flush
  split
  · next h => simpa using h
  · rfl

theorem flush_wf (cap : Nat) (c : WConn) (h : c.WF cap) : c.flush.WF cap := by
  unfold WConn.flush
  split
  · exact h
  · refine ⟨?_, by simp⟩
    intro b hb
    simp only [List.mem_append, List.mem_singleton] at hb
    rcases hb with hb | rfl
    · exact h.1 b hb
    · exact h.2

theorem sendUint32_stream (cap : Nat) (c : WConn) (n : Nat) :
    (c.sendUint32 cap n).stream = c.stream ++ be32 n := by
  unfold WConn.sendUint32
  split
  · have := flush_stream c
    simp only [WConn.stream] at this ⊢
    rw [← List.append_assoc, this]
  · simp [WConn.stream]

theorem sendUint32_wf (cap : Nat) (c : WConn) (n : Nat) (hcap : 4 ≤ cap) (h : c.WF cap) :
    (c.sendUint32 cap n).WF cap := by
  unfold WConn.sendUint32
  split
  · have hw := flush_wf cap c h
    have hp := flush_pending c
    refine ⟨hw.1, ?_⟩
    simp [hp, be32_length]; exact hcap
  · next hlt =>
    refine ⟨h.1, ?_⟩
    simp [be32_length]; omega

/-- The copy loop appends exactly `val` to the stream, for every buffer size
`cap ≥ 1`, every state, every payload. -/
theorem sendLoop_stream (cap : Nat) (hcap : 1 ≤ cap) :
    ∀ (fuel : Nat) (c : WConn) (val : List UInt8), val.length ≤ fuel → c.pending.length ≤ cap →
      (sendLoop cap fuel c val).stream = c.stream ++ val := by
  intro fuel
  induction fuel with
  | zero =>
    intro c val hl _
    have : val = [] := List.eq_nil_of_length_eq_zero (by omega)
    simp [sendLoop, this]
  | succ fuel ih =>
    intro c val hl hp
    unfold sendLoop
    by_cases hv : val.isEmpty
    · have : val = [] := by simpa using hv
      simp [this]
    · simp only [hv, Bool.false_eq_true, ↓reduceIte]
      have hvl : 0 < val.length := by
        cases val with
        | nil => simp at hv
        | cons _ _ => simp
      -- the (possibly flushed) state
      generalize hc' : (if c.pending.length ≥ cap then c.flush else c) = c'
      have hs : c'.stream = c.stream := by
        rw [← hc']; split
        · exact flush_stream c
        · rfl
      have hlt : c'.pending.length < cap := by
        rw [← hc']; split
        · rw [flush_pending]; simp; omega
        · omega
      rw [ih _ _ (by simp; omega) (by simp; omega)]
      simp only [WConn.stream] at hs ⊢
      rw [← hs]
      simp [List.append_assoc]

theorem sendLoop_wf (cap : Nat) :
    ∀ (fuel : Nat) (c : WConn) (val : List UInt8), c.WF cap → (sendLoop cap fuel c val).WF cap := by
  intro fuel
  induction fuel with
  | zero => intro c val h; exact h
  | succ fuel ih =>
    intro c val h
    unfold sendLoop
    by_cases hv : val.isEmpty
    · simp [hv]; exact h
    · simp only [hv, Bool.false_eq_true, ↓reduceIte]
      generalize hc' : (if c.pending.length ≥ cap then c.flush else c) = c'
      have hw : c'.WF cap := by
        rw [← hc']; split
        · exact flush_wf cap c h
        · exact h
      apply ih
      refine ⟨hw.1, ?_⟩
      have := hw.2
      simp only [List.length_append, List.length_take]
      omega

/-- `SendData(val)`: the stream grows by the length prefix and the payload. -/
theorem sendData_stream (cap : Nat) (hcap : 4 ≤ cap) (c : WConn) (val : List UInt8) (h : c.WF cap) :
    (c.sendData cap val).stream = c.stream ++ be32 val.length ++ val := by
  unfold WConn.sendData
  rw [sendLoop_stream cap (by omega) _ _ _ (Nat.le_refl _) (sendUint32_wf cap c _ hcap h).2,
    sendUint32_stream]

theorem sendData_wf (cap : Nat) (hcap : 4 ≤ cap) (c : WConn) (val : List UInt8) (h : c.WF cap) :
    (c.sendData cap val).WF cap :=
  sendLoop_wf cap _ _ _ (sendUint32_wf cap c _ hcap h)

/-- `SendData(msg); Flush()` in any state. -/
theorem sendMsg_spec (cap : Nat) (hcap : 4 ≤ cap) (c : WConn) (msg : List UInt8) (h : c.WF cap) :
    (c.sendMsg cap msg).written.flatten = c.stream ++ be32 msg.length ++ msg ∧
    (c.sendMsg cap msg).pending = [] ∧ (c.sendMsg cap msg).WF cap := by
  unfold WConn.sendMsg
  have hs := flush_stream (c.sendData cap msg)
  have hp := flush_pending (c.sendData cap msg)
  refine ⟨?_, hp, flush_wf cap _ (sendData_wf cap hcap c msg h)⟩
  rw [sendData_stream cap hcap c msg h] at hs
  simpa [WConn.stream, hp] using hs

theorem empty_wf (cap : Nat) : (⟨[], []⟩ : WConn).WF cap := ⟨by simp, by simp⟩

/-- The framed message does not depend on the buffer size. -/
theorem frame_eq (cap : Nat) (hcap : 4 ≤ cap) (msg : List UInt8) :
    frame cap msg = be32 msg.length ++ msg := by
  have := (sendMsg_spec cap hcap ⟨[], []⟩ msg (empty_wf cap)).1
  simpa [frame, wireBlocks, WConn.stream] using this

theorem wireBlocks_le (cap : Nat) (hcap : 4 ≤ cap) (msg : List UInt8) :
    ∀ b ∈ wireBlocks cap msg, b.length ≤ cap :=
  (sendMsg_spec cap hcap ⟨[], []⟩ msg (empty_wf cap)).2.2.1

theorem flatten_length_le (cap : Nat) : ∀ (bs : List (List UInt8)), (∀ b ∈ bs, b.length ≤ cap) →
    bs.flatten.length ≤ bs.length * cap := by
  intro bs
  induction bs with
  | nil => intro _; simp
  | cons b bs ih =>
    intro h
    have h1 := h b (by simp)
    have h2 := ih (fun x hx => h x (by simp [hx]))
    simp only [List.flatten_cons, List.length_append, List.length_cons]
    rw [Nat.add_mul]
    omega

/-- A message that does not fit into `k` buffers leaves in more than `k`
blocks. -/
theorem wireBlocks_count (cap : Nat) (hcap : 4 ≤ cap) (msg : List UInt8) (k : Nat)
    (hbig : k * cap < 4 + msg.length) : k < (wireBlocks cap msg).length := by
  have h1 := flatten_length_le cap (wireBlocks cap msg) (wireBlocks_le cap hcap msg)
  have h2 : (wireBlocks cap msg).flatten.length = 4 + msg.length := by
    have := frame_eq cap hcap msg
    unfold frame at this
    rw [this]; simp [be32_length]
  rw [h2] at h1
  apply Classical.byContradiction
  intro hn
  have hle : (wireBlocks cap msg).length ≤ k := by omega
  have := Nat.mul_le_mul_right cap hle
  omega

end Mpc.Vole

/-
Helper lemmas for C11 (connection layer).  Core Lean only (no Mathlib needed).
-/
import MpcVerif.Model.Conn

namespace Mpc.Conn
open ByteArray

/-! ## ByteArray helpers -/

theorem extract_ge_size (a : ByteArray) (i j : Nat) (h : a.size ≤ j) :
    a.extract i j = a.extract i a.size := by
  apply ByteArray.ext_getElem
  · simp only [ByteArray.size_extract]; omega
  · intro k hk hk'
    simp [ByteArray.getElem_extract]

theorem extract_all (a : ByteArray) (j : Nat) (h : a.size ≤ j) : a.extract 0 j = a := by
  rw [extract_ge_size a 0 j h, ByteArray.extract_zero_size]

theorem extract_append_prefix (a b : ByteArray) (i j : Nat) (h : j ≤ a.size) :
    (a ++ b).extract i j = a.extract i j := by
  rw [ByteArray.extract_append]
  have : b.extract (i - a.size) (j - a.size) = ByteArray.empty := by
    rw [ByteArray.extract_eq_empty_iff]; omega
  rw [this, ByteArray.append_empty]

theorem extract_split (a : ByteArray) (i j k : Nat) (hij : i ≤ j) (hjk : j ≤ k) :
    a.extract i k = a.extract i j ++ a.extract j k := by
  rw [ByteArray.extract_append_extract]
  congr 1 <;> omega

theorem extract_empty_of_le (a : ByteArray) (i j : Nat) (h : min j a.size ≤ i) :
    a.extract i j = ByteArray.empty := ByteArray.extract_eq_empty_iff.mpr h

/-- two decompositions of the same byte string with equally long heads agree -/
theorem append_cancel {x y t u : ByteArray} (h : x ++ t = y ++ u) (hs : x.size = y.size) :
    x = y ∧ t = u := by
  have hx := ByteArray.append_inj_left h hs
  subst hx
  exact ⟨rfl, (ByteArray.append_right_inj x).mp h⟩

/-! ## Encoding -/

theorem decodeList_snoc (l : List UInt8) (x : UInt8) :
    decodeList (l ++ [x]) = decodeList l * 256 + x.toNat := by
  simp [decodeList, List.foldl_append]

theorem decodeList_beList (k n : Nat) : decodeList (beList k n) = n % 256 ^ k := by
  induction k generalizing n with
  | zero => simp [beList, decodeList, Nat.mod_one]
  | succ k ih =>
    rw [beList, decodeList_snoc, ih]
    have : (UInt8.ofNat (n % 256)).toNat = n % 256 := by
      simp [UInt8.toNat_ofNat']
    rw [this, Nat.pow_succ]
    have h := Nat.mod_mul_right_div_self n 256 (256^k)
    have h2 := Nat.div_add_mod (n % (256 * 256^k)) 256
    rw [Nat.mul_comm (256^k) 256]
    have h3 : n % (256 * 256 ^ k) % 256 = n % 256 := Nat.mod_mul_right_mod n 256 (256^k)
    rw [h3, h] at h2
    omega

theorem length_beList (k n : Nat) : (beList k n).length = k := by
  induction k generalizing n with
  | zero => simp [beList]
  | succ k ih => simp [beList, ih]

@[simp] theorem size_be (k n : Nat) : (be k n).size = k := by
  simp [be, length_beList]

theorem decodeBE_be (k n : Nat) : decodeBE (be k n) = n % 256 ^ k := by
  simp [decodeBE, be, decodeList_beList]

theorem joinB_append (a b : List ByteArray) : joinB (a ++ b) = joinB a ++ joinB b := by
  induction a with
  | nil => simp [joinB]
  | cons x xs ih => simp [joinB, ih, ByteArray.append_assoc]

@[simp] theorem joinB_singleton (c : ByteArray) : joinB [c] = c := by simp [joinB]

/-! ## Send half -/

/-- The part of the sender state the writer goroutine cannot influence. -/
def Sender.core (s : Sender) : ByteArray × List ByteArray × Nat × Nat :=
  (s.cur, s.chunks, s.sent, s.flushed)

theorem core_writerStep (s : Sender) : s.writerStep.core = s.core := by
  unfold Sender.writerStep
  split
  · rfl
  · next h t heq => simp [Sender.core, Sender.chunks, heq]

theorem core_writerSteps (k : Nat) (s : Sender) : (s.writerSteps k).core = s.core := by
  induction k generalizing s with
  | zero => rfl
  | succ k ih => simp [Sender.writerSteps, ih, core_writerStep]

theorem queue_writerStep (s : Sender) : s.writerStep.queue.length = s.queue.length - 1 := by
  unfold Sender.writerStep
  split
  · next h => simp [h]
  · next h t heq => simp [heq]

theorem queue_writerSteps (k : Nat) (s : Sender) : (s.writerSteps k).queue.length = s.queue.length - k := by
  induction k generalizing s with
  | zero => rfl
  | succ k ih => simp [Sender.writerSteps, ih, queue_writerStep]; omega

theorem core_flush (k : Nat) (s : Sender) :
    (s.flush k).core = if s.cur.size = 0 then s.core
      else (ByteArray.empty, s.chunks ++ [s.cur], s.sent + s.cur.size, s.flushed + 1) := by
  unfold Sender.flush
  split
  · rfl
  · have key : ∀ K (s1 : Sender), (({ s1.writerSteps K with flushed := (s1.writerSteps K).flushed + 1 } : Sender).core)
        = (s1.cur, s1.chunks, s1.sent, s1.flushed + 1) := by
      intro K s1
      have := core_writerSteps K s1
      simp only [Sender.core, Sender.chunks, Prod.mk.injEq] at this ⊢
      obtain ⟨h1, h2, h3, h4⟩ := this
      exact ⟨h1, h2, h3, by rw [h4]⟩
    simp only [key]
    simp [Sender.chunks, List.append_assoc]

theorem queue_flush (k : Nat) (s : Sender) (h : s.queue.length ≤ numBuffers - 1) :
    (s.flush k).queue.length ≤ numBuffers - 1 := by
  unfold Sender.flush
  split
  · exact h
  · simp only [queue_writerSteps]
    simp [numBuffers] at *
    omega


theorem flush_spec (k : Nat) (s : Sender) :
    (s.flush k).cur = ByteArray.empty ∧
    (s.flush k).chunks = (if s.cur.size = 0 then s.chunks else s.chunks ++ [s.cur]) ∧
    (s.flush k).sent = s.sent + s.cur.size ∧
    (s.flush k).flushed = (if s.cur.size = 0 then s.flushed else s.flushed + 1) := by
  have h := core_flush k s
  by_cases h0 : s.cur.size = 0
  · have he : s.cur = ByteArray.empty := ByteArray.size_eq_zero_iff.mp h0
    simp only [h0, if_true, Sender.core, Prod.mk.injEq] at h ⊢
    obtain ⟨h1, h2, h3, h4⟩ := h
    exact ⟨by rw [h1, he], h2, by rw [h3]; rfl, h4⟩
  · simp only [h0, if_false, Sender.core, Prod.mk.injEq] at h ⊢
    exact h

structure SInv (s : Sender) : Prop where
  cur_le : s.cur.size ≤ writeBufSize
  queue_le : s.queue.length ≤ numBuffers - 1
  sent_eq : s.sent = (joinB s.chunks).size
  flushed_eq : s.flushed = s.chunks.length
  chunk_sz : ∀ c ∈ s.chunks, 0 < c.size ∧ c.size ≤ writeBufSize

theorem SInv_init : SInv Sender.init := by
  constructor <;> simp [Sender.init, Sender.chunks, joinB, numBuffers]

theorem flushS_spec (sch : Sched) (s : Sender) (hi : SInv s) :
    SInv (s.flushS sch) ∧ (s.flushS sch).stream = s.stream ∧ (s.flushS sch).cur = ByteArray.empty := by
  obtain ⟨h1, h2, h3, h4⟩ := flush_spec (sch s.flushed) s
  have hq := queue_flush (sch s.flushed) s hi.queue_le
  unfold Sender.flushS
  by_cases h0 : s.cur.size = 0
  · have he : s.cur = ByteArray.empty := ByteArray.size_eq_zero_iff.mp h0
    simp only [h0, if_true] at h2 h4
    refine ⟨⟨by simp [h1], hq, ?_, ?_, ?_⟩, ?_, h1⟩
    · rw [h3, h2, h0, hi.sent_eq]; rfl
    · rw [h4, h2, hi.flushed_eq]
    · rw [h2]; exact hi.chunk_sz
    · simp [Sender.stream, h1, h2, he]
  · simp only [h0, if_false] at h2 h4
    refine ⟨⟨by simp [h1], hq, ?_, ?_, ?_⟩, ?_, h1⟩
    · rw [h3, h2, hi.sent_eq, joinB_append]; simp [ByteArray.size_append]
    · rw [h4, h2, hi.flushed_eq]; simp
    · rw [h2]; intro c hc
      rcases List.mem_append.mp hc with hc | hc
      · exact hi.chunk_sz c hc
      · simp at hc; subst hc; exact ⟨by omega, hi.cur_le⟩
    · simp [Sender.stream, h1, h2, joinB_append]

theorem reserve_spec (sch : Sched) (n : Nat) (s : Sender) (hi : SInv s) :
    SInv (s.reserve sch n) ∧ (s.reserve sch n).stream = s.stream ∧
    (n ≤ writeBufSize → (s.reserve sch n).cur.size + n ≤ writeBufSize) := by
  unfold Sender.reserve
  split
  · obtain ⟨a, b, c⟩ := flushS_spec sch s hi
    exact ⟨a, b, fun hn => by rw [c]; simpa using hn⟩
  · exact ⟨hi, rfl, fun _ => by omega⟩

theorem put_spec (b : ByteArray) (s : Sender) (hi : SInv s) (hb : s.cur.size + b.size ≤ writeBufSize) :
    SInv (s.put b) ∧ (s.put b).stream = s.stream ++ b := by
  refine ⟨⟨?_, hi.queue_le, hi.sent_eq, hi.flushed_eq, hi.chunk_sz⟩, ?_⟩
  · simpa [Sender.put, ByteArray.size_append] using hb
  · simp [Sender.put, Sender.stream, Sender.chunks, ByteArray.append_assoc]

theorem reserve_put_spec (sch : Sched) (b : ByteArray) (s : Sender) (hi : SInv s) (hb : b.size ≤ writeBufSize) :
    SInv ((s.reserve sch b.size).put b) ∧ ((s.reserve sch b.size).put b).stream = s.stream ++ b := by
  obtain ⟨h1, h2, h3⟩ := reserve_spec sch b.size s hi
  obtain ⟨h4, h5⟩ := put_spec b _ h1 (h3 hb)
  exact ⟨h4, by rw [h5, h2]⟩

theorem sendDataLoop_spec (sch : Sched) (val : ByteArray) (off : Nat) (s : Sender) (hi : SInv s)
    (hoff : off ≤ val.size) :
    SInv (s.sendDataLoop sch val off) ∧
    (s.sendDataLoop sch val off).stream = s.stream ++ val.extract off val.size := by
  fun_induction Sender.sendDataLoop sch val off s with
  | case1 off s h s' n hn =>
    -- unreachable: after the conditional flush there is room
    exfalso
    have : s'.cur.size < writeBufSize := by
      simp only [s']
      split
      · rw [(flushS_spec sch s hi).2.2]; simp [writeBufSize]
      · omega
    simp only [n] at hn
    omega
  | case2 off s h s' n hn ih =>
    have hs' : SInv s' ∧ s'.stream = s.stream := by
      simp only [s']
      split
      · exact ⟨(flushS_spec sch s hi).1, (flushS_spec sch s hi).2.1⟩
      · exact ⟨hi, rfl⟩
    have hsz : (val.extract off (off + n)).size = n := by
      simp only [ByteArray.size_extract]; simp only [n]; omega
    have hput := put_spec (val.extract off (off + n)) s' hs'.1 (by rw [hsz]; simp only [n]; omega)
    obtain ⟨ih1, ih2⟩ := ih hput.1 (by simp only [n]; omega)
    refine ⟨ih1, ?_⟩
    rw [ih2, hput.2, hs'.2, ByteArray.append_assoc, ByteArray.extract_append_extract]
    congr 2 <;> omega
  | case3 off s h =>
    refine ⟨hi, ?_⟩
    have : val.extract off val.size = ByteArray.empty := by
      rw [ByteArray.extract_eq_empty_iff]; omega
    simp [this]


theorem sendBE_spec (sch : Sched) (k n : Nat) (s : Sender) (hi : SInv s) (hk : k ≤ writeBufSize) :
    SInv ((s.reserve sch k).put (be k n)) ∧
    ((s.reserve sch k).put (be k n)).stream = s.stream ++ be k n := by
  have := reserve_put_spec sch (be k n) s hi (by simpa using hk)
  simpa using this

theorem sendU32_spec (sch : Sched) (n : Nat) (s : Sender) (hi : SInv s) :
    SInv (s.sendU32 sch n) ∧ (s.sendU32 sch n).stream = s.stream ++ be 4 n :=
  sendBE_spec sch 4 n s hi (by simp [writeBufSize])

theorem sendData_spec (sch : Sched) (d : ByteArray) (s : Sender) (hi : SInv s) :
    SInv (s.sendData sch d) ∧ (s.sendData sch d).stream = s.stream ++ (be 4 d.size ++ d) := by
  obtain ⟨h1, h2⟩ := sendU32_spec sch d.size s hi
  obtain ⟨h3, h4⟩ := sendDataLoop_spec sch d 0 _ h1 (Nat.zero_le _)
  refine ⟨h3, ?_⟩
  unfold Sender.sendData
  rw [h4, h2, ByteArray.extract_zero_size, ByteArray.append_assoc]

theorem sendSizesLoop_spec (sch : Sched) (l : List Nat) (s : Sender) (hi : SInv s) :
    SInv (l.foldl (fun s x => s.sendU32 sch x) s) ∧
    (l.foldl (fun s x => s.sendU32 sch x) s).stream = s.stream ++ encSizes l := by
  induction l generalizing s with
  | nil => simp [encSizes, hi]
  | cons x xs ih =>
    obtain ⟨h1, h2⟩ := sendU32_spec sch x s hi
    obtain ⟨h3, h4⟩ := ih _ h1
    refine ⟨h3, ?_⟩
    simp only [List.foldl_cons, encSizes]
    rw [h4, h2, ByteArray.append_assoc]

theorem sendVal_spec (sch : Sched) (v : Val) (s : Sender) (hi : SInv s) :
    SInv (s.sendVal sch v) ∧ (s.sendVal sch v).stream = s.stream ++ v.encode := by
  cases v with
  | byte b =>
    have := reserve_put_spec sch [b].toByteArray s hi (by simp [writeBufSize])
    simpa [Sender.sendVal, Sender.sendByte, Val.encode] using this
  | u16 n => exact sendBE_spec sch 2 n s hi (by simp [writeBufSize])
  | u32 n => exact sendU32_spec sch n s hi
  | data d => exact sendData_spec sch d s hi
  | str d => exact sendData_spec sch d s hi
  | label n => exact sendBE_spec sch 16 n s hi (by simp [writeBufSize])
  | sizes l =>
    obtain ⟨h1, h2⟩ := sendU32_spec sch l.length s hi
    obtain ⟨h3, h4⟩ := sendSizesLoop_spec sch l _ h1
    refine ⟨h3, ?_⟩
    simp only [Sender.sendVal, Sender.sendSizes, Val.encode]
    rw [h4, h2, ByteArray.append_assoc]

theorem step_spec (sch : Sched) (o : Op) (s : Sender) (hi : SInv s) :
    SInv (s.step sch o) ∧ (s.step sch o).stream = s.stream ++ o.encode := by
  cases o with
  | send v => exact sendVal_spec sch v s hi
  | flush =>
    obtain ⟨h1, h2, _⟩ := flushS_spec sch s hi
    exact ⟨h1, by simpa [Sender.step, Op.encode] using h2⟩
  | needSpace n =>
    obtain ⟨h1, h2, _⟩ := reserve_spec sch n s hi
    exact ⟨h1, by simpa [Sender.step, Op.encode] using h2⟩

theorem run_spec (sch : Sched) (ops : List Op) (s : Sender) (hi : SInv s) :
    SInv (s.run sch ops) ∧ (s.run sch ops).stream = s.stream ++ encodeAll ops := by
  induction ops generalizing s with
  | nil => simp [Sender.run, encodeAll, hi]
  | cons o os ih =>
    obtain ⟨h1, h2⟩ := step_spec sch o s hi
    obtain ⟨h3, h4⟩ := ih _ h1
    refine ⟨h3, ?_⟩
    simp only [Sender.run, List.foldl_cons, encodeAll] at h4 ⊢
    rw [h4, h2, ByteArray.append_assoc]

/-- extra writer iterations at any time change neither the invariant nor the stream -/
theorem writerSteps_spec (j : Nat) (s : Sender) (hi : SInv s) :
    SInv (s.writerSteps j) ∧ (s.writerSteps j).stream = s.stream ∧
    (s.writerSteps j).chunks = s.chunks ∧ (s.writerSteps j).cur = s.cur ∧
    (s.writerSteps j).sent = s.sent ∧ (s.writerSteps j).flushed = s.flushed := by
  have h := core_writerSteps j s
  have hq := queue_writerSteps j s
  simp only [Sender.core, Prod.mk.injEq] at h
  obtain ⟨h1, h2, h3, h4⟩ := h
  refine ⟨⟨by rw [h1]; exact hi.cur_le, by rw [hq]; have := hi.queue_le; omega,
    by rw [h3, h2]; exact hi.sent_eq, by rw [h4, h2]; exact hi.flushed_eq,
    by rw [h2]; exact hi.chunk_sz⟩, by simp [Sender.stream, h1, h2], h2, h1, h3, h4⟩

theorem writerSteps_drain (s : Sender) :
    (s.writerSteps s.queue.length).queue = [] ∧ (s.writerSteps s.queue.length).wire = s.chunks := by
  have hq := queue_writerSteps s.queue.length s
  have hc := core_writerSteps s.queue.length s
  have h0 : (s.writerSteps s.queue.length).queue = [] := by
    apply List.eq_nil_of_length_eq_zero; omega
  simp only [Sender.core, Sender.chunks, Prod.mk.injEq, h0, List.append_nil] at hc
  exact ⟨h0, hc.2.1⟩

theorem close_spec (sch : Sched) (s : Sender) (hi : SInv s) :
    (s.close sch).queue = [] ∧ (s.close sch).cur = ByteArray.empty ∧
    joinB (s.close sch).wire = s.stream ∧ (s.close sch).sent = s.stream.size ∧
    (s.close sch).flushed = (s.close sch).wire.length ∧
    (∀ c ∈ (s.close sch).wire, 0 < c.size ∧ c.size ≤ writeBufSize) := by
  obtain ⟨h1, h2, h3⟩ := flushS_spec sch s hi
  obtain ⟨d1, d2⟩ := writerSteps_drain (s.flushS sch)
  obtain ⟨_, _, w2, w3, w4, w5⟩ := writerSteps_spec (s.flushS sch).queue.length _ h1
  unfold Sender.close
  simp only
  refine ⟨d1, by rw [w3, h3], ?_, ?_, ?_, ?_⟩
  · rw [d2, ← h2]; simp [Sender.stream, h3]
  · rw [w4, h1.sent_eq, ← h2]; simp [Sender.stream, h3]
  · rw [w5, d2]; exact h1.flushed_eq
  · rw [d2]; exact h1.chunk_sz

/-! ### The writer schedule cannot influence what the sender produces -/

theorem core_flushS_congr (sch sch' : Sched) (s s' : Sender) (h : s.core = s'.core) :
    (s.flushS sch).core = (s'.flushS sch').core := by
  unfold Sender.flushS
  rw [core_flush, core_flush]
  simp only [Sender.core, Prod.mk.injEq] at h ⊢
  obtain ⟨h1, h2, h3, h4⟩ := h
  simp only [h1, h2, h3, h4]

theorem core_reserve_congr (sch sch' : Sched) (n : Nat) (s s' : Sender) (h : s.core = s'.core) :
    (s.reserve sch n).core = (s'.reserve sch' n).core := by
  have hc : s.cur = s'.cur := by simp only [Sender.core, Prod.mk.injEq] at h; exact h.1
  unfold Sender.reserve
  rw [hc]
  split
  · exact core_flushS_congr sch sch' s s' h
  · exact h

theorem core_put_congr (b : ByteArray) (s s' : Sender) (h : s.core = s'.core) :
    (s.put b).core = (s'.put b).core := by
  simp only [Sender.core, Sender.put, Sender.chunks, Prod.mk.injEq] at h ⊢
  obtain ⟨h1, h2, h3, h4⟩ := h
  exact ⟨by rw [h1], h2, h3, h4⟩

theorem core_sendDataLoop_congr (sch sch' : Sched) (val : ByteArray) (off : Nat) (s s' : Sender)
    (h : s.core = s'.core) :
    (s.sendDataLoop sch val off).core = (s'.sendDataLoop sch' val off).core := by
  fun_induction Sender.sendDataLoop sch val off s generalizing s' with
  | case1 off s hlt s1 n hn =>
    have hc : s.cur = s'.cur := by simp only [Sender.core, Prod.mk.injEq] at h; exact h.1
    have h1 : s1.core = (if s'.cur.size ≥ writeBufSize then s'.flushS sch' else s').core := by
      simp only [s1]; rw [hc]; split
      · exact core_flushS_congr sch sch' s s' h
      · exact h
    have hc1 : s1.cur = (if s'.cur.size ≥ writeBufSize then s'.flushS sch' else s').cur := by
      simp only [Sender.core, Prod.mk.injEq] at h1; exact h1.1
    rw [Sender.sendDataLoop.eq_1 sch' val off s']
    simp only [hlt, dite_true]
    have : min (writeBufSize - (if s'.cur.size ≥ writeBufSize then s'.flushS sch' else s').cur.size)
        (val.size - off) = 0 := by rw [← hc1]; exact hn
    simp only [this, dite_true]
    exact h1
  | case2 off s hlt s1 n hn ih =>
    have hc : s.cur = s'.cur := by simp only [Sender.core, Prod.mk.injEq] at h; exact h.1
    have h1 : s1.core = (if s'.cur.size ≥ writeBufSize then s'.flushS sch' else s').core := by
      simp only [s1]; rw [hc]; split
      · exact core_flushS_congr sch sch' s s' h
      · exact h
    have hc1 : s1.cur = (if s'.cur.size ≥ writeBufSize then s'.flushS sch' else s').cur := by
      simp only [Sender.core, Prod.mk.injEq] at h1; exact h1.1
    rw [Sender.sendDataLoop.eq_1 sch' val off s']
    simp only [hlt, dite_true]
    have hn' : min (writeBufSize - (if s'.cur.size ≥ writeBufSize then s'.flushS sch' else s').cur.size)
        (val.size - off) = n := by rw [← hc1]
    simp only [hn', hn, dite_false]
    exact ih _ (core_put_congr _ _ _ h1)
  | case3 off s hlt =>
    rw [Sender.sendDataLoop.eq_1 sch' val off s']
    simp only [hlt, dite_false]
    exact h

theorem core_sendU32_congr (sch sch' : Sched) (n : Nat) (s s' : Sender) (h : s.core = s'.core) :
    (s.sendU32 sch n).core = (s'.sendU32 sch' n).core :=
  core_put_congr _ _ _ (core_reserve_congr sch sch' 4 s s' h)

theorem core_sendVal_congr (sch sch' : Sched) (v : Val) (s s' : Sender) (h : s.core = s'.core) :
    (s.sendVal sch v).core = (s'.sendVal sch' v).core := by
  cases v with
  | byte b => exact core_put_congr _ _ _ (core_reserve_congr sch sch' 1 s s' h)
  | u16 n => exact core_put_congr _ _ _ (core_reserve_congr sch sch' 2 s s' h)
  | u32 n => exact core_sendU32_congr sch sch' n s s' h
  | data d => exact core_sendDataLoop_congr sch sch' d 0 _ _ (core_sendU32_congr sch sch' _ s s' h)
  | str d => exact core_sendDataLoop_congr sch sch' d 0 _ _ (core_sendU32_congr sch sch' _ s s' h)
  | label n => exact core_put_congr _ _ _ (core_reserve_congr sch sch' 16 s s' h)
  | sizes l =>
    simp only [Sender.sendVal, Sender.sendSizes]
    have h0 := core_sendU32_congr sch sch' l.length s s' h
    generalize s.sendU32 sch l.length = a at h0
    generalize s'.sendU32 sch' l.length = a' at h0
    induction l generalizing a a' with
    | nil => exact h0
    | cons x xs ih => exact ih _ _ (core_sendU32_congr sch sch' x a a' h0)

theorem core_run_congr (sch sch' : Sched) (ops : List Op) (s s' : Sender) (h : s.core = s'.core) :
    (s.run sch ops).core = (s'.run sch' ops).core := by
  induction ops generalizing s s' with
  | nil => exact h
  | cons o os ih =>
    simp only [Sender.run, List.foldl_cons]
    apply ih
    cases o with
    | send v => exact core_sendVal_congr sch sch' v s s' h
    | flush => exact core_flushS_congr sch sch' s s' h
    | needSpace n => exact core_reserve_congr sch sch' n s s' h

/-! ## Physical buffer ring refines the value-level send half -/

/-- Ownership invariant of the ring: the current buffer, the queued buffers
and the free buffers are pairwise distinct and together are all `numBuffers`
buffers; a queued slice covers exactly what was written into its buffer. -/
structure RingInv (r : Ring) : Prop where
  nodup : (r.cur :: (r.toW.map Prod.fst ++ r.fromW)).Nodup
  count : 1 + r.toW.length + r.fromW.length = numBuffers
  len_eq : ∀ p ∈ r.toW, p.2 = (getB r.mem p.1).size
  bound : ∀ i ∈ r.cur :: (r.toW.map Prod.fst ++ r.fromW), i < r.mem.size

theorem RingInv_init : RingInv Ring.init := by
  constructor <;> simp [Ring.init, numBuffers]

theorem getB_upd_self (m : Array ByteArray) (i : Nat) (v : ByteArray) (h : i < m.size) :
    getB (upd m i v) i = v := by
  simp [getB, upd, Array.getD_eq_getD_getElem?, h]

theorem getB_upd_ne (m : Array ByteArray) (i j : Nat) (v : ByteArray) (h : j ≠ i) :
    getB (upd m i v) j = getB m j := by
  simp [getB, upd, Array.getD_eq_getD_getElem?, Ne.symm h]

@[simp] theorem size_upd (m : Array ByteArray) (i : Nat) (v : ByteArray) : (upd m i v).size = m.size := by
  simp [upd]


/-! closed forms of `writerSteps` -/

theorem Sender.writerSteps_closed (m : Nat) (s : Sender) :
    s.writerSteps m = { s with queue := s.queue.drop m, wire := s.wire ++ s.queue.take m } := by
  induction m generalizing s with
  | zero => simp [Sender.writerSteps]
  | succ m ih =>
    rw [Sender.writerSteps, ih]
    unfold Sender.writerStep
    cases hq : s.queue with
    | nil => simp [hq]
    | cons h t => simp [List.append_assoc]

def readSlice (mem : Array ByteArray) (p : Nat × Nat) : ByteArray := (getB mem p.1).extract 0 p.2

theorem Ring.writerSteps_closed (m : Nat) (r : Ring) :
    r.writerSteps m = { r with toW := r.toW.drop m,
                               wire := r.wire ++ (r.toW.take m).map (readSlice r.mem),
                               wids := r.wids ++ (r.toW.take m).map Prod.fst,
                               fromW := r.fromW ++ (r.toW.take m).map Prod.fst } := by
  induction m generalizing r with
  | zero => simp [Ring.writerSteps]
  | succ m ih =>
    rw [Ring.writerSteps, ih]
    unfold Ring.writerStep
    cases hq : r.toW with
    | nil => simp [hq]
    | cons h t => simp [List.append_assoc, readSlice]

theorem abs_writerSteps (m : Nat) (r : Ring) : (r.writerSteps m).abs = r.abs.writerSteps m := by
  rw [Ring.writerSteps_closed, Sender.writerSteps_closed]
  simp only [Ring.abs, List.map_drop, List.map_take]
  rfl

theorem RingInv_writerSteps (m : Nat) (r : Ring) (hi : RingInv r) : RingInv (r.writerSteps m) := by
  rw [Ring.writerSteps_closed]
  have htd := List.take_append_drop m r.toW
  have hperm : (r.cur :: (r.toW.map Prod.fst ++ r.fromW)).Perm
      (r.cur :: ((r.toW.drop m).map Prod.fst ++ (r.fromW ++ (r.toW.take m).map Prod.fst))) := by
    rw [List.perm_iff_count]
    intro a
    have : List.count a (r.toW.map Prod.fst) =
        List.count a ((r.toW.take m).map Prod.fst) + List.count a ((r.toW.drop m).map Prod.fst) := by
      rw [← List.count_append, ← List.map_append, htd]
    simp only [List.count_cons, List.count_append, this]
    omega
  constructor
  · exact (List.Perm.nodup_iff hperm).mp hi.nodup
  · simp only [List.length_append, List.length_map, List.length_drop, List.length_take]
    have := hi.count
    omega
  · intro p hp
    exact hi.len_eq p (List.mem_of_mem_drop hp)
  · intro i hmem
    exact hi.bound i ((List.Perm.mem_iff hperm).mpr hmem)

theorem cur_not_queued (r : Ring) (hi : RingInv r) : ∀ p ∈ r.toW, p.1 ≠ r.cur := by
  intro p hp heq
  have := hi.nodup
  rw [List.nodup_cons] at this
  apply this.1
  rw [List.mem_append]
  left
  rw [← heq]
  exact List.mem_map_of_mem hp

theorem put_sim (b : ByteArray) (r : Ring) (hi : RingInv r) :
    RingInv (r.put b) ∧ (r.put b).abs = r.abs.put b := by
  have hne := cur_not_queued r hi
  have hcur : r.cur < r.mem.size := hi.bound r.cur (by simp)
  constructor
  · refine ⟨hi.nodup, hi.count, ?_, ?_⟩
    · intro p hp
      simp only [Ring.put]
      rw [getB_upd_ne _ _ _ _ (hne p hp)]
      exact hi.len_eq p hp
    · intro i hmem
      simp only [Ring.put, size_upd]
      exact hi.bound i hmem
  · simp only [Ring.abs, Ring.put, Sender.put]
    rw [getB_upd_self _ _ _ hcur]
    congr 1
    apply List.map_congr_left
    intro p hp
    rw [getB_upd_ne _ _ _ _ (hne p hp)]

theorem forced_eq (r : Ring) (hi : RingInv r) :
    (if r.fromW.isEmpty then 1 else 0) = r.toW.length + 1 + 1 - numBuffers := by
  have := hi.count
  cases hf : r.fromW with
  | nil => simp [hf, numBuffers] at this ⊢; omega
  | cons a t => simp [hf, numBuffers] at this ⊢; omega

theorem flush_sim (k : Nat) (r : Ring) (hi : RingInv r) :
    RingInv (r.flush k) ∧ (r.flush k).abs = r.abs.flush k := by
  unfold Ring.flush
  by_cases h0 : (getB r.mem r.cur).size = 0
  · simp only [h0, if_true]
    refine ⟨hi, ?_⟩
    unfold Sender.flush
    simp [Ring.abs, h0]
  · simp only [h0, if_false]
    have hK := forced_eq r hi
    generalize hKdef : max k (if r.fromW.isEmpty then 1 else 0) = K
    have hK1 : r.fromW = [] → 1 ≤ K := by
      intro hf; rw [← hKdef, hf]; simp; omega
    generalize hT : r.toW ++ [(r.cur, (getB r.mem r.cur).size)] = T'
    rw [Ring.writerSteps_closed]
    -- ownership facts
    have htd := List.take_append_drop K T'
    have hids : T'.map Prod.fst = r.toW.map Prod.fst ++ [r.cur] := by rw [← hT]; simp
    have hperm : (r.fromW ++ (T'.take K).map Prod.fst ++ (T'.drop K).map Prod.fst).Perm
        (r.cur :: (r.toW.map Prod.fst ++ r.fromW)) := by
      rw [List.perm_iff_count]
      intro a
      have : List.count a ((T'.take K).map Prod.fst) + List.count a ((T'.drop K).map Prod.fst)
          = List.count a (r.toW.map Prod.fst) + List.count a [r.cur] := by
        rw [← List.count_append, ← List.map_append, htd, hids, List.count_append]
      simp only [List.count_cons, List.count_append, List.count_nil] at this ⊢
      omega
    have hnd := (List.Perm.nodup_iff hperm).mpr hi.nodup
    cases hf : r.fromW ++ List.map Prod.fst (List.take K T') with
    | nil =>
      exfalso
      have h1 : r.fromW = [] := (List.append_eq_nil_iff.mp hf).1
      have h2 := (List.append_eq_nil_iff.mp hf).2
      have hK1' := hK1 h1
      have : T' ≠ [] := by rw [← hT]; simp
      cases T' with
      | nil => exact this rfl
      | cons a t =>
        have : K = (K - 1) + 1 := by omega
        rw [this] at h2
        simp at h2
    | cons i t =>
      simp only
      rw [hf] at hnd hperm
      have hi_notin : ∀ p ∈ T'.drop K, p.1 ≠ i := by
        intro p hp heq
        have h3 := (List.nodup_append.mp hnd).2.2 i (by simp) p.1 (List.mem_map_of_mem hp)
        exact h3 heq.symm
      have hlen : ∀ p ∈ T', p.2 = (getB r.mem p.1).size := by
        intro p hp
        rw [← hT] at hp
        rcases List.mem_append.mp hp with hp | hp
        · exact hi.len_eq p hp
        · simp at hp; subst hp; rfl
      constructor
      · constructor
        · simp only
          apply (List.Perm.nodup_iff ?_).mp hnd
          rw [List.perm_iff_count]
          intro a
          simp only [List.count_cons, List.count_append]
          omega
        · simp only [List.length_drop]
          have hc := hi.count
          have hl : (r.fromW ++ List.map Prod.fst (List.take K T')).length = t.length + 1 := by
            rw [hf]; simp
          have hT' : T'.length = r.toW.length + 1 := by rw [← hT]; simp
          simp only [List.length_append, List.length_map, List.length_take] at hl
          omega
        · intro p hp
          simp only at hp ⊢
          rw [getB_upd_ne _ _ _ _ (hi_notin p hp)]
          exact hlen p (List.mem_of_mem_drop hp)
        · intro j hj
          simp only [size_upd]
          simp only at hj
          apply hi.bound j
          apply (List.Perm.mem_iff hperm).mp
          rcases List.mem_cons.mp hj with hj | hj
          · subst hj; simp
          · rcases List.mem_append.mp hj with hj | hj
            · simp only [List.cons_append, List.mem_cons, List.mem_append]; right; right; exact hj
            · simp only [List.cons_append, List.mem_cons, List.mem_append]; right; left; exact hj
      · unfold Sender.flush
        have hsz : ¬ (r.abs.cur.size = 0) := by simpa [Ring.abs] using h0
        simp only [hsz, if_false]
        rw [Sender.writerSteps_closed]
        have hQ : r.abs.queue ++ [r.abs.cur] = T'.map (readSlice r.mem) := by
          rw [← hT]
          simp [Ring.abs, readSlice, ByteArray.extract_zero_size]
        have hKK : max k ((r.abs.queue ++ [r.abs.cur]).length + 1 - numBuffers) = K := by
          rw [← hKdef, hK]; simp [Ring.abs]
        have hKK2 : max k ((List.map (readSlice r.mem) T').length + 1 - numBuffers) = K := by
          rw [← hQ]; exact hKK
        simp only [hQ, hKK2]
        have hib : i < r.mem.size := by
          apply hi.bound i
          apply (List.Perm.mem_iff hperm).mp
          simp
        simp only [Ring.abs, ← List.map_drop, ← List.map_take]
        rw [getB_upd_self _ _ _ hib]
        congr 1
        apply List.map_congr_left
        intro p hp
        simp only [readSlice]
        rw [getB_upd_ne _ _ _ _ (hi_notin p hp)]

theorem flushS_sim (sch : Sched) (r : Ring) (hi : RingInv r) :
    RingInv (r.flushS sch) ∧ (r.flushS sch).abs = r.abs.flushS sch :=
  flush_sim (sch r.flushed) r hi

theorem reserve_sim (sch : Sched) (n : Nat) (r : Ring) (hi : RingInv r) :
    RingInv (r.reserve sch n) ∧ (r.reserve sch n).abs = r.abs.reserve sch n := by
  unfold Ring.reserve Sender.reserve
  have : r.abs.cur = getB r.mem r.cur := rfl
  rw [this]
  split
  · exact flushS_sim sch r hi
  · exact ⟨hi, rfl⟩

theorem sendBE_sim (sch : Sched) (k n : Nat) (r : Ring) (hi : RingInv r) :
    RingInv (r.sendBE sch k n) ∧ (r.sendBE sch k n).abs = (r.abs.reserve sch k).put (be k n) := by
  obtain ⟨h1, h2⟩ := reserve_sim sch k r hi
  obtain ⟨h3, h4⟩ := put_sim (be k n) _ h1
  exact ⟨h3, by rw [← h2]; exact h4⟩

theorem sendDataLoop_sim (sch : Sched) (val : ByteArray) (off : Nat) (r : Ring) (hi : RingInv r) :
    RingInv (r.sendDataLoop sch val off) ∧
    (r.sendDataLoop sch val off).abs = r.abs.sendDataLoop sch val off := by
  fun_induction Ring.sendDataLoop sch val off r with
  | case1 off r hlt r1 n hn =>
    have h1 : RingInv r1 ∧ r1.abs = (if r.abs.cur.size ≥ writeBufSize then r.abs.flushS sch else r.abs) := by
      simp only [r1]
      have : r.abs.cur = getB r.mem r.cur := rfl
      rw [this]
      split
      · exact flushS_sim sch r hi
      · exact ⟨hi, rfl⟩
    rw [Sender.sendDataLoop.eq_1 sch val off r.abs]
    simp only [hlt, dite_true]
    rw [← h1.2]
    have : min (writeBufSize - r1.abs.cur.size) (val.size - off) = 0 := hn
    simp only [this, dite_true]
    exact ⟨h1.1, trivial⟩
  | case2 off r hlt r1 n hn ih =>
    have h1 : RingInv r1 ∧ r1.abs = (if r.abs.cur.size ≥ writeBufSize then r.abs.flushS sch else r.abs) := by
      simp only [r1]
      have : r.abs.cur = getB r.mem r.cur := rfl
      rw [this]
      split
      · exact flushS_sim sch r hi
      · exact ⟨hi, rfl⟩
    obtain ⟨p1, p2⟩ := put_sim (val.extract off (off + n)) r1 h1.1
    obtain ⟨i1, i2⟩ := ih p1
    refine ⟨i1, ?_⟩
    rw [Sender.sendDataLoop.eq_1 sch val off r.abs]
    simp only [hlt, dite_true]
    rw [← h1.2]
    have hn' : min (writeBufSize - r1.abs.cur.size) (val.size - off) = n := rfl
    simp only [hn', hn, dite_false]
    rw [i2, p2]
  | case3 off r hlt =>
    rw [Sender.sendDataLoop.eq_1 sch val off r.abs]
    simp only [hlt, dite_false]
    exact ⟨hi, trivial⟩

theorem sendVal_sim (sch : Sched) (v : Val) (r : Ring) (hi : RingInv r) :
    RingInv (r.sendVal sch v) ∧ (r.sendVal sch v).abs = r.abs.sendVal sch v := by
  cases v with
  | byte b =>
    obtain ⟨h1, h2⟩ := reserve_sim sch 1 r hi
    obtain ⟨h3, h4⟩ := put_sim [b].toByteArray _ h1
    exact ⟨h3, by simp only [Sender.sendVal, Sender.sendByte]; rw [← h2]; exact h4⟩
  | u16 n => exact sendBE_sim sch 2 n r hi
  | u32 n => exact sendBE_sim sch 4 n r hi
  | data d =>
    obtain ⟨h1, h2⟩ := sendBE_sim sch 4 d.size r hi
    obtain ⟨h3, h4⟩ := sendDataLoop_sim sch d 0 _ h1
    exact ⟨h3, by simp only [Sender.sendVal, Sender.sendData, Sender.sendU32]; rw [← h2]; exact h4⟩
  | str d =>
    obtain ⟨h1, h2⟩ := sendBE_sim sch 4 d.size r hi
    obtain ⟨h3, h4⟩ := sendDataLoop_sim sch d 0 _ h1
    exact ⟨h3, by simp only [Sender.sendVal, Sender.sendData, Sender.sendU32]; rw [← h2]; exact h4⟩
  | label n => exact sendBE_sim sch 16 n r hi
  | sizes l =>
    simp only [Ring.sendVal, Sender.sendVal, Sender.sendSizes]
    obtain ⟨h1, h2⟩ := sendBE_sim sch 4 l.length r hi
    have h2' : (r.sendBE sch 4 l.length).abs = r.abs.sendU32 sch l.length := h2
    rw [← h2']
    generalize r.sendBE sch 4 l.length = a at h1
    clear h2 h2'
    induction l generalizing a with
    | nil => exact ⟨h1, rfl⟩
    | cons x xs ih =>
      simp only [List.foldl_cons]
      obtain ⟨g1, g2⟩ := sendBE_sim sch 4 x a h1
      have g2' : (a.sendBE sch 4 x).abs = a.abs.sendU32 sch x := g2
      rw [← g2']
      exact ih _ g1

theorem run_sim (sch : Sched) (ops : List Op) (r : Ring) (hi : RingInv r) :
    RingInv (r.run sch ops) ∧ (r.run sch ops).abs = r.abs.run sch ops := by
  induction ops generalizing r with
  | nil => exact ⟨hi, rfl⟩
  | cons o os ih =>
    simp only [Ring.run, Sender.run, List.foldl_cons]
    have h : RingInv (r.step sch o) ∧ (r.step sch o).abs = r.abs.step sch o := by
      cases o with
      | send v => exact sendVal_sim sch v r hi
      | flush => exact flushS_sim sch r hi
      | needSpace n => exact reserve_sim sch n r hi
    obtain ⟨i1, i2⟩ := ih _ h.1
    refine ⟨i1, ?_⟩
    rw [← h.2]
    exact i2

theorem abs_init : Ring.init.abs = Sender.init := rfl

/-! ## Receive half -/

structure RInv (r : Recv) : Prop where
  rs_le : r.rs ≤ r.buf.size
  buf_le : r.buf.size ≤ readBufSize
  pos_le : r.pos ≤ r.pend.size

/-- Accounting between two receiver states: same transport stream, and
`Stats.Recvd` grew by exactly the bytes taken from the transport. -/
structure Acct (r r' : Recv) : Prop where
  pend_eq : r'.pend = r.pend
  pos_mono : r.pos ≤ r'.pos
  recvd_eq : r'.recvd + r.pos = r.recvd + r'.pos

theorem Acct.refl (r : Recv) : Acct r r := ⟨rfl, Nat.le_refl _, rfl⟩

theorem Acct.trans {a b c : Recv} (h1 : Acct a b) (h2 : Acct b c) : Acct a c :=
  ⟨by rw [h2.pend_eq, h1.pend_eq], Nat.le_trans h1.pos_mono h2.pos_mono,
   by have := h1.recvd_eq; have := h2.recvd_eq; omega⟩

theorem size_window (r : Recv) : r.window.size = r.buf.size - r.rs := by
  simp [Recv.window, ByteArray.size_extract]

theorem size_pending (r : Recv) : r.pending.size = r.pend.size - r.pos := by
  simp [Recv.pending, ByteArray.size_extract]

theorem size_unread (r : Recv) : r.unread.size = (r.buf.size - r.rs) + (r.pend.size - r.pos) := by
  simp [Recv.unread, ByteArray.size_append, size_window, size_pending]

theorem fillLoop_spec (frag : Frag) (n : Nat) (r : Recv) (hi : RInv r) (hn : r.rs + n ≤ readBufSize)
    (hav : n ≤ r.unread.size) :
    ∃ r', r.fillLoop frag n = .ok r' ∧ RInv r' ∧ r'.unread = r.unread ∧ r'.rs = r.rs ∧
      r'.rs + n ≤ r'.buf.size ∧ Acct r r' := by
  fun_induction Recv.fillLoop frag n r with
  | case1 r h rem hr =>
    exfalso
    rw [size_unread] at hav
    simp only [rem] at hr
    have := hi.rs_le
    omega
  | case2 r h cap rem hr hc =>
    exfalso
    simp only [cap] at hc
    have := hi.buf_le
    omega
  | case3 r h cap rem hr hc got ih =>
    have hgot : 1 ≤ got ∧ got ≤ cap ∧ got ≤ rem := by simp only [got]; omega
    have hpl := hi.pos_le
    have hbl := hi.buf_le
    have hrl := hi.rs_le
    have hsz : (r.pend.extract r.pos (r.pos + got)).size = got := by
      simp only [ByteArray.size_extract]; simp only [rem] at hgot; omega
    have hi' : RInv { r with buf := r.buf ++ r.pend.extract r.pos (r.pos + got),
                             pos := r.pos + got, nread := r.nread + 1,
                             recvd := r.recvd + got, rlog := mix64 r.rlog cap got } := by
      constructor
      · simp only [ByteArray.size_append]; omega
      · simp only [ByteArray.size_append, hsz]; simp only [cap] at hgot; omega
      · simp only [rem] at hgot; simp only; omega
    have hun : ({ r with buf := r.buf ++ r.pend.extract r.pos (r.pos + got),
                             pos := r.pos + got, nread := r.nread + 1,
                             recvd := r.recvd + got, rlog := mix64 r.rlog cap got } : Recv).unread
        = r.unread := by
      simp only [Recv.unread, Recv.window, Recv.pending]
      rw [ByteArray.extract_append, ByteArray.size_append, hsz,
        extract_ge_size r.buf r.rs (r.buf.size + got) (by omega)]
      have e1 : r.rs - r.buf.size = 0 := by omega
      have e2 : r.buf.size + got - r.buf.size = got := by omega
      rw [e1, e2, extract_all _ got (by omega), ByteArray.append_assoc,
        ← extract_split r.pend r.pos (r.pos + got) r.pend.size (by omega)
          (by simp only [rem] at hgot; omega)]
    obtain ⟨r', e, i', u', rs', av', ac'⟩ := ih hi' hn (by rw [hun]; exact hav)
    refine ⟨r', e, i', by rw [u', hun], rs', av', ?_⟩
    exact ⟨ac'.pend_eq, by have := ac'.pos_mono; simp only at this; omega,
      by have := ac'.recvd_eq; simp only at this; omega⟩
  | case4 r h =>
    exact ⟨r, rfl, hi, rfl, rfl, by omega, Acct.refl r⟩

theorem fill_spec (frag : Frag) (n : Nat) (r : Recv) (hi : RInv r) (hn : n ≤ readBufSize)
    (hav : n ≤ r.unread.size) :
    ∃ r', r.fill frag n = .ok r' ∧ RInv r' ∧ r'.unread = r.unread ∧
      r'.rs + n ≤ r'.buf.size ∧ Acct r r' := by
  unfold Recv.fill
  by_cases h : r.rs < r.buf.size
  · simp only [h, if_true]
    have hi1 : RInv { r with buf := r.buf.extract r.rs r.buf.size, rs := 0 } :=
      ⟨Nat.zero_le _, by simp only [ByteArray.size_extract]; have := hi.buf_le; omega, hi.pos_le⟩
    have hu1 : ({ r with buf := r.buf.extract r.rs r.buf.size, rs := 0 } : Recv).unread = r.unread := by
      simp only [Recv.unread, Recv.window, Recv.pending, ByteArray.extract_zero_size]
    obtain ⟨r', e, i', u', rs', av', ac'⟩ :=
      fillLoop_spec frag n _ hi1 (by simpa using hn) (by rw [hu1]; exact hav)
    exact ⟨r', e, i', by rw [u', hu1], av', ⟨ac'.pend_eq, ac'.pos_mono, ac'.recvd_eq⟩⟩
  · simp only [h, if_false]
    have hi1 : RInv { r with buf := ByteArray.empty, rs := 0 } :=
      ⟨Nat.zero_le _, by simp, hi.pos_le⟩
    have hu1 : ({ r with buf := ByteArray.empty, rs := 0 } : Recv).unread = r.unread := by
      simp only [Recv.unread, Recv.window, Recv.pending]
      rw [extract_empty_of_le r.buf r.rs r.buf.size (by omega)]
      simp
    obtain ⟨r', e, i', u', rs', av', ac'⟩ :=
      fillLoop_spec frag n _ hi1 (by simpa using hn) (by rw [hu1]; exact hav)
    exact ⟨r', e, i', by rw [u', hu1], av', ⟨ac'.pend_eq, ac'.pos_mono, ac'.recvd_eq⟩⟩

theorem ensure_spec (frag : Frag) (n : Nat) (r : Recv) (hi : RInv r) (hn : n ≤ readBufSize)
    (hav : n ≤ r.unread.size) :
    ∃ r', r.ensure frag n = .ok r' ∧ RInv r' ∧ r'.unread = r.unread ∧
      r'.rs + n ≤ r'.buf.size ∧ Acct r r' := by
  unfold Recv.ensure
  split
  · exact fill_spec frag n r hi hn hav
  · exact ⟨r, rfl, hi, rfl, by omega, Acct.refl r⟩

/-- Taking `k` buffered bytes: if the unread stream starts with `x` (`|x| = k`)
the bytes taken are `x` and the unread stream loses exactly that prefix. -/
theorem take_spec (k : Nat) (r : Recv) (hi : RInv r) (hk : r.rs + k ≤ r.buf.size)
    (x tail : ByteArray) (hx : x.size = k) (hu : r.unread = x ++ tail) :
    (r.take k).1 = x ∧ RInv (r.take k).2 ∧ (r.take k).2.unread = tail ∧ Acct r (r.take k).2 := by
  have hsplit : r.unread = r.buf.extract r.rs (r.rs + k) ++ (r.take k).2.unread := by
    simp only [Recv.take, Recv.unread, Recv.window, Recv.pending]
    rw [← ByteArray.append_assoc, ← extract_split r.buf r.rs (r.rs + k) r.buf.size (by omega) hk]
  have hsz : (r.buf.extract r.rs (r.rs + k)).size = k := by
    simp only [ByteArray.size_extract]; omega
  rw [hu] at hsplit
  obtain ⟨e1, e2⟩ := append_cancel hsplit (by rw [hx, hsz])
  refine ⟨by simp only [Recv.take]; exact e1.symm, ⟨hk, hi.buf_le, hi.pos_le⟩, e2.symm, ?_⟩
  exact ⟨rfl, Nat.le_refl _, rfl⟩

theorem recvBE_spec (frag : Frag) (k n : Nat) (r : Recv) (hi : RInv r) (hk : k ≤ readBufSize)
    (tail : ByteArray) (hu : r.unread = be k n ++ tail) :
    ∃ r', r.recvBE frag k = .ok (n % 256 ^ k, r') ∧ RInv r' ∧ r'.unread = tail ∧ Acct r r' := by
  obtain ⟨r1, e1, i1, u1, av1, ac1⟩ := ensure_spec frag k r hi hk
    (by rw [hu, ByteArray.size_append, size_be]; omega)
  obtain ⟨t1, t2, t3, t4⟩ := take_spec k r1 i1 av1 (be k n) tail (size_be k n) (by rw [u1, hu])
  refine ⟨(r1.take k).2, ?_, t2, t3, ac1.trans t4⟩
  unfold Recv.recvBE
  rw [e1]
  simp only
  rw [show r1.take k = ((r1.take k).1, (r1.take k).2) from rfl, t1, decodeBE_be]

theorem recvByte_spec (frag : Frag) (b : UInt8) (r : Recv) (hi : RInv r)
    (tail : ByteArray) (hu : r.unread = [b].toByteArray ++ tail) :
    ∃ r', r.recvByte frag = .ok (b, r') ∧ RInv r' ∧ r'.unread = tail ∧ Acct r r' := by
  obtain ⟨r1, e1, i1, u1, av1, ac1⟩ := ensure_spec frag 1 r hi (by simp [readBufSize])
    (by rw [hu, ByteArray.size_append]; simp)
  obtain ⟨t1, t2, t3, t4⟩ := take_spec 1 r1 i1 av1 [b].toByteArray tail (by simp) (by rw [u1, hu])
  refine ⟨(r1.take 1).2, ?_, t2, t3, ac1.trans t4⟩
  unfold Recv.recvByte
  rw [e1]
  simp only [Recv.take] at t1 ⊢
  rw [ByteArray.extract_add_one av1] at t1
  have hb : r1.buf[r1.rs] = b := by
    have := List.toByteArray_inj.mp t1
    simpa using this
  have hlt : r1.rs < r1.buf.size := by omega
  rw [getElem!_pos r1.buf r1.rs hlt, hb]

theorem recvDataLoop_spec (frag : Frag) (d : ByteArray) (read : Nat) (acc : ByteArray) (r : Recv)
    (hi : RInv r) (hread : read ≤ d.size) (hacc : acc = d.extract 0 read)
    (tail : ByteArray) (hu : r.unread = d.extract read d.size ++ tail) :
    ∃ r', r.recvDataLoop frag d.size read acc = .ok (d, r') ∧ RInv r' ∧ r'.unread = tail ∧ Acct r r' := by
  generalize hlen : d.size = len at *
  fun_induction Recv.recvDataLoop frag len read acc r with
  | case1 read acc r hlt e he =>
    exfalso
    split at he
    · obtain ⟨r', e', _⟩ := fill_spec frag (min (len - read) readBufSize) r hi (Nat.min_le_right _ _)
        (by rw [hu, ByteArray.size_append, ByteArray.size_extract]; omega)
      rw [e'] at he
      cases he
    · cases he
  | case2 read acc r hlt r1 he avail ha =>
    exfalso
    split at he
    · obtain ⟨r', e', i', u', av', _⟩ := fill_spec frag (min (len - read) readBufSize) r hi
        (Nat.min_le_right _ _)
        (by rw [hu, ByteArray.size_append, ByteArray.size_extract]; omega)
      rw [e'] at he
      cases he
      simp only [avail, readBufSize] at ha av'
      omega
    · cases he
      simp only [avail] at ha
      omega
  | case3 read acc r hlt r1 he avail ha ih =>
    have h1 : RInv r1 ∧ r1.unread = r.unread ∧ Acct r r1 := by
      split at he
      · obtain ⟨r', e', i', u', av', ac'⟩ := fill_spec frag (min (len - read) readBufSize) r hi
          (Nat.min_le_right _ _)
          (by rw [hu, ByteArray.size_append, ByteArray.size_extract]; omega)
        rw [e'] at he
        cases he
        exact ⟨i', u', ac'⟩
      · cases he
        exact ⟨hi, rfl, Acct.refl r⟩
    obtain ⟨i1, u1, ac1⟩ := h1
    have hav : avail ≤ r1.buf.size - r1.rs ∧ avail ≤ len - read ∧ 0 < avail := by
      simp only [avail] at ha ⊢; omega
    have hu1 : r1.unread = d.extract read (read + avail) ++ (d.extract (read + avail) len ++ tail) := by
      rw [u1, hu, ← ByteArray.append_assoc, ← extract_split d read (read + avail) len (by omega) (by omega)]
    have hrs := i1.rs_le
    obtain ⟨t1, t2, t3, t4⟩ := take_spec avail r1 i1 (by omega) _ _
      (by simp only [ByteArray.size_extract, hlen]; omega) hu1
    simp only [Recv.take] at t1 t2 t3 t4
    obtain ⟨r', e', i', u', ac'⟩ := ih t2
      (by rw [hacc, t1, ← extract_split d 0 read (read + avail) (by omega) (by omega)]) (by omega) t3
    exact ⟨r', e', i', u', ac1.trans (t4.trans ac')⟩
  | case4 read acc r hlt =>
    have : read = len := by omega
    subst this
    refine ⟨r, ?_, hi, ?_, Acct.refl r⟩
    · rw [hacc, ← hlen, ByteArray.extract_zero_size]
    · rw [hu, extract_empty_of_le d read read (by omega)]; simp

theorem recvData_spec (frag : Frag) (d : ByteArray) (hd : d.size < 2 ^ 32) (r : Recv) (hi : RInv r)
    (tail : ByteArray) (hu : r.unread = (be 4 d.size ++ d) ++ tail) :
    ∃ r', r.recvData frag = .ok (d, r') ∧ RInv r' ∧ r'.unread = tail ∧ Acct r r' := by
  obtain ⟨r1, e1, i1, u1, ac1⟩ := recvBE_spec frag 4 d.size r hi (by simp [readBufSize]) (d ++ tail)
    (by rw [hu, ByteArray.append_assoc])
  have hmod : d.size % 256 ^ 4 = d.size := Nat.mod_eq_of_lt (by simpa using hd)
  obtain ⟨r2, e2, i2, u2, ac2⟩ := recvDataLoop_spec frag d 0 ByteArray.empty r1 i1 (Nat.zero_le _)
    (by simp) tail (by rw [u1, ByteArray.extract_zero_size])
  refine ⟨r2, ?_, i2, u2, ac1.trans ac2⟩
  unfold Recv.recvData
  rw [e1, hmod]
  exact e2

theorem recvSizesLoop_spec (frag : Frag) (l : List Nat) (hl : ∀ x ∈ l, x < 2 ^ 32) (r : Recv)
    (hi : RInv r) (tail : ByteArray) (hu : r.unread = encSizes l ++ tail) :
    ∃ r', r.recvSizesLoop frag l.length = .ok (l, r') ∧ RInv r' ∧ r'.unread = tail ∧ Acct r r' := by
  induction l generalizing r with
  | nil =>
    exact ⟨r, rfl, hi, by simpa [encSizes] using hu, Acct.refl r⟩
  | cons x xs ih =>
    obtain ⟨r1, e1, i1, u1, ac1⟩ := recvBE_spec frag 4 x r hi (by simp [readBufSize])
      (encSizes xs ++ tail) (by rw [hu, encSizes, ByteArray.append_assoc])
    have hmod : x % 256 ^ 4 = x := Nat.mod_eq_of_lt (by simpa using hl x (by simp))
    obtain ⟨r2, e2, i2, u2, ac2⟩ := ih (fun y hy => hl y (by simp [hy])) r1 i1 u1
    refine ⟨r2, ?_, i2, u2, ac1.trans ac2⟩
    simp only [List.length_cons, Recv.recvSizesLoop]
    rw [e1, hmod]
    simp only
    rw [e2]

theorem recvSizes_spec (frag : Frag) (l : List Nat) (hlen : l.length < 2 ^ 32)
    (hl : ∀ x ∈ l, x < 2 ^ 32) (r : Recv) (hi : RInv r)
    (tail : ByteArray) (hu : r.unread = (be 4 l.length ++ encSizes l) ++ tail) :
    ∃ r', r.recvSizes frag = .ok (l, r') ∧ RInv r' ∧ r'.unread = tail ∧ Acct r r' := by
  obtain ⟨r1, e1, i1, u1, ac1⟩ := recvBE_spec frag 4 l.length r hi (by simp [readBufSize])
    (encSizes l ++ tail) (by rw [hu, ByteArray.append_assoc])
  have hmod : l.length % 256 ^ 4 = l.length := Nat.mod_eq_of_lt (by simpa using hlen)
  obtain ⟨r2, e2, i2, u2, ac2⟩ := recvSizesLoop_spec frag l hl r1 i1 tail u1
  refine ⟨r2, ?_, i2, u2, ac1.trans ac2⟩
  unfold Recv.recvSizes
  rw [e1, hmod]
  exact e2

theorem recvVal_spec (frag : Frag) (v : Val) (hv : v.Valid) (r : Recv) (hi : RInv r)
    (tail : ByteArray) (hu : r.unread = v.encode ++ tail) :
    ∃ r', r.recvVal frag v.kind = .ok (v, r') ∧ RInv r' ∧ r'.unread = tail ∧ Acct r r' := by
  cases v with
  | byte b =>
    obtain ⟨r', e, i, u, a⟩ := recvByte_spec frag b r hi tail hu
    exact ⟨r', by simp [Recv.recvVal, Val.kind, e], i, u, a⟩
  | u16 n =>
    obtain ⟨r', e, i, u, a⟩ := recvBE_spec frag 2 n r hi (by simp [readBufSize]) tail hu
    have hmod : n % 256 ^ 2 = n := Nat.mod_eq_of_lt (by simpa [Val.Valid] using hv)
    exact ⟨r', by simp [Recv.recvVal, Val.kind, e, hmod], i, u, a⟩
  | u32 n =>
    obtain ⟨r', e, i, u, a⟩ := recvBE_spec frag 4 n r hi (by simp [readBufSize]) tail hu
    have hmod : n % 256 ^ 4 = n := Nat.mod_eq_of_lt (by simpa [Val.Valid] using hv)
    exact ⟨r', by simp [Recv.recvVal, Val.kind, e, hmod], i, u, a⟩
  | data d =>
    obtain ⟨r', e, i, u, a⟩ := recvData_spec frag d hv r hi tail hu
    exact ⟨r', by simp [Recv.recvVal, Val.kind, e], i, u, a⟩
  | str d =>
    obtain ⟨r', e, i, u, a⟩ := recvData_spec frag d hv r hi tail hu
    exact ⟨r', by simp [Recv.recvVal, Val.kind, e], i, u, a⟩
  | label n =>
    obtain ⟨r', e, i, u, a⟩ := recvBE_spec frag 16 n r hi (by simp [readBufSize]) tail hu
    have hmod : n % 256 ^ 16 = n := Nat.mod_eq_of_lt (by simpa [Val.Valid] using hv)
    exact ⟨r', by simp [Recv.recvVal, Val.kind, e, hmod], i, u, a⟩
  | sizes l =>
    obtain ⟨r', e, i, u, a⟩ := recvSizes_spec frag l hv.1 hv.2 r hi tail hu
    exact ⟨r', by simp [Recv.recvVal, Val.kind, e], i, u, a⟩

theorem recvAll_spec (frag : Frag) (vs : List Val) (hv : ∀ v ∈ vs, v.Valid) (r : Recv) (hi : RInv r)
    (tail : ByteArray) (hu : r.unread = encodeVals vs ++ tail) :
    ∃ r', r.recvAll frag (vs.map Val.kind) = (vs, r', none) ∧ RInv r' ∧ r'.unread = tail ∧ Acct r r' := by
  induction vs generalizing r with
  | nil => exact ⟨r, rfl, hi, by simpa [encodeVals] using hu, Acct.refl r⟩
  | cons v vs ih =>
    obtain ⟨r1, e1, i1, u1, a1⟩ := recvVal_spec frag v (hv v (by simp)) r hi (encodeVals vs ++ tail)
      (by rw [hu, encodeVals, ByteArray.append_assoc])
    obtain ⟨r2, e2, i2, u2, a2⟩ := ih (fun w hw => hv w (by simp [hw])) r1 i1 u1
    refine ⟨r2, ?_, i2, u2, a1.trans a2⟩
    simp only [List.map_cons, Recv.recvAll]
    rw [e1]
    simp only
    rw [e2]

theorem RInv_init (stream : ByteArray) : RInv (Recv.init stream) :=
  ⟨by simp [Recv.init], by simp [Recv.init], by simp [Recv.init]⟩

theorem unread_init (stream : ByteArray) : (Recv.init stream).unread = stream := by
  simp [Recv.init, Recv.unread, Recv.window, Recv.pending]

theorem encodeAll_eq_encodeVals (ops : List Op) : encodeAll ops = encodeVals (opsVals ops) := by
  induction ops with
  | nil => rfl
  | cons o os ih =>
    cases o <;> simp [encodeAll, opsVals, encodeVals, Op.encode, ih]

/-! ## Streams that end in the middle of a value -/

theorem fillLoop_eof (frag : Frag) (n : Nat) (r : Recv) (hi : RInv r) (hn : r.rs + n ≤ readBufSize)
    (hshort : r.unread.size < n) : r.fillLoop frag n = .error .eof := by
  fun_induction Recv.fillLoop frag n r with
  | case1 r h rem hr => rfl
  | case2 r h cap rem hr hc =>
    exfalso
    simp only [cap] at hc
    omega
  | case3 r h cap rem hr hc got ih =>
    have hgot : 1 ≤ got ∧ got ≤ cap ∧ got ≤ rem := by simp only [got]; omega
    have hpl := hi.pos_le
    have hbl := hi.buf_le
    have hrl := hi.rs_le
    have hsz : (r.pend.extract r.pos (r.pos + got)).size = got := by
      simp only [ByteArray.size_extract]; simp only [rem] at hgot; omega
    have hi' : RInv { r with buf := r.buf ++ r.pend.extract r.pos (r.pos + got),
                             pos := r.pos + got, nread := r.nread + 1,
                             recvd := r.recvd + got, rlog := mix64 r.rlog cap got } := by
      constructor
      · simp only [ByteArray.size_append]; omega
      · simp only [ByteArray.size_append, hsz]; simp only [cap] at hgot; omega
      · simp only [rem] at hgot; simp only; omega
    apply ih hi' hn
    rw [size_unread] at hshort ⊢
    simp only [ByteArray.size_append, hsz]
    simp only [rem] at hgot
    omega
  | case4 r h =>
    exfalso
    rw [size_unread] at hshort
    omega

theorem fill_eof (frag : Frag) (n : Nat) (r : Recv) (hi : RInv r) (hn : n ≤ readBufSize)
    (hshort : r.unread.size < n) : r.fill frag n = .error .eof := by
  unfold Recv.fill
  have hrl := hi.rs_le
  by_cases h : r.rs < r.buf.size
  · simp only [h, if_true]
    apply fillLoop_eof
    · exact ⟨Nat.zero_le _, by simp only [ByteArray.size_extract]; have := hi.buf_le; omega, hi.pos_le⟩
    · simpa using hn
    · rw [size_unread] at hshort ⊢
      simp only [ByteArray.size_extract]
      omega
  · simp only [h, if_false]
    apply fillLoop_eof
    · exact ⟨Nat.zero_le _, by simp, hi.pos_le⟩
    · simpa using hn
    · rw [size_unread] at hshort ⊢
      simp only [ByteArray.size_empty]
      omega

theorem ensure_eof (frag : Frag) (n : Nat) (r : Recv) (hi : RInv r) (hn : n ≤ readBufSize)
    (hshort : r.unread.size < n) : r.ensure frag n = .error .eof := by
  unfold Recv.ensure
  split
  · exact fill_eof frag n r hi hn hshort
  · exfalso
    rw [size_unread] at hshort
    omega

theorem recvBE_eof (frag : Frag) (k : Nat) (r : Recv) (hi : RInv r) (hk : k ≤ readBufSize)
    (hshort : r.unread.size < k) : r.recvBE frag k = .error .eof := by
  unfold Recv.recvBE
  rw [ensure_eof frag k r hi hk hshort]

theorem recvByte_eof (frag : Frag) (r : Recv) (hi : RInv r)
    (hshort : r.unread.size < 1) : r.recvByte frag = .error .eof := by
  unfold Recv.recvByte
  rw [ensure_eof frag 1 r hi (by simp [readBufSize]) hshort]

/-- `k` buffered-or-pending bytes are always received, whatever they are. -/
theorem recvBE_any (frag : Frag) (k : Nat) (r : Recv) (hi : RInv r) (hk : k ≤ readBufSize)
    (hav : k ≤ r.unread.size) :
    ∃ r', r.recvBE frag k = .ok (decodeBE (r.unread.extract 0 k), r') ∧ RInv r' ∧
      r'.unread = r.unread.extract k r.unread.size ∧ Acct r r' := by
  obtain ⟨r1, e1, i1, u1, av1, ac1⟩ := ensure_spec frag k r hi hk hav
  obtain ⟨t1, t2, t3, t4⟩ := take_spec k r1 i1 av1 (r.unread.extract 0 k)
    (r.unread.extract k r.unread.size) (by simp only [ByteArray.size_extract]; omega)
    (by rw [u1, ← extract_split r.unread 0 k r.unread.size (Nat.zero_le _) hav,
          ByteArray.extract_zero_size])
  refine ⟨(r1.take k).2, ?_, t2, t3, ac1.trans t4⟩
  unfold Recv.recvBE
  rw [e1]
  simp only
  rw [show r1.take k = ((r1.take k).1, (r1.take k).2) from rfl, t1]

theorem recvDataLoop_eof (frag : Frag) (len read : Nat) (acc : ByteArray) (r : Recv) (hi : RInv r)
    (hshort : r.unread.size < len - read) : r.recvDataLoop frag len read acc = .error .eof := by
  fun_induction Recv.recvDataLoop frag len read acc r with
  | case1 read acc r hlt e he =>
    split at he
    · by_cases hs : r.unread.size < min (len - read) readBufSize
      · rw [fill_eof frag _ r hi (Nat.min_le_right _ _) hs] at he
        cases he
        rfl
      · obtain ⟨r', e', _⟩ := fill_spec frag (min (len - read) readBufSize) r hi (Nat.min_le_right _ _)
          (by omega)
        rw [e'] at he
        cases he
    · cases he
  | case2 read acc r hlt r1 he avail ha =>
    exfalso
    split at he
    · by_cases hs : r.unread.size < min (len - read) readBufSize
      · rw [fill_eof frag _ r hi (Nat.min_le_right _ _) hs] at he
        cases he
      · obtain ⟨r', e', i', u', av', _⟩ := fill_spec frag (min (len - read) readBufSize) r hi
          (Nat.min_le_right _ _) (by omega)
        rw [e'] at he
        cases he
        simp only [avail, readBufSize] at ha av'
        omega
    · cases he
      simp only [avail] at ha
      omega
  | case3 read acc r hlt r1 he avail ha ih =>
    have h1 : RInv r1 ∧ r1.unread = r.unread := by
      split at he
      · by_cases hs : r.unread.size < min (len - read) readBufSize
        · rw [fill_eof frag _ r hi (Nat.min_le_right _ _) hs] at he
          cases he
        · obtain ⟨r', e', i', u', av', ac'⟩ := fill_spec frag (min (len - read) readBufSize) r hi
            (Nat.min_le_right _ _) (by omega)
          rw [e'] at he
          cases he
          exact ⟨i', u'⟩
      · cases he
        exact ⟨hi, rfl⟩
    obtain ⟨i1, u1⟩ := h1
    have hav : avail ≤ r1.buf.size - r1.rs ∧ avail ≤ len - read ∧ 0 < avail := by
      simp only [avail] at ha ⊢; omega
    have hrs := i1.rs_le
    apply ih ⟨by simp only; omega, i1.buf_le, i1.pos_le⟩
    have hsz := size_unread r1
    rw [u1] at hsz
    rw [size_unread]
    simp only
    omega
  | case4 read acc r hlt =>
    exfalso
    omega

theorem recvSizesLoop_eof (frag : Frag) (count : Nat) (r : Recv) (hi : RInv r)
    (hshort : r.unread.size < 4 * count) : r.recvSizesLoop frag count = .error .eof := by
  induction count generalizing r with
  | zero => omega
  | succ k ih =>
    simp only [Recv.recvSizesLoop]
    by_cases h4 : r.unread.size < 4
    · rw [recvBE_eof frag 4 r hi (by simp [readBufSize]) h4]
    · obtain ⟨r1, e1, i1, u1, _⟩ := recvBE_any frag 4 r hi (by simp [readBufSize]) (by omega)
      rw [e1]
      simp only
      rw [ih r1 i1 (by rw [u1]; simp only [ByteArray.size_extract]; omega)]

theorem size_encSizes (l : List Nat) : (encSizes l).size = 4 * l.length := by
  induction l with
  | nil => simp [encSizes]
  | cons x xs ih => simp only [encSizes, ByteArray.size_append, size_be, ih, List.length_cons]; omega

/-- the first `k` bytes of a proper prefix `p` (with `k ≤ |p|`) of `h ++ t`, `|h| = k`, are `h` -/
theorem prefix_head (p q h t : ByteArray) (hpq : p ++ q = h ++ t) (hk : h.size ≤ p.size) :
    p.extract 0 h.size = h := by
  have h1 : (p ++ q).extract 0 h.size = p.extract 0 h.size := extract_append_prefix p q 0 h.size hk
  rw [← h1, hpq]
  exact ByteArray.extract_append_eq_left rfl

theorem recvData_eof (frag : Frag) (d : ByteArray) (hd : d.size < 2 ^ 32) (r : Recv) (hi : RInv r)
    (p q : ByteArray) (hp : p.size < (be 4 d.size ++ d).size) (hpq : p ++ q = be 4 d.size ++ d)
    (hu : r.unread = p) : r.recvData frag = .error .eof := by
  unfold Recv.recvData
  simp only [ByteArray.size_append, size_be] at hp
  by_cases h4 : p.size < 4
  · rw [recvBE_eof frag 4 r hi (by simp [readBufSize]) (by rw [hu]; exact h4)]
  · obtain ⟨r1, e1, i1, u1, _⟩ := recvBE_any frag 4 r hi (by simp [readBufSize]) (by rw [hu]; omega)
    rw [e1]
    simp only
    have hh : p.extract 0 4 = be 4 d.size := by
      have := prefix_head p q (be 4 d.size) d hpq (by simp; omega)
      simpa using this
    rw [hu, hh, decodeBE_be, Nat.mod_eq_of_lt (by simpa using hd)]
    apply recvDataLoop_eof frag d.size 0 ByteArray.empty r1 i1
    rw [u1, hu]
    simp only [ByteArray.size_extract]
    omega

theorem recvSizes_eof (frag : Frag) (l : List Nat) (hl : l.length < 2 ^ 32) (r : Recv) (hi : RInv r)
    (p q : ByteArray) (hp : p.size < (be 4 l.length ++ encSizes l).size)
    (hpq : p ++ q = be 4 l.length ++ encSizes l)
    (hu : r.unread = p) : r.recvSizes frag = .error .eof := by
  unfold Recv.recvSizes
  simp only [ByteArray.size_append, size_be, size_encSizes] at hp
  by_cases h4 : p.size < 4
  · rw [recvBE_eof frag 4 r hi (by simp [readBufSize]) (by rw [hu]; exact h4)]
  · obtain ⟨r1, e1, i1, u1, _⟩ := recvBE_any frag 4 r hi (by simp [readBufSize]) (by rw [hu]; omega)
    rw [e1]
    simp only
    have hh : p.extract 0 4 = be 4 l.length := by
      have := prefix_head p q (be 4 l.length) (encSizes l) hpq (by simp; omega)
      simpa using this
    rw [hu, hh, decodeBE_be, Nat.mod_eq_of_lt (by simpa using hl)]
    apply recvSizesLoop_eof frag l.length r1 i1
    rw [u1, hu]
    simp only [ByteArray.size_extract]
    omega

/-- A stream that ends inside the encoding of a value: the typed receive of
that value fails with the transport's end-of-stream error. -/
theorem recvVal_eof (frag : Frag) (v : Val) (hv : v.Valid) (r : Recv) (hi : RInv r)
    (p q : ByteArray) (hp : p.size < v.encode.size) (hpq : p ++ q = v.encode)
    (hu : r.unread = p) : r.recvVal frag v.kind = .error .eof := by
  cases v with
  | byte b =>
    have : r.unread.size < 1 := by rw [hu]; simpa [Val.encode] using hp
    simp [Recv.recvVal, Val.kind, recvByte_eof frag r hi this]
  | u16 n =>
    have : r.unread.size < 2 := by rw [hu]; simpa [Val.encode] using hp
    simp [Recv.recvVal, Val.kind, recvBE_eof frag 2 r hi (by simp [readBufSize]) this]
  | u32 n =>
    have : r.unread.size < 4 := by rw [hu]; simpa [Val.encode] using hp
    simp [Recv.recvVal, Val.kind, recvBE_eof frag 4 r hi (by simp [readBufSize]) this]
  | data d =>
    simp [Recv.recvVal, Val.kind, recvData_eof frag d hv r hi p q hp hpq hu]
  | str d =>
    simp [Recv.recvVal, Val.kind, recvData_eof frag d hv r hi p q hp hpq hu]
  | label n =>
    have : r.unread.size < 16 := by rw [hu]; simpa [Val.encode] using hp
    simp [Recv.recvVal, Val.kind, recvBE_eof frag 16 r hi (by simp [readBufSize]) this]
  | sizes l =>
    simp [Recv.recvVal, Val.kind, recvSizes_eof frag l hv.1 r hi p q hp hpq hu]

/-- `recvAll_spec` with further receives following the matching ones. -/
theorem recvAll_spec_append (frag : Frag) (vs : List Val) (hv : ∀ v ∈ vs, v.Valid) (ks : List Kind)
    (r : Recv) (hi : RInv r) (tail : ByteArray) (hu : r.unread = encodeVals vs ++ tail) :
    ∃ r', RInv r' ∧ r'.unread = tail ∧ Acct r r' ∧
      r.recvAll frag (vs.map Val.kind ++ ks) =
        (vs ++ (r'.recvAll frag ks).1, (r'.recvAll frag ks).2.1, (r'.recvAll frag ks).2.2) := by
  induction vs generalizing r with
  | nil => exact ⟨r, hi, by simpa [encodeVals] using hu, Acct.refl r, by simp⟩
  | cons v vs ih =>
    obtain ⟨r1, e1, i1, u1, a1⟩ := recvVal_spec frag v (hv v (by simp)) r hi (encodeVals vs ++ tail)
      (by rw [hu, encodeVals, ByteArray.append_assoc])
    obtain ⟨r2, i2, u2, a2, e2⟩ := ih (fun w hw => hv w (by simp [hw])) r1 i1 u1
    refine ⟨r2, i2, u2, a1.trans a2, ?_⟩
    simp only [List.map_cons, List.cons_append, Recv.recvAll]
    rw [e1]
    simp only
    rw [e2]

/-! ## Send half with transport faults -/

/-- `a` is a prefix of `b` -/
def IsPrefix (a b : ByteArray) : Prop := ∃ rem, a ++ rem = b

theorem IsPrefix.refl (a : ByteArray) : IsPrefix a a := ⟨ByteArray.empty, by simp⟩

theorem IsPrefix.trans {a b c : ByteArray} (h1 : IsPrefix a b) (h2 : IsPrefix b c) : IsPrefix a c := by
  obtain ⟨r1, e1⟩ := h1
  obtain ⟨r2, e2⟩ := h2
  exact ⟨r1 ++ r2, by rw [← ByteArray.append_assoc, e1, e2]⟩

theorem IsPrefix.append (a b : ByteArray) : IsPrefix a (a ++ b) := ⟨b, rfl⟩

theorem extract_cut (h : ByteArray) (k : Nat) : h.extract 0 k ++ h.extract k h.size = h := by
  rw [ByteArray.extract_append_extract]
  have : min 0 k = 0 := by omega
  rw [this, extract_all h (max k h.size) (by omega)]

/-- What the writer goroutine has been given so far, as one byte string. -/
def FSender.given (s : FSender) : ByteArray := joinB (s.handed ++ s.queue)

/-- Facts about the writer side that every writer iteration preserves. -/
structure FCore (fault : Fault) (s : FSender) : Prop where
  clean : s.werr = false → s.wire = s.handed ∧ ∀ i, i < s.handed.length → fault i = none
  dirty : s.werr = true → ∃ i, fault i ≠ none
  wpre : IsPrefix (joinB s.wire) (joinB s.handed)

theorem FCore_init (fault : Fault) : FCore fault FSender.init :=
  ⟨fun _ => ⟨rfl, fun i hi => by simp [FSender.init] at hi⟩, fun h => by simp [FSender.init] at h,
   IsPrefix.refl _⟩

theorem writerStep_spec (fault : Fault) (s : FSender) (hc : FCore fault s) :
    FCore fault (s.writerStep fault) ∧ (s.writerStep fault).given = s.given ∧
    (s.writerStep fault).cur = s.cur ∧ (s.writerStep fault).sent = s.sent ∧
    (s.writerStep fault).flushed = s.flushed ∧ (s.werr = true → (s.writerStep fault).werr = true) ∧
    (s.writerStep fault).queue.length = s.queue.length - 1 ∧
    (s.werr = true → (s.writerStep fault).wire = s.wire) := by
  unfold FSender.writerStep
  cases hq : s.queue with
  | nil =>
    simp only
    exact ⟨hc, (by first | rfl | trivial), (by first | rfl | trivial), (by first | rfl | trivial),
      (by first | rfl | trivial), fun h => h, by simp [hq], fun _ => (by first | rfl | trivial)⟩
  | cons h t =>
    simp only
    cases hw : s.werr with
    | true =>
      -- the buffer is taken and returned, nothing is written
      simp only [if_true]
      refine ⟨⟨?_, ?_, ?_⟩, ?_, (by first | rfl | trivial), (by first | rfl | trivial),
        (by first | rfl | trivial), fun _ => (by first | rfl | trivial), by simp, fun _ => (by first | rfl | trivial)⟩
      · intro hf; simp at hf
      · intro _; exact hc.dirty hw
      · obtain ⟨rem, er⟩ := hc.wpre
        refine ⟨rem ++ h, ?_⟩
        show joinB s.wire ++ (rem ++ h) = joinB (s.handed ++ [h])
        rw [joinB_append, joinB_singleton, ← ByteArray.append_assoc, er]
      · simp [FSender.given, hq, List.append_assoc]
    | false =>
      simp only [Bool.false_eq_true, if_false]
      obtain ⟨e, hn⟩ := hc.clean hw
      have hidx : s.wire.length = s.handed.length := by rw [e]
      cases hf : fault s.wire.length with
      | none =>
        simp only
        refine ⟨⟨?_, ?_, ?_⟩, ?_, (by first | rfl | trivial), (by first | rfl | trivial),
          (by first | rfl | trivial), fun h' => (by simp at h'), by simp,
          fun h' => (by simp at h')⟩
        · intro _
          refine ⟨by show s.wire ++ [h] = s.handed ++ [h]; rw [e], ?_⟩
          intro i hi
          simp only [List.length_append, List.length_singleton] at hi
          by_cases h' : i < s.handed.length
          · exact hn i h'
          · have : i = s.wire.length := by omega
            rw [this, hf]
        · intro h'; simp at h'
        · show IsPrefix (joinB (s.wire ++ [h])) (joinB (s.handed ++ [h]))
          rw [e]; exact IsPrefix.refl _
        · simp [FSender.given, hq, List.append_assoc]
      | some k =>
        simp only
        refine ⟨⟨?_, ?_, ?_⟩, ?_, (by first | rfl | trivial), (by first | rfl | trivial),
          (by first | rfl | trivial), fun _ => (by first | rfl | trivial), by simp,
          fun h' => (by simp at h')⟩
        · intro h'; cases h'
        · intro _; exact ⟨s.wire.length, by rw [hf]; simp⟩
        · refine ⟨h.extract k h.size, ?_⟩
          show joinB (s.wire ++ [h.extract 0 k]) ++ h.extract k h.size = joinB (s.handed ++ [h])
          rw [e, joinB_append, joinB_append, joinB_singleton, joinB_singleton,
            ByteArray.append_assoc, extract_cut]
        · simp [FSender.given, hq, List.append_assoc]

theorem writerSteps_spec' (fault : Fault) (m : Nat) (s : FSender) (hc : FCore fault s) :
    FCore fault (s.writerSteps fault m) ∧ (s.writerSteps fault m).given = s.given ∧
    (s.writerSteps fault m).cur = s.cur ∧ (s.writerSteps fault m).sent = s.sent ∧
    (s.writerSteps fault m).flushed = s.flushed ∧
    (s.werr = true → (s.writerSteps fault m).werr = true) ∧
    (s.writerSteps fault m).queue.length = s.queue.length - m := by
  induction m generalizing s with
  | zero => exact ⟨hc, rfl, rfl, rfl, rfl, fun h => h, rfl⟩
  | succ m ih =>
    obtain ⟨c1, g1, u1, s1, f1, w1, q1, _⟩ := writerStep_spec fault s hc
    obtain ⟨c2, g2, u2, s2, f2, w2, q2⟩ := ih _ c1
    simp only [FSender.writerSteps]
    exact ⟨c2, by rw [g2, g1], by rw [u2, u1], by rw [s2, s1], by rw [f2, f1],
      fun h => w2 (w1 h), by rw [q2, q1]; omega⟩

/-- Invariant while no API call has reported an error: everything accepted so
far is `A`. -/
structure FInv (fault : Fault) (s : FSender) (A : ByteArray) : Prop where
  core : FCore fault s
  acc : s.given ++ s.cur = A
  cur_le : s.cur.size ≤ writeBufSize
  sent_eq : s.sent = s.given.size

/-- After an API call has reported an error: the writer error flag is set (for
ever) and the wire is a prefix of `B`. -/
structure FDead (fault : Fault) (s : FSender) (B : ByteArray) : Prop where
  core : FCore fault s
  werr : s.werr = true
  pre : IsPrefix (joinB s.wire) B

theorem FDead.mono {fault : Fault} {s : FSender} {B B' : ByteArray} (h : FDead fault s B)
    (hp : IsPrefix B B') : FDead fault s B' :=
  ⟨h.core, h.werr, h.pre.trans hp⟩

theorem FInv_init (fault : Fault) : FInv fault FSender.init ByteArray.empty :=
  ⟨FCore_init fault, by simp [FSender.init, FSender.given, joinB], by simp [FSender.init],
   by simp [FSender.init, FSender.given, joinB]⟩

theorem FDead_writerStep (fault : Fault) (s : FSender) (B : ByteArray)
    (h : FDead fault s B) : FDead fault (s.writerStep fault) B := by
  obtain ⟨c1, _, _, _, _, w1, _, fr⟩ := writerStep_spec fault s h.core
  -- after a failed write nothing is written any more
  exact ⟨c1, w1 h.werr, by rw [fr h.werr]; exact h.pre⟩

theorem FDead_writerSteps (fault : Fault) (m : Nat) (s : FSender) (B : ByteArray)
    (h : FDead fault s B) : FDead fault (s.writerSteps fault m) B := by
  induction m generalizing s with
  | zero => exact h
  | succ m ih => exact ih _ (FDead_writerStep fault s B h)

theorem FInv_writerSteps (fault : Fault) (m : Nat) (s : FSender) (A : ByteArray)
    (h : FInv fault s A) : FInv fault (s.writerSteps fault m) A := by
  obtain ⟨c, g, u, st, _, _, _⟩ := writerSteps_spec' fault m s h.core
  exact ⟨c, by rw [g, u]; exact h.acc, by rw [u]; exact h.cur_le, by rw [st, g]; exact h.sent_eq⟩

theorem handOver_spec (fault : Fault) (s : FSender) (A : ByteArray) (h : FInv fault s A) :
    FCore fault s.handOver ∧ s.handOver.given = A ∧ s.handOver.sent = A.size ∧
    s.handOver.cur = s.cur := by
  refine ⟨⟨h.core.clean, h.core.dirty, h.core.wpre⟩, ?_, ?_, rfl⟩
  · simp only [FSender.handOver, FSender.given]
    rw [← List.append_assoc, joinB_append, joinB_singleton]
    exact h.acc
  · simp only [FSender.handOver]
    rw [h.sent_eq, ← h.acc, ByteArray.size_append]

theorem FCore.congr {fault : Fault} {s s' : FSender} (h : FCore fault s)
    (e1 : s'.handed = s.handed) (e2 : s'.wire = s.wire) (e3 : s'.werr = s.werr) : FCore fault s' :=
  ⟨by rw [e1, e2, e3]; exact h.clean, by rw [e3]; exact h.dirty, by rw [e1, e2]; exact h.wpre⟩

theorem takeNext_spec (s : FSender) :
    s.takeNext.1.handed = s.handed ∧ s.takeNext.1.wire = s.wire ∧ s.takeNext.1.werr = s.werr ∧
    s.takeNext.1.queue = s.queue ∧ s.takeNext.1.sent = s.sent ∧ s.takeNext.2 = !s.werr ∧
    (s.werr = false → s.takeNext.1.cur = ByteArray.empty) := by
  unfold FSender.takeNext
  cases s.werr <;> simp

/-- `Flush`: success keeps the invariant, failure leaves a dead state whose
wire is a prefix of what had been accepted. -/
theorem flush_fspec (fault : Fault) (k : Nat) (s : FSender) (A : ByteArray) (h : FInv fault s A) :
    ((s.flush fault k).2 = true → FInv fault (s.flush fault k).1 A ∧
        ((s.flush fault k).1.cur.size = 0)) ∧
    ((s.flush fault k).2 = false → FDead fault (s.flush fault k).1 A) := by
  unfold FSender.flush
  by_cases h0 : s.cur.size = 0
  · rw [if_pos h0]
    exact ⟨fun _ => ⟨h, h0⟩, fun hf => (by cases hf)⟩
  · rw [if_neg h0]
    obtain ⟨hc1, hg1, hs1, _⟩ := handOver_spec fault s A h
    generalize max k (if s.handOver.free = 0 then 1 else 0) = K
    obtain ⟨c2, g2, u2, st2, f2, w2, _⟩ := writerSteps_spec' fault K s.handOver hc1
    generalize s.handOver.writerSteps fault K = s2 at *
    obtain ⟨t1, t2, t3, t4, t5, t6, t7⟩ := takeNext_spec s2
    have hc3 : FCore fault s2.takeNext.1 := c2.congr t1 t2 t3
    have hg : s2.given = A := by rw [g2, hg1]
    have hg3 : s2.takeNext.1.given = A := by
      rw [← hg]; simp only [FSender.given, t1, t4]
    constructor
    · intro hok
      rw [t6] at hok
      have hw : s2.werr = false := by cases hw : s2.werr <;> simp [hw] at hok ⊢
      have hcur := t7 hw
      refine ⟨⟨hc3, ?_, ?_, ?_⟩, ?_⟩
      · rw [hg3, hcur]; simp
      · rw [hcur]; simp
      · rw [t5, hg3, st2, hs1]
      · rw [hcur]; simp
    · intro hbad
      rw [t6] at hbad
      have hw : s2.werr = true := by cases hw : s2.werr <;> simp [hw] at hbad ⊢
      refine ⟨hc3, by rw [t3]; exact hw, ?_⟩
      obtain ⟨rem, er⟩ := hc3.wpre
      refine ⟨rem ++ joinB s2.takeNext.1.queue, ?_⟩
      rw [← ByteArray.append_assoc, er, ← joinB_append]
      exact hg3

theorem flush_dead (fault : Fault) (k : Nat) (s : FSender) (B : ByteArray) (h : FDead fault s B) :
    FDead fault (s.flush fault k).1 B ∧ (s.cur.size ≠ 0 → (s.flush fault k).2 = false) := by
  unfold FSender.flush
  by_cases h0 : s.cur.size = 0
  · rw [if_pos h0]
    exact ⟨h, fun hne => absurd h0 hne⟩
  · rw [if_neg h0]
    have hd1 : FDead fault s.handOver B :=
      ⟨⟨h.core.clean, h.core.dirty, h.core.wpre⟩, h.werr, h.pre⟩
    generalize max k (if s.handOver.free = 0 then 1 else 0) = K
    have hd2 := FDead_writerSteps fault K s.handOver B hd1
    generalize s.handOver.writerSteps fault K = s2 at *
    obtain ⟨t1, t2, t3, t4, t5, t6, t7⟩ := takeNext_spec s2
    refine ⟨⟨hd2.core.congr t1 t2 t3, by rw [t3]; exact hd2.werr, ?_⟩, fun _ => ?_⟩
    · rw [t2]; exact hd2.pre
    · rw [t6, hd2.werr]; rfl

/-- Outcome of an API call that should leave `A` accepted. -/
def FOut (fault : Fault) (res : FSender × Bool) (A : ByteArray) : Prop :=
  (res.2 = true → FInv fault res.1 A) ∧ (res.2 = false → FDead fault res.1 A)

theorem FOut.mono {fault : Fault} {res : FSender × Bool} {A A' : ByteArray}
    (h : res.2 = true → FInv fault res.1 A') (hd : res.2 = false → FDead fault res.1 A)
    (hp : IsPrefix A A') : FOut fault res A' :=
  ⟨h, fun hf => (hd hf).mono hp⟩

theorem FInv.toDead {fault : Fault} {s : FSender} {A : ByteArray} (h : FInv fault s A)
    (hw : s.werr = true) : FDead fault s A := by
  refine ⟨h.core, hw, ?_⟩
  obtain ⟨rem, er⟩ := h.core.wpre
  refine ⟨rem ++ (joinB s.queue ++ s.cur), ?_⟩
  rw [← ByteArray.append_assoc, er, ← ByteArray.append_assoc, ← joinB_append]
  exact h.acc

theorem flushS_out (fault : Fault) (sch : Sched) (s : FSender) (A : ByteArray) (h : FInv fault s A) :
    FOut fault (s.flushS fault sch) A ∧
    ((s.flushS fault sch).2 = true → (s.flushS fault sch).1.cur.size = 0) := by
  obtain ⟨h1, h2⟩ := flush_fspec fault (sch s.flushed) s A h
  exact ⟨⟨fun hok => (h1 hok).1, h2⟩, fun hok => (h1 hok).2⟩

theorem reserve_out (fault : Fault) (sch : Sched) (n : Nat) (s : FSender) (A : ByteArray)
    (h : FInv fault s A) :
    FOut fault (s.reserve fault sch n) A ∧
    ((s.reserve fault sch n).2 = true → n ≤ writeBufSize →
      (s.reserve fault sch n).1.cur.size + n ≤ writeBufSize) := by
  unfold FSender.reserve
  split
  · obtain ⟨h1, h2⟩ := flushS_out fault sch s A h
    exact ⟨h1, fun hok hn => by rw [h2 hok]; omega⟩
  · exact ⟨⟨fun _ => h, fun hf => (by cases hf)⟩, fun _ _ => by simp only; omega⟩

theorem put_finv (fault : Fault) (b : ByteArray) (s : FSender) (A : ByteArray) (h : FInv fault s A)
    (hb : s.cur.size + b.size ≤ writeBufSize) : FInv fault (s.put b) (A ++ b) := by
  refine ⟨⟨h.core.clean, h.core.dirty, h.core.wpre⟩, ?_, ?_, h.sent_eq⟩
  · show s.given ++ (s.cur ++ b) = A ++ b
    rw [← ByteArray.append_assoc, h.acc]
  · show (s.cur ++ b).size ≤ writeBufSize
    rw [ByteArray.size_append]; exact hb

theorem sendBytes_out (fault : Fault) (sch : Sched) (b : ByteArray) (hb : b.size ≤ writeBufSize)
    (s : FSender) (A : ByteArray) (h : FInv fault s A) :
    FOut fault (s.sendBytes fault sch b) (A ++ b) := by
  obtain ⟨⟨r1, r2⟩, r3⟩ := reserve_out fault sch b.size s A h
  unfold FSender.sendBytes
  generalize s.reserve fault sch b.size = res at *
  obtain ⟨s1, ok⟩ := res
  cases ok with
  | false => exact ⟨fun hf => (by cases hf), fun _ => (r2 rfl).mono (IsPrefix.append A b)⟩
  | true => exact ⟨fun _ => put_finv fault b s1 A (r1 rfl) (r3 rfl hb), fun hf => by cases hf⟩

theorem sendDataLoop_out (fault : Fault) (sch : Sched) (val : ByteArray) (off : Nat) (s : FSender)
    (A : ByteArray) (h : FInv fault s A) (hoff : off ≤ val.size) :
    FOut fault (s.sendDataLoop fault sch val off) (A ++ val.extract off val.size) := by
  fun_induction FSender.sendDataLoop fault sch val off s generalizing A with
  | case1 off s hlt s1 he =>
    -- the conditional flush failed
    split at he
    · obtain ⟨⟨_, f2⟩, _⟩ := flushS_out fault sch s A h
      rw [he] at f2
      exact ⟨fun hf => (by cases hf), fun _ => (f2 rfl).mono (IsPrefix.append _ _)⟩
    · cases he
  | case2 off s hlt s1 he n hn =>
    -- unreachable: room after a successful conditional flush
    exfalso
    have : s1.cur.size < writeBufSize := by
      split at he
      · obtain ⟨_, f3⟩ := flushS_out fault sch s A h
        rw [he] at f3
        have := f3 rfl
        simp only at this
        rw [this]; simp [writeBufSize]
      · cases he; omega
    simp only [n] at hn
    omega
  | case3 off s hlt s1 he n hn ih =>
    have h1 : FInv fault s1 A := by
      split at he
      · obtain ⟨⟨f1, _⟩, _⟩ := flushS_out fault sch s A h
        rw [he] at f1
        exact f1 rfl
      · cases he; exact h
    have hsz : (val.extract off (off + n)).size = n := by
      simp only [ByteArray.size_extract]; simp only [n]; omega
    have hput := put_finv fault (val.extract off (off + n)) s1 A h1
      (by rw [hsz]; have := h1.cur_le; simp only [n]; omega)
    have := ih _ hput (by simp only [n]; omega)
    rw [ByteArray.append_assoc, ← extract_split val off (off + n) val.size (by omega)
      (by simp only [n]; omega)] at this
    exact this
  | case4 off s hlt =>
    have : val.extract off val.size = ByteArray.empty := by
      rw [ByteArray.extract_eq_empty_iff]; omega
    rw [this, ByteArray.append_empty]
    exact ⟨fun _ => h, fun hf => by cases hf⟩

theorem sendData_out (fault : Fault) (sch : Sched) (d : ByteArray) (s : FSender) (A : ByteArray)
    (h : FInv fault s A) : FOut fault (s.sendData fault sch d) (A ++ (be 4 d.size ++ d)) := by
  obtain ⟨b1, b2⟩ := sendBytes_out fault sch (be 4 d.size) (by simp [writeBufSize]) s A h
  unfold FSender.sendData
  generalize s.sendBytes fault sch (be 4 d.size) = res at *
  obtain ⟨s1, ok⟩ := res
  cases ok with
  | false =>
    exact ⟨fun hf => (by cases hf), fun _ => (b2 rfl).mono
      ⟨d, by rw [ByteArray.append_assoc]⟩⟩
  | true =>
    have := sendDataLoop_out fault sch d 0 s1 _ (b1 rfl) (Nat.zero_le _)
    rw [ByteArray.extract_zero_size, ByteArray.append_assoc] at this
    exact this

theorem sendSizesLoop_out (fault : Fault) (sch : Sched) (l : List Nat) (s : FSender) (A : ByteArray)
    (h : FInv fault s A) : FOut fault (s.sendSizesLoop fault sch l) (A ++ encSizes l) := by
  induction l generalizing s A with
  | nil => simp only [FSender.sendSizesLoop, encSizes, ByteArray.append_empty]
           exact ⟨fun _ => h, fun hf => by cases hf⟩
  | cons x xs ih =>
    obtain ⟨b1, b2⟩ := sendBytes_out fault sch (be 4 x) (by simp [writeBufSize]) s A h
    simp only [FSender.sendSizesLoop, encSizes]
    generalize s.sendBytes fault sch (be 4 x) = res at *
    obtain ⟨s1, ok⟩ := res
    cases ok with
    | false =>
      exact ⟨fun hf => (by cases hf), fun _ => (b2 rfl).mono
        ⟨encSizes xs, by rw [ByteArray.append_assoc]⟩⟩
    | true =>
      have := ih s1 _ (b1 rfl)
      rw [ByteArray.append_assoc] at this
      exact this

theorem sendVal_out (fault : Fault) (sch : Sched) (v : Val) (s : FSender) (A : ByteArray)
    (h : FInv fault s A) : FOut fault (s.sendVal fault sch v) (A ++ v.encode) := by
  cases v with
  | byte b =>
    simp only [FSender.sendVal, Val.encode]
    exact sendBytes_out fault sch _ (by simp [writeBufSize]) s A h
  | u16 n =>
    simp only [FSender.sendVal, Val.encode]
    exact sendBytes_out fault sch _ (by simp [writeBufSize]) s A h
  | u32 n =>
    simp only [FSender.sendVal, Val.encode]
    exact sendBytes_out fault sch _ (by simp [writeBufSize]) s A h
  | data d =>
    simp only [FSender.sendVal, Val.encode]
    exact sendData_out fault sch d s A h
  | str d =>
    simp only [FSender.sendVal, Val.encode]
    exact sendData_out fault sch d s A h
  | label n =>
    simp only [FSender.sendVal, Val.encode]
    exact sendBytes_out fault sch _ (by simp [writeBufSize]) s A h
  | sizes l =>
    obtain ⟨b1, b2⟩ := sendBytes_out fault sch (be 4 l.length) (by simp [writeBufSize]) s A h
    simp only [FSender.sendVal, Val.encode]
    generalize s.sendBytes fault sch (be 4 l.length) = res at *
    obtain ⟨s1, ok⟩ := res
    cases ok with
    | false =>
      exact ⟨fun hf => (by cases hf), fun _ => (b2 rfl).mono
        ⟨encSizes l, by rw [ByteArray.append_assoc]⟩⟩
    | true =>
      have := sendSizesLoop_out fault sch l s1 _ (b1 rfl)
      rw [ByteArray.append_assoc] at this
      exact this

theorem step_out (fault : Fault) (sch : Sched) (o : Op) (s : FSender) (A : ByteArray)
    (h : FInv fault s A) : FOut fault (s.step fault sch o) (A ++ o.encode) := by
  cases o with
  | send v => exact sendVal_out fault sch v s A h
  | flush =>
    simp only [FSender.step, Op.encode, ByteArray.append_empty]
    exact (flushS_out fault sch s A h).1
  | needSpace n =>
    simp only [FSender.step, Op.encode, ByteArray.append_empty]
    exact (reserve_out fault sch n s A h).1

theorem run_out (fault : Fault) (sch : Sched) (ops : List Op) (s : FSender) (A : ByteArray)
    (h : FInv fault s A) :
    ((s.run fault sch ops).2.2 = true → FInv fault (s.run fault sch ops).1 (A ++ encodeAll ops)) ∧
    ((s.run fault sch ops).2.2 = false → FDead fault (s.run fault sch ops).1 (A ++ encodeAll ops)) := by
  induction ops generalizing s A with
  | nil => simp only [FSender.run, encodeAll, ByteArray.append_empty]
           exact ⟨fun _ => h, fun hf => by cases hf⟩
  | cons o os ih =>
    obtain ⟨o1, o2⟩ := step_out fault sch o s A h
    simp only [FSender.run, encodeAll]
    generalize s.step fault sch o = res at *
    obtain ⟨s1, ok⟩ := res
    cases ok with
    | false =>
      simp only
      exact ⟨fun hf => (by cases hf), fun _ => (o2 rfl).mono
        ⟨encodeAll os, by rw [ByteArray.append_assoc]⟩⟩
    | true =>
      simp only
      have := ih s1 _ (o1 rfl)
      rw [ByteArray.append_assoc] at this
      exact this

theorem close_finv (fault : Fault) (sch : Sched) (s : FSender) (T : ByteArray) (h : FInv fault s T) :
    ((s.close fault sch).2 = true → FInv fault (s.close fault sch).1 T ∧
        joinB (s.close fault sch).1.wire = T ∧ (s.close fault sch).1.queue = [] ∧
        (s.close fault sch).1.werr = false ∧ (s.close fault sch).1.sent = T.size) ∧
    ((s.close fault sch).2 = false → FDead fault (s.close fault sch).1 T) := by
  obtain ⟨⟨f1, f2⟩, f3⟩ := flushS_out fault sch s T h
  unfold FSender.close
  generalize s.flushS fault sch = res at *
  obtain ⟨s1, ok⟩ := res
  cases ok with
  | false => exact ⟨fun hf => (by cases hf), fun _ => f2 rfl⟩
  | true =>
    simp only
    have hi1 := f1 rfl
    have hcur := f3 rfl
    simp only at hcur
    have hi2 := FInv_writerSteps fault s1.queue.length s1 T hi1
    obtain ⟨_, _, u, _, _, _, q⟩ := writerSteps_spec' fault s1.queue.length s1 hi1.core
    generalize s1.writerSteps fault s1.queue.length = s2 at *
    have hq : s2.queue = [] := List.eq_nil_of_length_eq_zero (by omega)
    constructor
    · intro hok
      have hw : s2.werr = false := by cases hw : s2.werr <;> simp [hw] at hok ⊢
      obtain ⟨e, _⟩ := hi2.core.clean hw
      have hc : s2.cur = ByteArray.empty := by
        apply ByteArray.size_eq_zero_iff.mp
        rw [u]; exact hcur
      have hacc := hi2.acc
      simp only [FSender.given, hq, List.append_nil, hc, ByteArray.append_empty] at hacc
      refine ⟨hi2, by rw [e]; exact hacc, hq, hw, ?_⟩
      rw [hi2.sent_eq]
      simp only [FSender.given, hq, List.append_nil]
      rw [hacc]
    · intro hbad
      have hw : s2.werr = true := by cases hw : s2.werr <;> simp [hw] at hbad ⊢
      exact hi2.toDead hw

theorem close_dead (fault : Fault) (sch : Sched) (s : FSender) (B : ByteArray) (h : FDead fault s B) :
    (s.close fault sch).2 = false ∧ FDead fault (s.close fault sch).1 B := by
  obtain ⟨d1, _⟩ := flush_dead fault (sch s.flushed) s B h
  unfold FSender.close
  have : s.flushS fault sch = s.flush fault (sch s.flushed) := rfl
  rw [this]
  generalize s.flush fault (sch s.flushed) = res at *
  obtain ⟨s1, ok⟩ := res
  cases ok with
  | false => exact ⟨rfl, d1⟩
  | true =>
    simp only
    have d2 := FDead_writerSteps fault s1.queue.length s1 B d1
    exact ⟨by rw [d2.werr]; rfl, d2⟩

theorem close_reports (fault : Fault) (sch : Sched) (s : FSender) :
    (s.close fault sch).1.werr = true → (s.close fault sch).2 = false := by
  unfold FSender.close
  generalize s.flushS fault sch = res
  obtain ⟨s1, ok⟩ := res
  cases ok with
  | false => intro _; rfl
  | true => simp only; intro hw; rw [hw]; rfl

theorem FInv.wire_prefix {fault : Fault} {s : FSender} {T : ByteArray} (h : FInv fault s T) :
    IsPrefix (joinB s.wire) T := by
  obtain ⟨rem, er⟩ := h.core.wpre
  refine ⟨rem ++ (joinB s.queue ++ s.cur), ?_⟩
  rw [← ByteArray.append_assoc, er, ← ByteArray.append_assoc, ← joinB_append]
  exact h.acc

end Mpc.Conn

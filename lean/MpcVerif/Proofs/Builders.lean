/-
Helper lemmas for property C07: Hoare-style reasoning about the builder
monad of Model/Builders.lean.

* `WF s inp`   – the state's cached constant wires hold their values;
* `Ext s s'`   – `s'` extends `s`: more gates, every old wire keeps its value;
* `Spec inp s m Q` – running `m` from `s` extends `s` and establishes `Q`.
-/
import MpcVerif.Model.Builders
import MpcVerif.Proofs.BuildersBits

namespace Mpc.Bld
open Mpc

/-! ### evaluation -/

theorem evalGates_size (gs : List Gate) (v : Array Bool) : (evalGates gs v).size = v.size + gs.length := by
  induction gs generalizing v with
  | nil => simp [evalGates]
  | cons g gs ih =>
    simp only [evalGates, List.foldl_cons] at ih ⊢
    rw [ih]; simp [step]; omega

theorem evalGates_snoc (gs : List Gate) (g : Gate) (v : Array Bool) :
    evalGates (gs ++ [g]) v = step (evalGates gs v) g := by
  simp [evalGates, List.foldl_append]

theorem vals_size (s : St) (inp : List Bool) (h : inp.length = s.nIn) : (s.vals inp).size = s.next := by
  simp [St.vals, evalGates_size, St.next, h]

/-- State after emitting one gate. -/
def St.snoc (s : St) (g : Gate) : St := { s with gates := s.gates.push g }

@[simp] theorem snoc_nIn (s : St) (g : Gate) : (s.snoc g).nIn = s.nIn := rfl
@[simp] theorem snoc_next (s : St) (g : Gate) : (s.snoc g).next = s.next + 1 := by
  simp [St.snoc, St.next]; omega
@[simp] theorem snoc_inv0 (s : St) (g : Gate) : (s.snoc g).inv0 = s.inv0 := rfl
@[simp] theorem snoc_zero (s : St) (g : Gate) : (s.snoc g).zero = s.zero := rfl
@[simp] theorem snoc_one (s : St) (g : Gate) : (s.snoc g).one = s.one := rfl

theorem vals_snoc (s : St) (g : Gate) (inp : List Bool) :
    (s.snoc g).vals inp = step (s.vals inp) g := by
  simp [St.vals, St.snoc, evalGates_snoc]

theorem val_snoc_lt (s : St) (g : Gate) (inp : List Bool) (h : inp.length = s.nIn) (w : Nat)
    (hw : w < s.next) : (s.snoc g).val inp w = s.val inp w := by
  have hs := vals_size s inp h
  simp only [St.val, vals_snoc, step]
  simp [Array.getD, Array.getElem_push, hs, hw]
  intro h'; omega

theorem val_snoc_eq (s : St) (g : Gate) (inp : List Bool) (h : inp.length = s.nIn) :
    (s.snoc g).val inp s.next = g.op.eval (s.val inp g.in0) (s.val inp g.in1) := by
  have hs := vals_size s inp h
  simp only [St.val, vals_snoc, step]
  simp [Array.getD, Array.getElem_push, hs]

theorem gate_run (op : Op) (a b : Nat) (s : St) : gate op a b s = (s.next, s.snoc ⟨op, a, b, s.next⟩) := rfl

theorem val_input (s : St) (inp : List Bool) (w : Nat) (hw : w < inp.length) :
    s.val inp w = inp.getD w false := by
  have : ∀ (gs : List Gate) (v : Array Bool), w < v.size → (evalGates gs v).getD w false = v.getD w false := by
    intro gs
    induction gs with
    | nil => intro v _; rfl
    | cons g gs ih =>
      intro v hv
      simp only [evalGates, List.foldl_cons] at ih ⊢
      rw [ih (step v g) (by simp [step]; omega)]
      simp [step, Array.getD, Array.getElem_push, hv]
      intro h'; omega
  simp only [St.val, St.vals]
  rw [this _ _ (by simpa using hw)]
  simp [Array.getD, List.getD, hw]

/-! ### invariants -/

/-- Wire `w` exists in `s` and carries value `b` on input `inp`. -/
def Holds (s : St) (inp : List Bool) (w : Nat) (b : Bool) : Prop := w < s.next ∧ s.val inp w = b

/-- Well-formed state: the input has the declared length, there is an input
wire 0 (the constant wires are derived from it) and the cached constant wires
carry their values. -/
structure WF (s : St) (inp : List Bool) : Prop where
  len  : inp.length = s.nIn
  pos  : 0 < s.nIn
  inv0 : ∀ w, s.inv0 = some w → Holds s inp w (!(inp.getD 0 false))
  zero : ∀ w, s.zero = some w → Holds s inp w false
  one  : ∀ w, s.one = some w → Holds s inp w true
  /-- straight line: gate `k` drives wire `nIn + k` -/
  sl   : ∀ k (h : k < s.gates.size), (s.gates[k]).out = s.nIn + k

/-- `s'` extends `s`. -/
structure Ext (s s' : St) (inp : List Bool) : Prop where
  wf   : WF s' inp
  next : s.next ≤ s'.next
  val  : ∀ w, w < s.next → s'.val inp w = s.val inp w

theorem Ext.refl {s : St} {inp : List Bool} (h : WF s inp) : Ext s s inp := ⟨h, Nat.le_refl _, fun _ _ => rfl⟩

theorem Ext.trans {s s' s'' : St} {inp : List Bool} (h1 : Ext s s' inp) (h2 : Ext s' s'' inp) : Ext s s'' inp :=
  ⟨h2.wf, Nat.le_trans h1.next h2.next, fun w hw => by
    rw [h2.val w (Nat.lt_of_lt_of_le hw h1.next), h1.val w hw]⟩

theorem Holds.mono {s s' : St} {inp : List Bool} {w : Nat} {b : Bool} (e : Ext s s' inp) (h : Holds s inp w b) :
    Holds s' inp w b :=
  ⟨Nat.lt_of_lt_of_le h.1 e.next, by rw [e.val w h.1, h.2]⟩

theorem Holds.of_lt {s : St} {inp : List Bool} {w : Nat} (h : w < s.next) : Holds s inp w (s.val inp w) := ⟨h, rfl⟩

theorem holds_input0 {s : St} {inp : List Bool} (h : WF s inp) : Holds s inp 0 (inp.getD 0 false) :=
  ⟨by have := h.pos; simp [St.next]; omega, val_input s inp 0 (by rw [h.len]; exact h.pos)⟩

/-- Running `m` from `s` extends `s` and establishes `Q`. -/
def Spec {α : Type} (inp : List Bool) (s : St) (m : BM α) (Q : α → St → Prop) : Prop :=
  Ext s (m s).2 inp ∧ Q (m s).1 (m s).2

theorem Spec.bind {α β : Type} {inp : List Bool} {s : St} {m : BM α} {f : α → BM β}
    {Q : α → St → Prop} {R : β → St → Prop}
    (h1 : Spec inp s m Q) (h2 : ∀ a s', Ext s s' inp → Q a s' → Spec inp s' (f a) R) :
    Spec inp s (m >>= f) R := by
  obtain ⟨e1, q1⟩ := h1
  obtain ⟨e2, q2⟩ := h2 _ _ e1 q1
  exact ⟨e1.trans e2, q2⟩

theorem Spec.pure {α : Type} {inp : List Bool} {s : St} {a : α} {Q : α → St → Prop}
    (hwf : WF s inp) (h : Q a s) : Spec inp s (Pure.pure a) Q := ⟨Ext.refl hwf, h⟩

theorem Spec.mono {α : Type} {inp : List Bool} {s : St} {m : BM α} {Q R : α → St → Prop}
    (h : Spec inp s m Q) (hqr : ∀ a s', Ext s s' inp → Q a s' → R a s') : Spec inp s m R :=
  ⟨h.1, hqr _ _ h.1 h.2⟩

theorem Spec.map {α β : Type} {inp : List Bool} {s : St} {m : BM α} {f : α → β} {Q : α → St → Prop}
    {R : β → St → Prop} (h : Spec inp s m Q) (hqr : ∀ a s', Ext s s' inp → Q a s' → R (f a) s') :
    Spec inp s (m >>= fun a => Pure.pure (f a)) R :=
  ⟨h.1, hqr _ _ h.1 h.2⟩

theorem Spec.ext {α : Type} {inp : List Bool} {s : St} {m : BM α} {Q : α → St → Prop}
    (h : Spec inp s m Q) : Ext s (m s).2 inp := h.1

/-! ### primitive gates -/

theorem gate_spec {s : St} {inp : List Bool} (op : Op) {a b : Nat} {va vb : Bool} (hwf : WF s inp)
    (ha : Holds s inp a va) (hb : Holds s inp b vb) :
    Spec inp s (gate op a b) (fun o s' => Holds s' inp o (op.eval va vb)) := by
  have hl := hwf.len
  have key : ∀ w v, Holds s inp w v → Holds (s.snoc ⟨op, a, b, s.next⟩) inp w v := by
    intro w v h
    exact ⟨by have := h.1; simp; omega, by rw [val_snoc_lt s _ inp hl w h.1, h.2]⟩
  refine ⟨⟨⟨hl, hwf.pos, ?_, ?_, ?_, ?_⟩, ?_, ?_⟩, ?_⟩
  · intro w hw; exact key _ _ (hwf.inv0 w hw)
  · intro w hw; exact key _ _ (hwf.zero w hw)
  · intro w hw; exact key _ _ (hwf.one w hw)
  · intro k hk
    simp only [gate_run, St.snoc, Array.size_push] at hk ⊢
    rw [Array.getElem_push]
    split
    · next h => exact hwf.sl k h
    · next h => simp only [St.next]; omega
  · simp [gate_run]
  · intro w hw; simp only [gate_run]; exact val_snoc_lt s _ inp hl w hw
  · simp only [gate_run]
    refine ⟨by simp, ?_⟩
    rw [val_snoc_eq s _ inp hl]
    simp [ha.2, hb.2]

/-- INV gates ignore their second input. -/
theorem invGate_spec {s : St} {inp : List Bool} {a : Nat} {va : Bool} (hwf : WF s inp)
    (ha : Holds s inp a va) :
    Spec inp s (gate .inv a 0) (fun o s' => Holds s' inp o (!va)) := by
  have h0 := holds_input0 hwf
  have := gate_spec .inv hwf ha h0
  simpa [Op.eval] using this

theorem St.setInv0_val (s : St) (w : Nat) (inp : List Bool) (x : Nat) :
    ({ s with inv0 := some w } : St).val inp x = s.val inp x := rfl

theorem invI0Wire_some {s : St} {w : Nat} (h : s.inv0 = some w) : invI0Wire s = (w, s) := by
  simp [invI0Wire, h]
theorem invI0Wire_none {s : St} (h : s.inv0 = none) :
    invI0Wire s = ((gate .inv 0 0 s).1, { (gate .inv 0 0 s).2 with inv0 := some (gate .inv 0 0 s).1 }) := by
  simp [invI0Wire, h]
theorem zeroWire_some {s : St} {w : Nat} (h : s.zero = some w) : zeroWire s = (w, s) := by
  simp [zeroWire, h]
theorem zeroWire_none {s : St} (h : s.zero = none) :
    zeroWire s = ((gate .and 0 (invI0Wire s).1 (invI0Wire s).2).1,
      { (gate .and 0 (invI0Wire s).1 (invI0Wire s).2).2 with
        zero := some (gate .and 0 (invI0Wire s).1 (invI0Wire s).2).1 }) := by
  simp [zeroWire, h]
theorem oneWire_some {s : St} {w : Nat} (h : s.one = some w) : oneWire s = (w, s) := by
  simp [oneWire, h]
theorem oneWire_none {s : St} (h : s.one = none) :
    oneWire s = ((gate .xor 0 (invI0Wire s).1 (invI0Wire s).2).1,
      { (gate .xor 0 (invI0Wire s).1 (invI0Wire s).2).2 with
        one := some (gate .xor 0 (invI0Wire s).1 (invI0Wire s).2).1 }) := by
  simp [oneWire, h]

theorem invI0Wire_spec {s : St} {inp : List Bool} (hwf : WF s inp) :
    Spec inp s invI0Wire (fun o s' => Holds s' inp o (!(inp.getD 0 false))) := by
  unfold Spec
  cases hc : s.inv0 with
  | some w => rw [invI0Wire_some hc]; exact ⟨Ext.refl hwf, hwf.inv0 w hc⟩
  | none =>
    rw [invI0Wire_none hc]
    obtain ⟨e, h⟩ := invGate_spec hwf (holds_input0 hwf)
    refine ⟨⟨⟨e.wf.len, e.wf.pos, ?_, e.wf.zero, e.wf.one, e.wf.sl⟩, e.next, e.val⟩, h⟩
    intro w hw
    simp only [Option.some.injEq] at hw
    subst hw
    exact h

theorem zeroWire_spec {s : St} {inp : List Bool} (hwf : WF s inp) :
    Spec inp s zeroWire (fun o s' => Holds s' inp o false) := by
  unfold Spec
  cases hc : s.zero with
  | some w => rw [zeroWire_some hc]; exact ⟨Ext.refl hwf, hwf.zero w hc⟩
  | none =>
    rw [zeroWire_none hc]
    obtain ⟨e1, h1⟩ := invI0Wire_spec hwf
    obtain ⟨e2, h2⟩ := gate_spec .and e1.wf (holds_input0 e1.wf) h1
    have h2' : Holds (gate .and 0 (invI0Wire s).1 (invI0Wire s).2).2 inp
        (gate .and 0 (invI0Wire s).1 (invI0Wire s).2).1 false := by
      have : (Op.and.eval (inp.getD 0 false) (!(inp.getD 0 false))) = false := by
        cases inp.getD 0 false <;> rfl
      rw [this] at h2; exact h2
    have e := e1.trans e2
    refine ⟨⟨⟨e.wf.len, e.wf.pos, e.wf.inv0, ?_, e.wf.one, e.wf.sl⟩, e.next, e.val⟩, h2'⟩
    intro w hw
    simp only [Option.some.injEq] at hw
    subst hw
    exact h2'

theorem oneWire_spec {s : St} {inp : List Bool} (hwf : WF s inp) :
    Spec inp s oneWire (fun o s' => Holds s' inp o true) := by
  unfold Spec
  cases hc : s.one with
  | some w => rw [oneWire_some hc]; exact ⟨Ext.refl hwf, hwf.one w hc⟩
  | none =>
    rw [oneWire_none hc]
    obtain ⟨e1, h1⟩ := invI0Wire_spec hwf
    obtain ⟨e2, h2⟩ := gate_spec .xor e1.wf (holds_input0 e1.wf) h1
    have h2' : Holds (gate .xor 0 (invI0Wire s).1 (invI0Wire s).2).2 inp
        (gate .xor 0 (invI0Wire s).1 (invI0Wire s).2).1 true := by
      have : (Op.xor.eval (inp.getD 0 false) (!(inp.getD 0 false))) = true := by
        cases inp.getD 0 false <;> rfl
      rw [this] at h2; exact h2
    have e := e1.trans e2
    refine ⟨⟨⟨e.wf.len, e.wf.pos, e.wf.inv0, e.wf.zero, ?_, e.wf.sl⟩, e.next, e.val⟩, h2'⟩
    intro w hw
    simp only [Option.some.injEq] at hw
    subst hw
    exact h2'

theorem inv_spec {s : St} {inp : List Bool} {a : Nat} {va : Bool} (hwf : WF s inp) (ha : Holds s inp a va) :
    Spec inp s (inv a) (fun o s' => Holds s' inp o (!va)) := by
  unfold inv
  refine Spec.bind (oneWire_spec hwf) ?_
  intro o s1 e1 ho
  have := gate_spec .xor e1.wf (ha.mono e1) ho
  refine this.mono ?_
  intro r s2 _ h
  have hv : Op.xor.eval va true = !va := by cases va <;> rfl
  rw [hv] at h; exact h

theorem or_spec {s : St} {inp : List Bool} {a b : Nat} {va vb : Bool} (hwf : WF s inp)
    (ha : Holds s inp a va) (hb : Holds s inp b vb) :
    Spec inp s (or a b) (fun o s' => Holds s' inp o (va || vb)) := by
  unfold or
  refine Spec.bind (gate_spec .xor hwf ha hb) ?_
  intro x s1 e1 hx
  refine Spec.bind (gate_spec .and e1.wf (ha.mono e1) (hb.mono e1)) ?_
  intro n s2 e2 hn
  refine (gate_spec .xor e2.wf (hx.mono e2) hn).mono ?_
  intro r s3 _ h
  have hv : Op.xor.eval (Op.xor.eval va vb) (Op.and.eval va vb) = (va || vb) := by
    cases va <;> cases vb <;> rfl
  rw [hv] at h; exact h

theorem idGate_spec {s : St} {inp : List Bool} {a : Nat} {va : Bool} (hwf : WF s inp) (ha : Holds s inp a va) :
    Spec inp s (idGate a) (fun o s' => Holds s' inp o va) := by
  unfold idGate
  refine Spec.bind (zeroWire_spec hwf) ?_
  intro z s1 e1 hz
  refine (gate_spec .xor e1.wf (ha.mono e1) hz).mono ?_
  intro r s2 _ h
  have hv : Op.xor.eval va false = va := by cases va <;> rfl
  rw [hv] at h; exact h

/-! ### buses -/

/-- All wires of a bus exist. -/
def Bnd (s : St) (ws : List Nat) : Prop := ∀ w ∈ ws, w < s.next

/-- Values of a bus. -/
def busVal (s : St) (inp : List Bool) (ws : List Nat) : List Bool := ws.map (s.val inp)

@[simp] theorem busVal_nil (s : St) (inp : List Bool) : busVal s inp [] = [] := rfl
@[simp] theorem busVal_cons (s : St) (inp : List Bool) (w : Nat) (ws : List Nat) :
    busVal s inp (w :: ws) = s.val inp w :: busVal s inp ws := rfl
@[simp] theorem busVal_length (s : St) (inp : List Bool) (ws : List Nat) : (busVal s inp ws).length = ws.length := by
  simp [busVal]
theorem busVal_append (s : St) (inp : List Bool) (a b : List Nat) :
    busVal s inp (a ++ b) = busVal s inp a ++ busVal s inp b := by simp [busVal]
theorem busVal_take (s : St) (inp : List Bool) (a : List Nat) (n : Nat) :
    busVal s inp (a.take n) = (busVal s inp a).take n := by simp [busVal, List.map_take]
theorem busVal_replicate (s : St) (inp : List Bool) (k w : Nat) :
    busVal s inp (List.replicate k w) = List.replicate k (s.val inp w) := by simp [busVal]

theorem Bnd.nil (s : St) : Bnd s [] := by intro w hw; cases hw
theorem Bnd.cons {s : St} {w : Nat} {ws : List Nat} (h : w < s.next) (hs : Bnd s ws) : Bnd s (w :: ws) := by
  intro x hx
  cases hx with
  | head => exact h
  | tail _ h' => exact hs x h'
theorem Bnd.head {s : St} {w : Nat} {ws : List Nat} (h : Bnd s (w :: ws)) : w < s.next := h w (by simp)
theorem Bnd.tail {s : St} {w : Nat} {ws : List Nat} (h : Bnd s (w :: ws)) : Bnd s ws :=
  fun x hx => h x (by simp [hx])
theorem Bnd.mono {s s' : St} {inp : List Bool} {ws : List Nat} (e : Ext s s' inp) (h : Bnd s ws) : Bnd s' ws :=
  fun w hw => Nat.lt_of_lt_of_le (h w hw) e.next
theorem Bnd.append {s : St} {a b : List Nat} (ha : Bnd s a) (hb : Bnd s b) : Bnd s (a ++ b) := by
  intro w hw
  rcases List.mem_append.mp hw with h | h
  · exact ha w h
  · exact hb w h
theorem Bnd.take {s : St} {a : List Nat} (ha : Bnd s a) (n : Nat) : Bnd s (a.take n) :=
  fun w hw => ha w (List.mem_of_mem_take hw)
theorem Bnd.drop {s : St} {a : List Nat} (ha : Bnd s a) (n : Nat) : Bnd s (a.drop n) :=
  fun w hw => ha w (List.mem_of_mem_drop hw)
theorem Bnd.replicate {s : St} {w : Nat} (h : w < s.next) (k : Nat) : Bnd s (List.replicate k w) := by
  intro x hx
  rw [List.mem_replicate] at hx
  rw [hx.2]; exact h

theorem busVal_ext {s s' : St} {inp : List Bool} {ws : List Nat} (e : Ext s s' inp) (h : Bnd s ws) :
    busVal s' inp ws = busVal s inp ws := by
  apply List.map_congr_left
  intro w hw
  exact e.val w (h w hw)

theorem val_ext {s s' : St} {inp : List Bool} {w : Nat} (e : Ext s s' inp) (h : w < s.next) :
    s'.val inp w = s.val inp w := e.val w h

/-! ### padding -/

theorem zeros_spec {s : St} {inp : List Bool} (hwf : WF s inp) (k : Nat) :
    Spec inp s (zeros k) (fun z s' => Bnd s' z ∧ busVal s' inp z = List.replicate k false) := by
  unfold zeros
  split
  · next h => subst h; exact Spec.pure hwf ⟨Bnd.nil s, rfl⟩
  · refine Spec.bind (zeroWire_spec hwf) ?_
    intro z s1 e1 hz
    refine Spec.pure e1.wf ⟨Bnd.replicate hz.1 k, ?_⟩
    rw [busVal_replicate, hz.2]

theorem zeroPad_spec {s : St} {inp : List Bool} (hwf : WF s inp) {x y : List Nat}
    (hx : Bnd s x) (hy : Bnd s y) :
    Spec inp s (zeroPad x y) (fun p s' => Bnd s' p.1 ∧ Bnd s' p.2 ∧
      busVal s' inp p.1 = padTo (busVal s inp x) (max x.length y.length) ∧
      busVal s' inp p.2 = padTo (busVal s inp y) (max x.length y.length)) := by
  unfold zeroPad
  split
  · next h =>
    refine Spec.pure hwf ⟨hx, hy, ?_, ?_⟩
    · simp [padTo, h]
    · simp [padTo, h]
  · refine Spec.bind (zeroWire_spec hwf) ?_
    intro z s1 e1 hz
    refine Spec.pure e1.wf ⟨(hx.mono e1).append (Bnd.replicate hz.1 _), (hy.mono e1).append (Bnd.replicate hz.1 _), ?_, ?_⟩
    · rw [busVal_append, busVal_replicate, hz.2, busVal_ext e1 hx]; simp [padTo]
    · rw [busVal_append, busVal_replicate, hz.2, busVal_ext e1 hy]; simp [padTo]

end Mpc.Bld

/-
Bridging lemmas between the arithmetic of the MPCL reference interpreter
(`Model/Mpcl.lean`: bit patterns as `Nat`, two's complement through `Int`)
and `BitVec`.
-/
import MpcVerif.Model.Mpcl

namespace Mpc.Mpcl

/-- A `w`-bit value of signedness `s` holding the bit-vector `x`. -/
def bv (s : Bool) {w : Nat} (x : BitVec w) : Val := .num s w x.toNat

theorem toInt_toNat {w : Nat} (x : BitVec w) : toInt w x.toNat = x.toInt := by
  simp [toInt, BitVec.toInt]

theorem ofInt_eq {w : Nat} (i : Int) : ofInt w i = (BitVec.ofInt w i).toNat := by
  simp [ofInt, BitVec.toNat_ofInt]

theorem sdiv_eq_ofInt {w : Nat} (x y : BitVec w) :
    x.sdiv y = BitVec.ofInt w (x.toInt.tdiv y.toInt) := by
  apply BitVec.eq_of_toInt_eq
  rw [BitVec.toInt_sdiv, BitVec.toInt_ofInt]

theorem natAbs_toInt {w : Nat} (x : BitVec w) : x.toInt.natAbs = x.abs.toNat := by
  rw [BitVec.toNat_abs]
  by_cases h : 2 * x.toNat < 2 ^ w
  · have hm : x.msb = false := (BitVec.msb_eq_false_iff_two_mul_lt).2 h
    simp [BitVec.toInt, h, hm]
  · have hm : x.msb = true := by
      cases hx : x.msb with
      | true => rfl
      | false => exact absurd ((BitVec.msb_eq_false_iff_two_mul_lt).1 hx) h
    have hlt := x.isLt
    have e : x.toInt = (x.toNat : Int) - ((2 ^ w : Nat) : Int) := by simp [BitVec.toInt, h]
    rw [e]
    simp only [hm, if_true]
    omega

/-- Sign-extend, then truncate back: the original pattern. -/
theorem signExtend_toNat_mod {w v : Nat} (x : BitVec w) (h : w ≤ v) :
    (x.signExtend v).toNat % 2 ^ w = x.toNat := by
  have hx := x.isLt
  have hp : 2 ^ v = 2 ^ w * 2 ^ (v - w) := by
    rw [← Nat.pow_add]; congr 1; omega
  have hle : 2 ^ w ≤ 2 ^ v := Nat.pow_le_pow_right (by decide) h
  have hxv : x.toNat % 2 ^ v = x.toNat := Nat.mod_eq_of_lt (Nat.lt_of_lt_of_le hx hle)
  rw [BitVec.toNat_signExtend, BitVec.toNat_setWidth, hxv]
  split
  · have e : 2 ^ v - 2 ^ w = 2 ^ w * (2 ^ (v - w) - 1) := by
      rw [Nat.mul_sub, Nat.mul_one, ← hp]
    rw [e, Nat.add_mul_mod_self_left, Nat.mod_eq_of_lt hx]
  · simp [Nat.mod_eq_of_lt hx]

theorem mapM_mono {α β : Type} (g g' : α → Option β) (h : ∀ a v, g a = some v → g' a = some v) :
    ∀ (l : List α) (vs : List β), l.mapM g = some vs → l.mapM g' = some vs := by
  intro l
  induction l with
  | nil => intro vs hv; simpa using hv
  | cons a l ih =>
    intro vs hv
    simp only [List.mapM_cons] at hv ⊢
    cases ha : g a with
    | none => simp [ha] at hv
    | some b =>
      cases hl : l.mapM g with
      | none => simp [ha, hl] at hv
      | some bs =>
        simp [ha, hl] at hv
        simp [h a b ha, ih bs hl, hv]

theorem binE_mono (op : BinOp) (va : Val) (rb rb' : Option Val) (h : ∀ x, rb = some x → rb' = some x)
    (v : Val) (hv : binE op va rb = some v) : binE op va rb' = some v := by
  unfold binE at hv ⊢
  split at hv
  · simpa using hv
  · simpa using hv
  · cases hr : rb with
    | none => simp [hr] at hv
    | some x => simp [hr] at hv; simp [h x hr, hv]

theorem assignTo_mono (ev ev' : Expr → Env → Option Val)
    (h : ∀ e env v, ev e env = some v → ev' e env = some v)
    (env : Env) (lv : LVal) (v : Val) (r : Env) (hr : assignTo ev env lv v = some r) :
    assignTo ev' env lv v = some r := by
  unfold assignTo at hr ⊢
  cases hl : env.lookup lv.x with
  | none => simp [hl] at hr
  | some root =>
    simp only [hl] at hr ⊢
    cases hm : lv.path.mapM (pathIdx ev env) with
    | none => simp [hm] at hr
    | some idxs =>
      have hm' := mapM_mono (pathIdx ev env) (pathIdx ev' env) (by
          intro a i hi
          cases a with
          | idx e =>
            simp only [pathIdx] at hi ⊢
            cases he : ev e env with
            | none => simp [he] at hi
            | some x => simp [he] at hi; simp [h e env x he, hi]
          | fld k => simpa [pathIdx] using hi) _ _ hm
      simp only [hm] at hr
      simp only [hm']
      exact hr

theorem assignAll_mono (ev ev' : Expr → Env → Option Val)
    (h : ∀ e env v, ev e env = some v → ev' e env = some v) :
    ∀ (lvs : List LVal) (env : Env) (vs : List Val) (r : Env),
      assignAll ev env lvs vs = some r → assignAll ev' env lvs vs = some r := by
  intro lvs
  induction lvs with
  | nil => intro env vs r hr; cases vs <;> simp_all [assignAll]
  | cons lv lvs ih =>
    intro env vs r hr
    cases vs with
    | nil => simp [assignAll] at hr
    | cons v vs =>
      simp only [assignAll] at hr ⊢
      cases ha : assignTo ev env lv v with
      | none => simp [ha] at hr
      | some env' =>
        simp [ha] at hr
        simp [assignTo_mono ev ev' h env lv v env' ha, ih env' vs r hr]



/-- Fuel monotonicity of the interpreter: a defined result does not change
when more fuel is given. -/
theorem fuel_mono_succ (P : Prog) : ∀ f : Nat,
    (∀ e env v, evalE P f e env = some v → evalE P (f + 1) e env = some v) ∧
    (∀ s env o, execS P f s env = some o → execS P (f + 1) s env = some o) ∧
    (∀ ss env o, execB P f ss env = some o → execB P (f + 1) ss env = some o) ∧
    (∀ i cur c hi st body env o, execFor P f i cur c hi st body env = some o →
        execFor P (f + 1) i cur c hi st body env = some o) := by
  intro f
  induction f with
  | zero =>
    refine ⟨?_, ?_, ?_, ?_⟩ <;> intros <;> simp_all [evalE, execS, execB, execFor]
  | succ f ih =>
    obtain ⟨ihE, ihS, ihB, ihF⟩ := ih
    have ihArgs : ∀ (env : Env) (args : List Expr) (vs : List Val),
        args.mapM (fun a => evalE P f a env) = some vs →
        args.mapM (fun a => evalE P (f + 1) a env) = some vs := fun env args vs h =>
      mapM_mono _ _ (fun a v hv => ihE a env v hv) args vs h
    refine ⟨?_, ?_, ?_, ?_⟩
    · -- expressions
      intro e env v h
      cases e with
      | lit t n => simpa [evalE] using h
      | var x => simpa [evalE] using h
      | bin op a b =>
        simp only [evalE] at h ⊢
        cases ha : evalE P f a env with
        | none => simp [ha] at h
        | some va =>
          simp only [ha, Option.bind_some] at h
          simp only [ihE a env va ha, Option.bind_some]
          exact binE_mono op va _ _ (fun x hx => ihE b env x hx) v h
      | shift l a k =>
        simp only [evalE] at h ⊢
        cases ha : evalE P f a env with
        | none => simp [ha] at h
        | some va => simp only [ha] at h; simp only [ihE a env va ha]; exact h
      | not a =>
        simp only [evalE] at h ⊢
        cases ha : evalE P f a env with
        | none => simp [ha] at h
        | some va => simp only [ha] at h; simp only [ihE a env va ha]; exact h
      | neg a =>
        simp only [evalE] at h ⊢
        cases ha : evalE P f a env with
        | none => simp [ha] at h
        | some va => simp only [ha] at h; simp only [ihE a env va ha]; exact h
      | cast t a =>
        simp only [evalE] at h ⊢
        cases ha : evalE P f a env with
        | none => simp [ha] at h
        | some va => simp only [ha] at h; simp only [ihE a env va ha]; exact h
      | idx a i =>
        simp only [evalE] at h ⊢
        cases ha : evalE P f a env with
        | none => simp [ha] at h
        | some va =>
          cases hi : evalE P f i env with
          | none => simp [ha, hi] at h
          | some vi =>
            simp only [ha, hi] at h
            simp only [ihE a env va ha, ihE i env vi hi]
            exact h
      | fld a k =>
        simp only [evalE] at h ⊢
        cases ha : evalE P f a env with
        | none => simp [ha] at h
        | some va => simp only [ha] at h; simp only [ihE a env va ha]; exact h
      | call g args =>
        simp only [evalE] at h ⊢
        cases hg : P[g]? with
        | none => simp [hg] at h
        | some fn =>
          simp only [hg] at h ⊢
          cases hm : args.mapM (fun a => evalE P f a env) with
          | none => simp [hm] at h
          | some vs =>
            simp only [hm] at h
            simp only [ihArgs env args vs hm]
            generalize bindParams fn.params _ = bp at h ⊢
            cases bp with
            | none => simp at h
            | some sc =>
              simp only at h ⊢
              cases hx : execB P f fn.body [sc] with
              | none => simp [hx] at h
              | some r =>
                simp only [hx] at h
                simp only [ihB _ _ _ hx]
                exact h
    · -- statements
      intro s env o h
      cases s with
      | decl x t init =>
        cases init with
        | none => simpa [execS] using h
        | some e =>
          simp only [execS] at h ⊢
          cases he : evalE P f e env with
          | none => simp [he] at h
          | some v => simp only [he] at h; simp only [ihE e env v he]; exact h
      | define xs e =>
        simp only [execS] at h ⊢
        cases he : evalE P f e env with
        | none => simp [he] at h
        | some v => simp only [he] at h; simp only [ihE e env v he]; exact h
      | assign lvs e =>
        simp only [execS] at h ⊢
        cases he : evalE P f e env with
        | none => simp [he] at h
        | some v =>
          simp only [he] at h
          simp only [ihE e env v he]
          have hev : ∀ e env v, (fun e env => evalE P f e env) e env = some v →
              (fun e env => evalE P (f + 1) e env) e env = some v := fun e env v hv => ihE e env v hv
          split at h
          · rename_i lv
            cases ha : assignTo (fun e env => evalE P f e env) env lv v with
            | none => simp [ha] at h
            | some r =>
              simp only [ha] at h
              simp only [assignTo_mono _ _ hev env lv v r ha]
              exact h
          · split at h
            · rename_i vs
              cases ha : assignAll (fun e env => evalE P f e env) env lvs vs with
              | none => simp [ha] at h
              | some r =>
                simp only [ha] at h
                simp only [assignAll_mono _ _ hev lvs env vs r ha]
                exact h
            · simp at h
      | ifte c th el =>
        simp only [execS] at h ⊢
        cases hc : evalE P f c env with
        | none => simp [hc] at h
        | some vc =>
          simp only [hc] at h
          simp only [ihE c env vc hc]
          split at h
          · cases hb : execB P f th ([] :: env) with
            | none => simp [hb] at h
            | some r => simp only [hb] at h; simp only [ihB _ _ _ hb]; exact h
          · cases hb : execB P f el ([] :: env) with
            | none => simp [hb] at h
            | some r => simp only [hb] at h; simp only [ihB _ _ _ hb]; exact h
          · simp at h
      | «for» i lo c hi st body =>
        simp only [execS] at h ⊢
        exact ihF _ _ _ _ _ _ _ _ h
      | ret es =>
        simp only [execS] at h ⊢
        cases hm : es.mapM (fun a => evalE P f a env) with
        | none => simp [hm] at h
        | some vs => simp only [hm] at h; simp only [ihArgs env es vs hm]; exact h
    · -- blocks
      intro ss env o h
      cases ss with
      | nil => simpa [execB] using h
      | cons s ss =>
        simp only [execB] at h ⊢
        cases hs : execS P f s env with
        | none => simp [hs] at h
        | some r =>
          simp only [hs] at h
          simp only [ihS s env r hs]
          cases r with
          | normal env' => exact ihB _ _ _ h
          | returned vs => exact h
    · -- loops
      intro i cur c hi st body env o h
      simp only [execFor] at h ⊢
      split at h
      · rename_i hc
        simp only [hc, if_true]
        cases hb : execB P f body ([(i, loopVal cur)] :: env) with
        | none => simp [hb] at h
        | some r =>
          simp only [hb] at h
          simp only [ihB _ _ _ hb]
          cases r with
          | normal env' => exact ihF _ _ _ _ _ _ _ _ h
          | returned vs => exact h
      · rename_i hc
        simp only [hc]
        exact h


theorem evalE_mono (P : Prog) {f f' : Nat} (hle : f ≤ f') (e : Expr) (env : Env) (v : Val)
    (h : evalE P f e env = some v) : evalE P f' e env = some v := by
  induction hle with
  | refl => exact h
  | step _ ih => exact (fuel_mono_succ P _).1 e env v ih

theorem execB_mono (P : Prog) {f f' : Nat} (hle : f ≤ f') (ss : List Stmt) (env : Env) (o : Outcome)
    (h : execB P f ss env = some o) : execB P f' ss env = some o := by
  induction hle with
  | refl => exact h
  | step _ ih => exact (fuel_mono_succ P _).2.2.1 ss env o ih

/-- The result of `run`, once defined, is the same for every larger fuel. -/
theorem run_mono (P : Prog) {f f' : Nat} (hle : f ≤ f') (main : Nat) (args : List Val) (r : List Val)
    (h : run P f main args = some r) : run P f' main args = some r := by
  unfold run at h ⊢
  cases hm : P[main]? with
  | none => simp [hm] at h
  | some fn =>
    simp only [hm] at h ⊢
    cases hb : bindParams fn.params args with
    | none => simp [hb] at h
    | some sc =>
      simp only [hb] at h ⊢
      cases hx : execB P f fn.body [sc] with
      | none => simp [hx] at h
      | some o =>
        simp only [hx] at h
        simp only [execB_mono P hle _ _ _ hx]
        exact h

/-! ### Loop unrolling for every trip count -/

/-- `Trip c hi st lo n`: the loop `for i := lo; i <c> hi; i += st` makes exactly
`n` iterations (the condition holds on `lo, lo+st, .., lo+(n-1)st` and fails
on `lo + n*st`).  Decidable: this is the compile-time trip count. -/
def Trip (c : Cmp) (hi st : Int) : Int → Nat → Bool
  | lo, 0 => !c.holds lo hi
  | lo, n + 1 => c.holds lo hi && Trip c hi st (lo + st) n

/-- The `n`-fold sequential composition `body[i:=lo]; body[i:=lo+st]; ...`:
each copy runs in a fresh scope holding the loop constant; a `return` inside a
copy ends the composition. -/
def iterBody (P : Prog) (f : Nat) (i : String) (st : Int) (body : List Stmt) : Int → Nat → Env → Option Outcome
  | _, 0, env => some (.normal env)
  | lo, n + 1, env =>
    match execB P f body ([(i, loopVal lo)] :: env) with
    | some (.normal env') => iterBody P f i st body (lo + st) n env'.tail
    | r => r

theorem iterBody_mono (P : Prog) {f f' : Nat} (hle : f ≤ f') (i : String) (st : Int) (body : List Stmt) :
    ∀ (n : Nat) (lo : Int) (env : Env) (o : Outcome),
      iterBody P f i st body lo n env = some o → iterBody P f' i st body lo n env = some o := by
  intro n
  induction n with
  | zero => intro lo env o h; simpa [iterBody] using h
  | succ n ih =>
    intro lo env o h
    simp only [iterBody] at h ⊢
    cases hb : execB P f body ([(i, loopVal lo)] :: env) with
    | none => simp [hb] at h
    | some r =>
      simp only [hb] at h
      simp only [execB_mono P hle _ _ _ hb]
      cases r with
      | normal env' => exact ih _ _ _ h
      | returned vs => exact h

/-- Loop unrolling, every trip count: if the `n`-fold composition of the body
is defined with fuel `f`, the `for` statement gives the same outcome (with the
`n + 1` extra units of fuel the loop itself consumes). -/
theorem for_unroll (P : Prog) (f : Nat) (i : String) (c : Cmp) (hi st : Int) (body : List Stmt) :
    ∀ (n : Nat) (lo : Int) (env : Env) (o : Outcome), Trip c hi st lo n = true →
      iterBody P f i st body lo n env = some o →
      execFor P (f + n + 1) i lo c hi st body env = some o := by
  intro n
  induction n with
  | zero =>
    intro lo env o ht h
    simp only [Trip, Bool.not_eq_true'] at ht
    simp only [iterBody] at h
    simp [execFor, ht, h]
  | succ n ih =>
    intro lo env o ht h
    simp only [Trip, Bool.and_eq_true] at ht
    simp only [iterBody] at h
    have e : f + (n + 1) + 1 = (f + n + 1) + 1 := by omega
    rw [e]
    simp only [execFor, ht.1, if_true]
    cases hb : execB P f body ([(i, loopVal lo)] :: env) with
    | none => simp [hb] at h
    | some r =>
      simp only [hb] at h
      simp only [execB_mono P (show f ≤ f + n + 1 by omega) _ _ _ hb]
      cases r with
      | normal env' => exact ih _ _ _ ht.2 h
      | returned vs => exact h

/-- Conversely: whatever the `for` statement yields is what the composition
yields (at the same fuel). -/
theorem for_unroll_conv (P : Prog) (i : String) (c : Cmp) (hi st : Int) (body : List Stmt) :
    ∀ (n : Nat) (f : Nat) (lo : Int) (env : Env) (o : Outcome), Trip c hi st lo n = true →
      execFor P f i lo c hi st body env = some o →
      iterBody P f i st body lo n env = some o := by
  intro n
  induction n with
  | zero =>
    intro f lo env o ht h
    simp only [Trip, Bool.not_eq_true'] at ht
    cases f with
    | zero => simp [execFor] at h
    | succ f => simpa [execFor, ht, iterBody] using h
  | succ n ih =>
    intro f lo env o ht h
    simp only [Trip, Bool.and_eq_true] at ht
    cases f with
    | zero => simp [execFor] at h
    | succ f =>
      simp only [execFor, ht.1, if_true] at h
      simp only [iterBody]
      cases hb : execB P f body ([(i, loopVal lo)] :: env) with
      | none => simp [hb] at h
      | some r =>
        simp only [hb] at h
        simp only [execB_mono P (Nat.le_succ f) _ _ _ hb]
        cases r with
        | normal env' =>
          exact iterBody_mono P (Nat.le_succ f) i st body _ _ _ _ (ih _ _ _ _ ht.2 h)
        | returned vs => exact h

end Mpc.Mpcl

/-
Bridging lemmas between the arithmetic of the MPCL reference interpreter
(`Model/Mpcl.lean`: bit patterns as `Nat`, two's complement through `Int`)
and `BitVec`.
-/
import MpcVerif.Model.Mpcl

namespace Mpc.Mpcl

/-- A `w`-bit value of signedness `s` holding the bit-vector `x`. -/
def bv (s : Bool) {w : Nat} (x : BitVec w) : Val := .num s w x.toNat

theorem toInt_toNat {w : Nat} (x : BitVec w) : toInt w x.toNat = x.toInt := by
  simp [toInt, BitVec.toInt]

theorem ofInt_eq {w : Nat} (i : Int) : ofInt w i = (BitVec.ofInt w i).toNat := by
  simp [ofInt, BitVec.toNat_ofInt]

theorem sdiv_eq_ofInt {w : Nat} (x y : BitVec w) :
    x.sdiv y = BitVec.ofInt w (x.toInt.tdiv y.toInt) := by
  apply BitVec.eq_of_toInt_eq
  rw [BitVec.toInt_sdiv, BitVec.toInt_ofInt]

theorem natAbs_toInt {w : Nat} (x : BitVec w) : x.toInt.natAbs = x.abs.toNat := by
  rw [BitVec.toNat_abs]
  by_cases h : 2 * x.toNat < 2 ^ w
  · have hm : x.msb = false := (BitVec.msb_eq_false_iff_two_mul_lt).2 h
    simp [BitVec.toInt, h, hm]
  · have hm : x.msb = true := by
      cases hx : x.msb with
      | true => rfl
      | false => exact absurd ((BitVec.msb_eq_false_iff_two_mul_lt).1 hx) h
    have hlt := x.isLt
    have e : x.toInt = (x.toNat : Int) - ((2 ^ w : Nat) : Int) := by simp [BitVec.toInt, h]
    rw [e]
    simp only [hm, if_true]
    omega

/-- Sign-extend, then truncate back: the original pattern. -/
theorem signExtend_toNat_mod {w v : Nat} (x : BitVec w) (h : w ≤ v) :
    (x.signExtend v).toNat % 2 ^ w = x.toNat := by
  have hx := x.isLt
  have hp : 2 ^ v = 2 ^ w * 2 ^ (v - w) := by
    rw [← Nat.pow_add]; congr 1; omega
  have hle : 2 ^ w ≤ 2 ^ v := Nat.pow_le_pow_right (by decide) h
  have hxv : x.toNat % 2 ^ v = x.toNat := Nat.mod_eq_of_lt (Nat.lt_of_lt_of_le hx hle)
  rw [BitVec.toNat_signExtend, BitVec.toNat_setWidth, hxv]
  split
  · have e : 2 ^ v - 2 ^ w = 2 ^ w * (2 ^ (v - w) - 1) := by
      rw [Nat.mul_sub, Nat.mul_one, ← hp]
    rw [e, Nat.add_mul_mod_self_left, Nat.mod_eq_of_lt hx]
  · simp [Nat.mod_eq_of_lt hx]

end Mpc.Mpcl

/-
Lemmas about caller-provided output buffers of the IKNP extension
(Model/IknpBuf.lean): the label form with `Store.assign` does not depend on what
the buffer held, the packed-bit form ORs into what it held.
-/
import MpcVerif.Model.IknpBuf
import MpcVerif.Proofs.Iknp

namespace Mpc.Iknp

/-! ### `createLabelsAt` -/

@[simp] theorem size_createLabelsAt (store : Store) (l : Array Label) (ofs : Nat) (buf : Bytes) (w : Nat) :
    (createLabelsAt store l ofs buf w).size = l.size := by simp [createLabelsAt]

theorem lgetA_mk (n : Nat) (f : Nat → Label) (i : Nat) (h : i < n) : lgetA (mk n f) i = f i := getD_mk n f i _ h

theorem lgetA_createLabelsAt (store : Store) (l : Array Label) (ofs : Nat) (buf : Bytes) (w p : Nat) (hp : p < l.size) :
    lgetA (createLabelsAt store l ofs buf w) p =
      if ofs ≤ p ∧ p < ofs + min (w * 8) (l.size - ofs) then store (lgetA l p) (rowLabel buf w (p - ofs))
      else lgetA l p := by
  unfold createLabelsAt
  rw [lgetA_mk _ _ _ hp]

theorem getD_createLabels_row (len : Nat) (buf : Bytes) (w idx : Nat) (h : idx < min (w * 8) len) :
    (createLabels len buf w).getD idx 0#128 = rowLabel buf w idx := getD_createLabels len buf w idx h

/-! ### The chunk loop on a caller's buffer -/

/-- Number of labels the list model produces from offset `ofs`. -/
theorem length_recvLoop (R0 R1 : Nat → Nat → Byte) (bbuf : Bytes) (n : Nat) :
    ∀ (fuel ofs : Nat) (st : RecvSt), n - ofs ≤ fuel →
      (recvLoop R0 R1 bbuf n fuel ofs st).2.1.length = n - ofs := by
  intro fuel
  induction fuel with
  | zero => intro ofs st h; simp [recvLoop]; omega
  | succ f ih =>
    intro ofs st h
    by_cases ho : ofs < n
    · simp only [recvLoop, ho, if_true, List.length_append, length_createLabels]
      rw [ih _ _ (by unfold chunkRows; omega)]
      unfold chunkRows
      omega
    · simp [recvLoop, ho]; omega

/-- The loop on the caller's array against the list model: same stream
state, same chunks on the wire, the array keeps its size, and position `p`
holds `store (what it held) (label p of the list model)` if the loop reached
it, its old content otherwise. -/
theorem recvLoopAt_spec (store : Store) (R0 R1 : Nat → Nat → Byte) (bbuf : Bytes) (n : Nat) :
    ∀ (fuel ofs : Nat) (st : RecvSt) (res : Array Label), res.size = n → n - ofs ≤ fuel →
      (recvLoopAt store R0 R1 bbuf n fuel ofs st res).1 = (recvLoop R0 R1 bbuf n fuel ofs st).1 ∧
      (recvLoopAt store R0 R1 bbuf n fuel ofs st res).2.2 = (recvLoop R0 R1 bbuf n fuel ofs st).2.2 ∧
      (recvLoopAt store R0 R1 bbuf n fuel ofs st res).2.1.size = n ∧
      ∀ p, p < n →
        lgetA (recvLoopAt store R0 R1 bbuf n fuel ofs st res).2.1 p =
          if ofs ≤ p then store (lgetA res p) ((recvLoop R0 R1 bbuf n fuel ofs st).2.1.getD (p - ofs) 0#128)
          else lgetA res p := by
  intro fuel
  induction fuel with
  | zero =>
    intro ofs st res hs hf
    refine ⟨rfl, rfl, hs, ?_⟩
    intro p hp
    have : ¬ ofs ≤ p := by omega
    simp [recvLoopAt, this]
  | succ f ih =>
    intro ofs st res hs hf
    by_cases ho : ofs < n
    · have hrows : min (((min chunkRows (n - ofs)) + 7) / 8 * 8) (n - ofs) = min chunkRows (n - ofs) := by
        unfold chunkRows; omega
      obtain ⟨i1, i2, i3, i4⟩ := ih (ofs + min chunkRows (n - ofs))
        (st.adv ((min chunkRows (n - ofs) + 7) / 8))
        (createLabelsAt store res ofs
          (recvCols R0 R1 st ((min chunkRows (n - ofs) + 7) / 8)
            fun tmp => xorBytes tmp (sliceFrom bbuf (ofs / 8))).2
          ((min chunkRows (n - ofs) + 7) / 8))
        (by simp [hs]) (by unfold chunkRows; omega)
      simp only [recvLoopAt, recvLoop, ho, if_true]
      refine ⟨i1, by rw [i2], i3, ?_⟩
      intro p hp
      rw [i4 p hp, lgetA_createLabelsAt _ _ _ _ _ _ (by omega), hs, hrows]
      by_cases h1 : ofs + min chunkRows (n - ofs) ≤ p
      · have h2 : ¬ (ofs ≤ p ∧ p < ofs + min chunkRows (n - ofs)) := by omega
        have h3 : ofs ≤ p := by omega
        rw [if_pos h1, if_neg h2, if_pos h3,
          getD_append_right _ _ _ _ (by rw [length_createLabels, hrows]; omega), length_createLabels, hrows]
        congr 2
        omega
      · rw [if_neg h1]
        by_cases h3 : ofs ≤ p
        · have h2 : ofs ≤ p ∧ p < ofs + min chunkRows (n - ofs) := by omega
          rw [if_pos h2, if_pos h3, getD_append_left _ _ _ _ (by rw [length_createLabels, hrows]; omega),
            getD_createLabels_row _ _ _ _ (by rw [hrows]; omega)]
        · have h2 : ¬ (ofs ≤ p ∧ p < ofs + min chunkRows (n - ofs)) := by omega
          rw [if_neg h2, if_neg h3]
    · refine ⟨by simp [recvLoopAt, recvLoop, ho], by simp [recvLoopAt, recvLoop, ho], by simpa [recvLoopAt, ho] using hs, ?_⟩
      intro p hp
      have : ¬ ofs ≤ p := by omega
      simp [recvLoopAt, ho, this]

theorem array_ext_lgetA (a b : Array Label) (hs : a.size = b.size) (h : ∀ p, p < a.size → lgetA a p = lgetA b p) :
    a = b := by
  apply Array.ext hs
  intro i h1 h2
  have := h i h1
  simpa [lgetA, Array.getD, h1, h2] using this

theorem lgetA_toArray (l : List Label) (p : Nat) : lgetA l.toArray p = l.getD p 0#128 := by
  simp [lgetA, Array.getD_eq_getD_getElem?, List.getD_eq_getElem?_getD]

/-- Position by position: what `receive` leaves in the caller's buffer. -/
theorem receiveAt_spec (store : Store) (R0 R1 : Nat → Nat → Byte) (st : RecvSt) (b : Array Bool) (res : Array Label)
    (hs : res.size = b.size) :
    ∃ out, receiveAt store R0 R1 st b res = some ((receive R0 R1 st b).1, out, (receive R0 R1 st b).2.2) ∧
      out.size = b.size ∧
      ∀ p, p < b.size → lgetA out p = store (lgetA res p) ((receive R0 R1 st b).2.1.getD p 0#128) := by
  obtain ⟨h1, h2, h3, h4⟩ := recvLoopAt_spec store R0 R1 (packBools b) b.size b.size 0 st res hs (by omega)
  refine ⟨(recvLoopAt store R0 R1 (packBools b) b.size b.size 0 st res).2.1, ?_, h3, ?_⟩
  · unfold receiveAt
    rw [if_neg (by omega)]
    unfold receive
    rw [← h1, ← h2]
  · intro p hp
    have := h4 p hp
    simpa [receive] using this

theorem length_receive (R0 R1 : Nat → Nat → Byte) (st : RecvSt) (b : Array Bool) :
    (receive R0 R1 st b).2.1.length = b.size := by
  have := length_recvLoop R0 R1 (packBools b) b.size b.size 0 st (by omega)
  simpa [receive] using this

/-- With `l[i] = out[bit]` the receiver's rows do not depend on what the
caller's buffer held. -/
theorem receiveAt_assign (R0 R1 : Nat → Nat → Byte) (st : RecvSt) (b : Array Bool) (res : Array Label)
    (hs : res.size = b.size) :
    receiveAt Store.assign R0 R1 st b res =
      some ((receive R0 R1 st b).1, (receive R0 R1 st b).2.1.toArray, (receive R0 R1 st b).2.2) := by
  obtain ⟨out, h1, h2, h3⟩ := receiveAt_spec Store.assign R0 R1 st b res hs
  rw [h1]
  have : out = (receive R0 R1 st b).2.1.toArray := by
    apply array_ext_lgetA
    · rw [h2]; simp [length_receive]
    · intro p hp
      rw [h3 p (by omega), lgetA_toArray (receive R0 R1 st b).2.1 p]
      rfl
  rw [this]

/-- On a zeroed buffer ORing the bits in is the same as assigning. -/
theorem receiveAt_orInto_zeros (R0 R1 : Nat → Nat → Byte) (st : RecvSt) (b : Array Bool) :
    receiveAt Store.orInto R0 R1 st b (zerosL b.size) = receiveAt Store.assign R0 R1 st b (zerosL b.size) := by
  obtain ⟨out, h1, h2, h3⟩ := receiveAt_spec Store.orInto R0 R1 st b (zerosL b.size) (by simp [zerosL])
  rw [h1, receiveAt_assign _ _ _ _ _ (by simp [zerosL])]
  have : out = (receive R0 R1 st b).2.1.toArray := by
    apply array_ext_lgetA
    · rw [h2]; simp [length_receive]
    · intro p hp
      rw [h3 p (by omega), lgetA_toArray (receive R0 R1 st b).2.1 p]
      unfold zerosL
      rw [lgetA_mk _ _ _ (by omega)]
      simp [Store.orInto]
  rw [this]

theorem receiveMalAt_assign (R0 R1 : Nat → Nat → Byte) (st : RecvSt) (b : Array Bool) (b0 b1 : Label)
    (res : Array Label) (hs : res.size = b.size) :
    receiveMalAt Store.assign R0 R1 st b b0 b1 res =
      some ((receiveMal R0 R1 st b b0 b1).1, (receiveMal R0 R1 st b b0 b1).2.1.toArray,
        (receiveMal R0 R1 st b b0 b1).2.2) := by
  unfold receiveMalAt
  rw [receiveAt_assign _ _ _ _ _ hs]
  simp only
  rw [receiveAt_assign _ _ _ _ _ (by simp [zerosL, size_bcvOf])]
  rfl

/-! ### Packed-bit form on the caller's words -/

@[simp] theorem size_clearBit (r : Words) (idx : Nat) : (clearBit r idx).size = r.size := by simp [clearBit]

theorem bitAt_clearBit (r : Words) (idx j : Nat) (h : idx / 64 < r.size) :
    bitAt (clearBit r idx) j = (bitAt r j && !decide (j = idx)) := by
  unfold bitAt clearBit
  by_cases hw : j / 64 = idx / 64
  · have hj : j / 64 < r.size := by omega
    simp only [Array.getD_eq_getD_getElem?, Array.getElem?_modify, hw]
    simp [h, BitVec.getLsbD_shiftLeft, BitVec.getLsbD_one]
    have h64 : j % 64 < 64 := Nat.mod_lt _ (by decide)
    by_cases he : j = idx
    · subst he; simp [h64]
    · have : ¬ (j % 64 = idx % 64) := by omega
      simp [he, h64]; omega
  · simp only [Array.getD_eq_getD_getElem?, Array.getElem?_modify]
    have : ¬ (idx / 64 = j / 64) := fun e => hw e.symm
    simp [this]
    intro _ he; subst he; exact absurd rfl hw

theorem storeRows_orOnly (r : Words) (ofs rows : Nat) (bit : Nat → Bool) :
    storeRows .orOnly r ofs rows bit = orRows r ofs rows bit := rfl

theorem storeRows_write_spec (r : Words) (ofs : Nat) (bit : Nat → Bool) :
    ∀ rows, (ofs + rows + 63) / 64 ≤ r.size →
      (storeRows .write r ofs rows bit).size = r.size ∧
      ∀ j, bitAt (storeRows .write r ofs rows bit) j =
        if ofs ≤ j ∧ j < ofs + rows then bit (j - ofs) else bitAt r j := by
  intro rows
  induction rows with
  | zero =>
    intro _
    refine ⟨rfl, fun j => ?_⟩
    have : ¬ (ofs ≤ j ∧ j < ofs + 0) := by omega
    rw [if_neg this]
    rfl
  | succ k ih =>
    intro h
    obtain ⟨i1, i2⟩ := ih (by omega)
    have hk : (ofs + k) / 64 < (storeRows .write r ofs k bit).size := by rw [i1]; omega
    have e : storeRows .write r ofs (k + 1) bit =
        (if bit k then setBit (storeRows .write r ofs k bit) (ofs + k)
         else clearBit (storeRows .write r ofs k bit) (ofs + k)) := by
      simp [storeRows, List.range_succ, List.foldl_append]
    rw [e]
    constructor
    · split <;> simp [i1]
    · intro j
      by_cases hb : bit k
      · rw [if_pos hb, bitAt_setBit _ _ _ hk, i2 j]
        by_cases hj : j = ofs + k
        · subst hj
          have : ofs ≤ ofs + k ∧ ofs + k < ofs + (k + 1) := by omega
          simp [this, hb]
        · by_cases hr : ofs ≤ j ∧ j < ofs + k
          · have : ofs ≤ j ∧ j < ofs + (k + 1) := by omega
            simp [hr, this, hj]
          · have : ¬ (ofs ≤ j ∧ j < ofs + (k + 1)) := by omega
            simp [hr, this, hj]
      · rw [if_neg hb, bitAt_clearBit _ _ _ hk, i2 j]
        by_cases hj : j = ofs + k
        · subst hj
          have : ofs ≤ ofs + k ∧ ofs + k < ofs + (k + 1) := by omega
          simp [this, hb]
        · by_cases hr : ofs ≤ j ∧ j < ofs + k
          · have : ofs ≤ j ∧ j < ofs + (k + 1) := by omega
            simp [hr, this, hj]
          · have : ¬ (ofs ≤ j ∧ j < ofs + (k + 1)) := by omega
            simp [hr, this, hj]

/-- The OR-only loops are the packed-bit loops of Model/Iknp.lean. -/
theorem recvBitsLoopS_orOnly (R0 R1 : Nat → Nat → Byte) (ch : Words) (n : Nat) :
    ∀ (fuel ofs : Nat) (st : RecvSt) (res : Words),
      recvBitsLoopS .orOnly R0 R1 ch n fuel ofs st res = recvBitsLoop wordsHead R0 R1 ch n fuel ofs st res := by
  intro fuel
  induction fuel with
  | zero => intro ofs st res; rfl
  | succ f ih =>
    intro ofs st res
    simp only [recvBitsLoopS, recvBitsLoop, storeRows_orOnly, ih]

theorem sendBitsLoopS_orOnly (SS : Nat → Nat → Byte) (delta : Label) (n : Nat) :
    ∀ (fuel ofs : Nat) (ss : SendSt) (res : Words) (msgs : List Bytes),
      sendBitsLoopS .orOnly SS delta n fuel ofs ss res msgs = sendBitsLoop SS delta n fuel ofs ss res msgs := by
  intro fuel
  induction fuel with
  | zero => intro ofs ss res msgs; rfl
  | succ f ih =>
    intro ofs ss res msgs
    cases msgs with
    | nil => simp only [sendBitsLoopS, sendBitsLoop]
    | cons c more => simp only [sendBitsLoopS, sendBitsLoop, storeRows_orOnly, ih]

theorem receiveBitsS_orOnly (R0 R1 : Nat → Nat → Byte) (st : RecvSt) (ch res : Words) (n : Nat) :
    receiveBitsS .orOnly R0 R1 st ch res n = receiveBits R0 R1 st ch res n := by
  simp only [receiveBitsS, receiveBits, receiveBitsWith, recvBitsLoopS_orOnly]

theorem sendBitsS_orOnly (SS : Nat → Nat → Byte) (delta : Label) (ss : SendSt) (n : Nat) (res : Words) (msgs : List Bytes) :
    sendBitsS .orOnly SS delta ss n res msgs = sendBits SS delta ss n res msgs := by
  simp only [sendBitsS, sendBits, sendBitsLoopS_orOnly]

/-- `ReceiveBits`, both ways of storing: stream state and chunks do not depend
on the result buffer; there are a pattern `D` (the computed bits) and an end
`e` of the rows reached such that the OR-only loop leaves `old OR D` and the
writing loop leaves `D` on `[ofs, e)` and the old content elsewhere. -/
theorem recvBitsLoopS_spec (R0 R1 : Nat → Nat → Byte) (ch : Words) (n : Nat) :
    ∀ (fuel ofs : Nat) (st : RecvSt), ∃ (st' : RecvSt) (msgs : List Bytes) (D : Nat → Bool) (e : Nat),
      ofs ≤ e ∧ (n - ofs ≤ fuel → e = max ofs n) ∧ (∀ j, ¬ (ofs ≤ j ∧ j < e) → D j = false) ∧
      ∀ res : Words, (n + 63) / 64 ≤ res.size →
        (∃ w, recvBitsLoopS .orOnly R0 R1 ch n fuel ofs st res = (st', w, msgs) ∧ w.size = res.size ∧
          ∀ j, bitAt w j = (bitAt res j || D j)) ∧
        (∃ w, recvBitsLoopS .write R0 R1 ch n fuel ofs st res = (st', w, msgs) ∧ w.size = res.size ∧
          ∀ j, bitAt w j = if ofs ≤ j ∧ j < e then D j else bitAt res j) := by
  intro fuel
  induction fuel with
  | zero =>
    intro ofs st
    refine ⟨st, [], fun _ => false, ofs, Nat.le_refl _, fun h => by omega, fun _ _ => rfl, fun res _ => ?_⟩
    refine ⟨⟨res, rfl, rfl, fun j => by simp⟩, ⟨res, rfl, rfl, fun j => ?_⟩⟩
    have : ¬ (ofs ≤ j ∧ j < ofs) := by omega
    simp [this]
  | succ f ih =>
    intro ofs st
    by_cases ho : ofs < n
    · obtain ⟨st', msgs, D, e, he1, he2, hD, h⟩ :=
        ih (ofs + min chunkRows (n - ofs)) (st.adv ((min chunkRows (n - ofs) + 7) / 8))
      have hrows : 1 ≤ min chunkRows (n - ofs) ∧ ofs + min chunkRows (n - ofs) ≤ n := by unfold chunkRows; omega
      refine ⟨st', (recvCols R0 R1 st ((min chunkRows (n - ofs) + 7) / 8)
          fun tmp => xorWords tmp ch (ofs / 64) (wordsHead ((min chunkRows (n - ofs) + 7) / 8))).1 :: msgs,
        fun j => if ofs ≤ j ∧ j < ofs + min chunkRows (n - ofs) then
          labelBit ((createLabels chunkRows (recvCols R0 R1 st ((min chunkRows (n - ofs) + 7) / 8)
            fun tmp => xorWords tmp ch (ofs / 64) (wordsHead ((min chunkRows (n - ofs) + 7) / 8))).2
            ((min chunkRows (n - ofs) + 7) / 8)).getD (j - ofs) 0#128) 0 else D j,
        e, by omega, fun hf => by rw [he2 (by omega)]; omega, ?_, ?_⟩
      · intro j hj
        have h1 : ¬ (ofs ≤ j ∧ j < ofs + min chunkRows (n - ofs)) := by omega
        dsimp only
        rw [if_neg h1]
        exact hD j (by omega)
      · intro res hres
        constructor
        · obtain ⟨⟨w, e1, e2, e3⟩, _⟩ := h (orRows res ofs (min chunkRows (n - ofs)) fun row =>
            labelBit ((createLabels chunkRows (recvCols R0 R1 st ((min chunkRows (n - ofs) + 7) / 8)
              fun tmp => xorWords tmp ch (ofs / 64) (wordsHead ((min chunkRows (n - ofs) + 7) / 8))).2
              ((min chunkRows (n - ofs) + 7) / 8)).getD row 0#128) 0) (by simpa using hres)
          refine ⟨w, ?_, by simpa using e2, ?_⟩
          · simp only [recvBitsLoopS, ho, if_true, storeRows_orOnly]
            rw [e1]
          · intro j
            rw [e3 j, bitAt_orRows _ _ _ _ _ (by omega), Bool.or_assoc]
            congr 1
            dsimp only
            by_cases h1 : ofs ≤ j ∧ j < ofs + min chunkRows (n - ofs)
            · rw [if_pos h1, hD j (by omega)]; simp [h1]
            · rw [if_neg h1]; simp [h1]
        · obtain ⟨s1, s2⟩ := storeRows_write_spec res ofs (fun row =>
            labelBit ((createLabels chunkRows (recvCols R0 R1 st ((min chunkRows (n - ofs) + 7) / 8)
              fun tmp => xorWords tmp ch (ofs / 64) (wordsHead ((min chunkRows (n - ofs) + 7) / 8))).2
              ((min chunkRows (n - ofs) + 7) / 8)).getD row 0#128) 0) (min chunkRows (n - ofs)) (by omega)
          obtain ⟨_, ⟨w, e1, e2, e3⟩⟩ := h (storeRows .write res ofs (min chunkRows (n - ofs)) fun row =>
            labelBit ((createLabels chunkRows (recvCols R0 R1 st ((min chunkRows (n - ofs) + 7) / 8)
              fun tmp => xorWords tmp ch (ofs / 64) (wordsHead ((min chunkRows (n - ofs) + 7) / 8))).2
              ((min chunkRows (n - ofs) + 7) / 8)).getD row 0#128) 0) (by rw [s1]; exact hres)
          refine ⟨w, ?_, by rw [e2, s1], ?_⟩
          · simp only [recvBitsLoopS, ho, if_true]
            rw [e1]
          · intro j
            rw [e3 j, s2 j]
            dsimp only
            by_cases h1 : ofs ≤ j ∧ j < ofs + min chunkRows (n - ofs)
            · have h2 : ¬ (ofs + min chunkRows (n - ofs) ≤ j ∧ j < e) := by omega
              have h3 : ofs ≤ j ∧ j < e := by omega
              rw [if_neg h2, if_pos h1, if_pos h3, if_pos h1]
            · rw [if_neg h1]
              by_cases h2 : ofs + min chunkRows (n - ofs) ≤ j ∧ j < e
              · have h3 : ofs ≤ j ∧ j < e := by omega
                rw [if_pos h2, if_pos h3, if_neg h1]
              · have h3 : ¬ (ofs ≤ j ∧ j < e) := by omega
                rw [if_neg h2, if_neg h3]
    · refine ⟨st, [], fun _ => false, ofs, Nat.le_refl _, fun _ => by omega, fun _ _ => rfl, fun res _ => ?_⟩
      refine ⟨⟨res, by simp [recvBitsLoopS, ho], rfl, fun j => by simp⟩, ⟨res, by simp [recvBitsLoopS, ho], rfl, fun j => ?_⟩⟩
      have : ¬ (ofs ≤ j ∧ j < ofs) := by omega
      simp [this]

/-- `SendBits`, both ways of storing (it may fail, but whether it does is
independent of the buffer and of the way of storing). -/
theorem sendBitsLoopS_spec (SS : Nat → Nat → Byte) (delta : Label) (n : Nat) :
    ∀ (fuel ofs : Nat) (ss : SendSt) (msgs : List Bytes),
      (∀ (bs : BitStore) (res : Words), (n + 63) / 64 ≤ res.size →
        sendBitsLoopS bs SS delta n fuel ofs ss res msgs = none) ∨
      ∃ (ss' : SendSt) (rest : List Bytes) (D : Nat → Bool) (e : Nat),
        e = max ofs n ∧ (∀ j, ¬ (ofs ≤ j ∧ j < e) → D j = false) ∧
        ∀ res : Words, (n + 63) / 64 ≤ res.size →
          (∃ w, sendBitsLoopS .orOnly SS delta n fuel ofs ss res msgs = some (ss', w, rest) ∧ w.size = res.size ∧
            ∀ j, bitAt w j = (bitAt res j || D j)) ∧
          (∃ w, sendBitsLoopS .write SS delta n fuel ofs ss res msgs = some (ss', w, rest) ∧ w.size = res.size ∧
            ∀ j, bitAt w j = if ofs ≤ j ∧ j < e then D j else bitAt res j) := by
  intro fuel
  induction fuel with
  | zero =>
    intro ofs ss msgs
    by_cases ho : ofs < n
    · left; intro bs res _; simp [sendBitsLoopS, ho]
    · right
      refine ⟨ss, msgs, fun _ => false, ofs, by omega, fun _ _ => rfl, fun res _ => ?_⟩
      refine ⟨⟨res, by simp [sendBitsLoopS, ho], rfl, fun j => by simp⟩, ⟨res, by simp [sendBitsLoopS, ho], rfl, fun j => ?_⟩⟩
      have : ¬ (ofs ≤ j ∧ j < ofs) := by omega
      simp [this]
  | succ f ih =>
    intro ofs ss msgs
    by_cases ho : ofs < n
    · cases msgs with
      | nil => left; intro bs res _; simp [sendBitsLoopS, ho]
      | cons chunk more =>
        by_cases hk : chunk.size % K ≠ 0
        · left; intro bs res _; simp only [sendBitsLoopS, ho, if_true]; rw [if_pos hk]
        · by_cases hw : chunk.size / K > chunkByteRows
          · left; intro bs res _; simp only [sendBitsLoopS, ho, if_true]; rw [if_neg hk, if_pos hw]
          · rcases ih (ofs + min (chunk.size / K * 8) (n - ofs)) (ss.adv (chunk.size / K)) more with
              hn | ⟨ss', rest, D, e, he, hD, h⟩
            · left
              intro bs res hres
              simp only [sendBitsLoopS, ho, if_true]
              rw [if_neg hk, if_neg hw]
              apply hn
              cases bs with
              | orOnly => rw [storeRows_orOnly]; simpa using hres
              | write => rw [(storeRows_write_spec res ofs _ _ (by omega)).1]; exact hres
            · right
              have hmr : ofs + min (chunk.size / K * 8) (n - ofs) ≤ n := by omega
              refine ⟨ss', rest, fun j => if ofs ≤ j ∧ j < ofs + min (chunk.size / K * 8) (n - ofs) then
                  (bget (sendCols SS delta ss chunk (chunk.size / K)) ((j - ofs) / 8)).getLsbD ((j - ofs) % 8) else D j,
                e, by omega, ?_, ?_⟩
              · intro j hj
                have h1 : ¬ (ofs ≤ j ∧ j < ofs + min (chunk.size / K * 8) (n - ofs)) := by omega
                dsimp only
                rw [if_neg h1]
                exact hD j (by omega)
              · intro res hres
                constructor
                · obtain ⟨⟨w, e1, e2, e3⟩, _⟩ := h (orRows res ofs (min (chunk.size / K * 8) (n - ofs)) fun row =>
                    (bget (sendCols SS delta ss chunk (chunk.size / K)) (row / 8)).getLsbD (row % 8)) (by simpa using hres)
                  refine ⟨w, ?_, by simpa using e2, ?_⟩
                  · simp only [sendBitsLoopS, ho, if_true, storeRows_orOnly]
                    rw [if_neg hk, if_neg hw]
                    exact e1
                  · intro j
                    rw [e3 j, bitAt_orRows _ _ _ _ _ (by omega), Bool.or_assoc]
                    congr 1
                    dsimp only
                    by_cases h1 : ofs ≤ j ∧ j < ofs + min (chunk.size / K * 8) (n - ofs)
                    · rw [if_pos h1, hD j (by omega)]; simp [h1]
                    · rw [if_neg h1]; simp [h1]
                · obtain ⟨s1, s2⟩ := storeRows_write_spec res ofs (fun row =>
                    (bget (sendCols SS delta ss chunk (chunk.size / K)) (row / 8)).getLsbD (row % 8))
                    (min (chunk.size / K * 8) (n - ofs)) (by omega)
                  obtain ⟨_, ⟨w, e1, e2, e3⟩⟩ := h (storeRows .write res ofs (min (chunk.size / K * 8) (n - ofs)) fun row =>
                    (bget (sendCols SS delta ss chunk (chunk.size / K)) (row / 8)).getLsbD (row % 8)) (by rw [s1]; exact hres)
                  refine ⟨w, ?_, by rw [e2, s1], ?_⟩
                  · simp only [sendBitsLoopS, ho, if_true]
                    rw [if_neg hk, if_neg hw]
                    exact e1
                  · intro j
                    rw [e3 j, s2 j]
                    dsimp only
                    by_cases h1 : ofs ≤ j ∧ j < ofs + min (chunk.size / K * 8) (n - ofs)
                    · have h2 : ¬ (ofs + min (chunk.size / K * 8) (n - ofs) ≤ j ∧ j < e) := by omega
                      have h3 : ofs ≤ j ∧ j < e := by omega
                      rw [if_neg h2, if_pos h1, if_pos h3, if_pos h1]
                    · rw [if_neg h1]
                      by_cases h2 : ofs + min (chunk.size / K * 8) (n - ofs) ≤ j ∧ j < e
                      · have h3 : ofs ≤ j ∧ j < e := by omega
                        rw [if_pos h2, if_pos h3, if_neg h1]
                      · have h3 : ¬ (ofs ≤ j ∧ j < e) := by omega
                        rw [if_neg h2, if_neg h3]
    · right
      refine ⟨ss, msgs, fun _ => false, ofs, by omega, fun _ _ => rfl, fun res _ => ?_⟩
      refine ⟨⟨res, by simp [sendBitsLoopS, ho], rfl, fun j => by simp⟩, ⟨res, by simp [sendBitsLoopS, ho], rfl, fun j => ?_⟩⟩
      have : ¬ (ofs ≤ j ∧ j < ofs) := by omega
      simp [this]

theorem bitAt_zerosW (m j : Nat) : bitAt (zerosW m) j = false := bitAt_zeroWords m j

/-- One packed-bit call (the writing store of /repo HEAD) on ARBITRARY result
buffers (any content, at least the needed length): no error branch, the streams
end in step, both buffers keep their lengths, every position `< n` holds
exactly the correlated bit, and every position `≥ n` is unchanged. -/
theorem bits_call_write (R0 R1 SS : Nat → Nat → Byte) (delta : Label) (hb : BaseOK R0 R1 SS delta)
    (rs : RecvSt) (ss : SendSt) (hs : InStep rs ss) (choices : Words) (n : Nat)
    (hch : (n + 63) / 64 ≤ choices.size) (rwin swin : Words)
    (hr : (n + 63) / 64 ≤ rwin.size) (hsw : (n + 63) / 64 ≤ swin.size) :
    ∃ rs' ss' rw sw msgs,
      receiveBitsS .write R0 R1 rs choices rwin n = some (rs', rw, msgs) ∧
      sendBitsS .write SS delta ss n swin msgs = some (ss', sw, []) ∧
      InStep rs' ss' ∧ rw.size = rwin.size ∧ sw.size = swin.size ∧
      (∀ j, j < n → bitAt rw j = (bitAt sw j ^^ (labelBit delta 0 && bitAt choices j))) ∧
      (∀ j, n ≤ j → bitAt rw j = bitAt rwin j ∧ bitAt sw j = bitAt swin j) := by
  obtain ⟨rs', ss', rw0, sw0, msgs, h1, h2, h3, _, _, h6, _⟩ :=
    bits_call wordsHead R0 R1 SS delta hb rs ss hs choices n hch []
  rw [List.append_nil] at h2
  have hz : (n + 63) / 64 ≤ (mk ((n + 63) / 64) fun _ => (0#64 : BitVec 64)).size := by simp
  have e1 : ¬ ((n + 63) / 64 > choices.size) := by omega
  have ez : ¬ ((n + 63) / 64 > (mk ((n + 63) / 64) fun _ => (0#64 : BitVec 64)).size) := by simp
  -- receiver
  obtain ⟨st', m', D, e, _, he, _, hD⟩ := recvBitsLoopS_spec R0 R1 choices n n 0 rs
  have he' : n = e := by rw [he (by omega)]; omega
  subst he'
  obtain ⟨⟨wz, z1, _, z3⟩, _⟩ := hD _ hz
  obtain ⟨_, ⟨w, d1, d2, d3⟩⟩ := hD rwin hr
  have h1' := h1
  unfold receiveBitsWith at h1'
  rw [if_neg e1, if_neg ez, ← recvBitsLoopS_orOnly, z1] at h1'
  simp only [Option.some.injEq, Prod.mk.injEq] at h1'
  obtain ⟨a1, a2, a3⟩ := h1'
  subst a1 a2 a3
  -- sender
  have h2' := h2
  unfold sendBits at h2'
  rw [if_neg ez, ← sendBitsLoopS_orOnly] at h2'
  rcases sendBitsLoopS_spec SS delta n (n + 1) 0 ss m' with hn | ⟨ss'', rest, E, e, he, _, hE⟩
  · rw [hn _ _ hz] at h2'; cases h2'
  · have he' : n = e := by omega
    subst he'
    obtain ⟨⟨vz, y1, _, y3⟩, _⟩ := hE _ hz
    obtain ⟨_, ⟨v, f1, f2, f3⟩⟩ := hE swin hsw
    rw [y1] at h2'
    simp only [Option.some.injEq, Prod.mk.injEq] at h2'
    obtain ⟨b1, b2, b3⟩ := h2'
    subst b1 b2 b3
    refine ⟨st', ss'', w, v, m', ?_, ?_, h3, d2, f2, ?_, ?_⟩
    · unfold receiveBitsS
      rw [if_neg e1, if_neg (by omega), d1]
    · unfold sendBitsS
      rw [if_neg (by omega), f1]
    · intro j hj
      have hr1 : 0 ≤ j ∧ j < n := by omega
      have a := h6 j hj
      rw [covered_head n j hj, Bool.true_and, z3 j, y3 j, bitAt_zeroWords, Bool.false_or, Bool.false_or] at a
      rw [d3 j, f3 j, if_pos hr1, if_pos hr1]
      exact a
    · intro j hj
      have hr1 : ¬ (0 ≤ j ∧ j < n) := by omega
      rw [d3 j, f3 j, if_neg hr1, if_neg hr1]
      exact ⟨rfl, rfl⟩

/-! ### Histories of calls with named output buffers -/

/-- The long-lived arrays have the fixed sizes `SL` (labels) and `SW` (words). -/
def Arena.Sized (ar : Arena) (SL SW : Nat) : Prop :=
  ar.labels.size = SL ∧ ar.rwords.size = SW ∧ ar.swords.size = SW

/-- Caller obligations on a buffer: replacement content has the array's size,
the slice is inside the array, and the label form gets a slice of exactly the
number of choices (`Receive` panics otherwise). -/
def BufSrc.WF {α : Type} (S need : Nat) (exact : Bool) : BufSrc α → Prop
  | .fresh => True
  | .arena pre off extra => (∀ a, pre = some a → a.size = S) ∧ off + need + extra ≤ S ∧ (exact = true → extra = 0)

def CallB.WF (SL SW : Nat) : CallB → Prop
  | .labels _ b _ _ buf => buf.WF SL b.size true
  | .bits n ch rbuf sbuf =>
    (n + 63) / 64 ≤ ch.size ∧ rbuf.WF SW ((n + 63) / 64) false ∧ sbuf.WF SW ((n + 63) / 64) false

/-- What a call of a history must deliver, whatever the buffers held.  Label
form: exactly `CallSpec` (`received_i = sent_i xor choice_i*Delta` on the
receiver's slice).  Packed-bit form: both slices keep their lengths,
`received_j = sent_j xor (Delta.Bit(0) and choice_j)` at every position `< n`,
and every position `≥ n` (the rest of the last word and all later words of a
longer-than-needed slice) is unchanged. -/
def CallSpecB (delta : Label) : CallB → CallOutB → Prop
  | .labels mal b b0 b1 _, o => CallSpec delta (.labels mal b b0 b1) o.out
  | .bits n ch _ _, o =>
    o.out.rcvdW.size = o.initRW.size ∧ o.out.sentW.size = o.initSW.size ∧
    (∀ j, j < n → bitAt o.out.rcvdW j = (bitAt o.out.sentW j ^^ (labelBit delta 0 && bitAt ch j))) ∧
    (∀ j, n ≤ j → bitAt o.out.rcvdW j = bitAt o.initRW j ∧ bitAt o.out.sentW j = bitAt o.initSW j)

@[simp] theorem size_window {α : Type} (d : α) (a : Array α) (off len : Nat) : (window d a off len).size = len := by
  simp [window]

@[simp] theorem size_writeBack {α : Type} (d : α) (a : Array α) (off : Nat) (w : Array α) :
    (writeBack d a off w).size = a.size := by simp [writeBack]

theorem resolve_ok {α : Type} (d : α) (cur : Array α) (S need : Nat) (exact : Bool) (buf : BufSrc α)
    (hc : cur.size = S) (hw : buf.WF S need exact) :
    ∃ a off len, buf.resolve d cur need = some (a, off, len) ∧ need ≤ len ∧ (exact = true → len = need) ∧
      ∀ w : Array α, (buf.commit d cur a off w).size = S := by
  cases buf with
  | fresh => exact ⟨_, 0, need, rfl, Nat.le_refl _, fun _ => rfl, fun w => by simp [BufSrc.commit, hc]⟩
  | arena pre off extra =>
    obtain ⟨h1, h2, h3⟩ := hw
    have hsz : (pre.getD cur).size = S := by
      cases pre with
      | none => simpa using hc
      | some a => simpa using h1 a rfl
    refine ⟨pre.getD cur, off, need + extra, ?_, by omega, fun e => by rw [h3 e]; rfl, fun w => ?_⟩
    · simp only [BufSrc.resolve]
      rw [if_pos (by omega)]
    · simp [BufSrc.commit, hsz]

/-- Every well-formed call of a history runs to completion on in-step streams,
leaves them in step and the arrays at their sizes, and meets `CallSpecB`. -/
theorem call_okB (R0 R1 SS : Nat → Nat → Byte) (delta : Label) (hb : BaseOK R0 R1 SS delta)
    (rs : RecvSt) (ss : SendSt) (hs : InStep rs ss) (ar : Arena) (SL SW : Nat) (har : ar.Sized SL SW)
    (c : CallB) (hc : c.WF SL SW) :
    ∃ rs' ss' ar' out u, runCallB Store.assign .write R0 R1 SS delta rs ss ar c = some (rs', ss', ar', out, u) ∧
      InStep rs' ss' ∧ ar'.Sized SL SW ∧ CallSpecB delta c out := by
  obtain ⟨hL, hRW, hSW⟩ := har
  cases c with
  | labels mal b b0 b1 buf =>
    obtain ⟨a, off, len, e1, _, e3, e4⟩ := resolve_ok 0#128 ar.labels SL b.size true buf hL hc
    have hlen : len = b.size := e3 rfl
    subst hlen
    have hwin : (window 0#128 a off b.size).size = b.size := by simp
    cases mal with
    | false =>
      obtain ⟨ss', sent, h1, h2, h3, h4, h5⟩ := label_call R0 R1 SS delta hb rs ss hs b []
      rw [List.append_nil] at h1
      refine ⟨(receive R0 R1 rs b).1, ss', { ar with labels := buf.commit 0#128 ar.labels a off (receive R0 R1 rs b).2.1.toArray },
        { out := { sentL := sent, rcvdL := (receive R0 R1 rs b).2.1 } }, (receive R0 R1 rs b).2.2, ?_, h2,
        ⟨e4 _, hRW, hSW⟩, h3, h4, h5⟩
      simp only [runCallB, e1, Bool.false_eq_true, if_false, receiveAt_assign _ _ _ _ _ hwin, h1]
    | true =>
      obtain ⟨ss', sent, h1, h2, h3, h4, h5⟩ := label_call_mal R0 R1 SS delta hb rs ss hs b b0 b1 []
      rw [List.append_nil] at h1
      refine ⟨(receiveMal R0 R1 rs b b0 b1).1, ss',
        { ar with labels := buf.commit 0#128 ar.labels a off (receiveMal R0 R1 rs b b0 b1).2.1.toArray },
        { out := { sentL := sent, rcvdL := (receiveMal R0 R1 rs b b0 b1).2.1 } }, (receiveMal R0 R1 rs b b0 b1).2.2, ?_, h2,
        ⟨e4 _, hRW, hSW⟩, h3, h4, h5⟩
      simp only [runCallB, e1, if_true, receiveMalAt_assign _ _ _ _ _ _ _ hwin, h1]
  | bits n ch rbuf sbuf =>
    obtain ⟨hch, hwr, hws⟩ := hc
    obtain ⟨ra, roff, rlen, r1, r2, _, r4⟩ := resolve_ok 0#64 ar.rwords SW ((n + 63) / 64) false rbuf hRW hwr
    obtain ⟨sa, soff, slen, s1, s2, _, s4⟩ := resolve_ok 0#64 ar.swords SW ((n + 63) / 64) false sbuf hSW hws
    obtain ⟨rs', ss', rw, sw, msgs, g1, g2, g3, g4, g5, g6, g7⟩ :=
      bits_call_write R0 R1 SS delta hb rs ss hs ch n hch (window 0#64 ra roff rlen) (window 0#64 sa soff slen)
        (by simpa using r2) (by simpa using s2)
    refine ⟨rs', ss', { ar with rwords := rbuf.commit 0#64 ar.rwords ra roff rw,
                                swords := sbuf.commit 0#64 ar.swords sa soff sw },
      { out := { sentW := sw, rcvdW := rw }, initRW := window 0#64 ra roff rlen, initSW := window 0#64 sa soff slen },
      msgs, ?_, g3, ⟨hL, r4 _, s4 _⟩, g4, g5, g6, g7⟩
    simp only [runCallB, r1, s1, g1, g2]

/-- Every history of well-formed calls runs to completion and every call
meets `CallSpecB`. -/
theorem sessionB_ok (R0 R1 SS : Nat → Nat → Byte) (delta : Label) (hb : BaseOK R0 R1 SS delta) (SL SW : Nat) :
    ∀ (cs : List CallB) (rs : RecvSt) (ss : SendSt) (ar : Arena), InStep rs ss → ar.Sized SL SW →
      (∀ c ∈ cs, c.WF SL SW) →
      ∃ outs, sessionB Store.assign .write R0 R1 SS delta rs ss ar cs = some outs ∧ outs.length = cs.length ∧
        ∀ k (hk : k < cs.length) (hk' : k < outs.length), CallSpecB delta cs[k] outs[k] := by
  intro cs
  induction cs with
  | nil => intro rs ss ar _ _ _; exact ⟨[], rfl, rfl, fun k hk => absurd hk (Nat.not_lt_zero _)⟩
  | cons c cs ih =>
    intro rs ss ar hs har hwf
    obtain ⟨rs', ss', ar', out, u, h1, h2, h2', h3⟩ :=
      call_okB R0 R1 SS delta hb rs ss hs ar SL SW har c (hwf c (List.mem_cons_self ..))
    obtain ⟨outs, h4, h5, h6⟩ := ih rs' ss' ar' h2 h2' (fun c' hc' => hwf c' (List.mem_cons_of_mem _ hc'))
    refine ⟨out :: outs, ?_, by simp [h5], ?_⟩
    · simp only [sessionB, h1, h4, Option.map_some]
    · intro k hk hk'
      cases k with
      | zero => exact h3
      | succ k => exact h6 k (by simpa using hk) (by simpa using hk')

end Mpc.Iknp

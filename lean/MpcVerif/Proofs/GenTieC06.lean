/-
T1 tie (DESIGN.md 1.3) of `ot.xor` (ot/co_helpers.go; the column masking of the IKNP sender
and receiver) to `Mpc.Iknp.xorBytes` of the C06 model Model/Iknp.lean: the definition of
MpcVerif/Gen/LeafC06.lean, regenerated from the current Go source by `gofacts translate
-group C06` on every run of checks/C06.py, leaves `xorBytes dst src` in `dst` and returns its
first `min len(dst) len(src)` bytes.  Core Lean only.
-/
import MpcVerif.Gen.LeafC06
import MpcVerif.Proofs.GenTieLib
import MpcVerif.Model.Iknp

namespace Mpc.GenTie
open Mpc Mpc.Gen Mpc.Gen.C06

/-- `dst` after `k` iterations of the loop of `xor`. -/
def xorBytesInv (dst src : Iknp.Bytes) (k : Nat) : Iknp.Bytes :=
  Iknp.mk dst.size fun i => if i < k ∧ i < src.size then Iknp.bget dst i ^^^ Iknp.bget src i else Iknp.bget dst i

theorem tie_xor (dst src : Array (BitVec 8)) (hd : dst.size < 2^63) (hs : src.size < 2^63) :
    Gen.C06.xor dst src =
      some ((Iknp.xorBytes dst src).extract 0 (min dst.size src.size), Iknp.xorBytes dst src) := by
  unfold Gen.C06.xor
  dsimp only
  have hm : min dst.size src.size < 2^63 := by omega
  have hmin : (if src.size < dst.size then BitVec.ofNat 64 src.size else BitVec.ofNat 64 dst.size) =
      BitVec.ofNat 64 (min dst.size src.size) := by
    by_cases h : src.size < dst.size
    · simp [h, Nat.min_eq_right (Nat.le_of_lt h)]
    · simp [h, Nat.min_eq_left (Nat.le_of_not_lt h)]
  int_norm
  simp only [hmin]
  int_norm
  rw [foldl_range_some _ (xorBytesInv dst src) (min dst.size src.size) dst]
  · have hfin : xorBytesInv dst src (min dst.size src.size) = Iknp.xorBytes dst src := by
      simp only [xorBytesInv, Iknp.xorBytes, Iknp.mk]
      apply Array.ext
      · simp
      · intro i h1 h2
        have hi : i < dst.size := by simpa using h1
        simp only [Array.getElem_map, Array.getElem_range]
        by_cases h : i < src.size
        · have : i < min dst.size src.size := by omega
          simp [h, this]
        · simp [h]
    have hsz : (Iknp.xorBytes dst src).size = dst.size := by simp [Iknp.xorBytes, Iknp.mk]
    simp [hfin, hsz, show ¬ (2^63 ≤ min dst.size src.size) by omega, Nat.min_le_left]
  · apply Array.ext
    · simp [xorBytesInv, Iknp.mk]
    · intro i h1 h2
      simp [xorBytesInv, Iknp.mk, Iknp.bget, h2]
  · intro k hk
    have hk63 : k < 2^63 := by omega
    have hsize : (xorBytesInv dst src k).size = dst.size := by simp [xorBytesInv, Iknp.mk]
    simp only [Option.elim, slt_zero, ofNat_size k hk63, hsize, Nat.zero_add]
    simp only [show ¬ (2^63 ≤ k) by omega, show ¬ (dst.size ≤ k) by omega, show ¬ (src.size ≤ k) by omega, decide_false,
      Bool.or_false, Bool.false_eq_true, if_false]
    congr 1
    apply Array.ext
    · simp [xorBytesInv, Iknp.mk]
    · intro j h1 h2
      have hj : j < dst.size := by simpa [xorBytesInv, Iknp.mk] using h2
      rw [Array.getElem_setIfInBounds (by rw [hsize]; exact hj)]
      by_cases hjk : k = j
      · subst hjk
        simp [xorBytesInv, Iknp.mk, Iknp.bget, hj, show k < src.size by omega]
      · have : (j < k + 1) = (j < k) := by apply propext; omega
        simp [xorBytesInv, Iknp.mk, hjk, this]

example : Gen.C06.xor #[1#8, 2#8, 3#8] #[3#8, 3#8] = some (#[2#8, 1#8], #[2#8, 1#8, 3#8]) := by decide

end Mpc.GenTie

/-
Lemmas for the sha2pc codec model (Model/Sha2pc.lean): primitive encodings,
reader combinators, bit packing.  Core Lean only.
-/
import MpcVerif.Model.Sha2pc

namespace Mpc.Sha2pc

/-! ## `Res` -/

@[simp] theorem Res.ok_bind {α β : Type} (a : α) (f : α → Res β) : (Res.ok a >>= f) = f a := rfl
@[simp] theorem Res.error_bind {α β : Type} (f : α → Res β) : ((Res.error : Res α) >>= f) = .error := rfl
@[simp] theorem Res.panic_bind {α β : Type} (f : α → Res β) : ((Res.panic : Res α) >>= f) = .panic := rfl
@[simp] theorem Res.pure_eq {α : Type} (a : α) : (pure a : Res α) = .ok a := rfl

/-- A computation that never crashes. -/
def NoPanic {α : Type} (r : Res α) : Prop := r ≠ .panic

theorem NoPanic.bind {α β : Type} {r : Res α} {f : α → Res β} (h : NoPanic r) (hf : ∀ a, NoPanic (f a)) :
    NoPanic (r >>= f) := by
  cases r with
  | ok a => exact hf a
  | error => intro h'; cases h'
  | panic => exact absurd rfl h

@[simp] theorem NoPanic.ok {α : Type} (a : α) : NoPanic (Res.ok a) := by intro h; cases h
@[simp] theorem NoPanic.error {α : Type} : NoPanic (Res.error : Res α) := by intro h; cases h
@[simp] theorem NoPanic.pure {α : Type} (a : α) : NoPanic (pure a : Res α) := by intro h; cases h

theorem NoPanic.ite {α : Type} {p : Prop} [Decidable p] {a b : Res α} (ha : NoPanic a) (hb : NoPanic b) :
    NoPanic (if p then a else b) := by
  split <;> assumption

/-! ## big-endian numbers -/

theorem beNat_foldl (acc : Nat) (b : Bytes) :
    b.foldl (fun acc x => acc * 256 + x.toNat) acc = acc * 256 ^ b.length + beNat b := by
  induction b generalizing acc with
  | nil => simp [beNat]
  | cons x xs ih =>
    simp only [List.foldl_cons, List.length_cons, beNat]
    rw [ih, ih (0 * 256 + x.toNat)]
    simp [Nat.pow_succ, Nat.add_mul, Nat.mul_assoc, Nat.mul_comm 256, Nat.add_assoc]

@[simp] theorem beNat_nil : beNat [] = 0 := rfl

theorem beNat_cons (x : UInt8) (xs : Bytes) : beNat (x :: xs) = x.toNat * 256 ^ xs.length + beNat xs := by
  simp only [beNat, List.foldl_cons]
  rw [beNat_foldl]
  simp [beNat]

theorem beNat_append (a b : Bytes) : beNat (a ++ b) = beNat a * 256 ^ b.length + beNat b := by
  simp only [beNat, List.foldl_append]
  rw [beNat_foldl]
  simp [beNat]

theorem beNat_lt (b : Bytes) : beNat b < 256 ^ b.length := by
  induction b with
  | nil => simp
  | cons x xs ih =>
    rw [beNat_cons, List.length_cons, Nat.pow_succ]
    have hx : x.toNat < 256 := x.toNat_lt
    have : x.toNat * 256 ^ xs.length + 256 ^ xs.length ≤ 256 * 256 ^ xs.length := by
      have : (x.toNat + 1) * 256 ^ xs.length ≤ 256 * 256 ^ xs.length := Nat.mul_le_mul_right _ hx
      simpa [Nat.add_mul] using this
    rw [Nat.mul_comm (256 ^ xs.length) 256]
    omega

@[simp] theorem beBytes_length (n v : Nat) : (beBytes n v).length = n := by
  induction n generalizing v with
  | zero => simp [beBytes]
  | succ n ih => simp [beBytes, ih]

theorem uint8_ofNat_toNat (v : Nat) (h : v < 256) : (UInt8.ofNat v).toNat = v := by
  simp [UInt8.toNat_ofNat', Nat.mod_eq_of_lt h]

theorem beNat_beBytes (n v : Nat) (h : v < 256 ^ n) : beNat (beBytes n v) = v := by
  induction n generalizing v with
  | zero => simp at h; simp [beBytes, h]
  | succ n ih =>
    simp only [beBytes]
    rw [beNat_append]
    have h1 : v / 256 < 256 ^ n := by
      rw [Nat.pow_succ] at h
      exact Nat.div_lt_of_lt_mul (by rw [Nat.mul_comm]; exact h)
    rw [ih _ h1]
    simp only [List.length_singleton, Nat.pow_one]
    rw [beNat_cons]
    simp only [List.length_nil, Nat.pow_zero, Nat.mul_one, beNat_nil, Nat.add_zero]
    rw [uint8_ofNat_toNat _ (Nat.mod_lt _ (by decide))]
    omega

theorem beBytes_beNat (n : Nat) (b : Bytes) (h : b.length = n) : beBytes n (beNat b) = b := by
  induction n generalizing b with
  | zero =>
    have : b = [] := List.eq_nil_of_length_eq_zero h
    simp [this, beBytes]
  | succ n ih =>
    have hne : b ≠ [] := by intro h0; simp [h0] at h
    have hsplit := List.dropLast_concat_getLast hne
    have hlen : b.dropLast.length = n := by simp [h]
    rw [← hsplit, beNat_append]
    simp only [List.length_singleton, Nat.pow_one, beBytes]
    rw [beNat_cons]
    simp only [List.length_nil, Nat.pow_zero, Nat.mul_one, beNat_nil, Nat.add_zero]
    have hl : (b.getLast hne).toNat < 256 := (b.getLast hne).toNat_lt
    have h1 : (beNat b.dropLast * 256 + (b.getLast hne).toNat) / 256 = beNat b.dropLast := by omega
    have h2 : (beNat b.dropLast * 256 + (b.getLast hne).toNat) % 256 = (b.getLast hne).toNat := by omega
    rw [h1, h2, ih _ hlen]
    simp

theorem beBytes_inj (n a b : Nat) (ha : a < 256 ^ n) (hb : b < 256 ^ n) (h : beBytes n a = beBytes n b) : a = b := by
  rw [← beNat_beBytes n a ha, ← beNat_beBytes n b hb, h]

/-! ## labels -/

@[simp] theorem bytesOfLabel_length (l : Label) : (bytesOfLabel l).length = 16 := by simp [bytesOfLabel]

theorem labelOfBytes_bytesOfLabel (l : Label) : labelOfBytes (bytesOfLabel l) = l := by
  unfold labelOfBytes bytesOfLabel
  rw [beNat_beBytes 16 l.toNat (by have := l.isLt; omega)]
  simp

theorem bytesOfLabel_labelOfBytes (b : Bytes) (h : b.length = 16) : bytesOfLabel (labelOfBytes b) = b := by
  unfold labelOfBytes bytesOfLabel
  have hlt : beNat b < 2 ^ 128 := by
    have := beNat_lt b
    rw [h] at this
    exact this
  rw [BitVec.toNat_ofNat, Nat.mod_eq_of_lt hlt]
  exact beBytes_beNat 16 b h

/-! ## slices -/

theorem slice_mid (a b c : Bytes) : slice (a ++ (b ++ c)) a.length (a.length + b.length) = .ok b := by
  unfold slice
  have h1 : a.length ≤ a.length + b.length ∧ a.length + b.length ≤ (a ++ (b ++ c)).length := by
    simp only [List.length_append]; omega
  rw [if_pos h1]
  simp

theorem slice_of_split (data a b c : Bytes) (lo hi : Nat) (hd : data = a ++ (b ++ c)) (hlo : lo = a.length)
    (hhi : hi = lo + b.length) : slice data lo hi = .ok b := by
  subst hd hlo hhi
  exact slice_mid a b c

theorem slice_noPanic (b : Bytes) (lo hi : Nat) (h1 : lo ≤ hi) (h2 : hi ≤ b.length) : NoPanic (slice b lo hi) := by
  unfold slice
  rw [if_pos ⟨h1, h2⟩]
  simp

theorem slice_ok_iff (b : Bytes) (lo hi : Nat) (r : Bytes) :
    slice b lo hi = .ok r ↔ (lo ≤ hi ∧ hi ≤ b.length ∧ r = (b.drop lo).take (hi - lo)) := by
  unfold slice
  by_cases h : lo ≤ hi ∧ hi ≤ b.length
  · rw [if_pos h]
    constructor
    · intro h'; cases h'; exact ⟨h.1, h.2, rfl⟩
    · intro h'; rw [h'.2.2]
  · rw [if_neg h]
    constructor
    · intro h'; cases h'
    · intro h'; exact absurd ⟨h'.1, h'.2.1⟩ h

theorem slice_length (b : Bytes) (lo hi : Nat) (r : Bytes) (h : slice b lo hi = .ok r) : r.length = hi - lo := by
  rw [slice_ok_iff] at h
  obtain ⟨h1, h2, rfl⟩ := h
  simp only [List.length_take, List.length_drop]
  omega

/-- Adjacent slices concatenate. -/
theorem slice_concat (b : Bytes) (lo mid hi : Nat) (x y : Bytes) (hx : slice b lo mid = .ok x)
    (hy : slice b mid hi = .ok y) : slice b lo hi = .ok (x ++ y) := by
  rw [slice_ok_iff] at hx hy ⊢
  obtain ⟨h1, h2, rfl⟩ := hx
  obtain ⟨h3, h4, rfl⟩ := hy
  refine ⟨by omega, h4, ?_⟩
  have e1 : hi - lo = (mid - lo) + (hi - mid) := by omega
  rw [e1, List.take_add]
  congr 2
  rw [List.drop_drop]
  congr 1
  omega

theorem slice_full (b : Bytes) : slice b 0 b.length = .ok b := by
  rw [slice_ok_iff]
  simp

/-! ## uvarint -/

theorem readUvarintGo_put (rest : Bytes) (n : Nat) : ∀ (i x : Nat), i ≤ 8 → n < 2 ^ (7 * (9 - i)) →
    readUvarintGo i x (putUvarint n ++ rest) = .ok (x + n * 2 ^ (7 * i), rest) := by
  induction n using Nat.strongRecOn with
  | _ n ih =>
    intro i x hi hn
    rw [putUvarint]
    by_cases hlt : n < 128
    · rw [if_pos hlt]
      simp only [List.singleton_append, readUvarintGo]
      have h10 : ¬ 10 ≤ i := by omega
      rw [if_neg h10, uint8_ofNat_toNat n (by omega), if_pos hlt]
      have : ¬ (i = 9 ∧ 1 < n) := by omega
      rw [if_neg this]
    · rw [if_neg hlt]
      simp only [List.cons_append, readUvarintGo]
      have h10 : ¬ 10 ≤ i := by omega
      have hb : (UInt8.ofNat (n % 128 + 128)).toNat = n % 128 + 128 := uint8_ofNat_toNat _ (by omega)
      rw [if_neg h10, hb]
      have : ¬ (n % 128 + 128 < 128) := by omega
      rw [if_neg this]
      have hi7 : i ≤ 7 := by
        by_cases h8 : i = 8
        · subst h8; simp at hn; omega
        · omega
      have hdiv : n / 128 < 2 ^ (7 * (9 - (i + 1))) := by
        have e : 7 * (9 - i) = 7 * (9 - (i + 1)) + 7 := by omega
        rw [e, Nat.pow_add] at hn
        exact Nat.div_lt_of_lt_mul (by rw [Nat.mul_comm]; exact hn)
      rw [ih (n / 128) (by omega) (i + 1) _ (by omega) hdiv]
      have e2 : 2 ^ (7 * (i + 1)) = 128 * 2 ^ (7 * i) := by
        rw [show 7 * (i + 1) = 7 + 7 * i by omega, Nat.pow_add]
      rw [e2]
      have e3 : n % 128 + 128 - 128 = n % 128 := by omega
      rw [e3]
      generalize 2 ^ (7 * i) = P
      have key : n % 128 * P + n / 128 * (128 * P) = n * P := by
        conv => rhs; rw [← Nat.div_add_mod n 128]
        simp [Nat.mul_assoc, Nat.mul_comm, Nat.mul_left_comm, Nat.add_comm, Nat.mul_add]
      rw [Nat.add_assoc, key]

theorem readUvarint_put (n : Nat) (rest : Bytes) (h : n < 2 ^ 63) :
    readUvarint (putUvarint n ++ rest) = .ok (n, rest) := by
  unfold readUvarint
  rw [readUvarintGo_put rest n 0 0 (by omega) (by simpa using h)]
  simp

theorem readUvarintGo_noPanic : ∀ (r : Bytes) (i x : Nat), NoPanic (readUvarintGo i x r) := by
  intro r
  induction r with
  | nil => intro i x; simp [readUvarintGo]
  | cons b rest ih =>
    intro i x
    simp only [readUvarintGo]
    repeat' apply NoPanic.ite
    all_goals first | exact ih _ _ | simp

theorem readUvarint_noPanic (r : Bytes) : NoPanic (readUvarint r) := readUvarintGo_noPanic r 0 0

theorem putUvarint_length_small (n : Nat) (h : n < 128) : (putUvarint n).length = 1 := by
  rw [putUvarint, if_pos h]; rfl

theorem putUvarint_length_two (n : Nat) (h1 : 128 ≤ n) (h2 : n < 16384) : (putUvarint n).length = 2 := by
  rw [putUvarint, if_neg (by omega), putUvarint, if_pos (by omega)]; rfl

theorem putUvarint_length_three (n : Nat) (h1 : 16384 ≤ n) (h2 : n < 2097152) : (putUvarint n).length = 3 := by
  rw [putUvarint, if_neg (by omega), putUvarint, if_neg (by omega), putUvarint, if_pos (by omega)]; rfl

theorem putUvarint_length_pos (n : Nat) : 1 ≤ (putUvarint n).length := by
  rw [putUvarint]; split <;> simp

theorem uint8_ofNat_toNat_self (b : UInt8) : UInt8.ofNat b.toNat = b := by
  apply UInt8.toNat_inj.mp
  rw [uint8_ofNat_toNat _ b.toNat_lt]

/-- Every byte string `ReadUvarint` accepts for a value is at least as long as
`PutUvarint` of the value, and equal length means equal bytes. -/
theorem readUvarintGo_min (r : Bytes) : ∀ (i x v : Nat) (r' : Bytes), readUvarintGo i x r = .ok (v, r') →
    ∃ pre w, r = pre ++ r' ∧ v = x + w * 2 ^ (7 * i) ∧ (putUvarint w).length ≤ pre.length ∧
      ((putUvarint w).length = pre.length → pre = putUvarint w) := by
  induction r with
  | nil => intro i x v r' h; simp [readUvarintGo] at h
  | cons b rest ih =>
    intro i x v r' h
    simp only [readUvarintGo] at h
    split at h
    · cases h
    · split at h
      · rename_i hb
        split at h
        · cases h
        · simp only [Res.ok.injEq, Prod.mk.injEq] at h
          have hp : putUvarint b.toNat = [b] := by
            rw [putUvarint, if_pos hb, uint8_ofNat_toNat_self]
          refine ⟨[b], b.toNat, by rw [← h.2]; rfl, h.1.symm, by rw [hp]; simp, fun _ => hp.symm⟩
      · rename_i hb
        obtain ⟨pre', w', h1, h2, h3, h4⟩ := ih _ _ _ _ h
        have hbl : b.toNat < 256 := b.toNat_lt
        refine ⟨b :: pre', (b.toNat - 128) + 128 * w', by rw [h1]; rfl, ?_, ?_, ?_⟩
        · rw [h2]
          have e2 : 2 ^ (7 * (i + 1)) = 128 * 2 ^ (7 * i) := by
            rw [show 7 * (i + 1) = 7 + 7 * i by omega, Nat.pow_add]
          rw [e2]
          generalize 2 ^ (7 * i) = P
          rw [Nat.add_mul, Nat.add_assoc, Nat.mul_assoc, Nat.mul_left_comm]
        · by_cases hw : w' = 0
          · subst hw
            rw [putUvarint, if_pos (by omega)]
            simp
          · rw [putUvarint, if_neg (by omega)]
            have e1 : (b.toNat - 128 + 128 * w') / 128 = w' := by omega
            rw [e1]
            simp only [List.length_cons]
            omega
        · intro hl
          by_cases hw : w' = 0
          · subst hw
            rw [putUvarint, if_pos (by omega)] at hl
            have := putUvarint_length_pos 0
            simp only [List.length_cons, List.length_nil] at hl
            omega
          · rw [putUvarint, if_neg (by omega)] at hl ⊢
            have e1 : (b.toNat - 128 + 128 * w') / 128 = w' := by omega
            have e2 : (b.toNat - 128 + 128 * w') % 128 + 128 = b.toNat := by omega
            rw [e1] at hl
            rw [e1, e2, uint8_ofNat_toNat_self]
            simp only [List.length_cons] at hl
            rw [h4 (by omega)]

theorem readUvarint_min (r : Bytes) (v : Nat) (r' : Bytes) (h : readUvarint r = .ok (v, r')) :
    ∃ pre, r = pre ++ r' ∧ (putUvarint v).length ≤ pre.length ∧
      ((putUvarint v).length = pre.length → pre = putUvarint v) := by
  obtain ⟨pre, w, h1, h2, h3, h4⟩ := readUvarintGo_min r 0 0 v r' h
  simp only [Nat.mul_zero, Nat.pow_zero, Nat.mul_one, Nat.zero_add] at h2
  subst h2
  exact ⟨pre, h1, h3, h4⟩

/-! ## reader combinators -/

theorem readChunk_write (d rest : Bytes) (hlen : d.length ≤ chunkSizeLimit) (hne : d ++ rest ≠ []) :
    readChunk (writeChunk d ++ rest) = .ok (d, rest) := by
  unfold readChunk writeChunk
  rw [List.append_assoc, readUvarint_put _ _ (by unfold chunkSizeLimit at hlen; omega)]
  simp only [Res.ok_bind]
  rw [if_neg (by simp only [List.length_append]; omega), if_neg (by omega), if_neg (by simp),
    if_neg (by simpa using hne)]
  simp

theorem readChunk_noPanic (r : Bytes) : NoPanic (readChunk r) := by
  unfold readChunk
  apply NoPanic.bind (readUvarint_noPanic r)
  intro a
  obtain ⟨len, r1⟩ := a
  simp only
  repeat' apply NoPanic.ite
  all_goals simp

theorem readFull_append (n : Nat) (b rest : Bytes) (h : b.length = n) : readFull n (b ++ rest) = .ok (b, rest) := by
  unfold readFull
  rw [if_neg (by simp; omega)]
  subst h
  simp

theorem readFull_noPanic (n : Nat) (r : Bytes) : NoPanic (readFull n r) := by
  unfold readFull; apply NoPanic.ite <;> simp

theorem readFixed_append (n v : Nat) (rest : Bytes) (h : v < 256 ^ n) :
    readFixed n (beBytes n v ++ rest) = .ok (v, rest) := by
  unfold readFixed
  rw [readFull_append n _ _ (by simp)]
  simp [beNat_beBytes n v h]

theorem readFixed_noPanic (n : Nat) (r : Bytes) : NoPanic (readFixed n r) := by
  unfold readFixed
  apply NoPanic.bind (readFull_noPanic n r)
  intro a; simp

theorem readFixedN_append (n : Nat) (vs : List Nat) (rest : Bytes) (h : ∀ v ∈ vs, v < 256 ^ n) :
    readFixedN n vs.length (vs.flatMap (beBytes n) ++ rest) = .ok (vs, rest) := by
  induction vs with
  | nil => simp [readFixedN]
  | cons v vs ih =>
    simp only [List.flatMap_cons, List.length_cons, readFixedN, List.append_assoc]
    rw [readFixed_append n v _ (h v (by simp))]
    simp only [Res.ok_bind]
    rw [ih (fun w hw => h w (by simp [hw]))]
    simp

theorem readFixedN_noPanic (n k : Nat) (r : Bytes) : NoPanic (readFixedN n k r) := by
  induction k generalizing r with
  | zero => simp [readFixedN]
  | succ k ih =>
    simp only [readFixedN]
    apply NoPanic.bind (readFixed_noPanic n r)
    intro a
    apply NoPanic.bind (ih _)
    intro b; simp

theorem readFixedN_length (n k : Nat) (r : Bytes) (vs : List Nat) (r' : Bytes)
    (h : readFixedN n k r = .ok (vs, r')) : vs.length = k := by
  induction k generalizing r vs r' with
  | zero => simp [readFixedN] at h; simp [h.1.symm]
  | succ k ih =>
    simp only [readFixedN] at h
    cases h1 : readFixed n r with
    | ok a =>
      rw [h1] at h
      simp only [Res.ok_bind] at h
      cases h2 : readFixedN n k a.2 with
      | ok b =>
        rw [h2] at h
        simp only [Res.ok_bind, Res.pure_eq, Res.ok.injEq, Prod.mk.injEq] at h
        rw [← h.1]
        simp [ih _ _ _ h2]
      | error => rw [h2] at h; simp at h
      | panic => rw [h2] at h; simp at h
    | error => rw [h1] at h; simp at h
    | panic => rw [h1] at h; simp at h

theorem magic_lengths : magicR1.length = 2 ∧ magicR2.length = 2 ∧ magicR3.length = 2 ∧ magicGS.length = 2 ∧
    magicES.length = 2 := by decide

theorem readHeader_header (magic : Bytes) (sid : Nat) (rest : Bytes) (hm : magic.length = 2) (hs : sid < 2 ^ 64) :
    readHeader magic (header magic sid ++ rest) = .ok (sid, rest) := by
  unfold readHeader header
  rw [List.append_assoc, readFull_append 2 magic _ hm]
  simp only [Res.ok_bind, ne_eq, not_true_eq_false, if_false]
  rw [readFull_append 8 _ _ (by simp)]
  simp [beNat_beBytes 8 sid (by simpa using hs)]

theorem readHeader_noPanic (magic r : Bytes) : NoPanic (readHeader magic r) := by
  unfold readHeader
  apply NoPanic.bind (readFull_noPanic 2 r)
  intro a
  apply NoPanic.ite
  · simp
  · apply NoPanic.bind (readFull_noPanic 8 _)
    intro b; simp

@[simp] theorem header_length (magic : Bytes) (sid : Nat) : (header magic sid).length = magic.length + 8 := by
  simp [header]

/-! ## bits -/

/-- Value of a little-endian bit list. -/
def bitsVal (l : List Bool) : Nat := l.foldr (fun b acc => 2 * acc + b.toNat) 0

theorem byteOfBits_eq (l : List Bool) : byteOfBits l = UInt8.ofNat (bitsVal l) := rfl

@[simp] theorem bitsVal_nil : bitsVal [] = 0 := rfl
@[simp] theorem bitsVal_cons (b : Bool) (l : List Bool) : bitsVal (b :: l) = 2 * bitsVal l + b.toNat := rfl

theorem bitsVal_lt (l : List Bool) : bitsVal l < 2 ^ l.length := by
  induction l with
  | nil => simp
  | cons b l ih =>
    simp only [bitsVal_cons, List.length_cons, Nat.pow_succ]
    have : b.toNat ≤ 1 := by cases b <;> simp
    omega

theorem testBit_bitsVal (l : List Bool) (j : Nat) : (bitsVal l).testBit j = l.getD j false := by
  induction l generalizing j with
  | nil => simp
  | cons b l ih =>
    cases j with
    | zero =>
      simp only [bitsVal_cons, Nat.testBit_zero, List.getD_cons_zero]
      cases b <;> simp <;> omega
    | succ j =>
      simp only [bitsVal_cons, Nat.testBit_succ, List.getD_cons_succ]
      have : (2 * bitsVal l + b.toNat) / 2 = bitsVal l := by
        have : b.toNat ≤ 1 := by cases b <;> simp
        omega
      rw [this, ih]

theorem byteOfBits_testBit (l : List Bool) (h : l.length ≤ 8) (j : Nat) :
    (byteOfBits l).toNat.testBit j = l.getD j false := by
  rw [byteOfBits_eq, uint8_ofNat_toNat, testBit_bitsVal]
  have := bitsVal_lt l
  have h2 : 2 ^ l.length ≤ 2 ^ 8 := Nat.pow_le_pow_right (by decide) h
  omega

theorem bitsOfByte_length (b : UInt8) : (bitsOfByte b).length = 8 := by simp [bitsOfByte]

theorem bitsOfByte_byteOfBits (l : List Bool) (h : l.length = 8) : bitsOfByte (byteOfBits l) = l := by
  apply List.ext_getElem
  · simp [bitsOfByte, h]
  · intro i h1 h2
    simp only [bitsOfByte, List.getElem_map, List.getElem_range]
    rw [byteOfBits_testBit l (by omega) i]
    simp [List.getD_eq_getElem?_getD, h2]

theorem bitsToBytes_length (bits : List Bool) : (bitsToBytes bits).length = (bits.length + 7) / 8 := by
  induction bits using bitsToBytes.induct with
  | case1 => simp [bitsToBytes]
  | case2 b rest ih =>
    simp only [bitsToBytes, List.length_cons, ih, List.length_drop]
    omega

theorem bytesToBits_length (data : Bytes) : (bytesToBits data).length = 8 * data.length := by
  induction data with
  | nil => simp [bytesToBits]
  | cons x xs ih =>
    simp only [bytesToBits, List.flatMap_cons, List.length_append, bitsOfByte_length, List.length_cons] at ih ⊢
    omega

theorem bytesToBits_bitsToBytes (bits : List Bool) (h : bits.length % 8 = 0) :
    bytesToBits (bitsToBytes bits) = bits := by
  induction bits using bitsToBytes.induct with
  | case1 => simp [bitsToBytes, bytesToBits]
  | case2 b rest ih =>
    have hlen : 8 ≤ (b :: rest).length := by
      simp only [List.length_cons] at h ⊢; omega
    simp only [bitsToBytes, bytesToBits, List.flatMap_cons]
    have h8 : ((b :: rest).take 8).length = 8 := by simp only [List.length_take]; omega
    rw [bitsOfByte_byteOfBits _ h8]
    have ih' := ih (by simp only [List.length_drop, List.length_cons] at h ⊢; omega)
    simp only [bytesToBits] at ih'
    rw [ih']
    have : rest.drop 7 = (b :: rest).drop 8 := by simp
    rw [this, List.take_append_drop]

/-- The packed sign/bit vector read back bit by bit (`pointSign`). -/
theorem bitsToBytes_getBit (bits : List Bool) (j : Nat) (hj : j < bits.length) :
    ((bitsToBytes bits)[j / 8]?).map (fun b => b.toNat.testBit (j % 8)) = some (bits.getD j false) := by
  induction bits using bitsToBytes.induct generalizing j with
  | case1 => simp at hj
  | case2 b rest ih =>
    simp only [bitsToBytes]
    by_cases h8 : j < 8
    · have : j / 8 = 0 := by omega
      rw [this]
      simp only [List.getElem?_cons_zero, Option.map_some]
      rw [byteOfBits_testBit _ (by simp only [List.length_take]; omega), Nat.mod_eq_of_lt h8]
      simp only [List.getD_eq_getElem?_getD, List.getElem?_take, h8, if_true]
    · have e1 : j / 8 = (j - 8) / 8 + 1 := by omega
      have e2 : j % 8 = (j - 8) % 8 := by omega
      rw [e1, e2, List.getElem?_cons_succ]
      rw [ih (j - 8) (by simp only [List.length_drop, List.length_cons] at hj ⊢; omega)]
      congr 1
      simp only [List.getD_eq_getElem?_getD, List.getElem?_drop]
      have : j = (7 + (j - 8)) + 1 := by omega
      conv => rhs; rw [this, List.getElem?_cons_succ]

theorem pointSign_packed (bits : List Bool) (j : Nat) (hj : j < bits.length) :
    pointSign (bitsToBytes bits) j = .ok (bits.getD j false) := by
  unfold pointSign
  have hne : (bitsToBytes bits).isEmpty = false := by
    cases bits with
    | nil => simp at hj
    | cons b rest => simp [bitsToBytes]
  rw [hne]
  have h := bitsToBytes_getBit bits j hj
  unfold byteAt
  cases hb : (bitsToBytes bits)[j / 8]? with
  | none => rw [hb] at h; simp at h
  | some x =>
    rw [hb] at h
    simp only [Option.map_some, Option.some.injEq] at h
    simp [h]

theorem byteOfBits_bitsOfByte_nat : ∀ n, n < 256 → byteOfBits (bitsOfByte (UInt8.ofNat n)) = UInt8.ofNat n := by
  decide +kernel

theorem byteOfBits_bitsOfByte (x : UInt8) : byteOfBits (bitsOfByte x) = x := by
  have := byteOfBits_bitsOfByte_nat x.toNat x.toNat_lt
  rwa [uint8_ofNat_toNat_self] at this

theorem bitsToBytes_bytesToBits (data : Bytes) : bitsToBytes (bytesToBits data) = data := by
  induction data with
  | nil => simp [bytesToBits, bitsToBytes]
  | cons x xs ih =>
    simp only [bytesToBits, List.flatMap_cons] at ih ⊢
    have hl := bitsOfByte_length x
    match hb : bitsOfByte x, hl with
    | b0 :: rest, hl =>
      simp only [List.cons_append, bitsToBytes]
      have h8 : ((b0 :: (rest ++ List.flatMap bitsOfByte xs)).take 8) = b0 :: rest := by
        have : (b0 :: rest).length = 8 := by rw [← hb]; exact bitsOfByte_length x
        rw [show b0 :: (rest ++ List.flatMap bitsOfByte xs) = (b0 :: rest) ++ List.flatMap bitsOfByte xs by rfl,
          List.take_left' this]
      have h7 : (rest ++ List.flatMap bitsOfByte xs).drop 7 = List.flatMap bitsOfByte xs := by
        have : rest.length = 7 := by
          have : (b0 :: rest).length = 8 := by rw [← hb]; exact bitsOfByte_length x
          simpa using this
        rw [List.drop_left' this]
      rw [h8, h7, ih, ← hb, byteOfBits_bitsOfByte]
    | [], hl => simp at hl

/-- Bit `k` of a packed bit vector, as `pointSign` reads it. -/
def signBit (signs : Bytes) (k : Nat) : Bool := (signs.getD (k / 8) 0).toNat.testBit (k % 8)

theorem pointSign_eq (signs : Bytes) (k : Nat) (h : k / 8 < signs.length) :
    pointSign signs k = .ok (signBit signs k) := by
  unfold pointSign signBit byteAt
  have hne : signs.isEmpty = false := by
    cases signs with
    | nil => simp at h
    | cons a b => rfl
  rw [hne]
  simp [List.getElem?_eq_getElem h, List.getD_eq_getElem?_getD]

theorem bytesToBits_getD (s : Bytes) (k : Nat) (h : k < 8 * s.length) :
    (bytesToBits s).getD k false = signBit s k := by
  induction s generalizing k with
  | nil => simp at h
  | cons x xs ih =>
    simp only [bytesToBits, List.flatMap_cons] at ih ⊢
    by_cases hk : k < 8
    · simp only [List.getD_eq_getElem?_getD]
      rw [List.getElem?_append_left (by rw [bitsOfByte_length]; exact hk)]
      unfold signBit
      have : k / 8 = 0 := by omega
      simp [this, bitsOfByte, hk, Nat.mod_eq_of_lt hk]
    · simp only [List.getD_eq_getElem?_getD] at ih ⊢
      rw [List.getElem?_append_right (by rw [bitsOfByte_length]; omega), bitsOfByte_length]
      rw [ih (k - 8) (by simp only [List.length_cons] at h; omega)]
      unfold signBit
      have e1 : k / 8 = (k - 8) / 8 + 1 := by omega
      have e2 : k % 8 = (k - 8) % 8 := by omega
      rw [e1, e2]
      simp

theorem map_signBit_eq_bytesToBits (s : Bytes) :
    (List.range (8 * s.length)).map (signBit s) = bytesToBits s := by
  apply List.ext_getElem
  · simp [bytesToBits_length]
  · intro i h1 h2
    simp only [List.getElem_map, List.getElem_range]
    have := bytesToBits_getD s i (by simpa using h1)
    rw [← this]
    simp [List.getD_eq_getElem?_getD, h2]

/-! ## chunks, labels, pairs, rows -/

theorem chunks_append (n : Nat) (hn : 0 < n) (x rest : Bytes) (hx : x.length = n) :
    chunks n (x ++ rest) = x :: chunks n rest := by
  cases x with
  | nil => simp at hx; omega
  | cons a x =>
    simp only [List.cons_append]
    rw [chunks, dif_neg (by omega)]
    have e : (a :: (x ++ rest)) = (a :: x) ++ rest := rfl
    rw [e, List.take_left' hx, List.drop_left' hx]

theorem labelsOfBytes_bytesOfLabels (ls : List Label) : labelsOfBytes (bytesOfLabels ls) = ls := by
  induction ls with
  | nil => simp [labelsOfBytes, bytesOfLabels, chunks]
  | cons l ls ih =>
    simp only [labelsOfBytes, bytesOfLabels, List.flatMap_cons] at ih ⊢
    rw [chunks_append labelLen (by decide) _ _ (by simp [labelLen])]
    simp [labelOfBytes_bytesOfLabel, ih]

@[simp] theorem bytesOfLabels_length (ls : List Label) : (bytesOfLabels ls).length = 16 * ls.length := by
  induction ls with
  | nil => simp [bytesOfLabels]
  | cons l ls ih =>
    simp only [bytesOfLabels, List.flatMap_cons, List.length_append, bytesOfLabel_length, List.length_cons] at ih ⊢
    omega

theorem bytesOfLabels_append (a b : List Label) : bytesOfLabels (a ++ b) = bytesOfLabels a ++ bytesOfLabels b := by
  simp [bytesOfLabels]

theorem labelsOfBytes_spec (k : Nat) (s : Bytes) (h : s.length = 16 * k) :
    bytesOfLabels (labelsOfBytes s) = s ∧ (labelsOfBytes s).length = k := by
  induction k generalizing s with
  | zero =>
    have : s = [] := List.eq_nil_of_length_eq_zero (by omega)
    simp [this, labelsOfBytes, bytesOfLabels, chunks]
  | succ k ih =>
    have hsplit : s = s.take 16 ++ s.drop 16 := (List.take_append_drop 16 s).symm
    have ht : (s.take 16).length = 16 := by simp only [List.length_take]; omega
    have hd : (s.drop 16).length = 16 * k := by simp only [List.length_drop]; omega
    obtain ⟨ih1, ih2⟩ := ih (s.drop 16) hd
    have hc : labelsOfBytes s = labelOfBytes (s.take 16) :: labelsOfBytes (s.drop 16) := by
      conv => lhs; rw [hsplit]
      simp only [labelsOfBytes]
      rw [chunks_append labelLen (by decide) _ _ (by simpa [labelLen] using ht)]
      simp
    rw [hc]
    constructor
    · simp only [bytesOfLabels, List.flatMap_cons] at ih1 ⊢
      rw [ih1, bytesOfLabel_labelOfBytes _ ht, List.take_append_drop]
    · simp [ih2]

@[simp] theorem pairs_unpairs {α : Type} (l : List (α × α)) : pairs (unpairs l) = l := by
  induction l with
  | nil => simp [unpairs, pairs]
  | cons p l ih =>
    simp only [unpairs, List.flatMap_cons] at ih ⊢
    simp [pairs, ih]

@[simp] theorem unpairs_length {α : Type} (l : List (α × α)) : (unpairs l).length = 2 * l.length := by
  induction l with
  | nil => simp [unpairs]
  | cons p l ih =>
    simp only [unpairs, List.flatMap_cons, List.length_append, List.length_cons] at ih ⊢
    simp at ih ⊢
    omega

theorem pairs_spec {α : Type} (k : Nat) (l : List α) (h : l.length = 2 * k) :
    unpairs (pairs l) = l ∧ (pairs l).length = k := by
  induction k generalizing l with
  | zero =>
    have : l = [] := List.eq_nil_of_length_eq_zero (by omega)
    simp [this, pairs, unpairs]
  | succ k ih =>
    match l, h with
    | a :: b :: rest, h =>
      obtain ⟨i1, i2⟩ := ih rest (by simp only [List.length_cons] at h; omega)
      simp only [pairs, unpairs, List.flatMap_cons] at i1 ⊢
      constructor
      · rw [i1]; rfl
      · simp [i2]
    | [_], h => simp at h; omega
    | [], h => simp at h

theorem splitRows_flatten (rows : List (List Label)) (rest : List Label) :
    splitRows (rows.map List.length) (rows.flatten ++ rest) = rows := by
  induction rows with
  | nil => simp [splitRows]
  | cons r rows ih =>
    simp only [List.map_cons, List.flatten_cons, splitRows, List.append_assoc]
    rw [List.take_left' rfl, List.drop_left' rfl, ih]

theorem splitRows_spec (counts : List Nat) (ls : List Label) (h : counts.sum ≤ ls.length) :
    (splitRows counts ls).map List.length = counts ∧ (splitRows counts ls).flatten = ls.take counts.sum := by
  induction counts generalizing ls with
  | nil => simp [splitRows]
  | cons c cs ih =>
    simp only [List.sum_cons] at h
    obtain ⟨i1, i2⟩ := ih (ls.drop c) (by simp only [List.length_drop]; omega)
    simp only [splitRows, List.map_cons, List.length_take, List.flatten_cons, List.sum_cons]
    refine ⟨?_, ?_⟩
    · rw [i1, Nat.min_eq_left (by omega)]
    · rw [i2, List.take_add]

theorem splitRows_length (counts : List Nat) (ls : List Label) : (splitRows counts ls).length = counts.length := by
  induction counts generalizing ls with
  | nil => simp [splitRows]
  | cons c cs ih => simp [splitRows, ih]

theorem flatten_length_eq_sum (rows : List (List Label)) : rows.flatten.length = (rows.map List.length).sum := by
  induction rows with
  | nil => simp
  | cons r rows ih => simp [ih]

end Mpc.Sha2pc

/-
Definitions and lemmas about `Ty.inst` (`types.Info.InstantiateWithSizes`,
Model/IoInst.lean) used by Props/C13.lean: which types are *sized* (nothing for
the size inference to decide), the layout invariant of a struct (offsets are
the running sums, `Bits` is the total), the relation "differs only in unsized
leaves", and the inductions over the type tree.
-/
import MpcVerif.Model.IoInst

namespace Mpc.IoArg

/-- `TBool`, `TInt`, `TUint`, `TFloat` -/
def Tag.scalar : Tag → Bool
  | .bool | .int | .uint | .float => true
  | _ => false

mutual
/-- every leaf of the type has the size that is written in its declaration:
scalars and arrays with `IsConcrete`, arrays over a concrete element type,
structs of such members.  A slice is never sized (its length is the input's). -/
def Ty.sized : Ty → Bool
  | .base tag c _ _ _ => c && tag.scalar
  | .elem tag c _ _ _ el => c && (tag.scalar || (tag == .array && el.concrete))
  | .struct c _ _ _ fs => c && sizedAll fs
def sizedAll : List Ty → Bool
  | [] => true
  | f :: fs => f.sized && sizedAll fs
end

mutual
/-- the struct layout invariant (`defineType`, `InstantiateWithSizes`): member
offsets are the running sums of the member widths starting at 0, the struct's
`Bits` is the total; recursively for struct members. -/
def Ty.layoutOk : Ty → Bool
  | .base _ _ _ _ _ => true
  | .elem _ _ _ _ _ _ => true
  | .struct _ b _ _ fs => layoutAll fs 0 b
def layoutAll : List Ty → Nat → Nat → Bool
  | [], acc, total => acc == total
  | f :: fs, acc, total => f.off == acc && f.layoutOk && layoutAll fs (acc + f.bits) total
end

mutual
/-- how many entries of `sizes` the instantiation needs: a struct member reads
from `sizes[consumed:]`, `consumed` = `numSizes` of the members before it. -/
def Ty.span : Ty → Nat
  | .base _ _ _ _ _ => 1
  | .elem _ _ _ _ _ _ => 1
  | .struct _ _ _ _ fs => max 1 (spanAll fs)
def spanAll : List Ty → Nat
  | [] => 0
  | f :: fs => max f.span (f.numSizes + spanAll fs)
end

mutual
/-- `t'` is `t` except for what the size inference decides: the width of a
scalar that is not `IsConcrete`, the length and width of an array that is not
`IsConcrete` and of a slice, and the bookkeeping fields (`IsConcrete`,
`Offset`, a struct's total `Bits`).  Tags, member count and order, element
types, and width and length of everything else are the same. -/
def Ty.agree : Ty → Ty → Prop
  | .base tag c b n _, t' =>
    ∃ c' b' o', t' = .base tag c' b' n o' ∧ ((tag = .bool ∨ c = true) → b' = b)
  | .elem tag c b n _ el, t' =>
    ∃ c' b' n' o', t' = .elem tag c' b' n' o' el ∧
      ((tag ≠ .slice ∧ (tag = .bool ∨ c = true)) → (b' = b ∧ n' = n))
  | .struct _ _ n _ fs, t' =>
    ∃ c' b' o' fs', t' = .struct c' b' n o' fs' ∧ agreeAll fs fs'
def agreeAll : List Ty → List Ty → Prop
  | [], fs' => fs' = []
  | f :: fs, fs' => ∃ g gs, fs' = g :: gs ∧ f.agree g ∧ agreeAll fs gs
end

/-! ## small facts -/

theorem Ty.setOff_off (t : Ty) : t.setOff t.off = t := by
  cases t <;> rfl

theorem Ty.setOff_bits (t : Ty) (o : Nat) : (t.setOff o).bits = t.bits := by
  cases t <;> rfl

theorem Ty.off_setOff (t : Ty) (o : Nat) : (t.setOff o).off = o := by
  cases t <;> rfl

theorem Ty.layoutOk_setOff (t : Ty) (o : Nat) : (t.setOff o).layoutOk = t.layoutOk := by
  cases t <;> simp [Ty.setOff, Ty.layoutOk]

theorem Ty.agree_setOff (t t' : Ty) (o : Nat) (h : t.agree t') : t.agree (t'.setOff o) := by
  cases t with
  | base tag c b n off =>
    obtain ⟨c', b', o', rfl, hb⟩ := h
    exact ⟨c', b', o, rfl, hb⟩
  | elem tag c b n off el =>
    obtain ⟨c', b', n', o', rfl, hb⟩ := h
    exact ⟨c', b', n', o, rfl, hb⟩
  | struct c b n off fs =>
    obtain ⟨c', b', o', fs', rfl, hfs⟩ := h
    exact ⟨c', b', o, fs', rfl, hfs⟩

theorem Ty.span_pos (t : Ty) : 1 ≤ t.span := by
  cases t <;> simp [Ty.span] <;> omega

/-! ## identity on sized types -/

mutual
theorem Ty.inst_sized : ∀ (t : Ty) (sizes : List Nat), t.sized = true → t.layoutOk = true →
    t.span ≤ sizes.length → t.inst sizes = .ok t
  | .base tag c b n o, sizes, hs, _, hl => by
    cases sizes with
    | nil => simp [Ty.span] at hl
    | cons s rest =>
      simp only [Ty.sized, Bool.and_eq_true] at hs
      obtain ⟨rfl, ht⟩ := hs
      cases tag <;> simp [Tag.scalar] at ht <;> simp [Ty.inst]
  | .elem tag c b n o el, sizes, hs, _, hl => by
    cases sizes with
    | nil => simp [Ty.span] at hl
    | cons s rest =>
      simp only [Ty.sized, Bool.and_eq_true] at hs
      obtain ⟨rfl, ht⟩ := hs
      cases tag <;> simp [Tag.scalar] at ht <;> simp [Ty.inst, ht]
  | .struct c b n o fs, sizes, hs, hlay, hl => by
    cases sizes with
    | nil => have := Ty.span_pos (.struct c b n o fs); simp at hl; omega
    | cons s rest =>
      simp only [Ty.sized, Bool.and_eq_true] at hs
      obtain ⟨rfl, hfs⟩ := hs
      have hsp : spanAll fs ≤ (s :: rest).length := by
        simp only [Ty.span] at hl; omega
      simp only [Ty.layoutOk] at hlay
      simp [Ty.inst, instFields_sized fs (s :: rest) 0 b hfs hlay hsp]
theorem instFields_sized : ∀ (fs : List Ty) (sizes : List Nat) (acc total : Nat), sizedAll fs = true →
    layoutAll fs acc total = true → spanAll fs ≤ sizes.length → instFields fs sizes acc = .ok (fs, total)
  | [], sizes, acc, total, _, hlay, _ => by
    simp [layoutAll] at hlay
    simp [instFields, hlay]
  | f :: fs, sizes, acc, total, hs, hlay, hl => by
    simp only [sizedAll, Bool.and_eq_true] at hs
    simp only [layoutAll, Bool.and_eq_true, beq_iff_eq] at hlay
    obtain ⟨⟨hoff, hfl⟩, hrest⟩ := hlay
    simp only [spanAll] at hl
    cases sizes with
    | nil => have := Ty.span_pos f; simp at hl; omega
    | cons s rest =>
      have h1 : f.span ≤ (s :: rest).length := by omega
      have h2 : spanAll fs ≤ ((s :: rest).drop f.numSizes).length := by
        rw [List.length_drop]; omega
      subst hoff
      have hf := Ty.inst_sized f (s :: rest) hs.1 hfl h1
      have hr := instFields_sized fs ((s :: rest).drop f.numSizes) (f.off + f.bits) total hs.2 hrest h2
      simp only [instFields, hf, hr, Ty.setOff_off]
end

/-! ## only unsized leaves are touched -/

mutual
theorem Ty.inst_agree : ∀ (t : Ty) (sizes : List Nat) (t' : Ty), t.inst sizes = .ok t' → t.agree t'
  | .base tag c b n o, sizes, t', h => by
    cases sizes with
    | nil => simp [Ty.inst] at h
    | cons s rest =>
      cases tag <;> simp [Ty.inst] at h <;> subst h <;> simp [Ty.agree]
      all_goals (intro hc; simp [hc])
  | .elem tag c b n o el, sizes, t', h => by
    cases sizes with
    | nil => simp [Ty.inst] at h
    | cons s rest =>
      cases tag <;> simp [Ty.inst] at h
      case bool => subst h; simp [Ty.agree]
      case int => subst h; simp [Ty.agree]; exact ⟨_, _, ⟨rfl, rfl⟩, fun hc => by simp [hc]⟩
      case uint => subst h; simp [Ty.agree]; exact ⟨_, _, ⟨rfl, rfl⟩, fun hc => by simp [hc]⟩
      case float => subst h; simp [Ty.agree]; exact ⟨_, _, ⟨rfl, rfl⟩, fun hc => by simp [hc]⟩
      case array =>
        split at h
        · simp at h
        · split at h
          · simp at h; subst h; simp [Ty.agree]; exact ⟨_, _, ⟨rfl, rfl⟩, fun _ => ⟨rfl, rfl⟩⟩
          · split at h
            · simp at h
            · simp at h; subst h
              rename_i hc _
              simp [Ty.agree]; exact ⟨_, _, ⟨rfl, rfl⟩, fun hc' => absurd hc' hc⟩
      case slice =>
        split at h
        · simp at h
        · split at h
          · simp at h
          · simp at h; subst h; simp [Ty.agree]
  | .struct c b n o fs, sizes, t', h => by
    cases sizes with
    | nil => simp [Ty.inst] at h
    | cons s rest =>
      simp only [Ty.inst] at h
      cases hf : instFields fs (s :: rest) 0 with
      | error e => simp [hf] at h
      | ok p =>
        obtain ⟨fs', total⟩ := p
        simp [hf] at h; subst h
        exact ⟨true, total, o, fs', rfl, instFields_agree fs (s :: rest) 0 fs' total hf⟩
theorem instFields_agree : ∀ (fs : List Ty) (sizes : List Nat) (acc : Nat) (fs' : List Ty) (total : Nat),
    instFields fs sizes acc = .ok (fs', total) → agreeAll fs fs'
  | [], sizes, acc, fs', total, h => by
    simp [instFields] at h
    simp [agreeAll, h.1.symm]
  | f :: fs, sizes, acc, fs', total, h => by
    cases sizes with
    | nil => simp [instFields] at h
    | cons s rest =>
      simp only [instFields] at h
      cases hf : f.inst (s :: rest) with
      | error e => simp [hf] at h
      | ok f' =>
        simp only [hf] at h
        cases hr : instFields fs ((s :: rest).drop f'.numSizes) (acc + f'.bits) with
        | error e => simp [hr] at h
        | ok p =>
          obtain ⟨gs, tot⟩ := p
          simp [hr] at h
          obtain ⟨rfl, rfl⟩ := h
          exact ⟨f'.setOff acc, gs, rfl, Ty.agree_setOff f f' acc (Ty.inst_agree f (s :: rest) f' hf),
            instFields_agree fs _ (acc + f'.bits) gs tot hr⟩
end

/-! ## the result has the struct layout -/

mutual
theorem Ty.inst_layout : ∀ (t : Ty) (sizes : List Nat) (t' : Ty), t.inst sizes = .ok t' → t'.layoutOk = true
  | .base tag c b n o, sizes, t', h => by
    cases sizes with
    | nil => simp [Ty.inst] at h
    | cons s rest => cases tag <;> simp [Ty.inst] at h <;> subst h <;> rfl
  | .elem tag c b n o el, sizes, t', h => by
    cases sizes with
    | nil => simp [Ty.inst] at h
    | cons s rest =>
      cases tag <;> simp [Ty.inst] at h
      case bool => subst h; rfl
      case int => subst h; rfl
      case uint => subst h; rfl
      case float => subst h; rfl
      case array =>
        split at h
        · simp at h
        · split at h
          · simp at h; subst h; rfl
          · split at h
            · simp at h
            · simp at h; subst h; rfl
      case slice =>
        split at h
        · simp at h
        · split at h
          · simp at h
          · simp at h; subst h; rfl
  | .struct c b n o fs, sizes, t', h => by
    cases sizes with
    | nil => simp [Ty.inst] at h
    | cons s rest =>
      simp only [Ty.inst] at h
      cases hf : instFields fs (s :: rest) 0 with
      | error e => simp [hf] at h
      | ok p =>
        obtain ⟨fs', total⟩ := p
        simp [hf] at h; subst h
        simp only [Ty.layoutOk]
        exact instFields_layout fs (s :: rest) 0 fs' total hf
theorem instFields_layout : ∀ (fs : List Ty) (sizes : List Nat) (acc : Nat) (fs' : List Ty) (total : Nat),
    instFields fs sizes acc = .ok (fs', total) → layoutAll fs' acc total = true
  | [], sizes, acc, fs', total, h => by
    simp [instFields] at h
    obtain ⟨rfl, rfl⟩ := h
    simp [layoutAll]
  | f :: fs, sizes, acc, fs', total, h => by
    cases sizes with
    | nil => simp [instFields] at h
    | cons s rest =>
      simp only [instFields] at h
      cases hf : f.inst (s :: rest) with
      | error e => simp [hf] at h
      | ok f' =>
        simp only [hf] at h
        cases hr : instFields fs ((s :: rest).drop f'.numSizes) (acc + f'.bits) with
        | error e => simp [hr] at h
        | ok p =>
          obtain ⟨gs, tot⟩ := p
          simp [hr] at h
          obtain ⟨rfl, rfl⟩ := h
          simp only [layoutAll, Bool.and_eq_true, beq_iff_eq]
          refine ⟨⟨Ty.off_setOff f' acc, ?_⟩, ?_⟩
          · rw [Ty.layoutOk_setOff]; exact Ty.inst_layout f (s :: rest) f' hf
          · rw [Ty.setOff_bits]; exact instFields_layout fs _ (acc + f'.bits) gs tot hr
end

/-! ## leaf `k` of the flattened type is instantiated from `sizes[k:]` -/

theorem Ty.leaves_setOff_erase (t : Ty) (a : Nat) :
    (t.setOff a).leaves.map (·.setOff 0) = t.leaves.map (·.setOff 0) := by
  cases t <;> simp [Ty.setOff, Ty.leaves]

mutual
/-- `numSizes` counts the leaves of `flattenStruct` -/
theorem Ty.numSizes_eq : ∀ (t : Ty), t.numSizes = t.leaves.length
  | .base _ _ _ _ _ => by simp [Ty.numSizes, Ty.leaves]
  | .elem _ _ _ _ _ _ => by simp [Ty.numSizes, Ty.leaves]
  | .struct _ _ _ _ fs => by simp only [Ty.numSizes, Ty.leaves]; exact numSizesAll_eq fs
theorem numSizesAll_eq : ∀ (fs : List Ty), numSizesAll fs = (leavesAll fs).length
  | [] => by simp [numSizesAll, leavesAll]
  | f :: fs => by
    simp only [numSizesAll, leavesAll, List.length_append]
    rw [Ty.numSizes_eq f, numSizesAll_eq fs]
end

/-- what every leaf should become: leaf `k` instantiated on its own from the
sizes from entry `k` on (offsets erased: they are struct bookkeeping) -/
def instLeavesSpec : List Ty → List Nat → List (Except Err Ty)
  | [], _ => []
  | l :: ls, sizes => (l.inst sizes).map (·.setOff 0) :: instLeavesSpec ls (sizes.drop 1)

theorem instLeavesSpec_length : ∀ (ls : List Ty) (sizes : List Nat), (instLeavesSpec ls sizes).length = ls.length
  | [], _ => rfl
  | l :: ls, sizes => by simp [instLeavesSpec, instLeavesSpec_length ls]

theorem instLeavesSpec_append : ∀ (as bs : List Ty) (sizes : List Nat),
    instLeavesSpec (as ++ bs) sizes = instLeavesSpec as sizes ++ instLeavesSpec bs (sizes.drop as.length)
  | [], bs, sizes => by simp [instLeavesSpec]
  | a :: as, bs, sizes => by
    simp only [List.cons_append, instLeavesSpec, List.length_cons, instLeavesSpec_append as bs, List.drop_drop]
    rw [Nat.add_comm 1 as.length]

theorem instLeavesSpec_get : ∀ (ls : List Ty) (sizes : List Nat) (k : Nat) (hk : k < ls.length),
    (instLeavesSpec ls sizes)[k]? = some ((ls[k].inst (sizes.drop k)).map (·.setOff 0))
  | [], _, k, hk => by simp at hk
  | l :: ls, sizes, 0, _ => by simp [instLeavesSpec]
  | l :: ls, sizes, k + 1, hk => by
    have hk' : k < ls.length := by simpa using hk
    simp only [instLeavesSpec, List.getElem?_cons_succ, List.getElem_cons_succ]
    rw [instLeavesSpec_get ls (sizes.drop 1) k hk', List.drop_drop, Nat.add_comm 1 k]

mutual
theorem Ty.inst_leaves : ∀ (t : Ty) (sizes : List Nat) (t' : Ty), t.inst sizes = .ok t' →
    t'.leaves.map (fun g => (Except.ok (g.setOff 0) : Except Err Ty)) = instLeavesSpec t.leaves sizes
  | .base tag c b n o, sizes, t', h => by
    obtain ⟨c', b', o', rfl, _⟩ := Ty.inst_agree _ sizes t' h
    simp [Ty.leaves, instLeavesSpec, h, Except.map]
  | .elem tag c b n o el, sizes, t', h => by
    obtain ⟨c', b', n', o', rfl, _⟩ := Ty.inst_agree _ sizes t' h
    simp [Ty.leaves, instLeavesSpec, h, Except.map]
  | .struct c b n o fs, sizes, t', h => by
    cases sizes with
    | nil => simp [Ty.inst] at h
    | cons s rest =>
      simp only [Ty.inst] at h
      cases hf : instFields fs (s :: rest) 0 with
      | error e => simp [hf] at h
      | ok p =>
        obtain ⟨fs', total⟩ := p
        simp [hf] at h; subst h
        simp only [Ty.leaves]
        exact instFields_leaves fs (s :: rest) 0 fs' total hf
theorem instFields_leaves : ∀ (fs : List Ty) (sizes : List Nat) (acc : Nat) (fs' : List Ty) (total : Nat),
    instFields fs sizes acc = .ok (fs', total) →
    (leavesAll fs').map (fun g => (Except.ok (g.setOff 0) : Except Err Ty)) = instLeavesSpec (leavesAll fs) sizes
  | [], sizes, acc, fs', total, h => by
    simp [instFields] at h
    obtain ⟨rfl, rfl⟩ := h
    simp [leavesAll, instLeavesSpec]
  | f :: fs, sizes, acc, fs', total, h => by
    cases sizes with
    | nil => simp [instFields] at h
    | cons s rest =>
      simp only [instFields] at h
      cases hf : f.inst (s :: rest) with
      | error e => simp [hf] at h
      | ok f' =>
        simp only [hf] at h
        cases hr : instFields fs ((s :: rest).drop f'.numSizes) (acc + f'.bits) with
        | error e => simp [hr] at h
        | ok p =>
          obtain ⟨gs, tot⟩ := p
          simp [hr] at h
          obtain ⟨rfl, rfl⟩ := h
          have ih1 := Ty.inst_leaves f (s :: rest) f' hf
          have ih2 := instFields_leaves fs _ (acc + f'.bits) gs tot hr
          have hlen : f'.numSizes = f.leaves.length := by
            have := congrArg List.length ih1
            rw [List.length_map, instLeavesSpec_length] at this
            rw [Ty.numSizes_eq, this]
          have herase : (f'.setOff acc).leaves.map (fun g => (Except.ok (g.setOff 0) : Except Err Ty)) =
              f'.leaves.map (fun g => (Except.ok (g.setOff 0) : Except Err Ty)) := by
            have := congrArg (List.map (fun g => (Except.ok g : Except Err Ty))) (Ty.leaves_setOff_erase f' acc)
            simpa [List.map_map, Function.comp_def] using this
          simp only [leavesAll, List.map_append, instLeavesSpec_append, herase, ih1, ← hlen, ih2]
end

/-! ## flattening keeps the agreement -/

theorem agreeAll_append : ∀ (as as' bs bs' : List Ty), agreeAll as as' → agreeAll bs bs' →
    agreeAll (as ++ bs) (as' ++ bs')
  | [], as', bs, bs', ha, hb => by
    simp [agreeAll] at ha; subst ha; simpa using hb
  | a :: as, as', bs, bs', ha, hb => by
    obtain ⟨g, gs, rfl, hg, hgs⟩ := ha
    exact ⟨g, gs ++ bs', by simp, hg, agreeAll_append as gs bs bs' hgs hb⟩

mutual
theorem Ty.agree_leaves : ∀ (t t' : Ty), t.agree t' → agreeAll t.leaves t'.leaves
  | .base tag c b n o, t', h => by
    obtain ⟨c', b', o', rfl, hb⟩ := h
    exact ⟨_, [], rfl, ⟨c', b', o', rfl, hb⟩, rfl⟩
  | .elem tag c b n o el, t', h => by
    obtain ⟨c', b', n', o', rfl, hb⟩ := h
    exact ⟨_, [], rfl, ⟨c', b', n', o', rfl, hb⟩, rfl⟩
  | .struct c b n o fs, t', h => by
    obtain ⟨c', b', o', fs', rfl, hfs⟩ := h
    simp only [Ty.leaves]
    exact agreeAll_leaves fs fs' hfs
theorem agreeAll_leaves : ∀ (fs fs' : List Ty), agreeAll fs fs' → agreeAll (leavesAll fs) (leavesAll fs')
  | [], fs', h => by
    simp [agreeAll] at h; subst h; simp [leavesAll, agreeAll]
  | f :: fs, fs', h => by
    obtain ⟨g, gs, rfl, hg, hgs⟩ := h
    simp only [leavesAll]
    exact agreeAll_append _ _ _ _ (Ty.agree_leaves f g hg) (agreeAll_leaves fs gs hgs)
end

/-- position-wise reading of `agreeAll` -/
theorem agreeAll_get : ∀ (fs fs' : List Ty), agreeAll fs fs' → fs'.length = fs.length ∧
    ∀ k (hk : k < fs.length), ∃ g, fs'[k]? = some g ∧ fs[k].agree g
  | [], fs', h => by
    simp [agreeAll] at h; subst h; simp
  | f :: fs, fs', h => by
    obtain ⟨g, gs, rfl, hg, hgs⟩ := h
    have ih := agreeAll_get fs gs hgs
    refine ⟨by simp [ih.1], ?_⟩
    intro k hk
    cases k with
    | zero => exact ⟨g, by simp, by simpa using hg⟩
    | succ k =>
      have hk' : k < fs.length := by simpa using hk
      obtain ⟨g', h1, h2⟩ := ih.2 k hk'
      exact ⟨g', by simpa using h1, by simpa using h2⟩

/-- a sized non-struct type keeps the `Info` that `IOArg.Parse` reads -/
theorem Ty.agree_sized_toInfo (l l' : Ty) (hleaf : ∀ c b n o fs, l ≠ .struct c b n o fs)
    (hs : l.sized = true) (h : l.agree l') : l'.toInfo = l.toInfo := by
  cases l with
  | base tag c b n o =>
    obtain ⟨c', b', o', rfl, hb⟩ := h
    simp only [Ty.sized, Bool.and_eq_true] at hs
    simp [Ty.toInfo, hb (Or.inr hs.1)]
  | elem tag c b n o el =>
    obtain ⟨c', b', n', o', rfl, hb⟩ := h
    simp only [Ty.sized, Bool.and_eq_true] at hs
    obtain ⟨rfl, ht⟩ := hs
    have hns : tag ≠ .slice := by
      intro h; subst h; simp [Tag.scalar] at ht
    obtain ⟨rfl, rfl⟩ := hb ⟨hns, Or.inr rfl⟩
    simp [Ty.toInfo]
  | struct c b n o fs => exact absurd rfl (hleaf c b n o fs)

/-! ## `flattenStruct` yields no struct -/

mutual
theorem Ty.leaves_not_struct : ∀ (t l : Ty), l ∈ t.leaves → ∀ c b n o fs, l ≠ .struct c b n o fs
  | .base tag c b n o, l, h => by
    simp [Ty.leaves] at h; subst h; intros; simp
  | .elem tag c b n o el, l, h => by
    simp [Ty.leaves] at h; subst h; intros; simp
  | .struct c b n o fs, l, h => by
    simp only [Ty.leaves] at h
    exact leavesAll_not_struct fs l h
theorem leavesAll_not_struct : ∀ (fs : List Ty) (l : Ty), l ∈ leavesAll fs → ∀ c b n o gs, l ≠ .struct c b n o gs
  | [], l, h => by simp [leavesAll] at h
  | f :: fs, l, h => by
    simp only [leavesAll, List.mem_append] at h
    rcases h with h | h
    · exact Ty.leaves_not_struct f l h
    · exact leavesAll_not_struct fs l h
end

end Mpc.IoArg

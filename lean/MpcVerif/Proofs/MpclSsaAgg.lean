/-
Arrays and structs: reading a component (`slice`, `index`; `lowerE` cases
`.idx`, `.fld`) and replacing one (`amov`; `assignVal`) agree with the
reference interpreter's `vs[k]?` / `Val.update`.
-/
import MpcVerif.Proofs.MpclSsaExpr

namespace Mpc.Mpcl.Ssa
open Mpc.Mpcl

/-- A compile-time index evaluates to itself. -/
theorem constIdx_sound (P : Prog) {nm : NEnv} {e : Expr} {k : Nat} {env : Env} {st : Nat → Nat}
    (h : constIdx nm e = some k) (hrel : Rel st nm env) :
    ∃ s w, evalE P 1 e env = some (.num s w k) := by
  cases e with
  | lit t n =>
    simp only [constIdx] at h
    cases hnt : numTy t with
    | none => simp [hnt] at h
    | some q =>
      obtain ⟨s, w⟩ := q
      simp only [hnt] at h
      split at h
      · rename_i hok
        simp only [Option.some.injEq] at h; subst h
        have hlt := lt_of_constOk (litOk_lt hok)
        refine ⟨s, w, ?_⟩
        cases t <;> simp [numTy] at hnt
        · obtain ⟨e1, e2⟩ := hnt; subst e1; subst e2; simp [evalE, litVal, wrap, Nat.mod_eq_of_lt hlt]
        · obtain ⟨e1, e2⟩ := hnt; subst e1; subst e2; simp [evalE, litVal, wrap, Nat.mod_eq_of_lt hlt]
      · cases h
  | var x =>
    simp only [constIdx] at h
    cases hf : nm.find x with
    | none => simp [hf] at h
    | some b =>
      cases b with
      | val _ _ => simp [hf] at h
      | konst n =>
        simp only [hf, Option.some.injEq] at h; subst h
        obtain ⟨v, hlook, _, hv⟩ := Rel.find hrel _ hf
        exact ⟨true, 32, by simp [evalE, hlook, hv]⟩
  | _ => simp [constIdx] at h

theorem constIdx_mono (P : Prog) {e : Expr} {env : Env} {v : Val} (h : evalE P 1 e env = some v) (f : Nat) :
    evalE P (f + 1) e env = some v := evalE_mono P (by omega) e env v h

theorem slice_step {a : SArg} {off w id x wa : Nat} {st st' : Nat → Nat}
    (h : ssaSteps [sliceI a off w id] st = some st') (ha : argVal st a = (x, wa)) :
    st' = fun j => if j = id then (x >>> off) % 2 ^ w else st j := by
  obtain ⟨r, hev, hst⟩ := ssaSteps_one h
  have hk1 : argVal st (.k off) = (off, 0) := rfl
  have hk2 : argVal st (.k (off + w)) = (off + w, 0) := rfl
  simp only [List.map_cons, List.map_nil, ha, hk1, hk2, evalOp, Option.some.injEq, Nat.add_sub_cancel_left,
    Nat.mod_mod] at hev
  subst hev
  exact hst

theorem idx_case (P : Prog) (f : Nat) (ih : ESound P f) (a i : Expr) : ESoundAt P (f + 1) (.idx a i) := by
  intro nm next aa t code next' env st st' h hrel hbel hrun
  simp only [lowerE] at h
  cases hla : lowerE P f nm a next with
  | none => simp [hla] at h
  | some ra =>
    obtain ⟨aa1, ta, ca, n1⟩ := ra
    cases ta with
    | arr n e =>
      simp only [hla] at h
      split at h
      · cases h
      · rename_i hnc
        cases hci : constIdx nm i with
        | some k =>
          simp only [hci] at h
          split at h
          · rename_i hkn
            simp only [Option.some.injEq, Prod.mk.injEq] at h
            obtain ⟨h1, h2, h3, h4⟩ := h
            subst h1; subst h2; subst h3; subst h4
            obtain ⟨st1, hr1, hr3⟩ := ssaSteps_split hrun
            obtain ⟨wa1, a1, f1, harg1, hlt1, hle1, hor1, hc1, he1, hfr1, hn1, hnr1, hab1⟩ :=
              ih a nm next aa1 (.arr n e) ca n1 env st st1 hla hrel hbel hr1
            have hst' := slice_step hr3 harg1
            subst hst'
            obtain ⟨s, w, hiv⟩ := constIdx_sound P hci hrel
            refine ⟨e.bits, (a1 >>> (k * e.bits)) % 2 ^ e.bits, max f1 1 + 1, by simp [argVal, SStore.get],
              Nat.mod_lt _ (two_pow_pos _), Nat.le_refl _, Or.inl rfl, ?_, ?_, ?_, by omega, ?_, by simp [ArgBelow]⟩
            · intro hc; simp [SArg.isConst] at hc
            · simp only [evalE, evalE_mono P (Nat.le_max_left f1 1) a env _ he1,
                evalE_mono P (Nat.le_max_right f1 1) i env _ hiv, Ty.decode]
              simp [hkn, decode_mod_bits]
            · exact hfr1.trans (Frame_set (by omega)) (by omega)
            · exact NoRet_append hnr1 (NoRet_one (by simp [sliceI]))
          · cases h
        | none =>
          simp only [hci] at h
          cases hli : lowerE P f nm i n1 with
          | none => simp [hli] at h
          | some ri =>
            obtain ⟨ia, ti, ci, n2⟩ := ri
            cases ti with
            | uint w =>
              simp only [hli] at h
              split at h
              · cases h
              · rename_i hnci
                split at h
                · rename_i hwn
                  simp only [Option.some.injEq, Prod.mk.injEq] at h
                  obtain ⟨h1, h2, h3, h4⟩ := h
                  subst h1; subst h2; subst h3; subst h4
                  obtain ⟨st2, hr12, hr3⟩ := ssaSteps_split hrun
                  obtain ⟨st1, hr1, hr2⟩ := ssaSteps_split hr12
                  obtain ⟨wa1, a1, f1, harg1, hlt1, hle1, hor1, hc1, he1, hfr1, hn1, hnr1, hab1⟩ :=
                    ih a nm next aa1 (.arr n e) ca n1 env st st1 hla hrel hbel hr1
                  obtain ⟨wa2, a2, f2, harg2, hlt2, hle2, hor2, hc2, he2, hfr2, hn2, hnr2, hab2⟩ :=
                    ih i nm n1 ia (.uint w) ci n2 env st1 st2 hli (hrel.frame hbel hfr1) (hbel.mono hn1) hr2
                  have harg1' : argVal st2 aa1 = (a1, wa1) := by rw [argVal_frame hab1 hfr2]; exact harg1
                  have hwa1 : wa1 = n * e.bits := by
                    rcases hor1 with e1 | e1
                    · simpa [Ty.bits] using e1
                    · simp [e1] at hnc
                  have hwa2 : wa2 = w := by
                    rcases hor2 with e1 | e1
                    · simpa [Ty.bits] using e1
                    · simp [e1] at hnci
                  subst hwa1; subst hwa2
                  have ha2n : a2 < n := Nat.lt_of_lt_of_le hlt2 hwn.1
                  obtain ⟨r, hev, hst'⟩ := ssaSteps_one hr3
                  have hk1 : argVal st2 (.k 0) = (0, 0) := rfl
                  have hk2 : argVal st2 (.k e.bits) = (e.bits, 0) := rfl
                  have hne : e.bits ≠ 0 := by omega
                  simp only [List.map_cons, List.map_nil, harg1', harg2, hk1, hk2, evalOp, hne, if_false,
                    Nat.sub_zero, Nat.mul_div_cancel _ hwn.2, ha2n, if_true, Nat.zero_add, Nat.mod_mod,
                    Option.some.injEq] at hev
                  subst hev; subst hst'
                  refine ⟨e.bits, (a1 >>> (a2 * e.bits)) % 2 ^ e.bits, max f1 f2 + 1, by simp [argVal, SStore.get],
                    Nat.mod_lt _ (two_pow_pos _), Nat.le_refl _, Or.inl rfl, ?_, ?_, ?_, by omega, ?_,
                    by simp [ArgBelow]⟩
                  · intro hc; simp [SArg.isConst] at hc
                  · simp only [evalE, evalE_mono P (Nat.le_max_left f1 f2) a env _ he1,
                      evalE_mono P (Nat.le_max_right f1 f2) i env _ he2, Ty.decode]
                    simp [ha2n, Nat.mod_eq_of_lt hlt2, decode_mod_bits]
                  · exact (hfr1.trans hfr2 hn1).trans (Frame_set (by omega)) (by omega)
                  · exact NoRet_append (NoRet_append hnr1 hnr2) (NoRet_one (by simp))
                · cases h
            | bool => simp [hli] at h
            | int _ => simp [hli] at h
            | arr _ _ => simp [hli] at h
            | struct _ => simp [hli] at h
    | bool => simp [hla] at h
    | int _ => simp [hla] at h
    | uint _ => simp [hla] at h
    | struct _ => simp [hla] at h

theorem fld_case (P : Prog) (f : Nat) (ih : ESound P f) (a : Expr) (k : Nat) : ESoundAt P (f + 1) (.fld a k) := by
  intro nm next aa t code next' env st st' h hrel hbel hrun
  simp only [lowerE] at h
  cases hla : lowerE P f nm a next with
  | none => simp [hla] at h
  | some ra =>
    obtain ⟨aa1, ta, ca, n1⟩ := ra
    cases ta with
    | struct fs =>
      simp only [hla] at h
      split at h
      · cases h
      · rename_i hnc
        cases hfk : fs[k]? with
        | none => simp [hfk] at h
        | some tk =>
          simp only [hfk, Option.some.injEq, Prod.mk.injEq] at h
          obtain ⟨h1, h2, h3, h4⟩ := h
          subst h1; subst h2; subst h3; subst h4
          obtain ⟨st1, hr1, hr3⟩ := ssaSteps_split hrun
          obtain ⟨wa1, a1, f1, harg1, hlt1, hle1, hor1, hc1, he1, hfr1, hn1, hnr1, hab1⟩ :=
            ih a nm next aa1 (.struct fs) ca n1 env st st1 hla hrel hbel hr1
          have hst' := slice_step hr3 harg1
          subst hst'
          refine ⟨tk.bits, (a1 >>> bitsList (fs.take k)) % 2 ^ tk.bits, f1 + 1, by simp [argVal, SStore.get],
            Nat.mod_lt _ (two_pow_pos _), Nat.le_refl _, Or.inl rfl, ?_, ?_, ?_, by omega, ?_, by simp [ArgBelow]⟩
          · intro hc; simp [SArg.isConst] at hc
          · simp only [evalE, he1, Ty.decode, decodeList_get, hfk, Option.map_some, decode_mod_bits]
          · exact hfr1.trans (Frame_set (by omega)) (by omega)
          · exact NoRet_append hnr1 (NoRet_one (by simp [sliceI]))
    | bool => simp [hla] at h
    | int _ => simp [hla] at h
    | uint _ => simp [hla] at h
    | arr _ _ => simp [hla] at h

/-! ### Replacing a component -/

theorem update_agg (vs : List Val) (k : Nat) (p : List Nat) (c new : Val) (h : vs[k]? = some c) :
    Val.update (.agg vs) (k :: p) new = (Val.update c p new).map fun c' => .agg (vs.set k c') := by
  simp [Val.update, h]

/-- The l-value path the model resolved to `(off, lt)`: the interpreter's index
list, and its `update` is the `amov` at `off`. -/
theorem pathOff_sound (P : Prog) {nm : NEnv} {env : Env} {st : Nat → Nat} (hrel : Rel st nm env) :
    ∀ (path : List Acc) (t : Ty) (off : Nat) (lt : Ty), pathOff nm t path = some (off, lt) →
    ∃ idxs, (∀ f, path.mapM (pathIdx (fun e env => evalE P (f + 1) e env) env) = some idxs) ∧
      off + lt.bits ≤ t.bits ∧
      ∀ n v, Val.update (t.decode n) idxs (lt.decode v) = some (t.decode (amovv v n off lt.bits))
  | [], t, off, lt, h => by
    simp only [pathOff, Option.some.injEq, Prod.mk.injEq] at h
    obtain ⟨h1, h2⟩ := h
    subst h1; subst h2
    refine ⟨[], fun f => by simp, by omega, fun n v => ?_⟩
    simp only [Val.update, sameShape_decode_gen, if_true, Option.some.injEq]
    apply decode_congr
    have := amovv_mid v n 0 t.bits
    simpa using this.symm
  | .idx ie :: p, t, off, lt, h => by
    cases t with
    | arr m e =>
      simp only [pathOff] at h
      cases hci : constIdx nm ie with
      | none => simp [hci] at h
      | some k =>
        simp only [hci] at h
        split at h
        · rename_i hkm
          cases hp : pathOff nm e p with
          | none => simp [hp] at h
          | some q =>
            obtain ⟨o, lt'⟩ := q
            simp only [hp, Option.some.injEq, Prod.mk.injEq] at h
            obtain ⟨h1, h2⟩ := h
            subst h1; subst h2
            obtain ⟨idxs, hm, hin, hup⟩ := pathOff_sound P hrel p e o lt' hp
            obtain ⟨s, w, hiv⟩ := constIdx_sound P hci hrel
            refine ⟨k :: idxs, fun f => ?_, ?_, fun n v => ?_⟩
            · simp [List.mapM_cons, pathIdx, constIdx_mono P hiv f, Val.toIndex, hm f]
            · simp only [Ty.bits]
              have : (k + 1) * e.bits ≤ m * e.bits := Nat.mul_le_mul_right _ hkm
              rw [Nat.succ_mul] at this
              omega
            · rw [decode_arr, decode_arr]
              have hget : (decodeList (List.replicate m e) n)[k]? = some (e.decode (n >>> (k * e.bits))) := by
                rw [decodeList_get, replicate_get e hkm, Option.map_some, bitsList_take_replicate e (Nat.le_of_lt hkm)]
              rw [update_agg _ _ _ _ _ hget, hup, Option.map_some]
              have hset := decodeList_set (List.replicate m e) k e n (amovv v (n >>> (k * e.bits)) o lt'.bits)
                (replicate_get e hkm)
              rw [bitsList_take_replicate e (Nat.le_of_lt hkm), amovv_nested _ _ _ _ _ _ hin] at hset
              rw [hset]
        · cases h
    | bool => simp [pathOff] at h
    | int _ => simp [pathOff] at h
    | uint _ => simp [pathOff] at h
    | struct _ => simp [pathOff] at h
  | .fld k :: p, t, off, lt, h => by
    cases t with
    | struct fs =>
      simp only [pathOff] at h
      cases hfk : fs[k]? with
      | none => simp [hfk] at h
      | some tk =>
        simp only [hfk] at h
        cases hp : pathOff nm tk p with
        | none => simp [hp] at h
        | some q =>
          obtain ⟨o, lt'⟩ := q
          simp only [hp, Option.some.injEq, Prod.mk.injEq] at h
          obtain ⟨h1, h2⟩ := h
          subst h1; subst h2
          obtain ⟨idxs, hm, hin, hup⟩ := pathOff_sound P hrel p tk o lt' hp
          refine ⟨k :: idxs, fun f => ?_, ?_, fun n v => ?_⟩
          · simp [List.mapM_cons, pathIdx, hm f]
          · simp only [Ty.bits]
            have := field_inside hfk
            omega
          · simp only [Ty.decode]
            have hget : (decodeList fs n)[k]? = some (tk.decode (n >>> bitsList (fs.take k))) := by
              rw [decodeList_get, hfk, Option.map_some]
            rw [update_agg _ _ _ _ _ hget, hup, Option.map_some]
            have hset := decodeList_set fs k tk n (amovv v (n >>> bitsList (fs.take k)) o lt'.bits) hfk
            rw [amovv_nested _ _ _ _ _ _ hin] at hset
            rw [hset]
    | bool => simp [pathOff] at h
    | int _ => simp [pathOff] at h
    | uint _ => simp [pathOff] at h
    | arr _ _ => simp [pathOff] at h

theorem amov_step {va : SArg} {id bits off w next v wv x : Nat} {st st' : Nat → Nat}
    (h : ssaSteps [⟨.amov, [va, .var id bits, .k off, .k (off + w)], some (next, bits)⟩] st = some st')
    (hv : argVal st va = (v, wv)) (hx : st id = x) (hlt : x < 2 ^ bits) (hin : off + w ≤ bits) :
    st' = fun j => if j = next then amovv v x off w else st j := by
  obtain ⟨r, hev, hst⟩ := ssaSteps_one h
  have hk1 : argVal st (.k off) = (off, 0) := rfl
  have hk2 : argVal st (.k (off + w)) = (off + w, 0) := rfl
  have hk3 : argVal st (.var id bits) = (x, bits) := by simp [argVal, SStore.get, hx]
  simp only [List.map_cons, List.map_nil, hv, hk1, hk2, hk3, evalOp, Option.some.injEq, Nat.add_sub_cancel_left] at hev
  have : amovv v x off w < 2 ^ bits := amovv_lt hlt hin
  rw [show x % 2 ^ off + (v % 2 ^ w) <<< off + (x >>> (off + w)) <<< (off + w) = amovv v x off w from rfl,
    Nat.mod_eq_of_lt this] at hev
  subst hev
  exact hst

end Mpc.Mpcl.Ssa

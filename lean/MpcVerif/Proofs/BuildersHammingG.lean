/-
Hamming distance on both targets (C07): the adder tree with `NewAdder` of either
target (ripple carry or Kogge-Stone).
-/
import MpcVerif.Proofs.BuildersWallace

namespace Mpc.Bld
open Mpc

theorem hammingRoundG_spec {inp : List Bool} (gmw : Bool) : ∀ (L : List (List Nat)) {s : St} (_ : WF s inp), GoodL s L →
    Spec inp s (hammingRound gmw L) (fun L' s' => GoodL s' L' ∧ sumVal s' inp L' = sumVal s inp L ∧
      L'.length = (L.length + 1) / 2 ∧ ∀ m, (∀ b ∈ L, b.length ≤ m) → ∀ b' ∈ L', b'.length ≤ m + 1)
  | [], s, hwf, hg => by
    simp only [hammingRound]
    exact Spec.pure hwf ⟨hg, rfl, rfl, fun m _ b' hb' => by cases hb'⟩
  | [a], s, hwf, hg => by
    simp only [hammingRound]
    exact Spec.pure hwf ⟨hg, rfl, by simp, fun m hm b' hb' => Nat.le_succ_of_le (hm b' hb')⟩
  | a :: b :: rest, s, hwf, hg => by
    simp only [hammingRound]
    have ha := hg.bnd a (by simp)
    have hb := hg.bnd b (by simp)
    have hba : b.length ≤ a.length := by
      have := hg.srt; simp only [List.pairwise_cons] at this; exact this.1 b (by simp)
    have hrest : GoodL s rest := ⟨fun c hc => hg.bnd c (by simp [hc]), by
      have := hg.srt; simp only [List.pairwise_cons] at this; exact this.2.2⟩
    have hrestle : ∀ c ∈ rest, c.length ≤ a.length := by
      intro c hc
      have := hg.srt; simp only [List.pairwise_cons] at this; exact this.1 c (by simp [hc])
    refine Spec.bind (newAdder_spec hwf gmw (a.length + 1) ha.1 hb.1 (by omega) (by omega)) ?_
    intro sm s1 e1 ⟨hsb, hsl, hsv⟩
    refine Spec.bind (hammingRoundG_spec gmw rest e1.wf (hrest.mono e1)) ?_
    intro r s2 e2 ⟨hr, hrv, hrl, hrm⟩
    have hA := toNat_lt (busVal s inp a)
    have hB := toNat_lt (busVal s inp b)
    simp only [busVal_length] at hA hB
    have hpb : 2 ^ b.length ≤ 2 ^ a.length := Nat.pow_le_pow_right (by omega) hba
    have hps : 2 ^ (a.length + 1) = 2 * 2 ^ a.length := by rw [Nat.pow_succ]; omega
    rw [Nat.mod_eq_of_lt (by omega)] at hsv
    refine Spec.pure e2.wf ⟨⟨?_, ?_⟩, ?_, ?_, ?_⟩
    · intro c hc
      rcases List.mem_cons.mp hc with rfl | hc
      · exact ⟨hsb.mono e2, by omega⟩
      · exact hr.bnd c hc
    · simp only [List.pairwise_cons]
      refine ⟨?_, hr.srt⟩
      intro c hc
      have := hrm a.length hrestle c hc
      omega
    · simp only [sumVal, List.map_cons, List.sum_cons] at hrv ⊢
      rw [busVal_ext e2 hsb, hsv]
      have h1 := sumVal_ext e1 hrest
      simp only [sumVal] at h1
      rw [hrv, h1]; omega
    · simp only [List.length_cons, hrl]; omega
    · intro m hm c hc
      rcases List.mem_cons.mp hc with rfl | hc
      · have := hm a (by simp); omega
      · exact hrm m (fun d hd => hm d (by simp [hd])) c hc

theorem hammingTreeG_spec {inp : List Bool} (gmw : Bool) : ∀ (fuel : Nat) (L : List (List Nat)) {s : St} (_ : WF s inp),
    GoodL s L → L.length ≤ fuel + 2 → 2 ≤ L.length →
    Spec inp s (hammingTree gmw fuel L) (fun L' s' => GoodL s' L' ∧ sumVal s' inp L' = sumVal s inp L ∧
      L'.length = 2)
  | 0, L, s, hwf, hg, h1, h2 => by
    simp only [hammingTree]; exact Spec.pure hwf ⟨hg, rfl, by omega⟩
  | fuel + 1, L, s, hwf, hg, h1, h2 => by
    simp only [hammingTree]
    split
    · refine Spec.bind (hammingRoundG_spec gmw L hwf hg) ?_
      intro L1 s1 e1 ⟨hg1, hv1, hl1, _⟩
      refine (hammingTreeG_spec gmw fuel L1 e1.wf hg1 (by omega) (by omega)).mono ?_
      intro L2 s2 _ ⟨hg2, hv2, hl2⟩
      exact ⟨hg2, by rw [hv2, hv1], hl2⟩
    · exact Spec.pure hwf ⟨hg, rfl, by omega⟩

/-- `Hamming` (Yao target), operands at least 2 bits wide. -/
theorem hammingG_spec2 {s : St} {inp : List Bool} (hwf : WF s inp) (gmw : Bool) {x y : List Nat} (nz : Nat)
    (hx : Bnd s x) (hy : Bnd s y) (hne : 2 ≤ max x.length y.length) (hnz : 0 < nz) :
    Spec inp s (hamming gmw x y nz) (fun z s' => Bnd s' z ∧ z.length = nz ∧
      toNat (busVal s' inp z) = popDiff ((padTo (busVal s inp x) (max x.length y.length)).zip
        (padTo (busVal s inp y) (max x.length y.length))) % 2 ^ nz) := by
  unfold hamming
  refine Spec.bind (zeroPad_spec hwf hx hy) ?_
  intro p s1 e1 ⟨hp1, hp2, hv1, hv2⟩
  have hlen1 : p.1.length = max x.length y.length := by
    have := congrArg List.length hv1; simp at this; omega
  have hlen2 : p.2.length = max x.length y.length := by
    have := congrArg List.length hv2; simp at this; omega
  refine Spec.bind (xorBits_spec _ e1.wf (BndP.zip hp1 hp2)) ?_
  intro arr s2 e2 ⟨hg, hal, _, hav⟩
  have hal2 : 2 ≤ arr.length := by rw [hal]; simp [hlen1, hlen2]; omega
  refine Spec.bind (hammingTreeG_spec gmw arr.length arr e2.wf hg (by omega) hal2) ?_
  intro L s3 e3 ⟨hg3, hv3, hl3⟩
  obtain ⟨a0, a1, rfl⟩ : ∃ a0 a1, L = [a0, a1] := by
    rcases L with _ | ⟨a0, _ | ⟨a1, _ | _⟩⟩ <;> simp at hl3
    exact ⟨a0, a1, rfl⟩
  simp only [List.getD_cons_zero, List.getD_cons_succ]
  rw [if_neg (by simp)]
  have h0 := hg3.bnd a0 (by simp)
  have h1 := hg3.bnd a1 (by simp)
  refine (newAdder_spec e3.wf gmw nz h0.1 h1.1 (by omega) hnz).mono ?_
  intro z s4 _ ⟨hzb, hzl, hzv⟩
  refine ⟨hzb, hzl, ?_⟩
  rw [hzv]
  simp only [sumVal, List.map_cons, List.map_nil, List.sum_cons, List.sum_nil, Nat.add_zero] at hv3
  rw [hv3]
  simp only [sumVal] at hav
  rw [hav, pairVals_zip, hv1, hv2]

/-- `Hamming` (Yao target), one-bit operands: the single XOR bit plus zero. -/
theorem hammingG_spec1 {s : St} {inp : List Bool} (hwf : WF s inp) (gmw : Bool) {x y : List Nat} (nz : Nat)
    (hx : Bnd s x) (hy : Bnd s y) (hne : max x.length y.length = 1) (hnz : 0 < nz) :
    Spec inp s (hamming gmw x y nz) (fun z s' => Bnd s' z ∧ z.length = nz ∧
      toNat (busVal s' inp z) = popDiff ((padTo (busVal s inp x) (max x.length y.length)).zip
        (padTo (busVal s inp y) (max x.length y.length))) % 2 ^ nz) := by
  unfold hamming
  refine Spec.bind (zeroPad_spec hwf hx hy) ?_
  intro p s1 e1 ⟨hp1, hp2, hv1, hv2⟩
  have hlen1 : p.1.length = max x.length y.length := by
    have := congrArg List.length hv1; simp at this; omega
  have hlen2 : p.2.length = max x.length y.length := by
    have := congrArg List.length hv2; simp at this; omega
  refine Spec.bind (xorBits_spec _ e1.wf (BndP.zip hp1 hp2)) ?_
  intro arr s2 e2 ⟨hg, hal, _, hav⟩
  have hal1 : arr.length = 1 := by rw [hal]; simp [hlen1, hlen2, hne]
  obtain ⟨a0, rfl⟩ : ∃ a0, arr = [a0] := by
    rcases arr with _ | ⟨a0, _ | _⟩ <;> simp at hal1
    exact ⟨a0, rfl⟩
  simp only [List.length_cons, List.length_nil, Nat.zero_add, hammingTree, Nat.lt_irrefl, gt_iff_lt,
    show ¬ (1 > 2) by omega, if_false, pure_bind, bind_run]
  have h0 := hg.bnd a0 (by simp)
  show Spec inp s2 (do
    let z ← zeroWire
    newAdder gmw ([a0].getD 0 []) [z] nz) _
  refine Spec.bind (zeroWire_spec e2.wf) ?_
  intro zw s3 e3 hz
  simp only [List.getD_cons_zero]
  refine (newAdder_spec e3.wf gmw nz (h0.1.mono e3) (Bnd.cons hz.1 (Bnd.nil _)) (by simp; omega) hnz).mono ?_
  intro z s4 _ ⟨hzb, hzl, hzv⟩
  refine ⟨hzb, hzl, ?_⟩
  rw [hzv, busVal_ext e3 h0.1]
  simp only [busVal_cons, busVal_nil, hz.2, toNat_cons, toNat_nil, Bool.toNat_false, Nat.add_zero]
  simp only [sumVal, List.map_cons, List.map_nil, List.sum_cons, List.sum_nil, Nat.add_zero] at hav
  rw [hav, pairVals_zip, hv1, hv2]
  simp

/-- `Hamming` (Yao target), every operand width ≥ 1 and every result width: the
result is the number of differing bit positions modulo `2^nz`. -/
theorem hammingG_spec {s : St} {inp : List Bool} (hwf : WF s inp) (gmw : Bool) {x y : List Nat} (nz : Nat)
    (hx : Bnd s x) (hy : Bnd s y) (hne : 1 ≤ max x.length y.length) (hnz : 0 < nz) :
    Spec inp s (hamming gmw x y nz) (fun z s' => Bnd s' z ∧ z.length = nz ∧
      toNat (busVal s' inp z) = popDiff ((padTo (busVal s inp x) (max x.length y.length)).zip
        (padTo (busVal s inp y) (max x.length y.length))) % 2 ^ nz) := by
  by_cases h : max x.length y.length = 1
  · exact hammingG_spec1 hwf gmw nz hx hy h hnz
  · exact hammingG_spec2 hwf gmw nz hx hy (by omega) hnz


end Mpc.Bld

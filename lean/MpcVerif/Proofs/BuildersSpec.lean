/-
Specifications of the individual builders of Model/Builders.lean (C07),
proved with the Hoare rules of Proofs/Builders.lean.
-/
import MpcVerif.Proofs.Builders

namespace Mpc.Bld
open Mpc

@[simp] theorem eval_xor (a b : Bool) : Op.xor.eval a b = (a != b) := rfl
@[simp] theorem eval_xnor (a b : Bool) : Op.xnor.eval a b = (a == b) := rfl
@[simp] theorem eval_and (a b : Bool) : Op.and.eval a b = (a && b) := rfl

/-- Values of a list of wire pairs in state `s`. -/
def pairVals (s : St) (inp : List Bool) (l : List (Nat × Nat)) : List (Bool × Bool) :=
  l.map fun p => (s.val inp p.1, s.val inp p.2)

/-- All wires of a list of pairs exist. -/
def BndP (s : St) (l : List (Nat × Nat)) : Prop := ∀ p ∈ l, p.1 < s.next ∧ p.2 < s.next

theorem BndP.mono {s s' : St} {inp : List Bool} {l : List (Nat × Nat)} (e : Ext s s' inp) (h : BndP s l) :
    BndP s' l := fun p hp => ⟨Nat.lt_of_lt_of_le (h p hp).1 e.next, Nat.lt_of_lt_of_le (h p hp).2 e.next⟩

theorem BndP.head {s : St} {p : Nat × Nat} {l : List (Nat × Nat)} (h : BndP s (p :: l)) :
    p.1 < s.next ∧ p.2 < s.next := h p (by simp)
theorem BndP.tail {s : St} {p : Nat × Nat} {l : List (Nat × Nat)} (h : BndP s (p :: l)) : BndP s l :=
  fun q hq => h q (by simp [hq])

theorem BndP.zip {s : St} {x y : List Nat} (hx : Bnd s x) (hy : Bnd s y) : BndP s (x.zip y) := by
  intro p hp
  obtain ⟨a, b⟩ := p
  exact ⟨hx a (List.of_mem_zip hp).1, hy b (List.of_mem_zip hp).2⟩

theorem pairVals_ext {s s' : St} {inp : List Bool} {l : List (Nat × Nat)} (e : Ext s s' inp) (h : BndP s l) :
    pairVals s' inp l = pairVals s inp l := by
  apply List.map_congr_left
  intro p hp
  rw [e.val _ (h p hp).1, e.val _ (h p hp).2]

theorem pairVals_zip (s : St) (inp : List Bool) (x y : List Nat) :
    pairVals s inp (x.zip y) = (busVal s inp x).zip (busVal s inp y) := by
  simp only [pairVals, busVal, List.zip_map]
  rfl

@[simp] theorem pairVals_nil (s : St) (inp : List Bool) : pairVals s inp [] = [] := rfl
@[simp] theorem pairVals_cons (s : St) (inp : List Bool) (p : Nat × Nat) (l : List (Nat × Nat)) :
    pairVals s inp (p :: l) = (s.val inp p.1, s.val inp p.2) :: pairVals s inp l := rfl
@[simp] theorem pairVals_length (s : St) (inp : List Bool) (l : List (Nat × Nat)) :
    (pairVals s inp l).length = l.length := by simp [pairVals]

/-! ### adder -/

theorem fullAdder_spec {s : St} {inp : List Bool} (hwf : WF s inp) {a b cin : Nat}
    (ha : a < s.next) (hb : b < s.next) (hc : cin < s.next) (want : Bool) :
    Spec inp s (fullAdder a b cin want) (fun r s' =>
      Holds s' inp r.1 ((s.val inp a != s.val inp b) != s.val inp cin) ∧ r.2 < s'.next ∧
      (want = true → s'.val inp r.2 = carry (s.val inp a) (s.val inp b) (s.val inp cin))) := by
  unfold fullAdder
  have Ha : Holds s inp a (s.val inp a) := ⟨ha, rfl⟩
  have Hb : Holds s inp b (s.val inp b) := ⟨hb, rfl⟩
  have Hc : Holds s inp cin (s.val inp cin) := ⟨hc, rfl⟩
  refine Spec.bind (gate_spec .xor hwf Hb Hc) ?_
  intro w1 s1 e1 h1
  refine Spec.bind (gate_spec .xor e1.wf (Ha.mono e1) h1) ?_
  intro sm s2 e2 h2
  have hsum : Holds s2 inp sm ((s.val inp a != s.val inp b) != s.val inp cin) := by
    have : Op.xor.eval (s.val inp a) (Op.xor.eval (s.val inp b) (s.val inp cin)) =
        ((s.val inp a != s.val inp b) != s.val inp cin) := by
      cases s.val inp a <;> cases s.val inp b <;> cases s.val inp cin <;> rfl
    rw [this] at h2; exact h2
  cases want with
  | false =>
    simp only [Bool.false_eq_true, if_false]
    exact Spec.pure e2.wf ⟨hsum, ((Hc.mono e1).mono e2).1, by intro h; cases h⟩
  | true =>
    simp only [if_true]
    refine Spec.bind (gate_spec .xor e2.wf ((Ha.mono e1).mono e2) ((Hc.mono e1).mono e2)) ?_
    intro w2 s3 e3 h3
    refine Spec.bind (gate_spec .and e3.wf ((h1.mono e2).mono e3) h3) ?_
    intro w3 s4 e4 h4
    refine Spec.bind (gate_spec .xor e4.wf ((((Hc.mono e1).mono e2).mono e3).mono e4) h4) ?_
    intro co s5 e5 h5
    refine Spec.pure e5.wf ⟨((hsum.mono e3).mono e4).mono e5, h5.1, ?_⟩
    intro _
    rw [h5.2]
    simp only [eval_xor, eval_and]
    exact carry_circuit _ _ _

/-- Result bits of the ripple loop. -/
def rippleBits (l : List (Bool × Bool)) (c : Bool) (keep : Bool) : List Bool :=
  (addBits l c).take (l.length + keep.toNat)

theorem rippleAdd_spec {inp : List Bool} (l : List (Nat × Nat)) :
    ∀ {s : St} (_ : WF s inp) (cin : Nat) (keep : Bool), BndP s l → cin < s.next →
    Spec inp s (rippleAdd l cin keep) (fun z s' => Bnd s' z ∧
      busVal s' inp z = rippleBits (pairVals s inp l) (s.val inp cin) keep) := by
  induction l with
  | nil =>
    intro s hwf cin keep _ hc
    simp only [rippleAdd]
    cases keep with
    | false => exact Spec.pure hwf ⟨Bnd.nil s, by simp [rippleBits, addBits]⟩
    | true => exact Spec.pure hwf ⟨Bnd.cons hc (Bnd.nil s), by simp [rippleBits, addBits]⟩
  | cons p rest ih =>
    intro s hwf cin keep hl hc
    obtain ⟨a, b⟩ := p
    simp only [rippleAdd]
    have hab := hl.head
    refine Spec.bind (fullAdder_spec hwf hab.1 hab.2 hc _) ?_
    intro r s1 e1 ⟨hs, hr2, hcar⟩
    refine Spec.bind (ih e1.wf r.2 keep (hl.tail.mono e1) hr2) ?_
    intro t s2 e2 ⟨ht, htv⟩
    refine Spec.pure e2.wf ⟨Bnd.cons (hs.mono e2).1 ht, ?_⟩
    simp only [busVal_cons, (hs.mono e2).2, htv, pairVals_ext e1 hl.tail, pairVals_cons]
    by_cases hw : (!rest.isEmpty || keep) = true
    · rw [hcar hw]
      simp [rippleBits, addBits, Nat.add_right_comm, List.take_succ_cons]
    · -- last position, carry dropped
      have hr : rest = [] := by
        cases rest with
        | nil => rfl
        | cons _ _ => simp at hw
      have hk : keep = false := by
        cases keep with
        | false => rfl
        | true => simp at hw
      subst hr; subst hk
      simp [rippleBits, addBits]

theorem take_length_le {α : Type} (l : List α) (n : Nat) (h : l.length ≤ n) : l.take n = l :=
  List.take_of_length_le h

theorem rippleAdderBody_spec {s : St} {inp : List Bool} (hwf : WF s inp) {a b : Nat} {rest : List (Nat × Nat)}
    (keep : Bool) (hl : BndP s ((a, b) :: rest)) :
    Spec inp s (rippleAdderBody a b rest keep) (fun z s' => Bnd s' z ∧
      busVal s' inp z = rippleBits (pairVals s inp ((a, b) :: rest)) false keep) := by
  unfold rippleAdderBody
  have hab := hl.head
  have Ha : Holds s inp a (s.val inp a) := ⟨hab.1, rfl⟩
  have Hb : Holds s inp b (s.val inp b) := ⟨hab.2, rfl⟩
  refine Spec.bind (gate_spec .xor hwf Ha Hb) ?_
  intro sm s2 e2 hsm
  split
  · next hcond =>
    simp only [Bool.and_eq_true, List.isEmpty_iff, Bool.not_eq_true'] at hcond
    obtain ⟨hr, hk⟩ := hcond
    subst hr; subst hk
    refine Spec.pure e2.wf ⟨Bnd.cons hsm.1 (Bnd.nil _), ?_⟩
    simp [rippleBits, addBits, hsm.2]
  · refine Spec.bind (gate_spec .and e2.wf (Ha.mono e2) (Hb.mono e2)) ?_
    intro c s3 e3 hc
    refine Spec.bind (rippleAdd_spec rest e3.wf c _ ((hl.tail.mono e2).mono e3) hc.1) ?_
    intro t s4 e4 ⟨ht, htv⟩
    refine Spec.pure e4.wf ⟨Bnd.cons ((hsm.mono e3).mono e4).1 ht, ?_⟩
    simp only [busVal_cons, ((hsm.mono e3).mono e4).2, htv, hc.2,
      pairVals_ext (e2.trans e3) hl.tail, pairVals_cons, eval_xor, eval_and]
    simp [rippleBits, addBits, carry, Nat.add_right_comm, List.take_succ_cons]

/-- `NewAdder` (Yao target) is exact for every operand and result width. -/
theorem rippleAdder_spec {s : St} {inp : List Bool} (hwf : WF s inp) {x y : List Nat} (nz : Nat)
    (hx : Bnd s x) (hy : Bnd s y) (hne : 0 < max x.length y.length) (hnz : 0 < nz) :
    Spec inp s (rippleAdder x y nz) (fun z s' => Bnd s' z ∧ z.length = nz ∧
      toNat (busVal s' inp z) = (toNat (busVal s inp x) + toNat (busVal s inp y)) % 2 ^ nz) := by
  unfold rippleAdder
  refine Spec.bind (zeroPad_spec hwf hx hy) ?_
  intro p s1 e1 ⟨hp1, hp2, hv1, hv2⟩
  simp only
  have hlen1 : p.1.length = max x.length y.length := by
    have := congrArg List.length hv1; simp at this; omega
  have hlen2 : p.2.length = max x.length y.length := by
    have := congrArg List.length hv2; simp at this; omega
  have hpl : (p.1.take nz).length = min (max x.length y.length) nz := by
    simp [hlen1]; omega
  rw [hpl]
  generalize hkd : decide (min (max x.length y.length) nz < nz) = keep
  have hzipl : ((p.1.take nz).zip (p.2.take nz)).length = min (max x.length y.length) nz := by
    simp [hlen1, hlen2]; omega
  cases hz : (p.1.take nz).zip (p.2.take nz) with
  | nil =>
    exfalso
    rw [hz] at hzipl
    simp only [List.length_nil] at hzipl
    omega
  | cons ab rest =>
    obtain ⟨a, b⟩ := ab
    simp only
    have hbz : BndP s1 ((a, b) :: rest) := hz ▸ BndP.zip (hp1.take nz) (hp2.take nz)
    have hn : ((a, b) :: rest).length = min (max x.length y.length) nz := by
      rw [← hz]; exact hzipl
    have hX : (pairVals s1 inp ((a, b) :: rest)).map Prod.fst =
        (padTo (busVal s inp x) (max x.length y.length)).take nz := by
      rw [← hz, pairVals_zip, List.map_fst_zip (by simp [hlen1, hlen2]), busVal_take, hv1]
    have hY : (pairVals s1 inp ((a, b) :: rest)).map Prod.snd =
        (padTo (busVal s inp y) (max x.length y.length)).take nz := by
      rw [← hz, pairVals_zip, List.map_snd_zip (by simp [hlen1, hlen2]), busVal_take, hv2]
    refine Spec.bind (rippleAdderBody_spec e1.wf keep hbz) ?_
    intro bd s3 e3 ⟨hbd, hbv⟩
    refine Spec.bind (zeros_spec e3.wf _) ?_
    intro zs s4 e4 ⟨hzs, hzv⟩
    have hzl : zs.length = nz - (min (max x.length y.length) nz + 1) := by
      have := congrArg List.length hzv; simpa using this
    have hbl : bd.length = min (max x.length y.length) nz + keep.toNat := by
      have := congrArg List.length hbv
      simp only [busVal_length, rippleBits, List.length_take, addBits_length, pairVals_length] at this
      rw [this, hn]; cases keep <;> simp
    refine Spec.pure e4.wf ⟨(hbd.mono e4).append hzs, ?_, ?_⟩
    · simp only [List.length_append, hbl, hzl]
      by_cases h : min (max x.length y.length) nz < nz
      · simp only [h, decide_true] at hkd; subst hkd; simp; omega
      · simp only [h, decide_false] at hkd; subst hkd; simp; omega
    · rw [busVal_append, hzv, toNat_append_zeros, busVal_ext e4 hbd, hbv, rippleBits, toNat_take,
        toNat_addBits, hX, hY, toNat_take, toNat_take, toNat_padTo, toNat_padTo, pairVals_length, hn]
      simp only [Bool.toNat_false, Nat.add_zero]
      have hxlt := toNat_lt (busVal s inp x)
      have hylt := toNat_lt (busVal s inp y)
      simp only [busVal_length] at hxlt hylt
      by_cases h : min (max x.length y.length) nz < nz
      · -- no truncation: the carry is kept
        simp only [h, decide_true] at hkd; subst hkd
        have hm : min (max x.length y.length) nz = max x.length y.length := by omega
        simp only [Bool.toNat_true, hm]
        have hpx : 2 ^ x.length ≤ 2 ^ max x.length y.length := Nat.pow_le_pow_right (by omega) (by omega)
        have hpy : 2 ^ y.length ≤ 2 ^ max x.length y.length := Nat.pow_le_pow_right (by omega) (by omega)
        have hpz : 2 ^ (max x.length y.length + 1) ≤ 2 ^ nz := Nat.pow_le_pow_right (by omega) (by omega)
        have hps : 2 ^ (max x.length y.length + 1) = 2 * 2 ^ max x.length y.length := by
          rw [Nat.pow_succ]; omega
        rw [Nat.mod_eq_of_lt (by omega : toNat (busVal s inp x) < 2 ^ nz),
          Nat.mod_eq_of_lt (by omega : toNat (busVal s inp y) < 2 ^ nz),
          Nat.mod_eq_of_lt (by omega), Nat.mod_eq_of_lt (by omega)]
      · simp only [h, decide_false] at hkd; subst hkd
        have hm : min (max x.length y.length) nz = nz := by omega
        simp only [Bool.toNat_false, Nat.add_zero, hm]
        rw [← Nat.add_mod]

/-! ### subtractor -/

theorem fullSub_spec {s : St} {inp : List Bool} (hwf : WF s inp) {x y cin : Nat}
    (hx : x < s.next) (hy : y < s.next) (hc : cin < s.next) (want : Bool) :
    Spec inp s (fullSub x y cin want) (fun r s' =>
      Holds s' inp r.1 ((s.val inp x != s.val inp y) != s.val inp cin) ∧ r.2 < s'.next ∧
      (want = true → s'.val inp r.2 = borrow (s.val inp x) (s.val inp y) (s.val inp cin))) := by
  unfold fullSub
  have Hx : Holds s inp x (s.val inp x) := ⟨hx, rfl⟩
  have Hy : Holds s inp y (s.val inp y) := ⟨hy, rfl⟩
  have Hc : Holds s inp cin (s.val inp cin) := ⟨hc, rfl⟩
  refine Spec.bind (gate_spec .xnor hwf Hx Hc) ?_
  intro w1 s1 e1 h1
  refine Spec.bind (gate_spec .xnor e1.wf (Hy.mono e1) h1) ?_
  intro d s2 e2 h2
  have hd : Holds s2 inp d ((s.val inp x != s.val inp y) != s.val inp cin) := by
    have := (fullSub_circuit (s.val inp x) (s.val inp y) (s.val inp cin)).1
    simp only [eval_xnor] at h2
    rw [this] at h2; exact h2
  cases want with
  | false =>
    simp only [Bool.false_eq_true, if_false]
    exact Spec.pure e2.wf ⟨hd, ((Hc.mono e1).mono e2).1, by intro h; cases h⟩
  | true =>
    simp only [if_true]
    refine Spec.bind (gate_spec .xor e2.wf ((Hy.mono e1).mono e2) ((Hc.mono e1).mono e2)) ?_
    intro w2 s3 e3 h3
    refine Spec.bind (gate_spec .and e3.wf ((h1.mono e2).mono e3) h3) ?_
    intro w3 s4 e4 h4
    refine Spec.bind (gate_spec .xor e4.wf h4 ((((Hc.mono e1).mono e2).mono e3).mono e4)) ?_
    intro co s5 e5 h5
    refine Spec.pure e5.wf ⟨((hd.mono e3).mono e4).mono e5, h5.1, ?_⟩
    intro _
    rw [h5.2]
    simp only [eval_xor, eval_and, eval_xnor]
    exact (fullSub_circuit _ _ _).2

/-- Result bits of the subtractor loop. -/
def rippleSubBits (l : List (Bool × Bool)) (c : Bool) (keep : Bool) : List Bool :=
  (subBits l c).take (l.length + keep.toNat)

theorem rippleSub_spec {inp : List Bool} (l : List (Nat × Nat)) :
    ∀ {s : St} (_ : WF s inp) (cin : Nat) (keep : Bool), BndP s l → cin < s.next →
    Spec inp s (rippleSub l cin keep) (fun z s' => Bnd s' z ∧
      busVal s' inp z = rippleSubBits (pairVals s inp l) (s.val inp cin) keep) := by
  induction l with
  | nil =>
    intro s hwf cin keep _ hc
    simp only [rippleSub]
    cases keep with
    | false => exact Spec.pure hwf ⟨Bnd.nil s, by simp [rippleSubBits, subBits]⟩
    | true => exact Spec.pure hwf ⟨Bnd.cons hc (Bnd.nil s), by simp [rippleSubBits, subBits]⟩
  | cons p rest ih =>
    intro s hwf cin keep hl hc
    obtain ⟨a, b⟩ := p
    simp only [rippleSub]
    have hab := hl.head
    refine Spec.bind (fullSub_spec hwf hab.1 hab.2 hc _) ?_
    intro r s1 e1 ⟨hs, hr2, hcar⟩
    refine Spec.bind (ih e1.wf r.2 keep (hl.tail.mono e1) hr2) ?_
    intro t s2 e2 ⟨ht, htv⟩
    refine Spec.pure e2.wf ⟨Bnd.cons (hs.mono e2).1 ht, ?_⟩
    simp only [busVal_cons, (hs.mono e2).2, htv, pairVals_ext e1 hl.tail, pairVals_cons]
    by_cases hw : (!rest.isEmpty || keep) = true
    · rw [hcar hw]
      simp [rippleSubBits, subBits, Nat.add_right_comm, List.take_succ_cons]
    · have hr : rest = [] := by
        cases rest with
        | nil => rfl
        | cons _ _ => simp at hw
      have hk : keep = false := by
        cases keep with
        | false => rfl
        | true => simp at hw
      subst hr; subst hk
      simp [rippleSubBits, subBits]

theorem rippleSubBits_length (l : List (Bool × Bool)) (c keep : Bool) :
    (rippleSubBits l c keep).length = l.length + keep.toNat := by
  simp [rippleSubBits]; cases keep <;> simp

theorem val_getLastD {s : St} {inp : List Bool} (ws : List Nat) (h : ws ≠ []) :
    s.val inp (ws.getLastD 0) = (busVal s inp ws).getLastD false := by
  induction ws with
  | nil => exact absurd rfl h
  | cons w ws ih =>
    cases ws with
    | nil => rfl
    | cons w' ws' =>
      have := ih (by simp)
      simpa [List.getLastD] using this

theorem getLastD_mem' {ws : List Nat} (h : ws ≠ []) : ws.getLastD 0 ∈ ws := by
  induction ws with
  | nil => exact absurd rfl h
  | cons w ws ih =>
    cases ws with
    | nil => simp [List.getLastD]
    | cons w' ws' =>
      have := ih (by simp)
      simp [List.getLastD] at this ⊢

theorem getLastD_mem_bnd {s : St} {ws : List Nat} (hb : Bnd s ws) (h : ws ≠ []) : ws.getLastD 0 < s.next :=
  hb _ (getLastD_mem' h)

/-- What `NewSubtractor` (Yao) produces, for every width: the difference bits
of the (padded, truncated) operands, the final borrow when `nz` exceeds their
width, then copies of the borrow. -/
theorem rippleSubtractor_bits {s : St} {inp : List Bool} (hwf : WF s inp) {x y : List Nat} (nz : Nat)
    (hx : Bnd s x) (hy : Bnd s y) :
    Spec inp s (rippleSubtractor x y nz) (fun z s' => Bnd s' z ∧
      busVal s' inp z =
        rippleSubBits (((padTo (busVal s inp x) (max x.length y.length)).take nz).zip
            ((padTo (busVal s inp y) (max x.length y.length)).take nz)) false
          (decide (min (max x.length y.length) nz < nz)) ++
        List.replicate (nz - (min (max x.length y.length) nz + 1))
          ((rippleSubBits (((padTo (busVal s inp x) (max x.length y.length)).take nz).zip
            ((padTo (busVal s inp y) (max x.length y.length)).take nz)) false
          (decide (min (max x.length y.length) nz < nz))).getLastD false)) := by
  unfold rippleSubtractor
  refine Spec.bind (zeroPad_spec hwf hx hy) ?_
  intro p s1 e1 ⟨hp1, hp2, hv1, hv2⟩
  simp only
  have hlen1 : p.1.length = max x.length y.length := by
    have := congrArg List.length hv1; simp at this; omega
  have hpl : (p.1.take nz).length = min (max x.length y.length) nz := by
    simp [hlen1]; omega
  rw [hpl]
  refine Spec.bind (zeroWire_spec e1.wf) ?_
  intro cin s2 e2 hcin
  have hbz : BndP s2 ((p.1.take nz).zip (p.2.take nz)) :=
    BndP.zip ((hp1.take nz).mono e2) ((hp2.take nz).mono e2)
  refine (rippleSub_spec _ e2.wf cin _ hbz hcin.1).map ?_
  intro bd s3 e3 ⟨hbd, hbv⟩
  have hbv' : busVal s3 inp bd = rippleSubBits (((padTo (busVal s inp x) (max x.length y.length)).take nz).zip
      ((padTo (busVal s inp y) (max x.length y.length)).take nz)) false
      (decide (min (max x.length y.length) nz < nz)) := by
    rw [hbv, hcin.2, pairVals_zip, busVal_ext e2 (hp1.take nz), busVal_ext e2 (hp2.take nz), busVal_take,
      busVal_take, hv1, hv2]
  by_cases hk : nz - (min (max x.length y.length) nz + 1) = 0
  · rw [hk]
    simp only [List.replicate_zero, List.append_nil]
    exact ⟨hbd, hbv'⟩
  · have hne : bd ≠ [] := by
      intro h
      have := congrArg List.length hbv'
      rw [h, rippleSubBits_length] at this
      have hkeep : decide (min (max x.length y.length) nz < nz) = true := decide_eq_true (by omega)
      rw [hkeep] at this
      simp at this
    refine ⟨hbd.append (Bnd.replicate (getLastD_mem_bnd hbd hne) _), ?_⟩
    rw [busVal_append, busVal_replicate, val_getLastD bd hne, hbv']

/-- `NewSubtractor` (Yao) is exact for every operand and result width:
`z + y ≡ x (mod 2^nz)`. -/
theorem rippleSubtractor_spec {s : St} {inp : List Bool} (hwf : WF s inp) {x y : List Nat} (nz : Nat)
    (hx : Bnd s x) (hy : Bnd s y) (hnz : 0 < nz) :
    Spec inp s (rippleSubtractor x y nz) (fun z s' => Bnd s' z ∧ z.length = nz ∧
      (toNat (busVal s' inp z) + toNat (busVal s inp y)) % 2 ^ nz = toNat (busVal s inp x) % 2 ^ nz) := by
  refine (rippleSubtractor_bits hwf nz hx hy).mono ?_
  intro z s' _ ⟨hb, hv⟩
  have hxlt := toNat_lt (busVal s inp x)
  have hylt := toNat_lt (busVal s inp y)
  simp only [busVal_length] at hxlt hylt
  have hpx : 2 ^ x.length ≤ 2 ^ max x.length y.length := Nat.pow_le_pow_right (by omega) (by omega)
  have hpy : 2 ^ y.length ≤ 2 ^ max x.length y.length := Nat.pow_le_pow_right (by omega) (by omega)
  -- the zipped operand bits
  generalize hL : ((padTo (busVal s inp x) (max x.length y.length)).take nz).zip
      ((padTo (busVal s inp y) (max x.length y.length)).take nz) = L at hv
  have hLlen : L.length = min (max x.length y.length) nz := by
    rw [← hL]; simp; omega
  have hLx : toNat (L.map Prod.fst) = toNat (busVal s inp x) % 2 ^ nz := by
    rw [← hL, List.map_fst_zip (by simp; omega), toNat_take, toNat_padTo]
  have hLy : toNat (L.map Prod.snd) = toNat (busVal s inp y) % 2 ^ nz := by
    rw [← hL, List.map_snd_zip (by simp; omega), toNat_take, toNat_padTo]
  have hsub := toNat_subBits L false
  rw [hLx, hLy] at hsub
  simp only [Bool.toNat_false, Nat.add_zero] at hsub
  refine ⟨hb, ?_, ?_⟩
  · have := congrArg List.length hv
    simp only [busVal_length, List.length_append, rippleSubBits_length, List.length_replicate, hLlen] at this
    rw [this]
    by_cases h : min (max x.length y.length) nz < nz
    · simp [h]; omega
    · simp [h]; omega
  · by_cases h : min (max x.length y.length) nz < nz
    · -- nz > max: all bits of subBits are kept, the borrow is replicated
      have hm : min (max x.length y.length) nz = max x.length y.length := by omega
      rw [decide_eq_true h] at hv
      have hfull : rippleSubBits L false true = subBits L false := by
        simp only [rippleSubBits, Bool.toNat_true]
        exact List.take_of_length_le (by simp)
      rw [hfull, hm] at hv
      rw [hv, toNat_append, subBits_length, hLlen, hm]
      rw [hLlen, hm] at hsub
      have hpz : 2 ^ (max x.length y.length + 1) ≤ 2 ^ nz := Nat.pow_le_pow_right (by omega) (by omega)
      have hps : 2 ^ (max x.length y.length + 1) = 2 * 2 ^ max x.length y.length := by
        rw [Nat.pow_succ]; omega
      rw [Nat.mod_eq_of_lt (by omega : toNat (busVal s inp x) < 2 ^ nz),
        Nat.mod_eq_of_lt (by omega : toNat (busVal s inp y) < 2 ^ nz)] at hsub
      have hrep := toNat_replicate_add (nz - (max x.length y.length + 1)) ((subBits L false).getLastD false)
      have hpow : 2 ^ (max x.length y.length + 1) * 2 ^ (nz - (max x.length y.length + 1)) = 2 ^ nz := by
        rw [← Nat.pow_add]; congr 1; omega
      generalize ((subBits L false).getLastD false).toNat = bo at *
      generalize toNat (List.replicate (nz - (max x.length y.length + 1)) ((subBits L false).getLastD false)) = R at *
      generalize 2 ^ (nz - (max x.length y.length + 1)) = K at *
      generalize 2 ^ (max x.length y.length + 1) = P at *
      -- S + P*R + Y = X + P*bo + P*R = X + P*(K*bo) = X + 2^nz * bo
      have h1 : toNat (subBits L false) + P * R + toNat (busVal s inp y) =
          toNat (busVal s inp x) + 2 ^ nz * bo := by
        have : P * (R + bo) = P * R + P * bo := Nat.mul_add _ _ _
        have h2 : P * (K * bo) = 2 ^ nz * bo := by rw [← Nat.mul_assoc, hpow]
        rw [hrep] at this
        omega
      rw [h1, Nat.add_mul_mod_self_left]
    · have hm : min (max x.length y.length) nz = nz := by omega
      rw [decide_eq_false h] at hv
      have hk0 : nz - (min (max x.length y.length) nz + 1) = 0 := by omega
      rw [hk0] at hv
      simp only [List.replicate_zero, List.append_nil] at hv
      rw [hv, rippleSubBits, toNat_take, hLlen, hm]
      simp only [Bool.toNat_false, Nat.add_zero]
      rw [hLlen, hm] at hsub
      have h1 : (toNat (subBits L false) % 2 ^ nz + toNat (busVal s inp y)) % 2 ^ nz =
          (toNat (subBits L false) + toNat (busVal s inp y) % 2 ^ nz) % 2 ^ nz := by
        rw [Nat.add_mod, Nat.mod_mod, ← Nat.add_mod (toNat (subBits L false))]
        rw [Nat.add_mod (toNat (subBits L false)) (toNat (busVal s inp y) % 2 ^ nz), Nat.mod_mod,
          ← Nat.add_mod]
      rw [h1, ← hsub]
      have : 2 ^ (nz + 1) * ((subBits L false).getLastD false).toNat =
          2 ^ nz * (2 * ((subBits L false).getLastD false).toNat) := by
        rw [Nat.pow_succ]; grind
      rw [this, Nat.add_mul_mod_self_left, Nat.mod_mod]

/-! ### comparators -/

theorem cmpChain_spec {inp : List Bool} (l : List (Nat × Nat)) :
    ∀ {s : St} (_ : WF s inp) (cin : Nat), BndP s l → cin < s.next →
    Spec inp s (cmpChain l cin) (fun r s' =>
      Holds s' inp r (cmpFold (pairVals s inp l) (s.val inp cin))) := by
  induction l with
  | nil =>
    intro s hwf cin _ hc
    simp only [cmpChain]
    exact Spec.pure hwf ⟨hc, rfl⟩
  | cons p rest ih =>
    intro s hwf cin hl hc
    obtain ⟨x, y⟩ := p
    simp only [cmpChain]
    have hxy := hl.head
    have Hx : Holds s inp x (s.val inp x) := ⟨hxy.1, rfl⟩
    have Hy : Holds s inp y (s.val inp y) := ⟨hxy.2, rfl⟩
    have Hc : Holds s inp cin (s.val inp cin) := ⟨hc, rfl⟩
    refine Spec.bind (gate_spec .xnor hwf Hc Hy) ?_
    intro w1 s1 e1 h1
    refine Spec.bind (gate_spec .xor e1.wf (Hc.mono e1) (Hx.mono e1)) ?_
    intro w2 s2 e2 h2
    refine Spec.bind (gate_spec .and e2.wf (h1.mono e2) h2) ?_
    intro w3 s3 e3 h3
    refine Spec.bind (gate_spec .xor e3.wf (((Hc.mono e1).mono e2).mono e3) h3) ?_
    intro co s4 e4 h4
    have e14 := ((e1.trans e2).trans e3).trans e4
    refine (ih e4.wf co (hl.tail.mono e14) h4.1).mono ?_
    intro r s5 _ hr
    rw [pairVals_ext e14 hl.tail, h4.2] at hr
    simp only [eval_xor, eval_and, eval_xnor, cmp_circuit] at hr
    simpa [cmpFold] using hr

/-- `x > y` (`c = false`) or `x ≥ y` (`c = true`) on numbers. -/
def cmpNat (X Y : Nat) (c : Bool) : Bool := decide (Y < X) || (decide (X = Y) && c)

theorem uintComparator_spec {s : St} {inp : List Bool} (hwf : WF s inp) {x y : List Nat} {cin : Nat}
    (hx : Bnd s x) (hy : Bnd s y) (hc : cin < s.next) :
    Spec inp s (uintComparator cin x y) (fun z s' => Bnd s' z ∧
      busVal s' inp z = [cmpNat (toNat (busVal s inp x)) (toNat (busVal s inp y)) (s.val inp cin)]) := by
  unfold uintComparator
  refine Spec.bind (zeroPad_spec hwf hx hy) ?_
  intro p s1 e1 ⟨hp1, hp2, hv1, hv2⟩
  refine Spec.bind (cmpChain_spec _ e1.wf cin (BndP.zip hp1 hp2) (Nat.lt_of_lt_of_le hc e1.next)) ?_
  intro r s2 e2 hr
  refine Spec.pure e2.wf ⟨Bnd.cons hr.1 (Bnd.nil _), ?_⟩
  simp only [busVal_cons, busVal_nil, hr.2, cmpFold_spec, pairVals_zip, hv1, hv2, e1.val cin hc]
  rw [List.map_fst_zip (by simp; omega), List.map_snd_zip (by simp; omega)]
  simp [cmpNat]

/-- Signed comparison of two equally long two's complement bit lists. -/
def cmpInt (xs ys : List Bool) (c : Bool) : Bool :=
  if xs.getLastD false != ys.getLastD false then ys.getLastD false
  else cmpNat (toNat xs) (toNat ys) c

theorem signExt_spec {s : St} {inp : List Bool} {x : List Nat} (n : Nat) (hx : Bnd s x) (hne : x ≠ []) :
    Bnd s (signExt x n) ∧ busVal s inp (signExt x n) = sextTo (busVal s inp x) n := by
  refine ⟨hx.append (Bnd.replicate (getLastD_mem_bnd hx hne) _), ?_⟩
  simp only [signExt, sextTo]
  rw [busVal_append, busVal_replicate, val_getLastD x hne, busVal_length]

/-- `intComparator` on operands of a common width `> 0`. -/
theorem intComparatorCore_spec {s : St} {inp : List Bool} (hwf : WF s inp) {p1 p2 : List Nat} {cin : Nat}
    (hp1 : Bnd s p1) (hp2 : Bnd s p2) (hc : cin < s.next) (hl : p1.length = p2.length) (hne : 0 < p1.length) :
    Spec inp s (intComparatorCore cin p1 p2) (fun z s' => Bnd s' z ∧
      busVal s' inp z = [cmpInt (busVal s inp p1) (busVal s inp p2) (s.val inp cin)]) := by
  unfold intComparatorCore
  have hne1 : p1 ≠ [] := by intro h; rw [h] at hne; simp at hne
  have hne2 : p2 ≠ [] := by intro h; rw [h, List.length_nil] at hl; omega
  refine Spec.bind (cmpChain_spec _ hwf cin (BndP.zip hp1 hp2) hc) ?_
  intro cout s2 e2 hco
  have Hsx : Holds s2 inp (p1.getLastD 0) ((busVal s inp p1).getLastD false) :=
    Holds.mono e2 ⟨getLastD_mem_bnd hp1 hne1, val_getLastD _ hne1⟩
  have Hsy : Holds s2 inp (p2.getLastD 0) ((busVal s inp p2).getLastD false) :=
    Holds.mono e2 ⟨getLastD_mem_bnd hp2 hne2, val_getLastD _ hne2⟩
  refine Spec.bind (gate_spec .xor e2.wf Hsx Hsy) ?_
  intro cond s3 e3 hcond
  refine Spec.bind (gate_spec .xor e3.wf (hco.mono e3) (Hsy.mono e3)) ?_
  intro w1 s4 e4 hw1
  refine Spec.bind (gate_spec .and e4.wf hw1 (hcond.mono e4)) ?_
  intro w2 s5 e5 hw2
  refine Spec.bind (gate_spec .xor e5.wf hw2 (((hco.mono e3).mono e4).mono e5)) ?_
  intro o s6 e6 ho
  refine Spec.pure e6.wf ⟨Bnd.cons ho.1 (Bnd.nil _), ?_⟩
  simp only [busVal_cons, busVal_nil, ho.2, cmpFold_spec, pairVals_zip, eval_xor, eval_and]
  rw [List.map_fst_zip (by simp; omega), List.map_snd_zip (by simp; omega)]
  simp only [cmpInt, cmpNat]
  generalize (busVal s inp p1).getLastD false = sx
  generalize (busVal s inp p2).getLastD false = sy
  generalize (decide (toNat (busVal s inp p2) < toNat (busVal s inp p1)) ||
    decide (toNat (busVal s inp p1) = toNat (busVal s inp p2)) && s.val inp cin) = r
  cases sx <;> cases sy <;> cases r <;> rfl

/-- `intComparator` as in the code: operands ZERO padded. -/
theorem intComparator_spec {s : St} {inp : List Bool} (hwf : WF s inp) {x y : List Nat} {cin : Nat}
    (hx : Bnd s x) (hy : Bnd s y) (hc : cin < s.next) (hne : 0 < max x.length y.length) :
    Spec inp s (intComparator cin x y) (fun z s' => Bnd s' z ∧
      busVal s' inp z = [cmpInt (padTo (busVal s inp x) (max x.length y.length))
        (padTo (busVal s inp y) (max x.length y.length)) (s.val inp cin)]) := by
  unfold intComparator
  refine Spec.bind (zeroPad_spec hwf hx hy) ?_
  intro p s1 e1 ⟨hp1, hp2, hv1, hv2⟩
  have hlen1 : p.1.length = max x.length y.length := by
    have := congrArg List.length hv1; simp at this; omega
  have hlen2 : p.2.length = max x.length y.length := by
    have := congrArg List.length hv2; simp at this; omega
  refine (intComparatorCore_spec e1.wf hp1 hp2 (Nat.lt_of_lt_of_le hc e1.next) (by omega) (by omega)).mono ?_
  intro z s2 _ ⟨hb, hv⟩
  exact ⟨hb, by rw [hv, hv1, hv2, e1.val cin hc]⟩

/-- The PROPOSED REPAIR `intComparatorSignPad` (operands sign extended). -/
theorem intComparatorSignPad_spec {s : St} {inp : List Bool} (hwf : WF s inp) {x y : List Nat} {cin : Nat}
    (hx : Bnd s x) (hy : Bnd s y) (hc : cin < s.next) (hxne : 0 < x.length) (hyne : 0 < y.length) :
    Spec inp s (intComparatorSignPad cin x y) (fun z s' => Bnd s' z ∧
      busVal s' inp z = [cmpInt (sextTo (busVal s inp x) (max x.length y.length))
        (sextTo (busVal s inp y) (max x.length y.length)) (s.val inp cin)]) := by
  unfold intComparatorSignPad
  simp only [signPad]
  have hxn : x ≠ [] := by intro h; rw [h] at hxne; simp at hxne
  have hyn : y ≠ [] := by intro h; rw [h] at hyne; simp at hyne
  obtain ⟨hp1, hv1⟩ := signExt_spec (inp := inp) (max x.length y.length) hx hxn
  obtain ⟨hp2, hv2⟩ := signExt_spec (inp := inp) (max x.length y.length) hy hyn
  have hlen1 : (signExt x (max x.length y.length)).length = max x.length y.length := by
    have := congrArg List.length hv1; simp at this; omega
  have hlen2 : (signExt y (max x.length y.length)).length = max x.length y.length := by
    have := congrArg List.length hv2; simp at this; omega
  refine (intComparatorCore_spec hwf hp1 hp2 hc (by omega) (by omega)).mono ?_
  intro z s2 _ ⟨hb, hv⟩
  exact ⟨hb, by rw [hv, hv1, hv2]⟩

/-- `cmpInt` decides the order of the two's complement values. -/
theorem cmpInt_spec (xs ys : List Bool) (c : Bool) (hl : xs.length = ys.length) (hne : xs ≠ []) :
    cmpInt xs ys c = (decide (toInt ys < toInt xs) || (decide (toInt xs = toInt ys) && c)) := by
  have hney : ys ≠ [] := by intro h; rw [h] at hl; simp at hl; exact hne hl
  have hx := toNat_getLast xs hne
  have hy := toNat_getLast ys hney
  have hxl := toNat_lt xs.dropLast
  have hyl := toNat_lt ys.dropLast
  simp only [List.length_dropLast] at hxl hyl
  have hp : 2 ^ xs.length = 2 * 2 ^ (xs.length - 1) := by
    have : xs.length = (xs.length - 1) + 1 := by
      cases xs with
      | nil => exact absurd rfl hne
      | cons _ _ => simp
    rw [this, Nat.pow_succ]; simp; omega
  rw [← hl] at hy hyl
  simp only [cmpInt, cmpNat, toInt, ← hl]
  generalize xs.getLastD false = sx at *
  generalize ys.getLastD false = sy at *
  generalize toNat xs = X at *
  generalize toNat ys = Y at *
  generalize toNat xs.dropLast = Xl at *
  generalize toNat ys.dropLast = Yl at *
  have hcast : ((2 : Int) ^ xs.length) = ((2 ^ xs.length : Nat) : Int) := by simp
  rw [hcast, hp]
  generalize 2 ^ (xs.length - 1) = P at *
  have hcastEq : ((X : Int) = (Y : Int)) ↔ X = Y := by constructor <;> intro h <;> omega
  cases sx <;> cases sy <;> simp at hx hy ⊢
  · simp only [hcastEq]
  · left; omega
  · constructor
    · omega
    · intro h; omega
  · simp only [hcastEq]

/-- The relation a comparator kind decides. -/
def CmpKind.relNat : CmpKind → Nat → Nat → Bool
  | .gt, X, Y => decide (Y < X)
  | .ge, X, Y => decide (Y ≤ X)
  | .lt, X, Y => decide (X < Y)
  | .le, X, Y => decide (X ≤ Y)

def CmpKind.relInt : CmpKind → Int → Int → Bool
  | .gt, X, Y => decide (Y < X)
  | .ge, X, Y => decide (Y ≤ X)
  | .lt, X, Y => decide (X < Y)
  | .le, X, Y => decide (X ≤ Y)

theorem cmpNat_false (X Y : Nat) : cmpNat X Y false = decide (Y < X) := by simp [cmpNat]
theorem cmpNat_true (X Y : Nat) : cmpNat X Y true = decide (Y ≤ X) := by
  simp only [cmpNat, Bool.and_true]
  rw [Bool.eq_iff_iff]; simp only [Bool.or_eq_true, decide_eq_true_eq]; omega

theorem ucomparator_spec {s : St} {inp : List Bool} (hwf : WF s inp) (k : CmpKind) {x y : List Nat}
    (hx : Bnd s x) (hy : Bnd s y) :
    Spec inp s (comparator false k x y) (fun z s' => Bnd s' z ∧
      busVal s' inp z = [k.relNat (toNat (busVal s inp x)) (toNat (busVal s inp y))]) := by
  cases k <;> simp only [comparator, Bool.false_eq_true, if_false]
  · refine Spec.bind (zeroWire_spec hwf) ?_
    intro c s1 e1 hc
    refine (uintComparator_spec e1.wf (hx.mono e1) (hy.mono e1) hc.1).mono ?_
    intro z s2 _ ⟨hb, hv⟩
    exact ⟨hb, by rw [hv, hc.2, cmpNat_false, busVal_ext e1 hx, busVal_ext e1 hy]; rfl⟩
  · refine Spec.bind (oneWire_spec hwf) ?_
    intro c s1 e1 hc
    refine (uintComparator_spec e1.wf (hx.mono e1) (hy.mono e1) hc.1).mono ?_
    intro z s2 _ ⟨hb, hv⟩
    exact ⟨hb, by rw [hv, hc.2, cmpNat_true, busVal_ext e1 hx, busVal_ext e1 hy]; rfl⟩
  · refine Spec.bind (zeroWire_spec hwf) ?_
    intro c s1 e1 hc
    refine (uintComparator_spec e1.wf (hy.mono e1) (hx.mono e1) hc.1).mono ?_
    intro z s2 _ ⟨hb, hv⟩
    exact ⟨hb, by rw [hv, hc.2, cmpNat_false, busVal_ext e1 hx, busVal_ext e1 hy]; rfl⟩
  · refine Spec.bind (oneWire_spec hwf) ?_
    intro c s1 e1 hc
    refine (uintComparator_spec e1.wf (hy.mono e1) (hx.mono e1) hc.1).mono ?_
    intro z s2 _ ⟨hb, hv⟩
    exact ⟨hb, by rw [hv, hc.2, cmpNat_true, busVal_ext e1 hx, busVal_ext e1 hy]; rfl⟩

/-- `NewInt{Gt,Ge,Lt,Le}Comparator` as in the code: the comparison of the two's
complement values of the ZERO padded operands. -/
theorem icomparator_spec {s : St} {inp : List Bool} (hwf : WF s inp) (k : CmpKind) {x y : List Nat}
    (hx : Bnd s x) (hy : Bnd s y) (hne : 0 < max x.length y.length) :
    Spec inp s (comparator true k x y) (fun z s' => Bnd s' z ∧
      busVal s' inp z = [k.relInt (toInt (padTo (busVal s inp x) (max x.length y.length)))
        (toInt (padTo (busVal s inp y) (max x.length y.length)))]) := by
  have hnx : padTo (busVal s inp x) (max x.length y.length) ≠ [] := by
    intro h; have := congrArg List.length h; simp only [padTo_length, busVal_length, List.length_nil] at this; omega
  have hny : padTo (busVal s inp y) (max x.length y.length) ≠ [] := by
    intro h; have := congrArg List.length h; simp only [padTo_length, busVal_length, List.length_nil] at this; omega
  have hlxy : (padTo (busVal s inp x) (max x.length y.length)).length =
      (padTo (busVal s inp y) (max x.length y.length)).length := by simp; omega
  have hcomm : max y.length x.length = max x.length y.length := Nat.max_comm _ _
  cases k <;> simp only [comparator, if_true]
  · refine Spec.bind (zeroWire_spec hwf) ?_
    intro c s1 e1 hc
    refine (intComparator_spec e1.wf (hx.mono e1) (hy.mono e1) hc.1 hne).mono ?_
    intro z s2 _ ⟨hb, hv⟩
    refine ⟨hb, ?_⟩
    rw [hv, hc.2, busVal_ext e1 hx, busVal_ext e1 hy, cmpInt_spec _ _ _ hlxy hnx]
    simp [CmpKind.relInt]
  · refine Spec.bind (oneWire_spec hwf) ?_
    intro c s1 e1 hc
    refine (intComparator_spec e1.wf (hx.mono e1) (hy.mono e1) hc.1 hne).mono ?_
    intro z s2 _ ⟨hb, hv⟩
    refine ⟨hb, ?_⟩
    rw [hv, hc.2, busVal_ext e1 hx, busVal_ext e1 hy, cmpInt_spec _ _ _ hlxy hnx]
    simp only [CmpKind.relInt, Bool.and_true, List.cons.injEq, and_true]
    rw [Bool.eq_iff_iff]; simp only [Bool.or_eq_true, decide_eq_true_eq]; omega
  · refine Spec.bind (zeroWire_spec hwf) ?_
    intro c s1 e1 hc
    refine (intComparator_spec e1.wf (hy.mono e1) (hx.mono e1) hc.1 (by omega)).mono ?_
    intro z s2 _ ⟨hb, hv⟩
    refine ⟨hb, ?_⟩
    rw [hv, hc.2, busVal_ext e1 hx, busVal_ext e1 hy, hcomm, cmpInt_spec _ _ _ hlxy.symm hny]
    simp [CmpKind.relInt]
  · refine Spec.bind (oneWire_spec hwf) ?_
    intro c s1 e1 hc
    refine (intComparator_spec e1.wf (hy.mono e1) (hx.mono e1) hc.1 (by omega)).mono ?_
    intro z s2 _ ⟨hb, hv⟩
    refine ⟨hb, ?_⟩
    rw [hv, hc.2, busVal_ext e1 hx, busVal_ext e1 hy, hcomm, cmpInt_spec _ _ _ hlxy.symm hny]
    simp only [CmpKind.relInt, Bool.and_true, List.cons.injEq, and_true]
    rw [Bool.eq_iff_iff]; simp only [Bool.or_eq_true, decide_eq_true_eq]; omega

/-- The PROPOSED REPAIR of `NewInt{Gt,Ge,Lt,Le}Comparator` (operands sign
extended to the common width): the comparison of the two's complement values,
for all widths. -/
theorem icomparatorSignPad_spec {s : St} {inp : List Bool} (hwf : WF s inp) (k : CmpKind) {x y : List Nat}
    (hx : Bnd s x) (hy : Bnd s y) (hxne : 0 < x.length) (hyne : 0 < y.length) :
    Spec inp s (comparatorSignPad k x y) (fun z s' => Bnd s' z ∧
      busVal s' inp z = [k.relInt (toInt (busVal s inp x)) (toInt (busVal s inp y))]) := by
  have hxn : busVal s inp x ≠ [] := by
    intro h; have := congrArg List.length h; simp only [busVal_length, List.length_nil] at this; omega
  have hyn : busVal s inp y ≠ [] := by
    intro h; have := congrArg List.length h; simp only [busVal_length, List.length_nil] at this; omega
  have hnx : sextTo (busVal s inp x) (max x.length y.length) ≠ [] := by
    intro h; have := congrArg List.length h; simp only [sextTo_length, busVal_length, List.length_nil] at this; omega
  have hny : sextTo (busVal s inp y) (max x.length y.length) ≠ [] := by
    intro h; have := congrArg List.length h; simp only [sextTo_length, busVal_length, List.length_nil] at this; omega
  have hlxy : (sextTo (busVal s inp x) (max x.length y.length)).length =
      (sextTo (busVal s inp y) (max x.length y.length)).length := by simp; omega
  have hcomm : max y.length x.length = max x.length y.length := Nat.max_comm _ _
  have htx := toInt_sextTo (busVal s inp x) (max x.length y.length) hxn
  have hty := toInt_sextTo (busVal s inp y) (max x.length y.length) hyn
  cases k <;> simp only [comparatorSignPad]
  · refine Spec.bind (zeroWire_spec hwf) ?_
    intro c s1 e1 hc
    refine (intComparatorSignPad_spec e1.wf (hx.mono e1) (hy.mono e1) hc.1 hxne hyne).mono ?_
    intro z s2 _ ⟨hb, hv⟩
    refine ⟨hb, ?_⟩
    rw [hv, hc.2, busVal_ext e1 hx, busVal_ext e1 hy, cmpInt_spec _ _ _ hlxy hnx, htx, hty]
    simp [CmpKind.relInt]
  · refine Spec.bind (oneWire_spec hwf) ?_
    intro c s1 e1 hc
    refine (intComparatorSignPad_spec e1.wf (hx.mono e1) (hy.mono e1) hc.1 hxne hyne).mono ?_
    intro z s2 _ ⟨hb, hv⟩
    refine ⟨hb, ?_⟩
    rw [hv, hc.2, busVal_ext e1 hx, busVal_ext e1 hy, cmpInt_spec _ _ _ hlxy hnx, htx, hty]
    simp only [CmpKind.relInt, Bool.and_true, List.cons.injEq, and_true]
    rw [Bool.eq_iff_iff]; simp only [Bool.or_eq_true, decide_eq_true_eq]; omega
  · refine Spec.bind (zeroWire_spec hwf) ?_
    intro c s1 e1 hc
    refine (intComparatorSignPad_spec e1.wf (hy.mono e1) (hx.mono e1) hc.1 hyne hxne).mono ?_
    intro z s2 _ ⟨hb, hv⟩
    refine ⟨hb, ?_⟩
    rw [hv, hc.2, busVal_ext e1 hx, busVal_ext e1 hy, hcomm, cmpInt_spec _ _ _ hlxy.symm hny, htx, hty]
    simp [CmpKind.relInt]
  · refine Spec.bind (oneWire_spec hwf) ?_
    intro c s1 e1 hc
    refine (intComparatorSignPad_spec e1.wf (hy.mono e1) (hx.mono e1) hc.1 hyne hxne).mono ?_
    intro z s2 _ ⟨hb, hv⟩
    refine ⟨hb, ?_⟩
    rw [hv, hc.2, busVal_ext e1 hx, busVal_ext e1 hy, hcomm, cmpInt_spec _ _ _ hlxy.symm hny, htx, hty]
    simp only [CmpKind.relInt, Bool.and_true, List.cons.injEq, and_true]
    rw [Bool.eq_iff_iff]; simp only [Bool.or_eq_true, decide_eq_true_eq]; omega

/-! ### multiplexer and bitwise operations -/

theorem muxBits_spec {inp : List Bool} (l : List (Nat × Nat)) :
    ∀ {s : St} (_ : WF s inp) (cond : Nat), BndP s l → cond < s.next →
    Spec inp s (muxBits cond l) (fun z s' => Bnd s' z ∧
      busVal s' inp z = (pairVals s inp l).map fun p => if s.val inp cond then p.1 else p.2) := by
  induction l with
  | nil => intro s hwf cond _ _; exact Spec.pure hwf ⟨Bnd.nil s, rfl⟩
  | cons p rest ih =>
    intro s hwf cond hl hc
    obtain ⟨t, f⟩ := p
    simp only [muxBits]
    have htf := hl.head
    have Ht : Holds s inp t (s.val inp t) := ⟨htf.1, rfl⟩
    have Hf : Holds s inp f (s.val inp f) := ⟨htf.2, rfl⟩
    have Hc : Holds s inp cond (s.val inp cond) := ⟨hc, rfl⟩
    refine Spec.bind (gate_spec .xor hwf Hf Ht) ?_
    intro w1 s1 e1 h1
    refine Spec.bind (gate_spec .and e1.wf h1 (Hc.mono e1)) ?_
    intro w2 s2 e2 h2
    refine Spec.bind (gate_spec .xor e2.wf h2 ((Hf.mono e1).mono e2)) ?_
    intro o s3 e3 ho
    have e13 := (e1.trans e2).trans e3
    refine Spec.bind (ih e3.wf cond (hl.tail.mono e13) (Nat.lt_of_lt_of_le hc e13.next)) ?_
    intro r s4 e4 ⟨hr, hrv⟩
    refine Spec.pure e4.wf ⟨Bnd.cons (ho.mono e4).1 hr, ?_⟩
    simp only [busVal_cons, (ho.mono e4).2, hrv, pairVals_ext e13 hl.tail, e13.val cond hc, pairVals_cons,
      List.map_cons, eval_xor, eval_and]
    congr 1
    cases s.val inp cond <;> cases s.val inp t <;> cases s.val inp f <;> rfl

theorem map_zip_eq_zipWith {α β γ : Type} (g : α → β → γ) : ∀ (xs : List α) (ys : List β),
    (xs.zip ys).map (fun p => g p.1 p.2) = List.zipWith g xs ys
  | [], _ => by simp
  | _ :: _, [] => by simp
  | x :: xs, y :: ys => by simp [map_zip_eq_zipWith g xs ys]

theorem bitwise_spec {inp : List Bool} (f : Nat → Nat → BM Nat) (g : Bool → Bool → Bool)
    (hf : ∀ (s : St) (a b : Nat), WF s inp → a < s.next → b < s.next →
      Spec inp s (f a b) (fun o s' => Holds s' inp o (g (s.val inp a) (s.val inp b))))
    (l : List (Nat × Nat)) :
    ∀ {s : St} (_ : WF s inp), BndP s l →
    Spec inp s (bitwise f l) (fun z s' => Bnd s' z ∧
      busVal s' inp z = (pairVals s inp l).map fun p => g p.1 p.2) := by
  induction l with
  | nil => intro s hwf _; exact Spec.pure hwf ⟨Bnd.nil s, rfl⟩
  | cons p rest ih =>
    intro s hwf hl
    obtain ⟨a, b⟩ := p
    simp only [bitwise]
    refine Spec.bind (hf s a b hwf hl.head.1 hl.head.2) ?_
    intro o s1 e1 ho
    refine Spec.bind (ih e1.wf (hl.tail.mono e1)) ?_
    intro r s2 e2 ⟨hr, hrv⟩
    refine Spec.pure e2.wf ⟨Bnd.cons (ho.mono e2).1 hr, ?_⟩
    simp [busVal_cons, (ho.mono e2).2, hrv, pairVals_ext e1 hl.tail]

/-- `NewBinaryAND/OR/XOR/Clear`: bit `i` of the result is the operation on bit
`i` of the (zero padded) operands, for every result width up to the operand
width. -/
theorem binaryOp_spec {s : St} {inp : List Bool} (hwf : WF s inp) (f : Nat → Nat → BM Nat)
    (g : Bool → Bool → Bool)
    (hf : ∀ (s : St) (a b : Nat), WF s inp → a < s.next → b < s.next →
      Spec inp s (f a b) (fun o s' => Holds s' inp o (g (s.val inp a) (s.val inp b))))
    {x y : List Nat} (nz : Nat) (hx : Bnd s x) (hy : Bnd s y) :
    Spec inp s (binaryOp f x y nz) (fun z s' => Bnd s' z ∧
      busVal s' inp z = List.zipWith g ((padTo (busVal s inp x) (max x.length y.length)).take nz)
        ((padTo (busVal s inp y) (max x.length y.length)).take nz)) := by
  unfold binaryOp
  refine Spec.bind (zeroPad_spec hwf hx hy) ?_
  intro p s1 e1 ⟨hp1, hp2, hv1, hv2⟩
  refine (bitwise_spec f g hf _ e1.wf (BndP.zip (hp1.take nz) (hp2.take nz))).mono ?_
  intro z s2 _ ⟨hb, hv⟩
  refine ⟨hb, ?_⟩
  rw [hv, pairVals_zip, busVal_take, busVal_take, hv1, hv2, map_zip_eq_zipWith]

theorem gateF_spec {inp : List Bool} (op : Op) (s : St) (a b : Nat) (hwf : WF s inp) (ha : a < s.next)
    (hb : b < s.next) :
    Spec inp s (gate op a b) (fun o s' => Holds s' inp o (op.eval (s.val inp a) (s.val inp b))) :=
  gate_spec op hwf ⟨ha, rfl⟩ ⟨hb, rfl⟩

theorem orF_spec {inp : List Bool} (s : St) (a b : Nat) (hwf : WF s inp) (ha : a < s.next) (hb : b < s.next) :
    Spec inp s (or a b) (fun o s' => Holds s' inp o (s.val inp a || s.val inp b)) :=
  or_spec hwf ⟨ha, rfl⟩ ⟨hb, rfl⟩

theorem clearF_spec {inp : List Bool} (s : St) (a b : Nat) (hwf : WF s inp) (ha : a < s.next)
    (hb : b < s.next) :
    Spec inp s (do let w ← inv b; gate .and a w) (fun o s' => Holds s' inp o (s.val inp a && !s.val inp b)) := by
  refine Spec.bind (inv_spec hwf ⟨hb, rfl⟩) ?_
  intro w s1 e1 hw
  exact gate_spec .and e1.wf (Holds.mono e1 ⟨ha, rfl⟩) hw

/-! ### equality -/

theorem xnorBits_spec {inp : List Bool} (l : List (Nat × Nat)) :
    ∀ {s : St} (_ : WF s inp), BndP s l →
    Spec inp s (xnorBits l) (fun z s' => Bnd s' z ∧
      busVal s' inp z = (pairVals s inp l).map fun p => p.1 == p.2) := by
  induction l with
  | nil => intro s hwf _; exact Spec.pure hwf ⟨Bnd.nil s, rfl⟩
  | cons p rest ih =>
    intro s hwf hl
    obtain ⟨a, b⟩ := p
    simp only [xnorBits]
    refine Spec.bind (gateF_spec .xnor s a b hwf hl.head.1 hl.head.2) ?_
    intro o s1 e1 ho
    refine Spec.bind (ih e1.wf (hl.tail.mono e1)) ?_
    intro r s2 e2 ⟨hr, hrv⟩
    refine Spec.pure e2.wf ⟨Bnd.cons (ho.mono e2).1 hr, ?_⟩
    simp [busVal_cons, (ho.mono e2).2, hrv, pairVals_ext e1 hl.tail]

theorem andPairs_spec {inp : List Bool} : ∀ (l : List Nat) {s : St} (_ : WF s inp), Bnd s l →
    Spec inp s (andPairs l) (fun z s' => Bnd s' z ∧ z.length = (l.length + 1) / 2 ∧
      (busVal s' inp z).all id = (busVal s inp l).all id)
  | [], s, hwf, _ => by
    simp only [andPairs]; exact Spec.pure hwf ⟨Bnd.nil s, rfl, rfl⟩
  | [a], s, hwf, hb => by
    simp only [andPairs]; exact Spec.pure hwf ⟨hb, by simp, rfl⟩
  | a :: b :: rest, s, hwf, hb => by
    simp only [andPairs]
    refine Spec.bind (gateF_spec .and s a b hwf hb.head hb.tail.head) ?_
    intro f s1 e1 hf
    refine Spec.bind (andPairs_spec rest e1.wf (hb.tail.tail.mono e1)) ?_
    intro r s2 e2 ⟨hr, hrl, hrv⟩
    refine Spec.pure e2.wf ⟨Bnd.cons (hf.mono e2).1 hr, ?_, ?_⟩
    · simp only [List.length_cons, hrl]; omega
    · simp only [busVal_cons, List.all_cons, (hf.mono e2).2, hrv, busVal_ext e1 hb.tail.tail, eval_and, id]
      rw [Bool.and_assoc]

theorem andTree_spec {inp : List Bool} : ∀ (fuel : Nat) (l : List Nat) {s : St} (_ : WF s inp), Bnd s l →
    l.length ≤ fuel + 2 → 2 ≤ l.length →
    Spec inp s (andTree fuel l) (fun z s' => Bnd s' z ∧ z.length = 2 ∧
      (busVal s' inp z).all id = (busVal s inp l).all id)
  | 0, l, s, hwf, hb, h1, h2 => by
    simp only [andTree]; exact Spec.pure hwf ⟨hb, by omega, rfl⟩
  | fuel + 1, l, s, hwf, hb, h1, h2 => by
    simp only [andTree]
    split
    · next hgt =>
      refine Spec.bind (andPairs_spec l hwf hb) ?_
      intro l' s1 e1 ⟨hb', hl', hv'⟩
      refine (andTree_spec fuel l' e1.wf hb' (by omega) (by omega)).mono ?_
      intro z s2 _ ⟨hz, hzl, hzv⟩
      exact ⟨hz, hzl, by rw [hzv, hv']⟩
    · next hle => exact Spec.pure hwf ⟨hb, by omega, rfl⟩

theorem all_beq_zip : ∀ (xs ys : List Bool), xs.length = ys.length →
    ((xs.zip ys).map fun p => p.1 == p.2).all id = decide (xs = ys)
  | [], [], _ => by simp
  | [], _ :: _, h => by simp at h
  | _ :: _, [], h => by simp at h
  | x :: xs, y :: ys, h => by
    simp only [List.length_cons, Nat.add_right_cancel_iff] at h
    simp only [List.zip_cons_cons, List.map_cons, List.all_cons, id, all_beq_zip xs ys h, List.cons.injEq]
    cases x <;> cases y <;> simp

/-- `NewEqComparator`: the result bit is `toNat x = toNat y`. -/
theorem eqComparator_spec {s : St} {inp : List Bool} (hwf : WF s inp) {x y : List Nat}
    (hx : Bnd s x) (hy : Bnd s y) (hne : 0 < max x.length y.length) :
    Spec inp s (eqComparator x y) (fun z s' => Bnd s' z ∧
      busVal s' inp z = [decide (toNat (busVal s inp x) = toNat (busVal s inp y))]) := by
  unfold eqComparator
  refine Spec.bind (zeroPad_spec hwf hx hy) ?_
  intro p s1 e1 ⟨hp1, hp2, hv1, hv2⟩
  have hlen1 : p.1.length = max x.length y.length := by
    have := congrArg List.length hv1; simp at this; omega
  have hlen2 : p.2.length = max x.length y.length := by
    have := congrArg List.length hv2; simp at this; omega
  have hzl : (p.1.zip p.2).length = max x.length y.length := by simp [hlen1, hlen2]
  have hbz := BndP.zip hp1 hp2
  have hfin : ((pairVals s1 inp (p.1.zip p.2)).map fun q => q.1 == q.2).all id =
      decide (toNat (busVal s inp x) = toNat (busVal s inp y)) := by
    rw [pairVals_zip, all_beq_zip _ _ (by simp [hlen1, hlen2]), hv1, hv2]
    have := padTo_eq_iff (busVal s inp x) (busVal s inp y) (max x.length y.length) (by simp; omega) (by simp; omega)
    simp only [this]
  split
  · next a b heq =>
    rw [heq] at hbz hfin
    refine (gateF_spec .xnor s1 a b e1.wf hbz.head.1 hbz.head.2).map ?_
    intro r s2 _ hr
    refine ⟨Bnd.cons hr.1 (Bnd.nil _), ?_⟩
    simp only [busVal_cons, busVal_nil, hr.2, eval_xnor]
    simpa using hfin
  · next hne1 =>
    have hl2 : 2 ≤ (p.1.zip p.2).length := by
      rcases hc : p.1.zip p.2 with _ | ⟨q, _ | ⟨q', r⟩⟩
      · rw [hc] at hzl; simp at hzl; omega
      · exact absurd hc (by obtain ⟨a, b⟩ := q; exact hne1 a b)
      · simp
    refine Spec.bind (xnorBits_spec _ e1.wf hbz) ?_
    intro flags s2 e2 ⟨hfb, hfv⟩
    have hfl : flags.length = (p.1.zip p.2).length := by
      have := congrArg List.length hfv; simpa using this
    refine Spec.bind (andTree_spec flags.length flags e2.wf hfb (by omega) (by omega)) ?_
    intro fl s3 e3 ⟨hflb, hfll, hflv⟩
    obtain ⟨f0, f1, rfl⟩ : ∃ f0 f1, fl = [f0, f1] := by
      rcases fl with _ | ⟨f0, _ | ⟨f1, _ | _⟩⟩ <;> simp at hfll
      exact ⟨f0, f1, rfl⟩
    refine (gateF_spec .and s3 f0 f1 e3.wf hflb.head hflb.tail.head).map ?_
    intro r s4 _ hr
    refine ⟨Bnd.cons hr.1 (Bnd.nil _), ?_⟩
    simp only [busVal_cons, busVal_nil, hr.2, eval_and, List.getD_cons_zero, List.getD_cons_succ]
    rw [hfv] at hflv
    simp only [busVal_cons, busVal_nil, List.all_cons, List.all_nil, Bool.and_true, id] at hflv
    rw [hflv, hfin]

theorem neqComparator_spec {s : St} {inp : List Bool} (hwf : WF s inp) {x y : List Nat}
    (hx : Bnd s x) (hy : Bnd s y) (hne : 0 < max x.length y.length) :
    Spec inp s (neqComparator x y) (fun z s' => Bnd s' z ∧
      busVal s' inp z = [decide (toNat (busVal s inp x) ≠ toNat (busVal s inp y))]) := by
  unfold neqComparator
  refine Spec.bind (eqComparator_spec hwf hx hy hne) ?_
  intro e s1 e1 ⟨heb, hev⟩
  obtain ⟨e0, rfl⟩ : ∃ e0, e = [e0] := by
    have := congrArg List.length hev
    rcases e with _ | ⟨e0, _ | _⟩ <;> simp at this
    exact ⟨e0, rfl⟩
  simp only [busVal_cons, busVal_nil, List.cons.injEq, and_true] at hev
  refine (inv_spec e1.wf ⟨heb.head, hev⟩).map ?_
  intro r s2 _ hr
  refine ⟨Bnd.cons hr.1 (Bnd.nil _), ?_⟩
  simp [hr.2]

/-! ### logical operations and bit tests -/

theorem val_getD {s : St} {inp : List Bool} (ws : List Nat) (i : Nat) (h : i < ws.length) :
    s.val inp (ws.getD i 0) = (busVal s inp ws).getD i false := by
  rw [List.getD_eq_getElem?_getD, List.getD_eq_getElem?_getD, List.getElem?_eq_getElem h,
    List.getElem?_eq_getElem (by simpa using h)]
  simp [busVal]

theorem getD_bnd {s : St} {ws : List Nat} (hb : Bnd s ws) (i : Nat) (h : i < ws.length) :
    ws.getD i 0 < s.next := by
  apply hb
  rw [List.getD_eq_getElem?_getD, List.getElem?_eq_getElem h]
  simp

theorem logicalAnd_spec {s : St} {inp : List Bool} (hwf : WF s inp) {x y : List Nat}
    (hx : Bnd s x) (hy : Bnd s y) (hlx : 0 < x.length) (hly : 0 < y.length) :
    Spec inp s (logicalAnd x y) (fun z s' => Bnd s' z ∧
      busVal s' inp z = [(busVal s inp x).getD 0 false && (busVal s inp y).getD 0 false]) := by
  unfold logicalAnd
  refine (gateF_spec .and s _ _ hwf (getD_bnd hx 0 hlx) (getD_bnd hy 0 hly)).map ?_
  intro r s1 _ hr
  refine ⟨Bnd.cons hr.1 (Bnd.nil _), ?_⟩
  simp only [busVal_cons, busVal_nil, hr.2, eval_and, val_getD x 0 hlx, val_getD y 0 hly]

theorem logicalOr_spec {s : St} {inp : List Bool} (hwf : WF s inp) {x y : List Nat}
    (hx : Bnd s x) (hy : Bnd s y) (hlx : 0 < x.length) (hly : 0 < y.length) :
    Spec inp s (logicalOr x y) (fun z s' => Bnd s' z ∧
      busVal s' inp z = [(busVal s inp x).getD 0 false || (busVal s inp y).getD 0 false]) := by
  unfold logicalOr
  refine (orF_spec s _ _ hwf (getD_bnd hx 0 hlx) (getD_bnd hy 0 hly)).map ?_
  intro r s1 _ hr
  refine ⟨Bnd.cons hr.1 (Bnd.nil _), ?_⟩
  simp only [busVal_cons, busVal_nil, hr.2, val_getD x 0 hlx, val_getD y 0 hly]

/-- `NewBitSetTest`: bit `index` of `x`, 0 when `index` is outside `x`. -/
theorem bitSetTest_spec {s : St} {inp : List Bool} (hwf : WF s inp) {x : List Nat} (index : Nat)
    (hx : Bnd s x) :
    Spec inp s (bitSetTest x index) (fun z s' => Bnd s' z ∧
      busVal s' inp z = [(busVal s inp x).getD index false]) := by
  unfold bitSetTest
  refine Spec.bind (zeroWire_spec hwf) ?_
  intro w s1 e1 hw
  split
  · next hlt =>
    refine (gate_spec .xor e1.wf (Holds.mono e1 ⟨getD_bnd hx index hlt, rfl⟩) hw).map ?_
    intro r s2 _ hr
    refine ⟨Bnd.cons hr.1 (Bnd.nil _), ?_⟩
    simp only [busVal_cons, busVal_nil, hr.2, eval_xor, val_getD x index hlt, Bool.bne_false]
  · next hge =>
    refine Spec.pure e1.wf ⟨Bnd.cons hw.1 (Bnd.nil _), ?_⟩
    have : (busVal s inp x).getD index false = false := by
      rw [List.getD_eq_getElem?_getD, List.getElem?_eq_none (by simp; omega)]; rfl
    simp only [busVal_cons, busVal_nil, hw.2, this]

/-- `NewBitClrTest`: negated bit `index` of `x`, 1 when outside. -/
theorem bitClrTest_spec {s : St} {inp : List Bool} (hwf : WF s inp) {x : List Nat} (index : Nat)
    (hx : Bnd s x) :
    Spec inp s (bitClrTest x index) (fun z s' => Bnd s' z ∧
      busVal s' inp z = [!(busVal s inp x).getD index false]) := by
  unfold bitClrTest
  refine Spec.bind (oneWire_spec hwf) ?_
  intro w s1 e1 hw
  split
  · next hlt =>
    refine (gate_spec .xor e1.wf (Holds.mono e1 ⟨getD_bnd hx index hlt, rfl⟩) hw).map ?_
    intro r s2 _ hr
    refine ⟨Bnd.cons hr.1 (Bnd.nil _), ?_⟩
    simp only [busVal_cons, busVal_nil, hr.2, eval_xor, val_getD x index hlt, Bool.bne_true]
  · next hge =>
    refine Spec.pure e1.wf ⟨Bnd.cons hw.1 (Bnd.nil _), ?_⟩
    have : (busVal s inp x).getD index false = false := by
      rw [List.getD_eq_getElem?_getD, List.getElem?_eq_none (by simp; omega)]; rfl
    simp only [busVal_cons, busVal_nil, hw.2, this, Bool.not_false]

/-- `NewMUX`: with `len(out) = max(len t, len f)` the result is the (zero
padded) `t` when the condition bit is set, else `f`. -/
theorem newMUX_spec {s : St} {inp : List Bool} (hwf : WF s inp) {t f : List Nat} {cond : Nat}
    (ht : Bnd s t) (hf : Bnd s f) (hc : cond < s.next) :
    Spec inp s (newMUX cond t f (max t.length f.length)) (fun z s' => ∃ r, z = some r ∧ Bnd s' r ∧
      busVal s' inp r = if s.val inp cond then padTo (busVal s inp t) (max t.length f.length)
        else padTo (busVal s inp f) (max t.length f.length)) := by
  unfold newMUX
  refine Spec.bind (zeroPad_spec hwf ht hf) ?_
  intro p s1 e1 ⟨hp1, hp2, hv1, hv2⟩
  have hlen1 : p.1.length = max t.length f.length := by
    have := congrArg List.length hv1; simp at this; omega
  have hlen2 : p.2.length = max t.length f.length := by
    have := congrArg List.length hv2; simp at this; omega
  simp only [hlen1, ne_eq, not_true_eq_false, if_false]
  refine (muxBits_spec _ e1.wf cond (BndP.zip hp1 hp2) (Nat.lt_of_lt_of_le hc e1.next)).map ?_
  intro r s2 _ ⟨hr, hrv⟩
  refine ⟨r, rfl, hr, ?_⟩
  rw [hrv, pairVals_zip, hv1, hv2, e1.val cond hc]
  have hl : (padTo (busVal s inp t) (max t.length f.length)).length =
      (padTo (busVal s inp f) (max t.length f.length)).length := by simp; omega
  generalize padTo (busVal s inp t) (max t.length f.length) = T at *
  generalize padTo (busVal s inp f) (max t.length f.length) = F at *
  cases s.val inp cond
  · simp only [Bool.false_eq_true, if_false]
    rw [show (fun p : Bool × Bool => p.2) = Prod.snd from rfl, List.map_snd_zip (by omega)]
  · simp only [if_true]
    rw [show (fun p : Bool × Bool => p.1) = Prod.fst from rfl, List.map_fst_zip (by omega)]

/-! ### Hamming distance (Yao target: ripple adders) -/

/-- Sum of the values of a list of buses. -/
def sumVal (s : St) (inp : List Bool) (L : List (List Nat)) : Nat :=
  (L.map fun b => toNat (busVal s inp b)).sum

/-- Buses exist, are non-empty and their widths do not increase along the list. -/
structure GoodL (s : St) (L : List (List Nat)) : Prop where
  bnd : ∀ b ∈ L, Bnd s b ∧ 0 < b.length
  srt : L.Pairwise (fun a b => b.length ≤ a.length)

theorem GoodL.mono {s s' : St} {inp : List Bool} {L : List (List Nat)} (e : Ext s s' inp) (h : GoodL s L) :
    GoodL s' L := ⟨fun b hb => ⟨(h.bnd b hb).1.mono e, (h.bnd b hb).2⟩, h.srt⟩

theorem sumVal_ext {s s' : St} {inp : List Bool} {L : List (List Nat)} (e : Ext s s' inp) (h : GoodL s L) :
    sumVal s' inp L = sumVal s inp L := by
  simp only [sumVal]
  congr 1
  apply List.map_congr_left
  intro b hb
  rw [busVal_ext e (h.bnd b hb).1]

theorem hammingRound_spec {inp : List Bool} : ∀ (L : List (List Nat)) {s : St} (_ : WF s inp), GoodL s L →
    Spec inp s (hammingRound false L) (fun L' s' => GoodL s' L' ∧ sumVal s' inp L' = sumVal s inp L ∧
      L'.length = (L.length + 1) / 2 ∧ ∀ m, (∀ b ∈ L, b.length ≤ m) → ∀ b' ∈ L', b'.length ≤ m + 1)
  | [], s, hwf, hg => by
    simp only [hammingRound]
    exact Spec.pure hwf ⟨hg, rfl, rfl, fun m _ b' hb' => by cases hb'⟩
  | [a], s, hwf, hg => by
    simp only [hammingRound]
    exact Spec.pure hwf ⟨hg, rfl, by simp, fun m hm b' hb' => Nat.le_succ_of_le (hm b' hb')⟩
  | a :: b :: rest, s, hwf, hg => by
    simp only [hammingRound, newAdder, Bool.false_eq_true, if_false]
    have ha := hg.bnd a (by simp)
    have hb := hg.bnd b (by simp)
    have hba : b.length ≤ a.length := by
      have := hg.srt; simp only [List.pairwise_cons] at this; exact this.1 b (by simp)
    have hrest : GoodL s rest := ⟨fun c hc => hg.bnd c (by simp [hc]), by
      have := hg.srt; simp only [List.pairwise_cons] at this; exact this.2.2⟩
    have hrestle : ∀ c ∈ rest, c.length ≤ a.length := by
      intro c hc
      have := hg.srt; simp only [List.pairwise_cons] at this; exact this.1 c (by simp [hc])
    refine Spec.bind (rippleAdder_spec hwf (a.length + 1) ha.1 hb.1 (by omega) (by omega)) ?_
    intro sm s1 e1 ⟨hsb, hsl, hsv⟩
    refine Spec.bind (hammingRound_spec rest e1.wf (hrest.mono e1)) ?_
    intro r s2 e2 ⟨hr, hrv, hrl, hrm⟩
    have hA := toNat_lt (busVal s inp a)
    have hB := toNat_lt (busVal s inp b)
    simp only [busVal_length] at hA hB
    have hpb : 2 ^ b.length ≤ 2 ^ a.length := Nat.pow_le_pow_right (by omega) hba
    have hps : 2 ^ (a.length + 1) = 2 * 2 ^ a.length := by rw [Nat.pow_succ]; omega
    rw [Nat.mod_eq_of_lt (by omega)] at hsv
    refine Spec.pure e2.wf ⟨⟨?_, ?_⟩, ?_, ?_, ?_⟩
    · intro c hc
      rcases List.mem_cons.mp hc with rfl | hc
      · exact ⟨hsb.mono e2, by omega⟩
      · exact hr.bnd c hc
    · simp only [List.pairwise_cons]
      refine ⟨?_, hr.srt⟩
      intro c hc
      have := hrm a.length hrestle c hc
      omega
    · simp only [sumVal, List.map_cons, List.sum_cons] at hrv ⊢
      rw [busVal_ext e2 hsb, hsv]
      have h1 := sumVal_ext e1 hrest
      simp only [sumVal] at h1
      rw [hrv, h1]; omega
    · simp only [List.length_cons, hrl]; omega
    · intro m hm c hc
      rcases List.mem_cons.mp hc with rfl | hc
      · have := hm a (by simp); omega
      · exact hrm m (fun d hd => hm d (by simp [hd])) c hc

theorem hammingTree_spec {inp : List Bool} : ∀ (fuel : Nat) (L : List (List Nat)) {s : St} (_ : WF s inp),
    GoodL s L → L.length ≤ fuel + 2 → 2 ≤ L.length →
    Spec inp s (hammingTree false fuel L) (fun L' s' => GoodL s' L' ∧ sumVal s' inp L' = sumVal s inp L ∧
      L'.length = 2)
  | 0, L, s, hwf, hg, h1, h2 => by
    simp only [hammingTree]; exact Spec.pure hwf ⟨hg, rfl, by omega⟩
  | fuel + 1, L, s, hwf, hg, h1, h2 => by
    simp only [hammingTree]
    split
    · refine Spec.bind (hammingRound_spec L hwf hg) ?_
      intro L1 s1 e1 ⟨hg1, hv1, hl1, _⟩
      refine (hammingTree_spec fuel L1 e1.wf hg1 (by omega) (by omega)).mono ?_
      intro L2 s2 _ ⟨hg2, hv2, hl2⟩
      exact ⟨hg2, by rw [hv2, hv1], hl2⟩
    · exact Spec.pure hwf ⟨hg, rfl, by omega⟩

/-- Number of positions in which two bit lists differ. -/
def popDiff (l : List (Bool × Bool)) : Nat := (l.map fun p => (p.1 != p.2).toNat).sum

theorem xorBits_spec {inp : List Bool} (l : List (Nat × Nat)) :
    ∀ {s : St} (_ : WF s inp), BndP s l →
    Spec inp s (xorBits l) (fun L s' => GoodL s' L ∧ L.length = l.length ∧
      (∀ b ∈ L, b.length = 1) ∧ sumVal s' inp L = popDiff (pairVals s inp l)) := by
  induction l with
  | nil =>
    intro s hwf _
    exact Spec.pure hwf ⟨GoodL.mk (fun b hb => nomatch hb) List.Pairwise.nil, rfl, (fun b hb => nomatch hb), rfl⟩
  | cons p rest ih =>
    intro s hwf hl
    obtain ⟨a, b⟩ := p
    simp only [xorBits]
    refine Spec.bind (gateF_spec .xor s a b hwf hl.head.1 hl.head.2) ?_
    intro w s1 e1 hw
    refine Spec.bind (ih e1.wf (hl.tail.mono e1)) ?_
    intro r s2 e2 ⟨hg, hrl, hr1, hrv⟩
    refine Spec.pure e2.wf ⟨⟨?_, ?_⟩, by simp [hrl], ?_, ?_⟩
    · intro c hc
      rcases List.mem_cons.mp hc with rfl | hc
      · exact ⟨Bnd.cons (hw.mono e2).1 (Bnd.nil _), by simp⟩
      · exact hg.bnd c hc
    · simp only [List.pairwise_cons]
      exact ⟨fun c hc => by rw [hr1 c hc]; simp, hg.srt⟩
    · intro c hc
      rcases List.mem_cons.mp hc with rfl | hc
      · rfl
      · exact hr1 c hc
    · simp only [sumVal, List.map_cons, List.sum_cons, busVal_cons, busVal_nil, toNat_cons, toNat_nil,
        (hw.mono e2).2, eval_xor] at hrv ⊢
      rw [hrv, pairVals_ext e1 hl.tail]
      simp [popDiff]

/-- `Hamming` (Yao target), operands at least 2 bits wide. -/
theorem hamming_spec2 {s : St} {inp : List Bool} (hwf : WF s inp) {x y : List Nat} (nz : Nat)
    (hx : Bnd s x) (hy : Bnd s y) (hne : 2 ≤ max x.length y.length) (hnz : 0 < nz) :
    Spec inp s (hamming false x y nz) (fun z s' => Bnd s' z ∧ z.length = nz ∧
      toNat (busVal s' inp z) = popDiff ((padTo (busVal s inp x) (max x.length y.length)).zip
        (padTo (busVal s inp y) (max x.length y.length))) % 2 ^ nz) := by
  unfold hamming
  refine Spec.bind (zeroPad_spec hwf hx hy) ?_
  intro p s1 e1 ⟨hp1, hp2, hv1, hv2⟩
  have hlen1 : p.1.length = max x.length y.length := by
    have := congrArg List.length hv1; simp at this; omega
  have hlen2 : p.2.length = max x.length y.length := by
    have := congrArg List.length hv2; simp at this; omega
  refine Spec.bind (xorBits_spec _ e1.wf (BndP.zip hp1 hp2)) ?_
  intro arr s2 e2 ⟨hg, hal, _, hav⟩
  have hal2 : 2 ≤ arr.length := by rw [hal]; simp [hlen1, hlen2]; omega
  refine Spec.bind (hammingTree_spec arr.length arr e2.wf hg (by omega) hal2) ?_
  intro L s3 e3 ⟨hg3, hv3, hl3⟩
  obtain ⟨a0, a1, rfl⟩ : ∃ a0 a1, L = [a0, a1] := by
    rcases L with _ | ⟨a0, _ | ⟨a1, _ | _⟩⟩ <;> simp at hl3
    exact ⟨a0, a1, rfl⟩
  simp only [List.getD_cons_zero, List.getD_cons_succ, newAdder, Bool.false_eq_true, if_false]
  have h0 := hg3.bnd a0 (by simp)
  have h1 := hg3.bnd a1 (by simp)
  refine (rippleAdder_spec e3.wf nz h0.1 h1.1 (by omega) hnz).mono ?_
  intro z s4 _ ⟨hzb, hzl, hzv⟩
  refine ⟨hzb, hzl, ?_⟩
  rw [hzv]
  simp only [sumVal, List.map_cons, List.map_nil, List.sum_cons, List.sum_nil, Nat.add_zero] at hv3
  rw [hv3]
  simp only [sumVal] at hav
  rw [hav, pairVals_zip, hv1, hv2]

/-- `Hamming` (Yao target), one-bit operands: the single XOR bit plus zero. -/
theorem hamming_spec1 {s : St} {inp : List Bool} (hwf : WF s inp) {x y : List Nat} (nz : Nat)
    (hx : Bnd s x) (hy : Bnd s y) (hne : max x.length y.length = 1) (hnz : 0 < nz) :
    Spec inp s (hamming false x y nz) (fun z s' => Bnd s' z ∧ z.length = nz ∧
      toNat (busVal s' inp z) = popDiff ((padTo (busVal s inp x) (max x.length y.length)).zip
        (padTo (busVal s inp y) (max x.length y.length))) % 2 ^ nz) := by
  unfold hamming
  refine Spec.bind (zeroPad_spec hwf hx hy) ?_
  intro p s1 e1 ⟨hp1, hp2, hv1, hv2⟩
  have hlen1 : p.1.length = max x.length y.length := by
    have := congrArg List.length hv1; simp at this; omega
  have hlen2 : p.2.length = max x.length y.length := by
    have := congrArg List.length hv2; simp at this; omega
  refine Spec.bind (xorBits_spec _ e1.wf (BndP.zip hp1 hp2)) ?_
  intro arr s2 e2 ⟨hg, hal, _, hav⟩
  have hal1 : arr.length = 1 := by rw [hal]; simp [hlen1, hlen2, hne]
  obtain ⟨a0, rfl⟩ : ∃ a0, arr = [a0] := by
    rcases arr with _ | ⟨a0, _ | _⟩ <;> simp at hal1
    exact ⟨a0, rfl⟩
  simp only [List.length_cons, List.length_nil, Nat.zero_add, hammingTree, Nat.lt_irrefl, gt_iff_lt,
    show ¬ (1 > 2) by omega, if_false, pure_bind, bind_run]
  have h0 := hg.bnd a0 (by simp)
  show Spec inp s2 (do
    let z ← zeroWire
    newAdder false ([a0].getD 0 []) [z] nz) _
  refine Spec.bind (zeroWire_spec e2.wf) ?_
  intro zw s3 e3 hz
  simp only [List.getD_cons_zero, newAdder, Bool.false_eq_true, if_false]
  refine (rippleAdder_spec e3.wf nz (h0.1.mono e3) (Bnd.cons hz.1 (Bnd.nil _)) (by simp; omega) hnz).mono ?_
  intro z s4 _ ⟨hzb, hzl, hzv⟩
  refine ⟨hzb, hzl, ?_⟩
  rw [hzv, busVal_ext e3 h0.1]
  simp only [busVal_cons, busVal_nil, hz.2, toNat_cons, toNat_nil, Bool.toNat_false, Nat.add_zero]
  simp only [sumVal, List.map_cons, List.map_nil, List.sum_cons, List.sum_nil, Nat.add_zero] at hav
  rw [hav, pairVals_zip, hv1, hv2]
  simp

/-- `Hamming` (Yao target), every operand width ≥ 1 and every result width: the
result is the number of differing bit positions modulo `2^nz`. -/
theorem hamming_spec {s : St} {inp : List Bool} (hwf : WF s inp) {x y : List Nat} (nz : Nat)
    (hx : Bnd s x) (hy : Bnd s y) (hne : 1 ≤ max x.length y.length) (hnz : 0 < nz) :
    Spec inp s (hamming false x y nz) (fun z s' => Bnd s' z ∧ z.length = nz ∧
      toNat (busVal s' inp z) = popDiff ((padTo (busVal s inp x) (max x.length y.length)).zip
        (padTo (busVal s inp y) (max x.length y.length))) % 2 ^ nz) := by
  by_cases h : max x.length y.length = 1
  · exact hamming_spec1 hwf nz hx hy h hnz
  · exact hamming_spec2 hwf nz hx hy (by omega) hnz

/-! ### array index -/

theorem getD_take_lt {α : Type} (l : List α) (k i : Nat) (d : α) (h : i < k) :
    (l.take k).getD i d = l.getD i d := by
  simp [List.getD_eq_getElem?_getD, List.getElem?_take, h]

theorem getD_drop' {α : Type} (l : List α) (k i : Nat) (d : α) :
    (l.drop k).getD i d = l.getD (k + i) d := by
  simp [List.getD_eq_getElem?_getD, List.getElem?_drop]

theorem getD_of_le {α : Type} (l : List α) (i : Nat) (d : α) (h : l.length ≤ i) : l.getD i d = d := by
  simp [List.getD_eq_getElem?_getD, List.getElem?_eq_none h]

/-- Values selected by a row of MUX bits over two equally long buses. -/
theorem muxBits_zip_spec {s : St} {inp : List Bool} (hwf : WF s inp) {t f : List Nat} {cond : Nat}
    (ht : Bnd s t) (hf : Bnd s f) (hc : cond < s.next) (hl : t.length = f.length) :
    Spec inp s (muxBits cond (t.zip f)) (fun z s' => Bnd s' z ∧
      busVal s' inp z = if s.val inp cond then busVal s inp t else busVal s inp f) := by
  refine (muxBits_spec _ hwf cond (BndP.zip ht hf) hc).mono ?_
  intro r s2 _ ⟨hr, hrv⟩
  refine ⟨hr, ?_⟩
  rw [hrv, pairVals_zip]
  cases s.val inp cond
  · simp only [Bool.false_eq_true, if_false]
    rw [show (fun p : Bool × Bool => p.2) = Prod.snd from rfl, List.map_snd_zip (by simp; omega)]
  · simp only [if_true]
    rw [show (fun p : Bool × Bool => p.1) = Prod.fst from rfl, List.map_fst_zip (by simp; omega)]

/-- Elements of the array: all wires exist, every element has `size` wires. -/
def GoodE (s : St) (size : Nat) (els : List (List Nat)) : Prop :=
  ∀ e ∈ els, Bnd s e ∧ e.length = size

theorem GoodE.mono {s s' : St} {inp : List Bool} {size : Nat} {els : List (List Nat)} (e : Ext s s' inp)
    (h : GoodE s size els) : GoodE s' size els := fun x hx => ⟨(h x hx).1.mono e, (h x hx).2⟩

theorem elsVal_ext {s s' : St} {inp : List Bool} {size : Nat} {els : List (List Nat)} (e : Ext s s' inp)
    (h : GoodE s size els) : els.map (busVal s' inp) = els.map (busVal s inp) :=
  List.map_congr_left fun x hx => busVal_ext e (h x hx).1

theorem getD_els {s : St} {inp : List Bool} (els : List (List Nat)) (dflt : List Nat) (i : Nat) (size : Nat)
    (hd : busVal s inp dflt = List.replicate size false) :
    busVal s inp (els.getD i dflt) = (els.map (busVal s inp)).getD i (List.replicate size false) := by
  by_cases h : i < els.length
  · simp [List.getD_eq_getElem?_getD, h]
  · rw [getD_of_le _ _ _ (by omega), getD_of_le _ _ _ (by simp; omega), hd]

theorem getD_els_good {s : St} {size : Nat} {els : List (List Nat)} {dflt : List Nat} (hg : GoodE s size els)
    (hdb : Bnd s dflt) (hdl : dflt.length = size) (i : Nat) :
    Bnd s (els.getD i dflt) ∧ (els.getD i dflt).length = size := by
  by_cases h : i < els.length
  · have : els.getD i dflt = els[i] := by simp [List.getD_eq_getElem?_getD, h]
    rw [this]; exact hg _ (List.getElem_mem h)
  · rw [getD_of_le _ _ _ (by omega)]; exact ⟨hdb, hdl⟩

theorem toNat_take_succ (iv : List Bool) (k : Nat) (h : k < iv.length) :
    toNat (iv.take (k + 1)) = toNat (iv.take k) + 2 ^ k * (iv.getD k false).toNat := by
  rw [List.take_add_one, toNat_append]
  simp [List.getD_eq_getElem?_getD, List.getElem?_eq_getElem h, Nat.min_eq_left (Nat.le_of_lt h)]

theorem newIndexRec_spec {inp : List Bool} (index dflt : List Nat) (size : Nat) :
    ∀ (bit length : Nat) (els : List (List Nat)) {s : St} (_ : WF s inp),
    Bnd s index → 0 < index.length → Bnd s dflt → dflt.length = size →
    busVal s inp dflt = List.replicate size false → GoodE s size els →
    1 ≤ els.length → els.length ≤ length → length = 2 ^ (bit + 1) →
    Spec inp s (newIndexRec index dflt bit length els) (fun z s' => Bnd s' z ∧ z.length = size ∧
      busVal s' inp z = (els.map (busVal s inp)).getD (toNat ((busVal s inp index).take (bit + 1)))
        (List.replicate size false)) := by
  intro bit
  induction bit with
  | zero =>
    intro length els s hwf hib hil hdb hdl hdv hg h1 h2 h3
    simp only [newIndexRec]
    have hf := getD_els_good hg hdb hdl 0
    have ht : Bnd s (if els.length > 1 then els.getD 1 dflt else dflt) ∧
        (if els.length > 1 then els.getD 1 dflt else dflt).length = size := by
      split
      · exact getD_els_good hg hdb hdl 1
      · exact ⟨hdb, hdl⟩
    refine (muxBits_zip_spec hwf ht.1 hf.1 (getD_bnd hib 0 hil) (by rw [ht.2, hf.2])).mono ?_
    intro z s1 _ ⟨hzb, hzv⟩
    have hzl : z.length = size := by
      have := congrArg List.length hzv
      rw [busVal_length] at this
      rw [this]; split
      · rw [busVal_length, ht.2]
      · rw [busVal_length, hf.2]
    refine ⟨hzb, hzl, ?_⟩
    rw [hzv, val_getD index 0 hil]
    have hb0 : toNat ((busVal s inp index).take (0 + 1)) = ((busVal s inp index).getD 0 false).toNat := by
      rw [toNat_take_succ _ 0 (by simpa using hil)]; simp
    rw [hb0]
    cases (busVal s inp index).getD 0 false
    · simp only [Bool.false_eq_true, if_false, Bool.toNat_false]
      exact getD_els els dflt 0 size hdv
    · simp only [if_true, Bool.toNat_true]
      split
      · exact getD_els els dflt 1 size hdv
      · rw [hdv, getD_of_le _ _ _ (by simp; omega)]
  | succ bit ih =>
    intro length els s hwf hib hil hdb hdl hdv hg h1 h2 h3
    simp only [newIndexRec]
    have hhalf : length / 2 = 2 ^ (bit + 1) := by
      rw [h3, Nat.pow_succ]; omega
    rw [hhalf]
    have hpos : 0 < 2 ^ (bit + 1) := Nat.two_pow_pos _
    have hn2 : els.length ≤ 2 * 2 ^ (bit + 1) := by
      rw [h3, Nat.pow_succ] at h2; omega
    -- the lower half
    have hfa : GoodE s size (if els.length > 2 ^ (bit + 1) then els.take (2 ^ (bit + 1)) else els) ∧
        1 ≤ (if els.length > 2 ^ (bit + 1) then els.take (2 ^ (bit + 1)) else els).length ∧
        (if els.length > 2 ^ (bit + 1) then els.take (2 ^ (bit + 1)) else els).length ≤ 2 ^ (bit + 1) := by
      split
      · exact ⟨fun e he => hg e (List.mem_of_mem_take he), by simp; omega, by simp; omega⟩
      · exact ⟨hg, h1, by omega⟩
    have hlow : toNat ((busVal s inp index).take (bit + 1)) < 2 ^ (bit + 1) := by
      have := toNat_lt ((busVal s inp index).take (bit + 1))
      have hl : ((busVal s inp index).take (bit + 1)).length ≤ bit + 1 := by simp; omega
      exact Nat.lt_of_lt_of_le this (Nat.pow_le_pow_right (by omega) hl)
    have hfv : ((if els.length > 2 ^ (bit + 1) then els.take (2 ^ (bit + 1)) else els).map (busVal s inp)).getD
        (toNat ((busVal s inp index).take (bit + 1))) (List.replicate size false) =
        (els.map (busVal s inp)).getD (toNat ((busVal s inp index).take (bit + 1)))
          (List.replicate size false) := by
      split
      · rw [List.map_take, getD_take_lt _ _ _ _ hlow]
      · rfl
    split
    · next hshort =>
      -- not enough index bits: lower half only
      refine (ih (2 ^ (bit + 1)) _ hwf hib hil hdb hdl hdv hfa.1 hfa.2.1 hfa.2.2 rfl).mono ?_
      intro z s1 _ ⟨hzb, hzl, hzv⟩
      refine ⟨hzb, hzl, ?_⟩
      rw [hzv, hfv]
      have : (busVal s inp index).take (bit + 1 + 1) = (busVal s inp index).take (bit + 1) := by
        rw [List.take_of_length_le (by simp; omega), List.take_of_length_le (by simp; omega)]
      rw [this]
    · next hlong =>
      have hbl : bit + 1 < index.length := by omega
      refine Spec.bind (ih (2 ^ (bit + 1)) _ hwf hib hil hdb hdl hdv hfa.1 hfa.2.1 hfa.2.2 rfl) ?_
      intro fVal s1 e1 ⟨hfb, hfl, hfvv⟩
      have hdv1 : busVal s1 inp dflt = List.replicate size false := by rw [busVal_ext e1 hdb, hdv]
      have hiv1 : busVal s1 inp index = busVal s inp index := busVal_ext e1 hib
      -- the upper half
      have upper : Spec inp s1
          (if els.length > 2 ^ (bit + 1) then newIndexRec index dflt bit (2 ^ (bit + 1)) (els.drop (2 ^ (bit + 1)))
            else pure dflt)
          (fun z s' => Bnd s' z ∧ z.length = size ∧
            busVal s' inp z = (els.map (busVal s inp)).getD
              (2 ^ (bit + 1) + toNat ((busVal s inp index).take (bit + 1))) (List.replicate size false)) := by
        split
        · next hgt =>
          have hgd : GoodE s1 size (els.drop (2 ^ (bit + 1))) :=
            fun e he => (hg.mono e1) e (List.mem_of_mem_drop he)
          refine (ih (2 ^ (bit + 1)) _ e1.wf (hib.mono e1) hil (hdb.mono e1) hdl hdv1 hgd (by simp; omega)
            (by simp; omega) rfl).mono ?_
          intro z s2 _ ⟨hzb, hzl, hzv⟩
          refine ⟨hzb, hzl, ?_⟩
          have hgd0 : GoodE s size (els.drop (2 ^ (bit + 1))) := fun e he => hg e (List.mem_of_mem_drop he)
          rw [hzv, hiv1, elsVal_ext e1 hgd0, List.map_drop, getD_drop']
        · next hle =>
          refine Spec.pure e1.wf ⟨hdb.mono e1, hdl, ?_⟩
          rw [hdv1, getD_of_le _ _ _ (by simp; omega)]
      refine Spec.bind upper ?_
      intro tVal s2 e2 ⟨htb, htl, htv⟩
      have hcb : index.getD (bit + 1) 0 < s2.next :=
        Nat.lt_of_lt_of_le (getD_bnd hib (bit + 1) hbl) (e1.trans e2).next
      refine (muxBits_zip_spec e2.wf htb (hfb.mono e2) hcb (by rw [htl, hfl])).mono ?_
      intro z s3 _ ⟨hzb, hzv⟩
      have hzl : z.length = size := by
        have := congrArg List.length hzv
        rw [busVal_length] at this
        rw [this]; split
        · rw [busVal_length, htl]
        · rw [busVal_length, hfl]
      refine ⟨hzb, hzl, ?_⟩
      rw [hzv, (e1.trans e2).val _ (getD_bnd hib (bit + 1) hbl), val_getD index (bit + 1) hbl, htv,
        busVal_ext e2 hfb, hfvv, hfv, toNat_take_succ _ (bit + 1) (by simpa using hbl)]
      cases (busVal s inp index).getD (bit + 1) false
      · simp
      · simp [Nat.add_comm]

theorem indexBits_spec : ∀ (fuel n b l : Nat), l = 2 ^ b → n ≤ fuel + l → 1 ≤ l →
    (indexBits fuel n b l).2 = 2 ^ (indexBits fuel n b l).1 ∧ n ≤ (indexBits fuel n b l).2 ∧
      b ≤ (indexBits fuel n b l).1
  | 0, n, b, l, hl, hn, _ => by
    simp only [indexBits]; exact ⟨hl, by omega, Nat.le_refl _⟩
  | fuel + 1, n, b, l, hl, hn, h1 => by
    simp only [indexBits]
    split
    · have := indexBits_spec fuel n (b + 1) (l * 2) (by rw [hl, Nat.pow_succ]) (by omega) (by omega)
      exact ⟨this.1, this.2.1, by omega⟩
    · exact ⟨hl, by omega, Nat.le_refl _⟩

theorem chunks_good {s : St} (size : Nat) : ∀ (k : Nat) (l : List Nat), Bnd s l → l.length = k * size →
    GoodE s size (chunks size k l) ∧ (chunks size k l).length = k
  | 0, l, _, _ => And.intro (fun e he => nomatch he) rfl
  | k + 1, l, hb, hl => by
    have hsz : size ≤ l.length := by rw [hl, Nat.succ_mul]; omega
    have ih := chunks_good size k (l.drop size) (hb.drop size) (by
      rw [List.length_drop, hl, Nat.succ_mul]; omega)
    simp only [chunks]
    refine ⟨?_, by simp [ih.2]⟩
    intro e he
    rcases List.mem_cons.mp he with rfl | he
    · exact ⟨hb.take size, by simp; omega⟩
    · exact ih.1 e he

theorem chunks_map {α β : Type} (f : α → β) (size : Nat) : ∀ (k : Nat) (l : List α),
    (chunks size k l).map (List.map f) = chunks size k (l.map f)
  | 0, _ => rfl
  | k + 1, l => by
    simp only [chunks, List.map_cons, List.map_take, List.map_drop, chunks_map f size k]

/-- `NewIndex`: for an array of `n ≥ 1` elements of `size ≥ 1` bits and a
non-empty index the result is element `index mod 2^bits` (`bits` = the number of
index bits the builder uses, `2^bits ≥ n`), and 0 when that is outside the array. -/
theorem newIndex_spec {s : St} {inp : List Bool} (hwf : WF s inp) (size : Nat) {array index : List Nat}
    (n : Nat) (ha : Bnd s array) (hi : Bnd s index) (hal : array.length = n * size) (hsz : 0 < size)
    (hn : 0 < n) (hil : 0 < index.length) :
    Spec inp s (newIndex size array index) (fun z s' => Bnd s' z ∧ z.length = size ∧
      busVal s' inp z = (chunks size n (busVal s inp array)).getD
        (toNat ((busVal s inp index).take (indexBits n n 1 2).1)) (List.replicate size false)) := by
  unfold newIndex
  have hdiv : array.length / size = n := by rw [hal, Nat.mul_div_cancel _ hsz]
  simp only [hdiv]
  rw [if_neg (by omega)]
  have hbits := indexBits_spec n n 1 2 rfl (by omega) (by omega)
  refine Spec.bind (zeroWire_spec hwf) ?_
  intro z s1 e1 hz
  have hch := chunks_good (s := s) size n array ha hal
  have hdv : busVal s1 inp (List.replicate size z) = List.replicate size false := by
    rw [busVal_replicate, hz.2]
  have hb1 : (indexBits n n 1 2).1 - 1 + 1 = (indexBits n n 1 2).1 := by omega
  refine (newIndexRec_spec index (List.replicate size z) size ((indexBits n n 1 2).1 - 1) (indexBits n n 1 2).2
    (chunks size n array) e1.wf (hi.mono e1) hil (Bnd.replicate hz.1 size) (by simp) hdv (hch.1.mono e1)
    (by rw [hch.2]; omega) (by rw [hch.2]; exact hbits.2.1) (by rw [hb1]; exact hbits.1)).mono ?_
  intro r s2 _ ⟨hrb, hrl, hrv⟩
  refine ⟨hrb, hrl, ?_⟩
  rw [hrv, hb1, busVal_ext e1 hi, elsVal_ext e1 hch.1]
  have : (chunks size n array).map (busVal s inp) = chunks size n (busVal s inp array) :=
    chunks_map (s.val inp) size n array
  rw [this]

/-! ### the harness wrapper: inputs, prologue, `ret` -/

theorem emptySt_wf {nIn : Nat} {inp : List Bool} (hl : inp.length = nIn) (hp : 0 < nIn) :
    WF ({ nIn := nIn } : St) inp :=
  { len := hl, pos := hp,
    inv0 := fun _ h => by simp at h,
    zero := fun _ h => by simp at h,
    one := fun _ h => by simp at h,
    sl := fun k h => by simp at h }

theorem initSt_ext {nIn : Nat} {inp : List Bool} (hl : inp.length = nIn) (hp : 0 < nIn) (pro : Bool) :
    Ext ({ nIn := nIn } : St) (initSt nIn pro) inp := by
  have h0 := emptySt_wf hl hp
  cases pro with
  | false => exact Ext.refl h0
  | true =>
    have e1 := (zeroWire_spec h0).1
    have e2 := (oneWire_spec e1.wf).1
    exact e1.trans e2

theorem inputWires_bnd {s0 s : St} {inp : List Bool} (e : Ext s0 s inp) (ofs n : Nat)
    (h : ofs + n ≤ s0.nIn) : Bnd s (inputWires ofs n) := by
  intro w hw
  simp only [inputWires, List.mem_map, List.mem_range] at hw
  obtain ⟨i, hi, rfl⟩ := hw
  have := e.next
  simp only [St.next] at this ⊢
  omega

theorem inputWires_val (s : St) (inp : List Bool) (ofs n : Nat) (h : ofs + n ≤ inp.length) :
    busVal s inp (inputWires ofs n) = (inp.drop ofs).take n := by
  apply List.ext_getElem
  · simp [inputWires]; omega
  · intro i h1 h2
    simp only [busVal, inputWires, List.getElem_map, List.getElem_range]
    rw [val_input s inp (i + ofs) (by simp [inputWires] at h1; omega)]
    simp only [List.getElem_take, List.getElem_drop]
    rw [List.getD_eq_getElem?_getD, List.getElem?_eq_getElem (by simp [inputWires] at h1; omega)]
    simp [Nat.add_comm]

theorem retWires_spec {inp : List Bool} (ws : List Nat) :
    ∀ {s : St}, WF s inp → Bnd s ws →
    Spec inp s (retWires ws) (fun o s' => Bnd s' o ∧ busVal s' inp o = busVal s inp ws) := by
  induction ws with
  | nil => intro s hwf _; exact Spec.pure hwf ⟨Bnd.nil s, rfl⟩
  | cons w ws ih =>
    intro s hwf hb
    simp only [retWires]
    refine Spec.bind (idGate_spec hwf ⟨hb.head, rfl⟩) ?_
    intro o s1 e1 ho
    refine Spec.bind (ih e1.wf (hb.tail.mono e1)) ?_
    intro r s2 e2 ⟨hr, hrv⟩
    refine Spec.pure e2.wf ⟨Bnd.cons (ho.mono e2).1 hr, ?_⟩
    simp [busVal_cons, (ho.mono e2).2, hrv, busVal_ext e1 hb.tail]

/-- From a builder specification to the circuit the harness builds
(`evalBuilder`: inputs `x ‖ y`, optional constant-wire prologue, builder,
`ret` through ID gates, evaluation of the emitted gate list). -/
theorem evalBuilder_spec {b : List Nat → List Nat → BM (List Nat)} {x y : List Bool}
    {R : List Bool → Prop}
    (hb : ∀ (s : St) (inp : List Bool) (xw yw : List Nat), WF s inp → Bnd s xw → Bnd s yw →
      busVal s inp xw = x → busVal s inp yw = y →
      Spec inp s (b xw yw) (fun z s' => Bnd s' z ∧ R (busVal s' inp z)))
    (pro : Bool) (hpos : 0 < x.length + y.length) : R (evalBuilder b pro x y) := by
  have hl : (x ++ y).length = x.length + y.length := by simp
  have e0 := initSt_ext hl hpos pro
  have hxw := inputWires_bnd e0 0 x.length (by simp)
  have hyw := inputWires_bnd e0 x.length y.length (by simp)
  have hxv : busVal (initSt (x.length + y.length) pro) (x ++ y) (inputWires 0 x.length) = x := by
    rw [inputWires_val _ _ _ _ (by simp)]; simp
  have hyv : busVal (initSt (x.length + y.length) pro) (x ++ y) (inputWires x.length y.length) = y := by
    rw [inputWires_val _ _ _ _ (by simp)]; simp
  obtain ⟨e1, hz, hR⟩ := hb _ _ _ _ e0.wf hxw hyw hxv hyv
  obtain ⟨e2, _, hov⟩ := retWires_spec _ e1.wf hz
  simp only [evalBuilder, runBuilder]
  show R (busVal _ _ _)
  rw [hov]; exact hR

/-- The final state of the harness circuit is well formed (so the bridge
`plainEval_eq_val` applies to it). -/
theorem runBuilder_wf {b : List Nat → List Nat → BM (List Nat)} {x y : List Bool}
    (hb : ∀ (s : St) (inp : List Bool) (xw yw : List Nat), WF s inp → Bnd s xw → Bnd s yw →
      busVal s inp xw = x → busVal s inp yw = y →
      Spec inp s (b xw yw) (fun z s' => Bnd s' z))
    (pro : Bool) (hpos : 0 < x.length + y.length) :
    WF (runBuilder b pro x.length y.length).1 (x ++ y) := by
  have hl : (x ++ y).length = x.length + y.length := by simp
  have e0 := initSt_ext hl hpos pro
  have hxw := inputWires_bnd e0 0 x.length (by simp)
  have hyw := inputWires_bnd e0 x.length y.length (by simp)
  have hxv : busVal (initSt (x.length + y.length) pro) (x ++ y) (inputWires 0 x.length) = x := by
    rw [inputWires_val _ _ _ _ (by simp)]; simp
  have hyv : busVal (initSt (x.length + y.length) pro) (x ++ y) (inputWires x.length y.length) = y := by
    rw [inputWires_val _ _ _ _ (by simp)]; simp
  obtain ⟨e1, hz⟩ := hb _ _ _ _ e0.wf hxw hyw hxv hyv
  obtain ⟨e2, _, _⟩ := retWires_spec _ e1.wf hz
  exact e2.wf

theorem evalBuilder3_spec {b : List Nat → List Nat → List Nat → BM (List Nat)} {x y w : List Bool}
    {R : List Bool → Prop}
    (hb : ∀ (s : St) (inp : List Bool) (xw yw ww : List Nat), WF s inp → Bnd s xw → Bnd s yw → Bnd s ww →
      busVal s inp xw = x → busVal s inp yw = y → busVal s inp ww = w →
      Spec inp s (b xw yw ww) (fun z s' => Bnd s' z ∧ R (busVal s' inp z)))
    (pro : Bool) (hpos : 0 < x.length + y.length + w.length) : R (evalBuilder3 b pro x y w) := by
  have hl : (x ++ y ++ w).length = x.length + y.length + w.length := by simp <;> omega
  have e0 := initSt_ext hl hpos pro
  have hxw := inputWires_bnd e0 0 x.length (by simp <;> omega)
  have hyw := inputWires_bnd e0 x.length y.length (by simp <;> omega)
  have hww := inputWires_bnd e0 (x.length + y.length) w.length (by simp <;> omega)
  have hxv : busVal (initSt (x.length + y.length + w.length) pro) (x ++ y ++ w) (inputWires 0 x.length) = x := by
    rw [inputWires_val _ _ _ _ (by simp <;> omega)]; simp
  have hyv : busVal (initSt (x.length + y.length + w.length) pro) (x ++ y ++ w)
      (inputWires x.length y.length) = y := by
    rw [inputWires_val _ _ _ _ (by simp <;> omega)]; simp [List.append_assoc]
  have hwv : busVal (initSt (x.length + y.length + w.length) pro) (x ++ y ++ w)
      (inputWires (x.length + y.length) w.length) = w := by
    rw [inputWires_val _ _ _ _ (by simp <;> omega)]
    have : (x ++ y ++ w).drop (x.length + y.length) = w := by
      rw [List.drop_append_of_le_length (by simp <;> omega)]; simp
    rw [this]; simp
  obtain ⟨e1, hz, hR⟩ := hb _ _ _ _ _ e0.wf hxw hyw hww hxv hyv hwv
  obtain ⟨e2, _, hov⟩ := retWires_spec _ e1.wf hz
  simp only [evalBuilder3]
  show R (busVal _ _ _)
  rw [hov]; exact hR

/-- From `z + y ≡ x (mod M)` with `z < M` to the signed form
`z = (x - y) mod M`. -/
theorem sub_mod_int (z x y M : Nat) (hz : z < M) (h : (z + y) % M = x % M) :
    (z : Int) = ((x : Int) - (y : Int)) % (M : Int) := by
  have hM : (0 : Int) < M := by omega
  have h1 : ((z : Int) + y) % M = (x : Int) % M := by
    have := congrArg (fun n : Nat => (n : Int)) h
    simpa [Int.natCast_add] using this
  have h2 : ((x : Int) - y) % M = (((z : Int) + y) - y) % M := by
    rw [Int.sub_emod, ← h1, ← Int.sub_emod]
  rw [h2]
  have : (z : Int) + y - y = z := by omega
  rw [this, Int.emod_eq_of_lt (by omega) (by omega)]

end Mpc.Bld

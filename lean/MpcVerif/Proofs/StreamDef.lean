/-
`wfArr` (Model/StreamDef.lean, what the driver op `c04def` runs) is `wfFrom`
(Model/Circuit.lean, the hypothesis of the streaming theorems of C04).
-/
import MpcVerif.Model.StreamDef

namespace Mpc

theorem wfArr_eq_wfFrom_aux (n : Nat) (gs : List Gate) :
    ∀ (d : Array Bool) (D : Nat → Bool), d.size = n → (∀ w, w < n → d.getD w false = D w) →
      wfArr n gs d = wfFrom n gs D := by
  induction gs with
  | nil => intro d D _ _; rfl
  | cons g gs ih =>
    intro d D hsz hd
    simp only [wfArr, wfFrom]
    by_cases h0 : g.in0 < n
    · by_cases ho : g.out < n
      · have ih' := ih (d.setIfInBounds g.out true) (fun w => w == g.out || D w) (by simp [hsz]) (by
          intro w hw
          show Store.get (Store.set d g.out true) w = (w == g.out || D w)
          by_cases hwo : g.out = w
          · subst hwo
            rw [Store.get_set_eq _ _ _ (by omega)]
            simp
          · rw [Store.get_set_ne _ _ _ _ hwo]
            have hne : (w == g.out) = false := by
              simp only [beq_eq_false_iff_ne, ne_eq]
              exact fun h => hwo h.symm
            rw [hne, Bool.false_or]
            exact hd w hw)
        rw [ih', hd _ h0]
        by_cases h1 : g.in1 < n
        · rw [hd _ h1]
        · cases hb : g.op.binary <;> simp [h1]
      · simp [ho]
    · simp [h0]

/-- **The driver's check is the theorems' hypothesis.** -/
theorem wfArr_eq_wfFrom (n nIn : Nat) (gates : List Gate) :
    streamDefined n nIn gates = wfFrom n gates (fun w => decide (w < nIn)) := by
  apply wfArr_eq_wfFrom_aux
  · simp [inputFlags]
  · intro w hw
    simp [inputFlags, Array.getD, hw]

end Mpc

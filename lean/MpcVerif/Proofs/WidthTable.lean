/-
Lemmas about lookups in a width-indexed table handed over in any order
(Model/WidthTable.lean): the lookup by key, the best-so-far loop (`argmin`).
-/
import MpcVerif.Model.WidthTable

namespace Mpc.WT

/-! ### lookup by key -/

theorem lookup?_some_mem : ∀ (l : List (Nat × Nat)) (k v : Nat), lookup? l k = some v → (k, v) ∈ l
  | [], _, _, h => by simp [lookup?] at h
  | (k', v') :: rest, k, v, h => by
    simp only [lookup?] at h
    by_cases hk : k' = k
    · simp only [hk, if_true, Option.some.injEq] at h
      subst hk; subst h; exact List.mem_cons_self
    · simp only [hk, if_false] at h
      exact List.mem_cons_of_mem _ (lookup?_some_mem rest k v h)

theorem lookup?_none : ∀ (l : List (Nat × Nat)) (k : Nat), lookup? l k = none → ∀ e ∈ l, e.1 ≠ k
  | [], _, _, e, he => by cases he
  | (k', v') :: rest, k, h, e, he => by
    simp only [lookup?] at h
    by_cases hk : k' = k
    · simp [hk] at h
    · simp only [hk, if_false] at h
      cases he with
      | head => exact hk
      | tail _ hm => exact lookup?_none rest k h e hm

/-- A map has one value per key. -/
def Functional (l : List (Nat × Nat)) : Prop := ∀ a ∈ l, ∀ b ∈ l, a.1 = b.1 → a.2 = b.2

theorem Functional.perm {l₁ l₂ : List (Nat × Nat)} (h : Functional l₁) (hp : l₁.Perm l₂) : Functional l₂ :=
  fun a ha b hb => h a (hp.mem_iff.mpr ha) b (hp.mem_iff.mpr hb)

theorem lookup?_perm (l₁ l₂ : List (Nat × Nat)) (hp : l₁.Perm l₂) (hf : Functional l₁) (k : Nat) :
    lookup? l₁ k = lookup? l₂ k := by
  cases h₁ : lookup? l₁ k with
  | none =>
    cases h₂ : lookup? l₂ k with
    | none => rfl
    | some v₂ =>
      have m := hp.mem_iff.mpr (lookup?_some_mem l₂ k v₂ h₂)
      exact absurd rfl (lookup?_none l₁ k h₁ (k, v₂) m)
  | some v₁ =>
    have m₁ := lookup?_some_mem l₁ k v₁ h₁
    cases h₂ : lookup? l₂ k with
    | none => exact absurd rfl (lookup?_none l₂ k h₂ (k, v₁) (hp.mem_iff.mp m₁))
    | some v₂ =>
      have m₂ := hp.mem_iff.mpr (lookup?_some_mem l₂ k v₂ h₂)
      have : v₁ = v₂ := hf _ m₁ _ m₂ rfl
      rw [this]

/-! ### the order `lexLt` -/

theorem lexLt_asymm (a b : Nat × Nat) (h : lexLt a b = true) : lexLt b a = false := by
  simp only [lexLt, Bool.or_eq_true, Bool.and_eq_true, decide_eq_true_eq, beq_iff_eq] at h
  simp only [lexLt, Bool.or_eq_false_iff, Bool.and_eq_false_iff, decide_eq_false_iff_not, beq_eq_false_iff_ne]
  omega

/-- `≥` is transitive: `¬ a < b → ¬ b < c → ¬ a < c` -/
theorem lexLt_false_trans (a b c : Nat × Nat) (h₁ : lexLt a b = false) (h₂ : lexLt b c = false) : lexLt a c = false := by
  simp only [lexLt, Bool.or_eq_false_iff, Bool.and_eq_false_iff, decide_eq_false_iff_not, beq_eq_false_iff_ne] at *
  omega

/-- total: two entries none of which is below the other have the same rank -/
theorem lexLt_antisymm (a b : Nat × Nat) (h₁ : lexLt a b = false) (h₂ : lexLt b a = false) : a = b := by
  simp only [lexLt, Bool.or_eq_false_iff, Bool.and_eq_false_iff, decide_eq_false_iff_not, beq_eq_false_iff_ne] at *
  have : a.1 = b.1 ∧ a.2 = b.2 := by omega
  exact Prod.ext this.1 this.2

/-! ### the best-so-far loop -/

section argmin
variable {α : Type} (rank : α → Nat × Nat)

/-- The loop started with a best entry `b` ends with an entry of the list (or `b`) that no entry is below. -/
theorem foldl_argminStep_spec : ∀ (l : List α) (b : α),
    ∃ b', l.foldl (argminStep rank) (some b) = some b' ∧ (b' = b ∨ b' ∈ l) ∧
      lexLt (rank b) (rank b') = false ∧ ∀ e ∈ l, lexLt (rank e) (rank b') = false
  | [], b => ⟨b, rfl, Or.inl rfl, by simp [lexLt], fun _ h => by cases h⟩
  | e :: t, b => by
    simp only [List.foldl_cons, argminStep]
    by_cases hlt : lexLt (rank e) (rank b) = true
    · simp only [hlt, if_true]
      obtain ⟨b', hf, hm, hb, hall⟩ := foldl_argminStep_spec t e
      refine ⟨b', hf, Or.inr ?_, ?_, ?_⟩
      · cases hm with
        | inl h => rw [h]; exact List.mem_cons_self
        | inr h => exact List.mem_cons_of_mem _ h
      · exact lexLt_false_trans _ _ _ (lexLt_asymm _ _ hlt) hb
      · intro x hx
        cases hx with
        | head => exact hb
        | tail _ hx => exact hall x hx
    · have hlt' : lexLt (rank e) (rank b) = false := by simpa using hlt
      simp only [hlt', Bool.false_eq_true, if_false]
      obtain ⟨b', hf, hm, hb, hall⟩ := foldl_argminStep_spec t b
      refine ⟨b', hf, ?_, hb, ?_⟩
      · cases hm with
        | inl h => exact Or.inl h
        | inr h => exact Or.inr (List.mem_cons_of_mem _ h)
      · intro x hx
        cases hx with
        | head => exact lexLt_false_trans _ _ _ hlt' hb
        | tail _ hx => exact hall x hx

/-- `a` is minimal in `l`: no entry of `l` is strictly below it -/
def Minimal (l : List α) (a : α) : Prop := ∀ e ∈ l, lexLt (rank e) (rank a) = false

theorem argmin_nil : argmin rank ([] : List α) = none := rfl

/-- The result of the loop over a non-empty list is a minimal entry of the list. -/
theorem argmin_spec (l : List α) (hne : l ≠ []) : ∃ b, argmin rank l = some b ∧ b ∈ l ∧ Minimal rank l b := by
  cases l with
  | nil => exact absurd rfl hne
  | cons a t =>
    obtain ⟨b', hf, hm, hb, hall⟩ := foldl_argminStep_spec rank t a
    refine ⟨b', ?_, ?_, ?_⟩
    · simpa [argmin, argminStep] using hf
    · cases hm with
      | inl h => rw [h]; exact List.mem_cons_self
      | inr h => exact List.mem_cons_of_mem _ h
    · intro x hx
      cases hx with
      | head => exact hb
      | tail _ hx => exact hall x hx

/-- The entry handed over first wins when it is minimal (later entries of the same rank do not replace it). -/
theorem argmin_head_minimal (a : α) : ∀ (t : List α), (∀ e ∈ t, lexLt (rank e) (rank a) = false) →
    argmin rank (a :: t) = some a := by
  intro t h
  have : ∀ (t : List α), (∀ e ∈ t, lexLt (rank e) (rank a) = false) → t.foldl (argminStep rank) (some a) = some a := by
    intro t
    induction t with
    | nil => intro _; rfl
    | cons e t ih =>
      intro h
      simp only [List.foldl_cons, argminStep, h e List.mem_cons_self, Bool.false_eq_true, if_false]
      exact ih fun x hx => h x (List.mem_cons_of_mem _ hx)
  simpa [argmin, argminStep] using this t h

theorem Minimal.perm {l₁ l₂ : List α} {a : α} (h : Minimal rank l₁ a) (hp : l₁.Perm l₂) : Minimal rank l₂ a :=
  fun e he => h e (hp.mem_iff.mpr he)

/-- Hand-over order does not matter when all minimal entries carry the same value. -/
theorem argmin_perm_invariant {β : Type} (val : α → β) (l₁ l₂ : List α) (hp : l₁.Perm l₂)
    (huniq : ∀ a ∈ l₁, ∀ b ∈ l₁, Minimal rank l₁ a → Minimal rank l₁ b → val a = val b) :
    (argmin rank l₁).map val = (argmin rank l₂).map val := by
  by_cases h₁ : l₁ = []
  · subst h₁
    have : l₂ = [] := hp.symm.eq_nil
    subst this; rfl
  · have h₂ : l₂ ≠ [] := fun h => h₁ (by subst h; exact hp.eq_nil)
    obtain ⟨b₁, e₁, m₁, min₁⟩ := argmin_spec rank l₁ h₁
    obtain ⟨b₂, e₂, m₂, min₂⟩ := argmin_spec rank l₂ h₂
    rw [e₁, e₂]
    simp only [Option.map_some]
    rw [huniq b₁ m₁ b₂ (hp.mem_iff.mpr m₂) min₁ (Minimal.perm rank min₂ hp.symm)]

/-- The hypothesis is needed: two minimal entries with different values give two hand-over orders with different
results (each of them handed over first wins). -/
theorem argmin_tie_order_dependent [DecidableEq α] {β : Type} (val : α → β) (l : List α) (a b : α) (ha : a ∈ l) (hb : b ∈ l)
    (mina : Minimal rank l a) (minb : Minimal rank l b) (hne : val a ≠ val b) :
    ∃ l₁ l₂ : List α, l₁.Perm l ∧ l₂.Perm l ∧ (argmin rank l₁).map val ≠ (argmin rank l₂).map val := by
  refine ⟨a :: l.erase a, b :: l.erase b, (List.perm_cons_erase ha).symm, (List.perm_cons_erase hb).symm, ?_⟩
  rw [argmin_head_minimal rank a _ (fun e he => mina e (List.mem_of_mem_erase he)),
    argmin_head_minimal rank b _ (fun e he => minb e (List.mem_of_mem_erase he))]
  simpa using hne

end argmin

/-! ### nearest key -/

theorem lexLt_rankNear (bits : Nat) (e a : Nat × Nat) :
    lexLt (rankNear bits e) (rankNear bits a) = false ↔ dist a.1 bits ≤ dist e.1 bits := by
  have h : lexLt (rankNear bits e) (rankNear bits a) = decide (dist e.1 bits < dist a.1 bits) := by
    show (decide (dist e.1 bits < dist a.1 bits) || (dist e.1 bits == dist a.1 bits && decide (0 < 0))) = _
    simp
  rw [h]
  simp [Nat.not_lt]

/-- closest: no key of the table is closer to `bits` -/
def Closest (l : List (Nat × Nat)) (bits : Nat) (a : Nat × Nat) : Prop := ∀ e ∈ l, dist a.1 bits ≤ dist e.1 bits

theorem minimal_rankNear (l : List (Nat × Nat)) (bits : Nat) (a : Nat × Nat) :
    Minimal (rankNear bits) l a ↔ Closest l bits a := by
  constructor
  · intro h e he; exact (lexLt_rankNear bits e a).mp (h e he)
  · intro h e he; exact (lexLt_rankNear bits e a).mpr (h e he)

theorem nearest_perm_invariant (l₁ l₂ : List (Nat × Nat)) (hp : l₁.Perm l₂) (bits d : Nat)
    (huniq : ∀ a ∈ l₁, ∀ b ∈ l₁, Closest l₁ bits a → Closest l₁ bits b → a.2 = b.2) :
    nearest l₁ bits d = nearest l₂ bits d := by
  unfold nearest
  rw [argmin_perm_invariant (rankNear bits) (·.2) l₁ l₂ hp
    (fun a ha b hb ma mb => huniq a ha b hb ((minimal_rankNear _ _ _).mp ma) ((minimal_rankNear _ _ _).mp mb))]

theorem nearestTB_perm_invariant (l₁ l₂ : List (Nat × Nat)) (hp : l₁.Perm l₂) (bits d : Nat) (hf : Functional l₁) :
    nearestTB l₁ bits d = nearestTB l₂ bits d := by
  unfold nearestTB
  rw [argmin_perm_invariant (rankNearTB bits) (·.2) l₁ l₂ hp]
  intro a ha b hb ma mb
  have := lexLt_antisymm _ _ (ma b hb) (mb a ha)
  simp only [rankNearTB, Prod.mk.injEq] at this
  exact (hf a ha b hb this.2.symm)

theorem nearest_tie_order_dependent (l : List (Nat × Nat)) (bits d : Nat) (a b : Nat × Nat) (ha : a ∈ l) (hb : b ∈ l)
    (ca : Closest l bits a) (cb : Closest l bits b) (hne : a.2 ≠ b.2) :
    ∃ l₁ l₂ : List (Nat × Nat), l₁.Perm l ∧ l₂.Perm l ∧ nearest l₁ bits d ≠ nearest l₂ bits d := by
  refine ⟨a :: l.erase a, b :: l.erase b, (List.perm_cons_erase ha).symm, (List.perm_cons_erase hb).symm, ?_⟩
  unfold nearest
  rw [argmin_head_minimal (rankNear bits) a _
      (fun e he => (minimal_rankNear l bits a).mpr ca e (List.mem_of_mem_erase he)),
    argmin_head_minimal (rankNear bits) b _
      (fun e he => (minimal_rankNear l bits b).mpr cb e (List.mem_of_mem_erase he))]
  simpa using hne

/-- exact hit, otherwise the closest key: both parts must be order independent -/
theorem lookupNearest_perm_invariant (l₁ l₂ : List (Nat × Nat)) (hp : l₁.Perm l₂) (bits d : Nat) (hf : Functional l₁)
    (huniq : ∀ a ∈ l₁, ∀ b ∈ l₁, Closest l₁ bits a → Closest l₁ bits b → a.2 = b.2) :
    lookupNearest l₁ bits d = lookupNearest l₂ bits d := by
  simp only [lookupNearest, lookup?_perm l₁ l₂ hp hf bits, nearest_perm_invariant l₁ l₂ hp bits d huniq]

/-! ### the multiplier of the code as it is -/

theorem multLimit_perm (l₁ l₂ : List (Nat × Nat)) (hp : l₁.Perm l₂) (hf : Functional l₁) (w : Nat) :
    multLimit l₁ w = multLimit l₂ w := by
  simp only [multLimit, lookupD, lookup?_perm l₁ l₂ hp hf w]

theorem multShape_perm (l₁ l₂ : List (Nat × Nat)) (hp : l₁.Perm l₂) (hf : Functional l₁) (w : Nat) :
    multShape l₁ w = multShape l₂ w := by
  simp only [multShape, multLimit_perm l₁ l₂ hp hf w]

theorem multClass_perm (gmw : Bool) (l₁ l₂ : List (Nat × Nat)) (hp : l₁.Perm l₂) (hf : Functional l₁) (w lo cnt : Nat) :
    multClass gmw l₁ w lo cnt = multClass gmw l₂ w lo cnt := by
  simp only [multClass, multShape_perm l₁ l₂ hp hf w]

end Mpc.WT

/-
C17: lemmas about result histories (Model/PoolResult.lean).
-/
import MpcVerif.Model.PoolResult

namespace Mpc.Pool.Res

variable (c : Circuit) (widths : List Nat)

theorem run_cons (impl : Impl) (st : St) (x : List Bool) (h : List (List Bool)) :
    run impl c widths st (x :: h) = run impl c widths (call impl c widths st x) h := rfl

theorem run_append (impl : Impl) (st : St) (h1 h2 : List (List Bool)) :
    run impl c widths st (h1 ++ h2) = run impl c widths (run impl c widths st h1) h2 := by
  simp [run, List.foldl_append]

theorem call_fresh_heap (st : St) (x : List Bool) :
    (call .fresh c widths st x).heap = st.heap ++ [computeVal c widths x] := rfl

theorem call_fresh_rets (st : St) (x : List Bool) :
    (call .fresh c widths st x).rets = st.rets ++ [st.heap.length] := rfl

/-- A history of fresh calls only appends to the heap. -/
theorem run_fresh_heap (st : St) (h : List (List Bool)) :
    ∃ ext, (run .fresh c widths st h).heap = st.heap ++ ext := by
  induction h generalizing st with
  | nil => exact ⟨[], by simp [run]⟩
  | cons x h ih =>
    obtain ⟨e, he⟩ := ih (call .fresh c widths st x)
    exact ⟨computeVal c widths x :: e, by rw [run_cons, he, call_fresh_heap]; simp⟩

/-- ... and to the list of returned references. -/
theorem run_fresh_rets (st : St) (h : List (List Bool)) :
    ∃ ext, (run .fresh c widths st h).rets = st.rets ++ ext := by
  induction h generalizing st with
  | nil => exact ⟨[], by simp [run]⟩
  | cons x h ih =>
    obtain ⟨e, he⟩ := ih (call .fresh c widths st x)
    exact ⟨st.heap.length :: e, by rw [run_cons, he, call_fresh_rets]; simp⟩

theorem run_fresh_rets_length (st : St) (h : List (List Bool)) :
    (run .fresh c widths st h).rets.length = st.rets.length + h.length := by
  induction h generalizing st with
  | nil => simp [run]
  | cons x h ih => rw [run_cons, ih, call_fresh_rets]; simp; omega

end Mpc.Pool.Res

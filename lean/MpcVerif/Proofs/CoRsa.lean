/-
Lemmas for the Chou-Orlandi model (Model/Co.lean) and the RSA OT model
(Model/RsaOt.lean).  Core Lean only.
-/
import MpcVerif.Model.Co
import MpcVerif.Model.RsaOt
namespace Mpc.Co
open Mpc.Iknp (Label)
variable {G : Type}

theorem add_neg_cancel_right (Γ : Group G) (a b : G) : Γ.add (Γ.add a b) (Γ.neg b) = a := by
  rw [Γ.add_assoc, Γ.add_neg, Γ.add_zero]

/-- `co_delivers`, group part: the sender's mask point for the chosen message
equals the receiver's: `a•B − c•(a•A) = b•A` for `B = b•g + c•A`, `A = a•g`. -/
theorem masks_agree (Γ : Group G) (g : G) (a b : Nat) (bit : Bool) :
    (let s := senderSetup Γ g a
     let B := Γ.smul s.a (choicePoint Γ g s.A b bit)
     if bit then Γ.add B s.AaInv else B) = Γ.smul b (senderSetup Γ g a).A := by
  cases bit with
  | false => simp only [senderSetup, choicePoint]; exact Γ.smul_comm a b g
  | true =>
    simp only [senderSetup, choicePoint, if_true]
    rw [Γ.smul_add, add_neg_cancel_right]
    exact Γ.smul_comm a b g

theorem xor_cancel (m x : Label) : (m ^^^ x) ^^^ m = x := by
  rw [BitVec.xor_comm m x, BitVec.xor_assoc, BitVec.xor_self, BitVec.xor_zero]

theorem delivers (Γ : Group G) (valid : G → Bool) (kdf : G → Nat → Label) (g : G) (a n : Nat)
    (scalars : Nat → Nat) (bits : Nat → Bool) (wires : Nat → Wire)
    (hA : valid (Γ.smul a g) = true)
    (hP : ∀ i, i < n → valid (choicePoint Γ g (Γ.smul a g) (scalars i) (bits i)) = true) :
    ∃ cts, encrypt Γ valid kdf (senderSetup Γ g a) n
        (fun i => choicePoint Γ g (senderSetup Γ g a).A (scalars i) (bits i)) wires = some cts ∧
      cts.length = n ∧
      (decrypt Γ kdf (senderSetup Γ g a).A n scalars bits cts).length = n ∧
      ∀ i, i < n → (decrypt Γ kdf (senderSetup Γ g a).A n scalars bits cts).getD i 0#128 =
        if bits i then (wires i).2 else (wires i).1 := by
  have hany : (List.range n).any (fun i => !valid (choicePoint Γ g (senderSetup Γ g a).A (scalars i) (bits i))) = false := by
    rw [List.any_eq_false]
    intro i hi
    simp only [List.mem_range] at hi
    simp [senderSetup, hP i hi]
  have henc : encrypt Γ valid kdf (senderSetup Γ g a) n
      (fun i => choicePoint Γ g (senderSetup Γ g a).A (scalars i) (bits i)) wires =
      some ((List.range n).map fun idx =>
        (kdf (Γ.smul (senderSetup Γ g a).a (choicePoint Γ g (senderSetup Γ g a).A (scalars idx) (bits idx))) idx
            ^^^ (wires idx).1,
         kdf (Γ.add (Γ.smul (senderSetup Γ g a).a (choicePoint Γ g (senderSetup Γ g a).A (scalars idx) (bits idx)))
            (senderSetup Γ g a).AaInv) idx ^^^ (wires idx).2)) := by
    unfold encrypt
    have : valid (senderSetup Γ g a).A = true := hA
    simp only [this, hany, Bool.not_true, Bool.false_eq_true, if_false]
  refine ⟨_, henc, by simp, by simp [decrypt], ?_⟩
  · intro i hi
    simp only [decrypt, List.getD_eq_getElem?_getD, List.getElem?_map, List.getElem?_range hi, Option.map_some,
      Option.getD_some]
    have hm := masks_agree Γ g a (scalars i) (bits i)
    simp only at hm
    cases hb : bits i with
    | false =>
      rw [hb] at hm
      simp only [Bool.false_eq_true, if_false] at hm ⊢
      rw [hm, xor_cancel]
    | true =>
      rw [hb] at hm
      simp only [if_true] at hm ⊢
      rw [hm, xor_cancel]
end Mpc.Co

namespace Mpc.RsaOt

theorem key_recovered (N e d xb k : Nat) (hk : k < N)
    (hkey : ∀ c, c < N → (c ^ e % N) ^ d % N = c) :
    senderKey N d (receiverV N e xb k) xb = k := by
  have hN : 0 < N := by omega
  unfold senderKey receiverV
  have hc : k ^ e % N < N := Nat.mod_lt _ hN
  generalize hcd : k ^ e % N = c at hc
  have h1 : (((xb + c) % N : Nat) : Int) - (xb : Int) = (c : Int) + (N : Int) * (-(((xb + c) / N : Nat) : Int)) := by
    have := Nat.mod_add_div (xb + c) N
    have h2 : (((xb + c) % N : Nat) : Int) + (N : Int) * (((xb + c) / N : Nat) : Int) = (xb : Int) + (c : Int) := by
      exact_mod_cast this
    rw [Int.mul_neg]
    omega
  rw [h1, Int.add_mul_emod_self_left, Int.emod_eq_of_lt (by omega) (by omega)]
  simp only [Int.toNat_natCast]
  rw [← hcd]
  exact hkey k hk

theorem delivers {M : Type} (N e d : Nat) (enc : M → Nat) (dec : Int → Option M)
    (x0 x1 k : Nat) (bit : Bool) (m0 m1 : M) (hk : k < N)
    (hkey : ∀ c, c < N → (c ^ e % N) ^ d % N = c)
    (hround : ∀ m, dec (enc m : Int) = some m) :
    transfer N e d enc dec x0 x1 k bit m0 m1 = some (if bit then m1 else m0) := by
  unfold transfer
  cases bit with
  | false =>
    simp only [Bool.false_eq_true, if_false]
    rw [key_recovered N e d x0 k hk hkey]
    have : ((enc m0 + k : Nat) : Int) - (k : Int) = (enc m0 : Int) := by omega
    rw [this, hround]
  | true =>
    simp only [if_true]
    rw [key_recovered N e d x1 k hk hkey]
    have : ((enc m1 + k : Nat) : Int) - (k : Int) = (enc m1 : Int) := by omega
    rw [this, hround]
end Mpc.RsaOt

/-! ### The HEAD helpers over bare operations (`encryptO`/`decryptO`) -/

namespace Mpc.Co
open Mpc.Iknp (Label)
variable {G : Type}

theorem masks_agreeO (Γ : Group G) (g : G) (a b : Nat) (bit : Bool) :
    (let s := senderSetupO Γ.ops g a
     let B := Γ.ops.smul s.a (choicePointO Γ.ops g s.A b bit)
     if bit then Γ.ops.add B s.AaInv else B) = Γ.ops.smul b (senderSetupO Γ.ops g a).A :=
  masks_agree Γ g a b bit

/-- `co_delivers` for the HEAD helpers over `Γ.ops`. -/
theorem deliversO (Γ : Group G) (valid : G → Bool) (kdf : G → Nat → Label) (g : G) (a n : Nat)
    (scalars : Nat → Nat) (bits : Nat → Bool) (wires : Nat → Wire)
    (hA : valid (senderSetupO Γ.ops g a).A = true)
    (hI : valid (senderSetupO Γ.ops g a).AaInv = true)
    (hP : ∀ i, i < n → valid (choicePointO Γ.ops g (senderSetupO Γ.ops g a).A (scalars i) (bits i)) = true) :
    ∃ cts, encryptO Γ.ops valid kdf (senderSetupO Γ.ops g a) n
        (fun i => choicePointO Γ.ops g (senderSetupO Γ.ops g a).A (scalars i) (bits i)) wires = some cts ∧
      cts.length = n ∧
      ∃ out, decryptO Γ.ops valid kdf (senderSetupO Γ.ops g a).A n scalars bits cts = some out ∧
        out.length = n ∧
        ∀ i, i < n → out.getD i 0#128 = if bits i then (wires i).2 else (wires i).1 := by
  have hany : (List.range n).any (fun i => !valid (choicePointO Γ.ops g (senderSetupO Γ.ops g a).A (scalars i) (bits i))) = false := by
    rw [List.any_eq_false]
    intro i hi
    simp only [List.mem_range] at hi
    simp [hP i hi]
  have henc : encryptO Γ.ops valid kdf (senderSetupO Γ.ops g a) n
      (fun i => choicePointO Γ.ops g (senderSetupO Γ.ops g a).A (scalars i) (bits i)) wires =
      some ((List.range n).map fun idx =>
        (kdf (Γ.ops.smul (senderSetupO Γ.ops g a).a (choicePointO Γ.ops g (senderSetupO Γ.ops g a).A (scalars idx) (bits idx))) idx
            ^^^ (wires idx).1,
         kdf (Γ.ops.add (Γ.ops.smul (senderSetupO Γ.ops g a).a (choicePointO Γ.ops g (senderSetupO Γ.ops g a).A (scalars idx) (bits idx)))
            (senderSetupO Γ.ops g a).AaInv) idx ^^^ (wires idx).2)) := by
    unfold encryptO
    simp only [hA, hI, hany, Bool.not_true, Bool.false_eq_true, if_false]
  refine ⟨_, henc, by simp, ?_⟩
  generalize hcts : ((List.range n).map fun idx =>
        (kdf (Γ.ops.smul (senderSetupO Γ.ops g a).a (choicePointO Γ.ops g (senderSetupO Γ.ops g a).A (scalars idx) (bits idx))) idx
            ^^^ (wires idx).1,
         kdf (Γ.ops.add (Γ.ops.smul (senderSetupO Γ.ops g a).a (choicePointO Γ.ops g (senderSetupO Γ.ops g a).A (scalars idx) (bits idx)))
            (senderSetupO Γ.ops g a).AaInv) idx ^^^ (wires idx).2)) = cts
  have hdec : decryptO Γ.ops valid kdf (senderSetupO Γ.ops g a).A n scalars bits cts =
      some ((List.range n).map fun idx =>
        (if bits idx then (cts.getD idx (0#128, 0#128)).2 else (cts.getD idx (0#128, 0#128)).1) ^^^
          kdf (Γ.ops.smul (scalars idx) (senderSetupO Γ.ops g a).A) idx) := by
    unfold decryptO
    simp only [hA, Bool.not_true, Bool.false_eq_true, if_false]
  refine ⟨_, hdec, by simp, ?_⟩
  intro i hi
  subst hcts
  simp only [List.getD_eq_getElem?_getD, List.getElem?_map, List.getElem?_range hi, Option.map_some,
    Option.getD_some]
  have hm := masks_agreeO Γ g a (scalars i) (bits i)
  simp only at hm
  cases hb : bits i with
  | false =>
    rw [hb] at hm
    simp only [Bool.false_eq_true, if_false] at hm ⊢
    rw [hm, xor_cancel]
  | true =>
    rw [hb] at hm
    simp only [if_true] at hm ⊢
    rw [hm, xor_cancel]
end Mpc.Co

/-! ### Old and new helper models agree where the new checks pass

`Co.encrypt`/`Co.decrypt` (used by Model/Sha2pcRounds.lean, which performs the
on-curve checks of 68f93f2 / 0e7671a itself) versus the HEAD-shaped
`Co.encryptO`/`Co.decryptO` at `Γ.ops`. -/
namespace Mpc.Co
open Mpc.Iknp (Label)
variable {G : Type}

theorem senderSetupO_ops (Γ : Group G) (g : G) (a : Nat) : senderSetupO Γ.ops g a = senderSetup Γ g a := rfl

theorem choicePointO_ops (Γ : Group G) (g A : G) (b : Nat) (bit : Bool) :
    choicePointO Γ.ops g A b bit = choicePoint Γ g A b bit := rfl

theorem encryptO_eq_encrypt (Γ : Group G) (valid : G → Bool) (kdf : G → Nat → Label) (s : SenderSetup G)
    (n : Nat) (points : Nat → G) (wires : Nat → Wire) (hI : valid s.AaInv = true) :
    encryptO Γ.ops valid kdf s n points wires = encrypt Γ valid kdf s n points wires := by
  unfold encryptO encrypt
  simp only [hI, Bool.not_true, Bool.false_eq_true, if_false]
  rfl

theorem decryptO_eq_decrypt (Γ : Group G) (valid : G → Bool) (kdf : G → Nat → Label) (A : G) (n : Nat)
    (scalars : Nat → Nat) (bits : Nat → Bool) (data : List Wire) (hA : valid A = true) :
    decryptO Γ.ops valid kdf A n scalars bits data = some (decrypt Γ kdf A n scalars bits data) := by
  unfold decryptO decrypt
  simp only [hA, Bool.not_true, Bool.false_eq_true, if_false]
  rfl
end Mpc.Co

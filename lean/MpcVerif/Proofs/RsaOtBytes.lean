/-
Lemmas for the byte-level RSA OT model (Model/RsaOtBytes.lean): `powMod` is
`a ^ e % N`, the executable forms equal the specification forms, the integer
the receiver unpads, `Bytes(SetBytes(bs)) = bs`, the PKCS#1 block-type-1 round
trip through the integers, one transfer and a batch deliver for EVERY
randomness.  Core Lean only.
-/
import MpcVerif.Model.RsaOtBytes
import MpcVerif.Proofs.CoRsa

namespace Mpc.RsaOt

/-! ### powMod -/

theorem powModFuel_eq : ∀ (f a e N : Nat), e < 2 ^ f → powModFuel f a e N = a ^ e % N := by
  intro f
  induction f with
  | zero =>
    intro a e N h
    have : e = 0 := by simpa using h
    subst this
    simp [powModFuel]
  | succ f ih =>
    intro a e N h
    unfold powModFuel
    by_cases he : e = 0
    · subst he; simp
    · rw [if_neg he]
      have h2 : e / 2 < 2 ^ f := by
        rw [Nat.pow_succ] at h
        omega
      simp only
      rw [ih (a * a % N) (e / 2) N h2]
      have hsq : (a * a % N) ^ (e / 2) % N = a ^ (2 * (e / 2)) % N := by
        rw [← Nat.pow_mod, Nat.pow_mul, Nat.pow_two]
      rw [hsq]
      by_cases ho : e % 2 = 1
      · rw [if_pos ho]
        have : e = 2 * (e / 2) + 1 := by omega
        conv => rhs; rw [this, Nat.pow_succ, Nat.mul_comm]
        rw [Nat.mul_mod a, Nat.mod_mod, ← Nat.mul_mod]
      · rw [if_neg ho]
        have : e = 2 * (e / 2) := by omega
        conv => rhs; rw [this]

theorem powMod_eq (a e N : Nat) : powMod a e N = a ^ e % N :=
  powModFuel_eq e a e N Nat.lt_two_pow_self

theorem receiverVX_eq (N e xb k : Nat) : receiverVX N e xb k = receiverV N e xb k := by
  simp [receiverVX, receiverV, powMod_eq]

theorem senderKeyX_eq (N d v x : Nat) : senderKeyX N d v x = senderKey N d v x := by
  simp [senderKeyX, senderKey, powMod_eq]

theorem wireX_eq (N e d p0 p1 x0 x1 k : Nat) (bit : Bool) :
    wireX N e d p0 p1 x0 x1 k bit = wire N e d p0 p1 x0 x1 k bit := by
  simp [wireX, wire, receiverVX_eq, senderKeyX_eq]

theorem xferX_eq (N e d size : Nat) (t : XferIn) : xferX N e d size t = xferB N e d size t := by
  have : wireX N e d = wire N e d := by
    funext p0 p1 x0 x1 k bit; exact wireX_eq ..
  simp [xferX, xferB, this]

/-! ### The integer the receiver unpads -/

/-- With the sums over the integers the receiver gets the padded message back
exactly, whatever `k < N` is: no comparison of `p + k` with `N` occurs. -/
theorem received_wire (N e d p0 p1 x0 x1 k : Nat) (bit : Bool) (hk : k < N)
    (hkey : ∀ c, c < N → (c ^ e % N) ^ d % N = c) :
    (wire N e d p0 p1 x0 x1 k bit).received k bit = ((if bit then p1 else p0 : Nat) : Int) := by
  cases bit with
  | false =>
    simp only [wire, Wire.received, Bool.false_eq_true, if_false]
    rw [key_recovered N e d x0 k hk hkey]
    omega
  | true =>
    simp only [wire, Wire.received, if_true]
    rw [key_recovered N e d x1 k hk hkey]
    omega

/-- With the mod-`N` sender the receiver gets `p_b + k - N·⌊(p_b + k)/N⌋ - k`:
the padded message only if `p_b + k < N`, and a NEGATIVE number as soon as
`p_b < N ≤ p_b + k`. -/
theorem received_wireModN (N e d p0 p1 x0 x1 k : Nat) (bit : Bool) (hk : k < N)
    (hkey : ∀ c, c < N → (c ^ e % N) ^ d % N = c) :
    (wireModN N e d p0 p1 x0 x1 k bit).received k bit =
      ((((if bit then p1 else p0) + k) % N : Nat) : Int) - (k : Int) := by
  cases bit with
  | false =>
    simp only [wireModN, wire, Wire.received, Bool.false_eq_true, if_false]
    rw [key_recovered N e d x0 k hk hkey]
  | true =>
    simp only [wireModN, wire, Wire.received, if_true]
    rw [key_recovered N e d x1 k hk hkey]

theorem received_wireModN_neg (N e d p0 p1 x0 x1 k : Nat) (bit : Bool) (hk : k < N)
    (hkey : ∀ c, c < N → (c ^ e % N) ^ d % N = c)
    (hp : (if bit then p1 else p0) < N) (hov : N ≤ (if bit then p1 else p0) + k) :
    (wireModN N e d p0 p1 x0 x1 k bit).received k bit = (((if bit then p1 else p0) : Nat) : Int) - (N : Int) := by
  rw [received_wireModN N e d p0 p1 x0 x1 k bit hk hkey]
  generalize (if bit then p1 else p0) = p at *
  have : (p + k) % N = p + k - N := by
    rw [Nat.mod_eq_sub_mod hov, Nat.mod_eq_of_lt (by omega)]
  rw [this]
  omega

/-! ### Bytes -/

def fromLE : Octets → Nat
  | [] => 0
  | b :: t => b + 256 * fromLE t

theorem fromBytes_eq (bs : Octets) : fromBytes bs = fromLE bs.reverse := by
  unfold fromBytes
  generalize bs.reverse = l
  induction l with
  | nil => rfl
  | cons b t ih => simp [fromLE, ih]

theorem leBytesFuel_fromLE : ∀ (l : Octets) (f : Nat), (∀ b ∈ l, b < 256) → l.getLast? ≠ some 0 → fromLE l ≤ f →
    leBytesFuel f (fromLE l) = l := by
  intro l
  induction l with
  | nil => intro f _ _ _; cases f <;> simp [leBytesFuel, fromLE]
  | cons b t ih =>
    intro f hb hl hf
    have hb256 : b < 256 := hb b (List.mem_cons_self ..)
    have hpos : fromLE (b :: t) ≠ 0 := by
      cases t with
      | nil =>
        simp only [fromLE]
        intro h0
        apply hl
        have : b = 0 := by omega
        simp [this]
      | cons c u =>
        -- the tail is non-empty with a non-zero last byte, hence positive
        have ht : fromLE (c :: u) ≠ 0 := by
          intro h0
          have hz : ∀ (l : Octets), fromLE l = 0 → ∀ x ∈ l, x = 0 := by
            intro l
            induction l with
            | nil => intro _ x hx; cases hx
            | cons y l ihl =>
              intro h x hx
              simp only [fromLE] at h
              rcases List.mem_cons.mp hx with rfl | hx
              · omega
              · exact ihl (by omega) x hx
          have hall := hz (c :: u) h0
          apply hl
          have hne : (c :: u) ≠ [] := by simp
          have : (b :: c :: u).getLast? = some ((c :: u).getLast hne) := by
            simp [List.getLast?_eq_some_getLast]
          rw [this, hall _ (List.getLast_mem hne)]
        simp only [fromLE] at ht ⊢
        omega
    cases f with
    | zero => omega
    | succ f =>
      unfold leBytesFuel
      rw [if_neg hpos]
      have h1 : fromLE (b :: t) % 256 = b := by simp only [fromLE]; omega
      have h2 : fromLE (b :: t) / 256 = fromLE t := by simp only [fromLE]; omega
      rw [h1, h2]
      congr 1
      apply ih f (fun x hx => hb x (List.mem_cons_of_mem _ hx))
      · intro h
        apply hl
        cases t with
        | nil => simp at h
        | cons c u => simpa [List.getLast?_cons_cons] using h
      · simp only [fromLE] at hf; omega

/-- `Bytes(SetBytes(bs)) = bs` for a string without a leading zero byte. -/
theorem natBytes_fromBytes (bs : Octets) (hb : ∀ b ∈ bs, b < 256) (hh : bs.head? ≠ some 0) :
    natBytes (fromBytes bs) = bs := by
  unfold natBytes
  rw [fromBytes_eq, leBytesFuel_fromLE bs.reverse _ (fun b h => hb b (List.mem_reverse.mp h)) (by simpa using hh)
    (Nat.le_refl _)]
  simp

theorem fromBytes_zero_cons (bs : Octets) : fromBytes (0 :: bs) = fromBytes bs := by
  rw [fromBytes_eq, fromBytes_eq]
  simp only [List.reverse_cons]
  generalize bs.reverse = l
  induction l with
  | nil => rfl
  | cons b t ih => simp [fromLE, ih]

theorem afterZero_pad (n : Nat) (m : Octets) : afterZero (List.replicate n 255 ++ 0 :: m) = some m := by
  induction n with
  | zero => simp [afterZero]
  | succ n ih => simp [List.replicate_succ, afterZero, ih]

/-- The PKCS#1 block-type-1 framing round-trips through the integers: for
every message that fits (`len m + 11 ≤ size`). -/
theorem receiveBlock_pad (size : Nat) (m pad : Octets) (hm : ∀ b ∈ m, b < 256) (hp : pkcs1Pad size m = some pad) :
    receiveBlock size ((fromBytes pad : Nat) : Int) = .ok m := by
  unfold pkcs1Pad at hp
  split at hp
  · cases hp
  · rename_i hs
    have hs : m.length + 11 ≤ size := by omega
    injection hp with hp
    subst hp
    rw [fromBytes_zero_cons]
    have hbytes : ∀ b ∈ (1 :: (List.replicate (size - 3 - m.length) 255 ++ 0 :: m)), b < 256 := by
      intro b hb
      simp only [List.mem_cons, List.mem_append, List.mem_replicate] at hb
      rcases hb with rfl | ⟨_, rfl⟩ | rfl | hb
      · decide
      · decide
      · decide
      · exact hm b hb
    unfold receiveBlock
    simp only [Int.natAbs_natCast]
    rw [natBytes_fromBytes _ hbytes (by simp)]
    have hlen : (1 :: (List.replicate (size - 3 - m.length) 255 ++ 0 :: m)).length = size - 1 := by
      simp; omega
    rw [hlen, if_neg (by omega)]
    have h1 : size - (size - 1) = 1 := by omega
    rw [h1]
    simp only [List.replicate_one, List.singleton_append]
    unfold pkcs1Parse
    rw [if_neg (by simp; omega)]
    simp [afterZero_pad]

theorem decB_encB (size : Nat) (m : Octets) (hm : ∀ b ∈ m, b < 256) (hs : m.length + 11 ≤ size) :
    decB size (encB size m : Int) = some m := by
  have hp : pkcs1Pad size m = some (0 :: 1 :: (List.replicate (size - 3 - m.length) 255 ++ 0 :: m)) := by
    unfold pkcs1Pad; rw [if_neg (by omega)]
  unfold decB encB
  rw [hp, Option.getD_some, receiveBlock_pad size m _ hm hp]
  rfl

/-! ### Transfers -/

/-- `XferIn` is well-formed for `size`-byte blocks and modulus `N`. -/
def XferIn.WF (N size : Nat) (t : XferIn) : Prop :=
  t.k < N ∧ t.m0.length + 11 ≤ size ∧ t.m1.length + 11 ≤ size ∧ (∀ b ∈ t.m0, b < 256) ∧ (∀ b ∈ t.m1, b < 256)

theorem pkcs1Pad_some (size : Nat) (m : Octets) (hs : m.length + 11 ≤ size) :
    pkcs1Pad size m = some (0 :: 1 :: (List.replicate (size - 3 - m.length) 255 ++ 0 :: m)) := by
  unfold pkcs1Pad; rw [if_neg (by omega)]

theorem xferB_delivers (N e d size : Nat) (hkey : ∀ c, c < N → (c ^ e % N) ^ d % N = c) (t : XferIn)
    (hwf : t.WF N size) :
    ∃ w, xferB N e d size t = some (w, .ok t.chosen) := by
  obtain ⟨hk, h0, h1, hb0, hb1⟩ := hwf
  refine ⟨wire N e d (fromBytes (0 :: 1 :: (List.replicate (size - 3 - t.m0.length) 255 ++ 0 :: t.m0)))
    (fromBytes (0 :: 1 :: (List.replicate (size - 3 - t.m1.length) 255 ++ 0 :: t.m1))) t.x0 t.x1 t.k t.bit, ?_⟩
  unfold xferB xferWith
  rw [pkcs1Pad_some size t.m0 h0, pkcs1Pad_some size t.m1 h1]
  simp only
  rw [received_wire N e d _ _ t.x0 t.x1 t.k t.bit hk hkey]
  congr 2
  cases hbit : t.bit with
  | false =>
    simp only [Bool.false_eq_true, if_false, XferIn.chosen, hbit]
    exact receiveBlock_pad size t.m0 _ hb0 (pkcs1Pad_some size t.m0 h0)
  | true =>
    simp only [if_true, XferIn.chosen, hbit]
    exact receiveBlock_pad size t.m1 _ hb1 (pkcs1Pad_some size t.m1 h1)

theorem sessionOut_delivers (N e d size : Nat) (hkey : ∀ c, c < N → (c ^ e % N) ^ d % N = c) :
    ∀ ts : List XferIn, (∀ t ∈ ts, t.WF N size) → sessionOut N e d size ts = some (ts.map XferIn.chosen) := by
  intro ts
  induction ts with
  | nil => intro _; rfl
  | cons t ts ih =>
    intro h
    obtain ⟨w, hw⟩ := xferB_delivers N e d size hkey t (h t (List.mem_cons_self ..))
    simp only [sessionOut, hw, ih (fun t' ht' => h t' (List.mem_cons_of_mem _ ht')), Option.map_some, List.map_cons]

end Mpc.RsaOt

namespace Mpc.RsaOt

theorem wireModNX_eq (N e d p0 p1 x0 x1 k : Nat) (bit : Bool) :
    wireModNX N e d p0 p1 x0 x1 k bit = wireModN N e d p0 p1 x0 x1 k bit := by
  simp [wireModNX, wireModN, wireX_eq]

theorem xferModNX_eq (N e d size : Nat) (t : XferIn) : xferModNX N e d size t = xferModN N e d size t := by
  have : wireModNX N e d = wireModN N e d := by
    funext p0 p1 x0 x1 k bit; exact wireModNX_eq ..
  simp [xferModNX, xferModN, this]

end Mpc.RsaOt

/-
Back end of the compiler (C03): the simulation invariant between the SSA
store of `ssaSteps` / `ssaRun` (Model/MpclSsa.lean) and the wire environment of
`compileSteps` (Model/SsaCircuit.lean), proved from the builders' `_spec`
lemmas (C07).

* `EnvInv s inp env st`: every value id bound in the wire environment has
  wires that exist in the builder state `s` and whose bus value on input `inp`
  is the store entry: `toNat (busVal s inp (env id)) = st id`.
* `compileOp_sound`: one instruction preserves it (per opcode: the builder
  theorem + the arithmetic that turns its statement into `evalOp`).
* `compileSteps_sound`: induction over the step list.
-/
import MpcVerif.Model.SsaCircuit
import MpcVerif.Proofs.BuildersSpec
import MpcVerif.Proofs.BuildersDiv
import MpcVerif.Proofs.BuildersKara
import MpcVerif.Proofs.BuildersWallace

namespace Mpc.SsaC
open Mpc Mpc.Bld Mpc.Mpcl Mpc.Mpcl.Ssa

/-! ### bit lists and numbers -/

theorem ofNat_length (n x : Nat) : (ofNat n x).length = n := by
  induction n generalizing x with
  | zero => rfl
  | succ n ih => simp [ofNat, ih]

theorem toNat_ofNat (n x : Nat) : toNat (ofNat n x) = x % 2 ^ n := by
  induction n generalizing x with
  | zero => simp [ofNat, Nat.mod_one]
  | succ n ih =>
    simp only [ofNat, toNat_cons, ih]
    rw [Nat.pow_succ', Nat.mod_mul]
    rcases Nat.mod_two_eq_zero_or_one x with h | h <;> simp [h]

theorem testBit_toNat (bs : List Bool) (i : Nat) : (toNat bs).testBit i = bs.getD i false := by
  induction bs generalizing i with
  | nil => simp
  | cons b bs ih =>
    cases i with
    | zero =>
      simp only [toNat_cons, Nat.testBit_zero, List.getD_cons_zero]
      cases b <;> simp <;> omega
    | succ i =>
      simp only [toNat_cons, Nat.testBit_succ, List.getD_cons_succ]
      have : (b.toNat + 2 * toNat bs) / 2 = toNat bs := by
        have := Bool.toNat_le b
        omega
      rw [this, ih]

theorem getD_zipWith {f : Bool → Bool → Bool} (hf : f false false = false) :
    ∀ (xs ys : List Bool) (i : Nat), xs.length = ys.length →
    (List.zipWith f xs ys).getD i false = f (xs.getD i false) (ys.getD i false)
  | [], [], i, _ => by simp [hf]
  | [], _ :: _, _, h => by simp at h
  | _ :: _, [], _, h => by simp at h
  | x :: xs, y :: ys, i, h => by
    cases i with
    | zero => simp
    | succ i =>
      simp only [List.zipWith_cons_cons, List.getD_cons_succ]
      exact getD_zipWith hf xs ys i (by simpa using h)

theorem toNat_zipWith_and (xs ys : List Bool) (h : xs.length = ys.length) :
    toNat (List.zipWith (· && ·) xs ys) = toNat xs &&& toNat ys := by
  apply Nat.eq_of_testBit_eq
  intro i
  rw [testBit_toNat, Nat.testBit_and, testBit_toNat, testBit_toNat, getD_zipWith (by rfl) xs ys i h]

theorem toNat_zipWith_or (xs ys : List Bool) (h : xs.length = ys.length) :
    toNat (List.zipWith (· || ·) xs ys) = toNat xs ||| toNat ys := by
  apply Nat.eq_of_testBit_eq
  intro i
  rw [testBit_toNat, Nat.testBit_or, testBit_toNat, testBit_toNat, getD_zipWith (by rfl) xs ys i h]

theorem toNat_zipWith_xor (xs ys : List Bool) (h : xs.length = ys.length) :
    toNat (List.zipWith (· != ·) xs ys) = toNat xs ^^^ toNat ys := by
  apply Nat.eq_of_testBit_eq
  intro i
  rw [testBit_toNat, Nat.testBit_xor, testBit_toNat, testBit_toNat, getD_zipWith (by rfl) xs ys i h]

/-! ### the invariant -/

/-- Store and wire environment agree: every bound value's wires exist and
carry the store entry. -/
def EnvInv (s : St) (inp : List Bool) (env : WEnv) (st : Nat → Nat) : Prop :=
  ∀ id ws, env.find id = some ws → Bnd s ws ∧ toNat (busVal s inp ws) = st id

theorem EnvInv.mono {s s' : St} {inp : List Bool} {env : WEnv} {st : Nat → Nat} (e : Ext s s' inp)
    (h : EnvInv s inp env st) : EnvInv s' inp env st := by
  intro id ws hf
  obtain ⟨hb, hv⟩ := h id ws hf
  exact ⟨hb.mono e, by rw [busVal_ext e hb, hv]⟩

theorem EnvInv.set {s : St} {inp : List Bool} {env : WEnv} {st : Nat → Nat} (h : EnvInv s inp env st)
    {id : Nat} {ws : List Nat} {v : Nat} (hb : Bnd s ws) (hv : toNat (busVal s inp ws) = v) :
    EnvInv s inp ((id, ws) :: env) (SStore.set st id v) := by
  intro j ws' hf
  simp only [WEnv.find] at hf
  show Bnd s ws' ∧ toNat (busVal s inp ws') = if j = id then v else st j
  by_cases hj : j = id
  · simp only [hj, if_true, Option.some.injEq] at hf ⊢
    subst hf
    exact ⟨hb, hv⟩
  · simp only [hj, if_false] at hf ⊢
    exact h j ws' hf

/-- What the simulation knows about one operand: its wires exist, carry the
operand's value and have the operand's declared width. -/
def OpdOK (s : St) (inp : List Bool) (st : Nat → Nat) (a : SArg) (x : List Nat) : Prop :=
  Bnd s x ∧ argVal st a = (toNat (busVal s inp x), x.length)

theorem OpdOK.mono {s s' : St} {inp : List Bool} {st : Nat → Nat} {a : SArg} {x : List Nat} (e : Ext s s' inp)
    (h : OpdOK s inp st a x) : OpdOK s' inp st a x :=
  ⟨h.1.mono e, by rw [busVal_ext e h.1]; exact h.2⟩

theorem argVal_k (st : Nat → Nat) (n : Nat) : argVal st (.k n) = (n, 0) := rfl

theorem argBits_eq (st : Nat → Nat) (a : SArg) : (argVal st a).2 = argBits a := by
  cases a <;> rfl

theorem OpdOK.len {s : St} {inp : List Bool} {st : Nat → Nat} {a : SArg} {x : List Nat}
    (h : OpdOK s inp st a x) : x.length = argBits a := by
  have := congrArg Prod.snd h.2
  rw [argBits_eq] at this
  exact this.symm

theorem constWires_lt (val own alloc : Nat) (sg : Bool) (bits : Nat) :
    constWires val own alloc sg bits < 2 ^ bits := by
  have hpos : 0 < 2 ^ bits := Nat.two_pow_pos bits
  unfold constWires
  split
  · exact hpos
  · split
    · exact Nat.mod_lt _ hpos
    · simp only
      have hle : 2 ^ min own bits ≤ 2 ^ bits := Nat.pow_le_pow_right (by decide) (Nat.min_le_right _ _)
      have hlow : val % 2 ^ min own bits < 2 ^ min own bits := Nat.mod_lt _ (Nat.two_pow_pos _)
      split <;> omega

theorem patWires_spec {s : St} {inp : List Bool} {z o : Nat} (hz : Holds s inp z false) (ho : Holds s inp o true)
    (bits v : Nat) :
    Bnd s (patWires z o bits v) ∧ busVal s inp (patWires z o bits v) = ofNat bits v := by
  unfold patWires
  constructor
  · intro w hw
    simp only [List.mem_map] at hw
    obtain ⟨b, _, rfl⟩ := hw
    cases b
    · exact hz.1
    · exact ho.1
  · simp only [busVal, List.map_map]
    conv => rhs; rw [← List.map_id (ofNat bits v)]
    apply List.map_congr_left
    intro b _
    cases b
    · simpa using hz.2
    · simpa using ho.2

theorem operandWires_spec {s : St} {inp : List Bool} {z o : Nat} {env : WEnv} {st : Nat → Nat}
    (hz : Holds s inp z false) (ho : Holds s inp o true) (hinv : EnvInv s inp env st)
    {a : SArg} {x : List Nat} (h : operandWires z o env a = some x) : OpdOK s inp st a x := by
  cases a with
  | var id bits =>
    simp only [operandWires] at h
    cases hf : env.find id with
    | none => simp [hf] at h
    | some ws =>
      simp only [hf] at h
      by_cases hl : ws.length = bits
      · simp only [hl, if_true, Option.some.injEq] at h
        subst h
        obtain ⟨hb, hv⟩ := hinv id ws hf
        exact ⟨hb, by show (st id, bits) = _; rw [hv, hl]⟩
      · simp [hl] at h
  | const val own alloc sg bits =>
    simp only [operandWires] at h
    by_cases ha : alloc = 0
    · simp [ha] at h
    · simp only [ha, if_false, Option.some.injEq] at h
      subst h
      obtain ⟨hb, hv⟩ := patWires_spec hz ho bits (constWires val own alloc sg bits)
      have hl : (patWires z o bits (constWires val own alloc sg bits)).length = bits := by
        have := congrArg List.length hv
        simpa [ofNat_length] using this
      refine ⟨hb, ?_⟩
      show (constWires val own alloc sg bits, bits) = _
      rw [hv, toNat_ofNat, Nat.mod_eq_of_lt (constWires_lt _ _ _ _ _), hl]
  | pat val bits =>
    simp only [operandWires, Option.some.injEq] at h
    subst h
    obtain ⟨hb, hv⟩ := patWires_spec hz ho bits val
    have hl : (patWires z o bits val).length = bits := by
      have := congrArg List.length hv
      simpa [ofNat_length] using this
    refine ⟨hb, ?_⟩
    show (val % 2 ^ bits, bits) = _
    rw [hv, toNat_ofNat, hl]
  | k n => simp [operandWires] at h

/-- An operand of `compileOp` and the corresponding SSA argument. -/
def OpdRel (s : St) (inp : List Bool) (st : Nat → Nat) (a : SArg) : Opd → Prop
  | .wires x => OpdOK s inp st a x
  | .k n => a = .k n

theorem operand_spec {s : St} {inp : List Bool} {z o : Nat} {env : WEnv} {st : Nat → Nat}
    (hz : Holds s inp z false) (ho : Holds s inp o true) (hinv : EnvInv s inp env st)
    {a : SArg} {p : Opd} (h : operand z o env a = some p) : OpdRel s inp st a p := by
  cases a with
  | k n =>
    simp only [operand, Option.some.injEq] at h
    subst h; rfl
  | var id bits =>
    simp only [operand, Option.map_eq_some_iff] at h
    obtain ⟨x, hx, rfl⟩ := h
    exact operandWires_spec hz ho hinv hx
  | const val own alloc sg bits =>
    simp only [operand, Option.map_eq_some_iff] at h
    obtain ⟨x, hx, rfl⟩ := h
    exact operandWires_spec hz ho hinv hx
  | pat val bits =>
    simp only [operand, Option.map_eq_some_iff] at h
    obtain ⟨x, hx, rfl⟩ := h
    exact operandWires_spec hz ho hinv hx

/-- `allSome (l.map f) = some ps`, destructed along `ps`. -/
theorem allSome_map_nil {α β : Type} (f : α → Option β) (l : List α) (h : allSome (l.map f) = some []) : l = [] := by
  cases l with
  | nil => rfl
  | cons a l =>
    simp only [List.map_cons] at h
    cases hfa : f a with
    | none => simp [hfa, allSome] at h
    | some p => simp [hfa, allSome] at h

theorem allSome_map_cons {α β : Type} (f : α → Option β) (l : List α) (p : β) (ps : List β)
    (h : allSome (l.map f) = some (p :: ps)) :
    ∃ a l', l = a :: l' ∧ f a = some p ∧ allSome (l'.map f) = some ps := by
  cases l with
  | nil => simp [allSome] at h
  | cons a l =>
    simp only [List.map_cons] at h
    cases hfa : f a with
    | none => simp [hfa, allSome] at h
    | some q =>
      simp only [hfa, allSome, Option.map_eq_some_iff, List.cons.injEq] at h
      obtain ⟨ps', hps', rfl, rfl⟩ := h
      exact ⟨a, l, rfl, hfa, hps'⟩

/-- Operand lists: the SSA arguments and the operands handed to `compileOp`. -/
def OpdsRel (s : St) (inp : List Bool) (st : Nat → Nat) : List SArg → List Opd → Prop
  | [], [] => True
  | a :: l, p :: ps => OpdRel s inp st a p ∧ OpdsRel s inp st l ps
  | _, _ => False

theorem operands_spec {s : St} {inp : List Bool} {z o : Nat} {env : WEnv} {st : Nat → Nat}
    (hz : Holds s inp z false) (ho : Holds s inp o true) (hinv : EnvInv s inp env st) :
    ∀ (l : List SArg) (ps : List Opd), allSome (l.map (operand z o env)) = some ps → OpdsRel s inp st l ps
  | l, [], h => by
    rw [allSome_map_nil _ l h]; trivial
  | l, p :: ps, h => by
    obtain ⟨a, l', rfl, ha, hl'⟩ := allSome_map_cons _ l p ps h
    exact ⟨operand_spec hz ho hinv ha, operands_spec hz ho hinv l' ps hl'⟩

theorem rel1 {s : St} {inp : List Bool} {st : Nat → Nat} {ins : List SArg} {p : Opd}
    (h : OpdsRel s inp st ins [p]) : ∃ a, ins = [a] ∧ OpdRel s inp st a p := by
  match ins, h with
  | [a], h => exact ⟨a, rfl, h.1⟩
  | _ :: _ :: _, h => exact absurd h.2 (by simp [OpdsRel])

theorem rel2 {s : St} {inp : List Bool} {st : Nat → Nat} {ins : List SArg} {p q : Opd}
    (h : OpdsRel s inp st ins [p, q]) : ∃ a b, ins = [a, b] ∧ OpdRel s inp st a p ∧ OpdRel s inp st b q := by
  match ins, h with
  | [a, b], h => exact ⟨a, b, rfl, h.1, h.2.1⟩
  | [_], h => exact absurd h.2 (by simp [OpdsRel])
  | _ :: _ :: _ :: _, h => exact absurd h.2.2 (by simp [OpdsRel])

theorem rel3 {s : St} {inp : List Bool} {st : Nat → Nat} {ins : List SArg} {p q r : Opd}
    (h : OpdsRel s inp st ins [p, q, r]) :
    ∃ a b c, ins = [a, b, c] ∧ OpdRel s inp st a p ∧ OpdRel s inp st b q ∧ OpdRel s inp st c r := by
  match ins, h with
  | [a, b, c], h => exact ⟨a, b, c, rfl, h.1, h.2.1, h.2.2.1⟩
  | [_], h => exact absurd h.2 (by simp [OpdsRel])
  | [_, _], h => exact absurd h.2.2 (by simp [OpdsRel])
  | _ :: _ :: _ :: _ :: _, h => exact absurd h.2.2.2 (by simp [OpdsRel])

theorem rel4 {s : St} {inp : List Bool} {st : Nat → Nat} {ins : List SArg} {p q r t : Opd}
    (h : OpdsRel s inp st ins [p, q, r, t]) :
    ∃ a b c d, ins = [a, b, c, d] ∧ OpdRel s inp st a p ∧ OpdRel s inp st b q ∧ OpdRel s inp st c r ∧
      OpdRel s inp st d t := by
  match ins, h with
  | [a, b, c, d], h => exact ⟨a, b, c, d, rfl, h.1, h.2.1, h.2.2.1, h.2.2.2.1⟩
  | [_], h => exact absurd h.2 (by simp [OpdsRel])
  | [_, _], h => exact absurd h.2.2 (by simp [OpdsRel])
  | [_, _, _], h => exact absurd h.2.2.2 (by simp [OpdsRel])
  | _ :: _ :: _ :: _ :: _ :: _, h => exact absurd h.2.2.2.2 (by simp [OpdsRel])

/-! ### one instruction -/

/-- Postcondition of `compileOp`: if it delivers wires, they exist and carry `v`. -/
def Post (inp : List Bool) (v : Nat) : Option (List Nat) → St → Prop :=
  fun r s' => ∀ ws, r = some ws → Bnd s' ws ∧ toNat (busVal s' inp ws) = v

theorem some'_post {s : St} {inp : List Bool} {m : BM (List Nat)} {v : Nat}
    (h : Spec inp s m (fun z s' => Bnd s' z ∧ toNat (busVal s' inp z) = v)) :
    Spec inp s (some' m) (Post inp v) := by
  unfold some'
  refine h.map ?_
  intro z s' _ hz ws hws
  simp only [Option.some.injEq] at hws
  subst hws; exact hz

theorem none_post {s : St} {inp : List Bool} (hwf : WF s inp) (v : Nat) :
    Spec inp s (pure none : BM (Option (List Nat))) (Post inp v) :=
  Spec.pure hwf (fun ws h => by cases h)

theorem pure_post {s : St} {inp : List Bool} (hwf : WF s inp) {v : Nat} {r : Option (List Nat)}
    (h : ∀ ws, r = some ws → Bnd s ws ∧ toNat (busVal s inp ws) = v) :
    Spec inp s (pure r : BM (Option (List Nat))) (Post inp v) :=
  Spec.pure hwf h

/-- `z < M`, `z + b ≡ a (mod M)`: `z` is the `evalOp` difference. -/
theorem sub_mod_nat (z a b M : Nat) (hz : z < M) (h : (z + b) % M = a % M) : z = (M - b % M + a) % M := by
  have hr : b % M < M := Nat.mod_lt _ (by omega)
  have hb := Nat.div_add_mod b M
  rw [Nat.add_mod (M - b % M) a M, ← h, ← Nat.add_mod]
  have : M - b % M + (z + b) = z + M * (b / M + 1) := by
    rw [Nat.mul_succ]
    generalize M * (b / M) = P at *
    omega
  rw [this, Nat.add_mul_mod_self_left, Nat.mod_eq_of_lt hz]

theorem extend_bnd {s : St} {x : List Nat} {fill : Nat} (hx : Bnd s x) (hf : fill < s.next) (n : Nat) :
    Bnd s (extend x n fill) := (hx.take n).append (Bnd.replicate hf _)

theorem extend_length (x : List Nat) (n fill : Nat) : (extend x n fill).length = n := by
  simp [extend]; omega

/-- Zero extension / truncation of a bus to `n` wires. -/
theorem extend_zero_val {s : St} {inp : List Bool} {z : Nat} (hz : Holds s inp z false) (x : List Nat) (n : Nat) :
    toNat (busVal s inp (extend x n z)) = toNat (busVal s inp x) % 2 ^ n := by
  unfold extend
  rw [busVal_append, busVal_replicate, hz.2, toNat_append_zeros, busVal_take, toNat_take]

theorem take_padTo_eq (X : List Bool) (m n : Nat) : toNat ((padTo X m).take n) = toNat X % 2 ^ n := by
  rw [toNat_take, toNat_padTo]

/-- The three bitwise builders through `binaryOp_spec`. -/
theorem bitwise_sound {s : St} {inp : List Bool} (hwf : WF s inp) (f : Nat → Nat → BM Nat)
    (g : Bool → Bool → Bool) (G : Nat → Nat → Nat)
    (hf : ∀ (s : St) (a b : Nat), WF s inp → a < s.next → b < s.next →
      Spec inp s (f a b) (fun o s' => Holds s' inp o (g (s.val inp a) (s.val inp b))))
    (hG : ∀ xs ys : List Bool, xs.length = ys.length → toNat (List.zipWith g xs ys) = G (toNat xs) (toNat ys))
    (hmod : ∀ a b n : Nat, G a b % 2 ^ n = G (a % 2 ^ n) (b % 2 ^ n))
    {x y : List Nat} (hx : Bnd s x) (hy : Bnd s y) (ow : Nat) :
    Spec inp s (some' (binaryOp f x y ow))
      (Post inp (G (toNat (busVal s inp x)) (toNat (busVal s inp y)) % 2 ^ ow)) := by
  apply some'_post
  refine (binaryOp_spec hwf f g hf ow hx hy).mono ?_
  intro r s' _ ⟨hb, hv⟩
  refine ⟨hb, ?_⟩
  rw [hv, hG _ _ (by simp; omega), take_padTo_eq, take_padTo_eq, hmod]

theorem instrOK_arith {gmw : Bool} {op : SOp} {a b : SArg} {id ow : Nat}
    (hop : op = .add ∨ op = .sub ∨ op = .mul) (h : instrOK gmw ⟨op, [a, b], some (id, ow)⟩ = true) :
    0 < ow ∧ 0 < max (argBits a) (argBits b) := by
  rcases hop with rfl | rfl | rfl <;> simp [instrOK] at h <;> omega

theorem instrOK_cmp {gmw : Bool} {op : SOp} {a b : SArg} {id ow : Nat}
    (hop : op = .ilt ∨ op = .ile ∨ op = .igt ∨ op = .ige ∨ op = .eq ∨ op = .neq)
    (h : instrOK gmw ⟨op, [a, b], some (id, ow)⟩ = true) : 0 < max (argBits a) (argBits b) := by
  rcases hop with rfl | rfl | rfl | rfl | rfl | rfl <;> simp [instrOK] at h <;> omega

theorem instrOK_div {gmw : Bool} {op : SOp} {a b : SArg} {id ow : Nat}
    (hop : op = .udiv ∨ op = .umod ∨ op = .imod ∨ op = .idiv) (h : instrOK gmw ⟨op, [a, b], some (id, ow)⟩ = true) :
    gmw = false ∧ 0 < max (argBits a) (argBits b) := by
  rcases hop with rfl | rfl | rfl | rfl <;> simp [instrOK] at h <;> exact ⟨h.1, by omega⟩

theorem instrOK_idiv {gmw : Bool} {a b : SArg} {id ow : Nat}
    (h : instrOK gmw ⟨.idiv, [a, b], some (id, ow)⟩ = true) : ow ≤ max (argBits a) (argBits b) := by
  simp [instrOK] at h; omega

/-- Two operands' values, as `evalOp` sees them. -/
theorem map2 {s : St} {inp : List Bool} {st : Nat → Nat} {a b : SArg} {x y : List Nat}
    (ha : OpdOK s inp st a x) (hb : OpdOK s inp st b y) :
    [a, b].map (argVal st) = [(toNat (busVal s inp x), x.length), (toNat (busVal s inp y), y.length)] := by
  simp [ha.2, hb.2]

theorem add_case {gmw : Bool} {s : St} {inp : List Bool} {st : Nat → Nat} {a b : SArg} {x y : List Nat}
    {id ow v : Nat} (hwf : WF s inp) (ha : OpdOK s inp st a x) (hb : OpdOK s inp st b y)
    (hok : instrOK gmw ⟨.add, [a, b], some (id, ow)⟩ = true)
    (hev : evalOp .add ([a, b].map (argVal st)) ow = some v) :
    Spec inp s (some' (newAdder gmw x y ow)) (Post inp v) := by
  obtain ⟨h1, h2⟩ := instrOK_arith (Or.inl rfl) hok
  rw [map2 ha hb] at hev
  simp only [evalOp, Option.some.injEq] at hev
  subst hev
  rw [← ha.len, ← hb.len] at h2
  exact some'_post ((newAdder_spec hwf gmw ow ha.1 hb.1 h2 h1).mono (fun r s' _ h => ⟨h.1, h.2.2⟩))

theorem sub_case {gmw : Bool} {s : St} {inp : List Bool} {st : Nat → Nat} {a b : SArg} {x y : List Nat}
    {id ow v : Nat} (hwf : WF s inp) (ha : OpdOK s inp st a x) (hb : OpdOK s inp st b y)
    (hok : instrOK gmw ⟨.sub, [a, b], some (id, ow)⟩ = true)
    (hev : evalOp .sub ([a, b].map (argVal st)) ow = some v) :
    Spec inp s (some' (newSubtractor gmw x y ow)) (Post inp v) := by
  obtain ⟨h1, h2⟩ := instrOK_arith (Or.inr (Or.inl rfl)) hok
  rw [map2 ha hb] at hev
  simp only [evalOp, Option.some.injEq] at hev
  subst hev
  rw [← ha.len, ← hb.len] at h2
  refine some'_post ((newSubtractor_spec hwf gmw ow ha.1 hb.1 h2 h1).mono ?_)
  intro r s' _ ⟨hb', hl, hv⟩
  refine ⟨hb', ?_⟩
  have hlt := toNat_lt (busVal s' inp r)
  rw [busVal_length, hl] at hlt
  exact sub_mod_nat _ _ _ _ hlt hv

theorem mul_case {gmw : Bool} {s : St} {inp : List Bool} {st : Nat → Nat} {a b : SArg} {x y : List Nat}
    {id ow v : Nat} (hwf : WF s inp) (ha : OpdOK s inp st a x) (hb : OpdOK s inp st b y)
    (hok : instrOK gmw ⟨.mul, [a, b], some (id, ow)⟩ = true)
    (hev : evalOp .mul ([a, b].map (argVal st)) ow = some v) :
    Spec inp s (newMultiplier gmw x y ow) (Post inp v) := by
  obtain ⟨h1, h2⟩ := instrOK_arith (Or.inr (Or.inr rfl)) hok
  rw [map2 ha hb] at hev
  simp only [evalOp, Option.some.injEq] at hev
  subst hev
  rw [← ha.len, ← hb.len] at h2
  cases gmw with
  | false =>
    refine (newMultiplierYao_spec hwf ow ha.1 hb.1 h2 h1).mono ?_
    intro r s' _ ⟨r', hr', hb', _, hv⟩ ws hws
    rw [hr'] at hws
    simp only [Option.some.injEq] at hws
    subst hws
    exact ⟨hb', hv⟩
  | true =>
    unfold newMultiplier
    simp only [if_true]
    refine (wallace_spec hwf ow ha.1 hb.1 h1).map ?_
    intro r s' _ ⟨hb', _, hv⟩ ws hws
    simp only [Option.some.injEq] at hws
    subst hws
    exact ⟨hb', hv⟩

theorem udiv_case {gmw : Bool} {s : St} {inp : List Bool} {st : Nat → Nat} {a b : SArg} {x y : List Nat}
    {id ow v : Nat} (hwf : WF s inp) (ha : OpdOK s inp st a x) (hb : OpdOK s inp st b y)
    (hok : instrOK gmw ⟨.udiv, [a, b], some (id, ow)⟩ = true)
    (hev : evalOp .udiv ([a, b].map (argVal st)) ow = some v) :
    Spec inp s (some' (do let d ← uDivider gmw x y ow 0; pure d.1)) (Post inp v) := by
  obtain ⟨hg, h2⟩ := instrOK_div (Or.inl rfl) hok
  subst hg
  rw [map2 ha hb] at hev
  simp only [evalOp] at hev
  split at hev
  · cases hev
  · next hne =>
    simp only [Option.some.injEq] at hev
    subst hev
    rw [← ha.len, ← hb.len] at h2
    apply some'_post
    unfold uDivider
    simp only [Bool.false_eq_true, if_false]
    refine (uDividerLong_spec hwf false ow 0 ha.1 hb.1 h2 (by omega)).map ?_
    intro t s' _ ⟨hb1, _, _, _, hv, _⟩
    exact ⟨hb1, hv⟩

theorem umod_case {gmw : Bool} {s : St} {inp : List Bool} {st : Nat → Nat} {a b : SArg} {x y : List Nat}
    {id ow v : Nat} (hwf : WF s inp) (ha : OpdOK s inp st a x) (hb : OpdOK s inp st b y)
    (hok : instrOK gmw ⟨.umod, [a, b], some (id, ow)⟩ = true)
    (hev : evalOp .umod ([a, b].map (argVal st)) ow = some v) :
    Spec inp s (some' (do let d ← uDivider gmw x y 0 ow; pure d.2)) (Post inp v) := by
  obtain ⟨hg, h2⟩ := instrOK_div (Or.inr (Or.inl rfl)) hok
  subst hg
  rw [map2 ha hb] at hev
  simp only [evalOp] at hev
  split at hev
  · cases hev
  · next hne =>
    simp only [Option.some.injEq] at hev
    subst hev
    rw [← ha.len, ← hb.len] at h2
    apply some'_post
    unfold uDivider
    simp only [Bool.false_eq_true, if_false]
    refine (uDividerLong_spec hwf false 0 ow ha.1 hb.1 h2 (by omega)).map ?_
    intro t s' _ ⟨_, hb2, _, _, _, hv⟩
    exact ⟨hb2, hv⟩

theorem toNat_single (b : Bool) : toNat [b] = b.toNat := by simp

theorem toNat_decide (p : Prop) [Decidable p] : (decide p).toNat = if p then 1 else 0 := by
  by_cases h : p <;> simp [h]

/-- The unsigned comparators. -/
theorem ucmp_case {s : St} {inp : List Bool} {x y : List Nat} {ow : Nat} (hwf : WF s inp) (k : CmpKind)
    (hx : Bnd s x) (hy : Bnd s y) :
    Spec inp s (if ow = 1 then some' (comparator false k x y) else pure none)
      (Post inp (k.relNat (toNat (busVal s inp x)) (toNat (busVal s inp y))).toNat) := by
  split
  · refine some'_post ((ucomparator_spec hwf k hx hy).mono ?_)
    intro r s' _ ⟨hb, hv⟩
    exact ⟨hb, by rw [hv, toNat_single]⟩
  · exact none_post hwf _

/-- Two's complement reading of a bit list (C07) and of a pattern (C03). -/
theorem toInt_bridge (bs : List Bool) (hne : bs ≠ []) : Bld.toInt bs = Mpcl.toInt bs.length (toNat bs) := by
  have hx := toNat_getLast bs hne
  have hxl := toNat_lt bs.dropLast
  simp only [List.length_dropLast] at hxl
  have hp : 2 ^ bs.length = 2 * 2 ^ (bs.length - 1) := by
    have : bs.length = (bs.length - 1) + 1 := by
      cases bs with
      | nil => exact absurd rfl hne
      | cons _ _ => simp
    rw [this, Nat.pow_succ]; simp; omega
  simp only [Bld.toInt, Mpcl.toInt]
  have hcast : ((2 : Int) ^ bs.length) = ((2 ^ bs.length : Nat) : Int) := by simp
  rw [hcast, hp]
  generalize bs.getLastD false = sx at *
  generalize toNat bs = X at *
  generalize toNat bs.dropLast = Xl at *
  generalize 2 ^ (bs.length - 1) = P at *
  cases sx <;> simp at hx ⊢
  · intro h; omega
  · intro h; omega

theorem toInt_padTo (X : List Bool) (m : Nat) (hle : X.length ≤ m) (hm : 0 < m) :
    Bld.toInt (padTo X m) = Mpcl.toInt m (toNat X) := by
  have hne : padTo X m ≠ [] := by
    intro h; have := congrArg List.length h; simp at this; omega
  rw [toInt_bridge _ hne, padTo_length, toNat_padTo, Nat.max_eq_right hle]

/-- The signed comparators (operands zero padded to the common width, as the
code does and as `evalOp` specifies). -/
theorem icmp_case {s : St} {inp : List Bool} {x y : List Nat} {ow : Nat} (hwf : WF s inp) (k : CmpKind)
    (hx : Bnd s x) (hy : Bnd s y) (hne : 0 < max x.length y.length) :
    Spec inp s (if ow = 1 then some' (comparator true k x y) else pure none)
      (Post inp (k.relInt (Mpcl.toInt (max x.length y.length) (toNat (busVal s inp x)))
        (Mpcl.toInt (max x.length y.length) (toNat (busVal s inp y)))).toNat) := by
  split
  · refine some'_post ((icomparator_spec hwf k hx hy hne).mono ?_)
    intro r s' _ ⟨hb, hv⟩
    refine ⟨hb, ?_⟩
    rw [hv, toNat_single, toInt_padTo _ _ (by simp; omega) hne, toInt_padTo _ _ (by simp; omega) hne]
  · exact none_post hwf _

theorem eq_case {s : St} {inp : List Bool} {x y : List Nat} {ow : Nat} (hwf : WF s inp)
    (hx : Bnd s x) (hy : Bnd s y) (hne : 0 < max x.length y.length) :
    Spec inp s (if ow = 1 then some' (eqComparator x y) else pure none)
      (Post inp (if toNat (busVal s inp x) = toNat (busVal s inp y) then 1 else 0)) := by
  split
  · refine some'_post ((eqComparator_spec hwf hx hy hne).mono ?_)
    intro r s' _ ⟨hb, hv⟩
    refine ⟨hb, ?_⟩
    rw [hv, toNat_single]
    split <;> simp_all
  · exact none_post hwf _

theorem neq_case {s : St} {inp : List Bool} {x y : List Nat} {ow : Nat} (hwf : WF s inp)
    (hx : Bnd s x) (hy : Bnd s y) (hne : 0 < max x.length y.length) :
    Spec inp s (if ow = 1 then some' (neqComparator x y) else pure none)
      (Post inp (if toNat (busVal s inp x) = toNat (busVal s inp y) then 0 else 1)) := by
  split
  · refine some'_post ((neqComparator_spec hwf hx hy hne).mono ?_)
    intro r s' _ ⟨hb, hv⟩
    refine ⟨hb, ?_⟩
    rw [hv, toNat_single]
    split <;> simp_all
  · exact none_post hwf _

theorem toNat_len1 (X : List Bool) (h : X.length = 1) : toNat X = (X.getD 0 false).toNat := by
  match X, h with
  | [b], _ => simp

theorem land_case {s : St} {inp : List Bool} {x y : List Nat} {ow : Nat} (hwf : WF s inp)
    (hx : Bnd s x) (hy : Bnd s y) :
    Spec inp s (if ow = 1 ∧ x.length = 1 ∧ y.length = 1 then some' (logicalAnd x y) else pure none)
      (Post inp ((toNat (busVal s inp x) &&& toNat (busVal s inp y)) % 2)) := by
  split
  · next h =>
    refine some'_post ((logicalAnd_spec hwf hx hy (by omega) (by omega)).mono ?_)
    intro r s' _ ⟨hb, hv⟩
    refine ⟨hb, ?_⟩
    rw [hv, toNat_single, toNat_len1 _ (by simpa using h.2.1), toNat_len1 _ (by simpa using h.2.2)]
    cases (busVal s inp x).getD 0 false <;> cases (busVal s inp y).getD 0 false <;> rfl
  · exact none_post hwf _

theorem lor_case {s : St} {inp : List Bool} {x y : List Nat} {ow : Nat} (hwf : WF s inp)
    (hx : Bnd s x) (hy : Bnd s y) :
    Spec inp s (if ow = 1 ∧ x.length = 1 ∧ y.length = 1 then some' (logicalOr x y) else pure none)
      (Post inp ((toNat (busVal s inp x) ||| toNat (busVal s inp y)) % 2)) := by
  split
  · next h =>
    refine some'_post ((logicalOr_spec hwf hx hy (by omega) (by omega)).mono ?_)
    intro r s' _ ⟨hb, hv⟩
    refine ⟨hb, ?_⟩
    rw [hv, toNat_single, toNat_len1 _ (by simpa using h.2.1), toNat_len1 _ (by simpa using h.2.2)]
    cases (busVal s inp x).getD 0 false <;> cases (busVal s inp y).getD 0 false <;> rfl
  · exact none_post hwf _

theorem invBits_spec {inp : List Bool} : ∀ (x : List Nat) {s : St}, WF s inp → Bnd s x →
    Spec inp s (invBits x) (fun z s' => Bnd s' z ∧ busVal s' inp z = (busVal s inp x).map (!·))
  | [], s, hwf, _ => Spec.pure hwf ⟨Bnd.nil s, rfl⟩
  | a :: r, s, hwf, hb => by
    simp only [invBits]
    refine Spec.bind (inv_spec hwf ⟨hb.head, rfl⟩) ?_
    intro o s1 e1 ho
    refine Spec.bind (invBits_spec r e1.wf (hb.tail.mono e1)) ?_
    intro t s2 e2 ⟨ht, htv⟩
    refine Spec.pure e2.wf ⟨Bnd.cons (ho.mono e2).1 ht, ?_⟩
    simp [busVal_cons, (ho.mono e2).2, htv, busVal_ext e1 hb.tail]

theorem toNat_not (X : List Bool) : toNat (X.map (!·)) + toNat X + 1 = 2 ^ X.length := by
  induction X with
  | nil => simp
  | cons b X ih =>
    simp only [List.map_cons, toNat_cons, List.length_cons, Nat.pow_succ]
    cases b <;> simp <;> omega

theorem lnot_case {s : St} {inp : List Bool} {x : List Nat} {ow : Nat} (hwf : WF s inp) (hx : Bnd s x) :
    Spec inp s (if ow ≤ x.length then some' (invBits (x.take ow)) else pure none)
      (Post inp (2 ^ ow - 1 - toNat (busVal s inp x) % 2 ^ ow)) := by
  split
  · next h =>
    refine some'_post ((invBits_spec (x.take ow) hwf (hx.take ow)).mono ?_)
    intro r s' _ ⟨hb, hv⟩
    refine ⟨hb, ?_⟩
    have := toNat_not (busVal s inp (x.take ow))
    rw [busVal_length, List.length_take, Nat.min_eq_left h, busVal_take, toNat_take] at this
    rw [hv, busVal_take]
    omega
  · exact none_post hwf _

theorem phi_case {s : St} {inp : List Bool} {c t f : List Nat} {ow : Nat} (hwf : WF s inp)
    (hc : Bnd s c) (ht : Bnd s t) (hf : Bnd s f) :
    Spec inp s (if c.length = 1 then newMUX (c.getD 0 0) t f ow else pure none)
      (Post inp ((if toNat (busVal s inp c) % 2 = 1 then toNat (busVal s inp t) else toNat (busVal s inp f))
        % 2 ^ ow)) := by
  split
  · next h =>
    obtain ⟨c0, rfl⟩ : ∃ c0, c = [c0] := by
      match c, h with
      | [c0], _ => exact ⟨c0, rfl⟩
    simp only [List.getD_cons_zero, busVal_cons, busVal_nil, toNat_single]
    by_cases how : ow = max t.length f.length
    · subst how
      refine (newMUX_spec hwf ht hf hc.head).mono ?_
      intro r s' _ ⟨r', hr', hb, hv⟩ ws hws
      rw [hr'] at hws
      simp only [Option.some.injEq] at hws
      subst hws
      refine ⟨hb, ?_⟩
      have htl := toNat_lt (busVal s inp t)
      have hfl := toNat_lt (busVal s inp f)
      simp only [busVal_length] at htl hfl
      have hpt : 2 ^ t.length ≤ 2 ^ max t.length f.length := Nat.pow_le_pow_right (by omega) (by omega)
      have hpf : 2 ^ f.length ≤ 2 ^ max t.length f.length := Nat.pow_le_pow_right (by omega) (by omega)
      rw [hv]
      cases s.val inp c0
      · simp only [Bool.false_eq_true, if_false, Bool.toNat_false, toNat_padTo]
        rw [if_neg (by omega), Nat.mod_eq_of_lt (by omega)]
      · simp only [if_true, Bool.toNat_true, toNat_padTo]
        rw [Nat.mod_eq_of_lt (by omega)]
    · unfold newMUX
      refine Spec.bind (zeroPad_spec hwf ht hf) ?_
      intro p s1 e1 ⟨_, _, hv1, _⟩
      have hlen1 : p.1.length = max t.length f.length := by
        have := congrArg List.length hv1; simp at this; omega
      rw [if_pos (by omega)]
      exact none_post e1.wf _
  · exact none_post hwf _

/-! ### re-wiring instructions -/

theorem busVal_drop (s : St) (inp : List Bool) (a : List Nat) (n : Nat) :
    busVal s inp (a.drop n) = (busVal s inp a).drop n := by simp [busVal, List.map_drop]

theorem busVal_extend (s : St) (inp : List Bool) (x : List Nat) (n fill : Nat) :
    busVal s inp (extend x n fill) =
      (busVal s inp x).take n ++ List.replicate (n - x.length) (s.val inp fill) := by
  simp [extend, busVal_append, busVal_take, busVal_replicate]

theorem toNat_drop (X : List Bool) (k : Nat) : toNat (X.drop k) = toNat X / 2 ^ k := by
  induction k generalizing X with
  | zero => simp
  | succ k ih =>
    cases X with
    | nil => simp
    | cons b X =>
      simp only [List.drop_succ_cons, ih, toNat_cons]
      rw [Nat.pow_succ', ← Nat.div_div_eq_div_mul]
      congr 1
      have := Bool.toNat_le b
      omega

theorem pure_some_post {s : St} {inp : List Bool} (hwf : WF s inp) {v : Nat} {ws : List Nat}
    (hb : Bnd s ws) (hv : toNat (busVal s inp ws) = v) :
    Spec inp s (pure (some ws) : BM (Option (List Nat))) (Post inp v) := by
  refine pure_post hwf ?_
  intro ws' h
  simp only [Option.some.injEq] at h
  subst h
  exact ⟨hb, hv⟩

theorem concat_val (X Y : List Bool) (ow : Nat) (h : X.length + Y.length = ow) :
    toNat (X ++ Y) = (toNat X + toNat Y <<< X.length) % 2 ^ ow := by
  have hx := toNat_lt X
  have hy := toNat_lt Y
  rw [toNat_append, Nat.shiftLeft_eq, ← h, Nat.pow_add]
  generalize 2 ^ X.length = P at *
  generalize 2 ^ Y.length = Q at *
  have : toNat Y * P + P ≤ Q * P := by
    have := Nat.mul_le_mul_right P (show toNat Y + 1 ≤ Q by omega)
    rw [Nat.add_mul] at this; omega
  rw [Nat.mul_comm P (toNat Y), Nat.mod_eq_of_lt]
  rw [Nat.mul_comm P Q]; omega

/-- Sign extension / truncation of a non-empty bit list to `n` bits is the
`n`-bit pattern of its two's complement value. -/
theorem ofInt_toInt (w v : Nat) (h : v < 2 ^ w) : ofInt w (Mpcl.toInt w v) = v := by
  simp only [ofInt, Mpcl.toInt]
  split
  · rw [Int.emod_eq_of_lt (by omega) (by omega)]; simp
  · have : ((v : Int) - ((2 ^ w : Nat) : Int)) = (v : Int) + ((2 ^ w : Nat) : Int) * (-1) := by omega
    rw [this, Int.add_mul_emod_self_left, Int.emod_eq_of_lt (by omega) (by omega)]; simp

theorem sext_val (D : List Bool) (hne : D ≠ []) (n : Nat) :
    toNat (D.take n ++ List.replicate (n - D.length) (D.getLastD false)) = ofInt n (Bld.toInt D) := by
  by_cases hn : n ≤ D.length
  · have h0 : n - D.length = 0 := by omega
    rw [h0, List.replicate_zero, List.append_nil, toNat_take]
    have hpow : 2 ^ D.length = 2 ^ n * 2 ^ (D.length - n) := by rw [← Nat.pow_add]; congr 1; omega
    simp only [ofInt, Bld.toInt]
    have hcast : ((2 : Int) ^ D.length) = ((2 ^ D.length : Nat) : Int) := by simp
    rw [hcast, hpow]
    split
    · have : ((toNat D : Int) - ((2 ^ n * 2 ^ (D.length - n) : Nat) : Int)) =
          (toNat D : Int) + ((2 ^ n : Nat) : Int) * (-((2 ^ (D.length - n) : Nat) : Int)) := by
        push_cast; rw [Int.mul_neg]; omega
      rw [this, Int.add_mul_emod_self_left, ← Int.natCast_emod, Int.toNat_natCast]
    · rw [← Int.natCast_emod, Int.toNat_natCast]
  · have ht : D.take n = D := List.take_of_length_le (by omega)
    rw [ht]
    have hs : D ++ List.replicate (n - D.length) (D.getLastD false) = sextTo D n := rfl
    rw [hs]
    have hne' : sextTo D n ≠ [] := by
      intro h; have := congrArg List.length h; simp at this; omega
    have hlen : (sextTo D n).length = n := by simp; omega
    have h1 := toInt_bridge (sextTo D n) hne'
    rw [toInt_sextTo D n hne, hlen] at h1
    have hlt := toNat_lt (sextTo D n)
    rw [hlen] at hlt
    rw [h1, ofInt_toInt _ _ hlt]

theorem getLastD_drop (X : List Bool) (k : Nat) (h : k < X.length) :
    (X.drop k).getLastD false = X.getLastD false := by
  rw [List.getLastD_eq_getLast?, List.getLastD_eq_getLast?, List.getLast?_drop, if_neg (by omega)]

/-- Dropping the `k` low bits of a two's complement number is the arithmetic
shift (floor division by `2^k`). -/
theorem toInt_drop (X : List Bool) (k : Nat) (h : k < X.length) :
    Bld.toInt (X.drop k) = Bld.toInt X / ((2 ^ k : Nat) : Int) := by
  have hsplit := toNat_append (X.take k) (X.drop k)
  rw [List.take_append_drop, List.length_take, Nat.min_eq_left (by omega)] at hsplit
  have hlo := toNat_lt (X.take k)
  rw [List.length_take, Nat.min_eq_left (by omega)] at hlo
  have hpow : 2 ^ X.length = 2 ^ k * 2 ^ (X.length - k) := by rw [← Nat.pow_add]; congr 1; omega
  have hcast : ((2 : Int) ^ X.length) = ((2 ^ X.length : Nat) : Int) := by simp
  have hcast2 : ((2 : Int) ^ (X.drop k).length) = ((2 ^ (X.length - k) : Nat) : Int) := by simp
  have hpos : (0 : Int) < ((2 ^ k : Nat) : Int) := by
    have := Nat.two_pow_pos k; omega
  symm
  refine ((Int.ediv_emod_unique (r := (toNat (X.take k) : Int)) hpos).mpr ⟨?_, by omega, by omega⟩).1
  simp only [Bld.toInt, getLastD_drop X k h, hcast, hcast2, hpow, hsplit]
  generalize toNat (X.take k) = lo at *
  generalize toNat (X.drop k) = hi at *
  split
  · push_cast; rw [Int.mul_sub]; omega
  · push_cast; omega

theorem toNat_replicate (k : Nat) (b : Bool) : toNat (List.replicate k b) = (2 ^ k - 1) * b.toNat := by
  have := toNat_replicate_add k b
  have hp := Nat.two_pow_pos k
  cases b
  · simp
  · simp at this ⊢; omega

/-- `Srshift`: the wires `x[k..]` extended by the sign wire carry the `ow`-bit
pattern of the arithmetic shift. -/
theorem srshift_val (X : List Bool) (hne : X ≠ []) (k ow : Nat) :
    toNat ((X.drop k).take ow ++ List.replicate (ow - (X.drop k).length) (X.getLastD false)) =
      ofInt ow (Mpcl.toInt X.length (toNat X) >>> k) := by
  rw [← toInt_bridge X hne, Int.shiftRight_eq_div_pow]
  by_cases hk : k < X.length
  · have hne' : X.drop k ≠ [] := by
      intro h; have := congrArg List.length h; simp at this; omega
    rw [← getLastD_drop X k hk, sext_val _ hne' ow, toInt_drop X k hk]
  · have hd : X.drop k = [] := List.drop_eq_nil_of_le (by omega)
    rw [hd]
    simp only [List.take_nil, List.nil_append, List.length_nil, Nat.sub_zero, toNat_replicate]
    have hlast := toNat_getLast X hne
    have hlow := toNat_lt X.dropLast
    rw [List.length_dropLast] at hlow
    have hp : 2 ^ X.length = 2 * 2 ^ (X.length - 1) := by
      have : X.length = (X.length - 1) + 1 := by
        cases X with
        | nil => exact absurd rfl hne
        | cons _ _ => simp
      rw [this, Nat.pow_succ]; simp; omega
    have hkp : 2 ^ X.length ≤ 2 ^ k := Nat.pow_le_pow_right (by omega) (by omega)
    have hcast : ((2 : Int) ^ X.length) = ((2 ^ X.length : Nat) : Int) := by simp
    have hpos : (0 : Int) < ((2 ^ k : Nat) : Int) := by
      have := Nat.two_pow_pos k; omega
    have hpw := Nat.two_pow_pos ow
    simp only [Bld.toInt, hcast, ofInt]
    cases hs : X.getLastD false with
    | false =>
      rw [hs] at hlast
      simp only [Bool.toNat_false, Nat.mul_zero, Nat.add_zero, Bool.false_eq_true, if_false] at hlast ⊢
      have : (toNat X : Int) / ((2 ^ k : Nat) : Int) = 0 :=
        ((Int.ediv_emod_unique (r := (toNat X : Int)) hpos).mpr ⟨by omega, by omega, by omega⟩).1
      rw [this]; simp
    | true =>
      rw [hs] at hlast
      simp only [Bool.toNat_true, Nat.mul_one, if_true] at hlast ⊢
      have : ((toNat X : Int) - ((2 ^ X.length : Nat) : Int)) / ((2 ^ k : Nat) : Int) = -1 :=
        ((Int.ediv_emod_unique (r := (toNat X : Int) - ((2 ^ X.length : Nat) : Int) + ((2 ^ k : Nat) : Int))
          hpos).mpr ⟨by omega, by omega, by omega⟩).1
      rw [this]
      have h2 : (-1 : Int) = ((2 ^ ow - 1 : Nat) : Int) + ((2 ^ ow : Nat) : Int) * (-1) := by omega
      rw [h2, Int.add_mul_emod_self_left, Int.emod_eq_of_lt (by omega) (by omega)]
      simp

/-- `NewBinaryClear` against `evalOp .bclr`. -/
theorem bclr_val (X Y : List Bool) (m ow : Nat) (hx : X.length ≤ m) (hy : Y.length ≤ m) (how : ow ≤ m) :
    toNat (List.zipWith (fun a b => a && !b) ((padTo X m).take ow) ((padTo Y m).take ow)) =
      (toNat X &&& (2 ^ m - 1 - toNat Y)) % 2 ^ ow := by
  apply Nat.eq_of_testBit_eq
  intro i
  have hylt : toNat Y < 2 ^ m := Nat.lt_of_lt_of_le (toNat_lt Y) (Nat.pow_le_pow_right (by omega) hy)
  have h1 : 2 ^ m - 1 - toNat Y = 2 ^ m - (toNat Y + 1) := by omega
  rw [testBit_toNat, getD_zipWith (by rfl) _ _ i (by simp; omega), ← testBit_toNat, ← testBit_toNat,
    take_padTo_eq, take_padTo_eq, Nat.testBit_mod_two_pow, Nat.testBit_mod_two_pow, Nat.testBit_mod_two_pow,
    Nat.testBit_and, h1, Nat.testBit_two_pow_sub_succ hylt]
  by_cases hi : i < ow
  · have : i < m := by omega
    simp [hi, this]
  · simp [hi]

/-- `Amov` (`array[from:to] = v`) against `evalOp .amov`. -/
theorem hi_part (arr to ow : Nat) :
    (((arr % 2 ^ ow) >>> to) <<< to) % 2 ^ ow = ((arr >>> to) <<< to) % 2 ^ ow := by
  apply Nat.eq_of_testBit_eq
  intro i
  simp only [Nat.testBit_mod_two_pow, Nat.testBit_shiftLeft, Nat.testBit_shiftRight]
  by_cases h1 : i < ow <;> by_cases h2 : i ≥ to <;> simp [h1, h2]

theorem amov_val (Ab Vb : List Bool) (arr v from_ to ow : Nat) (hA : Ab.length = ow)
    (hAv : toNat Ab = arr % 2 ^ ow) (hV : Vb.length = to - from_) (hVv : toNat Vb = v % 2 ^ (to - from_))
    (hft : from_ < to) :
    toNat ((Ab.take from_ ++ Vb ++ Ab.drop to).take ow) =
      (arr % 2 ^ from_ + (v % 2 ^ (to - from_)) <<< from_ + (arr >>> to) <<< to) % 2 ^ ow := by
  rw [toNat_take]
  by_cases hfo : from_ ≤ ow
  · have hT : (Ab.take from_).length = from_ := by simp [hA]; omega
    have hpt : from_ + (to - from_) = to := by omega
    rw [toNat_append, toNat_append, List.length_append, hT, hV, hpt, toNat_take, toNat_drop, hAv, hVv,
      Nat.mod_mod_of_dvd _ (Nat.pow_dvd_pow 2 hfo)]
    have e1 : 2 ^ from_ * (v % 2 ^ (to - from_)) = (v % 2 ^ (to - from_)) <<< from_ := by
      rw [Nat.shiftLeft_eq, Nat.mul_comm]
    have e2 : 2 ^ to * (arr % 2 ^ ow / 2 ^ to) = ((arr % 2 ^ ow) >>> to) <<< to := by
      rw [Nat.shiftLeft_eq, Nat.shiftRight_eq_div_pow, Nat.mul_comm]
    rw [e1, e2, Nat.add_mod _ (((arr % 2 ^ ow) >>> to) <<< to), hi_part, ← Nat.add_mod]
  · have hfo' : ow ≤ from_ := by omega
    have hT : Ab.take from_ = Ab := List.take_of_length_le (by omega)
    rw [hT, List.append_assoc, toNat_append, hA, Nat.add_mul_mod_self_left, hAv, Nat.mod_mod]
    have p1 : 2 ^ from_ = 2 ^ ow * 2 ^ (from_ - ow) := by rw [← Nat.pow_add]; congr 1; omega
    have p2 : 2 ^ to = 2 ^ ow * 2 ^ (to - ow) := by rw [← Nat.pow_add]; congr 1; omega
    rw [Nat.shiftLeft_eq, Nat.shiftLeft_eq]
    have q1 : v % 2 ^ (to - from_) * 2 ^ from_ = 2 ^ ow * (v % 2 ^ (to - from_) * 2 ^ (from_ - ow)) := by
      rw [p1]; grind
    have q2 : arr >>> to * 2 ^ to = 2 ^ ow * (arr >>> to * 2 ^ (to - ow)) := by
      rw [p2]; grind
    have : arr % 2 ^ from_ + v % 2 ^ (to - from_) * 2 ^ from_ + arr >>> to * 2 ^ to =
        arr % 2 ^ from_ + 2 ^ ow * (v % 2 ^ (to - from_) * 2 ^ (from_ - ow) + arr >>> to * 2 ^ (to - ow)) := by
      rw [Nat.mul_add, ← q1, ← q2, Nat.add_assoc]
    rw [this, Nat.add_mul_mod_self_left, Nat.mod_mod_of_dvd _ (Nat.pow_dvd_pow 2 hfo')]
/-! ### array element by a variable index -/

theorem chunks_getD_val (size : Nat) : ∀ (n : Nat) (L : List Bool) (j : Nat),
    toNat ((chunks size n L).getD j (List.replicate size false)) =
      if j < n then (toNat L / 2 ^ (j * size)) % 2 ^ size else 0
  | 0, L, j => by simp [chunks]
  | n + 1, L, 0 => by simp [chunks, toNat_take]
  | n + 1, L, j + 1 => by
    simp only [chunks, List.getD_cons_succ]
    rw [chunks_getD_val size n (L.drop size) j, toNat_drop, Nat.div_div_eq_div_mul, ← Nat.pow_add]
    have : size + j * size = (j + 1) * size := by rw [Nat.add_mul]; omega
    rw [this]
    simp only [Nat.add_lt_add_iff_right]

theorem instrOK_index {gmw : Bool} {a c : SArg} {off size id ow : Nat}
    (h : instrOK gmw ⟨.index, [a, .k off, c, .k size], some (id, ow)⟩ = true) :
    0 < (argBits a - off) / size ∧ 0 < argBits c ∧
      argBits c ≤ (indexBits ((argBits a - off) / size) ((argBits a - off) / size) 1 2).1 := by
  simpa [instrOK] using h

theorem index_case {gmw : Bool} {s : St} {inp : List Bool} {st : Nat → Nat} {a c : SArg} {aw iw : List Nat}
    {off size id ow v : Nat} (hwf : WF s inp) (ha : OpdOK s inp st a aw) (hc : OpdOK s inp st c iw)
    (hok : instrOK gmw ⟨.index, [a, .k off, c, .k size], some (id, ow)⟩ = true)
    (hev : evalOp .index ([a, .k off, c, .k size].map (argVal st)) ow = some v) :
    Spec inp s (if size = 0 ∨ aw.length < off ∨ (aw.length - off) % size ≠ 0 ∨ ow ≠ size then pure none
      else some' (newIndex size (aw.drop off) iw)) (Post inp v) := by
  obtain ⟨hn, hi0, hib⟩ := instrOK_index hok
  rw [← ha.len] at hn hib
  rw [← hc.len] at hi0 hib
  simp only [List.map_cons, List.map_nil, ha.2, hc.2, argVal_k, evalOp, Option.some.injEq] at hev
  subst hev
  split
  · exact none_post hwf _
  · next hcond =>
    have hsz : 0 < size := by omega
    have hoff : off ≤ aw.length := by omega
    have hdvd : (aw.length - off) % size = 0 := by
      rcases Nat.eq_zero_or_pos ((aw.length - off) % size) with h | h
      · exact h
      · exact absurd (Or.inr (Or.inr (Or.inl (by omega)))) hcond
    have how : ow = size := by
      rcases Nat.lt_or_ge ow size with h | h
      · exact absurd (Or.inr (Or.inr (Or.inr (by omega)))) hcond
      · rcases Nat.lt_or_ge size ow with h' | h'
        · exact absurd (Or.inr (Or.inr (Or.inr (by omega)))) hcond
        · omega
    subst how
    have hal : (aw.drop off).length = (aw.length - off) / ow * ow := by
      rw [List.length_drop, Nat.div_mul_cancel (Nat.dvd_of_mod_eq_zero hdvd)]
    apply some'_post
    refine (newIndex_spec hwf ow ((aw.length - off) / ow) (ha.1.drop off) hc.1 hal hsz hn hi0).mono ?_
    intro r s' _ ⟨hb, _, hv⟩
    refine ⟨hb, ?_⟩
    have htake : (busVal s inp iw).take (indexBits ((aw.length - off) / ow) ((aw.length - off) / ow) 1 2).1 =
        busVal s inp iw := List.take_of_length_le (by rw [busVal_length]; exact hib)
    have h0 : (if ow = 0 then 0 else (aw.length - off) / ow) = (aw.length - off) / ow := if_neg (by omega)
    rw [h0, hv, htake, chunks_getD_val]
    split
    · rw [busVal_drop, toNat_drop, Nat.div_div_eq_div_mul, ← Nat.pow_add, Nat.shiftRight_eq_div_pow, Nat.mod_mod]
    · rfl

/-! ### signed division -/

theorem toInt_ne_zero (m b : Nat) (hb : b < 2 ^ m) (h0 : b ≠ 0) : Mpcl.toInt m b ≠ 0 := by
  simp only [Mpcl.toInt]
  split <;> omega

theorem idiv_case {gmw : Bool} {s : St} {inp : List Bool} {st : Nat → Nat} {a b : SArg} {x y : List Nat}
    {id ow v : Nat} (hwf : WF s inp) (ha : OpdOK s inp st a x) (hb : OpdOK s inp st b y)
    (hok : instrOK gmw ⟨.idiv, [a, b], some (id, ow)⟩ = true)
    (hev : evalOp .idiv ([a, b].map (argVal st)) ow = some v) :
    Spec inp s (some' (do let d ← iDivider gmw x y ow 0; pure d.1)) (Post inp v) := by
  obtain ⟨hg, h2⟩ := instrOK_div (Or.inr (Or.inr (Or.inr rfl))) hok
  have how := instrOK_idiv hok
  subst hg
  rw [map2 ha hb] at hev
  simp only [evalOp] at hev
  split at hev
  · cases hev
  · next hne =>
    simp only [Option.some.injEq] at hev
    subst hev
    rw [← ha.len, ← hb.len] at h2 how
    have hsx : padTo (busVal s inp x) (max x.length y.length) ≠ [] := by
      intro h; have := congrArg List.length h
      simp only [padTo_length, busVal_length, List.length_nil] at this; omega
    have hsy : padTo (busVal s inp y) (max x.length y.length) ≠ [] := by
      intro h; have := congrArg List.length h
      simp only [padTo_length, busVal_length, List.length_nil] at this; omega
    have hylt : toNat (busVal s inp y) < 2 ^ max x.length y.length :=
      Nat.lt_of_lt_of_le (toNat_lt _) (Nat.pow_le_pow_right (by omega) (by simp; omega))
    have hty := toInt_padTo (busVal s inp y) (max x.length y.length) (by rw [busVal_length]; exact Nat.le_max_right _ _) h2
    have htx := toInt_padTo (busVal s inp x) (max x.length y.length) (by rw [busVal_length]; exact Nat.le_max_left _ _) h2
    have hB : 0 < absN (padTo (busVal s inp y) (max x.length y.length)) := by
      rw [← (toInt_sign_abs _ hsy).2, hty]
      exact Int.natAbs_pos.mpr (toInt_ne_zero _ _ hylt hne)
    apply some'_post
    refine (iDivider_spec hwf ow 0 ha.1 hb.1 h2 hB).map ?_
    intro t s' _ ⟨hb1, _, _, _, hq, _⟩
    refine ⟨hb1, ?_⟩
    have hsq := signed_quotient _ _ hsx hsy ow
    rw [← hq, htx, hty] at hsq
    generalize Int.tdiv (Mpcl.toInt (max x.length y.length) (toNat (busVal s inp x)))
      (Mpcl.toInt (max x.length y.length) (toNat (busVal s inp y))) = Q at *
    generalize toNat (busVal s' inp t.1) = N at *
    -- (ofInt m Q) % 2^ow as an integer is Q % 2^ow (ow ≤ m)
    have hdvd : (((2 ^ ow : Nat) : Int)) ∣ (((2 ^ max x.length y.length : Nat)) : Int) :=
      Int.natCast_dvd_natCast.mpr (Nat.pow_dvd_pow 2 how)
    have hpm : (0 : Int) < ((2 ^ max x.length y.length : Nat) : Int) := by
      have := Nat.two_pow_pos (max x.length y.length); omega
    have hR : (((ofInt (max x.length y.length) Q) % 2 ^ ow : Nat) : Int) = Q % ((2 ^ ow : Nat) : Int) := by
      rw [Int.natCast_emod, ofInt, Int.toNat_of_nonneg (Int.emod_nonneg _ (by omega)),
        Int.emod_emod_of_dvd _ hdvd]
    omega

theorem imod_case {gmw : Bool} {s : St} {inp : List Bool} {st : Nat → Nat} {a b : SArg} {x y : List Nat}
    {id ow v : Nat} (hwf : WF s inp) (ha : OpdOK s inp st a x) (hb : OpdOK s inp st b y)
    (hok : instrOK gmw ⟨.imod, [a, b], some (id, ow)⟩ = true)
    (hev : evalOp .imod ([a, b].map (argVal st)) ow = some v) :
    Spec inp s (some' (do let d ← iDivider gmw x y 0 ow; pure d.2)) (Post inp v) := by
  obtain ⟨hg, h2⟩ := instrOK_div (Or.inr (Or.inr (Or.inl rfl))) hok
  subst hg
  rw [map2 ha hb] at hev
  simp only [evalOp] at hev
  split at hev
  · cases hev
  · next hne =>
    simp only [Option.some.injEq] at hev
    subst hev
    rw [← ha.len, ← hb.len] at h2
    have hsx : padTo (busVal s inp x) (max x.length y.length) ≠ [] := by
      intro h; have := congrArg List.length h
      simp only [padTo_length, busVal_length, List.length_nil] at this; omega
    have hsy : padTo (busVal s inp y) (max x.length y.length) ≠ [] := by
      intro h; have := congrArg List.length h
      simp only [padTo_length, busVal_length, List.length_nil] at this; omega
    have hylt : toNat (busVal s inp y) < 2 ^ max x.length y.length :=
      Nat.lt_of_lt_of_le (toNat_lt _) (Nat.pow_le_pow_right (by omega) (by simp; omega))
    have hty := toInt_padTo (busVal s inp y) (max x.length y.length) (by rw [busVal_length]; exact Nat.le_max_right _ _) h2
    have htx := toInt_padTo (busVal s inp x) (max x.length y.length) (by rw [busVal_length]; exact Nat.le_max_left _ _) h2
    have hB : 0 < absN (padTo (busVal s inp y) (max x.length y.length)) := by
      rw [← (toInt_sign_abs _ hsy).2, hty]
      exact Int.natAbs_pos.mpr (toInt_ne_zero _ _ hylt hne)
    apply some'_post
    refine (iDivider_spec hwf 0 ow ha.1 hb.1 h2 hB).map ?_
    intro t s' _ ⟨_, hb2, _, _, _, hr⟩
    refine ⟨hb2, ?_⟩
    rw [hr, ← (toInt_sign_abs _ hsx).2, ← (toInt_sign_abs _ hsy).2, htx, hty]

/-- One instruction: if `evalOp` is defined with value `v`, the wires that
`compileOp` delivers carry `v`. -/
theorem compileOp_sound {gmw : Bool} {s : St} {inp : List Bool} {z : Nat} {st : Nat → Nat} (hwf : WF s inp)
    (hz : Holds s inp z false) (op : SOp) (ins : List SArg) (id ow : Nat)
    (hok : instrOK gmw ⟨op, ins, some (id, ow)⟩ = true) (xs : List Opd) (hxs : OpdsRel s inp st ins xs)
    (v : Nat) (hev : evalOp op (ins.map (argVal st)) ow = some v) :
    Spec inp s (compileOp gmw z op xs ow) (Post inp v) := by
  unfold compileOp
  split <;> first | exact none_post hwf v | (simp [instrOK] at hok; done) | skip
  · -- add
    next x y =>
    obtain ⟨a, b, rfl, ha, hb⟩ := rel2 hxs
    exact add_case hwf ha hb hok hev
  · -- sub
    next x y =>
    obtain ⟨a, b, rfl, ha, hb⟩ := rel2 hxs
    exact sub_case hwf ha hb hok hev
  · -- mul
    next x y =>
    obtain ⟨a, b, rfl, ha, hb⟩ := rel2 hxs
    exact mul_case hwf ha hb hok hev
  · -- udiv
    next x y =>
    obtain ⟨a, b, rfl, ha, hb⟩ := rel2 hxs
    exact udiv_case hwf ha hb hok hev
  · -- umod
    next x y =>
    obtain ⟨a, b, rfl, ha, hb⟩ := rel2 hxs
    exact umod_case hwf ha hb hok hev
  · -- idiv
    next x y =>
    obtain ⟨a, b, rfl, ha, hb⟩ := rel2 hxs
    exact idiv_case hwf ha hb hok hev
  · -- imod
    next x y =>
    obtain ⟨a, b, rfl, ha, hb⟩ := rel2 hxs
    exact imod_case hwf ha hb hok hev
  · -- band
    next x y =>
    obtain ⟨a, b, rfl, ha, hb⟩ := rel2 hxs
    have ha : OpdOK s inp st a x := ha
    have hb : OpdOK s inp st b y := hb
    rw [map2 ha hb] at hev
    simp only [evalOp, Option.some.injEq] at hev
    subst hev
    split
    · exact bitwise_sound hwf (gate .and) (· && ·) (· &&& ·) (gateF_spec .and) toNat_zipWith_and
        (fun _ _ _ => Nat.and_mod_two_pow) ha.1 hb.1 ow
    · exact none_post hwf _
  · -- bor
    next x y =>
    obtain ⟨a, b, rfl, ha, hb⟩ := rel2 hxs
    have ha : OpdOK s inp st a x := ha
    have hb : OpdOK s inp st b y := hb
    rw [map2 ha hb] at hev
    simp only [evalOp, Option.some.injEq] at hev
    subst hev
    split
    · exact bitwise_sound hwf or (· || ·) (· ||| ·) orF_spec toNat_zipWith_or
        (fun _ _ _ => Nat.or_mod_two_pow) ha.1 hb.1 ow
    · exact none_post hwf _
  · -- bxor
    next x y =>
    obtain ⟨a, b, rfl, ha, hb⟩ := rel2 hxs
    have ha : OpdOK s inp st a x := ha
    have hb : OpdOK s inp st b y := hb
    rw [map2 ha hb] at hev
    simp only [evalOp, Option.some.injEq] at hev
    subst hev
    split
    · exact bitwise_sound hwf (gate .xor) (· != ·) (· ^^^ ·) (gateF_spec .xor) toNat_zipWith_xor
        (fun _ _ _ => Nat.xor_mod_two_pow) ha.1 hb.1 ow
    · exact none_post hwf _
  · -- bclr
    next x y =>
    obtain ⟨a, b, rfl, ha, hb⟩ := rel2 hxs
    have ha : OpdOK s inp st a x := ha
    have hb : OpdOK s inp st b y := hb
    rw [map2 ha hb] at hev
    simp only [evalOp, Option.some.injEq] at hev
    subst hev
    split
    · next how =>
      apply some'_post
      refine (binaryOp_spec hwf _ (fun a b => a && !b) clearF_spec ow ha.1 hb.1).mono ?_
      intro r s' _ ⟨hb', hv⟩
      refine ⟨hb', ?_⟩
      rw [hv]
      exact bclr_val _ _ _ _ (by simp; omega) (by simp; omega) how
    · exact none_post hwf _
  · -- concat
    next x y =>
    obtain ⟨a, b, rfl, ha, hb⟩ := rel2 hxs
    have ha : OpdOK s inp st a x := ha
    have hb : OpdOK s inp st b y := hb
    rw [map2 ha hb] at hev
    simp only [evalOp, Option.some.injEq] at hev
    subst hev
    split
    · next h =>
      refine pure_some_post hwf (ha.1.append hb.1) ?_
      rw [busVal_append]
      have := concat_val (busVal s inp x) (busVal s inp y) ow (by simpa using h)
      simpa using this
    · exact none_post hwf _
  · -- lshift
    next x k =>
    obtain ⟨a, b, rfl, ha, hb⟩ := rel2 hxs
    have ha : OpdOK s inp st a x := ha
    have hb : b = .k k := hb
    subst hb
    simp only [List.map_cons, List.map_nil, ha.2, argVal_k, evalOp, Option.some.injEq] at hev
    subst hev
    refine pure_some_post hwf (extend_bnd ((Bnd.replicate hz.1 k).append ha.1) hz.1 ow) ?_
    rw [extend_zero_val hz, busVal_append, busVal_replicate, hz.2, toNat_append, toNat_replicate_false,
      List.length_replicate, Nat.zero_add, Nat.shiftLeft_eq, Nat.mul_comm]
  · -- rshift
    next x k =>
    obtain ⟨a, b, rfl, ha, hb⟩ := rel2 hxs
    have ha : OpdOK s inp st a x := ha
    have hb : b = .k k := hb
    subst hb
    simp only [List.map_cons, List.map_nil, ha.2, argVal_k, evalOp, Option.some.injEq] at hev
    subst hev
    refine pure_some_post hwf (extend_bnd (ha.1.drop k) hz.1 ow) ?_
    rw [extend_zero_val hz, busVal_drop, toNat_drop, Nat.shiftRight_eq_div_pow]
  · -- srshift
    next x k =>
    obtain ⟨a, b, rfl, ha, hb⟩ := rel2 hxs
    have ha : OpdOK s inp st a x := ha
    have hb : b = .k k := hb
    subst hb
    simp only [List.map_cons, List.map_nil, ha.2, argVal_k, evalOp, Option.some.injEq] at hev
    subst hev
    split
    · exact none_post hwf _
    · next hne =>
      have hne' : x ≠ [] := by intro h; simp [h] at hne
      have hbne : busVal s inp x ≠ [] := by
        intro h; have := congrArg List.length h; simp at this; exact hne' this
      refine pure_some_post hwf (extend_bnd (ha.1.drop k) (getLastD_mem_bnd ha.1 hne') ow) ?_
      have := srshift_val (busVal s inp x) hbne k ow
      rw [busVal_extend, busVal_drop, val_getLastD x hne', List.length_drop]
      simpa [wrapI] using this
  · -- slice
    next x from_ to =>
    obtain ⟨a, b, c, rfl, ha, hb, hc⟩ := rel3 hxs
    have ha : OpdOK s inp st a x := ha
    have hb : b = .k from_ := hb
    have hc : c = .k to := hc
    subst hb; subst hc
    simp only [List.map_cons, List.map_nil, ha.2, argVal_k, evalOp, Option.some.injEq] at hev
    subst hev
    split
    · refine pure_some_post hwf (extend_bnd (extend_bnd (ha.1.drop from_) hz.1 _) hz.1 ow) ?_
      rw [extend_zero_val hz, extend_zero_val hz, busVal_drop, toNat_drop, Nat.shiftRight_eq_div_pow]
    · exact none_post hwf _
  · -- index
    next aw off iw size =>
    obtain ⟨a, b, c, d, rfl, ha, hb, hc, hd⟩ := rel4 hxs
    have hb : b = .k off := hb
    have hd : d = .k size := hd
    subst hb; subst hd
    exact index_case hwf ha hc hok hev
  · -- ilt
    next x y =>
    obtain ⟨a, b, rfl, ha, hb⟩ := rel2 hxs
    have ha : OpdOK s inp st a x := ha
    have hb : OpdOK s inp st b y := hb
    have hm := instrOK_cmp (Or.inl rfl) hok
    rw [← ha.len, ← hb.len] at hm
    rw [map2 ha hb] at hev
    simp only [evalOp, Option.some.injEq] at hev
    subst hev
    refine (icmp_case hwf .lt ha.1 hb.1 hm).mono ?_
    intro r s' _ h ws hws
    have := h ws hws
    simp only [CmpKind.relInt, toNat_decide] at this
    exact this
  · -- ile
    next x y =>
    obtain ⟨a, b, rfl, ha, hb⟩ := rel2 hxs
    have ha : OpdOK s inp st a x := ha
    have hb : OpdOK s inp st b y := hb
    have hm := instrOK_cmp (Or.inr (Or.inl rfl)) hok
    rw [← ha.len, ← hb.len] at hm
    rw [map2 ha hb] at hev
    simp only [evalOp, Option.some.injEq] at hev
    subst hev
    refine (icmp_case hwf .le ha.1 hb.1 hm).mono ?_
    intro r s' _ h ws hws
    have := h ws hws
    simp only [CmpKind.relInt, toNat_decide] at this
    exact this
  · -- igt
    next x y =>
    obtain ⟨a, b, rfl, ha, hb⟩ := rel2 hxs
    have ha : OpdOK s inp st a x := ha
    have hb : OpdOK s inp st b y := hb
    have hm := instrOK_cmp (Or.inr (Or.inr (Or.inl rfl))) hok
    rw [← ha.len, ← hb.len] at hm
    rw [map2 ha hb] at hev
    simp only [evalOp, Option.some.injEq] at hev
    subst hev
    refine (icmp_case hwf .gt ha.1 hb.1 hm).mono ?_
    intro r s' _ h ws hws
    have := h ws hws
    simp only [CmpKind.relInt, toNat_decide] at this
    exact this
  · -- ige
    next x y =>
    obtain ⟨a, b, rfl, ha, hb⟩ := rel2 hxs
    have ha : OpdOK s inp st a x := ha
    have hb : OpdOK s inp st b y := hb
    have hm := instrOK_cmp (Or.inr (Or.inr (Or.inr (Or.inl rfl)))) hok
    rw [← ha.len, ← hb.len] at hm
    rw [map2 ha hb] at hev
    simp only [evalOp, Option.some.injEq] at hev
    subst hev
    refine (icmp_case hwf .ge ha.1 hb.1 hm).mono ?_
    intro r s' _ h ws hws
    have := h ws hws
    simp only [CmpKind.relInt, toNat_decide] at this
    exact this
  · -- ult
    next x y =>
    obtain ⟨a, b, rfl, ha, hb⟩ := rel2 hxs
    have ha : OpdOK s inp st a x := ha
    have hb : OpdOK s inp st b y := hb
    rw [map2 ha hb] at hev
    simp only [evalOp, Option.some.injEq] at hev
    subst hev
    refine (ucmp_case hwf .lt ha.1 hb.1).mono ?_
    intro r s' _ h ws hws
    have := h ws hws
    simp only [CmpKind.relNat, toNat_decide] at this
    exact this
  · -- ule
    next x y =>
    obtain ⟨a, b, rfl, ha, hb⟩ := rel2 hxs
    have ha : OpdOK s inp st a x := ha
    have hb : OpdOK s inp st b y := hb
    rw [map2 ha hb] at hev
    simp only [evalOp, Option.some.injEq] at hev
    subst hev
    refine (ucmp_case hwf .le ha.1 hb.1).mono ?_
    intro r s' _ h ws hws
    have := h ws hws
    simp only [CmpKind.relNat, toNat_decide] at this
    exact this
  · -- ugt
    next x y =>
    obtain ⟨a, b, rfl, ha, hb⟩ := rel2 hxs
    have ha : OpdOK s inp st a x := ha
    have hb : OpdOK s inp st b y := hb
    rw [map2 ha hb] at hev
    simp only [evalOp, Option.some.injEq] at hev
    subst hev
    refine (ucmp_case hwf .gt ha.1 hb.1).mono ?_
    intro r s' _ h ws hws
    have := h ws hws
    simp only [CmpKind.relNat, toNat_decide] at this
    exact this
  · -- uge
    next x y =>
    obtain ⟨a, b, rfl, ha, hb⟩ := rel2 hxs
    have ha : OpdOK s inp st a x := ha
    have hb : OpdOK s inp st b y := hb
    rw [map2 ha hb] at hev
    simp only [evalOp, Option.some.injEq] at hev
    subst hev
    refine (ucmp_case hwf .ge ha.1 hb.1).mono ?_
    intro r s' _ h ws hws
    have := h ws hws
    simp only [CmpKind.relNat, toNat_decide] at this
    exact this
  · -- eq
    next x y =>
    obtain ⟨a, b, rfl, ha, hb⟩ := rel2 hxs
    have ha : OpdOK s inp st a x := ha
    have hb : OpdOK s inp st b y := hb
    have hm := instrOK_cmp (Or.inr (Or.inr (Or.inr (Or.inr (Or.inl rfl))))) hok
    rw [← ha.len, ← hb.len] at hm
    rw [map2 ha hb] at hev
    simp only [evalOp, Option.some.injEq] at hev
    subst hev
    exact eq_case hwf ha.1 hb.1 hm
  · -- neq
    next x y =>
    obtain ⟨a, b, rfl, ha, hb⟩ := rel2 hxs
    have ha : OpdOK s inp st a x := ha
    have hb : OpdOK s inp st b y := hb
    have hm := instrOK_cmp (Or.inr (Or.inr (Or.inr (Or.inr (Or.inr rfl))))) hok
    rw [← ha.len, ← hb.len] at hm
    rw [map2 ha hb] at hev
    simp only [evalOp, Option.some.injEq] at hev
    subst hev
    exact neq_case hwf ha.1 hb.1 hm
  · -- land
    next x y =>
    obtain ⟨a, b, rfl, ha, hb⟩ := rel2 hxs
    have ha : OpdOK s inp st a x := ha
    have hb : OpdOK s inp st b y := hb
    rw [map2 ha hb] at hev
    simp only [evalOp, Option.some.injEq] at hev
    subst hev
    exact land_case hwf ha.1 hb.1
  · -- lor
    next x y =>
    obtain ⟨a, b, rfl, ha, hb⟩ := rel2 hxs
    have ha : OpdOK s inp st a x := ha
    have hb : OpdOK s inp st b y := hb
    rw [map2 ha hb] at hev
    simp only [evalOp, Option.some.injEq] at hev
    subst hev
    exact lor_case hwf ha.1 hb.1
  · -- lnot
    next x =>
    obtain ⟨a, rfl, ha⟩ := rel1 hxs
    have ha : OpdOK s inp st a x := ha
    simp only [List.map_cons, List.map_nil, ha.2, evalOp, Option.some.injEq] at hev
    subst hev
    exact lnot_case hwf ha.1
  · -- mov
    next x =>
    obtain ⟨a, rfl, ha⟩ := rel1 hxs
    have ha : OpdOK s inp st a x := ha
    simp only [List.map_cons, List.map_nil, ha.2, evalOp, Option.some.injEq] at hev
    subst hev
    refine pure_post hwf ?_
    intro ws hws
    simp only [Option.some.injEq] at hws
    subst hws
    exact ⟨extend_bnd ha.1 hz.1 ow, extend_zero_val hz x ow⟩
  · -- smov
    next x =>
    obtain ⟨a, rfl, ha⟩ := rel1 hxs
    have ha : OpdOK s inp st a x := ha
    simp only [List.map_cons, List.map_nil, ha.2, evalOp, Option.some.injEq] at hev
    subst hev
    split
    · exact none_post hwf _
    · next hne =>
      have hne' : x ≠ [] := by intro h; simp [h] at hne
      have hbne : busVal s inp x ≠ [] := by
        intro h; have := congrArg List.length h; simp at this; exact hne' this
      refine pure_some_post hwf (extend_bnd ha.1 (getLastD_mem_bnd ha.1 hne') ow) ?_
      have := sext_val (busVal s inp x) hbne ow
      rw [busVal_extend, val_getLastD x hne']
      rw [toInt_bridge _ hbne] at this
      simpa [wrapI] using this
  · -- amov
    next vw aw from_ to =>
    obtain ⟨a, b, c, d, rfl, ha, hb, hc, hd⟩ := rel4 hxs
    have ha : OpdOK s inp st a vw := ha
    have hb : OpdOK s inp st b aw := hb
    have hc : c = .k from_ := hc
    have hd : d = .k to := hd
    subst hc; subst hd
    simp only [List.map_cons, List.map_nil, ha.2, hb.2, argVal_k, evalOp, Option.some.injEq] at hev
    subst hev
    split
    · next hft =>
      refine pure_some_post hwf ?_ ?_
      · exact ((((extend_bnd hb.1 hz.1 ow).take from_).append (extend_bnd ha.1 hz.1 _)).append
          ((extend_bnd hb.1 hz.1 ow).drop to)).take ow
      · rw [busVal_take, busVal_append, busVal_append, busVal_take, busVal_drop]
        exact amov_val _ _ _ _ from_ to ow (by rw [busVal_length, extend_length]) (extend_zero_val hz aw ow)
          (by rw [busVal_length, extend_length]) (extend_zero_val hz vw _) hft
    · exact none_post hwf _
  · -- phi
    next c t f =>
    obtain ⟨a, b, d, rfl, ha, hb, hd⟩ := rel3 hxs
    have ha : OpdOK s inp st a c := ha
    have hb : OpdOK s inp st b t := hb
    have hd : OpdOK s inp st d f := hd
    simp only [List.map_cons, List.map_nil, ha.2, hb.2, hd.2, evalOp, Option.some.injEq] at hev
    subst hev
    exact phi_case hwf ha.1 hb.1 hd.1

/-! ### `ret` -/

theorem retBuses_spec {inp : List Bool} : ∀ (xs : List (List Nat)) {s : St}, WF s inp → (∀ ws ∈ xs, Bnd s ws) →
    Spec inp s (retBuses xs) (fun os s' =>
      os.map (fun ws => (toNat (busVal s' inp ws), ws.length)) =
        xs.map (fun ws => (toNat (busVal s inp ws), ws.length)))
  | [], s, hwf, _ => Spec.pure hwf rfl
  | ws :: r, s, hwf, hb => by
    simp only [retBuses]
    refine Spec.bind (retWires_spec ws hwf (hb ws (by simp))) ?_
    intro o s1 e1 ⟨ho, hov⟩
    refine Spec.bind (retBuses_spec r e1.wf (fun w hw => (hb w (by simp [hw])).mono e1)) ?_
    intro t s2 e2 ht
    refine Spec.pure e2.wf ?_
    have hlen : o.length = ws.length := by
      have := congrArg List.length hov; simpa using this
    simp only [List.map_cons, ht, busVal_ext e2 ho, hov, hlen, List.cons.injEq, true_and]
    apply List.map_congr_left
    intro w hw
    rw [busVal_ext e1 (hb w (by simp [hw]))]

theorem ret_operands {s : St} {inp : List Bool} {z o : Nat} {env : WEnv} {st : Nat → Nat}
    (hz : Holds s inp z false) (ho : Holds s inp o true) (hinv : EnvInv s inp env st) :
    ∀ (l : List SArg) (xs : List (List Nat)), allSome (l.map (operandWires z o env)) = some xs →
      (∀ ws ∈ xs, Bnd s ws) ∧ xs.map (fun ws => (toNat (busVal s inp ws), ws.length)) = l.map (argVal st)
  | l, [], h => by
    rw [allSome_map_nil _ l h]; simp
  | l, x :: xs, h => by
    obtain ⟨a, l', rfl, ha, hl'⟩ := allSome_map_cons _ l x xs h
    obtain ⟨hb, hv⟩ := ret_operands hz ho hinv l' xs hl'
    have hx := operandWires_spec hz ho hinv ha
    refine ⟨?_, ?_⟩
    · intro ws hws
      rcases List.mem_cons.mp hws with rfl | h'
      · exact hx.1
      · exact hb ws h'
    · simp only [List.map_cons, hv, hx.2]

/-! ### the step list -/

/-- Simulation: when `ssaRun` is defined, compiling the step list from an
environment that agrees with the store extends the builder state (which stays
well formed) and yields output buses whose values are `ssaRun`'s result. -/
theorem compileSteps_sound {gmw : Bool} {inp : List Bool} {z o : Nat} :
    ∀ (steps : List SInstr) {s : St} {env : WEnv} {st : Nat → Nat}, WF s inp → Holds s inp z false →
    Holds s inp o true → EnvInv s inp env st → steps.all (instrOK gmw) = true →
    ∀ r, ssaRun steps st = some r →
    Spec inp s (compileSteps gmw z o steps env) (fun res s' => ∀ outs, res = some outs →
      outs.map (fun ws => (toNat (busVal s' inp ws), ws.length)) = r)
  | [], s, env, st, hwf, _, _, _, _, r, hr => by simp [ssaRun] at hr
  | i :: rest, s, env, st, hwf, hz, ho, hinv, hall, r, hr => by
    obtain ⟨op, ins, out⟩ := i
    simp only [List.all_cons, Bool.and_eq_true] at hall
    obtain ⟨hok, hrest⟩ := hall
    unfold compileSteps
    by_cases hret : op = .ret
    · subst hret
      simp only [if_true]
      simp only [ssaRun, if_true, Option.some.injEq] at hr
      subst hr
      split
      · next xs hxs =>
        obtain ⟨hb, hv⟩ := ret_operands (st := st) hz ho hinv ins xs hxs
        unfold some'
        refine (retBuses_spec xs hwf hb).map ?_
        intro os s' _ hos outs houts
        simp only [Option.some.injEq] at houts
        subst houts
        rw [hos, hv]
      · exact Spec.pure hwf (fun _ h => by cases h)
    · simp only [hret, if_false]
      cases out with
      | none => exact Spec.pure hwf (fun _ h => by cases h)
      | some idow =>
        obtain ⟨id, ow⟩ := idow
        simp only
        split
        · exact Spec.pure hwf (fun _ h => by cases h)
        · next xs hxs =>
          have hrel := operands_spec (st := st) hz ho hinv ins xs hxs
          cases hev : evalOp op (ins.map (argVal st)) ow with
          | none => simp [ssaRun, hret, hev] at hr
          | some v =>
            have hr' : ssaRun rest (SStore.set st id v) = some r := by
              simpa [ssaRun, hret, hev] using hr
            refine Spec.bind (compileOp_sound hwf hz op ins id ow hok xs hrel v hev) ?_
            intro res s1 e1 hres
            cases res with
            | none => exact Spec.pure e1.wf (fun _ h => by cases h)
            | some ws =>
              obtain ⟨hwb, hwv⟩ := hres ws rfl
              exact compileSteps_sound rest e1.wf (hz.mono e1) (ho.mono e1)
                ((hinv.mono e1).set hwb hwv) hrest r hr'

/-! ### inputs and the whole program -/

theorem inputBits_length : ∀ (ins : List (Nat × Nat)) (args : List Nat), ins.length = args.length →
    (inputBits ins args).length = nInputs ins
  | [], [], _ => rfl
  | [], _ :: _, h => by simp at h
  | _ :: _, [], h => by simp at h
  | (id, bits) :: is, v :: vs, h => by
    simp only [inputBits, nInputs, List.length_append, ofNat_length]
    rw [inputBits_length is vs (by simpa using h)]

theorem loadInputs_length : ∀ (ins : List (Nat × Nat)) (args : List Nat) (st st' : Nat → Nat),
    loadInputs ins args st = some st' → ins.length = args.length
  | [], [], _, _, _ => rfl
  | [], _ :: _, _, _, h => by simp [loadInputs] at h
  | _ :: _, [], _, _, h => by simp [loadInputs] at h
  | (id, bits) :: is, v :: vs, st, st', h => by
    simp only [loadInputs] at h
    simp [loadInputs_length is vs _ st' h]

/-- `prog.InputWires` against `loadInputs`: argument `k`'s input wires carry
the low `bits_k` bits of its value. -/
theorem inputEnv_inv {s0 s : St} {inp : List Bool} (e : Ext s0 s inp) (hn : s0.nIn = inp.length) :
    ∀ (ins : List (Nat × Nat)) (args : List Nat) (ofs : Nat) (env : WEnv) (st st' : Nat → Nat),
    loadInputs ins args st = some st' → inp.drop ofs = inputBits ins args → ofs ≤ inp.length →
    EnvInv s inp env st → EnvInv s inp (inputEnv ins ofs env) st'
  | [], [], _, env, st, st', h, _, _, hinv => by
    simp only [loadInputs, Option.some.injEq] at h
    subst h; exact hinv
  | [], _ :: _, _, _, _, _, h, _, _, _ => by simp [loadInputs] at h
  | _ :: _, [], _, _, _, _, h, _, _, _ => by simp [loadInputs] at h
  | (id, bits) :: is, v :: vs, ofs, env, st, st', h, hd, hofs, hinv => by
    simp only [loadInputs] at h
    simp only [inputEnv]
    simp only [inputBits] at hd
    have hlen : (inp.drop ofs).length = bits + (inputBits is vs).length := by
      rw [hd]; simp [ofNat_length]
    simp only [List.length_drop] at hlen
    have hle : ofs + bits ≤ inp.length := by omega
    have hb : Bnd s (inputWires ofs bits) := inputWires_bnd e ofs bits (by omega)
    have hv : toNat (busVal s inp (inputWires ofs bits)) = v % 2 ^ bits := by
      rw [inputWires_val s inp ofs bits hle, hd, List.take_left' (ofNat_length bits v), toNat_ofNat]
    refine inputEnv_inv e hn is vs (ofs + bits) _ _ st' h ?_ hle (hinv.set hb hv)
    rw [← List.drop_drop, hd, List.drop_left' (ofNat_length bits v)]

/-- The back end is correct on the supported instruction set: whenever the
SSA semantics `ssaEval` of the step list is defined on `args`, the gate list
generated by `ssaCompile` computes it (and the final builder state is well
formed, so `plainEval_eq_val` applies to it). -/
theorem ssaCompile_sound (gmw : Bool) (ins : List (Nat × Nat)) (steps : List SInstr)
    (hall : steps.all (instrOK gmw) = true) (s : St) (outs : List (List Nat))
    (hc : ssaCompile gmw ins steps = some (s, outs)) (args : List Nat) (r : List (Nat × Nat))
    (hr : ssaEval (Nat → Nat) ins steps args = some r) :
    WF s (inputBits ins args) ∧
      outs.map (fun ws => (toNat (busVal s (inputBits ins args) ws), ws.length)) = r := by
  unfold ssaCompile at hc
  by_cases hn : nInputs ins = 0
  · simp [hn] at hc
  simp only [hn, if_false, Option.map_eq_some_iff, Prod.mk.injEq] at hc
  obtain ⟨outs', hres, hs, rfl⟩ := hc
  simp only [ssaEval, Option.bind_eq_some_iff] at hr
  obtain ⟨st0, hload, hrun⟩ := hr
  have hlen := loadInputs_length ins args _ st0 hload
  have hil := inputBits_length ins args hlen
  have h0 : WF ({ nIn := nInputs ins } : St) (inputBits ins args) := emptySt_wf hil (by omega)
  obtain ⟨e1, hz⟩ := zeroWire_spec h0
  obtain ⟨e2, ho⟩ := oneWire_spec e1.wf
  have e02 := e1.trans e2
  have hinv0 : EnvInv (oneWire (zeroWire { nIn := nInputs ins }).2).2 (inputBits ins args) [] SStore.empty := by
    intro id ws h; simp [WEnv.find] at h
  have hinv := inputEnv_inv e02 hil.symm ins args 0 [] _ st0 hload (by simp) (by omega) hinv0
  obtain ⟨e3, hq⟩ := compileSteps_sound (gmw := gmw) steps e2.wf (hz.mono e2) ho hinv hall r hrun
  rw [← hs]
  exact ⟨e3.wf, hq _ hres⟩

end Mpc.SsaC

/-
Helper lemmas for C05, compile side: liveness completeness of the backward
scan of `Program.GC` and the safety of the inserted `gc` instructions for
programs in which every rewired value is rewired directly from an owner.
-/
import MpcVerif.Model.Gc

namespace Mpc.Gc

/-! ## Specification -/

/-- `PointsInto prog w v`: the id slice of value `w` contains wire ids from the
range OWNED by `v`.  A value owns its ids iff it is not the output of a
rewiring operand (those outputs only hold copies of their inputs' ids, of the
`{zero}` wire, or of a sign wire of the input). -/
inductive PointsInto (prog : List Step) : Nat → Nat → Prop
  | self (v : Nat) :
      (∀ s ∈ prog, s.op.rewires = true → s.outId ≠ some v) → PointsInto prog v v
  | step (s : Step) (a : Arg) (w v : Nat) :
      s ∈ prog → s.op.rewires = true → s.outId = some w → a ∈ s.ins → a.const = false →
      PointsInto prog a.id v → PointsInto prog w v

/-- Safety of a GC'd step list `out` of program `prog`: after `gc v` no later
instruction reads a value whose ids point into `v`'s range (`GCWires` puts
that range on a free list, the next value of the same size gets it). -/
def Safe (prog out : List Step) : Prop :=
  ∀ pre post g, out = pre ++ g :: post → g.op = .gc →
    ∀ a ∈ g.ins, ∀ t ∈ post, t.op ≠ .gc → ∀ b ∈ t.ins, b.const = false →
      ¬ PointsInto prog b.id a.id

/-- What the SSA generator guarantees for the step list handed to `GC`: no
`gc` instructions yet, single assignment, definition before use. -/
structure WF (prog : List Step) : Prop where
  nogc : ∀ s ∈ prog, s.op ≠ .gc
  ssa : (outs prog).Nodup
  dbu : dbu prog = true

/-- No alias of an alias: the non-constant inputs of a rewiring operand are
not themselves outputs of rewiring operands. -/
def NoChain (prog : List Step) : Prop :=
  ∀ s ∈ prog, s.op.rewires = true → ∀ a ∈ s.ins, a.const = false →
    ∀ d ∈ prog, d.op.rewires = true → d.outId ≠ some a.id

/-- `concat` (rewired by the streamer, not in GC's alias list) only of
constants. -/
def NoConcat (prog : List Step) : Prop :=
  ∀ s ∈ prog, s.op = .concat → ∀ a ∈ s.ins, a.const = true

/-! ## The scan of one instruction's inputs -/

theorem scanIns_mono (al : Nat → List Nat) (ins : List Arg) (live : Live) (x : Nat)
    (h : live.contains x = true) : (scanIns al ins live).1.contains x = true := by
  induction ins generalizing live with
  | nil => simpa [scanIns] using h
  | cons a as ih =>
    simp only [scanIns]
    split
    · exact ih live h
    · exact ih (a.id :: live) (by simp at h ⊢; exact Or.inr h)

theorem scanIns_reads (al : Nat → List Nat) (ins : List Arg) (live : Live) (a : Arg)
    (ha : a ∈ ins) (hc : a.const = false) : (scanIns al ins live).1.contains a.id = true := by
  induction ins generalizing live with
  | nil => cases ha
  | cons b bs ih =>
    simp only [scanIns]
    rcases List.mem_cons.mp ha with rfl | hmem
    · simp only [hc, Bool.false_eq_true, if_false]
      exact scanIns_mono al bs _ _ (by simp)
    · split
      · exact ih live hmem
      · exact ih _ hmem

/-- Every emitted `gc` is for a non-constant input that was not live, and
none of whose direct aliases was live, after the instruction. -/
theorem scanIns_gcs (al : Nat → List Nat) (ins : List Arg) (live : Live) (g : Step)
    (hg : g ∈ (scanIns al ins live).2) :
    ∃ a ∈ ins, g = gcStep a ∧ a.const = false ∧ live.contains a.id = false ∧
      ∀ w ∈ al a.id, live.contains w = false := by
  induction ins generalizing live with
  | nil => simp [scanIns] at hg
  | cons b bs ih =>
    simp only [scanIns] at hg
    by_cases hb : b.const = true
    · simp only [hb, if_true] at hg
      obtain ⟨a, ha, h⟩ := ih live hg
      exact ⟨a, List.mem_cons_of_mem _ ha, h⟩
    · simp only [hb, Bool.false_eq_true, if_false] at hg
      have hrest : g ∈ (scanIns al bs (b.id :: live)).2 →
          ∃ a ∈ b :: bs, g = gcStep a ∧ a.const = false ∧ live.contains a.id = false ∧
            ∀ w ∈ al a.id, live.contains w = false := by
        intro h
        obtain ⟨a, ha, h1, h2, h3, h4⟩ := ih (b.id :: live) h
        refine ⟨a, List.mem_cons_of_mem _ ha, h1, h2, ?_, ?_⟩
        · cases hx : live.contains a.id
          · rfl
          · have : (b.id :: live).contains a.id = true := by
              simp at hx ⊢; exact Or.inr hx
            rw [this] at h3; cases h3
        · intro w hw
          cases hx : live.contains w
          · rfl
          · have : (b.id :: live).contains w = true := by
              simp at hx ⊢; exact Or.inr hx
            have h5 := h4 w hw
            rw [this] at h5; cases h5
      split at hg
      · rename_i hdead
        rcases List.mem_cons.mp hg with rfl | hmem
        · simp only [Bool.and_eq_true, Bool.not_eq_true', List.any_eq_false] at hdead
          refine ⟨b, List.mem_cons_self, rfl, by simpa using hb, hdead.1, ?_⟩
          intro w hw
          have := hdead.2 w hw
          simpa using this
        · exact hrest hmem
      · exact hrest hg

/-! ## Liveness -/

def liveOf (al : Nat → List Nat) (retLive : Live) (l : List Step) : Live := (gcBack al retLive l).2

theorem gcBack_cons_fst (al : Nat → List Nat) (rl : Live) (s : Step) (rest : List Step) :
    (gcBack al rl (s :: rest)).1 =
      s :: ((scanIns al s.ins (liveOf al rl rest)).2.reverse ++ (gcBack al rl rest).1) := rfl

theorem mem_outs {l : List Step} {x : Nat} : x ∈ outs l ↔ ∃ s ∈ l, s.outId = some x := by
  simp [outs, List.mem_filterMap]

/-- Completeness of the backward liveness: a value that is read in `l` and not
defined in `l` is in the live set before `l`. -/
theorem live_complete (al : Nat → List Nat) (rl : Live) (l : List Step) (x : Nat)
    (hread : ∃ t ∈ l, ∃ b ∈ t.ins, b.const = false ∧ b.id = x) (hdef : x ∉ outs l) :
    (liveOf al rl l).contains x = true := by
  induction l with
  | nil => obtain ⟨t, ht, _⟩ := hread; cases ht
  | cons s rest ih =>
    have hxout : s.outId ≠ some x := by
      intro h
      exact hdef (mem_outs.mpr ⟨s, List.mem_cons_self, h⟩)
    have hdef' : x ∉ outs rest := by
      intro h
      obtain ⟨d, hd, hdo⟩ := mem_outs.mp h
      exact hdef (mem_outs.mpr ⟨d, List.mem_cons_of_mem _ hd, hdo⟩)
    have hscan : (scanIns al s.ins (liveOf al rl rest)).1.contains x = true := by
      obtain ⟨t, ht, b, hb, hbc, hbx⟩ := hread
      rcases List.mem_cons.mp ht with rfl | htr
      · rw [← hbx]
        exact scanIns_reads al _ _ b hb hbc
      · exact scanIns_mono al _ _ _ (ih ⟨t, htr, b, hb, hbc, hbx⟩ hdef')
    simp only [liveOf, gcBack]
    cases ho : s.out with
    | none => simpa [liveOf] using hscan
    | some o =>
      simp only [Step.outId, ho, Option.map_some, ne_eq, Option.some.injEq] at hxout
      simp only [List.contains_eq_mem, List.mem_filter, decide_eq_true_eq] at hscan ⊢
      simp only [liveOf] at hscan
      exact ⟨hscan, by simpa using fun h => hxout h.symm⟩

/-- Non-`gc` members of the result are members of the input. -/
theorem mem_gcBack (al : Nat → List Nat) (rl : Live) (l : List Step) (t : Step)
    (ht : t ∈ (gcBack al rl l).1) (hop : t.op ≠ .gc) : t ∈ l := by
  induction l with
  | nil => simp [gcBack] at ht
  | cons s rest ih =>
    rw [gcBack_cons_fst] at ht
    rcases List.mem_cons.mp ht with rfl | h
    · exact List.mem_cons_self
    · rcases List.mem_append.mp h with h | h
      · obtain ⟨a, _, hg, _⟩ := scanIns_gcs al _ _ t (List.mem_reverse.mp h)
        rw [hg] at hop
        exact absurd rfl hop
      · exact List.mem_cons_of_mem _ (ih h)

/-! ## Direct safety: no later reader of the value or of a tracked alias -/

theorem dbu_suffix (pre l : List Step) (h : dbu (pre ++ l) = true) : dbu l = true := by
  induction pre with
  | nil => simpa using h
  | cons p ps ih =>
    simp only [List.cons_append, dbu, Bool.and_eq_true] at h
    exact ih h.2

theorem outs_append (a b : List Step) : outs (a ++ b) = outs a ++ outs b := by
  simp [outs, List.filterMap_append]

/-- The induction: every `gc a` in the result for a suffix `l` of the program
is followed by no non-`gc` step that reads `a` or a value of `al a.id`, where
`al` is any table that lists (at least) the outputs of the alias steps OF THE
WHOLE PROGRAM that read the value. -/
theorem gcBack_direct (prog : List Step) (al : Nat → List Nat) (rl : Live)
    (hnogc : ∀ s ∈ prog, s.op ≠ .gc) (hssa : (outs prog).Nodup)
    (hal : ∀ d ∈ prog, d.op.gcAliasOld = true → ∀ a ∈ d.ins, a.const = false →
      ∀ w, d.outId = some w → w ∈ al a.id) :
    ∀ (pre0 l : List Step), prog = pre0 ++ l → dbu l = true →
    ∀ pre post g, (gcBack al rl l).1 = pre ++ g :: post → g.op = .gc →
      ∃ a, g = gcStep a ∧ a.const = false ∧
        ∀ t ∈ post, t.op ≠ .gc → ∀ b ∈ t.ins, b.const = false →
          b.id ≠ a.id ∧
          ¬ (∃ d ∈ prog, d.op.gcAliasOld = true ∧ d.outId = some b.id ∧
              ∃ a' ∈ d.ins, a'.const = false ∧ a'.id = a.id) := by
  intro pre0 l
  induction l generalizing pre0 with
  | nil =>
    intro _ _ pre post g h
    simp [gcBack] at h
  | cons s rest ih =>
    intro hprog hdbu pre post g hsplit hgop
    have hdbu' : dbu rest = true := by
      simp only [dbu, Bool.and_eq_true] at hdbu; exact hdbu.2
    have hsin : ∀ a ∈ s.ins, a.const = false → a.id ∉ outs (s :: rest) := by
      intro a ha hc
      simp only [dbu, Bool.and_eq_true, List.all_eq_true] at hdbu
      have := hdbu.1 a ha
      simp only [hc, Bool.false_or, Bool.not_eq_true', List.contains_eq_mem,
        decide_eq_false_iff_not] at this
      exact this
    have hprog' : prog = (pre0 ++ [s]) ++ rest := by simp [hprog]
    rw [gcBack_cons_fst] at hsplit
    -- where is g?
    cases pre with
    | nil =>
      simp only [List.nil_append, List.cons.injEq] at hsplit
      have : s.op ≠ .gc := hnogc s (by simp [hprog])
      rw [hsplit.1] at this
      exact absurd hgop this
    | cons p pre' =>
      simp only [List.cons_append, List.cons.injEq] at hsplit
      obtain ⟨_, hsplit⟩ := hsplit
      -- split of gcs.reverse ++ rest'
      rcases List.append_eq_append_iff.mp hsplit with ⟨m, hm1, hm2⟩ | ⟨m, hm1, hm2⟩
      · -- g is in the rest' part: pre' = gcs.reverse ++ m, rest' = m ++ g :: post
        exact ih (pre0 ++ [s]) hprog' hdbu' m post g hm2 hgop
      · -- gcs.reverse = pre' ++ m, g :: post = m ++ rest'
        cases m with
        | nil =>
          simp only [List.nil_append] at hm2
          exact ih (pre0 ++ [s]) hprog' hdbu' [] post g (by simpa using hm2.symm) hgop
        | cons g' m' =>
          simp only [List.cons_append, List.cons.injEq] at hm2
          obtain ⟨hgg, hpost⟩ := hm2
          subst hgg
          have hgmem : g ∈ (scanIns al s.ins (liveOf al rl rest)).2 := by
            apply List.mem_reverse.mp
            rw [hm1]; simp
          obtain ⟨a, ha, hga, hac, hlive, halias⟩ := scanIns_gcs al _ _ g hgmem
          refine ⟨a, hga, hac, ?_⟩
          intro t ht htop b hb hbc
          -- t is a step of rest
          have htrest : t ∈ rest := by
            rw [hpost] at ht
            rcases List.mem_append.mp ht with h | h
            · have hin : t ∈ (scanIns al s.ins (liveOf al rl rest)).2 := by
                apply List.mem_reverse.mp
                rw [hm1]; simp [h]
              obtain ⟨a2, _, hg2, _⟩ := scanIns_gcs al _ _ t hin
              rw [hg2] at htop
              exact absurd rfl htop
            · exact mem_gcBack al rl rest t h htop
          have ha_undef : a.id ∉ outs rest := by
            intro h
            apply hsin a ha hac
            obtain ⟨d, hd, hdo⟩ := mem_outs.mp h
            exact mem_outs.mpr ⟨d, List.mem_cons_of_mem _ hd, hdo⟩
          constructor
          · intro hba
            have := live_complete al rl rest a.id ⟨t, htrest, b, hb, hbc, hba⟩ ha_undef
            rw [hlive] at this; cases this
          · rintro ⟨d, hd, hdal, hdout, a', ha', ha'c, ha'id⟩
            have hw : b.id ∈ al a.id := by
              have := hal d hd hdal a' ha' ha'c b.id hdout
              rwa [ha'id] at this
            have hbdead := halias b.id hw
            -- is b.id defined in rest?
            by_cases hbdef : b.id ∈ outs rest
            · -- then d itself must be in rest (single assignment), so a is read in rest
              have hdrest : d ∈ rest := by
                rw [hprog'] at hd
                rcases List.mem_append.mp hd with h | h
                · exfalso
                  rw [hprog', outs_append] at hssa
                  have hdis := (List.nodup_append.mp hssa).2.2
                  exact hdis b.id (mem_outs.mpr ⟨d, h, hdout⟩) b.id hbdef rfl
                · exact h
              have := live_complete al rl rest a.id ⟨d, hdrest, a', ha', ha'c, ha'id⟩ ha_undef
              rw [hlive] at this; cases this
            · have := live_complete al rl rest b.id ⟨t, htrest, b, hb, hbc, rfl⟩ hbdef
              rw [hbdead] at this; cases this

/-! ## Safety for any alias table that covers everything pointing into a value -/

/-- If the alias table lists every value that points into `v` (transitively,
through every rewiring operand), then no `gc a` in the result is followed by a
read of a value that points into `a`. -/
theorem gcBack_covered (prog : List Step) (al : Nat → List Nat) (rl : Live)
    (hnogc : ∀ s ∈ prog, s.op ≠ .gc) (hssa : (outs prog).Nodup)
    (hal : ∀ w v, PointsInto prog w v → w ≠ v → w ∈ al v) :
    ∀ (pre0 l : List Step), prog = pre0 ++ l → dbu l = true →
    ∀ pre post g, (gcBack al rl l).1 = pre ++ g :: post → g.op = .gc →
      ∃ a, g = gcStep a ∧ a.const = false ∧
        ∀ t ∈ post, t.op ≠ .gc → ∀ b ∈ t.ins, b.const = false → ¬ PointsInto prog b.id a.id := by
  intro pre0 l
  induction l generalizing pre0 with
  | nil =>
    intro _ _ pre post g h
    simp [gcBack] at h
  | cons s rest ih =>
    intro hprog hdbu pre post g hsplit hgop
    have hdbu' : dbu rest = true := by
      simp only [dbu, Bool.and_eq_true] at hdbu; exact hdbu.2
    have hsin : ∀ a ∈ s.ins, a.const = false → a.id ∉ outs (s :: rest) := by
      intro a ha hc
      simp only [dbu, Bool.and_eq_true, List.all_eq_true] at hdbu
      have := hdbu.1 a ha
      simp only [hc, Bool.false_or, Bool.not_eq_true', List.contains_eq_mem,
        decide_eq_false_iff_not] at this
      exact this
    have hprog' : prog = (pre0 ++ [s]) ++ rest := by simp [hprog]
    rw [gcBack_cons_fst] at hsplit
    cases pre with
    | nil =>
      simp only [List.nil_append, List.cons.injEq] at hsplit
      have : s.op ≠ .gc := hnogc s (by simp [hprog])
      rw [hsplit.1] at this
      exact absurd hgop this
    | cons p pre' =>
      simp only [List.cons_append, List.cons.injEq] at hsplit
      obtain ⟨_, hsplit⟩ := hsplit
      rcases List.append_eq_append_iff.mp hsplit with ⟨m, hm1, hm2⟩ | ⟨m, hm1, hm2⟩
      · exact ih (pre0 ++ [s]) hprog' hdbu' m post g hm2 hgop
      · cases m with
        | nil =>
          simp only [List.nil_append] at hm2
          exact ih (pre0 ++ [s]) hprog' hdbu' [] post g (by simpa using hm2.symm) hgop
        | cons g' m' =>
          simp only [List.cons_append, List.cons.injEq] at hm2
          obtain ⟨hgg, hpost⟩ := hm2
          subst hgg
          have hgmem : g ∈ (scanIns al s.ins (liveOf al rl rest)).2 := by
            apply List.mem_reverse.mp
            rw [hm1]; simp
          obtain ⟨a, ha, hga, hac, hlive, halias⟩ := scanIns_gcs al _ _ g hgmem
          refine ⟨a, hga, hac, ?_⟩
          have ha_undef : a.id ∉ outs rest := by
            intro h
            apply hsin a ha hac
            obtain ⟨d, hd, hdo⟩ := mem_outs.mp h
            exact mem_outs.mpr ⟨d, List.mem_cons_of_mem _ hd, hdo⟩
          -- nothing that points into `a` is read in `rest`
          have key : ∀ w v, PointsInto prog w v → v = a.id →
              ¬ (∃ t ∈ rest, ∃ b ∈ t.ins, b.const = false ∧ b.id = w) := by
            intro w v hp
            induction hp with
            | self v _ =>
              intro hv hread
              subst hv
              have := live_complete al rl rest a.id hread ha_undef
              rw [hlive] at this; cases this
            | step d x w v hd hrw hout hx hxc hrec ihp =>
              intro hv hread
              subst hv
              by_cases hwa : w = a.id
              · subst hwa
                have := live_complete al rl rest a.id hread ha_undef
                rw [hlive] at this; cases this
              · have hw : w ∈ al a.id := hal w a.id (PointsInto.step d x w a.id hd hrw hout hx hxc hrec) hwa
                have hwdead := halias w hw
                by_cases hwdef : w ∈ outs rest
                · have hdrest : d ∈ rest := by
                    rw [hprog'] at hd
                    rcases List.mem_append.mp hd with h | h
                    · exfalso
                      rw [hprog', outs_append] at hssa
                      have hdis := (List.nodup_append.mp hssa).2.2
                      exact hdis w (mem_outs.mpr ⟨d, h, hout⟩) w hwdef rfl
                    · exact h
                  exact ihp rfl ⟨d, hdrest, x, hx, hxc, rfl⟩
                · have := live_complete al rl rest w hread hwdef
                  rw [hwdead] at this; cases this
          intro t ht htop b hb hbc hpt
          have htrest : t ∈ rest := by
            rw [hpost] at ht
            rcases List.mem_append.mp ht with h | h
            · have hin : t ∈ (scanIns al s.ins (liveOf al rl rest)).2 := by
                apply List.mem_reverse.mp
                rw [hm1]; simp [h]
              obtain ⟨a2, _, hg2, _⟩ := scanIns_gcs al _ _ t hin
              rw [hg2] at htop
              exact absurd rfl htop
            · exact mem_gcBack al rl rest t h htop
          exact key b.id a.id hpt rfl ⟨t, htrest, b, hb, hbc, rfl⟩

/-! ## From direct safety to `Safe` when there are no chains -/

theorem mem_aliasesOfOld (prog : List Step) (v w : Nat) :
    w ∈ aliasesOfOld prog v ↔ ∃ s ∈ prog, s.op.gcAliasOld = true ∧ s.reads v = true ∧ s.outId = some w := by
  simp only [aliasesOfOld, List.mem_filterMap]
  constructor
  · rintro ⟨s, hs, h⟩
    split at h
    · rename_i hc
      simp only [Bool.and_eq_true] at hc
      exact ⟨s, hs, hc.1, hc.2, h⟩
    · cases h
  · rintro ⟨s, hs, h1, h2, h3⟩
    exact ⟨s, hs, by simp [h1, h2, h3]⟩

theorem reads_of_mem (s : Step) (a : Arg) (ha : a ∈ s.ins) (hc : a.const = false) :
    s.reads a.id = true := by
  simp only [Step.reads, List.any_eq_true]
  exact ⟨a, ha, by simp [hc]⟩

theorem gcAliasOld_of_rewires (op : Op) (h : op.rewires = true) (hc : op ≠ .concat) :
    op.gcAliasOld = true := by
  cases op <;> simp_all [Op.gcAliasOld, Op.rewires]

theorem gcAlias_eq_rewires (op : Op) : op.gcAlias = op.rewires := by
  cases op <;> rfl

/-- Without chains, pointing into `v` means being `v` or a direct rewiring of
`v`. -/
theorem pointsInto_nochain (prog : List Step) (hnc : NoChain prog) (w v : Nat)
    (h : PointsInto prog w v) :
    w = v ∨ ∃ s ∈ prog, s.op.rewires = true ∧ s.outId = some w ∧
      ∃ a ∈ s.ins, a.const = false ∧ a.id = v := by
  cases h with
  | self _ _ => exact Or.inl rfl
  | step s a _ _ hs hrw hout ha hac hrec =>
    right
    refine ⟨s, hs, hrw, hout, a, ha, hac, ?_⟩
    cases hrec with
    | self _ _ => rfl
    | step d a2 _ _ hd hdrw hdout _ _ _ =>
      exact absurd hdout (hnc s hs hrw a ha hac d hd hdrw)

/-! ## The `aliasLive` closure covers everything that points into a value -/

theorem mem_aliasesOf (prog : List Step) (v w : Nat) :
    w ∈ aliasesOf prog v ↔ ∃ s ∈ prog, s.op.rewires = true ∧ s.reads v = true ∧ s.outId = some w := by
  simp only [aliasesOf, List.mem_filterMap, gcAlias_eq_rewires]
  constructor
  · rintro ⟨s, hs, h⟩
    split at h
    · rename_i hc
      simp only [Bool.and_eq_true] at hc
      exact ⟨s, hs, hc.1, hc.2, h⟩
    · cases h
  · rintro ⟨s, hs, h1, h2, h3⟩
    exact ⟨s, hs, by simp [h1, h2, h3]⟩

/-- A non-empty chain of rewiring steps of `l` from `v` to `w`. -/
inductive Chain (l : List Step) : Nat → Nat → Prop
  | one (d : Step) (v w : Nat) :
      d ∈ l → d.op.rewires = true → d.reads v = true → d.outId = some w → Chain l v w
  | cons (d : Step) (v x w : Nat) :
      d ∈ l → d.op.rewires = true → d.reads v = true → d.outId = some x → Chain l x w → Chain l v w

theorem Chain.snoc {l : List Step} {v x w : Nat} (h : Chain l v x) (d : Step) (hd : d ∈ l)
    (hrw : d.op.rewires = true) (hr : d.reads x = true) (ho : d.outId = some w) : Chain l v w := by
  induction h with
  | one d0 v x h1 h2 h3 h4 => exact Chain.cons d0 v x w h1 h2 h3 h4 (Chain.one d x w hd hrw hr ho)
  | cons d0 v y x h1 h2 h3 h4 _ ih => exact Chain.cons d0 v y w h1 h2 h3 h4 (ih hr)

theorem reads_iff (s : Step) (v : Nat) :
    s.reads v = true ↔ ∃ a ∈ s.ins, a.const = false ∧ a.id = v := by
  simp only [Step.reads, List.any_eq_true, Bool.and_eq_true, Bool.not_eq_true', beq_iff_eq]

/-- Everything that points into `v` (and is not `v`) is reached from `v` by a
chain of rewiring steps. -/
theorem chain_of_pointsInto (prog : List Step) (w v : Nat) (h : PointsInto prog w v) (hne : w ≠ v) :
    Chain prog v w := by
  induction h with
  | self v _ => exact absurd rfl hne
  | step s a w v hs hrw hout ha hac hrec ih =>
    have hr : s.reads a.id = true := reads_of_mem s a ha hac
    by_cases hav : a.id = v
    · rw [hav] at hr
      exact Chain.one s v w hs hrw hr hout
    · exact (ih hav).snoc s hs hrw hr hout

/-- Definition before use: a chain that starts at a value defined in
`s :: rest` does not use `s`. -/
theorem chain_tail (s : Step) (rest : List Step) (hdbu : dbu (s :: rest) = true) (v w : Nat)
    (h : Chain (s :: rest) v w) (hv : v ∈ outs (s :: rest)) : Chain rest v w := by
  have hs : ∀ x, s.reads x = true → x ∉ outs (s :: rest) := by
    intro x hx
    obtain ⟨a, ha, hac, hax⟩ := (reads_iff s x).mp hx
    simp only [dbu, Bool.and_eq_true, List.all_eq_true] at hdbu
    have := hdbu.1 a ha
    simp only [hac, Bool.false_or, Bool.not_eq_true', List.contains_eq_mem,
      decide_eq_false_iff_not] at this
    rw [← hax]; exact this
  induction h with
  | one d v w hd hrw hr ho =>
    rcases List.mem_cons.mp hd with rfl | hd'
    · exact absurd hv (hs v hr)
    · exact Chain.one d v w hd' hrw hr ho
  | cons d v x w hd hrw hr ho _ ih =>
    rcases List.mem_cons.mp hd with rfl | hd'
    · exact absurd hv (hs v hr)
    · exact Chain.cons d v x w hd' hrw hr ho
        (ih (mem_outs.mpr ⟨d, List.mem_cons_of_mem _ hd', ho⟩))

theorem mem_closure_succ (dir : Nat → List Nat) (fuel v x w : Nat) (hx : x ∈ dir v)
    (hw : w ∈ aliasClosure dir fuel x) : w ∈ aliasClosure dir (fuel + 1) v := by
  simp only [aliasClosure, List.mem_append, List.mem_flatMap]
  exact Or.inr ⟨x, hx, hw⟩

theorem mem_closure_direct (dir : Nat → List Nat) (fuel v w : Nat) (hw : w ∈ dir v) :
    w ∈ aliasClosure dir (fuel + 1) v := by
  simp only [aliasClosure, List.mem_append]
  exact Or.inl hw

/-- A chain inside a suffix `l` of a program with definition before use is
found by the closure with fuel `l.length`. -/
theorem closure_of_chain (prog : List Step) :
    ∀ (l : List Step), (∀ d ∈ l, d ∈ prog) → dbu l = true → ∀ v w, Chain l v w →
      w ∈ aliasClosure (aliasesOf prog) l.length v := by
  intro l
  induction l with
  | nil =>
    intro _ _ v w h
    cases h with
    | one d _ _ hd => cases hd
    | cons d _ _ _ hd => cases hd
  | cons s rest ih =>
    intro hsub hdbu v w h
    have hdbu' : dbu rest = true := by
      simp only [dbu, Bool.and_eq_true] at hdbu; exact hdbu.2
    have hsub' : ∀ d ∈ rest, d ∈ prog := fun d hd => hsub d (List.mem_cons_of_mem _ hd)
    cases h with
    | one d _ _ hd hrw hr ho =>
      exact mem_closure_direct _ _ _ _ ((mem_aliasesOf prog v w).mpr ⟨d, hsub d hd, hrw, hr, ho⟩)
    | cons d _ x _ hd hrw hr ho htail =>
      have hx : x ∈ aliasesOf prog v := (mem_aliasesOf prog v x).mpr ⟨d, hsub d hd, hrw, hr, ho⟩
      have htail' : Chain rest x w :=
        chain_tail s rest hdbu x w htail (mem_outs.mpr ⟨d, hd, ho⟩)
      exact mem_closure_succ _ _ _ _ _ hx (ih hsub' hdbu' x w htail')

/-- The executable closure of `Program.GC` satisfies the hypothesis of the
safety theorem. -/
theorem closure_covers (prog : List Step) (hdbu : dbu prog = true) (w v : Nat)
    (h : PointsInto prog w v) (hne : w ≠ v) :
    w ∈ aliasClosure (aliasesOf prog) prog.length v :=
  closure_of_chain prog prog (fun _ h => h) hdbu v w (chain_of_pointsInto prog w v h hne)

/-! ## The allocator's hash-bucket chains -/

/-- Distinct keys in a chain (a header is inserted only after a failed
lookup). -/
def KeysNodup (c : List Entry) : Prop := (c.map (·.key)).Nodup

theorem find_eraseP_ne (c : List Entry) (k k' : Nat) (h : k' ≠ k) :
    (c.eraseP (·.key == k)).find? (·.key == k') = c.find? (·.key == k') := by
  induction c with
  | nil => rfl
  | cons e es ih =>
    by_cases hk : e.key = k
    · have : (e.key == k) = true := by simp [hk]
      simp only [List.eraseP_cons, this, cond_true]
      have hne : (e.key == k') = false := by
        simp only [beq_eq_false_iff_ne, ne_eq]; rw [hk]; exact fun h' => h h'.symm
      simp [hne]
    · have : (e.key == k) = false := by simpa using hk
      simp only [List.eraseP_cons, this, cond_false]
      simp only [List.find?_cons]
      split
      · rfl
      · exact ih

theorem find_eraseP_self (c : List Entry) (k : Nat) (hn : KeysNodup c) :
    (c.eraseP (·.key == k)).find? (·.key == k) = none := by
  induction c with
  | nil => rfl
  | cons e es ih =>
    simp only [KeysNodup, List.map_cons, List.nodup_cons] at hn
    by_cases hk : e.key = k
    · have : (e.key == k) = true := by simp [hk]
      simp only [List.eraseP_cons, this, cond_true]
      rw [List.find?_eq_none]
      intro x hx
      have : x.key ∈ es.map (·.key) := List.mem_map.mpr ⟨x, hx, rfl⟩
      simp only [beq_iff_eq]
      intro hxk
      exact hn.1 (by rw [hk, ← hxk]; exact this)
    · have : (e.key == k) = false := by simpa using hk
      simp only [List.eraseP_cons, this, cond_false]
      simp only [List.find?_cons, this]
      exact ih hn.2

theorem keysNodup_eraseP (c : List Entry) (k : Nat) (hn : KeysNodup c) :
    KeysNodup (c.eraseP (·.key == k)) := by
  unfold KeysNodup at *
  exact List.Nodup.sublist (List.Sublist.map _ (List.eraseP_sublist)) hn

/-- `remove v` returns `v`'s header (if present), deletes exactly that header
and leaves every other value's header findable, unchanged. -/
theorem chainRemove_spec (c : List Entry) (k : Nat) (hn : KeysNodup c) :
    (chainRemove c k).1 = c.find? (·.key == k) ∧
    (chainRemove c k).2.find? (·.key == k) = none ∧
    (∀ k', k' ≠ k → (chainRemove c k).2.find? (·.key == k') = c.find? (·.key == k')) ∧
    KeysNodup (chainRemove c k).2 :=
  ⟨rfl, find_eraseP_self c k hn, fun k' h => find_eraseP_ne c k k' h, keysNodup_eraseP c k hn⟩

/-- `lookup v` finds `v`'s header iff there is one, and its move-to-front
changes no lookup result (of any value). -/
theorem chainLookup_spec (c : List Entry) (k : Nat) (hn : KeysNodup c) :
    (chainLookup c k).1 = c.find? (·.key == k) ∧
    (∀ k', (chainLookup c k).2.find? (·.key == k') = c.find? (·.key == k')) ∧
    KeysNodup (chainLookup c k).2 := by
  unfold chainLookup
  cases hf : c.find? (·.key == k) with
  | none =>
    cases hi : c.findIdx? (·.key == k) <;> exact ⟨rfl, fun _ => rfl, hn⟩
  | some e =>
    have hek : e.key = k := by
      have := List.find?_some hf
      simpa using this
    have hmem : e ∈ c := List.mem_of_find?_eq_some hf
    cases hi : c.findIdx? (·.key == k) with
    | none =>
      exfalso
      have := (List.findIdx?_eq_none_iff.mp hi) e hmem
      simp [hek] at this
    | some i =>
      simp only
      split
      · refine ⟨rfl, ?_, ?_⟩
        · intro k'
          by_cases hk' : k' = k
          · subst hk'
            simp [hek, hf]
          · have hne : (e.key == k') = false := by
              simp only [beq_eq_false_iff_ne, ne_eq]; rw [hek]; exact fun h' => hk' h'.symm
            simp only [List.find?_cons, hne]
            exact find_eraseP_ne c k k' hk'
        · have hn' := keysNodup_eraseP c k hn
          unfold KeysNodup at *
          simp only [List.map_cons, List.nodup_cons]
          refine ⟨?_, hn'⟩
          intro hin
          obtain ⟨x, hx, hxk⟩ := List.mem_map.mp hin
          have hnone := find_eraseP_self c k hn
          rw [List.find?_eq_none] at hnone
          have := hnone x hx
          simp only [beq_iff_eq] at this
          exact this (by rw [hxk, hek])
      · exact ⟨rfl, fun _ => rfl, hn⟩

/-- Inserting a header for a key that was not found keeps keys distinct. -/
theorem keysNodup_insert (c : List Entry) (e : Entry) (hn : KeysNodup c)
    (hnew : c.find? (·.key == e.key) = none) : KeysNodup (e :: c) := by
  unfold KeysNodup at *
  simp only [List.map_cons, List.nodup_cons]
  refine ⟨?_, hn⟩
  intro hin
  obtain ⟨x, hx, hxk⟩ := List.mem_map.mp hin
  rw [List.find?_eq_none] at hnew
  have := hnew x hx
  simp only [beq_iff_eq] at this
  exact this hxk

/-! ## Constant padding: the two modes agree when the first instance has the
constant's own width -/

theorem getD_take (v : List Bool) (own b : Nat) :
    (v.take own).getD b false = if b < own then v.getD b false else false := by
  simp only [List.getD_eq_getElem?_getD, List.getElem?_take]
  split <;> simp

theorem pad_agree (v : List Bool) (own bits : Nat) (signed : Bool) (h1 : 0 < own) (h2 : own ≤ v.length)
    (h3 : own ≤ bits) :
    padFromFirst (v.take own) signed bits = padFromOwn v own signed bits := by
  unfold padFromFirst padFromOwn
  apply List.map_congr_left
  intro b _
  have hlen : (v.take own).length = own := by simp [List.length_take]; omega
  have hmin : min own bits = own := by omega
  simp only [hlen, hmin, getD_take]
  by_cases hb : b < own
  · have : ¬ own ≤ b := by omega
    simp [hb, this]
  · have hge : own ≤ b := by omega
    cases signed
    · simp [hb, hge]
    · have : own - 1 < own := by omega
      simp [hb, hge, h1, this]

/-! ## `defineBeforeUse` is the identity on lists in definition-before-use order -/

theorem emit_skip (prog : List Step) (f j : Nat) (st : EmitSt) (h : st.emitted.contains j = true) :
    emit prog f j st = st := by
  cases f with
  | zero => rfl
  | succ f => simp only [emit, h, if_true]

theorem foldl_fix {α β : Type} (g : α → β → α) (l : List β) (x : α) (h : ∀ b ∈ l, g x b = x) :
    l.foldl g x = x := by
  induction l with
  | nil => rfl
  | cons b bs ih =>
    rw [List.foldl_cons, h b List.mem_cons_self]
    exact ih (fun c hc => h c (List.mem_cons_of_mem _ hc))

theorem followIns_skip (prog : List Step) (f : Nat) (ins : List Arg) (st : EmitSt)
    (h : ∀ a ∈ ins, a.const = false → ∀ j, defAt prog a.id = some j → st.emitted.contains j = true) :
    followIns (emit prog f) prog ins st = st := by
  unfold followIns
  apply foldl_fix
  intro a ha
  show (if a.const then st
        else match defAt prog a.id with
          | some j => emit prog f j st
          | none => st) = st
  by_cases hc : a.const = true
  · simp [hc]
  · simp only [hc, Bool.false_eq_true, if_false]
    cases hd : defAt prog a.id with
    | none => rfl
    | some j => exact emit_skip prog f j st (h a ha (by simpa using hc) j hd)

theorem defAt_spec (prog : List Step) (v j : Nat) (h : defAt prog v = some j) :
    ∃ s, prog[j]? = some s ∧ s.outId = some v := by
  unfold defAt at h
  cases hl : (prog.zipIdx.filter fun p => p.1.outId == some v).getLast? with
  | none => rw [hl] at h; cases h
  | some p =>
    rw [hl] at h
    simp only [Option.map_some, Option.some.injEq] at h
    have hmem := List.mem_of_getLast? hl
    rw [List.mem_filter] at hmem
    obtain ⟨hz, ho⟩ := hmem
    obtain ⟨s, i⟩ := p
    simp only at h ho
    subst h
    have := List.mem_zipIdx_iff_getElem?.mp hz
    exact ⟨s, by simpa using this, by simpa using ho⟩

theorem dbu_drop (prog : List Step) (k : Nat) (h : dbu prog = true) : dbu (prog.drop k) = true := by
  have : prog = prog.take k ++ prog.drop k := (List.take_append_drop k prog).symm
  rw [this] at h
  exact dbu_suffix _ _ h

theorem defAt_lt (prog : List Step) (hdbu : dbu prog = true) (k : Nat) (s : Step) (hs : prog[k]? = some s)
    (a : Arg) (ha : a ∈ s.ins) (hc : a.const = false) (j : Nat) (hj : defAt prog a.id = some j) : j < k := by
  obtain ⟨d, hd, hdo⟩ := defAt_spec prog a.id j hj
  by_cases hlt : j < k
  · exact hlt
  · exfalso
    have hdrop : prog.drop k = s :: prog.drop (k + 1) := by
      have hk : k < prog.length := by
        rcases List.getElem?_eq_some_iff.mp hs with ⟨hk, _⟩; exact hk
      rw [List.drop_eq_getElem_cons hk]
      have : prog[k] = s := by
        rcases List.getElem?_eq_some_iff.mp hs with ⟨_, h⟩; exact h
      rw [this]
    have h1 := dbu_drop prog k hdbu
    rw [hdrop] at h1
    simp only [dbu, Bool.and_eq_true, List.all_eq_true] at h1
    have h2 := h1.1 a ha
    simp only [hc, Bool.false_or, Bool.not_eq_true', List.contains_eq_mem, decide_eq_false_iff_not] at h2
    apply h2
    rw [← hdrop]
    apply mem_outs.mpr
    refine ⟨d, ?_, hdo⟩
    have hjk : k ≤ j := by omega
    have : (prog.drop k)[j - k]? = some d := by
      rw [List.getElem?_drop]
      have : k + (j - k) = j := by omega
      rw [this]; exact hd
    exact List.mem_of_getElem? this

theorem defineBeforeUse_id (prog : List Step) (hdbu : dbu prog = true) : defineBeforeUse prog = prog := by
  unfold defineBeforeUse
  have key : ∀ k, k ≤ prog.length →
      let st := (List.range k).foldl (fun st i => emit prog (prog.length + 1) i st) {}
      st.out = prog.take k ∧ ∀ j, st.emitted.contains j = true ↔ j < k := by
    intro k
    induction k with
    | zero => intro _; simp
    | succ k ih =>
      intro hk
      have hk' : k < prog.length := by omega
      obtain ⟨hout, hem⟩ := ih (by omega)
      simp only [List.range_succ, List.foldl_append, List.foldl_cons, List.foldl_nil]
      generalize hst : (List.range k).foldl (fun st i => emit prog (prog.length + 1) i st) {} = st at hout hem
      have hnot : st.emitted.contains k = false := by
        cases hcon : st.emitted.contains k
        · rfl
        · have := (hem k).mp hcon; omega
      have hget : prog[k]? = some prog[k] := List.getElem?_eq_getElem hk'
      simp only [emit, hnot, Bool.false_eq_true, if_false, hget]
      rw [followIns_skip]
      · constructor
        · simp only [hout]
          rw [List.take_add_one, hget]
          rfl
        · intro j
          have hem' : j ∈ st.emitted ↔ j < k := by
            have := hem j
            simpa using this
          simp only [List.contains_eq_mem, decide_eq_true_eq, List.mem_cons]
          constructor
          · intro h
            rcases h with h | h
            · omega
            · have := hem'.mp h; omega
          · intro h
            by_cases hjk : j = k
            · exact Or.inl hjk
            · exact Or.inr (hem'.mpr (by omega))
      · intro a ha hc j hj
        have hlt := defAt_lt prog hdbu k prog[k] hget a ha hc j hj
        have := (hem j).mpr hlt
        simp only [List.contains_eq_mem, decide_eq_true_eq, List.mem_cons] at this ⊢
        exact Or.inr this
  have := (key prog.length (Nat.le_refl _)).1
  simpa using this

end Mpc.Gc

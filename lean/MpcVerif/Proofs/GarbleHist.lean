/-
Helper lemmas for `Props/C01Hist.lean`: a garbling history
(`Model/GarbleHist.lean`) is a schedule of the ownership model, so it reaches
only reachable states and is a finite run.  Core Lean only.
-/
import MpcVerif.Model.GarbleHist
import MpcVerif.Proofs.Pool

namespace Mpc.Pool
variable {Mem Job : Type}

set_option linter.unusedSimpArgs false

/-- With the single `Put` on the error path a call is exactly its block of
atomic steps. -/
theorem runEv_eq_runSched (P : Params Mem Job) (σ : State Mem Job) (e : HEv Job) :
    runEvWith false P σ e = runSched P true σ (evSched P σ e) := by
  unfold runEvWith
  cases e <;> (split <;> simp_all)

theorem steps_trans (P : Params Mem Job) (strict : Bool) (σ σ' σ'' : State Mem Job)
    (h1 : Steps P strict σ σ') (h2 : Steps P strict σ' σ'') : Steps P strict σ σ'' := by
  induction h2 with
  | refl => exact h1
  | tail t a _ hs ih => exact .tail t a ih hs

theorem steps_runSched (P : Params Mem Job) (strict : Bool) (σ σ' : State Mem Job)
    (l : List (Tid × Action Job)) (h : runSched P strict σ l = some σ') : Steps P strict σ σ' := by
  induction l generalizing σ with
  | nil => simp only [runSched] at h; cases h; exact .refl _
  | cons ta rest ih =>
    obtain ⟨t, a⟩ := ta
    simp only [runSched] at h
    split at h
    · rename_i σ1 h1
      exact steps_trans P strict σ σ1 σ' (.tail t a (.refl _) h1) (ih σ1 h)
    · contradiction

/-- A history is a finite run of the ownership model under the usage contract. -/
theorem steps_runHist (P : Params Mem Job) (σ σ' : State Mem Job) (evs : List (HEv Job))
    (h : runHist P σ evs = some σ') : Steps P true σ σ' := by
  induction evs generalizing σ with
  | nil => simp only [runHist, runHistWith] at h; cases h; exact .refl _
  | cons e es ih =>
    simp only [runHist, runHistWith] at h
    split at h
    · rename_i σ1 h1
      rw [runEv_eq_runSched] at h1
      exact steps_trans P true σ σ1 σ' (steps_runSched P true σ σ1 _ h1) (ih σ1 h)
    · contradiction

/-- A history from a reachable state ends in a reachable state. -/
theorem reachable_runHist (P : Params Mem Job) (σ σ' : State Mem Job) (evs : List (HEv Job))
    (hr : Reachable P true σ) (h : runHist P σ evs = some σ') : Reachable P true σ' :=
  reachable_steps P true σ σ' hr (steps_runHist P σ σ' evs h)

/-! ### The part of a Garble call before it returns touches no handle -/

/-- The atomic actions of a Garble call before its return (pool lookup, `Get`,
writes into the scratch it drew). -/
def isAcquireOrWrite : Action Job → Bool
  | .callGarble _ | .load | .cas | .reload | .getFree _ | .getNew | .write => true
  | _ => false

theorem handles_frame_step (P : Params Mem Job) (strict : Bool) (σ σ' : State Mem Job) (t : Tid)
    (a : Action Job) (ha : isAcquireOrWrite a = true) (h : step? P strict σ t a = some σ') :
    σ'.nHandles = σ.nHandles ∧ σ'.handle = σ.handle := by
  cases a <;> simp only [isAcquireOrWrite] at ha <;> (try contradiction) <;>
    simp only [step?] at h <;> (repeat' split at h) <;> (try contradiction) <;>
    (cases h; exact ⟨rfl, rfl⟩)

theorem handles_frame_sched (P : Params Mem Job) (strict : Bool) (l : List (Tid × Action Job)) :
    ∀ (σ σ' : State Mem Job), (∀ ta ∈ l, isAcquireOrWrite ta.2 = true) →
      runSched P strict σ l = some σ' → σ'.nHandles = σ.nHandles ∧ σ'.handle = σ.handle := by
  induction l with
  | nil => intro σ σ' _ h; simp only [runSched] at h; cases h; exact ⟨rfl, rfl⟩
  | cons ta rest ih =>
    intro σ σ' hall h
    obtain ⟨t, a⟩ := ta
    simp only [runSched] at h
    split at h
    · rename_i σ1 h1
      obtain ⟨e1, e2⟩ := ih σ1 σ' (fun ta hta => hall ta (List.mem_cons_of_mem _ hta)) h
      obtain ⟨f1, f2⟩ := handles_frame_step P strict σ σ1 t a (hall (t, a) (List.mem_cons_self ..)) h1
      exact ⟨by rw [e1, f1], by rw [e2, f2]⟩
    · contradiction

theorem failPrefix_actions (σ : State Mem Job) (j : Job) (k : Nat) (s : Option ScratchId) :
    ∀ ta ∈ acquireSched σ j s ++ List.replicate k ((0 : Tid), (Action.write : Action Job)),
      isAcquireOrWrite ta.2 = true := by
  intro ta hta
  cases s <;> by_cases hp : σ.poolPtr.isNone = true <;>
    simp only [acquireSched, hp, if_true, List.mem_append, List.mem_cons, List.mem_replicate,
      List.not_mem_nil, or_false] at hta <;>
    grind [isAcquireOrWrite]

theorem runSched_none_append (P : Params Mem Job) (strict : Bool) (l l' : List (Tid × Action Job)) :
    ∀ (σ : State Mem Job), runSched P strict σ l = none → runSched P strict σ (l ++ l') = none := by
  induction l with
  | nil => intro σ h; simp [runSched] at h
  | cons ta rest ih =>
    intro σ h
    obtain ⟨t, a⟩ := ta
    simp only [runSched, List.cons_append] at h ⊢
    split
    · rename_i σ1 h1; rw [h1] at h; exact ih σ1 h
    · rfl

/-- A failed Garble, taken apart: the state `σ1` just before the error return
(goroutine 0 holds scratch `x` of pool `p`, handles untouched), and the state
after it, which differs only by the single `Put` and the caller being idle. -/
theorem fail_split (P : Params Mem Job) (σ σ' : State Mem Job) (j : Job) (k : Nat) (s : Option ScratchId)
    (hf : runEvWith false P σ (.fail j k s) = some σ') :
    ∃ σ1 j' p x m0 k', runSched P true σ (acquireSched σ j s ++ List.replicate k (0, Action.write)) = some σ1 ∧
      σ1.pc 0 = .gRun j' p x m0 k' ∧ σ1.nHandles = σ.nHandles ∧ σ1.handle = σ.handle ∧
      σ' = { σ1 with free := upd σ1.free p (x :: σ1.free p), pc := upd σ1.pc 0 .idle } := by
  rw [runEv_eq_runSched] at hf
  simp only [evSched] at hf
  cases hpre : runSched P true σ (acquireSched σ j s ++ List.replicate k (0, Action.write)) with
  | none =>
    rw [runSched_none_append P true _ [(0, Action.abort)] σ hpre] at hf
    contradiction
  | some σ1 =>
    rw [runSched_append P true σ σ1 _ [(0, Action.abort)] hpre] at hf
    simp only [runSched] at hf
    split at hf
    · rename_i σ2 hab
      cases hf
      simp only [step?] at hab
      split at hab
      · rename_i j' p x m0 k' hpc
        cases hab
        obtain ⟨f1, f2⟩ := handles_frame_sched P true _ σ σ1 (failPrefix_actions σ j k s) hpre
        exact ⟨σ1, j', p, x, m0, k', rfl, hpc, f1, f2, rfl⟩
      · contradiction
    · contradiction

/-! ### Every call returns; the next call is possible -/

theorem runSched_snoc (P : Params Mem Job) (strict : Bool) (l : List (Tid × Action Job)) (t : Tid) (a : Action Job) :
    ∀ (σ σ' : State Mem Job), runSched P strict σ (l ++ [(t, a)]) = some σ' →
      ∃ σ1, runSched P strict σ l = some σ1 ∧ step? P strict σ1 t a = some σ' := by
  induction l with
  | nil =>
    intro σ σ' h
    simp only [List.nil_append, runSched] at h
    split at h
    · rename_i σ1 h1; cases h; exact ⟨σ, rfl, h1⟩
    · contradiction
  | cons ta rest ih =>
    intro σ σ' h
    obtain ⟨t0, a0⟩ := ta
    simp only [List.cons_append, runSched] at h ⊢
    split at h
    · rename_i σ1 h1
      obtain ⟨σ2, e1, e2⟩ := ih σ1 σ' h
      exact ⟨σ2, e1, e2⟩
    · contradiction

/-- A step of goroutine `t` leaves the program counters of the others alone. -/
theorem pc_frame_step (P : Params Mem Job) (strict : Bool) (σ σ' : State Mem Job) (t t' : Tid) (a : Action Job)
    (hne : t' ≠ t) (h : step? P strict σ t a = some σ') : σ'.pc t' = σ.pc t' := by
  cases a <;> simp only [step?] at h <;> (repeat' split at h) <;> (try contradiction) <;>
    (cases h; first | rfl | simp [upd, hne])

theorem pc_frame_sched (P : Params Mem Job) (strict : Bool) (l : List (Tid × Action Job)) (t' : Tid) :
    ∀ (σ σ' : State Mem Job), (∀ ta ∈ l, ta.1 ≠ t') → runSched P strict σ l = some σ' → σ'.pc t' = σ.pc t' := by
  induction l with
  | nil => intro σ σ' _ h; simp only [runSched] at h; cases h; rfl
  | cons ta rest ih =>
    intro σ σ' hall h
    obtain ⟨t, a⟩ := ta
    simp only [runSched] at h
    split at h
    · rename_i σ1 h1
      rw [ih σ1 σ' (fun ta hta => hall ta (List.mem_cons_of_mem _ hta)) h]
      exact pc_frame_step P strict σ σ1 t t' a (Ne.symm (hall (t, a) (List.mem_cons_self ..))) h1
    · contradiction

theorem evSched_tid (P : Params Mem Job) (σ : State Mem Job) (e : HEv Job) : ∀ ta ∈ evSched P σ e, ta.1 = 0 := by
  intro ta hta
  cases e with
  | garble j s =>
    cases s <;> by_cases hp : σ.poolPtr.isNone = true <;>
    simp only [evSched, acquireSched, hp, if_true, List.mem_append, List.mem_cons, List.mem_replicate,
      List.not_mem_nil, or_false] at hta <;> grind
  | fail j k s =>
    cases s <;> by_cases hp : σ.poolPtr.isNone = true <;>
    simp only [evSched, acquireSched, hp, if_true, List.mem_append, List.mem_cons, List.mem_replicate,
      List.not_mem_nil, or_false] at hta <;> grind
  | eval h => simp only [evSched, List.mem_cons, List.not_mem_nil, or_false] at hta; subst hta; rfl
  | release h =>
    simp only [evSched] at hta
    (repeat' split at hta) <;> simp only [List.mem_cons, List.not_mem_nil, or_false] at hta <;> grind

/-- Every call of a history returns: the caller is idle afterwards. -/
theorem runEv_idle (P : Params Mem Job) (σ σ' : State Mem Job) (e : HEv Job)
    (h : runEvWith false P σ e = some σ') : σ'.pc 0 = .idle := by
  rw [runEv_eq_runSched] at h
  cases e with
  | garble j s =>
    simp only [evSched] at h
    obtain ⟨σ1, _, h2⟩ := runSched_snoc P true _ 0 .publish σ σ' h
    simp only [step?] at h2
    (repeat' split at h2) <;> (try contradiction)
    cases h2; simp [upd]
  | fail j k s =>
    simp only [evSched] at h
    obtain ⟨σ1, _, h2⟩ := runSched_snoc P true _ 0 .abort σ σ' h
    simp only [step?] at h2
    (repeat' split at h2) <;> (try contradiction)
    cases h2; simp [upd]
  | eval hh =>
    simp only [evSched, runSched] at h
    split at h
    · rename_i σ1 h1
      cases h
      simp only [step?] at h1
      (repeat' split at h1) <;> (try contradiction)
      cases h1; assumption
    · contradiction
  | release hh =>
    simp only [evSched] at h
    split at h
    · split at h
      · obtain ⟨σ1, _, h2⟩ := runSched_snoc P true [(0, .relBegin hh), (0, .relPut)] 0 .relClear σ σ' h
        simp only [step?] at h2
        (repeat' split at h2) <;> (try contradiction)
        cases h2; simp [upd]
      · simp only [runSched] at h
        split at h
        · rename_i σ1 h1
          cases h
          simp only [step?] at h1
          (repeat' split at h1) <;> (try contradiction) <;> (try (cases h1; assumption))
          all_goals simp_all
        · contradiction
    · simp only [runSched] at h
      split at h
      · rename_i σ1 h1
        cases h
        simp only [step?] at h1
        (repeat' split at h1) <;> (try contradiction) <;> simp_all
      · contradiction

/-- After a history every goroutine is idle (only the caller, goroutine 0, has moved, and each of its calls has returned). -/
theorem runHist_all_idle (P : Params Mem Job) (evs : List (HEv Job)) :
    ∀ (σ σ' : State Mem Job), (∀ t, σ.pc t = .idle) → runHist P σ evs = some σ' → ∀ t, σ'.pc t = .idle := by
  induction evs with
  | nil => intro σ σ' hid h; simp only [runHist, runHistWith] at h; cases h; exact hid
  | cons e es ih =>
    intro σ σ' hid h
    simp only [runHist, runHistWith] at h
    split at h
    · rename_i σ1 h1
      refine ih σ1 σ' ?_ h
      intro t
      by_cases ht : t = 0
      · subst ht; exact runEv_idle P σ σ1 e h1
      · rw [runEv_eq_runSched] at h1
        rw [pc_frame_sched P true _ t σ σ1 (fun ta hta => by rw [evSched_tid P σ e ta hta]; exact Ne.symm ht) h1]
        exact hid t
    · contradiction

/-- The writes of a call run one after the other. -/
theorem writes_run (P : Params Mem Job) (strict : Bool) (j : Job) (p : PoolId) (x : ScratchId) (m0 : Mem) (n : Nat) :
    ∀ (σ : State Mem Job) (i : Nat), σ.pc 0 = .gRun j p x m0 i → i + n ≤ (P.prog j).length →
      ∃ σ', runSched P strict σ (List.replicate n (0, Action.write)) = some σ' ∧
        σ'.pc 0 = .gRun j p x m0 (i + n) ∧ σ'.nHandles = σ.nHandles ∧ σ'.handle = σ.handle := by
  induction n with
  | zero => intro σ i hpc _; exact ⟨σ, rfl, hpc, rfl, rfl⟩
  | succ n ih =>
    intro σ i hpc hle
    have hlt : i < (P.prog j).length := by omega
    have hget : (P.prog j)[i]? = some ((P.prog j)[i]) := List.getElem?_eq_getElem hlt
    let σ1 : State Mem Job := { σ with mem := upd σ.mem x ((P.prog j)[i] (σ.mem x)),
                                        pc := upd σ.pc 0 (.gRun j p x m0 (i + 1)) }
    have hstep : step? P strict σ 0 .write = some σ1 := by
      simp only [step?, hpc, hget]; rfl
    obtain ⟨σ', e1, e2, e3, e4⟩ := ih σ1 (i + 1) (by simp [σ1, upd]) (by omega)
    refine ⟨σ', ?_, by rw [e2]; congr 1; omega, e3, e4⟩
    simp only [List.replicate_succ, runSched, hstep]
    exact e1

/-- From an idle caller in a state satisfying the ownership invariant the pool
lookup and `Get` (with the choice `pickFree`) run. -/
theorem acquire_run (P : Params Mem Job) (σ : State Mem Job) (j : Job) (hpc : σ.pc 0 = .idle) :
    ∃ σ1 p x m0, runSched P true σ (acquireSched σ j (pickFree σ)) = some σ1 ∧
      σ1.pc 0 = .gRun j p x m0 0 ∧ σ1.nHandles = σ.nHandles ∧ σ1.handle = σ.handle := by
  cases hp : σ.poolPtr with
  | none =>
    refine ⟨{ σ with poolPtr := some σ.nPools, nPools := σ.nPools + 1, nScratch := σ.nScratch + 1,
                     mem := upd σ.mem σ.nScratch P.fresh,
                     pc := upd σ.pc 0 (PC.gRun j σ.nPools σ.nScratch P.fresh 0) },
      σ.nPools, σ.nScratch, P.fresh, ?_, ?_, rfl, rfl⟩
    · simp [acquireSched, pickFree, hp, runSched, step?, hpc, upd]
    · simp [upd]
  | some p =>
    cases hf : σ.free p with
    | nil =>
      refine ⟨{ σ with nScratch := σ.nScratch + 1, mem := upd σ.mem σ.nScratch P.fresh,
                       pc := upd σ.pc 0 (PC.gRun j p σ.nScratch P.fresh 0) },
        p, σ.nScratch, P.fresh, ?_, ?_, rfl, rfl⟩
      · simp [acquireSched, pickFree, hp, hf, runSched, step?, hpc, upd]
      · simp [upd]
    | cons x rest =>
      refine ⟨{ σ with free := upd σ.free p rest, pc := upd σ.pc 0 (PC.gRun j p x (σ.mem x) 0) },
        p, x, σ.mem x, ?_, ?_, rfl, rfl⟩
      · simp [acquireSched, pickFree, hp, hf, runSched, step?, hpc, upd]
      · simp [upd]


theorem runHist_append (dbl : Bool) (P : Params Mem Job) (σ σ' : State Mem Job) (l l' : List (HEv Job))
    (h : runHistWith dbl P σ l = some σ') :
    runHistWith dbl P σ (l ++ l') = runHistWith dbl P σ' l' := by
  induction l generalizing σ with
  | nil => simp only [runHistWith] at h; cases h; rfl
  | cons e es ih =>
    simp only [runHistWith, List.cons_append] at h ⊢
    split at h
    · rename_i σ1 h1; exact ih σ1 h
    · contradiction

end Mpc.Pool

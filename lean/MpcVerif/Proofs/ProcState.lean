/-
C08 — lemmas about memoising facilities in the process state
(Model/ProcState.lean).
-/
import MpcVerif.Model.ProcState

namespace Mpc.PSt

variable {ρ κ ω ο : Type} [DecidableEq κ]

theorem lookup_mem {k : κ} {o : ω} : ∀ {t : Table κ ω}, lookup k t = some o → (k, o) ∈ t
  | [], h => by simp [lookup] at h
  | (k', o') :: t, h => by
    unfold lookup at h
    by_cases hk : k' = k
    · simp [hk] at h
      subst hk; subst h
      exact List.mem_cons_self
    · simp [hk] at h
      exact List.mem_cons_of_mem _ (lookup_mem h)

omit [DecidableEq κ] in
theorem sound_nil (F : Facility ρ κ ω ο) : Sound F ([] : Table κ ω) := by
  intro k o h; simp at h

/-- Serving a request keeps the table sound (whatever the capacity drops). -/
theorem serve_sound (F : Facility ρ κ ω ο) (cap : Nat) (t : Table κ ω) (r : ρ) (hs : Sound F t) :
    Sound F (serve F cap t r).2 := by
  unfold serve
  cases hl : lookup (F.key r) t with
  | some o => simpa using hs
  | none =>
    intro k o hm
    have hm' := List.mem_of_mem_take hm
    rcases List.mem_cons.mp hm' with h | h
    · exact ⟨r, by simp_all⟩
    · exact hs k o h

/-- With an object that is a function of the key, a sound table answers as the
uncached code does. -/
theorem serve_out (F : Facility ρ κ ω ο) (hf : Factors F) (cap : Nat) (t : Table κ ω) (r : ρ) (hs : Sound F t) :
    (serve F cap t r).1 = direct F r := by
  unfold serve direct
  cases hl : lookup (F.key r) t with
  | none => rfl
  | some o =>
    obtain ⟨r', hk, hb⟩ := hs _ _ (lookup_mem hl)
    have := hf r' r hk
    simp [← hb, this]

theorem compileMemo_sound (F : Facility ρ κ ω ο) (cap : Nat) : ∀ (reqs : List ρ) (t : Table κ ω),
    Sound F t → Sound F (compileMemo F cap reqs t).2
  | [], _, hs => hs
  | r :: rs, t, hs => by
    simp only [compileMemo]
    exact compileMemo_sound F cap rs _ (serve_sound F cap t r hs)

theorem compileMemo_out (F : Facility ρ κ ω ο) (hf : Factors F) (cap : Nat) : ∀ (reqs : List ρ) (t : Table κ ω),
    Sound F t → (compileMemo F cap reqs t).1 = reqs.map (direct F)
  | [], _, _ => rfl
  | r :: rs, t, hs => by
    simp only [compileMemo, List.map_cons]
    rw [serve_out F hf cap t r hs, compileMemo_out F hf cap rs _ (serve_sound F cap t r hs)]

theorem runMemoHistory_sound (F : Facility ρ κ ω ο) (cap : Nat) : ∀ (h : List (List ρ)) (t : Table κ ω),
    Sound F t → Sound F (runMemoHistory F cap h t)
  | [], _, hs => hs
  | reqs :: rest, t, hs => by
    simp only [runMemoHistory, List.foldl_cons]
    exact runMemoHistory_sound F cap rest _ (compileMemo_sound F cap reqs t hs)

/-- After the one-request history `[[a]]` a table of capacity ≥ 1 holds
exactly `a`'s object. -/
theorem table_after_one (F : Facility ρ κ ω ο) (cap : Nat) (hc : 1 ≤ cap) (a : ρ) :
    runMemoHistory F cap [[a]] [] = [(F.key a, F.build a)] := by
  obtain ⟨c, rfl⟩ : ∃ c, cap = c + 1 := ⟨cap - 1, by omega⟩
  simp [runMemoHistory, compileMemo, serve, lookup]

/-- The code as it is hands the process state on untouched. -/
theorem runHistory_stepNow {σ π : Type} : ∀ (h : List (Src × π)) (st : σ), runHistory (stepNow (σ := σ) (π := π)) st h = st
  | [], _ => rfl
  | _ :: rest, st => by
    simp only [runHistory, List.foldl_cons]
    exact runHistory_stepNow rest st

end Mpc.PSt

/-
Pure bit-level theory of the Kogge-Stone prefix network (C07): interval
generate / propagate signals and the doubling invariant.
-/
import MpcVerif.Proofs.BuildersBits

namespace Mpc.Bld

/-- Carry out of a block of bit pairs with carry-in `c`. -/
def carryOf : List (Bool × Bool) → Bool → Bool
  | [], c => c
  | (a, b) :: r, c => carryOf r (carry a b c)

/-- Block propagate: every position propagates. -/
def segP (l : List (Bool × Bool)) : Bool := l.all fun p => p.1 != p.2

theorem carryOf_append (l1 l2 : List (Bool × Bool)) (c : Bool) :
    carryOf (l1 ++ l2) c = carryOf l2 (carryOf l1 c) := by
  induction l1 generalizing c with
  | nil => rfl
  | cons p r ih => obtain ⟨a, b⟩ := p; simp [carryOf, ih]

theorem segP_append (l1 l2 : List (Bool × Bool)) : segP (l1 ++ l2) = (segP l1 && segP l2) := by
  simp [segP]

/-- Block carry = block generate ⊕ (block propagate ∧ carry-in). -/
theorem carryOf_eq (l : List (Bool × Bool)) (c : Bool) :
    carryOf l c = (carryOf l false != (segP l && c)) := by
  induction l generalizing c with
  | nil => simp [carryOf, segP]
  | cons p r ih =>
    obtain ⟨a, b⟩ := p
    simp only [carryOf, segP, List.all_cons]
    rw [ih (carry a b c), ih (carry a b false)]
    have : (r.all fun p => p.1 != p.2) = segP r := rfl
    rw [this]
    generalize carryOf r false = G
    generalize segP r = P
    cases a <;> cases b <;> cases c <;> cases G <;> cases P <;> rfl

/-- The last `min w (i+1)` bit pairs of the prefix `0..i`: the interval
`[max(0, i-w+1), i]`. -/
def seg (L : List (Bool × Bool)) (i w : Nat) : List (Bool × Bool) := (L.take (i + 1)).drop (i + 1 - w)

theorem take_drop_split {α : Type} (L : List α) (a b c : Nat) (hab : a ≤ b) (hbc : b ≤ c) (hc : c ≤ L.length) :
    (L.take c).drop a = (L.take b).drop a ++ (L.take c).drop b := by
  have h1 : L.take c = L.take b ++ (L.take c).drop b := by
    have := List.take_append_drop b (L.take c)
    rw [List.take_take, Nat.min_eq_left hbc] at this
    exact this.symm
  conv => lhs; rw [h1]
  rw [List.drop_append_of_le_length (by simp; omega)]

/-- Doubling: the interval of width `2w` ending at `i` is the interval of width
`w` ending at `i - w` followed by the interval of width `w` ending at `i`. -/
theorem seg_split (L : List (Bool × Bool)) (i w : Nat) (hw : w ≤ i) (hi : i < L.length) :
    seg L i (2 * w) = seg L (i - w) w ++ seg L i w := by
  simp only [seg]
  have e1 : i - w + 1 = i + 1 - w := by omega
  have e2 : i + 1 - w - w = i + 1 - 2 * w := by omega
  rw [e1, e2]
  exact take_drop_split L (i + 1 - 2 * w) (i + 1 - w) (i + 1) (by omega) (by omega) (by omega)

theorem seg_small (L : List (Bool × Bool)) (i w : Nat) (h : i + 1 ≤ w) : seg L i w = L.take (i + 1) := by
  simp only [seg]
  have : i + 1 - w = 0 := by omega
  rw [this]; rfl

/-- Value of the pair `(p, g)` of position `i` when it covers the interval of
width `w`; `c0` is the carry into position 0 (0 for the adder, 1 for the
subtractor) and enters the generate signal of the intervals that start at 0. -/
def ksVal (L : List (Bool × Bool)) (c0 : Bool) (w i : Nat) : Bool × Bool :=
  (segP (seg L i w), carryOf (seg L i w) (if i + 1 ≤ w then c0 else false))

/-- The prefix-network invariant: position `i` covers `[max(0,i-w+1), i]`. -/
def KSInv (L : List (Bool × Bool)) (c0 : Bool) (w : Nat) (pgv : List (Bool × Bool)) : Prop :=
  pgv.length = L.length ∧ ∀ i, i < L.length → pgv.getD i (false, false) = ksVal L c0 w i

/-- A black cell on values. -/
def cellV (q : (Bool × Bool) × (Bool × Bool)) : Bool × Bool :=
  (q.1.1 && q.2.1, q.1.2 != (q.1.1 && q.2.2))

/-- One stage on values. -/
def stageV (w : Nat) (pgv : List (Bool × Bool)) : List (Bool × Bool) :=
  pgv.take w ++ ((pgv.drop w).zip pgv).map cellV

theorem stageV_length (w : Nat) (pgv : List (Bool × Bool)) : (stageV w pgv).length = pgv.length := by
  simp [stageV]; omega

theorem stageV_getD (w : Nat) (pgv : List (Bool × Bool)) (i : Nat) (hi : i < pgv.length) (d : Bool × Bool) :
    (stageV w pgv).getD i d =
      if i < w then pgv.getD i d else cellV (pgv.getD i d, pgv.getD (i - w) d) := by
  simp only [stageV, List.getD_eq_getElem?_getD]
  by_cases h : i < w
  · rw [List.getElem?_append_left (by simp; omega)]
    simp [h, List.getElem?_take]
  · have hl : (pgv.take w).length = w := by simp; omega
    rw [List.getElem?_append_right (by simp; omega), hl]
    simp only [h, if_false]
    have h1 : i - w < ((pgv.drop w).zip pgv).length := by simp; omega
    rw [List.getElem?_map, List.getElem?_eq_getElem h1]
    simp only [List.getElem_zip, List.getElem_drop, Option.map_some, Option.getD_some]
    have e : w + (i - w) = i := by omega
    simp only [e]
    rw [List.getElem?_eq_getElem hi, List.getElem?_eq_getElem (by omega : i - w < pgv.length)]
    simp

/-- One stage doubles the width covered by every position. -/
theorem KSInv_step (L : List (Bool × Bool)) (c0 : Bool) (w : Nat) (pgv : List (Bool × Bool)) (hw : 1 ≤ w)
    (h : KSInv L c0 w pgv) : KSInv L c0 (2 * w) (stageV w pgv) := by
  refine ⟨by rw [stageV_length]; exact h.1, ?_⟩
  intro i hi
  rw [stageV_getD w pgv i (by rw [h.1]; exact hi)]
  by_cases hiw : i < w
  · simp only [hiw, if_true]
    rw [h.2 i hi]
    simp only [ksVal]
    rw [seg_small L i w (by omega), seg_small L i (2 * w) (by omega)]
    have h1 : i + 1 ≤ w := by omega
    have h2 : i + 1 ≤ 2 * w := by omega
    simp [h1, h2]
  · simp only [hiw, if_false]
    rw [h.2 i hi, h.2 (i - w) (by omega)]
    simp only [ksVal, cellV]
    rw [seg_split L i w (by omega) hi, segP_append, carryOf_append]
    have h1 : ¬ (i + 1 ≤ w) := by omega
    have h2 : (i - w + 1 ≤ w) ↔ (i + 1 ≤ 2 * w) := by omega
    simp only [h1, if_false]
    rw [carryOf_eq (seg L i w) (carryOf (seg L (i - w) w) _)]
    by_cases h3 : i + 1 ≤ 2 * w
    · have h4 : i - w + 1 ≤ w := h2.mpr h3
      simp only [h3, h4, if_true]
      rw [Bool.and_comm]
    · have h4 : ¬ (i - w + 1 ≤ w) := fun hh => h3 (h2.mp hh)
      simp only [h3, h4, if_false]
      rw [Bool.and_comm]

/-- `k` stages on values. -/
def stagesV : Nat → Nat → List (Bool × Bool) → List (Bool × Bool)
  | 0, _, pgv => pgv
  | k + 1, w, pgv => stagesV k (2 * w) (stageV w pgv)

theorem KSInv_stages (L : List (Bool × Bool)) (c0 : Bool) : ∀ (k w : Nat) (pgv : List (Bool × Bool)), 1 ≤ w →
    KSInv L c0 w pgv → KSInv L c0 (w * 2 ^ k) (stagesV k w pgv)
  | 0, w, pgv, _, h => by simpa [stagesV] using h
  | k + 1, w, pgv, hw, h => by
    have := KSInv_stages L c0 k (2 * w) (stageV w pgv) (by omega) (KSInv_step L c0 w pgv hw h)
    have e : 2 * w * 2 ^ k = w * 2 ^ (k + 1) := by rw [Nat.pow_succ]; grind
    rw [e] at this
    exact this

/-- When the covered width reaches the number of positions, the generate
signal of position `i` is the carry out of the positions `0..i`. -/
theorem KSInv_full (L : List (Bool × Bool)) (c0 : Bool) (w : Nat) (pgv : List (Bool × Bool))
    (h : KSInv L c0 w pgv) (hw : L.length ≤ w) (i : Nat) (hi : i < L.length) :
    (pgv.getD i (false, false)).2 = carryOf (L.take (i + 1)) c0 := by
  rw [h.2 i hi]
  simp only [ksVal]
  rw [seg_small L i w (by omega)]
  have : i + 1 ≤ w := by omega
  simp [this]

/-! ### sum bits from carries -/

/-- Carry into every position. -/
def carryIns : List (Bool × Bool) → Bool → List Bool
  | [], _ => []
  | (a, b) :: r, c => c :: carryIns r (carry a b c)

@[simp] theorem carryIns_length (L : List (Bool × Bool)) (c : Bool) : (carryIns L c).length = L.length := by
  induction L generalizing c with
  | nil => rfl
  | cons p r ih => obtain ⟨a, b⟩ := p; simp [carryIns, ih]

/-- Sum bit of a position from its operand bits and its carry-in. -/
def sumBit (p : Bool × Bool) (c : Bool) : Bool := (p.1 != p.2) != c

theorem addBits_take (L : List (Bool × Bool)) (c : Bool) :
    (addBits L c).take L.length = List.zipWith sumBit L (carryIns L c) := by
  induction L generalizing c with
  | nil => simp [addBits, carryIns]
  | cons p r ih =>
    obtain ⟨a, b⟩ := p
    simp [addBits, carryIns, ih, sumBit]

theorem carryIns_getD (L : List (Bool × Bool)) (c : Bool) (i : Nat) (hi : i < L.length) :
    (carryIns L c).getD i false = carryOf (L.take i) c := by
  induction L generalizing c i with
  | nil => simp at hi
  | cons p r ih =>
    obtain ⟨a, b⟩ := p
    cases i with
    | zero => simp [carryIns, carryOf]
    | succ i =>
      simp only [carryIns, List.getD_cons_succ, List.take_succ_cons, carryOf]
      exact ih (carry a b c) i (by simpa using hi)

theorem zipWith_congr_getD {α : Type} (f : α → Bool → Bool) : ∀ (L : List α) (cs cs' : List Bool),
    L.length ≤ cs.length → L.length ≤ cs'.length →
    (∀ i, i < L.length → cs.getD i false = cs'.getD i false) →
    List.zipWith f L cs = List.zipWith f L cs'
  | [], _, _, _, _, _ => by simp
  | _ :: _, [], _, h, _, _ => by simp at h
  | _ :: _, _ :: _, [], _, h, _ => by simp at h
  | x :: L, c :: cs, c' :: cs', h1, h2, h => by
    have h0 := h 0 (by simp)
    simp only [List.getD_cons_zero] at h0
    simp only [List.zipWith_cons_cons, h0, List.cons.injEq, true_and]
    apply zipWith_congr_getD f L cs cs' (by simpa using h1) (by simpa using h2)
    intro i hi
    have := h (i + 1) (by simpa using hi)
    simpa using this

/-- The sum bits computed from the final generate signals are the low bits of
the sum. -/
theorem sumBits_of_gens (L : List (Bool × Bool)) (c0 : Bool) (gs : List Bool) (hl : gs.length = L.length)
    (hg : ∀ i, i < L.length → gs.getD i false = carryOf (L.take (i + 1)) c0) :
    List.zipWith sumBit L (c0 :: gs) = (addBits L c0).take L.length := by
  rw [addBits_take]
  apply zipWith_congr_getD
  · simp; omega
  · simp
  · intro i hi
    rw [carryIns_getD L c0 i hi]
    cases i with
    | zero => simp [carryOf]
    | succ i => simp only [List.getD_cons_succ]; exact hg i (by omega)

/-! ### two's complement subtraction on bit lists -/

theorem toNat_not (ys : List Bool) : toNat (ys.map (!·)) + toNat ys + 1 = 2 ^ ys.length := by
  induction ys with
  | nil => simp
  | cons y r ih =>
    simp only [List.map_cons, toNat_cons, List.length_cons, Nat.pow_succ]
    cases y <;> simp <;> omega

end Mpc.Bld

/-
Helper lemmas for property C07: OPERAND SHAPES (Model/BuildersOpnd.lean).

An operand bus handed to a builder is a concatenation of slices of known buses
and of the Compiler's constant wires.  `mkOperand_spec`: making such an operand
from any well-formed state extends the state (the constant wires may be
created), delivers existing wires, and their values are `opndVal` of the values
of the known buses: the constants carry `false` / `true`, a repeated wire carries
its value at every occurrence.

Since every `_spec` lemma of Proofs/Builders*.lean asks of its operands only
`Bnd s x` (the wires exist) and speaks about `busVal s inp x` (the values they
carry), it applies to such operands unchanged: `SCall.shaped2_sound`,
`SCall.shaped3_sound` turn a builder specification in that form into a sound
call of a history whose operands are shaped.
-/
import MpcVerif.Model.BuildersOpnd
import MpcVerif.Proofs.BuildersHist

namespace Mpc.Bld
open Mpc

theorem ones_spec {s : St} {inp : List Bool} (hwf : WF s inp) (n : Nat) :
    Spec inp s (if n = 0 then (pure [] : BM (List Nat)) else do
        let o ← oneWire
        pure (List.replicate n o))
      (fun z s' => Bnd s' z ∧ busVal s' inp z = List.replicate n true) := by
  split
  · next h => subst h; exact Spec.pure hwf ⟨Bnd.nil s, rfl⟩
  · refine Spec.bind (oneWire_spec hwf) ?_
    intro o s1 e1 ho
    refine Spec.pure e1.wf ⟨Bnd.replicate ho.1 n, ?_⟩
    rw [busVal_replicate, ho.2]

theorem mkPiece_spec {s : St} {inp : List Bool} {acc : List (List Nat)} (hwf : WF s inp) (hb : BndAll s acc)
    (p : Piece) :
    Spec inp s (mkPiece acc p) (fun w s' => Bnd s' w ∧ busVal s' inp w = pieceVal (busVals s inp acc) p) := by
  cases p with
  | bus k lo len =>
    simp only [mkPiece, pieceVal]
    exact Spec.pure hwf ⟨pick_bnd hb k lo len, by rw [pick_val]; rfl⟩
  | zeros n =>
    simp only [mkPiece, pieceVal]
    exact zeros_spec hwf n
  | ones n =>
    simp only [mkPiece, pieceVal]
    exact ones_spec hwf n

/-- Making a shaped operand: from ANY well-formed state in which the known buses
exist, the operand wires exist afterwards and carry `opndVal` of the bus values
(the state is only extended: no earlier wire changes its value). -/
theorem mkOperand_spec {inp : List Bool} {acc : List (List Nat)} : ∀ (ps : List Piece) {s : St},
    WF s inp → BndAll s acc →
    Spec inp s (mkOperand acc ps) (fun w s' => Bnd s' w ∧ busVal s' inp w = opndVal (busVals s inp acc) ps)
  | [], s, hwf, _ => by
    simp only [mkOperand, opndVal]
    exact Spec.pure hwf ⟨Bnd.nil s, rfl⟩
  | p :: ps, s, hwf, hb => by
    simp only [mkOperand, opndVal]
    refine Spec.bind (mkPiece_spec hwf hb p) ?_
    intro a s1 e1 ⟨hab, hav⟩
    refine Spec.bind (mkOperand_spec ps e1.wf (hb.mono e1)) ?_
    intro r s2 e2 ⟨hrb, hrv⟩
    refine Spec.pure e2.wf ⟨(hab.mono e2).append hrb, ?_⟩
    rw [busVal_append, busVal_ext e2 hab, hav, hrv, busVals_ext e1 hb]

theorem pieceVal_length (v : List (List Bool)) : ∀ (p : Piece), (pieceVal v p).length =
    match p with
    | .bus k lo len => min len ((v.getD k []).length - lo)
    | .zeros n => n
    | .ones n => n
  | .bus k lo len => by simp [pieceVal]
  | .zeros n => by simp [pieceVal]
  | .ones n => by simp [pieceVal]

/-- A two-operand builder applied to SHAPED operands, with a precondition and a
postcondition on the operand VALUES. -/
def SCall.shaped2 (b : List Nat → List Nat → BM (List Nat)) (px py : List Piece)
    (pre : List Bool → List Bool → Prop) (post : List Bool → List Bool → List Bool → Prop) : SCall :=
  { call := shapedCall2 b px py
    pre := fun v => pre (opndVal v px) (opndVal v py)
    post := fun v z => post (opndVal v px) (opndVal v py) z }

/-- A builder specification in the form used throughout (from any well-formed
state, operands ANY existing wires) makes the call on shaped operands sound:
constant wires, repeated wires and a bus used twice are existing wires like any
other. -/
theorem SCall.shaped2_sound {inp : List Bool} {b : List Nat → List Nat → BM (List Nat)} (px py : List Piece)
    {pre : List Bool → List Bool → Prop} {post : List Bool → List Bool → List Bool → Prop}
    (hb : ∀ (s : St) (xw yw : List Nat), WF s inp → Bnd s xw → Bnd s yw → pre (busVal s inp xw) (busVal s inp yw) →
      Spec inp s (b xw yw) (fun z s' => Bnd s' z ∧ post (busVal s inp xw) (busVal s inp yw) (busVal s' inp z))) :
    (SCall.shaped2 b px py pre post).Sound inp := by
  intro s acc hwf hba hpre
  simp only [SCall.shaped2, shapedCall2] at hpre ⊢
  refine Spec.bind (mkOperand_spec px hwf hba) ?_
  intro x s1 e1 ⟨hxb, hxv⟩
  refine Spec.bind (mkOperand_spec py e1.wf (hba.mono e1)) ?_
  intro y s2 e2 ⟨hyb, hyv⟩
  have hxv2 : busVal s2 inp x = opndVal (busVals s inp acc) px := by rw [busVal_ext e2 hxb, hxv]
  have hyv2 : busVal s2 inp y = opndVal (busVals s inp acc) py := by rw [hyv, busVals_ext e1 hba]
  refine (hb s2 x y e2.wf (hxb.mono e2) hyb (by rw [hxv2, hyv2]; exact hpre)).mono ?_
  intro z s3 _ ⟨hz, hp⟩
  rw [hxv2, hyv2] at hp
  exact ⟨hz, hp⟩

/-- Three shaped operands (the multiplexer: true value, false value, condition). -/
def SCall.shaped3 (b : List Nat → List Nat → List Nat → BM (List Nat)) (px py pw : List Piece)
    (pre : List Bool → List Bool → List Bool → Prop)
    (post : List Bool → List Bool → List Bool → List Bool → Prop) : SCall :=
  { call := shapedCall3 b px py pw
    pre := fun v => pre (opndVal v px) (opndVal v py) (opndVal v pw)
    post := fun v z => post (opndVal v px) (opndVal v py) (opndVal v pw) z }

theorem SCall.shaped3_sound {inp : List Bool} {b : List Nat → List Nat → List Nat → BM (List Nat)}
    (px py pw : List Piece)
    {pre : List Bool → List Bool → List Bool → Prop}
    {post : List Bool → List Bool → List Bool → List Bool → Prop}
    (hb : ∀ (s : St) (xw yw ww : List Nat), WF s inp → Bnd s xw → Bnd s yw → Bnd s ww →
      pre (busVal s inp xw) (busVal s inp yw) (busVal s inp ww) →
      Spec inp s (b xw yw ww) (fun z s' => Bnd s' z ∧
        post (busVal s inp xw) (busVal s inp yw) (busVal s inp ww) (busVal s' inp z))) :
    (SCall.shaped3 b px py pw pre post).Sound inp := by
  intro s acc hwf hba hpre
  simp only [SCall.shaped3, shapedCall3] at hpre ⊢
  refine Spec.bind (mkOperand_spec px hwf hba) ?_
  intro x s1 e1 ⟨hxb, hxv⟩
  refine Spec.bind (mkOperand_spec py e1.wf (hba.mono e1)) ?_
  intro y s2 e2 ⟨hyb, hyv⟩
  refine Spec.bind (mkOperand_spec pw e2.wf ((hba.mono e1).mono e2)) ?_
  intro w s3 e3 ⟨hwb, hwv⟩
  have hxv3 : busVal s3 inp x = opndVal (busVals s inp acc) px := by
    rw [busVal_ext e3 (hxb.mono e2), busVal_ext e2 hxb, hxv]
  have hyv3 : busVal s3 inp y = opndVal (busVals s inp acc) py := by
    rw [busVal_ext e3 hyb, hyv, busVals_ext e1 hba]
  have hwv3 : busVal s3 inp w = opndVal (busVals s inp acc) pw := by
    rw [hwv, busVals_ext e2 (hba.mono e1), busVals_ext e1 hba]
  refine (hb s3 x y w e3.wf ((hxb.mono e2).mono e3) (hyb.mono e3) hwb
    (by rw [hxv3, hyv3, hwv3]; exact hpre)).mono ?_
  intro z s4 _ ⟨hz, hp⟩
  rw [hxv3, hyv3, hwv3] at hp
  exact ⟨hz, hp⟩

/-! ### values of the operand shapes the compiler produces -/

/-- Value of the constant pieces: the low `n` bits of `c`. -/
theorem opndVal_constPieces (v : List (List Bool)) : ∀ (n c : Nat), opndVal v (constPieces n c) = ofNat n c
  | 0, _ => rfl
  | n + 1, c => by
    simp only [constPieces, opndVal, ofNat]
    rw [opndVal_constPieces v n (c / 2)]
    by_cases h : c % 2 = 1
    · simp [h, pieceVal]
    · simp [h, pieceVal]

theorem toNat_ofNat : ∀ (n c : Nat), toNat (ofNat n c) = c % 2 ^ n
  | 0, c => by simp [ofNat, Nat.mod_one]
  | n + 1, c => by
    simp only [ofNat, toNat, toNat_ofNat n (c / 2)]
    have h2 : c % 2 ^ (n + 1) = c % 2 + 2 * ((c / 2) % 2 ^ n) := by
      rw [Nat.pow_succ, Nat.mul_comm, Nat.mod_mul]
    rw [h2]
    rcases Nat.mod_two_eq_zero_or_one c with h | h <;> simp [h]

/-- Value of a zero extension: the value of the extended slice. -/
theorem toNat_opndVal_zext (v : List (List Bool)) (k len n : Nat) :
    toNat (opndVal v (zextPieces k len n)) = toNat (((v.getD k []).drop 0).take len) := by
  simp only [zextPieces, opndVal, pieceVal, List.append_nil]
  rw [toNat_append_zeros]

/-! ### builder calls on shaped operands used by Props/C07.lean -/

/-- `NewEqComparator` on shaped operands. -/
def eqShaped (px py : List Piece) : SCall :=
  SCall.shaped2 eqComparator px py (fun xv yv => 0 < max xv.length yv.length)
    (fun xv yv z => z = [decide (toNat xv = toNat yv)])

theorem eqShaped_sound (inp : List Bool) (px py : List Piece) : (eqShaped px py).Sound inp := by
  refine SCall.shaped2_sound px py ?_
  intro s xw yw hwf hx hy hne
  exact eqComparator_spec hwf hx hy (by simpa using hne)

/-- `NewNeqComparator` on shaped operands. -/
def neqShaped (px py : List Piece) : SCall :=
  SCall.shaped2 neqComparator px py (fun xv yv => 0 < max xv.length yv.length)
    (fun xv yv z => z = [decide (toNat xv ≠ toNat yv)])

theorem neqShaped_sound (inp : List Bool) (px py : List Piece) : (neqShaped px py).Sound inp := by
  refine SCall.shaped2_sound px py ?_
  intro s xw yw hwf hx hy hne
  exact neqComparator_spec hwf hx hy (by simpa using hne)

/-- `NewUint{Gt,Ge,Lt,Le}Comparator` on shaped operands. -/
def ucmpShaped (k : CmpKind) (px py : List Piece) : SCall :=
  SCall.shaped2 (comparator false k) px py (fun _ _ => True)
    (fun xv yv z => z = [k.relNat (toNat xv) (toNat yv)])

theorem ucmpShaped_sound (inp : List Bool) (k : CmpKind) (px py : List Piece) : (ucmpShaped k px py).Sound inp := by
  refine SCall.shaped2_sound px py ?_
  intro s xw yw hwf hx hy _
  exact ucomparator_spec hwf k hx hy

/-- `NewAdder` (Yao target) on shaped operands. -/
def adderShaped (nz : Nat) (px py : List Piece) : SCall :=
  SCall.shaped2 (fun a b => rippleAdder a b nz) px py (fun xv yv => 0 < max xv.length yv.length ∧ 0 < nz)
    (fun xv yv z => z.length = nz ∧ toNat z = (toNat xv + toNat yv) % 2 ^ nz)

theorem adderShaped_sound (inp : List Bool) (nz : Nat) (px py : List Piece) : (adderShaped nz px py).Sound inp := by
  refine SCall.shaped2_sound px py ?_
  intro s xw yw hwf hx hy ⟨hne, hnz⟩
  refine (rippleAdder_spec hwf nz hx hy (by simpa using hne) hnz).mono ?_
  intro z s' _ ⟨hb, hl, hv⟩
  exact ⟨hb, by simpa using hl, hv⟩

/-! ### a concrete well-formed state for the non-vacuity examples of Props/C07.lean

Two input wires (0, 1) and the constant-wire prologue: wire 2 = INV(input 0),
wire 3 = the zero wire, wire 4 = the one wire. -/

theorem exSt_wf : WF (initSt 2 true) [true, false] := (initSt_ext (inp := [true, false]) rfl (by decide) true).wf

theorem exSt_bnd (ws : List Nat) (h : ws.all (· < 5) = true) : Bnd (initSt 2 true) ws := by
  intro w hw
  have := List.all_eq_true.mp h w hw
  have hn : (initSt 2 true).next = 5 := by decide
  rw [hn]; simpa using this

end Mpc.Bld

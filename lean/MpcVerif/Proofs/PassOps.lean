/-
C09, pass models: effect of the primitive graph updates on gates, wires,
well-formedness and solutions.
-/
import MpcVerif.Proofs.PassGraph

set_option linter.unusedSimpArgs false
set_option linter.unusedVariables false

namespace Mpc

theorem getD_modify {α : Type} (a : Array α) (i j : Nat) (f : α → α) (d : α) :
    (a.modify i f).getD j d = if j = i ∧ i < a.size then f (a.getD i d) else a.getD j d := by
  simp only [Array.getD_eq_getD_getElem?, Array.getElem?_modify]
  by_cases hij : i = j
  · subst hij
    by_cases hi : i < a.size
    · simp [hi]
    · simp [hi]
  · have : ¬ (j = i ∧ i < a.size) := fun h => hij h.1.symm
    simp [hij, this]

namespace Graph

/-- `G'` differs from `G` only in wire bookkeeping (values, counts, lists). -/
structure SameGates (G G' : Graph) : Prop where
  gates : G'.gates = G.gates
  wsize : G'.wires.size = G.wires.size
  nIn : G'.nIn = G.nIn
  zero : G'.zero = G.zero
  one : G'.one = G.one
  outputs : G'.outputs = G.outputs

theorem SameGates.refl (G : Graph) : SameGates G G := ⟨rfl, rfl, rfl, rfl, rfl, rfl⟩

theorem SameGates.trans {G G' G'' : Graph} (h : SameGates G G') (h' : SameGates G' G'') : SameGates G G'' :=
  ⟨h'.gates.trans h.gates, h'.wsize.trans h.wsize, h'.nIn.trans h.nIn, h'.zero.trans h.zero,
    h'.one.trans h.one, h'.outputs.trans h.outputs⟩

theorem SameGates.gate {G G' : Graph} (h : SameGates G G') (i : Nat) : G'.gate i = G.gate i := by
  simp [Graph.gate, h.gates]

theorem SameGates.live {G G' : Graph} (h : SameGates G G') (i : Nat) : G'.live i ↔ G.live i := by
  simp [Graph.live, h.gate, h.gates]

theorem SameGates.gwf {G G' : Graph} (h : SameGates G G') (hw : G.GWF) : G'.GWF := by
  refine ⟨by rw [h.nIn, h.wsize]; exact hw.nin, fun i hi => ?_, fun i j hi hj ho => ?_, fun i j hij hi hj => ?_⟩
  · rw [h.gate, h.nIn, h.wsize]; exact hw.obound i ((h.live i).mp hi)
  · rw [h.gate, h.gate] at ho; exact hw.odist i j ((h.live i).mp hi) ((h.live j).mp hj) ho
  · rw [h.gate, h.gate]; exact hw.topo i j hij ((h.live i).mp hi) ((h.live j).mp hj)

theorem SameGates.gsol {G G' : Graph} (h : SameGates G G') {x : List Bool} {s : Store Bool}
    (hs : G.GSol x s) : G'.GSol x s := by
  refine ⟨by rw [h.wsize]; exact hs.size, fun w hw => ?_, fun i hi => ?_, fun w hw hno => ?_⟩
  · rw [h.nIn] at hw ⊢; exact hs.inp w hw
  · rw [h.gate]; exact hs.sem i ((h.live i).mp hi)
  · rw [h.nIn] at hw
    exact hs.undef w hw (fun i hi => by have := hno i ((h.live i).mpr hi); rwa [h.gate] at this)

theorem sameGates_setValue (G : Graph) (w : Nat) (v : WVal) : SameGates G (G.setValue w v) :=
  ⟨rfl, by simp [setValue], rfl, rfl, rfl, rfl⟩

theorem sameGates_addOutput (G : Graph) (w g : Nat) : SameGates G (G.addOutput w g) :=
  ⟨rfl, by simp [addOutput], rfl, rfl, rfl, rfl⟩

theorem sameGates_disconnect (G : Graph) (w : Nat) : SameGates G (G.disconnectOutputs w) :=
  ⟨rfl, by simp [disconnectOutputs], rfl, rfl, rfl, rfl⟩

theorem sameGates_removeOutput {G G' : Graph} {w : Nat} (h : G.removeOutput w = some G') : SameGates G G' := by
  unfold removeOutput at h
  split at h
  · simp at h
  · simp only [Option.some.injEq] at h
    subst h
    exact ⟨rfl, by simp, rfl, rfl, rfl, rfl⟩

/-! values under the bookkeeping updates -/

theorem wval_setValue (G : Graph) (w w' : Nat) (v : WVal) :
    (G.setValue w v).wval w' = if w' = w ∧ w < G.wires.size then v else G.wval w' := by
  simp only [wval, wire, setValue, getD_modify]
  split <;> rfl

theorem wval_addOutput (G : Graph) (w g w' : Nat) : (G.addOutput w g).wval w' = G.wval w' := by
  simp only [wval, wire, addOutput, getD_modify]
  split
  · rename_i h; rw [h.1]
  · rfl

theorem wval_disconnect (G : Graph) (w w' : Nat) : (G.disconnectOutputs w).wval w' = G.wval w' := by
  simp only [wval, wire, disconnectOutputs, getD_modify]
  split
  · rename_i h; rw [h.1]
  · rfl

theorem wval_removeOutput {G G' : Graph} {w : Nat} (h : G.removeOutput w = some G') (w' : Nat) :
    G'.wval w' = G.wval w' := by
  unfold removeOutput at h
  split at h
  · simp at h
  · simp only [Option.some.injEq] at h
    subst h
    simp only [wval, wire, getD_modify]
    split
    · rename_i h; rw [h.1]
    · rfl

/-! operand updates -/

theorem gate_setA (G : Graph) (i w j : Nat) :
    (G.setA i w).gate j = if j = i ∧ i < G.gates.size then { G.gate i with a := w } else G.gate j := by
  simp only [gate, setA, getD_modify]

theorem gate_setB (G : Graph) (i w j : Nat) :
    (G.setB i w).gate j = if j = i ∧ i < G.gates.size then { G.gate i with b := w } else G.gate j := by
  simp only [gate, setB, getD_modify]

theorem wval_setA (G : Graph) (i w w' : Nat) : (G.setA i w).wval w' = G.wval w' := rfl
theorem wval_setB (G : Graph) (i w w' : Nat) : (G.setB i w).wval w' = G.wval w' := rfl

theorem dead_setA (G : Graph) (i w j : Nat) : ((G.setA i w).gate j).dead = (G.gate j).dead := by
  rw [gate_setA]; split
  · rename_i h; rw [h.1]
  · rfl

theorem dead_setB (G : Graph) (i w j : Nat) : ((G.setB i w).gate j).dead = (G.gate j).dead := by
  rw [gate_setB]; split
  · rename_i h; rw [h.1]
  · rfl

theorem size_setA (G : Graph) (i w : Nat) : (G.setA i w).gates.size = G.gates.size := by simp [setA]
theorem size_setB (G : Graph) (i w : Nat) : (G.setB i w).gates.size = G.gates.size := by simp [setB]

theorem live_setA (G : Graph) (i w j : Nat) : (G.setA i w).live j ↔ G.live j := by
  unfold live; rw [dead_setA, size_setA]

theorem live_setB (G : Graph) (i w j : Nat) : (G.setB i w).live j ↔ G.live j := by
  unfold live; rw [dead_setB, size_setB]

/-- Rewiring input A of gate `i` to a wire that no gate at position `≥ i`
writes keeps the graph well-formed. -/
theorem gwf_setA {G : Graph} (hw : G.GWF) (i w : Nat)
    (hnew : ∀ j, i ≤ j → G.live j → (G.gate j).o ≠ w) : (G.setA i w).GWF := by
  refine ⟨hw.nin, fun k hk => ?_, fun k j hk hj ho => ?_, fun k j hkj hk hj => ?_⟩
  · rw [live_setA] at hk
    have := hw.obound k hk
    rw [gate_setA]; split
    · rename_i h; rw [h.1] at this; exact this
    · exact this
  · rw [live_setA] at hk hj
    have e : ∀ m, ((G.setA i w).gate m).o = (G.gate m).o := by
      intro m; rw [gate_setA]; split
      · rename_i h; rw [h.1]
      · rfl
    rw [e, e] at ho
    exact hw.odist k j hk hj ho
  · rw [live_setA] at hk hj
    have e : ∀ m, ((G.setA i w).gate m).o = (G.gate m).o := by
      intro m; rw [gate_setA]; split
      · rename_i h; rw [h.1]
      · rfl
    rw [e]
    have ht := hw.topo k j hkj hk hj
    rw [gate_setA]; split
    · rename_i h
      obtain ⟨rfl, _⟩ := h
      exact ⟨hnew j hkj hj, ht.2⟩
    · exact ht

theorem gwf_setB {G : Graph} (hw : G.GWF) (i w : Nat)
    (hnew : ∀ j, i ≤ j → G.live j → (G.gate j).o ≠ w) : (G.setB i w).GWF := by
  refine ⟨hw.nin, fun k hk => ?_, fun k j hk hj ho => ?_, fun k j hkj hk hj => ?_⟩
  · rw [live_setB] at hk
    have := hw.obound k hk
    rw [gate_setB]; split
    · rename_i h; rw [h.1] at this; exact this
    · exact this
  · rw [live_setB] at hk hj
    have e : ∀ m, ((G.setB i w).gate m).o = (G.gate m).o := by
      intro m; rw [gate_setB]; split
      · rename_i h; rw [h.1]
      · rfl
    rw [e, e] at ho
    exact hw.odist k j hk hj ho
  · rw [live_setB] at hk hj
    have e : ∀ m, ((G.setB i w).gate m).o = (G.gate m).o := by
      intro m; rw [gate_setB]; split
      · rename_i h; rw [h.1]
      · rfl
    rw [e]
    have ht := hw.topo k j hkj hk hj
    rw [gate_setB]; split
    · rename_i h
      obtain ⟨rfl, _⟩ := h
      exact ⟨ht.1, fun _ => hnew j hkj hj⟩
    · exact ht

/-- Rewiring input A of gate `i` to a wire with the same value keeps `s` a solution. -/
theorem gsol_setA {G : Graph} {x : List Bool} {s : Store Bool} (hs : G.GSol x s) (i w : Nat)
    (hval : s.get w = s.get (G.gate i).a) : (G.setA i w).GSol x s := by
  refine ⟨hs.size, hs.inp, fun k hk => ?_, fun w' hw' hno => ?_⟩
  · rw [live_setA] at hk
    have := hs.sem k hk
    rw [gate_setA]; split
    · rename_i h
      obtain ⟨rfl, _⟩ := h
      simp only [gateEq] at this ⊢
      rw [hval]; exact this
    · exact this
  · refine hs.undef w' hw' (fun k hk => ?_)
    have := hno k ((live_setA G i w k).mpr hk)
    rw [gate_setA] at this; split at this
    · rename_i h; rw [h.1]; exact this
    · exact this

theorem gsol_setB {G : Graph} {x : List Bool} {s : Store Bool} (hs : G.GSol x s) (i w : Nat)
    (hval : s.get w = s.get (G.gate i).b) : (G.setB i w).GSol x s := by
  refine ⟨hs.size, hs.inp, fun k hk => ?_, fun w' hw' hno => ?_⟩
  · rw [live_setB] at hk
    have := hs.sem k hk
    rw [gate_setB]; split
    · rename_i h
      obtain ⟨rfl, _⟩ := h
      simp only [gateEq] at this ⊢
      rw [hval]; exact this
    · exact this
  · refine hs.undef w' hw' (fun k hk => ?_)
    have := hno k ((live_setB G i w k).mpr hk)
    rw [gate_setB] at this; split at this
    · rename_i h; rw [h.1]; exact this
    · exact this

end Graph
end Mpc

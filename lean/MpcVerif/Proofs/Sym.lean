/-
Symbolic (free-hash) label algebra for C04 and the linear functional that
kills the evaluator's view.  Proof-only (nothing here is executed), core Lean.

A symbolic label is a formal GF(2)-combination of atoms (as its indicator
function) together with its select bit:
  atoms:  R | inp i | h1 t c | h2 t c1 c2
where `c = code x` is a code of the hash argument.  Equal queries give equal
atoms (that is what makes tweak reuse visible); the theorems hold for EVERY
code function that separates `x` from `x ⊕ R` (`Separates`), i.e. for every
hash model in this family, from the coarsest (code = "contains R") to
arbitrarily fine ones.
-/
import MpcVerif.Proofs.Garble

namespace Mpc.Sym
open Mpc LabelAlg

inductive Atom (Code : Type) where
  | R
  | inp (i : Nat)
  | h1 (t : Nat) (c : Code)
  | h2 (t : Nat) (c1 c2 : Code)

/-- Symbolic label: indicator of its atoms, and its select bit. -/
structure SymL (Code : Type) where
  f : Atom Code → Bool
  s : Bool

variable {Code : Type}

@[ext] theorem SymL.ext' {x y : SymL Code} (hf : ∀ a, x.f a = y.f a) (hs : x.s = y.s) : x = y := by
  cases x; cases y
  simp only [SymL.mk.injEq]
  exact ⟨funext hf, hs⟩

instance : LabelAlg (SymL Code) where
  default := ⟨fun _ => false, false⟩
  xor a b := ⟨fun x => a.f x != b.f x, a.s != b.s⟩
  zero := ⟨fun _ => false, false⟩
  sbit a := a.s
  xor_assoc := by
    intro a b c
    apply SymL.ext' <;> intros <;> simp only <;>
      (first | (cases a.f _ <;> cases b.f _ <;> cases c.f _ <;> rfl)
             | (cases a.s <;> cases b.s <;> cases c.s <;> rfl))
  xor_comm := by
    intro a b
    apply SymL.ext' <;> intros <;> simp only <;>
      (first | (cases a.f _ <;> cases b.f _ <;> rfl) | (cases a.s <;> cases b.s <;> rfl))
  xor_self := by
    intro a
    apply SymL.ext' <;> intros <;> simp
  xor_zero := by
    intro a
    apply SymL.ext' <;> intros <;> simp
  sbit_xor := by intro a b; rfl
  default_eq := rfl

theorem xor_f (x y : SymL Code) (a : Atom Code) : (x ^^^ y).f a = (x.f a != y.f a) := rfl
theorem zero_f (a : Atom Code) : (LabelAlg.zero : SymL Code).f a = false := rfl

open Classical in
/-- The label consisting of the single atom `a`, with select bit `σ a`. -/
noncomputable def atom (σ : Atom Code → Bool) (a : Atom Code) : SymL Code :=
  ⟨fun b => decide (b = a), σ a⟩

open Classical in
theorem atom_f (σ : Atom Code → Bool) (a b : Atom Code) : (atom σ a).f b = decide (b = a) := rfl

/-- The hash model: a query is answered by the atom named by the tweak and
the code of the argument(s). -/
noncomputable def symHash (σ : Atom Code → Bool) (code : SymL Code → Code) : Hash (SymL Code) where
  h1 x t := atom σ (.h1 t (code x))
  h2 a b t := atom σ (.h2 t (code a) (code b))

/-- The secret offset as a symbolic label. -/
noncomputable def symR (σ : Atom Code → Bool) : SymL Code := atom σ .R

/-- `code` tells a label from the same label with the offset added. -/
def Separates (σ : Atom Code → Bool) (code : SymL Code → Code) : Prop :=
  ∀ x, code x ≠ code (x ^^^ symR σ)

/-! ### Linear functionals given by a finite list of atoms -/

/-- `phi S x` = parity of the number of atoms of `S` (with multiplicity)
occurring in `x`.  Additive in `x`; ignores the select bit. -/
def phi (S : List (Atom Code)) (x : SymL Code) : Bool :=
  S.foldr (fun a acc => x.f a != acc) false

@[simp] theorem phi_nil (x : SymL Code) : phi [] x = false := rfl
@[simp] theorem phi_cons (a : Atom Code) (S : List (Atom Code)) (x : SymL Code) :
    phi (a :: S) x = (x.f a != phi S x) := rfl

theorem phi_append (S T : List (Atom Code)) (x : SymL Code) :
    phi (S ++ T) x = (phi S x != phi T x) := by
  induction S with
  | nil => simp
  | cons a S ih =>
    simp only [List.cons_append, phi_cons, ih]
    cases x.f a <;> cases phi S x <;> cases phi T x <;> rfl

theorem phi_xor (S : List (Atom Code)) (x y : SymL Code) :
    phi S (x ^^^ y) = (phi S x != phi S y) := by
  induction S with
  | nil => simp
  | cons a S ih =>
    simp only [phi_cons, ih, xor_f]
    cases x.f a <;> cases y.f a <;> cases phi S x <;> cases phi S y <;> rfl

@[simp] theorem phi_zero (S : List (Atom Code)) : phi S (LabelAlg.zero : SymL Code) = false := by
  induction S with
  | nil => rfl
  | cons a S ih => simp [ih, zero_f]

/-- A functional with `phi S r = true` that vanishes on a set of labels
separates `r` from their span. -/
inductive InSpan (T : SymL Code → Prop) : SymL Code → Prop where
  | zero : InSpan T LabelAlg.zero
  | mem {x} : T x → InSpan T x
  | xor {x y} : InSpan T x → InSpan T y → InSpan T (x ^^^ y)

theorem phi_span (S : List (Atom Code)) (T : SymL Code → Prop) (hT : ∀ x, T x → phi S x = false)
    (x : SymL Code) (hx : InSpan T x) : phi S x = false := by
  induction hx with
  | zero => simp
  | mem h => exact hT _ h
  | xor _ _ ih1 ih2 => rw [phi_xor, ih1, ih2]; rfl

/-! ### Tweak bounds -/

/-- Tweak of a hash atom (`none` for `R` and input atoms). -/
def Atom.tweak : Atom Code → Option Nat
  | .R => none
  | .inp _ => none
  | .h1 t _ => some t
  | .h2 t _ _ => some t

/-- All hash atoms occurring in `x` have tweak `< n`. -/
def Below (n : Nat) (x : SymL Code) : Prop :=
  ∀ a t, a.tweak = some t → n ≤ t → x.f a = false

theorem Below.xor {n : Nat} {x y : SymL Code} (hx : Below n x) (hy : Below n y) :
    Below n (x ^^^ y) := by
  intro a t ha ht
  rw [xor_f, hx a t ha ht, hy a t ha ht]; rfl

theorem Below.mono {n m : Nat} {x : SymL Code} (h : Below n x) (hnm : n ≤ m) : Below m x :=
  fun a t ha ht => h a t ha (by omega)

theorem Below.zero (n : Nat) : Below n (LabelAlg.zero : SymL Code) := fun _ _ _ _ => rfl

open Classical in
theorem Below.atom (σ : Atom Code → Bool) (a : Atom Code) (n : Nat)
    (h : ∀ t, a.tweak = some t → t < n) : Below n (atom σ a) := by
  intro b t hb ht
  rw [atom_f]
  simp only [decide_eq_false_iff_not]
  intro hba
  subst hba
  have := h t hb
  omega

/-- All hash atoms in the list have tweak `≥ n`. -/
def AllAbove (n : Nat) (N : List (Atom Code)) : Prop :=
  ∀ a ∈ N, ∃ t, a.tweak = some t ∧ n ≤ t

/-- Adding atoms with tweak `≥ n` to the functional does not change its value
on labels below `n`. -/
theorem phi_append_below (S N : List (Atom Code)) (n : Nat) (x : SymL Code)
    (hN : AllAbove n N) (hx : Below n x) : phi (S ++ N) x = phi S x := by
  rw [phi_append]
  have : phi N x = false := by
    induction N with
    | nil => rfl
    | cons a N ih =>
      obtain ⟨t, hat, hnt⟩ := hN a (List.mem_cons_self)
      rw [phi_cons, hx a t hat hnt, ih (fun b hb => hN b (List.mem_cons_of_mem _ hb))]
      rfl
  rw [this]; cases phi S x <;> rfl

end Mpc.Sym

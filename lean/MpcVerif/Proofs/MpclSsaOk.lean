/-
Syntactic facts about the code `lower` emits (Model/MpclLower.lean): every
instruction before the final `ret` has a result and the right number of
operands (`AllOk`); without `/ %` in the source none of them can fail, so the
code is total (`ssaSteps_total`).
-/
import MpcVerif.Proofs.MpclSsaStmt

namespace Mpc.Mpcl.Ssa
open Mpc.Mpcl

def AllOk (d : Bool) (code : List SInstr) : Prop := ∀ i ∈ code, instrOk d i = true

theorem AllOk_nil (d : Bool) : AllOk d [] := fun _ h => by cases h

theorem AllOk_append {d : Bool} {a b : List SInstr} (ha : AllOk d a) (hb : AllOk d b) : AllOk d (a ++ b) := by
  intro i hi
  rcases List.mem_append.1 hi with h | h
  · exact ha i h
  · exact hb i h

theorem AllOk_one {d : Bool} {i : SInstr} (h : instrOk d i = true) : AllOk d [i] := by
  intro j hj; simp only [List.mem_singleton] at hj; subst hj; exact h

theorem AllOk_cons {d : Bool} {i : SInstr} {c : List SInstr} (h : instrOk d i = true) (hc : AllOk d c) :
    AllOk d (i :: c) := by
  intro j hj
  rcases List.mem_cons.1 hj with e | e
  · subst e; exact h
  · exact hc j e

theorem instrOk_noRet {d : Bool} {i : SInstr} (h : instrOk d i = true) : i.op ≠ .ret := by
  intro hr
  obtain ⟨op, ins, out⟩ := i
  simp only at hr
  subst hr
  simp [instrOk, instrTotal, instrDiv] at h

theorem AllOk.noRet {d : Bool} {code : List SInstr} (h : AllOk d code) : NoRet code :=
  fun i hi => instrOk_noRet (h i hi)

theorem instrOk_mov (d : Bool) (a : SArg) (id w : Nat) : instrOk d (movI a id w) = true := by
  simp [instrOk, instrTotal, movI]

theorem instrOk_phi (d : Bool) (a b c : SArg) (o : Nat × Nat) : instrOk d ⟨.phi, [a, b, c], some o⟩ = true := by
  simp [instrOk, instrTotal]

theorem lowerBin_ok (d : Bool) (op : BinOp) (t : Ty) (sop : SOp) (tr : Ty) (a b : SArg) (o : Nat × Nat)
    (h : lowerBin op t = some (sop, tr)) (hd : d = true ∨ (op ≠ .div ∧ op ≠ .mod)) :
    instrOk d ⟨sop, [a, b], some o⟩ = true := by
  cases t <;> cases op <;> simp [lowerBin] at h <;> obtain ⟨h1, _⟩ := h <;> subst h1 <;>
    simp_all [instrOk, instrTotal, instrDiv]

theorem lowerE_ok (d : Bool) : ∀ (e : Expr) (nm : NEnv) (next : Nat) (aa : SArg) (t : Ty) (code : List SInstr)
    (next' : Nat), lowerE nm e next = some (aa, t, code, next') → (d = true ∨ noDivE e = true) → AllOk d code
  | .lit t n, nm, next, aa, t', code, next', h, _ => by
    cases t <;> simp only [lowerE] at h
    · simp only [Option.some.injEq, Prod.mk.injEq] at h
      obtain ⟨_, _, h3, _⟩ := h; subst h3; exact AllOk_nil d
    · split at h
      · simp only [Option.some.injEq, Prod.mk.injEq] at h
        obtain ⟨_, _, h3, _⟩ := h; subst h3; exact AllOk_nil d
      · cases h
    · split at h
      · simp only [Option.some.injEq, Prod.mk.injEq] at h
        obtain ⟨_, _, h3, _⟩ := h; subst h3; exact AllOk_nil d
      · cases h
    · cases h
    · cases h
  | .var x, nm, next, aa, t, code, next', h, _ => by
    simp only [lowerE] at h
    cases hf : nm.find x with
    | none => simp [hf] at h
    | some b =>
      cases b with
      | val id t0 =>
        simp only [hf] at h
        cases hw : sbits t0 with
        | none => simp [hw] at h
        | some w =>
          simp only [hw, Option.some.injEq, Prod.mk.injEq] at h
          obtain ⟨_, _, h3, _⟩ := h; subst h3; exact AllOk_nil d
      | konst n =>
        simp only [hf, Option.some.injEq, Prod.mk.injEq] at h
        obtain ⟨_, _, h3, _⟩ := h; subst h3; exact AllOk_nil d
  | .bin op a b, nm, next, aa, t, code, next', h, hd => by
    simp only [lowerE] at h
    cases hla : lowerE nm a next with
    | none => simp [hla] at h
    | some ra =>
      obtain ⟨aa1, ta, ca, n1⟩ := ra
      simp only [hla] at h
      cases hlb : lowerE nm b n1 with
      | none => simp [hlb] at h
      | some rb =>
        obtain ⟨ba, tb, cb, n2⟩ := rb
        simp only [hlb] at h
        split at h
        · cases h
        · split at h
          · cases h
          · have hda : d = true ∨ noDivE a = true := by
              rcases hd with e | e
              · exact Or.inl e
              · simp only [noDivE, Bool.and_eq_true] at e; exact Or.inr e.1.2
            have hdb : d = true ∨ noDivE b = true := by
              rcases hd with e | e
              · exact Or.inl e
              · simp only [noDivE, Bool.and_eq_true] at e; exact Or.inr e.2
            have hdo : d = true ∨ (op ≠ .div ∧ op ≠ .mod) := by
              rcases hd with e | e
              · exact Or.inl e
              · simp only [noDivE, Bool.and_eq_true, bne_iff_ne, ne_eq] at e; exact Or.inr ⟨e.1.1.1, e.1.1.2⟩
            have hab := AllOk_append (lowerE_ok d a nm next aa1 ta ca n1 hla hda) (lowerE_ok d b nm n1 ba tb cb n2 hlb hdb)
            cases hlo : lowerBin op ta with
            | none => simp [hlo] at h
            | some r0 =>
              obtain ⟨sop, tr⟩ := r0
              simp only [hlo] at h
              cases hwr : sbits tr with
              | none => simp [hwr] at h
              | some wr =>
                simp only [hwr, Option.some.injEq, Prod.mk.injEq] at h
                obtain ⟨_, _, h3, _⟩ := h
                subst h3
                exact AllOk_append hab (AllOk_one (lowerBin_ok d op ta sop tr _ _ _ hlo hdo))
  | .shift left a k, nm, next, aa, t, code, next', h, hd => by
    simp only [lowerE] at h
    cases hla : lowerE nm a next with
    | none => simp [hla] at h
    | some ra =>
      obtain ⟨aa1, ta, ca, n1⟩ := ra
      simp only [hla] at h
      split at h
      · cases h
      · cases hnt : numTy ta with
        | none => simp [hnt] at h
        | some r0 =>
          obtain ⟨s, w⟩ := r0
          simp only [hnt, Option.some.injEq, Prod.mk.injEq] at h
          obtain ⟨_, _, h3, _⟩ := h
          subst h3
          refine AllOk_append (lowerE_ok d a nm next aa1 ta ca n1 hla (by simpa [noDivE] using hd)) (AllOk_one ?_)
          cases left <;> cases s <;> simp [instrOk, instrTotal]
  | .not a, nm, next, aa, t, code, next', h, hd => by
    simp only [lowerE] at h
    cases hla : lowerE nm a next with
    | none => simp [hla] at h
    | some ra =>
      obtain ⟨aa1, ta, ca, n1⟩ := ra
      simp only [hla] at h
      split at h
      · cases h
      · cases ta <;> simp only [Option.some.injEq, Prod.mk.injEq, reduceCtorEq] at h
        obtain ⟨_, _, h3, _⟩ := h
        subst h3
        exact AllOk_append (lowerE_ok d a nm next aa1 .bool ca n1 hla (by simpa [noDivE] using hd))
          (AllOk_one (by simp [instrOk, instrTotal]))
  | .neg a, nm, next, aa, t, code, next', h, hd => by
    simp only [lowerE] at h
    cases hla : lowerE nm a next with
    | none => simp [hla] at h
    | some ra =>
      obtain ⟨aa1, ta, ca, n1⟩ := ra
      simp only [hla] at h
      split at h
      · cases h
      · cases hnt : numTy ta with
        | none => simp [hnt] at h
        | some r0 =>
          obtain ⟨s, w⟩ := r0
          simp only [hnt, Option.some.injEq, Prod.mk.injEq] at h
          obtain ⟨_, _, h3, _⟩ := h
          subst h3
          exact AllOk_append (lowerE_ok d a nm next aa1 ta ca n1 hla (by simpa [noDivE] using hd))
            (AllOk_one (by simp [instrOk, instrTotal]))
  | .cast t0 a, nm, next, aa, t, code, next', h, hd => by
    simp only [lowerE] at h
    cases hla : lowerE nm a next with
    | none => simp [hla] at h
    | some ra =>
      obtain ⟨aa1, ta, ca, n1⟩ := ra
      simp only [hla] at h
      have iha := lowerE_ok d a nm next aa1 ta ca n1 hla (by simpa [noDivE] using hd)
      cases hnt : numTy ta with
      | none => simp [hnt] at h
      | some r0 =>
        obtain ⟨s, w⟩ := r0
        cases hnt0 : numTy t0 with
        | none => simp [hnt, hnt0] at h
        | some r1 =>
          obtain ⟨s', w'⟩ := r1
          simp only [hnt, hnt0] at h
          split at h
          · split at h
            · simp only [Option.some.injEq, Prod.mk.injEq] at h
              obtain ⟨_, _, h3, _⟩ := h
              subst h3
              exact iha
            · cases h
          · split at h
            · cases h
            · simp only [Option.some.injEq, Prod.mk.injEq] at h
              obtain ⟨_, _, h3, _⟩ := h
              subst h3
              refine AllOk_append iha (AllOk_one ?_)
              split <;> simp [instrOk, instrTotal]
  | .idx _ _, _, _, _, _, _, _, h, _ => by simp [lowerE] at h
  | .fld _ _, _, _, _, _, _, _, h, _ => by simp [lowerE] at h
  | .call _ _, _, _, _, _, _, _, h, _ => by simp [lowerE] at h

theorem lowerRet_ok (d : Bool) : ∀ (es : List Expr) (nm : NEnv) (next : Nat) (rs : List (Nat × Nat))
    (code : List SInstr) (next' : Nat), lowerRet nm es next = some (rs, code, next') →
    (d = true ∨ noDivEs es = true) → AllOk d code
  | [], nm, next, rs, code, next', h, _ => by
    simp only [lowerRet, Option.some.injEq, Prod.mk.injEq] at h
    obtain ⟨_, h2, _⟩ := h; subst h2; exact AllOk_nil d
  | e :: es, nm, next, rs, code, next', h, hd => by
    simp only [lowerRet] at h
    cases hl : lowerE nm e next with
    | none => simp [hl] at h
    | some q =>
      obtain ⟨aa, t, ce, n1⟩ := q
      simp only [hl] at h
      cases hw : sbits t with
      | none => simp [hw] at h
      | some w =>
        simp only [hw] at h
        cases hr : lowerRet nm es (n1 + 1) with
        | none => simp [hr] at h
        | some q2 =>
          obtain ⟨rs2, cs, n2⟩ := q2
          simp only [hr, Option.some.injEq, Prod.mk.injEq] at h
          obtain ⟨_, h2, _⟩ := h
          subst h2
          have hde : d = true ∨ noDivE e = true := by
            rcases hd with e1 | e1
            · exact Or.inl e1
            · simp only [noDivEs, Bool.and_eq_true] at e1; exact Or.inr e1.1
          have hds : d = true ∨ noDivEs es = true := by
            rcases hd with e1 | e1
            · exact Or.inl e1
            · simp only [noDivEs, Bool.and_eq_true] at e1; exact Or.inr e1.2
          exact AllOk_append (AllOk_append (lowerE_ok d e nm next aa t ce n1 hl hde) (AllOk_one (instrOk_mov d _ _ _)))
            (lowerRet_ok d es nm (n1 + 1) rs2 cs n2 hr hds)

theorem matPhis_ok (d : Bool) (c : Nat) : ∀ (rt rf : List (Nat × Nat)) (k : Nat) (rs : List (Nat × Nat))
    (code : List SInstr) (k' : Nat), matPhis c rt rf k = some (rs, code, k') → AllOk d code
  | [], [], k, rs, code, k', h => by
    simp only [matPhis, Option.some.injEq, Prod.mk.injEq] at h
    obtain ⟨_, h2, _⟩ := h; subst h2; exact AllOk_nil d
  | [], _ :: _, _, _, _, _, h => by simp [matPhis] at h
  | _ :: _, [], _, _, _, _, h => by simp [matPhis] at h
  | (i, w) :: r, (j, w') :: r', k, rs, code, k', h => by
    simp only [matPhis] at h
    split at h
    · cases hm : matPhis c r r' (k + 1) with
      | none => simp [hm] at h
      | some q =>
        obtain ⟨rs2, code2, k2⟩ := q
        simp only [hm, Option.some.injEq, Prod.mk.injEq] at h
        obtain ⟨_, h2, _⟩ := h
        subst h2
        exact AllOk_cons (instrOk_phi d _ _ _ _) (matPhis_ok d c r r' (k + 1) rs2 code2 k2 hm)
    · cases h

theorem mat_ok (d : Bool) : ∀ (t : RTree) (k : Nat) (rs : List (Nat × Nat)) (code : List SInstr) (k' : Nat),
    t.mat k = some (rs, code, k') → AllOk d code
  | .fall, _, _, _, _, h => by simp [RTree.mat] at h
  | .ret rs0, k, rs, code, k', h => by
    simp only [RTree.mat, Option.some.injEq, Prod.mk.injEq] at h
    obtain ⟨_, h2, _⟩ := h; subst h2; exact AllOk_nil d
  | .br c t f, k, rs, code, k', h => by
    simp only [RTree.mat] at h
    cases hmt : t.mat k with
    | none => simp [hmt] at h
    | some q1 =>
      obtain ⟨rt, ct, k1⟩ := q1
      simp only [hmt] at h
      cases hmf : f.mat k1 with
      | none => simp [hmf] at h
      | some q2 =>
        obtain ⟨rf, cf, k2⟩ := q2
        simp only [hmf] at h
        cases hmp : matPhis c rt rf k2 with
        | none => simp [hmp] at h
        | some q3 =>
          obtain ⟨rs3, cp, k3⟩ := q3
          simp only [hmp, Option.some.injEq, Prod.mk.injEq] at h
          obtain ⟨_, h2, _⟩ := h
          subst h2
          exact AllOk_append (AllOk_append (mat_ok d t k rt ct k1 hmt) (mat_ok d f k1 rf cf k2 hmf))
            (matPhis_ok d c rt rf k2 rs3 cp k3 hmp)

theorem mergeB_ok (d : Bool) (c : Nat) (b b' : Bind) (k : Nat) (b2 : Bind) (code : List SInstr) (k' : Nat)
    (h : mergeB c b b' k = some (b2, code, k')) : AllOk d code := by
  cases b <;> cases b' <;> simp only [mergeB] at h
  · split at h
    · split at h
      · simp only [Option.some.injEq, Prod.mk.injEq] at h
        obtain ⟨_, h2, _⟩ := h; subst h2; exact AllOk_nil d
      · rename_i t _ _ _ _
        cases hw : sbits t with
        | none => simp [hw] at h
        | some w =>
          simp only [hw, Option.some.injEq, Prod.mk.injEq] at h
          obtain ⟨_, h2, _⟩ := h; subst h2; exact AllOk_one (instrOk_phi d _ _ _ _)
    · cases h
  · cases h
  · cases h
  · split at h
    · simp only [Option.some.injEq, Prod.mk.injEq] at h
      obtain ⟨_, h2, _⟩ := h; subst h2; exact AllOk_nil d
    · cases h

theorem mergeS_ok (d : Bool) (c : Nat) : ∀ (s s' : NScope) (k : Nat) (s2 : NScope) (code : List SInstr) (k' : Nat),
    mergeS c s s' k = some (s2, code, k') → AllOk d code
  | [], [], k, s2, code, k', h => by
    simp only [mergeS, Option.some.injEq, Prod.mk.injEq] at h
    obtain ⟨_, h2, _⟩ := h; subst h2; exact AllOk_nil d
  | [], _ :: _, _, _, _, _, h => by simp [mergeS] at h
  | _ :: _, [], _, _, _, _, h => by simp [mergeS] at h
  | (x, b) :: r, (y, b') :: r', k, s2, code, k', h => by
    simp only [mergeS] at h
    split at h
    · cases hm : mergeB c b b' k with
      | none => simp [hm] at h
      | some q =>
        obtain ⟨b2, c1, k1⟩ := q
        simp only [hm] at h
        cases hr : mergeS c r r' k1 with
        | none => simp [hr] at h
        | some q2 =>
          obtain ⟨r2, c2, k2⟩ := q2
          simp only [hr, Option.some.injEq, Prod.mk.injEq] at h
          obtain ⟨_, h2, _⟩ := h
          subst h2
          exact AllOk_append (mergeB_ok d c b b' k b2 c1 k1 hm) (mergeS_ok d c r r' k1 r2 c2 k2 hr)
    · cases h

theorem mergeE_ok (d : Bool) (c : Nat) : ∀ (n n' : NEnv) (k : Nat) (n2 : NEnv) (code : List SInstr) (k' : Nat),
    mergeE c n n' k = some (n2, code, k') → AllOk d code
  | [], [], k, n2, code, k', h => by
    simp only [mergeE, Option.some.injEq, Prod.mk.injEq] at h
    obtain ⟨_, h2, _⟩ := h; subst h2; exact AllOk_nil d
  | [], _ :: _, _, _, _, _, h => by simp [mergeE] at h
  | _ :: _, [], _, _, _, _, h => by simp [mergeE] at h
  | s :: r, s' :: r', k, n2, code, k', h => by
    simp only [mergeE] at h
    cases hm : mergeS c s s' k with
    | none => simp [hm] at h
    | some q =>
      obtain ⟨s2, c1, k1⟩ := q
      simp only [hm] at h
      cases hr : mergeE c r r' k1 with
      | none => simp [hr] at h
      | some q2 =>
        obtain ⟨r2, c2, k2⟩ := q2
        simp only [hr, Option.some.injEq, Prod.mk.injEq] at h
        obtain ⟨_, h2, _⟩ := h
        subst h2
        exact AllOk_append (mergeS_ok d c s s' k s2 c1 k1 hm) (mergeE_ok d c r r' k1 r2 c2 k2 hr)

theorem joinN_ok (d : Bool) (c : Nat) (nt nf : Option NEnv) (k : Nat) (nms : Option NEnv) (code : List SInstr)
    (k' : Nat) (h : joinN c nt nf k = some (nms, code, k')) : AllOk d code := by
  cases nt <;> cases nf <;> simp only [joinN] at h
  · simp only [Option.some.injEq, Prod.mk.injEq] at h
    obtain ⟨_, h2, _⟩ := h; subst h2; exact AllOk_nil d
  · simp only [Option.some.injEq, Prod.mk.injEq] at h
    obtain ⟨_, h2, _⟩ := h; subst h2; exact AllOk_nil d
  · simp only [Option.some.injEq, Prod.mk.injEq] at h
    obtain ⟨_, h2, _⟩ := h; subst h2; exact AllOk_nil d
  · rename_i n1 n2
    cases hm : mergeE c n1 n2 k with
    | none => simp [hm] at h
    | some q =>
      obtain ⟨nm, cm, k2⟩ := q
      simp only [hm, Option.some.injEq, Prod.mk.injEq] at h
      obtain ⟨_, h2, _⟩ := h
      subst h2
      exact mergeE_ok d c n1 n2 k nm cm k2 hm

/-- All instructions the statement lowering emits are well formed, and
division-free when the source is. -/
theorem lower_stmt_ok (d : Bool) : ∀ f : Nat,
    (∀ (s : Stmt) (nm : NEnv) (next : Nat) (r : LRes), lowerS f nm next s = some r →
      (d = true ∨ noDivS s = true) → AllOk d r.code) ∧
    (∀ (ss : List Stmt) (nm : NEnv) (next : Nat) (r : LRes), lowerB f nm next ss = some r →
      (d = true ∨ noDivB ss = true) → AllOk d r.code) ∧
    (∀ (i : String) (cur : Int) (c : Cmp) (hi stp : Int) (body : List Stmt) (nm : NEnv) (next : Nat) (r : LRes),
      lowerFor f i cur c hi stp body nm next = some r → (d = true ∨ noDivB body = true) → AllOk d r.code) := by
  intro f
  induction f with
  | zero => refine ⟨?_, ?_, ?_⟩ <;> intros <;> simp_all [lowerS, lowerB, lowerFor]
  | succ f ih =>
    obtain ⟨ihS, ihB, ihF⟩ := ih
    refine ⟨?_, ?_, ?_⟩
    · intro s nm next r h hd
      cases s with
      | decl x t init =>
        cases init with
        | none =>
          simp only [lowerS] at h
          cases hz : zeroArg t with
          | none => simp [hz] at h
          | some z =>
            cases hw : sbits t with
            | none => simp [hz, hw] at h
            | some w =>
              simp only [hz, hw, Option.some.injEq] at h
              subst h
              exact AllOk_one (instrOk_mov d _ _ _)
        | some e =>
          simp only [lowerS] at h
          cases hl : lowerE nm e next with
          | none => simp [hl] at h
          | some q =>
            obtain ⟨aa, te, ce, n1⟩ := q
            simp only [hl] at h
            cases hw : sbits t with
            | none => simp [hw] at h
            | some w =>
              simp only [hw] at h
              split at h
              · simp only [Option.some.injEq] at h
                subst h
                exact AllOk_append (lowerE_ok d e nm next aa te ce n1 hl (by simpa [noDivS] using hd))
                  (AllOk_one (instrOk_mov d _ _ _))
              · cases h
      | define xs e =>
        match xs, h with
        | [x], h =>
          simp only [lowerS] at h
          cases hl : lowerE nm e next with
          | none => simp [hl] at h
          | some q =>
            obtain ⟨aa, te, ce, n1⟩ := q
            simp only [hl] at h
            split at h
            · cases h
            · cases hw : sbits te with
              | none => simp [hw] at h
              | some w =>
                simp only [hw, Option.some.injEq] at h
                subst h
                exact AllOk_append (lowerE_ok d e nm next aa te ce n1 hl (by simpa [noDivS] using hd))
                  (AllOk_one (instrOk_mov d _ _ _))
        | [], h => simp [lowerS] at h
        | _ :: _ :: _, h => simp [lowerS] at h
      | assign lvs e =>
        match lvs, h with
        | [⟨x, []⟩], h =>
          simp only [lowerS] at h
          cases hf0 : nm.find x with
          | none => simp [hf0] at h
          | some b0 =>
            cases b0 with
            | konst _ => simp [hf0] at h
            | val id0 tx =>
              cases hl : lowerE nm e next with
              | none => simp [hf0, hl] at h
              | some q =>
                obtain ⟨aa, te, ce, n1⟩ := q
                simp only [hf0, hl] at h
                cases hw : sbits tx with
                | none => simp [hw] at h
                | some w =>
                  cases hset : nm.set x (.val n1 tx) with
                  | none => simp [hw, hset] at h
                  | some nm' =>
                    simp only [hw, hset] at h
                    split at h
                    · simp only [Option.some.injEq] at h
                      subst h
                      exact AllOk_append (lowerE_ok d e nm next aa te ce n1 hl (by simpa [noDivS] using hd))
                        (AllOk_one (instrOk_mov d _ _ _))
                    · cases h
        | [], h => simp [lowerS] at h
        | ⟨_, _ :: _⟩ :: _, h => simp [lowerS] at h
        | ⟨_, []⟩ :: _ :: _, h => simp [lowerS] at h
      | ifte c th el =>
        simp only [lowerS] at h
        cases hl : lowerE nm c next with
        | none => simp [hl] at h
        | some q =>
          obtain ⟨ac, tc, cc, n1⟩ := q
          simp only [hl] at h
          cases ac with
          | var cid cw =>
            cases tc with
            | bool =>
              simp only at h
              cases hlt : lowerB f ([] :: nm) n1 th with
              | none => simp [hlt] at h
              | some rt =>
                simp only [hlt] at h
                cases hlf : lowerB f ([] :: nm) rt.next el with
                | none => simp [hlf] at h
                | some rf =>
                  simp only [hlf] at h
                  cases hj : joinN cid (popN rt.nms) (popN rf.nms) rf.next with
                  | none => simp [hj] at h
                  | some q2 =>
                    obtain ⟨nms', cm, n4⟩ := q2
                    simp only [hj, Option.some.injEq] at h
                    subst h
                    have hdc : d = true ∨ noDivE c = true := by
                      rcases hd with e | e
                      · exact Or.inl e
                      · simp only [noDivS, Bool.and_eq_true] at e; exact Or.inr e.1.1
                    have hdt : d = true ∨ noDivB th = true := by
                      rcases hd with e | e
                      · exact Or.inl e
                      · simp only [noDivS, Bool.and_eq_true] at e; exact Or.inr e.1.2
                    have hdf : d = true ∨ noDivB el = true := by
                      rcases hd with e | e
                      · exact Or.inl e
                      · simp only [noDivS, Bool.and_eq_true] at e; exact Or.inr e.2
                    exact AllOk_append (AllOk_append (AllOk_append (lowerE_ok d c nm next _ _ cc n1 hl hdc)
                      (ihB th _ n1 rt hlt hdt)) (ihB el _ rt.next rf hlf hdf)) (joinN_ok d cid _ _ _ nms' cm n4 hj)
            | int _ => simp at h
            | uint _ => simp at h
            | arr _ _ => simp at h
            | struct _ => simp at h
          | const _ _ _ _ _ => simp at h
          | pat _ _ => simp at h
          | k _ => simp at h
      | «for» i lo c hi stp body =>
        simp only [lowerS] at h
        exact ihF i lo c hi stp body nm next r h (by simpa [noDivS] using hd)
      | ret es =>
        simp only [lowerS] at h
        cases hl : lowerRet nm es next with
        | none => simp [hl] at h
        | some q =>
          obtain ⟨rs, code, n1⟩ := q
          simp only [hl, Option.some.injEq] at h
          subst h
          exact lowerRet_ok d es nm next rs code n1 hl (by simpa [noDivS] using hd)
    · intro ss nm next r h hd
      cases ss with
      | nil =>
        simp only [lowerB, Option.some.injEq] at h
        subst h
        exact AllOk_nil d
      | cons s ss =>
        simp only [lowerB] at h
        have hds : d = true ∨ noDivS s = true := by
          rcases hd with e | e
          · exact Or.inl e
          · simp only [noDivB, Bool.and_eq_true] at e; exact Or.inr e.1
        have hdss : d = true ∨ noDivB ss = true := by
          rcases hd with e | e
          · exact Or.inl e
          · simp only [noDivB, Bool.and_eq_true] at e; exact Or.inr e.2
        cases hs : lowerS f nm next s with
        | none => simp [hs] at h
        | some r1 =>
          simp only [hs] at h
          cases hrn : r1.nms with
          | none =>
            simp only [hrn] at h
            cases ss with
            | nil =>
              simp only [Option.some.injEq] at h
              subst h
              exact ihS s nm next r1 hs hds
            | cons _ _ => simp at h
          | some nm1 =>
            simp only [hrn] at h
            cases hb : lowerB f nm1 r1.next ss with
            | none => simp [hb] at h
            | some r2 =>
              simp only [hb, Option.some.injEq] at h
              subst h
              exact AllOk_append (ihS s nm next r1 hs hds) (ihB ss nm1 r1.next r2 hb hdss)
    · intro i cur c hi stp body nm next r h hd
      simp only [lowerFor] at h
      split at h
      · split at h
        · cases hb : lowerB f ([(i, .konst cur.toNat)] :: nm) next body with
          | none => simp [hb] at h
          | some r1 =>
            simp only [hb] at h
            cases hrn : popN r1.nms with
            | none =>
              simp only [hrn, Option.some.injEq] at h
              subst h
              exact ihB body _ next r1 hb hd
            | some nm1 =>
              simp only [hrn] at h
              cases hl2 : lowerFor f i (cur + stp) c hi stp body nm1 r1.next with
              | none => simp [hl2] at h
              | some r2 =>
                simp only [hl2, Option.some.injEq] at h
                subst h
                exact AllOk_append (ihB body _ next r1 hb hd) (ihF i (cur + stp) c hi stp body nm1 r1.next r2 hl2 hd)
        · cases h
      · simp only [Option.some.injEq] at h
        subst h
        exact AllOk_nil d

/-- An instruction that is not a division cannot fail. -/
theorem instrTotal_step (i : SInstr) (h : instrOk false i = true) (st : Nat → Nat) :
    ∃ st', ssaSteps [i] st = some st' := by
  obtain ⟨op, ins, out⟩ := i
  simp only [instrOk, Bool.false_and, Bool.or_false, instrTotal, Bool.and_eq_true] at h
  obtain ⟨ho, hm⟩ := h
  cases out with
  | none => simp at ho
  | some o =>
    obtain ⟨id, ow⟩ := o
    have : ∃ v, evalOp op (ins.map (argVal st)) ow = some v := by
      match ins, hm with
      | [], hm => cases op <;> simp at hm
      | [a], hm =>
        simp only [List.map_cons, List.map_nil]
        generalize argVal st a = pa
        obtain ⟨x, wx⟩ := pa
        cases op <;> first | (simp at hm; done) | exact ⟨_, rfl⟩
      | [a, b], hm =>
        simp only [List.map_cons, List.map_nil]
        generalize argVal st a = pa
        generalize argVal st b = pb
        obtain ⟨x, wx⟩ := pa
        obtain ⟨y, wy⟩ := pb
        cases op <;> first | (simp at hm; done) | exact ⟨_, rfl⟩
      | [a, b, c], hm =>
        simp only [List.map_cons, List.map_nil]
        generalize argVal st a = pa
        generalize argVal st b = pb
        generalize argVal st c = pc
        obtain ⟨x, wx⟩ := pa
        obtain ⟨y, wy⟩ := pb
        obtain ⟨z, wz⟩ := pc
        cases op <;> first | (simp at hm; done) | exact ⟨_, rfl⟩
      | _ :: _ :: _ :: _ :: _, hm => cases op <;> simp at hm
    obtain ⟨v, hv⟩ := this
    exact ⟨_, ssaSteps_one_mk hv⟩

theorem ssaSteps_total : ∀ (code : List SInstr), AllOk false code → ∀ st : Nat → Nat, ∃ st', ssaSteps code st = some st'
  | [], _, st => ⟨st, rfl⟩
  | i :: rest, h, st => by
    obtain ⟨st1, h1⟩ := instrTotal_step i (h i (by simp)) st
    obtain ⟨st2, h2⟩ := ssaSteps_total rest (fun j hj => h j (List.mem_cons_of_mem _ hj)) st1
    exact ⟨st2, by
      have : (i :: rest : List SInstr) = [i] ++ rest := rfl
      rw [this]; exact ssaSteps_join h1 h2⟩

end Mpc.Mpcl.Ssa

/-
Syntactic facts about the code `lower` emits (Model/MpclLower.lean): every
instruction before the final `ret` has a result and the right number of
operands (`AllOk`); without `/ %` in the source none of them can fail, so the
code is total (`ssaSteps_total`).
-/
import MpcVerif.Proofs.MpclSsaStmt

namespace Mpc.Mpcl.Ssa
open Mpc.Mpcl

def AllOk (d : Bool) (code : List SInstr) : Prop := ∀ i ∈ code, instrOk d i = true

theorem AllOk_nil (d : Bool) : AllOk d [] := fun _ h => by cases h

theorem AllOk_append {d : Bool} {a b : List SInstr} (ha : AllOk d a) (hb : AllOk d b) : AllOk d (a ++ b) := by
  intro i hi
  rcases List.mem_append.1 hi with h | h
  · exact ha i h
  · exact hb i h

theorem AllOk_one {d : Bool} {i : SInstr} (h : instrOk d i = true) : AllOk d [i] := by
  intro j hj; simp only [List.mem_singleton] at hj; subst hj; exact h

theorem AllOk_cons {d : Bool} {i : SInstr} {c : List SInstr} (h : instrOk d i = true) (hc : AllOk d c) :
    AllOk d (i :: c) := by
  intro j hj
  rcases List.mem_cons.1 hj with e | e
  · subst e; exact h
  · exact hc j e

theorem instrOk_noRet {d : Bool} {i : SInstr} (h : instrOk d i = true) : i.op ≠ .ret := by
  intro hr
  obtain ⟨op, ins, out⟩ := i
  simp only at hr
  subst hr
  simp [instrOk, instrTotal, instrDiv] at h

theorem AllOk.noRet {d : Bool} {code : List SInstr} (h : AllOk d code) : NoRet code :=
  fun i hi => instrOk_noRet (h i hi)

theorem instrOk_mov (d : Bool) (a : SArg) (id w : Nat) : instrOk d (movI a id w) = true := by
  simp [instrOk, instrTotal, movI]

theorem instrOk_phi (d : Bool) (a b c : SArg) (o : Nat × Nat) : instrOk d ⟨.phi, [a, b, c], some o⟩ = true := by
  simp [instrOk, instrTotal]

theorem lowerBin_ok (d : Bool) (op : BinOp) (t : Ty) (sop : SOp) (tr : Ty) (a b : SArg) (o : Nat × Nat)
    (h : lowerBin op t = some (sop, tr)) (hd : d = true ∨ (op ≠ .div ∧ op ≠ .mod)) :
    instrOk d ⟨sop, [a, b], some o⟩ = true := by
  cases t <;> cases op <;> simp [lowerBin] at h <;> obtain ⟨h1, _⟩ := h <;> subst h1 <;>
    simp_all [instrOk, instrTotal, instrDiv]

theorem matPhis_ok (d : Bool) (c : Nat) : ∀ (rt rf : List (Nat × Ty)) (k : Nat) (rs : List (Nat × Ty))
    (code : List SInstr) (k' : Nat), matPhis c rt rf k = some (rs, code, k') → AllOk d code
  | [], [], k, rs, code, k', h => by
    simp only [matPhis, Option.some.injEq, Prod.mk.injEq] at h
    obtain ⟨_, h2, _⟩ := h; subst h2; exact AllOk_nil d
  | [], _ :: _, _, _, _, _, h => by simp [matPhis] at h
  | _ :: _, [], _, _, _, _, h => by simp [matPhis] at h
  | (i, w) :: r, (j, w') :: r', k, rs, code, k', h => by
    simp only [matPhis] at h
    split at h
    · cases hm : matPhis c r r' (k + 1) with
      | none => simp [hm] at h
      | some q =>
        obtain ⟨rs2, code2, k2⟩ := q
        simp only [hm, Option.some.injEq, Prod.mk.injEq] at h
        obtain ⟨_, h2, _⟩ := h
        subst h2
        exact AllOk_cons (instrOk_phi d _ _ _ _) (matPhis_ok d c r r' (k + 1) rs2 code2 k2 hm)
    · cases h

theorem mat_ok (d : Bool) : ∀ (t : RTree) (k : Nat) (rs : List (Nat × Ty)) (code : List SInstr) (k' : Nat),
    t.mat k = some (rs, code, k') → AllOk d code
  | .fall, _, _, _, _, h => by simp [RTree.mat] at h
  | .ret rs0, k, rs, code, k', h => by
    simp only [RTree.mat, Option.some.injEq, Prod.mk.injEq] at h
    obtain ⟨_, h2, _⟩ := h; subst h2; exact AllOk_nil d
  | .br c t f, k, rs, code, k', h => by
    simp only [RTree.mat] at h
    cases hmt : t.mat k with
    | none => simp [hmt] at h
    | some q1 =>
      obtain ⟨rt, ct, k1⟩ := q1
      simp only [hmt] at h
      cases hmf : f.mat k1 with
      | none => simp [hmf] at h
      | some q2 =>
        obtain ⟨rf, cf, k2⟩ := q2
        simp only [hmf] at h
        cases hmp : matPhis c rt rf k2 with
        | none => simp [hmp] at h
        | some q3 =>
          obtain ⟨rs3, cp, k3⟩ := q3
          simp only [hmp, Option.some.injEq, Prod.mk.injEq] at h
          obtain ⟨_, h2, _⟩ := h
          subst h2
          exact AllOk_append (AllOk_append (mat_ok d t k rt ct k1 hmt) (mat_ok d f k1 rf cf k2 hmf))
            (matPhis_ok d c rt rf k2 rs3 cp k3 hmp)

theorem mergeB_ok (d : Bool) (c : Nat) (b b' : Bind) (k : Nat) (b2 : Bind) (code : List SInstr) (k' : Nat)
    (h : mergeB c b b' k = some (b2, code, k')) : AllOk d code := by
  cases b <;> cases b' <;> simp only [mergeB] at h
  · split at h
    · split at h
      · simp only [Option.some.injEq, Prod.mk.injEq] at h
        obtain ⟨_, h2, _⟩ := h; subst h2; exact AllOk_nil d
      · simp only [Option.some.injEq, Prod.mk.injEq] at h
        obtain ⟨_, h2, _⟩ := h; subst h2; exact AllOk_one (instrOk_phi d _ _ _ _)
    · cases h
  · cases h
  · cases h
  · split at h
    · simp only [Option.some.injEq, Prod.mk.injEq] at h
      obtain ⟨_, h2, _⟩ := h; subst h2; exact AllOk_nil d
    · cases h

theorem mergeS_ok (d : Bool) (c : Nat) : ∀ (s s' : NScope) (k : Nat) (s2 : NScope) (code : List SInstr) (k' : Nat),
    mergeS c s s' k = some (s2, code, k') → AllOk d code
  | [], [], k, s2, code, k', h => by
    simp only [mergeS, Option.some.injEq, Prod.mk.injEq] at h
    obtain ⟨_, h2, _⟩ := h; subst h2; exact AllOk_nil d
  | [], _ :: _, _, _, _, _, h => by simp [mergeS] at h
  | _ :: _, [], _, _, _, _, h => by simp [mergeS] at h
  | (x, b) :: r, (y, b') :: r', k, s2, code, k', h => by
    simp only [mergeS] at h
    split at h
    · cases hm : mergeB c b b' k with
      | none => simp [hm] at h
      | some q =>
        obtain ⟨b2, c1, k1⟩ := q
        simp only [hm] at h
        cases hr : mergeS c r r' k1 with
        | none => simp [hr] at h
        | some q2 =>
          obtain ⟨r2, c2, k2⟩ := q2
          simp only [hr, Option.some.injEq, Prod.mk.injEq] at h
          obtain ⟨_, h2, _⟩ := h
          subst h2
          exact AllOk_append (mergeB_ok d c b b' k b2 c1 k1 hm) (mergeS_ok d c r r' k1 r2 c2 k2 hr)
    · cases h

theorem mergeE_ok (d : Bool) (c : Nat) : ∀ (n n' : NEnv) (k : Nat) (n2 : NEnv) (code : List SInstr) (k' : Nat),
    mergeE c n n' k = some (n2, code, k') → AllOk d code
  | [], [], k, n2, code, k', h => by
    simp only [mergeE, Option.some.injEq, Prod.mk.injEq] at h
    obtain ⟨_, h2, _⟩ := h; subst h2; exact AllOk_nil d
  | [], _ :: _, _, _, _, _, h => by simp [mergeE] at h
  | _ :: _, [], _, _, _, _, h => by simp [mergeE] at h
  | s :: r, s' :: r', k, n2, code, k', h => by
    simp only [mergeE] at h
    cases hm : mergeS c s s' k with
    | none => simp [hm] at h
    | some q =>
      obtain ⟨s2, c1, k1⟩ := q
      simp only [hm] at h
      cases hr : mergeE c r r' k1 with
      | none => simp [hr] at h
      | some q2 =>
        obtain ⟨r2, c2, k2⟩ := q2
        simp only [hr, Option.some.injEq, Prod.mk.injEq] at h
        obtain ⟨_, h2, _⟩ := h
        subst h2
        exact AllOk_append (mergeS_ok d c s s' k s2 c1 k1 hm) (mergeE_ok d c r r' k1 r2 c2 k2 hr)

theorem joinN_ok (d : Bool) (c : Nat) (nt nf : Option NEnv) (k : Nat) (nms : Option NEnv) (code : List SInstr)
    (k' : Nat) (h : joinN c nt nf k = some (nms, code, k')) : AllOk d code := by
  cases nt <;> cases nf <;> simp only [joinN] at h
  · simp only [Option.some.injEq, Prod.mk.injEq] at h
    obtain ⟨_, h2, _⟩ := h; subst h2; exact AllOk_nil d
  · simp only [Option.some.injEq, Prod.mk.injEq] at h
    obtain ⟨_, h2, _⟩ := h; subst h2; exact AllOk_nil d
  · simp only [Option.some.injEq, Prod.mk.injEq] at h
    obtain ⟨_, h2, _⟩ := h; subst h2; exact AllOk_nil d
  · rename_i n1 n2
    cases hm : mergeE c n1 n2 k with
    | none => simp [hm] at h
    | some q =>
      obtain ⟨nm, cm, k2⟩ := q
      simp only [hm, Option.some.injEq, Prod.mk.injEq] at h
      obtain ⟨_, h2, _⟩ := h
      subst h2
      exact mergeE_ok d c n1 n2 k nm cm k2 hm

theorem instrOk_slice (d : Bool) (a : SArg) (off w id : Nat) : instrOk d (sliceI a off w id) = true := by
  simp [instrOk, instrTotal, sliceI]

def EOk (d : Bool) (P : Prog) (f : Nat) : Prop :=
  ∀ (e : Expr) (nm : NEnv) (next : Nat) (aa : SArg) (t : Ty) (code : List SInstr) (next' : Nat),
    lowerE P f nm e next = some (aa, t, code, next') → (d = true ∨ noDivE e = true) → AllOk d code

def ArgsOk (d : Bool) (P : Prog) (f : Nat) : Prop :=
  ∀ (es : List Expr) (nm : NEnv) (next : Nat) (avs : List (SArg × Ty)) (code : List SInstr) (next' : Nat),
    lowerArgs P f nm es next = some (avs, code, next') → (d = true ∨ noDivEs es = true) → AllOk d code

def CallOk (d : Bool) (P : Prog) (f : Nat) : Prop :=
  ∀ (nm : NEnv) (g : Nat) (args : List Expr) (next : Nat) (rs : List (Nat × Ty)) (code : List SInstr) (next' : Nat),
    lowerCall P f nm g args next = some (rs, code, next') → (d = true ∨ noDivEs args = true) → AllOk d code

def RetOk (d : Bool) (P : Prog) (f : Nat) : Prop :=
  ∀ (es : List Expr) (nm : NEnv) (next : Nat) (rs : List (Nat × Ty)) (code : List SInstr) (next' : Nat),
    lowerRet P f nm es next = some (rs, code, next') → (d = true ∨ noDivEs es = true) → AllOk d code

def SOk (d : Bool) (P : Prog) (f : Nat) : Prop :=
  ∀ (s : Stmt) (nm : NEnv) (next : Nat) (r : LRes), lowerS P f nm next s = some r →
    (d = true ∨ noDivS s = true) → AllOk d r.code

def BOk (d : Bool) (P : Prog) (f : Nat) : Prop :=
  ∀ (ss : List Stmt) (nm : NEnv) (next : Nat) (r : LRes), lowerB P f nm next ss = some r →
    (d = true ∨ noDivB ss = true) → AllOk d r.code

def FOk (d : Bool) (P : Prog) (f : Nat) : Prop :=
  ∀ (i : String) (cur : Int) (c : Cmp) (hi stp : Int) (body : List Stmt) (nm : NEnv) (next : Nat) (r : LRes),
    lowerFor P f i cur c hi stp body nm next = some r → (d = true ∨ noDivB body = true) → AllOk d r.code

theorem or_imp {d : Bool} {p q : Prop} (h : d = true ∨ p) (hpq : p → q) : d = true ∨ q := by
  rcases h with e | e
  · exact Or.inl e
  · exact Or.inr (hpq e)

theorem expr_ok_succ (d : Bool) (P : Prog) (f : Nat) (ihE : EOk d P f) (ihC : CallOk d P f) : EOk d P (f + 1) := by
  intro e nm next aa t code next' h hd
  cases e with
  | lit t0 n =>
    cases t0 <;> simp only [lowerE] at h
    · simp only [Option.some.injEq, Prod.mk.injEq] at h
      obtain ⟨_, _, h3, _⟩ := h; subst h3; exact AllOk_nil d
    · split at h
      · simp only [Option.some.injEq, Prod.mk.injEq] at h
        obtain ⟨_, _, h3, _⟩ := h; subst h3; exact AllOk_nil d
      · cases h
    · split at h
      · simp only [Option.some.injEq, Prod.mk.injEq] at h
        obtain ⟨_, _, h3, _⟩ := h; subst h3; exact AllOk_nil d
      · cases h
    · cases h
    · cases h
  | var x =>
    simp only [lowerE] at h
    cases hf : nm.find x with
    | none => simp [hf] at h
    | some b =>
      cases b with
      | val id t0 =>
        simp only [hf, Option.some.injEq, Prod.mk.injEq] at h
        obtain ⟨_, _, h3, _⟩ := h; subst h3; exact AllOk_nil d
      | konst n =>
        simp only [hf, Option.some.injEq, Prod.mk.injEq] at h
        obtain ⟨_, _, h3, _⟩ := h; subst h3; exact AllOk_nil d
  | bin op a b =>
    simp only [lowerE] at h
    cases hla : lowerE P f nm a next with
    | none => simp [hla] at h
    | some ra =>
      obtain ⟨aa1, ta, ca, n1⟩ := ra
      simp only [hla] at h
      cases hlb : lowerE P f nm b n1 with
      | none => simp [hlb] at h
      | some rb =>
        obtain ⟨ba, tb, cb, n2⟩ := rb
        simp only [hlb] at h
        split at h
        · cases h
        · split at h
          · cases h
          · have hda : d = true ∨ noDivE a = true :=
              or_imp hd (fun e => by simp only [noDivE, Bool.and_eq_true] at e; exact e.1.2)
            have hdb : d = true ∨ noDivE b = true :=
              or_imp hd (fun e => by simp only [noDivE, Bool.and_eq_true] at e; exact e.2)
            have hdo : d = true ∨ (op ≠ .div ∧ op ≠ .mod) :=
              or_imp hd (fun e => by
                simp only [noDivE, Bool.and_eq_true, bne_iff_ne, ne_eq] at e; exact ⟨e.1.1.1, e.1.1.2⟩)
            have hab := AllOk_append (ihE a nm next aa1 ta ca n1 hla hda) (ihE b nm n1 ba tb cb n2 hlb hdb)
            cases hlo : lowerBin op ta with
            | none => simp [hlo] at h
            | some r0 =>
              obtain ⟨sop, tr⟩ := r0
              simp only [hlo, Option.some.injEq, Prod.mk.injEq] at h
              obtain ⟨_, _, h3, _⟩ := h
              subst h3
              exact AllOk_append hab (AllOk_one (lowerBin_ok d op ta sop tr _ _ _ hlo hdo))
  | shift left a k =>
    simp only [lowerE] at h
    cases hla : lowerE P f nm a next with
    | none => simp [hla] at h
    | some ra =>
      obtain ⟨aa1, ta, ca, n1⟩ := ra
      simp only [hla] at h
      split at h
      · cases h
      · cases hnt : numTy ta with
        | none => simp [hnt] at h
        | some r0 =>
          obtain ⟨s, w⟩ := r0
          simp only [hnt, Option.some.injEq, Prod.mk.injEq] at h
          obtain ⟨_, _, h3, _⟩ := h
          subst h3
          refine AllOk_append (ihE a nm next aa1 ta ca n1 hla (by simpa [noDivE] using hd)) (AllOk_one ?_)
          cases left <;> cases s <;> simp [instrOk, instrTotal]
  | not a =>
    simp only [lowerE] at h
    cases hla : lowerE P f nm a next with
    | none => simp [hla] at h
    | some ra =>
      obtain ⟨aa1, ta, ca, n1⟩ := ra
      simp only [hla] at h
      split at h
      · cases h
      · cases ta <;> simp only [Option.some.injEq, Prod.mk.injEq, reduceCtorEq] at h
        obtain ⟨_, _, h3, _⟩ := h
        subst h3
        exact AllOk_append (ihE a nm next aa1 .bool ca n1 hla (by simpa [noDivE] using hd))
          (AllOk_one (by simp [instrOk, instrTotal]))
  | neg a =>
    simp only [lowerE] at h
    cases hla : lowerE P f nm a next with
    | none => simp [hla] at h
    | some ra =>
      obtain ⟨aa1, ta, ca, n1⟩ := ra
      simp only [hla] at h
      split at h
      · cases h
      · cases hnt : numTy ta with
        | none => simp [hnt] at h
        | some r0 =>
          obtain ⟨s, w⟩ := r0
          simp only [hnt, Option.some.injEq, Prod.mk.injEq] at h
          obtain ⟨_, _, h3, _⟩ := h
          subst h3
          exact AllOk_append (ihE a nm next aa1 ta ca n1 hla (by simpa [noDivE] using hd))
            (AllOk_one (by simp [instrOk, instrTotal]))
  | cast t0 a =>
    simp only [lowerE] at h
    cases hla : lowerE P f nm a next with
    | none => simp [hla] at h
    | some ra =>
      obtain ⟨aa1, ta, ca, n1⟩ := ra
      simp only [hla] at h
      have iha := ihE a nm next aa1 ta ca n1 hla (by simpa [noDivE] using hd)
      cases hnt : numTy ta with
      | none => simp [hnt] at h
      | some r0 =>
        obtain ⟨s, w⟩ := r0
        cases hnt0 : numTy t0 with
        | none => simp [hnt, hnt0] at h
        | some r1 =>
          obtain ⟨s', w'⟩ := r1
          simp only [hnt, hnt0] at h
          split at h
          · split at h
            · simp only [Option.some.injEq, Prod.mk.injEq] at h
              obtain ⟨_, _, h3, _⟩ := h
              subst h3
              exact iha
            · cases h
          · split at h
            · cases h
            · simp only [Option.some.injEq, Prod.mk.injEq] at h
              obtain ⟨_, _, h3, _⟩ := h
              subst h3
              refine AllOk_append iha (AllOk_one ?_)
              split <;> simp [instrOk, instrTotal]
  | idx a i =>
    simp only [lowerE] at h
    have hda : d = true ∨ noDivE a = true :=
      or_imp hd (fun e => by simp only [noDivE, Bool.and_eq_true] at e; exact e.1)
    have hdi : d = true ∨ noDivE i = true :=
      or_imp hd (fun e => by simp only [noDivE, Bool.and_eq_true] at e; exact e.2)
    cases hla : lowerE P f nm a next with
    | none => simp [hla] at h
    | some ra =>
      obtain ⟨aa1, ta, ca, n1⟩ := ra
      have iha := ihE a nm next aa1 ta ca n1 hla hda
      cases ta with
      | arr n e =>
        simp only [hla] at h
        split at h
        · cases h
        · cases hci : constIdx nm i with
          | some k =>
            simp only [hci] at h
            split at h
            · simp only [Option.some.injEq, Prod.mk.injEq] at h
              obtain ⟨_, _, h3, _⟩ := h
              subst h3
              exact AllOk_append iha (AllOk_one (instrOk_slice d _ _ _ _))
            · cases h
          | none =>
            simp only [hci] at h
            cases hli : lowerE P f nm i n1 with
            | none => simp [hli] at h
            | some ri =>
              obtain ⟨ia, ti, ci, n2⟩ := ri
              have ihi := ihE i nm n1 ia ti ci n2 hli hdi
              cases ti with
              | uint w =>
                simp only [hli] at h
                split at h
                · cases h
                · split at h
                  · simp only [Option.some.injEq, Prod.mk.injEq] at h
                    obtain ⟨_, _, h3, _⟩ := h
                    subst h3
                    exact AllOk_append (AllOk_append iha ihi) (AllOk_one (by simp [instrOk, instrTotal]))
                  · cases h
              | bool => simp [hli] at h
              | int _ => simp [hli] at h
              | arr _ _ => simp [hli] at h
              | struct _ => simp [hli] at h
      | bool => simp [hla] at h
      | int _ => simp [hla] at h
      | uint _ => simp [hla] at h
      | struct _ => simp [hla] at h
  | fld a k =>
    simp only [lowerE] at h
    cases hla : lowerE P f nm a next with
    | none => simp [hla] at h
    | some ra =>
      obtain ⟨aa1, ta, ca, n1⟩ := ra
      have iha := ihE a nm next aa1 ta ca n1 hla (by simpa [noDivE] using hd)
      cases ta with
      | struct fs =>
        simp only [hla] at h
        split at h
        · cases h
        · cases hfk : fs[k]? with
          | none => simp [hfk] at h
          | some tk =>
            simp only [hfk, Option.some.injEq, Prod.mk.injEq] at h
            obtain ⟨_, _, h3, _⟩ := h
            subst h3
            exact AllOk_append iha (AllOk_one (instrOk_slice d _ _ _ _))
      | bool => simp [hla] at h
      | int _ => simp [hla] at h
      | uint _ => simp [hla] at h
      | arr _ _ => simp [hla] at h
  | call g args =>
    simp only [lowerE] at h
    cases hc : lowerCall P f nm g args next with
    | none => simp [hc] at h
    | some q =>
      obtain ⟨rs, cc, n1⟩ := q
      simp only [hc] at h
      match rs, hc, h with
      | [(id, t0)], hc, h =>
        simp only [Option.some.injEq, Prod.mk.injEq] at h
        obtain ⟨_, _, h3, _⟩ := h
        subst h3
        exact ihC nm g args next _ _ _ hc (by simpa [noDivE] using hd)
      | [], _, h => simp at h
      | _ :: _ :: _, _, h => simp at h

theorem args_ok_succ (d : Bool) (P : Prog) (f : Nat) (ihE : EOk d P f) (ihA : ArgsOk d P f) : ArgsOk d P (f + 1) := by
  intro es nm next avs code next' h hd
  cases es with
  | nil =>
    simp only [lowerArgs, Option.some.injEq, Prod.mk.injEq] at h
    obtain ⟨_, h2, _⟩ := h; subst h2; exact AllOk_nil d
  | cons e es =>
    simp only [lowerArgs] at h
    cases hl : lowerE P f nm e next with
    | none => simp [hl] at h
    | some q =>
      obtain ⟨aa, t, ce, n1⟩ := q
      simp only [hl] at h
      split at h
      · cases h
      · cases hr : lowerArgs P f nm es n1 with
        | none => simp [hr] at h
        | some q2 =>
          obtain ⟨as, cs, n2⟩ := q2
          simp only [hr, Option.some.injEq, Prod.mk.injEq] at h
          obtain ⟨_, h2, _⟩ := h
          subst h2
          exact AllOk_append
            (ihE e nm next aa t ce n1 hl (or_imp hd (fun e1 => by simp only [noDivEs, Bool.and_eq_true] at e1; exact e1.1)))
            (ihA es nm n1 as cs n2 hr (or_imp hd (fun e1 => by simp only [noDivEs, Bool.and_eq_true] at e1; exact e1.2)))

theorem bindArgs_ok (d : Bool) : ∀ (ps : List (String × Ty)) (avs : List (SArg × Ty)) (next : Nat) (sc : NScope)
    (code : List SInstr) (next' : Nat), bindArgs ps avs next = some (sc, code, next') → AllOk d code
  | [], [], _, _, _, _, h => by
    simp only [bindArgs, Option.some.injEq, Prod.mk.injEq] at h
    obtain ⟨_, h2, _⟩ := h; subst h2; exact AllOk_nil d
  | [], _ :: _, _, _, _, _, h => by simp [bindArgs] at h
  | _ :: _, [], _, _, _, _, h => by simp [bindArgs] at h
  | (x, t) :: ps, (aa, ta) :: as, next, sc, code, next', h => by
    simp only [bindArgs] at h
    split at h
    · cases hr : bindArgs ps as (next + 1) with
      | none => simp [hr] at h
      | some q =>
        obtain ⟨sc2, c2, n2⟩ := q
        simp only [hr, Option.some.injEq, Prod.mk.injEq] at h
        obtain ⟨_, h2, _⟩ := h
        subst h2
        exact AllOk_cons (instrOk_mov d _ _ _) (bindArgs_ok d ps as (next + 1) sc2 c2 n2 hr)
    · cases h

theorem noDivP_get {P : Prog} {g : Nat} {fn : Func} (h : noDivP P = true) (hg : P[g]? = some fn) :
    noDivB fn.body = true := by
  simp only [noDivP, List.all_eq_true] at h
  exact h fn (List.mem_of_getElem? hg)

theorem call_ok_succ (d : Bool) (P : Prog) (hP : d = true ∨ noDivP P = true) (f : Nat) (ihA : ArgsOk d P f)
    (ihB : BOk d P f) : CallOk d P (f + 1) := by
  intro nm g args next rs code next' h hd
  simp only [lowerCall] at h
  cases hg : P[g]? with
  | none => simp [hg] at h
  | some fn =>
    simp only [hg] at h
    cases hla : lowerArgs P f nm args next with
    | none => simp [hla] at h
    | some q1 =>
      obtain ⟨avs, ca, n1⟩ := q1
      simp only [hla] at h
      cases hba : bindArgs fn.params avs n1 with
      | none => simp [hba] at h
      | some q2 =>
        obtain ⟨sc, cb, n2⟩ := q2
        simp only [hba] at h
        cases hlb : lowerB P f [sc] n2 fn.body with
        | none => simp [hlb] at h
        | some r =>
          simp only [hlb] at h
          cases hm : r.tree.mat r.next with
          | none => simp [hm] at h
          | some q3 =>
            obtain ⟨rs0, cm, n3⟩ := q3
            simp only [hm] at h
            split at h
            · simp only [Option.some.injEq, Prod.mk.injEq] at h
              obtain ⟨_, h2, _⟩ := h
              subst h2
              exact AllOk_append (AllOk_append (AllOk_append (ihA args nm next avs ca n1 hla hd)
                (bindArgs_ok d _ _ _ _ _ _ hba)) (ihB fn.body [sc] n2 r hlb (or_imp hP (fun e => noDivP_get e hg))))
                (mat_ok d r.tree r.next rs0 cm n3 hm)
            · cases h

theorem ret_ok_succ (d : Bool) (P : Prog) (f : Nat) (ihE : EOk d P f) (ihR : RetOk d P f) : RetOk d P (f + 1) := by
  intro es nm next rs code next' h hd
  cases es with
  | nil =>
    simp only [lowerRet, Option.some.injEq, Prod.mk.injEq] at h
    obtain ⟨_, h2, _⟩ := h; subst h2; exact AllOk_nil d
  | cons e es =>
    simp only [lowerRet] at h
    cases hl : lowerE P f nm e next with
    | none => simp [hl] at h
    | some q =>
      obtain ⟨aa, t, ce, n1⟩ := q
      simp only [hl] at h
      cases hr : lowerRet P f nm es (n1 + 1) with
      | none => simp [hr] at h
      | some q2 =>
        obtain ⟨rs2, cs, n2⟩ := q2
        simp only [hr, Option.some.injEq, Prod.mk.injEq] at h
        obtain ⟨_, h2, _⟩ := h
        subst h2
        exact AllOk_append (AllOk_append
          (ihE e nm next aa t ce n1 hl (or_imp hd (fun e1 => by simp only [noDivEs, Bool.and_eq_true] at e1; exact e1.1)))
          (AllOk_one (instrOk_mov d _ _ _)))
          (ihR es nm (n1 + 1) rs2 cs n2 hr (or_imp hd (fun e1 => by simp only [noDivEs, Bool.and_eq_true] at e1; exact e1.2)))

theorem assignVal_ok (d : Bool) {nm nm' : NEnv} {lv : LVal} {va : SArg} {tv : Ty} {next n2 : Nat}
    {code : List SInstr} (h : assignVal nm lv va tv next = some (nm', code, n2)) : AllOk d code := by
  unfold assignVal at h
  cases hf : nm.find lv.x with
  | none => simp [hf] at h
  | some b =>
    cases b with
    | konst _ => simp [hf] at h
    | val id tx =>
      simp only [hf] at h
      cases hp : pathOff nm tx lv.path with
      | none => simp [hp] at h
      | some q =>
        obtain ⟨off, lt⟩ := q
        simp only [hp] at h
        split at h
        · cases hset : nm.set lv.x
              (.val (storeCode lv.path va (.var id tx.bits) off lt.bits tx.bits next).2 tx) with
          | none => simp [hset] at h
          | some nm1 =>
            simp only [hset, Option.some.injEq, Prod.mk.injEq] at h
            obtain ⟨_, h2, _⟩ := h
            subst h2
            cases hpath : lv.path with
            | nil => simp only [storeCode]; exact AllOk_one (instrOk_mov d _ _ _)
            | cons ac p =>
              cases ac with
              | fld k => simp only [storeCode]; exact AllOk_one (by simp [instrOk, instrTotal])
              | idx ie =>
                simp only [storeCode]
                exact AllOk_cons (by simp [instrOk, instrTotal]) (AllOk_one (instrOk_mov d _ _ _))
        · cases h

theorem assignAllVals_ok (d : Bool) : ∀ (lvs : List LVal) (rs : List (Nat × Ty)) (nm nm' : NEnv) (next n2 : Nat)
    (code : List SInstr), assignAllVals nm lvs rs next = some (nm', code, n2) → AllOk d code
  | [], [], _, _, _, _, _, h => by
    simp only [assignAllVals, Option.some.injEq, Prod.mk.injEq] at h
    obtain ⟨_, h2, _⟩ := h; subst h2; exact AllOk_nil d
  | [], _ :: _, _, _, _, _, _, h => by simp [assignAllVals] at h
  | _ :: _, [], _, _, _, _, _, h => by simp [assignAllVals] at h
  | lv :: lvs, (id, t) :: rs, nm, nm', next, n2, code, h => by
    simp only [assignAllVals] at h
    cases h1 : assignVal nm lv (.var id t.bits) t next with
    | none => simp [h1] at h
    | some q =>
      obtain ⟨nm1, c1, n1⟩ := q
      simp only [h1] at h
      cases h2 : assignAllVals nm1 lvs rs n1 with
      | none => simp [h2] at h
      | some q2 =>
        obtain ⟨nm2, c2, n3⟩ := q2
        simp only [h2, Option.some.injEq, Prod.mk.injEq] at h
        obtain ⟨_, e2, _⟩ := h
        subst e2
        exact AllOk_append (assignVal_ok d h1) (assignAllVals_ok d lvs rs nm1 nm2 n1 n3 c2 h2)

theorem defineAllVals_ok (d : Bool) : ∀ (xs : List String) (rs : List (Nat × Ty)) (nm nm' : NEnv) (next n2 : Nat)
    (code : List SInstr), defineAllVals nm xs rs next = some (nm', code, n2) → AllOk d code
  | [], [], _, _, _, _, _, h => by
    simp only [defineAllVals, Option.some.injEq, Prod.mk.injEq] at h
    obtain ⟨_, h2, _⟩ := h; subst h2; exact AllOk_nil d
  | [], _ :: _, _, _, _, _, _, h => by simp [defineAllVals] at h
  | _ :: _, [], _, _, _, _, _, h => by simp [defineAllVals] at h
  | x :: xs, (id, t) :: rs, nm, nm', next, n2, code, h => by
    simp only [defineAllVals] at h
    cases h2 : defineAllVals (nm.declare x (.val next t)) xs rs (next + 1) with
    | none => simp [h2] at h
    | some q2 =>
      obtain ⟨nm2, c2, n3⟩ := q2
      simp only [h2, Option.some.injEq, Prod.mk.injEq] at h
      obtain ⟨_, e2, _⟩ := h
      subst e2
      exact AllOk_cons (instrOk_mov d _ _ _) (defineAllVals_ok d xs rs _ nm2 (next + 1) n3 c2 h2)

theorem retMovs_ok (d : Bool) : ∀ (rs : List (Nat × Ty)) (next : Nat), AllOk d (retMovs rs next).2.1
  | [], _ => AllOk_nil d
  | (_, _) :: rs, next => AllOk_cons (instrOk_mov d _ _ _) (retMovs_ok d rs (next + 1))

theorem stmt_ok_succ (d : Bool) (P : Prog) (f : Nat) (ihE : EOk d P f) (ihC : CallOk d P f) (ihR : RetOk d P f)
    (ihB : BOk d P f) (ihF : FOk d P f) : SOk d P (f + 1) := by
  intro s nm next r h hd
  cases s with
  | decl x t init =>
    cases init with
    | none =>
      simp only [lowerS, Option.some.injEq] at h
      subst h
      exact AllOk_one (instrOk_mov d _ _ _)
    | some e =>
      simp only [lowerS] at h
      cases hl : lowerE P f nm e next with
      | none => simp [hl] at h
      | some q =>
        obtain ⟨aa, te, ce, n1⟩ := q
        simp only [hl] at h
        split at h
        · simp only [Option.some.injEq] at h
          subst h
          exact AllOk_append (ihE e nm next aa te ce n1 hl (by simpa [noDivS] using hd))
            (AllOk_one (instrOk_mov d _ _ _))
        · cases h
  | define xs e =>
    match xs, e, h, hd with
    | [x], e, h, hd =>
      simp only [lowerS] at h
      cases hl : lowerE P f nm e next with
      | none => simp [hl] at h
      | some q =>
        obtain ⟨aa, te, ce, n1⟩ := q
        simp only [hl] at h
        split at h
        · cases h
        · simp only [Option.some.injEq] at h
          subst h
          exact AllOk_append (ihE e nm next aa te ce n1 hl (by simpa [noDivS] using hd))
            (AllOk_one (instrOk_mov d _ _ _))
    | x :: y :: xs, .call g args, h, hd =>
      simp only [lowerS] at h
      cases hc : lowerCall P f nm g args next with
      | none => simp [hc] at h
      | some q =>
        obtain ⟨rs, cc, n1⟩ := q
        simp only [hc] at h
        cases hdv : defineAllVals nm (x :: y :: xs) rs n1 with
        | none => simp [hdv] at h
        | some q2 =>
          obtain ⟨nm', cd, n2⟩ := q2
          simp only [hdv, Option.some.injEq] at h
          subst h
          exact AllOk_append (ihC nm g args next rs cc n1 hc (by simpa [noDivS, noDivE] using hd))
            (defineAllVals_ok d _ _ _ _ _ _ _ hdv)
    | [], _, h, _ => simp [lowerS] at h
    | _ :: _ :: _, .lit _ _, h, _ => simp [lowerS] at h
    | _ :: _ :: _, .var _, h, _ => simp [lowerS] at h
    | _ :: _ :: _, .bin _ _ _, h, _ => simp [lowerS] at h
    | _ :: _ :: _, .shift _ _ _, h, _ => simp [lowerS] at h
    | _ :: _ :: _, .not _, h, _ => simp [lowerS] at h
    | _ :: _ :: _, .neg _, h, _ => simp [lowerS] at h
    | _ :: _ :: _, .cast _ _, h, _ => simp [lowerS] at h
    | _ :: _ :: _, .idx _ _, h, _ => simp [lowerS] at h
    | _ :: _ :: _, .fld _ _, h, _ => simp [lowerS] at h
  | assign lvs e =>
    match lvs, e, h, hd with
    | [lv], e, h, hd =>
      simp only [lowerS] at h
      cases hl : lowerE P f nm e next with
      | none => simp [hl] at h
      | some q =>
        obtain ⟨aa, te, ce, n1⟩ := q
        simp only [hl] at h
        cases ha : assignVal nm lv aa te n1 with
        | none => simp [ha] at h
        | some q2 =>
          obtain ⟨nm', ca, n2⟩ := q2
          simp only [ha, Option.some.injEq] at h
          subst h
          exact AllOk_append (ihE e nm next aa te ce n1 hl (by simpa [noDivS] using hd)) (assignVal_ok d ha)
    | l1 :: l2 :: lvs, .call g args, h, hd =>
      simp only [lowerS] at h
      cases hc : lowerCall P f nm g args next with
      | none => simp [hc] at h
      | some q =>
        obtain ⟨rs, cc, n1⟩ := q
        simp only [hc] at h
        cases hdv : assignAllVals nm (l1 :: l2 :: lvs) rs n1 with
        | none => simp [hdv] at h
        | some q2 =>
          obtain ⟨nm', cd, n2⟩ := q2
          simp only [hdv, Option.some.injEq] at h
          subst h
          exact AllOk_append (ihC nm g args next rs cc n1 hc (by simpa [noDivS, noDivE] using hd))
            (assignAllVals_ok d _ _ _ _ _ _ _ hdv)
    | [], _, h, _ => simp [lowerS] at h
    | _ :: _ :: _, .lit _ _, h, _ => simp [lowerS] at h
    | _ :: _ :: _, .var _, h, _ => simp [lowerS] at h
    | _ :: _ :: _, .bin _ _ _, h, _ => simp [lowerS] at h
    | _ :: _ :: _, .shift _ _ _, h, _ => simp [lowerS] at h
    | _ :: _ :: _, .not _, h, _ => simp [lowerS] at h
    | _ :: _ :: _, .neg _, h, _ => simp [lowerS] at h
    | _ :: _ :: _, .cast _ _, h, _ => simp [lowerS] at h
    | _ :: _ :: _, .idx _ _, h, _ => simp [lowerS] at h
    | _ :: _ :: _, .fld _ _, h, _ => simp [lowerS] at h
  | ifte c th el =>
    simp only [lowerS] at h
    cases hl : lowerE P f nm c next with
    | none => simp [hl] at h
    | some q =>
      obtain ⟨ac, tc, cc, n1⟩ := q
      simp only [hl] at h
      cases ac with
      | var cid cw =>
        cases tc with
        | bool =>
          simp only at h
          cases hlt : lowerB P f ([] :: nm) n1 th with
          | none => simp [hlt] at h
          | some rt =>
            simp only [hlt] at h
            cases hlf : lowerB P f ([] :: nm) rt.next el with
            | none => simp [hlf] at h
            | some rf =>
              simp only [hlf] at h
              cases hj : joinN cid (popN rt.nms) (popN rf.nms) rf.next with
              | none => simp [hj] at h
              | some q2 =>
                obtain ⟨nms', cm, n4⟩ := q2
                simp only [hj, Option.some.injEq] at h
                subst h
                have hdc : d = true ∨ noDivE c = true :=
                  or_imp hd (fun e => by simp only [noDivS, Bool.and_eq_true] at e; exact e.1.1)
                have hdt : d = true ∨ noDivB th = true :=
                  or_imp hd (fun e => by simp only [noDivS, Bool.and_eq_true] at e; exact e.1.2)
                have hdf : d = true ∨ noDivB el = true :=
                  or_imp hd (fun e => by simp only [noDivS, Bool.and_eq_true] at e; exact e.2)
                exact AllOk_append (AllOk_append (AllOk_append (ihE c nm next _ _ cc n1 hl hdc)
                  (ihB th _ n1 rt hlt hdt)) (ihB el _ rt.next rf hlf hdf)) (joinN_ok d cid _ _ _ nms' cm n4 hj)
        | int _ => simp at h
        | uint _ => simp at h
        | arr _ _ => simp at h
        | struct _ => simp at h
      | const _ _ _ _ _ => simp at h
      | pat _ _ => simp at h
      | k _ => simp at h
  | «for» i lo c hi stp body =>
    simp only [lowerS] at h
    exact ihF i lo c hi stp body nm next r h (by simpa [noDivS] using hd)
  | ret es =>
    simp only [lowerS] at h
    cases hrc : retCallOf es with
    | some q0 =>
      obtain ⟨g, args⟩ := q0
      simp only [hrc] at h
      have hes := retCallOf_some hrc
      subst hes
      cases hc : lowerCall P f nm g args next with
      | none => simp [hc] at h
      | some q =>
        obtain ⟨rs, cc, n1⟩ := q
        simp only [hc, Option.some.injEq] at h
        subst h
        exact AllOk_append (ihC nm g args next rs cc n1 hc (by simpa [noDivS, noDivEs, noDivE] using hd))
          (retMovs_ok d rs n1)
    | none =>
      simp only [hrc] at h
      cases hl : lowerRet P f nm es next with
      | none => simp [hl] at h
      | some q =>
        obtain ⟨rs, code, n1⟩ := q
        simp only [hl, Option.some.injEq] at h
        subst h
        exact ihR es nm next rs code n1 hl (by simpa [noDivS] using hd)

theorem block_ok_succ (d : Bool) (P : Prog) (f : Nat) (ihS : SOk d P f) (ihB : BOk d P f) : BOk d P (f + 1) := by
  intro ss nm next r h hd
  cases ss with
  | nil =>
    simp only [lowerB, Option.some.injEq] at h
    subst h
    exact AllOk_nil d
  | cons s ss =>
    simp only [lowerB] at h
    have hds : d = true ∨ noDivS s = true :=
      or_imp hd (fun e => by simp only [noDivB, Bool.and_eq_true] at e; exact e.1)
    have hdss : d = true ∨ noDivB ss = true :=
      or_imp hd (fun e => by simp only [noDivB, Bool.and_eq_true] at e; exact e.2)
    cases hs : lowerS P f nm next s with
    | none => simp [hs] at h
    | some r1 =>
      simp only [hs] at h
      cases hrn : r1.nms with
      | none =>
        simp only [hrn] at h
        cases ss with
        | nil =>
          simp only [Option.some.injEq] at h
          subst h
          exact ihS s nm next r1 hs hds
        | cons _ _ => simp at h
      | some nm1 =>
        simp only [hrn] at h
        cases hb : lowerB P f nm1 r1.next ss with
        | none => simp [hb] at h
        | some r2 =>
          simp only [hb, Option.some.injEq] at h
          subst h
          exact AllOk_append (ihS s nm next r1 hs hds) (ihB ss nm1 r1.next r2 hb hdss)

theorem for_ok_succ (d : Bool) (P : Prog) (f : Nat) (ihB : BOk d P f) (ihF : FOk d P f) : FOk d P (f + 1) := by
  intro i cur c hi stp body nm next r h hd
  simp only [lowerFor] at h
  split at h
  · split at h
    · cases hb : lowerB P f ([(i, .konst cur.toNat)] :: nm) next body with
      | none => simp [hb] at h
      | some r1 =>
        simp only [hb] at h
        cases hrn : popN r1.nms with
        | none =>
          simp only [hrn, Option.some.injEq] at h
          subst h
          exact ihB body _ next r1 hb hd
        | some nm1 =>
          simp only [hrn] at h
          cases hl2 : lowerFor P f i (cur + stp) c hi stp body nm1 r1.next with
          | none => simp [hl2] at h
          | some r2 =>
            simp only [hl2, Option.some.injEq] at h
            subst h
            exact AllOk_append (ihB body _ next r1 hb hd) (ihF i (cur + stp) c hi stp body nm1 r1.next r2 hl2 hd)
    · cases h
  · simp only [Option.some.injEq] at h
    subst h
    exact AllOk_nil d

/-- All instructions the lowering emits are well formed, and division-free when
the source program is. -/
theorem lower_all_ok (d : Bool) (P : Prog) (hP : d = true ∨ noDivP P = true) : ∀ f : Nat,
    EOk d P f ∧ ArgsOk d P f ∧ CallOk d P f ∧ RetOk d P f ∧ SOk d P f ∧ BOk d P f ∧ FOk d P f := by
  intro f
  induction f with
  | zero =>
    refine ⟨?_, ?_, ?_, ?_, ?_, ?_, ?_⟩
    · intro e nm next aa t code next' h; simp [lowerE] at h
    · intro es nm next avs code next' h; simp [lowerArgs] at h
    · intro nm g args next rs code next' h; simp [lowerCall] at h
    · intro es nm next rs code next' h; simp [lowerRet] at h
    · intro s nm next r h; simp [lowerS] at h
    · intro ss nm next r h; simp [lowerB] at h
    · intro i cur c hi stp body nm next r h; simp [lowerFor] at h
  | succ f ih =>
    obtain ⟨ihE, ihA, ihC, ihR, ihS, ihB, ihF⟩ := ih
    exact ⟨expr_ok_succ d P f ihE ihC, args_ok_succ d P f ihE ihA, call_ok_succ d P hP f ihA ihB,
      ret_ok_succ d P f ihE ihR, stmt_ok_succ d P f ihE ihC ihR ihB ihF, block_ok_succ d P f ihS ihB,
      for_ok_succ d P f ihB ihF⟩

/-- An instruction that is not a division cannot fail. -/
theorem instrTotal_step (i : SInstr) (h : instrOk false i = true) (st : Nat → Nat) :
    ∃ st', ssaSteps [i] st = some st' := by
  obtain ⟨op, ins, out⟩ := i
  simp only [instrOk, Bool.false_and, Bool.or_false, instrTotal, Bool.and_eq_true] at h
  obtain ⟨ho, hm⟩ := h
  cases out with
  | none => simp at ho
  | some o =>
    obtain ⟨id, ow⟩ := o
    have : ∃ v, evalOp op (ins.map (argVal st)) ow = some v := by
      match ins, hm with
      | [], hm => cases op <;> simp at hm
      | [a], hm =>
        simp only [List.map_cons, List.map_nil]
        generalize argVal st a = pa
        obtain ⟨x, wx⟩ := pa
        cases op <;> first | (simp at hm; done) | exact ⟨_, rfl⟩
      | [a, b], hm =>
        simp only [List.map_cons, List.map_nil]
        generalize argVal st a = pa
        generalize argVal st b = pb
        obtain ⟨x, wx⟩ := pa
        obtain ⟨y, wy⟩ := pb
        cases op <;> first | (simp at hm; done) | exact ⟨_, rfl⟩
      | [a, b, c], hm =>
        simp only [List.map_cons, List.map_nil]
        generalize argVal st a = pa
        generalize argVal st b = pb
        generalize argVal st c = pc
        obtain ⟨x, wx⟩ := pa
        obtain ⟨y, wy⟩ := pb
        obtain ⟨z, wz⟩ := pc
        cases op <;> first | (simp at hm; done) | exact ⟨_, rfl⟩
      | [a, b, c, e], hm =>
        simp only [List.map_cons, List.map_nil]
        generalize argVal st a = pa
        generalize argVal st b = pb
        generalize argVal st c = pc
        generalize argVal st e = pe
        obtain ⟨x, wx⟩ := pa
        obtain ⟨y, wy⟩ := pb
        obtain ⟨z, wz⟩ := pc
        obtain ⟨u, wu⟩ := pe
        cases op <;> first | (simp at hm; done) | exact ⟨_, rfl⟩
      | _ :: _ :: _ :: _ :: _ :: _, hm => cases op <;> simp at hm
    obtain ⟨v, hv⟩ := this
    exact ⟨_, ssaSteps_one_mk hv⟩

theorem ssaSteps_total : ∀ (code : List SInstr), AllOk false code → ∀ st : Nat → Nat, ∃ st', ssaSteps code st = some st'
  | [], _, st => ⟨st, rfl⟩
  | i :: rest, h, st => by
    obtain ⟨st1, h1⟩ := instrTotal_step i (h i (by simp)) st
    obtain ⟨st2, h2⟩ := ssaSteps_total rest (fun j hj => h j (List.mem_cons_of_mem _ hj)) st1
    exact ⟨st2, by
      have : (i :: rest : List SInstr) = [i] ++ rest := rfl
      rw [this]; exact ssaSteps_join h1 h2⟩

end Mpc.Mpcl.Ssa

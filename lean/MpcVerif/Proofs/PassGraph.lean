/-
C09, pass models: well-formedness and solutions of a builder-level graph in
index form, and the bridge to the list-level semantics of `PassSem.lean`.
-/
import MpcVerif.Proofs.PassSem

set_option linter.unusedSimpArgs false
set_option linter.unusedVariables false

namespace Mpc

theorem Op.binary_iff_ne_inv (op : Op) : op.binary = true ↔ op ≠ .inv := by
  cases op <;> simp [Op.binary]

namespace Graph

/-- Gate `i` exists and is not dead. -/
def live (G : Graph) (i : Nat) : Prop := i < G.gates.size ∧ (G.gate i).dead = false

/-- Single assignment and weak topological order of the live gates, in index
form (`cc.Gates` order). -/
structure GWF (G : Graph) : Prop where
  nin    : G.nIn ≤ G.wires.size
  obound : ∀ i, G.live i → G.nIn ≤ (G.gate i).o ∧ (G.gate i).o < G.wires.size
  odist  : ∀ i j, G.live i → G.live j → (G.gate i).o = (G.gate j).o → i = j
  topo   : ∀ i j, i ≤ j → G.live i → G.live j →
             (G.gate j).o ≠ (G.gate i).a ∧ ((G.gate i).op ≠ .inv → (G.gate j).o ≠ (G.gate i).b)

/-- The gate equation of gate `g` in store `s`. -/
def gateEq (s : Store Bool) (g : BGate) : Prop :=
  s.get g.o = g.op.eval (s.get g.a) (s.get g.b)

/-- Index form of "s solves the graph for input x". -/
structure GSol (G : Graph) (x : List Bool) (s : Store Bool) : Prop where
  size  : s.size = G.wires.size
  inp   : ∀ w, w < G.nIn → s.get w = (x.take G.nIn).getD w false
  sem   : ∀ i, G.live i → gateEq s (G.gate i)
  undef : ∀ w, G.nIn ≤ w → (∀ i, G.live i → (G.gate i).o ≠ w) → s.get w = false

end Graph

/-! ### list lemmas: live gates of a `BGate` list -/

def lgOf (l : List BGate) : List Gate := (l.filter fun g => !g.dead).map BGate.toGate

theorem lgOf_cons (b : BGate) (t : List BGate) :
    lgOf (b :: t) = if b.dead then lgOf t else b.toGate :: lgOf t := by
  simp only [lgOf, List.filter_cons]
  cases b.dead <;> simp

theorem mem_lgOf (l : List BGate) (g : Gate) :
    g ∈ lgOf l ↔ ∃ i, i < l.length ∧ (l.getD i default).dead = false ∧ g = (l.getD i default).toGate := by
  induction l with
  | nil => simp [lgOf]
  | cons b t ih =>
    rw [lgOf_cons]
    constructor
    · intro h
      cases hb : b.dead
      · rw [hb] at h
        simp only [Bool.false_eq_true, if_false, List.mem_cons] at h
        rcases h with rfl | h
        · exact ⟨0, by simp, by simpa using hb, by simp⟩
        · obtain ⟨i, hi, hd, hg⟩ := ih.mp h
          exact ⟨i + 1, by simp; omega, by simpa using hd, by simpa using hg⟩
      · rw [hb] at h
        simp only [if_true] at h
        obtain ⟨i, hi, hd, hg⟩ := ih.mp h
        exact ⟨i + 1, by simp; omega, by simpa using hd, by simpa using hg⟩
    · rintro ⟨i, hi, hd, hg⟩
      cases i with
      | zero =>
        simp only [List.getD_cons_zero] at hd hg
        rw [hd]
        simp [hg]
      | succ i =>
        simp only [List.getD_cons_succ] at hd hg
        simp only [List.length_cons] at hi
        have : g ∈ lgOf t := ih.mpr ⟨i, by omega, hd, hg⟩
        cases b.dead <;> simp [this]

theorem ins_toGate (b : BGate) (w : Nat) :
    w ∈ b.toGate.ins ↔ w = b.a ∨ (b.op ≠ .inv ∧ w = b.b) := by
  rw [mem_ins]
  simp only [BGate.toGate, Op.binary_iff_ne_inv]

/-- Index-form well-formedness of a `BGate` list gives list well-formedness
of its live gates. -/
theorem listWF_of_index (n nIn : Nat) (hn : nIn ≤ n) : ∀ (l : List BGate),
    (∀ i, i < l.length → (l.getD i default).dead = false →
      nIn ≤ (l.getD i default).o ∧ (l.getD i default).o < n) →
    (∀ i j, i < l.length → j < l.length → (l.getD i default).dead = false →
      (l.getD j default).dead = false → (l.getD i default).o = (l.getD j default).o → i = j) →
    (∀ i j, i ≤ j → j < l.length → (l.getD i default).dead = false → (l.getD j default).dead = false →
      (l.getD j default).o ≠ (l.getD i default).a ∧
      ((l.getD i default).op ≠ .inv → (l.getD j default).o ≠ (l.getD i default).b)) →
    ListWF n nIn (lgOf l) := by
  intro l
  induction l with
  | nil => intro _ _ _; exact ⟨hn, by simp [lgOf], by simp [lgOf], by simp [lgOf], by simp [lgOf, weakTopo]⟩
  | cons b t ih =>
    intro hb hd ht
    have iht := ih
      (fun i hi hdd => by simpa using hb (i + 1) (by simp; omega) (by simpa using hdd))
      (fun i j hi hj hdi hdj ho => by
        have := hd (i + 1) (j + 1) (by simp; omega) (by simp; omega) (by simpa using hdi)
          (by simpa using hdj) (by simpa using ho)
        omega)
      (fun i j hij hj hdi hdj => by
        simpa using ht (i + 1) (j + 1) (by omega) (by simp; omega) (by simpa using hdi) (by simpa using hdj))
    rw [lgOf_cons]
    cases hbd : b.dead
    · simp only [Bool.false_eq_true, if_false]
      have hb0 := hb 0 (by simp) (by simpa using hbd)
      simp only [List.getD_cons_zero] at hb0
      -- facts about later live gates
      have hlater : ∀ g ∈ lgOf t, g.out ≠ b.o ∧ g.out ≠ b.a ∧ (b.op ≠ .inv → g.out ≠ b.b) := by
        intro g hg
        obtain ⟨j, hj, hdj, rfl⟩ := (mem_lgOf t g).mp hg
        have h1 := hd 0 (j + 1) (by simp) (by simp; omega) (by simpa using hbd) (by simpa using hdj)
        have h2 := ht 0 (j + 1) (by omega) (by simp; omega) (by simpa using hbd) (by simpa using hdj)
        simp only [List.getD_cons_zero, List.getD_cons_succ] at h1 h2
        refine ⟨fun h => ?_, h2.1, h2.2⟩
        have := h1 h.symm
        omega
      have h00 := ht 0 0 (by omega) (by simp) (by simpa using hbd) (by simpa using hbd)
      simp only [List.getD_cons_zero] at h00
      refine ⟨hn, ?_, ?_, ?_, ?_, iht.topo⟩
      · simp only [List.map_cons, List.nodup_cons, List.mem_map, not_exists, not_and]
        exact ⟨fun g hg h => (hlater g hg).1 h, iht.nodup⟩
      · intro g hg
        rcases List.mem_cons.mp hg with rfl | hg
        · exact hb0.1
        · exact iht.notIn g hg
      · intro g hg
        rcases List.mem_cons.mp hg with rfl | hg
        · exact hb0.2
        · exact iht.bound g hg
      · intro w hw g' hg'
        rw [ins_toGate] at hw
        rcases List.mem_cons.mp hg' with rfl | hg'
        · rcases hw with rfl | ⟨hop, rfl⟩
          · exact h00.1
          · exact h00.2 hop
        · rcases hw with rfl | ⟨hop, rfl⟩
          · exact (hlater g' hg').2.1
          · exact (hlater g' hg').2.2 hop
    · simp only [if_true]
      exact iht

namespace Graph

theorem gate_eq_getD (G : Graph) (i : Nat) : G.gate i = G.gates.toList.getD i default := by
  simp [Graph.gate, Array.getD_eq_getD_getElem?, List.getD_eq_getElem?_getD]

theorem liveGates_eq (G : Graph) : G.liveGates = lgOf G.gates.toList := rfl

theorem mem_liveGates (G : Graph) (g : Gate) :
    g ∈ G.liveGates ↔ ∃ i, G.live i ∧ g = (G.gate i).toGate := by
  rw [liveGates_eq, mem_lgOf]
  constructor
  · rintro ⟨i, hi, hd, hg⟩
    exact ⟨i, ⟨by simpa using hi, by rw [gate_eq_getD]; exact hd⟩, by rw [gate_eq_getD]; exact hg⟩
  · rintro ⟨i, ⟨hi, hd⟩, hg⟩
    exact ⟨i, by simpa using hi, by rw [← gate_eq_getD]; exact hd, by rw [← gate_eq_getD]; exact hg⟩

theorem GWF.listWF {G : Graph} (h : G.GWF) : ListWF G.wires.size G.nIn G.liveGates := by
  rw [liveGates_eq]
  apply listWF_of_index _ _ h.nin
  · intro i hi hd
    rw [← gate_eq_getD] at hd ⊢
    exact h.obound i ⟨by simpa using hi, hd⟩
  · intro i j hi hj hdi hdj ho
    rw [← gate_eq_getD] at hdi hdj ho
    rw [← gate_eq_getD] at ho
    exact h.odist i j ⟨by simpa using hi, hdi⟩ ⟨by simpa using hj, hdj⟩ ho
  · intro i j hij hj hdi hdj
    rw [← gate_eq_getD] at hdi hdj
    rw [← gate_eq_getD, ← gate_eq_getD]
    exact h.topo i j hij ⟨by simp at hj; omega, hdi⟩ ⟨by simpa using hj, hdj⟩

theorem GSol.sol {G : Graph} {x : List Bool} {s : Store Bool} (h : G.GSol x s) :
    Sol G.wires.size G.nIn G.liveGates x s := by
  refine ⟨h.size, h.inp, fun g hg => ?_, fun w hw hno => ?_⟩
  · obtain ⟨i, hi, rfl⟩ := (mem_liveGates G g).mp hg
    exact h.sem i hi
  · exact h.undef w hw (fun i hi => hno _ ((mem_liveGates G _).mpr ⟨i, hi, rfl⟩))

theorem gsol_of_sol {G : Graph} {x : List Bool} {s : Store Bool}
    (h : Sol G.wires.size G.nIn G.liveGates x s) : G.GSol x s := by
  refine ⟨h.size, h.inp, fun i hi => ?_, fun w hw hno => ?_⟩
  · exact h.sem _ ((mem_liveGates G _).mpr ⟨i, hi, rfl⟩)
  · refine h.undef w hw (fun g hg => ?_)
    obtain ⟨i, hi, rfl⟩ := (mem_liveGates G g).mp hg
    exact hno i hi

/-- In-order evaluation is a solution of a well-formed graph. -/
theorem evalStore_gsol {G : Graph} (h : G.GWF) (x : List Bool) : G.GSol x (G.evalStore x) :=
  gsol_of_sol (eval_sol _ _ _ x h.listWF)

/-- Every solution of a well-formed graph gives the graph's outputs. -/
theorem compute_eq_of_gsol {G : Graph} (h : G.GWF) (x : List Bool) (s : Store Bool) (hs : G.GSol x s) :
    G.compute x = G.outputs.map s.get := by
  simp only [compute]
  apply List.map_congr_left
  intro w _
  exact sol_unique _ _ _ x _ _ h.listWF (evalStore_gsol h x).sol hs.sol w

/-- The way pass correctness is proved: a well-formed graph `G'` that has a
solution agreeing on the outputs with a solution of the well-formed `G`
computes the same function. -/
theorem compute_eq_of_sols {G G' : Graph} (h : G.GWF) (h' : G'.GWF) (hout : G'.outputs = G.outputs)
    (x : List Bool) (s s' : Store Bool) (hs : G.GSol x s) (hs' : G'.GSol x s')
    (hag : ∀ w ∈ G.outputs, s'.get w = s.get w) : G'.compute x = G.compute x := by
  rw [compute_eq_of_gsol h x s hs, compute_eq_of_gsol h' x s' hs', hout]
  exact List.map_congr_left hag

end Graph
end Mpc

/-
T1 tie (DESIGN.md 1.3): every definition of `MpcVerif/Gen/Leaf.lean` — which
`harness/cmd/gofacts translate` REGENERATES from the current Go source of
`ot/label.go`, `circuit/garble.go`, `circuit/helpers.go` on every run of
`checks/t1.py` — equals the hand-written model (`Model/LabelBV.lean`,
`Model/Garble.lean`) on the joined 128-bit value `join D0 D1 = D0 ++ D1`.
A semantic edit of one of those Go functions changes the generated definition
and breaks the corresponding `tie_*` theorem at `lake build` time.

The tweak is a Go `uint32`, in the generated code a `BitVec 32`; the model
takes a `Nat` (`tweak t = ofNat 128 (t % 2^32)`).  The ties are stated for
`t.toNat` (all `t : BitVec 32`) and, as corollaries `…_nat`, for `t < 2^32`.
`cipher.Block.Encrypt` is the arbitrary function `π`; the scratch buffer
`data` is universally quantified (the result does not depend on it).
Core Lean only.
-/
import MpcVerif.Gen.Leaf
import MpcVerif.Model.LabelBV

namespace Mpc.GenTie
open Mpc Mpc.Gen

/-- The 128-bit value of a label: `D0` is the high word. -/
def join (d0 d1 : BitVec 64) : BitVec 128 := d0 ++ d1
/-- `joinL l = join l.D0 l.D1` (reducible). -/
abbrev joinL (l : Gen.Label) : BitVec 128 := join l.1 l.2
def hi64 (x : BitVec 128) : BitVec 64 := x.extractLsb' 64 64
def lo64 (x : BitVec 128) : BitVec 64 := x.extractLsb' 0 64

theorem getLsbD_join (a b : BitVec 64) (i : Nat) :
    (join a b).getLsbD i = if i < 64 then b.getLsbD i else a.getLsbD (i - 64) :=
  BitVec.getLsbD_append

theorem hi64_join (a b : BitVec 64) : hi64 (join a b) = a := by
  apply BitVec.eq_of_getLsbD_eq; intro i hi
  simp [hi64, getLsbD_join, hi]
theorem lo64_join (a b : BitVec 64) : lo64 (join a b) = b := by
  apply BitVec.eq_of_getLsbD_eq; intro i hi
  simp [lo64, getLsbD_join, hi]
theorem join_hi_lo (x : BitVec 128) : join (hi64 x) (lo64 x) = x := by
  apply BitVec.eq_of_getLsbD_eq; intro i hi
  simp only [hi64, lo64, getLsbD_join, BitVec.getLsbD_extractLsb']
  by_cases h : i < 64
  · simp [h]
  · have h1 : i - 64 < 64 := by omega
    have h2 : 64 + (i - 64) = i := by omega
    simp [h, h1, h2]
theorem join_inj {a b c d : BitVec 64} : join a b = join c d ↔ a = c ∧ b = d := by
  constructor
  · intro h
    exact ⟨by simpa [hi64_join] using congrArg hi64 h, by simpa [lo64_join] using congrArg lo64 h⟩
  · rintro ⟨rfl, rfl⟩; rfl
theorem join_xor (a b c d : BitVec 64) : join a b ^^^ join c d = join (a ^^^ c) (b ^^^ d) := BitVec.xor_append
theorem join_and (a b c d : BitVec 64) : join a b &&& join c d = join (a &&& c) (b &&& d) := BitVec.and_append
theorem join_or (a b c d : BitVec 64) : join a b ||| join c d = join (a ||| c) (b ||| d) := BitVec.or_append
theorem join_msb (a b : BitVec 64) : (join a b).msb = a.msb := by
  rw [BitVec.msb_eq_getLsbD_last, BitVec.msb_eq_getLsbD_last, getLsbD_join]; simp

theorem join_shl (a b : BitVec 64) (n : Nat) (hn : n ≤ 64) :
    join a b <<< n = join (a <<< n ||| b >>> (64 - n)) (b <<< n) := by
  apply BitVec.eq_of_getLsbD_eq; intro i hi
  simp only [getLsbD_join, BitVec.getLsbD_shiftLeft, BitVec.getLsbD_or, BitVec.getLsbD_ushiftRight]
  by_cases h : i < 64 <;> by_cases h0 : i < n
  · simp [h, h0, hi]
  · have : i - n < 64 := by omega
    simp [h, h0, hi, this]
  · omega
  · have h2 : ¬ (i - n < 64) ∨ i - n < 64 := by omega
    have h3 : i - 64 < 64 := by omega
    rcases h2 with h2 | h2
    · have h5 : ¬ (i - 64 < n) := by omega
      have h6 : i - 64 - n = i - n - 64 := by omega
      have h7 : b.getLsbD (64 - n + (i - 64)) = false := by
        apply BitVec.getLsbD_of_ge; omega
      simp [h, h0, hi, h2, h3, h5, h6, h7]
    · have h5 : i - 64 < n := by omega
      have h4 : 64 - n + (i - 64) = i - n := by omega
      simp [h, h0, hi, h2, h3, h5, h4]

theorem toNat_join (a b : BitVec 64) : (join a b).toNat = a.toNat <<< 64 ||| b.toNat := BitVec.toNat_append a b

theorem append_eq_join (a b : BitVec 64) : a ++ b = join a b := rfl
theorem extract_hi (x : BitVec 128) : BitVec.extractLsb' 64 64 x = hi64 x := rfl
theorem extract_lo (x : BitVec 128) : BitVec.extractLsb' 0 64 x = lo64 x := rfl

/-- Closes `join A B = join A' B'` (or an equation of 128-bit XOR/AND terms) up to
associativity/commutativity, so that the ties survive a reordering of operands in the Go source. -/
macro "join_ac" : tactic =>
  `(tactic| first | with_reducible rfl | ac_rfl
                  | (rw [join_inj]; constructor <;> first | with_reducible rfl | ac_rfl))

theorem tie_Xor (l o : Gen.Label) : joinL (Label.Xor l o) = joinL l ^^^ joinL o := by
  simp only [Label.Xor, joinL, join_xor] <;> join_ac
theorem tie_And (l o : Gen.Label) : joinL (Label.And l o) = joinL l &&& joinL o := by
  simp only [Label.And, joinL, join_and] <;> join_ac
theorem tie_Mul2 (l : Gen.Label) : joinL (Label.Mul2 l) = joinL l <<< 1 := by
  simp only [Label.Mul2]; exact (join_shl l.1 l.2 1 (by omega)).symm
theorem tie_Mul4 (l : Gen.Label) : joinL (Label.Mul4 l) = joinL l <<< 2 := by
  simp only [Label.Mul4]; exact (join_shl l.1 l.2 2 (by omega)).symm
theorem tie_Equal (l o : Gen.Label) : Label.Equal l o = (joinL l == joinL o) := by
  rw [Bool.eq_iff_iff]; simp [Label.Equal, join_inj]
theorem tie_GetData (l : Gen.Label) (buf : BitVec 128) : Label.GetData l buf = joinL l := by
  simp only [Label.GetData, append_eq_join, extract_hi, extract_lo, hi64_join]
theorem tie_SetData (l : Gen.Label) (d : BitVec 128) : joinL (Label.SetData l d) = d := by
  simp only [Label.SetData, joinL, extract_hi, extract_lo, join_hi_lo]

/-- The model's tweak label, split into words (independent of the generated code). -/
theorem tweak_eq_join (t : BitVec 32) : tweak t.toNat = join 0#64 (BitVec.setWidth 64 t) := by
  apply BitVec.eq_of_toNat_eq
  simp [toNat_join, tweak]
  omega
theorem tie_NewTweak (t : BitVec 32) : joinL (NewTweak t) = tweak t.toNat := by
  rw [tweak_eq_join]; rfl

theorem tie_makeKHalf (x : Gen.Label) (i : BitVec 32) :
    joinL (Gen.makeKHalf x i) = Mpc.makeKHalf (joinL x) i.toNat := by
  simp only [Gen.makeKHalf, Mpc.makeKHalf, tie_Xor, tie_Mul2, tie_NewTweak] <;> ac_rfl
theorem tie_makeK (a b : Gen.Label) (t : BitVec 32) :
    joinL (Gen.makeK a b t) = Mpc.makeK (joinL a) (joinL b) t.toNat := by
  simp only [Gen.makeK, Mpc.makeK, tie_Xor, tie_Mul2, tie_Mul4, tie_NewTweak] <;> ac_rfl

theorem tie_encrypt (π : BitVec 128 → BitVec 128) (a b c : Gen.Label) (t : BitVec 32) (data : BitVec 128) :
    joinL (Gen.encrypt π a b c t data) = (hashOf π).h2 (joinL a) (joinL b) t.toNat ^^^ joinL c := by
  simp only [Gen.encrypt, hashOf, tie_Xor, tie_SetData, tie_GetData, tie_makeK] <;> ac_rfl
theorem tie_decrypt (π : BitVec 128 → BitVec 128) (a b c : Gen.Label) (t : BitVec 32) (data : BitVec 128) :
    joinL (Gen.decrypt π a b t c data) = (hashOf π).h2 (joinL a) (joinL b) t.toNat ^^^ joinL c := by
  simp only [Gen.decrypt, hashOf, tie_Xor, tie_SetData, tie_GetData, tie_makeK] <;> ac_rfl


theorem and_twoPow_ne_zero (a : BitVec 64) (k : Nat) (hk : k < 64) :
    (a &&& BitVec.twoPow 64 k != 0#64) = a.getLsbD k := by
  rw [BitVec.and_twoPow]
  cases h : a.getLsbD k
  · simp
  · have h2 : BitVec.twoPow 64 k ≠ 0#64 := by
      intro h2
      have := congrArg (fun x => x.getLsbD k) h2
      simp [hk] at this
    simp [h2]

theorem tie_S (l : Gen.Label) : Label.S l = (joinL l).msb := by
  have h : (0x8000000000000000#64) = BitVec.twoPow 64 63 := by decide
  simp only [Label.S, h, join_msb]
  rw [and_twoPow_ne_zero _ _ (by omega), BitVec.msb_eq_getLsbD_last]

theorem tie_SetS (l : Gen.Label) (s : Bool) :
    joinL (Label.SetS l s) = if s then setS (joinL l) else joinL l &&& ~~~(1#128 <<< 127) := by
  have h1 : (1#128 <<< 127) = join 0x8000000000000000#64 0#64 := by decide
  have h0 : ~~~(1#128 <<< 127) = join 0x7fffffffffffffff#64 (BitVec.allOnes 64) := by decide
  cases s
  · simp only [Label.SetS, Bool.false_eq_true, if_false, h0, joinL, join_and, BitVec.and_allOnes]
  · simp only [Label.SetS, setS, if_true, h1, joinL, join_or, BitVec.or_zero]

theorem sbit_eq (x : BitVec 128) : LabelAlg.sbit x = x.msb := rfl

theorem tie_idxUnary (a : Gen.Label) : (Gen.idxUnary a).toNat = Mpc.idxUnary (joinL a) := by
  simp only [Gen.idxUnary, Mpc.idxUnary, tie_S, sbit_eq]
  by_cases h : (joinL a).msb = true <;> simp [h]
theorem tie_idx (a b : Gen.Label) : (Gen.idx a b).toNat = Mpc.idx (joinL a) (joinL b) := by
  simp only [Gen.idx, Mpc.idx, tie_S, sbit_eq]
  by_cases h : (joinL a).msb = true <;> by_cases h' : (joinL b).msb = true <;> simp [h, h']

theorem tie_LabelForBit (w : Gen.Wire) (b : Bool) :
    joinL (Gen.LabelForBit w b) = WireL.labelFor ⟨joinL w.1, joinL w.2⟩ b := by
  cases b <;> simp [Gen.LabelForBit, WireL.labelFor]

/-- `K = 2x ⊕ i` of the model, in words (independent of the generated code). -/
theorem makeKHalf_words (a b : BitVec 64) (i : BitVec 32) :
    Mpc.makeKHalf (join a b) i.toNat = join (a <<< 1 ||| b >>> 63) (b <<< 1 ^^^ BitVec.setWidth 64 i) := by
  rw [Mpc.makeKHalf, tweak_eq_join, join_shl a b 1 (by omega), join_xor, BitVec.xor_zero]

theorem tie_encryptHalf (π : BitVec 128 → BitVec 128) (x : Gen.Label) (i : BitVec 32) (data : BitVec 128) :
    joinL (Gen.encryptHalf π x i data) = (hashOf π).h1 (joinL x) i.toNat := by
  first
    | -- the label operations are inlined (current source)
      (simp only [Gen.encryptHalf, append_eq_join, extract_hi, extract_lo, hi64_join, joinL, hashOf]
       rw [← join_xor, join_hi_lo, makeKHalf_words])
    | -- written with makeKHalf / GetData / SetData / Xor calls (`encryptHalfReference`)
      (simp only [Gen.encryptHalf, hashOf, tie_Xor, tie_SetData, tie_GetData, tie_makeKHalf] <;> ac_rfl)

/-- Position in the joined 128-bit value of Go's label bit `j` (bits 0..63 live in D0). -/
def goBitPos (j : Nat) : Nat := if j < 64 then j + 64 else j - 64

theorem slt_lit (i : BitVec 64) (c : Nat) (hc : c < 2^63) :
    BitVec.slt (BitVec.ofNat 64 c) i = decide (c < i.toNat ∧ i.toNat < 2^63) := by
  have := i.isLt
  rw [Bool.eq_iff_iff]
  simp only [BitVec.slt, BitVec.toInt_eq_toNat_cond, BitVec.toNat_ofNat, decide_eq_true_eq]
  rw [Nat.mod_eq_of_lt (by omega)]
  split <;> split <;> omega
theorem slt_zero (i : BitVec 64) : BitVec.slt i 0#64 = decide (2^63 ≤ i.toNat) := by
  have := i.isLt
  rw [Bool.eq_iff_iff]
  simp only [BitVec.slt, BitVec.toInt_eq_toNat_cond, BitVec.toNat_ofNat, decide_eq_true_eq]
  split <;> omega
theorem sle_lit (i : BitVec 64) (c : Nat) (hc : c < 2^63) :
    BitVec.sle (BitVec.ofNat 64 c) i = decide (c ≤ i.toNat ∧ i.toNat < 2^63) := by
  have := i.isLt
  rw [Bool.eq_iff_iff]
  simp only [BitVec.sle, BitVec.toInt_eq_toNat_cond, BitVec.toNat_ofNat, decide_eq_true_eq]
  rw [Nat.mod_eq_of_lt (by omega)]
  split <;> split <;> omega
theorem and_one (d : BitVec 64) (n : Nat) : (d >>> n) &&& 1#64 = if d.getLsbD n then 1#64 else 0#64 := by
  apply BitVec.eq_of_getLsbD_eq; intro i hi
  by_cases h0 : i = 0
  · subst h0; cases h : d.getLsbD n <;> simp [h]
  · cases h : d.getLsbD n <;> simp [h0]

theorem sub64_toNat (i : BitVec 64) (h : 64 ≤ i.toNat) : (i - 64#64).toNat = i.toNat - 64 := by
  have := i.isLt
  rw [BitVec.toNat_sub]; simp; omega

theorem tie_Bit (l : Gen.Label) (i : BitVec 64) :
    Label.Bit l i =
      if i.toNat < 128 then some (if (joinL l).getLsbD (goBitPos i.toNat) then 1#64 else 0#64) else none := by
  have := i.isLt
  simp only [Label.Bit, slt_zero, slt_lit _ 127 (by omega), slt_lit _ 63 (by omega), and_one, getLsbD_join, goBitPos]
  by_cases h1 : i.toNat < 64
  · simp [h1, show i.toNat < 128 by omega, show ¬ (2^63 ≤ i.toNat) by omega, show ¬ (63 < i.toNat) by omega]
    omega
  · by_cases h2 : i.toNat < 128
    · have h3 := sub64_toNat i (by omega)
      simp [h1, h2, h3, show ¬ (2^63 ≤ i.toNat) by omega, show 63 < i.toNat by omega,
        show i.toNat < 2^63 by omega, show i.toNat - 64 < 64 by omega,
        show ¬ (2^63 ≤ i.toNat - 64) by omega]
      omega
    · by_cases h3 : 2^63 ≤ i.toNat
      · simp [h2, h3]
      · simp [h2, h3, show 127 < i.toNat by omega, show i.toNat < 2^63 by omega]

theorem join_not (a b : BitVec 64) : ~~~ join a b = join (~~~a) (~~~b) := BitVec.not_append
theorem twoPow_lo (k : Nat) (hk : k < 64) : BitVec.twoPow 128 k = join 0#64 (BitVec.twoPow 64 k) := by
  apply BitVec.eq_of_getLsbD_eq; intro i hi
  simp only [getLsbD_join, BitVec.getLsbD_twoPow]
  by_cases h : i < 64
  · simp [h, hk, show k < 128 by omega]
  · simp [h, show k < 128 by omega]; omega
theorem twoPow_hi (k : Nat) (hk : k < 64) : BitVec.twoPow 128 (k + 64) = join (BitVec.twoPow 64 k) 0#64 := by
  apply BitVec.eq_of_getLsbD_eq; intro i hi
  simp only [getLsbD_join, BitVec.getLsbD_twoPow]
  by_cases h : i < 64
  · simp [h, show k + 64 < 128 by omega]; omega
  · simp only [h, hk, show k + 64 < 128 by omega, if_false, decide_true, Bool.true_and]
    rw [Bool.eq_iff_iff]; simp; omega

/-- The 128-bit mask `SetBit(i, ·)` works with: bit `goBitPos i` for `i < 128`, nothing beyond (the Go
shift `1 << (i-64)` is 0 for `i ≥ 128`). -/
def goBitMask (i : Nat) : BitVec 128 := if i < 128 then BitVec.twoPow 128 (goBitPos i) else 0#128

theorem twoPow_ge (m : Nat) (h : 64 ≤ m) : BitVec.twoPow 64 m = 0#64 := by
  apply BitVec.eq_of_getLsbD_eq; intro i hi
  simp [BitVec.getLsbD_twoPow]; omega
theorem join_zero : join 0#64 0#64 = 0#128 := by decide
theorem goBitMask_eq (n : Nat) :
    goBitMask n = if n < 64 then join (BitVec.twoPow 64 n) 0#64 else join 0#64 (BitVec.twoPow 64 (n - 64)) := by
  unfold goBitMask goBitPos
  by_cases h1 : n < 64
  · simp only [h1, show n < 128 by omega, if_true]; exact twoPow_hi n h1
  · by_cases h2 : n < 128
    · simp only [h1, h2, if_true, if_false]; exact twoPow_lo _ (by omega)
    · simp only [h1, h2, if_false, twoPow_ge _ (show 64 ≤ n - 64 by omega), join_zero]

theorem and_ones64 (x : BitVec 64) : x &&& 18446744073709551615#64 = x := by
  have h : (18446744073709551615#64) = BitVec.allOnes 64 := by decide
  rw [h, BitVec.and_allOnes]

theorem tie_SetBit (l : Gen.Label) (i b : BitVec 64) :
    (Label.SetBit l i b).map joinL =
      if (b ≠ 0#64 ∧ b ≠ 1#64) ∨ 2^63 ≤ i.toNat then none
      else some (if b = 1#64 then joinL l ||| goBitMask i.toNat else joinL l &&& ~~~ goBitMask i.toNat) := by
  have := i.isLt
  have h01 : (0#64) ≠ 1#64 := by decide
  simp only [Label.SetBit, slt_zero, sle_lit _ 64 (by omega), ← BitVec.twoPow_eq, goBitMask_eq, joinL]
  by_cases h63 : 2^63 ≤ i.toNat
  · by_cases hb0 : b = 0#64
    · simp [hb0, h63, show ¬ (i.toNat < 2^63) by omega]
    · by_cases hb1 : b = 1#64
      · simp [hb1, h63, show ¬ (i.toNat < 2^63) by omega]
      · simp [hb0, hb1]
  · by_cases h64 : 64 ≤ i.toNat
    · have h3 := sub64_toNat i h64
      by_cases hb0 : b = 0#64
      · simp [hb0, h63, h64, h3, h01, show i.toNat < 2^63 by omega, show ¬ (i.toNat < 64) by omega,
          show ¬ (2^63 ≤ i.toNat - 64) by omega, join_and, join_not, joinL, and_ones64]
      · by_cases hb1 : b = 1#64
        · simp [hb1, h63, h64, h3, show i.toNat < 2^63 by omega, show ¬ (i.toNat < 64) by omega,
            show ¬ (2^63 ≤ i.toNat - 64) by omega, join_or]
        · simp [hb0, hb1]
    · by_cases hb0 : b = 0#64
      · simp [hb0, h63, h64, h01, show i.toNat < 64 by omega, join_and, join_not, joinL, and_ones64]
      · by_cases hb1 : b = 1#64
        · simp [hb1, h63, h64, show i.toNat < 64 by omega, join_or]
        · simp [hb0, hb1]


/-! ### `for i := A; i < B; i++` loops: generated as folds over `List.range` -/

/-- A fold over `List.range n` computes `g n` when `g` satisfies the step equation below `n`. -/
theorem foldl_range_eq {σ : Type} (f : σ → Nat → σ) (g : Nat → σ) (n : Nat) (init : σ) (h0 : g 0 = init)
    (hs : ∀ k, k < n → f (g k) k = g (k + 1)) : (List.range n).foldl f init = g n := by
  induction n with
  | zero => simpa using h0.symm
  | succ m ih =>
    rw [List.range_succ, List.foldl_append, ih (fun k hk => hs k (by omega))]
    simpa using hs m (by omega)

theorem ofNat_up_toNat (k : Nat) (hk : k < 2^64) : (BitVec.ofNat 64 (0 + k)).toNat = k := by
  simp only [BitVec.toNat_ofNat]; omega
theorem ofNat_up_eq_zero (k : Nat) (hk : k < 2^64) : (BitVec.ofNat 64 (0 + k) == 0#64) = decide (k = 0) := by
  rw [Bool.eq_iff_iff]; simp only [beq_iff_eq, decide_eq_true_eq]
  constructor
  · intro h; have := congrArg BitVec.toNat h; rw [ofNat_up_toNat k hk] at this; simpa using this
  · rintro rfl; rfl
theorem sub_up_toNat (c k : Nat) (hc : c < 2^64) (hk : k ≤ c) :
    (BitVec.ofNat 64 c - BitVec.ofNat 64 (0 + k)).toNat = c - k := by
  simp only [BitVec.toNat_sub, BitVec.toNat_ofNat]; omega
theorem and_one_ne_zero (d : BitVec 64) (n : Nat) : ((d >>> n) &&& 1#64 != 0#64) = d.getLsbD n := by
  rw [and_one]; cases d.getLsbD n <;> decide
theorem and_one_eq_zero (d : BitVec 64) (n : Nat) : ((d >>> n) &&& 1#64 == 0#64) = !d.getLsbD n := by
  rw [and_one]; cases d.getLsbD n <;> decide
theorem and_one_eq_one (d : BitVec 64) (n : Nat) : ((d >>> n) &&& 1#64 == 1#64) = d.getLsbD n := by
  rw [and_one]; cases d.getLsbD n <;> decide


/-! ### The same ties with the model's `Nat` tweak, for `t < 2^32` -/

theorem ofNat32_toNat (t : Nat) (ht : t < 2^32) : (BitVec.ofNat 32 t).toNat = t := by
  simp only [BitVec.toNat_ofNat]; omega

theorem tie_NewTweak_nat (t : Nat) (ht : t < 2^32) : joinL (NewTweak (BitVec.ofNat 32 t)) = tweak t := by
  rw [tie_NewTweak, ofNat32_toNat t ht]
theorem tie_makeKHalf_nat (x : Gen.Label) (t : Nat) (ht : t < 2^32) :
    joinL (Gen.makeKHalf x (BitVec.ofNat 32 t)) = Mpc.makeKHalf (joinL x) t := by
  rw [tie_makeKHalf, ofNat32_toNat t ht]
theorem tie_makeK_nat (a b : Gen.Label) (t : Nat) (ht : t < 2^32) :
    joinL (Gen.makeK a b (BitVec.ofNat 32 t)) = Mpc.makeK (joinL a) (joinL b) t := by
  rw [tie_makeK, ofNat32_toNat t ht]
theorem tie_encryptHalf_nat (π : BitVec 128 → BitVec 128) (x : Gen.Label) (t : Nat) (ht : t < 2^32)
    (data : BitVec 128) :
    joinL (Gen.encryptHalf π x (BitVec.ofNat 32 t) data) = (hashOf π).h1 (joinL x) t := by
  rw [tie_encryptHalf, ofNat32_toNat t ht]
theorem tie_encrypt_nat (π : BitVec 128 → BitVec 128) (a b c : Gen.Label) (t : Nat) (ht : t < 2^32)
    (data : BitVec 128) :
    joinL (Gen.encrypt π a b c (BitVec.ofNat 32 t) data) = (hashOf π).h2 (joinL a) (joinL b) t ^^^ joinL c := by
  rw [tie_encrypt, ofNat32_toNat t ht]
theorem tie_decrypt_nat (π : BitVec 128 → BitVec 128) (a b c : Gen.Label) (t : Nat) (ht : t < 2^32)
    (data : BitVec 128) :
    joinL (Gen.decrypt π a b (BitVec.ofNat 32 t) c data) = (hashOf π).h2 (joinL a) (joinL b) t ^^^ joinL c := by
  rw [tie_decrypt, ofNat32_toNat t ht]

/-! ### Concrete sanity values of the generated definitions -/

example : Label.Mul2 (1#64, 0x8000000000000001#64) = (3#64, 2#64) := by decide
example : Label.Mul4 (1#64, 0xc000000000000001#64) = (7#64, 4#64) := by decide
example : Label.S (0x8000000000000000#64, 0#64) = true ∧ Label.S (0x4000000000000000#64, 0#64) = false := by decide
example : Gen.idx (0x8000000000000000#64, 0#64) (0#64, 5#64) = 2#64 := by decide
example : Gen.makeKHalf (1#64, 0x8000000000000000#64) 5#32 = (3#64, 5#64) := by decide
example : Label.Bit (1#64, 2#64) 0#64 = some 1#64 ∧ Label.Bit (1#64, 2#64) 65#64 = some 1#64 ∧
    Label.Bit (1#64, 2#64) 128#64 = none := by decide

end Mpc.GenTie

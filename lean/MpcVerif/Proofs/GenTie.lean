/-
T1 tie (DESIGN.md 1.3): every definition of `MpcVerif/Gen/LeafC01.lean` — which
`harness/cmd/gofacts translate` REGENERATES from the current Go source of
`ot/label.go`, `circuit/garble.go`, `circuit/helpers.go` on every run of
`checks/t1.py` — equals the hand-written model (`Model/LabelBV.lean`,
`Model/Garble.lean`) on the joined 128-bit value `join D0 D1 = D0 ++ D1`.
A semantic edit of one of those Go functions changes the generated definition
and breaks the corresponding `tie_*` theorem at `lake build` time.

The tweak is a Go `uint32`, in the generated code a `BitVec 32`; the model
takes a `Nat` (`tweak t = ofNat 128 (t % 2^32)`).  The ties are stated for
`t.toNat` (all `t : BitVec 32`) and, as corollaries `…_nat`, for `t < 2^32`.
`cipher.Block.Encrypt` is the arbitrary function `π`; the scratch buffer
`data` is universally quantified (the result does not depend on it).
Core Lean only.
-/
import MpcVerif.Gen.LeafC01
import MpcVerif.Proofs.GenTieLib

namespace Mpc.GenTie
open Mpc Mpc.Gen

theorem tie_Xor (l o : Gen.Label) : joinL (Label.Xor l o) = joinL l ^^^ joinL o := by
  simp only [Label.Xor, joinL, join_xor] <;> join_ac
theorem tie_And (l o : Gen.Label) : joinL (Label.And l o) = joinL l &&& joinL o := by
  simp only [Label.And, joinL, join_and] <;> join_ac
theorem tie_Mul2 (l : Gen.Label) : joinL (Label.Mul2 l) = joinL l <<< 1 := by
  simp only [Label.Mul2]; exact (join_shl l.1 l.2 1 (by omega)).symm
theorem tie_Mul4 (l : Gen.Label) : joinL (Label.Mul4 l) = joinL l <<< 2 := by
  simp only [Label.Mul4]; exact (join_shl l.1 l.2 2 (by omega)).symm
theorem tie_Equal (l o : Gen.Label) : Label.Equal l o = (joinL l == joinL o) := by
  rw [Bool.eq_iff_iff]; simp [Label.Equal, join_inj]
theorem tie_GetData (l : Gen.Label) (buf : BitVec 128) : Label.GetData l buf = joinL l := by
  simp only [Label.GetData, append_eq_join, extract_hi, extract_lo, hi64_join]
theorem tie_SetData (l : Gen.Label) (d : BitVec 128) : joinL (Label.SetData l d) = d := by
  simp only [Label.SetData, joinL, extract_hi, extract_lo, join_hi_lo]

theorem tie_NewTweak (t : BitVec 32) : joinL (NewTweak t) = tweak t.toNat := by
  rw [tweak_eq_join]; rfl

theorem tie_makeKHalf (x : Gen.Label) (i : BitVec 32) :
    joinL (Gen.makeKHalf x i) = Mpc.makeKHalf (joinL x) i.toNat := by
  simp only [Gen.makeKHalf, Mpc.makeKHalf, tie_Xor, tie_Mul2, tie_NewTweak] <;> ac_rfl
theorem tie_makeK (a b : Gen.Label) (t : BitVec 32) :
    joinL (Gen.makeK a b t) = Mpc.makeK (joinL a) (joinL b) t.toNat := by
  simp only [Gen.makeK, Mpc.makeK, tie_Xor, tie_Mul2, tie_Mul4, tie_NewTweak] <;> ac_rfl

theorem tie_encrypt (π : BitVec 128 → BitVec 128) (a b c : Gen.Label) (t : BitVec 32) (data : BitVec 128) :
    joinL (Gen.encrypt π a b c t data) = (hashOf π).h2 (joinL a) (joinL b) t.toNat ^^^ joinL c := by
  simp only [Gen.encrypt, hashOf, tie_Xor, tie_SetData, tie_GetData, tie_makeK] <;> ac_rfl
theorem tie_decrypt (π : BitVec 128 → BitVec 128) (a b c : Gen.Label) (t : BitVec 32) (data : BitVec 128) :
    joinL (Gen.decrypt π a b t c data) = (hashOf π).h2 (joinL a) (joinL b) t.toNat ^^^ joinL c := by
  simp only [Gen.decrypt, hashOf, tie_Xor, tie_SetData, tie_GetData, tie_makeK] <;> ac_rfl


theorem tie_S (l : Gen.Label) : Label.S l = (joinL l).msb := by
  have h : (0x8000000000000000#64) = BitVec.twoPow 64 63 := by decide
  simp only [Label.S, h, join_msb]
  rw [and_twoPow_ne_zero _ _ (by omega), BitVec.msb_eq_getLsbD_last]

theorem tie_SetS (l : Gen.Label) (s : Bool) :
    joinL (Label.SetS l s) = if s then setS (joinL l) else joinL l &&& ~~~(1#128 <<< 127) := by
  have h1 : (1#128 <<< 127) = join 0x8000000000000000#64 0#64 := by decide
  have h0 : ~~~(1#128 <<< 127) = join 0x7fffffffffffffff#64 (BitVec.allOnes 64) := by decide
  cases s
  · simp only [Label.SetS, Bool.false_eq_true, if_false, h0, joinL, join_and, BitVec.and_allOnes]
  · simp only [Label.SetS, setS, if_true, h1, joinL, join_or, BitVec.or_zero]

theorem tie_idxUnary (a : Gen.Label) : (Gen.idxUnary a).toNat = Mpc.idxUnary (joinL a) := by
  simp only [Gen.idxUnary, Mpc.idxUnary, tie_S, sbit_eq]
  by_cases h : (joinL a).msb = true <;> simp [h]
theorem tie_idx (a b : Gen.Label) : (Gen.idx a b).toNat = Mpc.idx (joinL a) (joinL b) := by
  simp only [Gen.idx, Mpc.idx, tie_S, sbit_eq]
  by_cases h : (joinL a).msb = true <;> by_cases h' : (joinL b).msb = true <;> simp [h, h']

theorem tie_LabelForBit (w : Gen.Wire) (b : Bool) :
    joinL (Gen.LabelForBit w b) = WireL.labelFor ⟨joinL w.1, joinL w.2⟩ b := by
  cases b <;> simp [Gen.LabelForBit, WireL.labelFor]

theorem tie_encryptHalf (π : BitVec 128 → BitVec 128) (x : Gen.Label) (i : BitVec 32) (data : BitVec 128) :
    joinL (Gen.encryptHalf π x i data) = (hashOf π).h1 (joinL x) i.toNat := by
  first
    | -- the label operations are inlined (current source)
      (simp only [Gen.encryptHalf, append_eq_join, extract_hi, extract_lo, hi64_join, joinL, hashOf]
       rw [← join_xor, join_hi_lo, makeKHalf_words])
    | -- written with makeKHalf / GetData / SetData / Xor calls (`encryptHalfReference`)
      (simp only [Gen.encryptHalf, hashOf, tie_Xor, tie_SetData, tie_GetData, tie_makeKHalf] <;> ac_rfl)

theorem tie_Bit (l : Gen.Label) (i : BitVec 64) :
    Label.Bit l i =
      if i.toNat < 128 then some (if (joinL l).getLsbD (goBitPos i.toNat) then 1#64 else 0#64) else none := by
  have := i.isLt
  simp only [Label.Bit, slt_zero, slt_lit _ 127 (by omega), slt_lit _ 63 (by omega), and_one, getLsbD_join, goBitPos]
  by_cases h1 : i.toNat < 64
  · simp [h1, show i.toNat < 128 by omega, show ¬ (2^63 ≤ i.toNat) by omega, show ¬ (63 < i.toNat) by omega]
    omega
  · by_cases h2 : i.toNat < 128
    · have h3 := sub64_toNat i (by omega)
      simp [h1, h2, h3, show ¬ (2^63 ≤ i.toNat) by omega, show 63 < i.toNat by omega,
        show i.toNat < 2^63 by omega, show i.toNat - 64 < 64 by omega,
        show ¬ (2^63 ≤ i.toNat - 64) by omega]
      omega
    · by_cases h3 : 2^63 ≤ i.toNat
      · simp [h2, h3]
      · simp [h2, h3, show 127 < i.toNat by omega, show i.toNat < 2^63 by omega]

theorem tie_SetBit (l : Gen.Label) (i b : BitVec 64) :
    (Label.SetBit l i b).map joinL =
      if (b ≠ 0#64 ∧ b ≠ 1#64) ∨ 2^63 ≤ i.toNat then none
      else some (if b = 1#64 then joinL l ||| goBitMask i.toNat else joinL l &&& ~~~ goBitMask i.toNat) := by
  have := i.isLt
  have h01 : (0#64) ≠ 1#64 := by decide
  simp only [Label.SetBit, slt_zero, sle_lit _ 64 (by omega), ← BitVec.twoPow_eq, goBitMask_eq, joinL]
  by_cases h63 : 2^63 ≤ i.toNat
  · by_cases hb0 : b = 0#64
    · simp [hb0, h63, show ¬ (i.toNat < 2^63) by omega]
    · by_cases hb1 : b = 1#64
      · simp [hb1, h63, show ¬ (i.toNat < 2^63) by omega]
      · simp [hb0, hb1]
  · by_cases h64 : 64 ≤ i.toNat
    · have h3 := sub64_toNat i h64
      by_cases hb0 : b = 0#64
      · simp [hb0, h63, h64, h3, h01, show i.toNat < 2^63 by omega, show ¬ (i.toNat < 64) by omega,
          show ¬ (2^63 ≤ i.toNat - 64) by omega, join_and, join_not, joinL, and_ones64]
      · by_cases hb1 : b = 1#64
        · simp [hb1, h63, h64, h3, show i.toNat < 2^63 by omega, show ¬ (i.toNat < 64) by omega,
            show ¬ (2^63 ≤ i.toNat - 64) by omega, join_or]
        · simp [hb0, hb1]
    · by_cases hb0 : b = 0#64
      · simp [hb0, h63, h64, h01, show i.toNat < 64 by omega, join_and, join_not, joinL, and_ones64]
      · by_cases hb1 : b = 1#64
        · simp [hb1, h63, h64, show i.toNat < 64 by omega, join_or]
        · simp [hb0, hb1]


/-! ### The same ties with the model's `Nat` tweak, for `t < 2^32` -/

theorem tie_NewTweak_nat (t : Nat) (ht : t < 2^32) : joinL (NewTweak (BitVec.ofNat 32 t)) = tweak t := by
  rw [tie_NewTweak, ofNat32_toNat t ht]
theorem tie_makeKHalf_nat (x : Gen.Label) (t : Nat) (ht : t < 2^32) :
    joinL (Gen.makeKHalf x (BitVec.ofNat 32 t)) = Mpc.makeKHalf (joinL x) t := by
  rw [tie_makeKHalf, ofNat32_toNat t ht]
theorem tie_makeK_nat (a b : Gen.Label) (t : Nat) (ht : t < 2^32) :
    joinL (Gen.makeK a b (BitVec.ofNat 32 t)) = Mpc.makeK (joinL a) (joinL b) t := by
  rw [tie_makeK, ofNat32_toNat t ht]
theorem tie_encryptHalf_nat (π : BitVec 128 → BitVec 128) (x : Gen.Label) (t : Nat) (ht : t < 2^32)
    (data : BitVec 128) :
    joinL (Gen.encryptHalf π x (BitVec.ofNat 32 t) data) = (hashOf π).h1 (joinL x) t := by
  rw [tie_encryptHalf, ofNat32_toNat t ht]
theorem tie_encrypt_nat (π : BitVec 128 → BitVec 128) (a b c : Gen.Label) (t : Nat) (ht : t < 2^32)
    (data : BitVec 128) :
    joinL (Gen.encrypt π a b c (BitVec.ofNat 32 t) data) = (hashOf π).h2 (joinL a) (joinL b) t ^^^ joinL c := by
  rw [tie_encrypt, ofNat32_toNat t ht]
theorem tie_decrypt_nat (π : BitVec 128 → BitVec 128) (a b c : Gen.Label) (t : Nat) (ht : t < 2^32)
    (data : BitVec 128) :
    joinL (Gen.decrypt π a b (BitVec.ofNat 32 t) c data) = (hashOf π).h2 (joinL a) (joinL b) t ^^^ joinL c := by
  rw [tie_decrypt, ofNat32_toNat t ht]

/-! ### Concrete sanity values of the generated definitions -/

example : Label.Mul2 (1#64, 0x8000000000000001#64) = (3#64, 2#64) := by decide
example : Label.Mul4 (1#64, 0xc000000000000001#64) = (7#64, 4#64) := by decide
example : Label.S (0x8000000000000000#64, 0#64) = true ∧ Label.S (0x4000000000000000#64, 0#64) = false := by decide
example : Gen.idx (0x8000000000000000#64, 0#64) (0#64, 5#64) = 2#64 := by decide
example : Gen.makeKHalf (1#64, 0x8000000000000000#64) 5#32 = (3#64, 5#64) := by decide
example : Label.Bit (1#64, 2#64) 0#64 = some 1#64 ∧ Label.Bit (1#64, 2#64) 65#64 = some 1#64 ∧
    Label.Bit (1#64, 2#64) 128#64 = none := by decide

end Mpc.GenTie

/-
C04 helper lemmas: per-gate construction of the linear functional that kills
every transmitted row and every active label, and the induction over the gate
list.  See Proofs/Sym.lean for the symbolic algebra.
-/
import MpcVerif.Proofs.Sym

namespace Mpc.Sym
open Mpc LabelAlg
variable {Code : Type}

/-- Hash atoms added to the functional by one gate: the INACTIVE queries whose
prescribed weight is 1 (AND: `[i≠va]·pb` and `[j≠vb]·va`; OR/INV:
`out(va,vb) ⊕ out(i,j)`). -/
noncomputable def newAtoms (code : SymL Code → Code) (op : Op) (a b : WireL (SymL Code))
    (va vb : Bool) (id : Nat) : List (Atom Code) :=
  match op with
  | .xor | .xnor => []
  | .and =>
    (if sbit b.l0 then [Atom.h1 id (code (a.labelFor (!va)))] else []) ++
    (if va then [Atom.h1 (id + 1) (code (b.labelFor (!vb)))] else [])
  | .or =>
    ([(false, false), (false, true), (true, false), (true, true)].filter
      (fun p => (p.1 != va || p.2 != vb) && ((va || vb) != (p.1 || p.2)))).map
      (fun p => Atom.h2 id (code (a.labelFor p.1)) (code (b.labelFor p.2)))
  | .inv => [Atom.h2 id (code (a.labelFor (!va))) (code (LabelAlg.zero))]

/-- every atom of `S` has tweak below `n` -/
def ListBelow (n : Nat) (S : List (Atom Code)) : Prop :=
  ∀ a ∈ S, ∀ t, a.tweak = some t → t < n

theorem ListBelow.mono {n m : Nat} {S : List (Atom Code)} (h : ListBelow n S) (hnm : n ≤ m) :
    ListBelow m S := fun a ha t hat => by have := h a ha t hat; omega

theorem ListBelow.append {n : Nat} {S T : List (Atom Code)} (hS : ListBelow n S)
    (hT : ListBelow n T) : ListBelow n (S ++ T) := by
  intro a ha
  rcases List.mem_append.mp ha with h | h
  · exact hS a h
  · exact hT a h

open Classical in
theorem phi_atom_above (S : List (Atom Code)) (n : Nat) (hS : ListBelow n S) (σ : Atom Code → Bool)
    (a : Atom Code) (t : Nat) (ha : a.tweak = some t) (hn : n ≤ t) : phi S (atom σ a) = false := by
  induction S with
  | nil => rfl
  | cons b S ih =>
    rw [phi_cons, ih (fun c hc => hS c (List.mem_cons_of_mem _ hc)), atom_f]
    have : b ≠ a := by
      intro hba; subst hba
      have := hS b List.mem_cons_self t ha
      omega
    simp [this]

theorem symR_sbit (σ : Atom Code → Bool) (hσ : σ .R = true) : sbit (symR σ) = true := hσ

theorem symR_below (σ : Atom Code → Bool) (n : Nat) : Below n (symR σ) :=
  Below.atom σ .R n (by intro t h; cases h)

macro "below_tac" : tactic =>
  `(tactic| repeat (first
      | assumption
      | apply Below.xor
      | apply Below.zero
      | apply symR_below
      | (apply Below.atom; intro t h; simp only [Atom.tweak, Option.some.injEq] at h; omega)))

/-- Support bound: the labels one gate produces contain only hash atoms with
tweaks below the gate's last tweak. -/
theorem core_below (σ : Atom Code → Bool) (code : SymL Code → Code) (op : Op)
    (a b : WireL (SymL Code)) (id : Nat)
    (hBa0 : Below id a.l0) (hBa1 : Below id a.l1) (hBb0 : Below id b.l0) (hBb1 : Below id b.l1) :
    Below (id + op.tweaks) (garbleCore (symHash σ code) (symR σ) op a b id).1.l0 ∧
    Below (id + op.tweaks) (garbleCore (symHash σ code) (symR σ) op a b id).1.l1 ∧
    ∀ row ∈ (garbleCore (symHash σ code) (symR σ) op a b id).2, Below (id + op.tweaks) row := by
  cases op
  case xor =>
    simp only [garbleCore, Op.tweaks, Nat.add_zero, List.not_mem_nil, false_implies, implies_true,
      and_true]
    constructor <;> below_tac
  case xnor =>
    simp only [garbleCore, Op.tweaks, Nat.add_zero, List.not_mem_nil, false_implies, implies_true,
      and_true]
    constructor <;> below_tac
  case and =>
    have h1 := hBa0.mono (Nat.le_add_right id 2)
    have h2 := hBa1.mono (Nat.le_add_right id 2)
    have h3 := hBb0.mono (Nat.le_add_right id 2)
    have h4 := hBb1.mono (Nat.le_add_right id 2)
    simp only [garbleCore, Op.tweaks, symHash, List.mem_cons, List.not_mem_nil, or_false,
      forall_eq_or_imp, forall_eq]
    cases h0 : sbit a.l0 <;> cases h2 : sbit b.l0 <;>
      simp only [if_true, if_false, Bool.false_eq_true] <;>
      refine ⟨?_, ?_, ?_, ?_⟩ <;> below_tac
  case or =>
    have h1 := hBa0.mono (Nat.le_add_right id 1)
    have h2 := hBa1.mono (Nat.le_add_right id 1)
    have h3 := hBb0.mono (Nat.le_add_right id 1)
    have h4 := hBb1.mono (Nat.le_add_right id 1)
    cases h0 : sbit a.l0 <;> cases h1' : sbit a.l1 <;> cases h2' : sbit b.l0 <;>
      cases h3' : sbit b.l1 <;>
      simp [garbleCore, Op.tweaks, symHash, idx, Tab.set, h0, h1', h2', h3'] <;>
      (repeat' apply And.intro) <;> below_tac
  case inv =>
    have h1 := hBa0.mono (Nat.le_add_right id 1)
    have h2 := hBa1.mono (Nat.le_add_right id 1)
    cases h0 : sbit a.l0 <;> cases h1' : sbit a.l1 <;>
      simp [garbleCore, Op.tweaks, symHash, idxUnary, Tab.set, h0, h1'] <;>
      (repeat' apply And.intro) <;> below_tac

theorem newAtoms_bounds (code : SymL Code → Code) (op : Op) (a b : WireL (SymL Code))
    (va vb : Bool) (id : Nat) :
    AllAbove id (newAtoms code op a b va vb id) ∧
    ListBelow (id + op.tweaks) (newAtoms code op a b va vb id) := by
  cases op <;> cases va <;> cases vb <;> (try cases hsb : sbit b.l0) <;>
    simp [newAtoms, AllAbove, ListBelow, Atom.tweak, Op.tweaks, *] <;> omega

open Classical in
/-- The functional extended by one gate's new atoms kills every row the gate
transmits and takes the plain output value on the gate's output zero-label. -/
theorem core_phi (σ : Atom Code → Bool) (hσ : σ .R = true) (code : SymL Code → Code)
    (hsep : Separates σ code) (S : List (Atom Code)) (op : Op) (a b : WireL (SymL Code))
    (va vb : Bool) (id : Nat)
    (ha1 : a.l1 = a.l0 ^^^ symR σ) (hpa : phi S a.l0 = va) (hBa : Below id a.l0)
    (hb : op.binary = true → b.l1 = b.l0 ^^^ symR σ ∧ phi S b.l0 = vb ∧ Below id b.l0)
    (hS : ListBelow id S) (hR : phi S (symR σ) = true) :
    phi (S ++ newAtoms code op a b va vb id)
        (garbleCore (symHash σ code) (symR σ) op a b id).1.l0 = op.eval va vb ∧
    ∀ row ∈ (garbleCore (symHash σ code) (symR σ) op a b id).2,
      phi (S ++ newAtoms code op a b va vb id) row = false := by
  have hr := symR_sbit σ hσ
  have hRb : Below id (symR σ) := symR_below σ id
  have sa := hsep a.l0
  have h10 : ∀ c, phi S (atom σ (.h1 id c)) = false :=
    fun c => phi_atom_above S id hS σ _ id rfl (Nat.le_refl _)
  have h11 : ∀ c, phi S (atom σ (.h1 (id+1) c)) = false :=
    fun c => phi_atom_above S id hS σ _ (id+1) rfl (by omega)
  have h20 : ∀ c d, phi S (atom σ (.h2 id c d)) = false :=
    fun c d => phi_atom_above S id hS σ _ id rfl (Nat.le_refl _)
  have fa0 : ∀ c, a.l0.f (.h1 id c) = false := fun c => hBa _ id rfl (Nat.le_refl _)
  have fa1 : ∀ c, a.l0.f (.h1 (id+1) c) = false := fun c => hBa _ (id+1) rfl (by omega)
  have fa2 : ∀ c d, a.l0.f (.h2 id c d) = false := fun c d => hBa _ id rfl (Nat.le_refl _)
  have fr0 : ∀ c, (symR σ).f (.h1 id c) = false := fun c => hRb _ id rfl (Nat.le_refl _)
  have fr1 : ∀ c, (symR σ).f (.h1 (id+1) c) = false := fun c => hRb _ (id+1) rfl (by omega)
  have fr2 : ∀ c d, (symR σ).f (.h2 id c d) = false := fun c d => hRb _ id rfl (Nat.le_refl _)
  cases op
  case inv =>
    cases va <;> cases hsa : sbit a.l0 <;>
      simp [garbleCore, newAtoms, symHash, idxUnary, Tab.set, Op.eval, WireL.labelFor, phi_append,
        phi_xor, hpa, hR, h20, ha1, atom_f, xor_f, zero_f, fa2, fr2, sa, sa.symm, hsa, sbit_xor', hr]
  all_goals
    obtain ⟨hb1, hpb, hBb⟩ := hb rfl
    have sb := hsep b.l0
    have fb0 : ∀ c, b.l0.f (.h1 id c) = false := fun c => hBb _ id rfl (Nat.le_refl _)
    have fb1 : ∀ c, b.l0.f (.h1 (id+1) c) = false := fun c => hBb _ (id+1) rfl (by omega)
    have fb2 : ∀ c d, b.l0.f (.h2 id c d) = false := fun c d => hBb _ id rfl (Nat.le_refl _)
  case xor =>
    cases va <;> cases vb <;>
      simp [garbleCore, newAtoms, Op.eval, phi_xor, hpa, hpb, hR]
  case xnor =>
    cases va <;> cases vb <;>
      simp [garbleCore, newAtoms, Op.eval, phi_xor, hpa, hpb, hR]
  case and =>
    cases va <;> cases vb <;> cases hsa : sbit a.l0 <;> cases hsb : sbit b.l0 <;>
      simp [garbleCore, newAtoms, symHash, Op.eval, WireL.labelFor, phi_append, phi_xor, hpa, hpb,
        hR, h10, h11, ha1, hb1, atom_f, xor_f, fa0, fa1, fb0, fb1, fr0, fr1, sa, sb, sa.symm,
        sb.symm, hsa, hsb]
  case or =>
    cases va <;> cases vb <;> cases hsa : sbit a.l0 <;> cases hsb : sbit b.l0 <;>
      simp [garbleCore, newAtoms, symHash, idx, Tab.set, Op.eval, WireL.labelFor, phi_append,
        phi_xor, hpa, hpb, hR, h20, ha1, hb1, atom_f, xor_f, zero_f, fa2, fb2, fr2, sa, sb, sa.symm,
        sb.symm, hsa, hsb, sbit_xor', hr]

/-! ### Induction over the gate list -/

/-- The functional built along the gate list: each gate appends its new
atoms.  Mirrors `garbleGates` (same wire stores, same tweak counter) and the
plain evaluation. -/
noncomputable def phiGates (σ : Atom Code → Bool) (code : SymL Code → Code) :
    List Gate → Store (WireL (SymL Code)) → Store Bool → Nat → List (Atom Code) → List (Atom Code)
  | [], _, _, _, S => S
  | g :: gs, gw, pv, id, S =>
    phiGates σ code gs (garbleGate (symHash σ code) (symR σ) g gw id).1 (g.evalPlain pv)
      (id + g.op.tweaks)
      (S ++ newAtoms code g.op (gw.get g.in0) (gw.get g.in1) (pv.get g.in0) (pv.get g.in1) id)

/-- Invariant: on every defined wire the pair differs by R, the functional
takes the plain value on the zero-label, and the zero-label only contains
hash atoms with tweaks already used. -/
def InvS (σ : Atom Code → Bool) (D : Nat → Bool) (gw : Store (WireL (SymL Code))) (pv : Store Bool)
    (id : Nat) (S : List (Atom Code)) : Prop :=
  (∀ w, D w = true →
    (gw.get w).l1 = (gw.get w).l0 ^^^ symR σ ∧ phi S (gw.get w).l0 = pv.get w ∧
      Below id (gw.get w).l0) ∧
  ListBelow id S ∧ phi S (symR σ) = true

theorem gates_phi (σ : Atom Code → Bool) (hσ : σ .R = true) (code : SymL Code → Code)
    (hsep : Separates σ code) (n : Nat) (gs : List Gate) :
    ∀ (D : Nat → Bool) (gw : Store (WireL (SymL Code))) (pv : Store Bool) (id : Nat)
      (S : List (Atom Code)),
      gw.size = n → pv.size = n → wfFrom n gs D = true → InvS σ D gw pv id S →
      (∀ rows ∈ (garbleGates (symHash σ code) (symR σ) gs gw id).2.2, ∀ row ∈ rows,
        phi (phiGates σ code gs gw pv id S) row = false) ∧
      InvS σ (definedAfter gs D) (garbleGates (symHash σ code) (symR σ) gs gw id).1
        (evalPlainGates gs pv) (garbleGates (symHash σ code) (symR σ) gs gw id).2.1
        (phiGates σ code gs gw pv id S) ∧
      (∀ x, Below id x → phi (phiGates σ code gs gw pv id S) x = phi S x) ∧
      id ≤ (garbleGates (symHash σ code) (symR σ) gs gw id).2.1 := by
  induction gs with
  | nil =>
    intro D gw pv id S _ _ _ hinv
    refine ⟨?_, hinv, fun _ _ => rfl, Nat.le_refl _⟩
    intro rows hrows
    simp [garbleGates] at hrows
  | cons g gs ih =>
    intro D gw pv id S hg hp hwf hinv
    simp only [wfFrom, Bool.and_eq_true, decide_eq_true_eq, Bool.or_eq_true,
      Bool.not_eq_true'] at hwf
    obtain ⟨⟨⟨⟨⟨hd0, hd1⟩, hi0⟩, hi1⟩, hout⟩, hrest⟩ := hwf
    obtain ⟨hwires, hSb, hR⟩ := hinv
    obtain ⟨ha1, hpa, hBa⟩ := hwires g.in0 hd0
    have hb : g.op.binary = true → (gw.get g.in1).l1 = (gw.get g.in1).l0 ^^^ symR σ ∧
        phi S (gw.get g.in1).l0 = pv.get g.in1 ∧ Below id (gw.get g.in1).l0 := by
      intro hbin
      cases hd1 with
      | inl h => rw [hbin] at h; cases h
      | inr h => exact hwires g.in1 h
    -- abbreviations
    have hr := symR_sbit σ hσ
    let H := symHash σ code
    let N := newAtoms code g.op (gw.get g.in0) (gw.get g.in1) (pv.get g.in0) (pv.get g.in1) id
    have hN := newAtoms_bounds code g.op (gw.get g.in0) (gw.get g.in1) (pv.get g.in0)
      (pv.get g.in1) id
    have hstab1 : ∀ x, Below id x → phi (S ++ N) x = phi S x :=
      fun x hx => phi_append_below S N id x hN.1 hx
    obtain ⟨hout0, hrows0⟩ := core_phi σ hσ code hsep S g.op (gw.get g.in0) (gw.get g.in1)
      (pv.get g.in0) (pv.get g.in1) id ha1 hpa hBa hb hSb hR
    -- l1 = l0 ⊕ r for the output, from C01's gate lemma
    have hrel : Rel (symR σ) (gw.get g.in0) ((gw.get g.in0).labelFor (pv.get g.in0))
        (pv.get g.in0) := ⟨ha1, rfl⟩
    have hrelb : g.op.binary = true →
        Rel (symR σ) (gw.get g.in1) ((gw.get g.in1).labelFor (pv.get g.in1)) (pv.get g.in1) :=
      fun hbin => ⟨(hb hbin).1, rfl⟩
    obtain ⟨_, _, ⟨hout1, _⟩⟩ := core_correct H (symR σ) hr g.op (gw.get g.in0) (gw.get g.in1)
      _ _ (pv.get g.in0) (pv.get g.in1) id hrel hrelb
    -- support bounds of what the gate produced (for a unary gate the second
    -- operand is not read: replace it by the first)
    have hBa1 : Below id (gw.get g.in0).l1 := by rw [ha1]; exact hBa.xor (symR_below σ id)
    have hcb : Below (id + g.op.tweaks)
          (garbleCore H (symR σ) g.op (gw.get g.in0) (gw.get g.in1) id).1.l0 ∧
        (∀ row ∈ (garbleCore H (symR σ) g.op (gw.get g.in0) (gw.get g.in1) id).2,
          Below (id + g.op.tweaks) row) := by
      cases hbin : g.op.binary with
      | true =>
        obtain ⟨hb1, _, hBb⟩ := hb hbin
        have hBb1 : Below id (gw.get g.in1).l1 := by rw [hb1]; exact hBb.xor (symR_below σ id)
        have := core_below σ code g.op (gw.get g.in0) (gw.get g.in1) id hBa hBa1 hBb hBb1
        exact ⟨this.1, this.2.2⟩
      | false =>
        have hop : g.op = .inv := by
          cases hh : g.op <;> simp [hh, Op.binary] at hbin
          rfl
        have hirr : garbleCore H (symR σ) g.op (gw.get g.in0) (gw.get g.in1) id =
            garbleCore H (symR σ) g.op (gw.get g.in0) (gw.get g.in0) id := by
          rw [hop]; rfl
        rw [hirr]
        have := core_below σ code g.op (gw.get g.in0) (gw.get g.in0) id hBa hBa1 hBa hBa1
        exact ⟨this.1, this.2.2⟩
    obtain ⟨hBout, hBrows⟩ := hcb
    -- invariant after this gate
    have hinv1 : InvS σ (fun w => w == g.out || D w) (garbleGate H (symR σ) g gw id).1
        (g.evalPlain pv) (id + g.op.tweaks) (S ++ N) := by
      refine ⟨?_, (hSb.mono (Nat.le_add_right _ _)).append hN.2, ?_⟩
      · intro w hw
        simp only [garbleGate, Gate.evalPlain]
        by_cases hwo : g.out = w
        · subst hwo
          rw [Store.get_set_eq _ _ _ (by omega), Store.get_set_eq _ _ _ (by omega)]
          exact ⟨hout1, hout0, hBout⟩
        · rw [Store.get_set_ne _ _ _ _ hwo, Store.get_set_ne _ _ _ _ hwo]
          have hDw : D w = true := by
            simp only [Bool.or_eq_true, beq_iff_eq] at hw
            cases hw with
            | inl h => exact absurd h.symm hwo
            | inr h => exact h
          obtain ⟨h1, h2, h3⟩ := hwires w hDw
          exact ⟨h1, by rw [hstab1 _ h3]; exact h2, h3.mono (Nat.le_add_right _ _)⟩
      · rw [hstab1 _ (symR_below σ id)]; exact hR
    obtain ⟨ihrows, ihinv, ihstab, ihle⟩ := ih (fun w => w == g.out || D w)
      (garbleGate H (symR σ) g gw id).1 (g.evalPlain pv) (id + g.op.tweaks) (S ++ N)
      (by simp [garbleGate, hg]) (by simp [Gate.evalPlain, hp]) hrest hinv1
    have hid : (garbleGate H (symR σ) g gw id).2.1 = id + g.op.tweaks := rfl
    refine ⟨?_, ?_, ?_, ?_⟩
    · intro rows hrows row hrow
      rw [garbleGates_cons] at hrows
      simp only [List.mem_cons] at hrows
      show phi (phiGates σ code gs (garbleGate H (symR σ) g gw id).1 (g.evalPlain pv)
        (id + g.op.tweaks) (S ++ N)) row = false
      cases hrows with
      | inl h =>
        subst h
        rw [ihstab row (hBrows row hrow)]
        exact hrows0 row hrow
      | inr h =>
        exact ihrows rows h row hrow
    · rw [garbleGates_cons, evalPlainGates_cons]
      exact ihinv
    · intro x hx
      show phi (phiGates σ code gs (garbleGate H (symR σ) g gw id).1 (g.evalPlain pv)
        (id + g.op.tweaks) (S ++ N)) x = phi S x
      rw [ihstab x (hx.mono (Nat.le_add_right _ _)), hstab1 x hx]
    · rw [garbleGates_cons]
      show id ≤ (garbleGates H (symR σ) gs (garbleGate H (symR σ) g gw id).1
        (garbleGate H (symR σ) g gw id).2.1).2.1
      exact Nat.le_trans (Nat.le_add_right id g.op.tweaks) ihle

end Mpc.Sym

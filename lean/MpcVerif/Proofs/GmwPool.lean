/-
C10: `Triples.Append` and `TriplePool.Get` (gmw/triples.go) – the pool hands out
the stream of triple words in order, whatever the arrival schedule of the
offline goroutine.  Core Lean only.
-/
import MpcVerif.Model.Gmw
import MpcVerif.Proofs.GmwTriples

namespace Mpc.Gmw

/-! ### slices -/

-- `mkA_size`, `wget_mkA` come from `MpcVerif.Proofs.GmwTriples`.

theorem pool_wget_of_size_le (v : Words) (i : Nat) (h : v.size ≤ i) : wget v i = 0#64 := by
  simp [wget, Array.getD, Nat.not_lt.mpr h]

theorem wget_mkA_ge (n : Nat) (f : Nat → Word) (i : Nat) (h : n ≤ i) : wget (mkA n f) i = 0#64 :=
  pool_wget_of_size_le _ _ (by rw [mkA_size]; exact h)

theorem pool_wget_mkA_ite (n : Nat) (f : Nat → Word) (i : Nat) :
    wget (mkA n f) i = if i < n then f i else 0#64 := by
  split
  · next h => exact wget_mkA n f i h
  · next h => exact wget_mkA_ge n f i (Nat.le_of_not_lt h)

theorem pool_le_size_expand (v : Words) (n : Nat) : n ≤ (expand v n).size := by
  unfold expand
  split
  · assumption
  · rw [mkA_size]; exact Nat.le_refl _

theorem pool_size_le_size_expand (v : Words) (n : Nat) : v.size ≤ (expand v n).size := by
  unfold expand
  split
  · exact Nat.le_refl _
  · rw [mkA_size]; omega

theorem pool_wget_expand (v : Words) (n i : Nat) : wget (expand v n) i = wget v i := by
  unfold expand
  split
  · rfl
  · next h =>
    rw [pool_wget_mkA_ite]
    split
    · rfl
    · rw [pool_wget_of_size_le v i (by omega)]

theorem pool_size_copyW (dst : Words) (off : Nat) (src : Words) (lo hi : Nat) :
    (copyW dst off src lo hi).size = dst.size := mkA_size _ _

theorem pool_wget_copyW (dst : Words) (off : Nat) (src : Words) (lo hi i : Nat) :
    wget (copyW dst off src lo hi) i =
      if i < dst.size then
        (if off ≤ i ∧ i - off < hi - lo then wget src (lo + (i - off)) else wget dst i)
      else 0#64 := by
  unfold copyW
  rw [pool_wget_mkA_ite]

theorem pool_size_clearFrom (v : Words) (frm : Nat) : (clearFrom v frm).size = v.size := mkA_size _ _

theorem pool_wget_clearFrom (v : Words) (frm i : Nat) :
    wget (clearFrom v frm) i = if i < v.size then (if frm ≤ i then 0#64 else wget v i) else 0#64 := by
  unfold clearFrom
  rw [pool_wget_mkA_ite]

/-! ### capacity -/

theorem pool_lt_capLoop (fuel size words : Nat) (h1 : 1 ≤ size) (h2 : words < fuel + size) :
    words < capLoop fuel size words := by
  induction fuel generalizing size with
  | zero => simpa [capLoop] using h2
  | succ f ih =>
    simp only [capLoop]
    split
    · apply ih <;> omega
    · omega

theorem lt_capFor (words : Nat) : words < capFor words :=
  pool_lt_capLoop _ _ _ (by omega) (by omega)

/-! ### view -/

theorem length_view (t : Triples) : t.view.length = t.words := by
  simp [Triples.view]

theorem pool_getElem?_view (t : Triples) (i : Nat) :
    t.view[i]? = if i < t.words then some (wget t.a i, wget t.b i, wget t.c i) else none := by
  unfold Triples.view
  rw [List.getElem?_map]
  split
  · next h => rw [List.getElem?_range h]; rfl
  · next h => rw [List.getElem?_eq_none (by simpa using h)]; rfl

theorem view_empty : Triples.empty.view = [] := by
  simp [Triples.view, Triples.empty]

theorem clear_words (t : Triples) : t.clear.words = 0 := rfl

theorem clear_WF (t : Triples) : t.clear.WF := by
  simp [Triples.WF, Triples.clear]

theorem pool_view_ext (t : Triples) (l : List (Word × Word × Word)) (hl : l.length = t.words)
    (h : ∀ i, i < t.words → l[i]? = some (wget t.a i, wget t.b i, wget t.c i)) : t.view = l := by
  apply List.ext_getElem?
  intro i
  rw [pool_getElem?_view]
  split
  · next hi => exact (h i hi).symm
  · next hi => rw [List.getElem?_eq_none (by omega)]

/-! ### `Append` -/

/-- Destination side of `Append`, one slice. -/
theorem pool_wget_copy_expand (dv sv : Words) (w k cap i : Nat) (hcap : w + k < cap) (hi : i < w + k) :
    wget (copyW (expand dv cap) w sv 0 k) i = if w ≤ i then wget sv (i - w) else wget dv i := by
  have := pool_le_size_expand dv cap
  rw [pool_wget_copyW, if_pos (by omega), pool_wget_expand]
  by_cases hw : w ≤ i
  · rw [if_pos ⟨hw, by omega⟩, if_pos hw, Nat.zero_add]
  · rw [if_neg (fun h => hw h.1), if_neg hw]

/-- Source side of `Append` (shift down and clear the tail), one slice. -/
theorem pool_wget_shift (v : Words) (sw k i : Nat) (hsw : sw ≤ v.size) (hi : i < sw - k) :
    wget (clearFrom (copyW v 0 v k v.size) (sw - k)) i = wget v (i + k) := by
  rw [pool_wget_clearFrom, pool_size_copyW, if_pos (by omega), if_neg (by omega), pool_wget_copyW,
    if_pos (by omega), if_pos ⟨Nat.zero_le _, by omega⟩, Nat.sub_zero, Nat.add_comm]

theorem pool_append_words_fst (dst src : Triples) (n : Nat) :
    (dst.append src n).1.words = dst.words + min ((n + 63) / 64) src.words := rfl

theorem pool_append_words_snd (dst src : Triples) (n : Nat) :
    (dst.append src n).2.1.words = src.words - min ((n + 63) / 64) src.words := rfl

theorem pool_append_ret (dst src : Triples) (n : Nat) :
    (dst.append src n).2.2 = min ((n + 63) / 64) src.words * 64 := rfl

theorem pool_append_WF_fst (dst src : Triples) (n : Nat) : (dst.append src n).1.WF := by
  have hc := lt_capFor (dst.words + min ((n + 63) / 64) src.words)
  have ha := pool_le_size_expand dst.a (capFor (dst.words + min ((n + 63) / 64) src.words))
  have hb := pool_le_size_expand dst.b (capFor (dst.words + min ((n + 63) / 64) src.words))
  have hc' := pool_le_size_expand dst.c (capFor (dst.words + min ((n + 63) / 64) src.words))
  simp only [Triples.WF, Triples.append, Triples.ensureCapacity, pool_size_copyW]
  omega

theorem pool_append_WF_snd (dst src : Triples) (n : Nat) (hs : src.WF) : (dst.append src n).2.1.WF := by
  obtain ⟨h1, h2, h3⟩ := hs
  simp only [Triples.WF, Triples.append, pool_size_clearFrom, pool_size_copyW]
  omega

theorem pool_append_wget_fst (dst src : Triples) (n i : Nat)
    (hi : i < dst.words + min ((n + 63) / 64) src.words) :
    wget (dst.append src n).1.a i = (if dst.words ≤ i then wget src.a (i - dst.words) else wget dst.a i) ∧
    wget (dst.append src n).1.b i = (if dst.words ≤ i then wget src.b (i - dst.words) else wget dst.b i) ∧
    wget (dst.append src n).1.c i = (if dst.words ≤ i then wget src.c (i - dst.words) else wget dst.c i) := by
  have hc := lt_capFor (dst.words + min ((n + 63) / 64) src.words)
  simp only [Triples.append, Triples.ensureCapacity]
  exact ⟨pool_wget_copy_expand _ _ _ _ _ _ hc hi, pool_wget_copy_expand _ _ _ _ _ _ hc hi,
    pool_wget_copy_expand _ _ _ _ _ _ hc hi⟩

theorem pool_append_wget_snd (dst src : Triples) (n i : Nat) (hs : src.WF)
    (hi : i < src.words - min ((n + 63) / 64) src.words) :
    wget (dst.append src n).2.1.a i = wget src.a (i + min ((n + 63) / 64) src.words) ∧
    wget (dst.append src n).2.1.b i = wget src.b (i + min ((n + 63) / 64) src.words) ∧
    wget (dst.append src n).2.1.c i = wget src.c (i + min ((n + 63) / 64) src.words) := by
  obtain ⟨h1, h2, h3⟩ := hs
  simp only [Triples.append]
  exact ⟨pool_wget_shift _ _ _ _ h1 hi, pool_wget_shift _ _ _ _ h2 hi, pool_wget_shift _ _ _ _ h3 hi⟩

theorem pool_append_view_fst (dst src : Triples) (n : Nat) :
    (dst.append src n).1.view = dst.view ++ src.view.take (min ((n + 63) / 64) src.words) := by
  apply pool_view_ext
  · rw [pool_append_words_fst, List.length_append, List.length_take, length_view, length_view]
    omega
  · intro i hi
    rw [pool_append_words_fst] at hi
    obtain ⟨ha, hb, hc⟩ := pool_append_wget_fst dst src n i hi
    rw [ha, hb, hc, List.getElem?_append, length_view]
    by_cases hw : dst.words ≤ i
    · rw [if_neg (by omega), if_pos hw, if_pos hw, if_pos hw, List.getElem?_take,
        if_pos (by omega), pool_getElem?_view, if_pos (by omega)]
    · rw [if_pos (by omega), if_neg hw, if_neg hw, if_neg hw, pool_getElem?_view, if_pos (by omega)]

theorem pool_append_view_snd (dst src : Triples) (n : Nat) (hs : src.WF) :
    (dst.append src n).2.1.view = src.view.drop (min ((n + 63) / 64) src.words) := by
  apply pool_view_ext
  · rw [pool_append_words_snd, List.length_drop, length_view]
  · intro i hi
    rw [pool_append_words_snd] at hi
    obtain ⟨ha, hb, hc⟩ := pool_append_wget_snd dst src n i hs hi
    rw [ha, hb, hc, List.getElem?_drop, pool_getElem?_view, if_pos (by omega), Nat.add_comm]

-- `hd` is part of the interface (the Go precondition) although the proof does not need it
set_option linter.unusedVariables false in
theorem append_spec (dst src : Triples) (n : Nat) (hd : dst.WF) (hs : src.WF) :
    let r := dst.append src n
    let k := min ((n + 63) / 64) src.words
    r.1.words = dst.words + k ∧ r.2.1.words = src.words - k ∧ r.2.2 = k * 64 ∧
    r.1.WF ∧ r.2.1.WF ∧
    r.1.view = dst.view ++ src.view.take k ∧ r.2.1.view = src.view.drop k :=
  ⟨rfl, rfl, rfl, pool_append_WF_fst dst src n, pool_append_WF_snd dst src n hs, pool_append_view_fst dst src n,
    pool_append_view_snd dst src n hs⟩

set_option linter.unusedVariables false in
theorem append_fresh (dst src : Triples) (n : Nat) (hd : dst.WF) (hs : src.WF) (hw : dst.words = 0)
    (hk : (n + 63) / 64 ≤ src.words) :
    let r := dst.append src n
    let k := (n + 63) / 64
    r.1.words = k ∧ r.2.1.words = src.words - k ∧ r.1.WF ∧ r.2.1.WF ∧
    (∀ i, i < k → wget r.1.a i = wget src.a i ∧ wget r.1.b i = wget src.b i ∧ wget r.1.c i = wget src.c i) ∧
    (∀ i, i < src.words - k → wget r.2.1.a i = wget src.a (i + k) ∧ wget r.2.1.b i = wget src.b (i + k) ∧
       wget r.2.1.c i = wget src.c (i + k)) := by
  have hmin : min ((n + 63) / 64) src.words = (n + 63) / 64 := Nat.min_eq_left hk
  refine ⟨?_, ?_, pool_append_WF_fst dst src n, pool_append_WF_snd dst src n hs, ?_, ?_⟩
  · rw [pool_append_words_fst, hmin, hw, Nat.zero_add]
  · rw [pool_append_words_snd, hmin]
  · intro i hi
    have := pool_append_wget_fst dst src n i (by omega)
    simpa only [hw, Nat.zero_le, if_true, Nat.sub_zero] using this
  · intro i hi
    have := pool_append_wget_snd dst src n i hs (by omega)
    rwa [hmin] at this

/-! ### the pool -/

/-- Everything that is or will be in the pool, in order. -/
def stream (pool : Triples) (ticks : List (List Triples)) : List (Word × Word × Word) :=
  pool.view ++ (ticks.flatten.flatMap Triples.view)

set_option linter.unusedVariables false in
theorem poolArrive_spec (pool b : Triples) (hp : pool.WF) (hb : b.WF) :
    (poolArrive pool b).WF ∧ (poolArrive pool b).view = pool.view ++ b.view := by
  refine ⟨pool_append_WF_fst _ _ _, ?_⟩
  unfold poolArrive
  rw [pool_append_view_fst, List.take_of_length_le]
  rw [length_view]
  omega

theorem pool_foldl_poolArrive_spec (tick : List Triples) (pool : Triples) (hp : pool.WF)
    (hb : ∀ b ∈ tick, b.WF) :
    (tick.foldl poolArrive pool).WF ∧
      (tick.foldl poolArrive pool).view = pool.view ++ tick.flatMap Triples.view := by
  induction tick generalizing pool with
  | nil => simpa using hp
  | cons b tick ih =>
    obtain ⟨h1, h2⟩ := poolArrive_spec pool b hp (hb b (by simp))
    obtain ⟨h3, h4⟩ := ih (poolArrive pool b) h1 (fun x hx => hb x (by simp [hx]))
    refine ⟨h3, ?_⟩
    rw [List.foldl_cons, h4, h2, List.flatMap_cons, List.append_assoc]

theorem pool_stream_cons (pool : Triples) (tick : List Triples) (rest : List (List Triples))
    (hp : pool.WF) (hb : ∀ b ∈ tick, b.WF) :
    stream pool (tick :: rest) = stream (tick.foldl poolArrive pool) rest := by
  unfold stream
  rw [(pool_foldl_poolArrive_spec tick pool hp hb).2, List.flatten_cons, List.flatMap_append,
    List.append_assoc]

/-- Words `Get` still has to fetch at offset `ofs`. -/
def pool_need (count ofs : Nat) : Nat := (count - ofs + 63) / 64

theorem pool_need_eq_zero (count ofs : Nat) : pool_need count ofs = 0 ↔ count ≤ ofs := by
  unfold pool_need; omega

theorem pool_need_step (count ofs k : Nat) (hk : k ≤ pool_need count ofs) :
    pool_need count (ofs + k * 64) = pool_need count ofs - k := by
  unfold pool_need at *; omega

/-- The effect of one non-waiting iteration on the stream. -/
theorem pool_append_stream (dst pool : Triples) (rest : List (List Triples)) (n : Nat) (hp : pool.WF) :
    let k := min ((n + 63) / 64) pool.words
    (dst.append pool n).1.view = dst.view ++ (stream pool rest).take k ∧
    stream (dst.append pool n).2.1 rest = (stream pool rest).drop k ∧
    k ≤ (stream pool rest).length := by
  intro k
  have hk : k ≤ pool.view.length := by rw [length_view]; exact Nat.min_le_right _ _
  refine ⟨?_, ?_, ?_⟩
  · rw [pool_append_view_fst]
    unfold stream
    rw [List.take_append_of_le_length hk]
  · unfold stream
    rw [pool_append_view_snd _ _ _ hp, List.drop_append_of_le_length hk]
  · unfold stream
    rw [List.length_append]
    omega

theorem pool_poolGet_spec (count : Nat) (ticks : List (List Triples)) :
    ∀ (ofs : Nat) (pool dst pool' dst' : Triples) (rest : List (List Triples)),
      pool.WF → dst.WF → (∀ t ∈ ticks, ∀ b ∈ t, b.WF) →
      poolGet count ticks ofs pool dst = some (pool', dst', rest) →
      dst'.view = dst.view ++ (stream pool ticks).take (pool_need count ofs) ∧
      stream pool' rest = (stream pool ticks).drop (pool_need count ofs) ∧
      pool_need count ofs ≤ (stream pool ticks).length ∧ pool'.WF ∧ dst'.WF := by
  induction ticks with
  | nil =>
    intro ofs pool dst pool' dst' rest hp hd _ h
    simp only [poolGet] at h
    split at h
    · next hc =>
      simp only [Option.some.injEq, Prod.mk.injEq] at h
      obtain ⟨rfl, rfl, rfl⟩ := h
      rw [(pool_need_eq_zero count ofs).2 hc]
      simp [hp, hd]
    · exact absurd h (by simp)
  | cons tick ticks ih =>
    intro ofs pool dst pool' dst' rest hp hd hb h
    have hbt : ∀ b ∈ tick, b.WF := hb tick (by simp)
    have hbr : ∀ t ∈ ticks, ∀ b ∈ t, b.WF := fun t ht => hb t (by simp [ht])
    simp only [poolGet] at h
    split at h
    · next hc =>
      simp only [Option.some.injEq, Prod.mk.injEq] at h
      obtain ⟨rfl, rfl, rfl⟩ := h
      rw [(pool_need_eq_zero count ofs).2 hc]
      simp [hp, hd]
    · next hc =>
      obtain ⟨hp1, _⟩ := pool_foldl_poolArrive_spec tick pool hp hbt
      rw [pool_stream_cons pool tick ticks hp hbt]
      split at h
      · exact ih ofs _ dst pool' dst' rest hp1 hd hbr h
      · next hne =>
        obtain ⟨hv1, hs1, hk1⟩ := pool_append_stream dst (tick.foldl poolArrive pool) ticks (count - ofs) hp1
        have hkn : min ((count - ofs + 63) / 64) (tick.foldl poolArrive pool).words ≤ pool_need count ofs :=
          Nat.min_le_left _ _
        obtain ⟨h1, h2, h3, h4, h5⟩ := ih _ _ _ pool' dst' rest (pool_append_WF_snd dst _ (count - ofs) hp1)
          (pool_append_WF_fst dst _ (count - ofs)) hbr h
        rw [pool_append_ret, pool_need_step count ofs _ hkn] at h1 h2 h3
        generalize min ((count - ofs + 63) / 64) (tick.foldl poolArrive pool).words = k at *
        generalize stream (tick.foldl poolArrive pool) ticks = S at *
        rw [hs1] at h2 h3
        rw [hv1, hs1] at h1
        rw [List.length_drop] at h3
        refine ⟨?_, ?_, by omega, h4, h5⟩
        · rw [h1, List.append_assoc, ← List.take_add, Nat.add_sub_cancel' hkn]
        · rw [h2, List.drop_drop, Nat.add_sub_cancel' hkn]

/-- Lockstep: whatever the arrival schedule, a `Get(count)` that returns has moved exactly the next
`⌈count/64⌉` words of the stream to the destination, in order, and left the rest of the stream. -/
theorem gmw_pool_lockstep (count : Nat) (ticks : List (List Triples)) (pool dst pool' dst' : Triples)
    (rest : List (List Triples)) (hp : pool.WF) (hd : dst.WF) (hb : ∀ t ∈ ticks, ∀ b ∈ t, b.WF)
    (h : poolGet count ticks 0 pool dst = some (pool', dst', rest)) :
    dst'.view = dst.view ++ (stream pool ticks).take ((count + 63) / 64) ∧
    stream pool' rest = (stream pool ticks).drop ((count + 63) / 64) ∧
    (count + 63) / 64 ≤ (stream pool ticks).length ∧ pool'.WF ∧ dst'.WF :=
  pool_poolGet_spec count ticks 0 pool dst pool' dst' rest hp hd hb h

/-- Timing independence: two schedules carrying the same stream give the same destination content. -/
theorem gmw_pool_timing_independent (count : Nat) (t1 t2 : List (List Triples)) (pool dst p1 d1 p2 d2 : Triples)
    (r1 r2 : List (List Triples)) (hp : pool.WF) (hd : dst.WF)
    (hb1 : ∀ t ∈ t1, ∀ b ∈ t, b.WF) (hb2 : ∀ t ∈ t2, ∀ b ∈ t, b.WF)
    (hs : stream pool t1 = stream pool t2)
    (h1 : poolGet count t1 0 pool dst = some (p1, d1, r1)) (h2 : poolGet count t2 0 pool dst = some (p2, d2, r2)) :
    d1.view = d2.view ∧ stream p1 r1 = stream p2 r2 := by
  obtain ⟨a1, b1, _⟩ := gmw_pool_lockstep count t1 pool dst p1 d1 r1 hp hd hb1 h1
  obtain ⟨a2, b2, _⟩ := gmw_pool_lockstep count t2 pool dst p2 d2 r2 hp hd hb2 h2
  rw [a1, a2, b1, b2, hs]
  exact ⟨rfl, rfl⟩

/-! ### progress -/

theorem pool_poolGet_cons_nil (count : Nat) (rest : List (List Triples)) (ofs : Nat) (pool dst : Triples) :
    poolGet count ([] :: rest) ofs pool dst =
      if count ≤ ofs then some (pool, dst, [] :: rest) else
      if pool.words = 0 then poolGet count rest ofs pool dst else
      poolGet count rest (ofs + (dst.append pool (count - ofs)).2.2) (dst.append pool (count - ofs)).2.1
        (dst.append pool (count - ofs)).1 := by
  rw [poolGet]
  rfl

/-- Once the pool itself holds enough words, `pool_need` further (empty) ticks suffice: every
iteration takes at least one word. -/
theorem pool_poolGet_pad (count : Nat) (pad : Nat) :
    ∀ (ofs : Nat) (pool dst : Triples), pool.WF → pool_need count ofs ≤ pool.words → pool_need count ofs ≤ pad →
      (poolGet count (List.replicate pad []) ofs pool dst).isSome = true := by
  induction pad with
  | zero =>
    intro ofs pool dst _ _ hn
    have hc : count ≤ ofs := (pool_need_eq_zero count ofs).1 (by omega)
    simp [poolGet, hc]
  | succ pad ih =>
    intro ofs pool dst hp hw hn
    rw [List.replicate_succ, pool_poolGet_cons_nil]
    split
    · rfl
    · next hc =>
      have hpos : 0 < pool_need count ofs := by
        have := pool_need_eq_zero count ofs
        omega
      have hne : ¬pool.words = 0 := by omega
      rw [if_neg hne]
      have hmin : min ((count - ofs + 63) / 64) pool.words = pool_need count ofs := Nat.min_eq_left hw
      apply ih
      · exact pool_append_WF_snd dst pool (count - ofs) hp
      · rw [pool_append_ret, pool_append_words_snd, hmin, pool_need_step count ofs _ (Nat.le_refl _)]
        omega
      · rw [pool_append_ret, hmin, pool_need_step count ofs _ (Nat.le_refl _)]
        omega

theorem pool_poolGet_returns_aux (count : Nat) (ticks : List (List Triples)) :
    ∀ (ofs : Nat) (pool dst : Triples), pool.WF → (∀ t ∈ ticks, ∀ b ∈ t, b.WF) →
      pool_need count ofs ≤ (stream pool ticks).length →
      ∃ pad, (poolGet count (ticks ++ List.replicate pad []) ofs pool dst).isSome = true := by
  induction ticks with
  | nil =>
    intro ofs pool dst hp _ hn
    refine ⟨pool_need count ofs, ?_⟩
    rw [List.nil_append]
    apply pool_poolGet_pad count _ ofs pool dst hp _ (Nat.le_refl _)
    simpa [stream, length_view] using hn
  | cons tick ticks ih =>
    intro ofs pool dst hp hb hn
    have hbt : ∀ b ∈ tick, b.WF := hb tick (by simp)
    have hbr : ∀ t ∈ ticks, ∀ b ∈ t, b.WF := fun t ht => hb t (by simp [ht])
    by_cases hc : count ≤ ofs
    · exact ⟨0, by simp [poolGet, hc]⟩
    · obtain ⟨hp1, _⟩ := pool_foldl_poolArrive_spec tick pool hp hbt
      rw [pool_stream_cons pool tick ticks hp hbt] at hn
      simp only [List.cons_append, poolGet, if_neg hc]
      by_cases hz : (tick.foldl poolArrive pool).words = 0
      · simp only [if_pos hz]
        exact ih ofs _ dst hp1 hbr hn
      · simp only [if_neg hz]
        apply ih _ _ _ (pool_append_WF_snd dst _ (count - ofs) hp1) hbr
        obtain ⟨_, hs1, hk1⟩ := pool_append_stream dst (tick.foldl poolArrive pool) ticks (count - ofs) hp1
        have hkn : min ((count - ofs + 63) / 64) (tick.foldl poolArrive pool).words ≤ pool_need count ofs :=
          Nat.min_le_left _ _
        rw [pool_append_ret, pool_need_step count ofs _ hkn, hs1, List.length_drop]
        omega

set_option linter.unusedVariables false in
/-- Progress: if the schedule delivers enough words and is padded with enough (possibly empty) ticks,
`Get` returns.  (One tick per loop iteration; an iteration either waits or takes at least one word.) -/
theorem poolGet_returns (count : Nat) (ticks : List (List Triples)) (pool dst : Triples)
    (hp : pool.WF) (hd : dst.WF) (hb : ∀ t ∈ ticks, ∀ b ∈ t, b.WF)
    (henough : (count + 63) / 64 ≤ (stream pool ticks).length) :
    ∃ pad, (poolGet count (ticks ++ List.replicate pad []) 0 pool dst).isSome = true :=
  pool_poolGet_returns_aux count ticks 0 pool dst hp hb henough

end Mpc.Gmw

/-
C10: `Triples.Append` and `TriplePool.Get` (gmw/triples.go) – the pool hands out
the stream of triple words in order, whatever the arrival schedule of the
offline goroutine.  Core Lean only.
-/
import MpcVerif.Model.Gmw

namespace Mpc.Gmw

/-! ### slices -/

theorem size_mkA {α} (n : Nat) (f : Nat → α) : (mkA n f).size = n := by
  simp [mkA]

theorem wget_mkA (n : Nat) (f : Nat → Word) (i : Nat) (h : i < n) : wget (mkA n f) i = f i := by
  simp [wget, mkA, Array.getD, h]

theorem wget_of_size_le (v : Words) (i : Nat) (h : v.size ≤ i) : wget v i = 0#64 := by
  simp [wget, Array.getD, Nat.not_lt.mpr h]

theorem wget_mkA_ge (n : Nat) (f : Nat → Word) (i : Nat) (h : n ≤ i) : wget (mkA n f) i = 0#64 :=
  wget_of_size_le _ _ (by rw [size_mkA]; exact h)

theorem wget_mkA_ite (n : Nat) (f : Nat → Word) (i : Nat) :
    wget (mkA n f) i = if i < n then f i else 0#64 := by
  split
  · next h => exact wget_mkA n f i h
  · next h => exact wget_mkA_ge n f i (Nat.le_of_not_lt h)

theorem le_size_expand (v : Words) (n : Nat) : n ≤ (expand v n).size := by
  unfold expand
  split
  · assumption
  · rw [size_mkA]; exact Nat.le_refl _

theorem size_le_size_expand (v : Words) (n : Nat) : v.size ≤ (expand v n).size := by
  unfold expand
  split
  · exact Nat.le_refl _
  · rw [size_mkA]; omega

theorem wget_expand (v : Words) (n i : Nat) : wget (expand v n) i = wget v i := by
  unfold expand
  split
  · rfl
  · next h =>
    rw [wget_mkA_ite]
    split
    · rfl
    · rw [wget_of_size_le v i (by omega)]

theorem size_copyW (dst : Words) (off : Nat) (src : Words) (lo hi : Nat) :
    (copyW dst off src lo hi).size = dst.size := size_mkA _ _

theorem wget_copyW (dst : Words) (off : Nat) (src : Words) (lo hi i : Nat) :
    wget (copyW dst off src lo hi) i =
      if i < dst.size then
        (if off ≤ i ∧ i - off < hi - lo then wget src (lo + (i - off)) else wget dst i)
      else 0#64 := by
  unfold copyW
  rw [wget_mkA_ite]

theorem size_clearFrom (v : Words) (frm : Nat) : (clearFrom v frm).size = v.size := size_mkA _ _

theorem wget_clearFrom (v : Words) (frm i : Nat) :
    wget (clearFrom v frm) i = if i < v.size then (if frm ≤ i then 0#64 else wget v i) else 0#64 := by
  unfold clearFrom
  rw [wget_mkA_ite]

/-! ### capacity -/

theorem lt_capLoop (fuel size words : Nat) (h1 : 1 ≤ size) (h2 : words < fuel + size) :
    words < capLoop fuel size words := by
  induction fuel generalizing size with
  | zero => simpa [capLoop] using h2
  | succ f ih =>
    simp only [capLoop]
    split
    · apply ih <;> omega
    · omega

theorem lt_capFor (words : Nat) : words < capFor words :=
  lt_capLoop _ _ _ (by omega) (by omega)

/-! ### view -/

theorem length_view (t : Triples) : t.view.length = t.words := by
  simp [Triples.view]

theorem getElem?_view (t : Triples) (i : Nat) :
    t.view[i]? = if i < t.words then some (wget t.a i, wget t.b i, wget t.c i) else none := by
  unfold Triples.view
  rw [List.getElem?_map]
  split
  · next h => rw [List.getElem?_range h]; rfl
  · next h => rw [List.getElem?_eq_none (by simpa using h)]; rfl

theorem view_empty : Triples.empty.view = [] := by
  simp [Triples.view, Triples.empty]

theorem clear_words (t : Triples) : t.clear.words = 0 := rfl

theorem clear_WF (t : Triples) : t.clear.WF := by
  simp [Triples.WF, Triples.clear]

theorem view_ext (t : Triples) (l : List (Word × Word × Word)) (hl : l.length = t.words)
    (h : ∀ i, i < t.words → l[i]? = some (wget t.a i, wget t.b i, wget t.c i)) : t.view = l := by
  apply List.ext_getElem?
  intro i
  rw [getElem?_view]
  split
  · next hi => exact (h i hi).symm
  · next hi => rw [List.getElem?_eq_none (by omega)]

/-! ### `Append` -/

/-- Destination side of `Append`, one slice. -/
theorem wget_copy_expand (dv sv : Words) (w k cap i : Nat) (hcap : w + k < cap) (hi : i < w + k) :
    wget (copyW (expand dv cap) w sv 0 k) i = if w ≤ i then wget sv (i - w) else wget dv i := by
  have := le_size_expand dv cap
  rw [wget_copyW, if_pos (by omega), wget_expand]
  by_cases hw : w ≤ i
  · rw [if_pos ⟨hw, by omega⟩, if_pos hw, Nat.zero_add]
  · rw [if_neg (fun h => hw h.1), if_neg hw]

/-- Source side of `Append` (shift down and clear the tail), one slice. -/
theorem wget_shift (v : Words) (sw k i : Nat) (hsw : sw ≤ v.size) (hi : i < sw - k) :
    wget (clearFrom (copyW v 0 v k v.size) (sw - k)) i = wget v (i + k) := by
  rw [wget_clearFrom, size_copyW, if_pos (by omega), if_neg (by omega), wget_copyW,
    if_pos (by omega), if_pos ⟨Nat.zero_le _, by omega⟩, Nat.sub_zero, Nat.add_comm]

theorem append_words_fst (dst src : Triples) (n : Nat) :
    (dst.append src n).1.words = dst.words + min ((n + 63) / 64) src.words := rfl

theorem append_words_snd (dst src : Triples) (n : Nat) :
    (dst.append src n).2.1.words = src.words - min ((n + 63) / 64) src.words := rfl

theorem append_ret (dst src : Triples) (n : Nat) :
    (dst.append src n).2.2 = min ((n + 63) / 64) src.words * 64 := rfl

theorem append_WF_fst (dst src : Triples) (n : Nat) : (dst.append src n).1.WF := by
  have hc := lt_capFor (dst.words + min ((n + 63) / 64) src.words)
  have ha := le_size_expand dst.a (capFor (dst.words + min ((n + 63) / 64) src.words))
  have hb := le_size_expand dst.b (capFor (dst.words + min ((n + 63) / 64) src.words))
  have hc' := le_size_expand dst.c (capFor (dst.words + min ((n + 63) / 64) src.words))
  simp only [Triples.WF, Triples.append, Triples.ensureCapacity, size_copyW]
  omega

theorem append_WF_snd (dst src : Triples) (n : Nat) (hs : src.WF) : (dst.append src n).2.1.WF := by
  obtain ⟨h1, h2, h3⟩ := hs
  simp only [Triples.WF, Triples.append, size_clearFrom, size_copyW]
  omega

theorem append_wget_fst (dst src : Triples) (n i : Nat)
    (hi : i < dst.words + min ((n + 63) / 64) src.words) :
    wget (dst.append src n).1.a i = (if dst.words ≤ i then wget src.a (i - dst.words) else wget dst.a i) ∧
    wget (dst.append src n).1.b i = (if dst.words ≤ i then wget src.b (i - dst.words) else wget dst.b i) ∧
    wget (dst.append src n).1.c i = (if dst.words ≤ i then wget src.c (i - dst.words) else wget dst.c i) := by
  have hc := lt_capFor (dst.words + min ((n + 63) / 64) src.words)
  simp only [Triples.append, Triples.ensureCapacity]
  exact ⟨wget_copy_expand _ _ _ _ _ _ hc hi, wget_copy_expand _ _ _ _ _ _ hc hi,
    wget_copy_expand _ _ _ _ _ _ hc hi⟩

theorem append_wget_snd (dst src : Triples) (n i : Nat) (hs : src.WF)
    (hi : i < src.words - min ((n + 63) / 64) src.words) :
    wget (dst.append src n).2.1.a i = wget src.a (i + min ((n + 63) / 64) src.words) ∧
    wget (dst.append src n).2.1.b i = wget src.b (i + min ((n + 63) / 64) src.words) ∧
    wget (dst.append src n).2.1.c i = wget src.c (i + min ((n + 63) / 64) src.words) := by
  obtain ⟨h1, h2, h3⟩ := hs
  simp only [Triples.append]
  exact ⟨wget_shift _ _ _ _ h1 hi, wget_shift _ _ _ _ h2 hi, wget_shift _ _ _ _ h3 hi⟩

theorem append_view_fst (dst src : Triples) (n : Nat) :
    (dst.append src n).1.view = dst.view ++ src.view.take (min ((n + 63) / 64) src.words) := by
  apply view_ext
  · rw [append_words_fst, List.length_append, List.length_take, length_view, length_view]
    omega
  · intro i hi
    rw [append_words_fst] at hi
    obtain ⟨ha, hb, hc⟩ := append_wget_fst dst src n i hi
    rw [ha, hb, hc, List.getElem?_append, length_view]
    by_cases hw : dst.words ≤ i
    · rw [if_neg (by omega), if_pos hw, if_pos hw, if_pos hw, List.getElem?_take,
        if_pos (by omega), getElem?_view, if_pos (by omega)]
    · rw [if_pos (by omega), if_neg hw, if_neg hw, if_neg hw, getElem?_view, if_pos (by omega)]

theorem append_view_snd (dst src : Triples) (n : Nat) (hs : src.WF) :
    (dst.append src n).2.1.view = src.view.drop (min ((n + 63) / 64) src.words) := by
  apply view_ext
  · rw [append_words_snd, List.length_drop, length_view]
  · intro i hi
    rw [append_words_snd] at hi
    obtain ⟨ha, hb, hc⟩ := append_wget_snd dst src n i hs hi
    rw [ha, hb, hc, List.getElem?_drop, getElem?_view, if_pos (by omega), Nat.add_comm]

theorem append_spec (dst src : Triples) (n : Nat) (hd : dst.WF) (hs : src.WF) :
    let r := dst.append src n
    let k := min ((n + 63) / 64) src.words
    r.1.words = dst.words + k ∧ r.2.1.words = src.words - k ∧ r.2.2 = k * 64 ∧
    r.1.WF ∧ r.2.1.WF ∧
    r.1.view = dst.view ++ src.view.take k ∧ r.2.1.view = src.view.drop k :=
  ⟨rfl, rfl, rfl, append_WF_fst dst src n, append_WF_snd dst src n hs, append_view_fst dst src n,
    append_view_snd dst src n hs⟩

theorem append_fresh (dst src : Triples) (n : Nat) (hd : dst.WF) (hs : src.WF) (hw : dst.words = 0)
    (hk : (n + 63) / 64 ≤ src.words) :
    let r := dst.append src n
    let k := (n + 63) / 64
    r.1.words = k ∧ r.2.1.words = src.words - k ∧ r.1.WF ∧ r.2.1.WF ∧
    (∀ i, i < k → wget r.1.a i = wget src.a i ∧ wget r.1.b i = wget src.b i ∧ wget r.1.c i = wget src.c i) ∧
    (∀ i, i < src.words - k → wget r.2.1.a i = wget src.a (i + k) ∧ wget r.2.1.b i = wget src.b (i + k) ∧
       wget r.2.1.c i = wget src.c (i + k)) := by
  have hmin : min ((n + 63) / 64) src.words = (n + 63) / 64 := Nat.min_eq_left hk
  refine ⟨?_, ?_, append_WF_fst dst src n, append_WF_snd dst src n hs, ?_, ?_⟩
  · rw [append_words_fst, hmin, hw, Nat.zero_add]
  · rw [append_words_snd, hmin]
  · intro i hi
    have := append_wget_fst dst src n i (by omega)
    simpa only [hw, Nat.zero_le, if_true, Nat.sub_zero] using this
  · intro i hi
    have := append_wget_snd dst src n i hs (by omega)
    rwa [hmin] at this

end Mpc.Gmw

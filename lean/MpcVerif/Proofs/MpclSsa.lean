/-
The Lean model `lower` of the AST -> SSA translation (compiler/ast/ssagen.go)
for the straight-line fragment, and the proof that the SSA evaluator
`ssaEval` on its output agrees with the reference interpreter
(`lower_correct_partial`, used by Props/C03.lean).
-/
import MpcVerif.Model.MpclSsa
import MpcVerif.Proofs.Mpcl

namespace Mpc.Mpcl.Ssa
open Mpc.Mpcl

abbrev NameMap := List (String × (Nat × Ty))

def NameMap.find : NameMap → String → Option (Nat × Ty)
  | [], _ => none
  | (y, r) :: rest, x => if x = y then some r else NameMap.find rest x

def numTy : Ty → Option (Bool × Nat)
  | .int w => some (true, w)
  | .uint w => some (false, w)
  | _ => none

def lowerOp : BinOp → Option SOp
  | .add => some .add | .sub => some .sub | .band => some .band | .bor => some .bor | .bxor => some .bxor
  | _ => none

/-- Model of ast.Binary.SSA / ast.Call.cast / VariableRef.SSA for the fragment:
operand code first (left to right), then one instruction into a fresh value.
A cast is `smov` iff both types are signed and the target is wider, else `mov`
(exactly ssagen.go Call.cast); the cast intN -> wider uintM is NOT in the
fragment (there the real `mov` zero-extends: known deviation
C03-cast-int-to-wider-uint). -/
def lowerE (nm : NameMap) : Expr → Nat → Option (SArg × Ty × List SInstr × Nat)
  | .var x, next =>
    match nm.find x with
    | some (id, t) =>
      match numTy t with
      | some (_, w) => some (.var id w, t, [], next)
      | none => none
    | none => none
  | .bin op a b, next =>
    match lowerOp op, lowerE nm a next with
    | some sop, some (aa, ta, ca, n1) =>
      match lowerE nm b n1 with
      | some (ba, tb, cb, n2) =>
        match numTy ta, numTy tb with
        | some (s, w), some (s', w') =>
          if s = s' ∧ w = w' then
            some (.var n2 w, ta, ca ++ cb ++ [⟨sop, [aa, ba], some (n2, w)⟩], n2 + 1)
          else none
        | _, _ => none
      | none => none
    | _, _ => none
  | .cast t a, next =>
    match lowerE nm a next with
    | some (aa, ta, ca, n1) =>
      match numTy ta, numTy t with
      | some (s, w), some (s', w') =>
        if s && !s' && decide (w < w') then none
        else some (.var n1 w', t,
          ca ++ [⟨if s && s' && decide (w < w') then .smov else .mov, [aa], some (n1, w')⟩], n1 + 1)
      | _, _ => none
    | none => none
  | _, _ => none

/-- Interpreter environment (one scope) and SSA store agree on every name. -/
def Rel (nm : NameMap) (env : Env) (st : Nat → Nat) : Prop :=
  ∀ x id t, nm.find x = some (id, t) →
    ∃ s w v, numTy t = some (s, w) ∧ v < 2 ^ w ∧ env.lookup x = some (.num s w v) ∧ st id = v

def Below (nm : NameMap) (n : Nat) : Prop := ∀ x id t, nm.find x = some (id, t) → id < n

def NoRet (code : List SInstr) : Prop := ∀ i ∈ code, i.op ≠ .ret

theorem ssaSteps_append (c1 c2 : List SInstr) (st : Nat → Nat) :
    ssaSteps (c1 ++ c2) st = (ssaSteps c1 st).bind (ssaSteps c2) := by
  induction c1 generalizing st with
  | nil => simp [ssaSteps]
  | cons i rest ih =>
    simp only [List.cons_append, ssaSteps]
    cases i.out with
    | none => simp
    | some o =>
      obtain ⟨id, ow⟩ := o
      simp only
      cases evalOp i.op (i.ins.map (argVal st)) ow with
      | none => simp
      | some v => simp [ih]

theorem ssaRun_append (c1 c2 : List SInstr) (h : NoRet c1) (st : Nat → Nat) :
    ssaRun (c1 ++ c2) st = (ssaSteps c1 st).bind (ssaRun c2) := by
  induction c1 generalizing st with
  | nil => simp [ssaSteps]
  | cons i rest ih =>
    have hi : i.op ≠ .ret := h i (by simp)
    have hr : NoRet rest := fun j hj => h j (by simp [hj])
    simp only [List.cons_append, ssaRun, ssaSteps, hi, if_false]
    cases i.out with
    | none => simp
    | some o =>
      obtain ⟨id, ow⟩ := o
      simp only
      cases evalOp i.op (i.ins.map (argVal st)) ow with
      | none => simp
      | some v => simp [ih hr]



theorem pow_le_of_lt {w w' : Nat} (h : w ≤ w') : 2 ^ w ≤ 2 ^ w' := Nat.pow_le_pow_right (by decide) h

/-- Value-level agreement of the five binary operators. -/
theorem binop_evalOp (op : BinOp) (sop : SOp) (h : lowerOp op = some sop) (s : Bool) (w a b : Nat)
    (ha : a < 2 ^ w) (hb : b < 2 ^ w) :
    ∃ v, v < 2 ^ w ∧ binop op (.num s w a) (.num s w b) = some (.num s w v) ∧
      evalOp sop [(a, w), (b, w)] w = some v := by
  have hpos : 0 < 2 ^ w := Nat.pos_of_ne_zero (by simp)
  cases op <;> simp [lowerOp] at h <;> subst h
  · exact ⟨(a + b) % 2 ^ w, Nat.mod_lt _ hpos, by simp [binop, arith, wrap], by simp [evalOp]⟩
  · exact ⟨(2 ^ w - b + a) % 2 ^ w, Nat.mod_lt _ hpos, by simp [binop, arith, wrap],
      by simp [evalOp, Nat.mod_eq_of_lt hb]⟩
  · have hl : a &&& b < 2 ^ w := Nat.lt_of_le_of_lt Nat.and_le_left ha
    exact ⟨a &&& b, hl, by simp [binop, arith], by simp [evalOp, Nat.mod_eq_of_lt hl]⟩
  · have hl : a ||| b < 2 ^ w := Nat.or_lt_two_pow ha hb
    exact ⟨a ||| b, hl, by simp [binop, arith], by simp [evalOp, Nat.mod_eq_of_lt hl]⟩
  · have hl : a ^^^ b < 2 ^ w := Nat.xor_lt_two_pow ha hb
    exact ⟨a ^^^ b, hl, by simp [binop, arith], by simp [evalOp, Nat.mod_eq_of_lt hl]⟩

/-- Value-level agreement of the casts of the fragment. -/
theorem cast_evalOp (s s' : Bool) (w w' a : Nat) (ha : a < 2 ^ w)
    (hx : ¬ (s = true ∧ s' = false ∧ w < w')) :
    ∃ v, v < 2 ^ w' ∧ castNum s w a s' w' = .num s' w' v ∧
      evalOp (if s && s' && decide (w < w') then .smov else .mov) [(a, w)] w' = some v := by
  have hpos : 0 < 2 ^ w' := Nat.pos_of_ne_zero (by simp)
  by_cases hle : w' ≤ w
  · have hn : ¬ w < w' := by omega
    exact ⟨a % 2 ^ w', Nat.mod_lt _ hpos, by simp [castNum, hle, wrap], by simp [hn, evalOp]⟩
  · have hlt : w < w' := by omega
    cases s with
    | false =>
      have hv : a < 2 ^ w' := Nat.lt_of_lt_of_le ha (pow_le_of_lt (by omega))
      exact ⟨a, hv, by simp [castNum, hle], by simp [evalOp, Nat.mod_eq_of_lt hv]⟩
    | true =>
      cases s' with
      | false => exact absurd ⟨rfl, rfl, hlt⟩ hx
      | true =>
        refine ⟨ofInt w' (toInt w a), ?_, by simp [castNum, hle], by simp [hlt, evalOp, wrapI]⟩
        rw [ofInt_eq]; exact (BitVec.ofInt w' _).isLt

theorem lowerE_correct (P : Prog) : ∀ (e : Expr) (nm : NameMap) (next : Nat) (aa : SArg) (t : Ty)
    (code : List SInstr) (next' : Nat) (env : Env) (st : Nat → Nat),
    lowerE nm e next = some (aa, t, code, next') → Rel nm env st → Below nm next →
    ∃ (s : Bool) (w v f : Nat) (st' : Nat → Nat), numTy t = some (s, w) ∧ v < 2 ^ w ∧
      evalE P f e env = some (.num s w v) ∧ ssaSteps code st = some st' ∧ argVal st' aa = (v, w) ∧
      (∀ id, id < next → st' id = st id) ∧ next ≤ next' ∧ NoRet code ∧
      (∀ id b, aa = .var id b → id < next')
  | .var x, nm, next, aa, t, code, next', env, st, h, hrel, hbel => by
    simp only [lowerE] at h
    cases hf : nm.find x with
    | none => simp [hf] at h
    | some r =>
      obtain ⟨id, t0⟩ := r
      simp only [hf] at h
      obtain ⟨s, w, v, hty, hv, hlook, hst⟩ := hrel x id t0 hf
      simp only [hty] at h
      cases h
      refine ⟨s, w, v, 1, st, hty, hv, by simp [evalE, hlook], by simp [ssaSteps],
        by simp [argVal, hst, SStore.get], fun _ _ => rfl, Nat.le_refl _, ?_, ?_⟩
      · intro i hi; cases hi
      · intro id' b hb; cases hb; exact hbel x id t hf
  | .bin op a b, nm, next, aa, t, code, next', env, st, h, hrel, hbel => by
    simp only [lowerE] at h
    cases hop : lowerOp op with
    | none => simp [hop] at h
    | some sop =>
      cases hla : lowerE nm a next with
      | none => simp [hop, hla] at h
      | some ra =>
        obtain ⟨aa1, ta, ca, n1⟩ := ra
        simp only [hop, hla] at h
        cases hlb : lowerE nm b n1 with
        | none => simp [hlb] at h
        | some rb =>
          obtain ⟨ba, tb, cb, n2⟩ := rb
          simp only [hlb] at h
          obtain ⟨s1, w1, v1, f1, st1, hty1, hv1, he1, hs1, harg1, hkeep1, hle1, hnr1, hid1⟩ :=
            lowerE_correct P a nm next aa1 ta ca n1 env st hla hrel hbel
          have hrel1 : Rel nm env st1 := by
            intro x id t0 hf
            obtain ⟨s, w, v, a1, a2, a3, a4⟩ := hrel x id t0 hf
            exact ⟨s, w, v, a1, a2, a3, by rw [hkeep1 id (hbel x id t0 hf)]; exact a4⟩
          have hbel1 : Below nm n1 := fun x id t0 hf => Nat.lt_of_lt_of_le (hbel x id t0 hf) hle1
          obtain ⟨s2, w2, v2, f2, st2, hty2, hv2, he2, hs2, harg2, hkeep2, hle2, hnr2, hid2⟩ :=
            lowerE_correct P b nm n1 ba tb cb n2 env st1 hlb hrel1 hbel1
          simp only [hty1, hty2] at h
          split at h
          · rename_i hsw
            obtain ⟨hs, hw⟩ := hsw
            subst hs; subst hw
            cases h
            obtain ⟨v, hv, hbin, hev⟩ := binop_evalOp op sop hop s1 w1 v1 v2 hv1 hv2
            -- the value of the first operand survives the second operand's code
            have harg1' : argVal st2 aa1 = (v1, w1) := by
              cases aa1 with
              | var id b =>
                have := hid1 id b rfl
                simp only [argVal, SStore.get] at harg1 ⊢
                rw [hkeep2 id this]; exact harg1
              | const a1 a2 a3 a4 a5 => simpa [argVal] using harg1
              | pat a1 a2 => simpa [argVal] using harg1
              | k a1 => simpa [argVal] using harg1
            refine ⟨s1, w1, v, max f1 f2 + 1, fun j => if j = n2 then v else st2 j, hty1, hv, ?_, ?_, ?_, ?_, ?_, ?_, ?_⟩
            · have e1 := evalE_mono P (Nat.le_max_left f1 f2) a env _ he1
              have e2 := evalE_mono P (Nat.le_max_right f1 f2) b env _ he2
              simp only [evalE, e1, e2, Option.bind_some]
              cases op <;> simp [lowerOp] at hop <;> simpa [binE] using hbin
            · rw [ssaSteps_append, ssaSteps_append, hs1]
              simp only [Option.bind_some, hs2]
              simp [ssaSteps, harg1', harg2, hev, SStore.set]
            · simp [argVal, SStore.get]
            · intro id hid
              have : id ≠ n2 := by omega
              simp only [this, if_false]
              rw [hkeep2 id (by omega), hkeep1 id hid]
            · omega
            · intro i hi
              simp only [List.mem_append, List.mem_singleton] at hi
              rcases hi with (hi | hi) | hi
              · exact hnr1 i hi
              · exact hnr2 i hi
              · subst hi
                cases op <;> simp [lowerOp] at hop <;> subst hop <;> simp
            · intro id b hb; cases hb; omega
          · cases h
  | .cast t0 a, nm, next, aa, t, code, next', env, st, h, hrel, hbel => by
    simp only [lowerE] at h
    cases hla : lowerE nm a next with
    | none => simp [hla] at h
    | some ra =>
      obtain ⟨aa1, ta, ca, n1⟩ := ra
      simp only [hla] at h
      obtain ⟨s1, w1, v1, f1, st1, hty1, hv1, he1, hs1, harg1, hkeep1, hle1, hnr1, hid1⟩ :=
        lowerE_correct P a nm next aa1 ta ca n1 env st hla hrel hbel
      simp only [hty1] at h
      cases hty0 : numTy t0 with
      | none => simp [hty0] at h
      | some r0 =>
        obtain ⟨s', w'⟩ := r0
        simp only [hty0] at h
        split at h
        · cases h
        · rename_i hx
          cases h
          have hx' : ¬ (s1 = true ∧ s' = false ∧ w1 < w') := by
            intro ⟨h1, h2, h3⟩; apply hx; simp [h1, h2, h3]
          obtain ⟨v, hv, hcast, hev⟩ := cast_evalOp s1 s' w1 w' v1 hv1 hx'
          have hcv : castVal t0 (.num s1 w1 v1) = some (.num s' w' v) := by
            cases t0 <;> simp [numTy] at hty0
            · obtain ⟨h1, h2⟩ := hty0; subst h1; subst h2; simp [castVal, hcast]
            · obtain ⟨h1, h2⟩ := hty0; subst h1; subst h2; simp [castVal, hcast]
          refine ⟨s', w', v, f1 + 1, fun j => if j = n1 then v else st1 j, hty0, hv, ?_, ?_, ?_, ?_, ?_, ?_, ?_⟩
          · simp [evalE, he1, hcv]
          · rw [ssaSteps_append, hs1]
            have hev' := hev
            simp only [Bool.and_eq_true, decide_eq_true_eq] at hev'
            simp [ssaSteps, harg1, hev', SStore.set]
          · simp [argVal, SStore.get]
          · intro id hid
            have : id ≠ n1 := by omega
            simp only [this, if_false]
            exact hkeep1 id hid
          · omega
          · intro i hi
            simp only [List.mem_append, List.mem_singleton] at hi
            rcases hi with hi | hi
            · exact hnr1 i hi
            · subst hi; split <;> simp
          · intro id b hb; cases hb; omega
  | .lit _ _, _, _, _, _, _, _, _, _, h, _, _ => by simp [lowerE] at h
  | .shift _ _ _, _, _, _, _, _, _, _, _, h, _, _ => by simp [lowerE] at h
  | .not _, _, _, _, _, _, _, _, _, h, _, _ => by simp [lowerE] at h
  | .neg _, _, _, _, _, _, _, _, _, h, _, _ => by simp [lowerE] at h
  | .idx _ _, _, _, _, _, _, _, _, _, h, _, _ => by simp [lowerE] at h
  | .fld _ _, _, _, _, _, _, _, _, _, h, _, _ => by simp [lowerE] at h
  | .call _ _, _, _, _, _, _, _, _, _, h, _, _ => by simp [lowerE] at h



/-! ### Statements -/

theorem execS_mono (P : Prog) {f f' : Nat} (hle : f ≤ f') (s : Stmt) (env : Env) (o : Outcome)
    (h : execS P f s env = some o) : execS P f' s env = some o := by
  induction hle with
  | refl => exact h
  | step _ ih => exact (fuel_mono_succ P _).2.1 s env o ih

theorem Scope.lookup_set {sc sc' : Scope} {x : String} {n : Val} (h : Scope.set sc x n = some sc') (y : String) :
    Scope.lookup sc' y = if y = x then some n else Scope.lookup sc y := by
  induction sc generalizing sc' with
  | nil => simp [Scope.set] at h
  | cons p r ih =>
    obtain ⟨z, v⟩ := p
    simp only [Scope.set] at h
    by_cases hxz : x = z
    · simp only [hxz, if_true] at h
      cases h
      subst hxz
      by_cases hy : y = x <;> simp [Scope.lookup, hy]
    · simp only [hxz, if_false] at h
      cases hr : Scope.set r x n with
      | none => simp [hr] at h
      | some r' =>
        simp only [hr, Option.map_some] at h
        cases h
        have := ih hr
        by_cases hyz : y = z
        · subst hyz
          have hne : ¬ y = x := fun e => hxz e.symm
          simp [Scope.lookup, hne]
        · simp [Scope.lookup, hyz, this]

theorem Scope.set_isSome {sc : Scope} {x : String} {v : Val} (n : Val) (h : Scope.lookup sc x = some v) :
    ∃ sc', Scope.set sc x n = some sc' := by
  induction sc with
  | nil => simp [Scope.lookup] at h
  | cons p r ih =>
    obtain ⟨z, w⟩ := p
    simp only [Scope.lookup] at h
    by_cases hxz : x = z
    · exact ⟨(z, n) :: r, by simp [Scope.set, hxz]⟩
    · simp only [hxz, if_false] at h
      obtain ⟨r', hr⟩ := ih h
      exact ⟨(z, w) :: r', by simp [Scope.set, hxz, hr]⟩

/-- Assignment to a variable bound in the innermost scope. -/
theorem Env.set_top {sc : Scope} {rest : Env} {x : String} {v : Val} (n : Val)
    (h : Scope.lookup sc x = some v) :
    ∃ sc', Env.set (sc :: rest) x n = some (sc' :: rest) ∧
      ∀ y, Env.lookup (sc' :: rest) y = if y = x then some n else Env.lookup (sc :: rest) y := by
  obtain ⟨sc', hs⟩ := Scope.set_isSome n h
  refine ⟨sc', by simp [Env.set, hs], ?_⟩
  intro y
  have := Scope.lookup_set hs y
  simp only [Env.lookup, this]
  by_cases hy : y = x <;> simp [hy]

/-- All names of `nm` live in the single scope `sc` of the environment. -/
def RelTop (nm : NameMap) (sc : Scope) (st : Nat → Nat) : Prop :=
  ∀ x id t, nm.find x = some (id, t) →
    ∃ s w v, numTy t = some (s, w) ∧ v < 2 ^ w ∧ Scope.lookup sc x = some (.num s w v) ∧ st id = v

theorem RelTop.rel {nm : NameMap} {sc : Scope} {st : Nat → Nat} (h : RelTop nm sc st) : Rel nm [sc] st := by
  intro x id t hf
  obtain ⟨s, w, v, a1, a2, a3, a4⟩ := h x id t hf
  exact ⟨s, w, v, a1, a2, by simp [Env.lookup, a3], a4⟩

/-- Model of VariableDef.SSA / Assign.SSA for the fragment: the value is moved
into a fresh version of the variable. -/
def lowerS (nm : NameMap) (next : Nat) : Stmt → Option (NameMap × List SInstr × Nat)
  | .decl x t (some e) =>
    match lowerE nm e next with
    | some (aa, te, code, n1) =>
      match numTy t, numTy te with
      | some (s, w), some (s', w') =>
        if s = s' ∧ w = w' then some ((x, (n1, t)) :: nm, code ++ [⟨.mov, [aa], some (n1, w)⟩], n1 + 1) else none
      | _, _ => none
    | none => none
  | .assign [⟨x, []⟩] e =>
    match nm.find x, lowerE nm e next with
    | some (_, tx), some (aa, te, code, n1) =>
      match numTy tx, numTy te with
      | some (s, w), some (s', w') =>
        if s = s' ∧ w = w' then some ((x, (n1, tx)) :: nm, code ++ [⟨.mov, [aa], some (n1, w)⟩], n1 + 1) else none
      | _, _ => none
    | _, _ => none
  | _ => none

theorem numTy_eq {t t' : Ty} {s w} (h : numTy t = some (s, w)) (h' : numTy t' = some (s, w)) : t = t' := by
  cases t <;> cases t' <;> simp [numTy] at h h' <;> (obtain ⟨a, b⟩ := h; obtain ⟨c, d⟩ := h'; subst_vars; first | rfl | simp_all)

theorem lowerS_correct (P : Prog) (s : Stmt) (nm nm' : NameMap) (next next' : Nat) (code : List SInstr)
    (sc : Scope) (st : Nat → Nat) (h : lowerS nm next s = some (nm', code, next'))
    (hrel : RelTop nm sc st) (hbel : Below nm next) :
    ∃ f sc' st', execS P f s [sc] = some (.normal [sc']) ∧ ssaSteps code st = some st' ∧
      RelTop nm' sc' st' ∧ Below nm' next' ∧ NoRet code := by
  cases s with
  | decl x t init =>
    cases init with
    | none => simp [lowerS] at h
    | some e =>
      simp only [lowerS] at h
      cases hl : lowerE nm e next with
      | none => simp [hl] at h
      | some r =>
        obtain ⟨aa, te, ce, n1⟩ := r
        simp only [hl] at h
        obtain ⟨s1, w1, v1, f1, st1, hty1, hv1, he1, hs1, harg1, hkeep1, hle1, hnr1, hid1⟩ :=
          lowerE_correct P e nm next aa te ce n1 [sc] st hl hrel.rel hbel
        cases hty : numTy t with
        | none => simp [hty] at h
        | some r0 =>
          obtain ⟨s0, w0⟩ := r0
          simp only [hty, hty1] at h
          split at h
          · rename_i hsw
            obtain ⟨e1, e2⟩ := hsw
            subst e1; subst e2
            cases h
            have hmov : evalOp .mov [(v1, w0)] w0 = some v1 := by simp [evalOp, Nat.mod_eq_of_lt hv1]
            have hhas : (Val.num s0 w0 v1).hasTy t = true := by
              cases t <;> simp [numTy] at hty <;> (obtain ⟨a, b⟩ := hty; subst a; subst b; simp [Val.hasTy, hv1])
            refine ⟨f1 + 1, (x, .num s0 w0 v1) :: sc, fun j => if j = n1 then v1 else st1 j, ?_, ?_, ?_, ?_, ?_⟩
            · simp [execS, he1, hhas, Env.declare]
            · rw [ssaSteps_append, hs1]
              simp [ssaSteps, harg1, hmov, SStore.set]
            · intro y id t0 hf
              simp only [NameMap.find] at hf
              by_cases hy : y = x
              · simp only [hy, if_true] at hf
                cases hf
                exact ⟨s0, w0, v1, hty, hv1, by simp [Scope.lookup, hy], by simp⟩
              · simp only [hy, if_false] at hf
                obtain ⟨s, w, v, a1, a2, a3, a4⟩ := hrel y id t0 hf
                have hlt := hbel y id t0 hf
                have : id ≠ n1 := by omega
                exact ⟨s, w, v, a1, a2, by simp [Scope.lookup, hy, a3], by
                  simp only [this, if_false]; rw [hkeep1 id hlt]; exact a4⟩
            · intro y id t0 hf
              simp only [NameMap.find] at hf
              by_cases hy : y = x
              · simp only [hy, if_true] at hf; cases hf; omega
              · simp only [hy, if_false] at hf
                have := hbel y id t0 hf; omega
            · intro i hi
              simp only [List.mem_append, List.mem_singleton] at hi
              rcases hi with hi | hi
              · exact hnr1 i hi
              · subst hi; simp
          · cases h
  | assign lvs e =>
    match lvs, h with
    | [⟨x, []⟩], h =>
      simp only [lowerS] at h
      cases hf0 : nm.find x with
      | none => simp [hf0] at h
      | some r =>
        obtain ⟨id0, tx⟩ := r
        cases hl : lowerE nm e next with
        | none => simp [hf0, hl] at h
        | some r =>
          obtain ⟨aa, te, ce, n1⟩ := r
          simp only [hf0, hl] at h
          obtain ⟨s1, w1, v1, f1, st1, hty1, hv1, he1, hs1, harg1, hkeep1, hle1, hnr1, hid1⟩ :=
            lowerE_correct P e nm next aa te ce n1 [sc] st hl hrel.rel hbel
          obtain ⟨sx, wx, vx, htyx, hvx, hlookx, _⟩ := hrel x id0 tx hf0
          simp only [htyx, hty1] at h
          split at h
          · rename_i hsw
            obtain ⟨e1, e2⟩ := hsw
            subst e1; subst e2
            cases h
            have hmov : evalOp .mov [(v1, wx)] wx = some v1 := by simp [evalOp, Nat.mod_eq_of_lt hv1]
            obtain ⟨sc', hset, hlk⟩ := Env.set_top (rest := []) (.num sx wx v1) hlookx
            refine ⟨f1 + 1, sc', fun j => if j = n1 then v1 else st1 j, ?_, ?_, ?_, ?_, ?_⟩
            · have hl0 : Env.lookup [sc] x = some (.num sx wx vx) := by simp [Env.lookup, hlookx]
              simp [execS, he1, assignTo, hl0, Val.update, Val.sameShape, hset]
            · rw [ssaSteps_append, hs1]
              simp [ssaSteps, harg1, hmov, SStore.set]
            · intro y id t0 hf
              have hly := hlk y
              simp only [Env.lookup] at hly
              simp only [NameMap.find] at hf
              by_cases hy : y = x
              · simp only [hy, if_true] at hf
                cases hf
                refine ⟨sx, wx, v1, htyx, hv1, ?_, by simp⟩
                subst hy
                simp only [if_true] at hly
                cases hsl : Scope.lookup sc' y with
                | none => simp [hsl] at hly
                | some vv => simp [hsl] at hly; rw [hly]
              · simp only [hy, if_false] at hf
                obtain ⟨s, w, v, a1, a2, a3, a4⟩ := hrel y id t0 hf
                have hlt := hbel y id t0 hf
                have : id ≠ n1 := by omega
                refine ⟨s, w, v, a1, a2, ?_, by simp only [this, if_false]; rw [hkeep1 id hlt]; exact a4⟩
                simp only [hy, if_false, a3] at hly
                cases hsl : Scope.lookup sc' y with
                | none => simp [hsl] at hly
                | some vv => simp [hsl] at hly; rw [hly]
            · intro y id t0 hf
              simp only [NameMap.find] at hf
              by_cases hy : y = x
              · simp only [hy, if_true] at hf; cases hf; omega
              · simp only [hy, if_false] at hf
                have := hbel y id t0 hf; omega
            · intro i hi
              simp only [List.mem_append, List.mem_singleton] at hi
              rcases hi with hi | hi
              · exact hnr1 i hi
              · subst hi; simp
          · cases h
    | [], h => simp [lowerS] at h
    | ⟨_, _ :: _⟩ :: _, h => simp [lowerS] at h
    | ⟨_, []⟩ :: _ :: _, h => simp [lowerS] at h
  | define _ _ => simp [lowerS] at h
  | ifte _ _ _ => simp [lowerS] at h
  | «for» _ _ _ _ _ _ => simp [lowerS] at h
  | ret _ => simp [lowerS] at h



/-! ### Statement lists, `return`, function bodies -/

def lowerB (nm : NameMap) (next : Nat) : List Stmt → Option (NameMap × List SInstr × Nat)
  | [] => some (nm, [], next)
  | s :: ss =>
    match lowerS nm next s with
    | some (nm1, c1, n1) =>
      match lowerB nm1 n1 ss with
      | some (nm2, c2, n2) => some (nm2, c1 ++ c2, n2)
      | none => none
    | none => none

/-- Model of Return.SSA: every result is moved into a fresh value. -/
def lowerRet (nm : NameMap) (next : Nat) : List Expr → Option (List SArg × List SInstr × Nat)
  | [] => some ([], [], next)
  | e :: es =>
    match lowerE nm e next with
    | some (aa, t, ce, n1) =>
      match numTy t with
      | some (_, w) =>
        match lowerRet nm (n1 + 1) es with
        | some (as, cs, n2) => some (.var n1 w :: as, (ce ++ [⟨.mov, [aa], some (n1, w)⟩]) ++ cs, n2)
        | none => none
      | none => none
    | none => none

def lowerBody (nm : NameMap) (next : Nat) (stmts : List Stmt) (es : List Expr) : Option (List SInstr) :=
  match lowerB nm next stmts with
  | some (nm1, c1, n1) =>
    match lowerRet nm1 n1 es with
    | some (as, c2, _) => some ((c1 ++ c2) ++ [⟨.ret, as, none⟩])
    | none => none
  | none => none

theorem NoRet_append {a b : List SInstr} (ha : NoRet a) (hb : NoRet b) : NoRet (a ++ b) := by
  intro i hi
  rcases List.mem_append.1 hi with h | h
  · exact ha i h
  · exact hb i h

theorem lowerB_correct (P : Prog) : ∀ (ss : List Stmt) (nm nm' : NameMap) (next next' : Nat) (code : List SInstr)
    (sc : Scope) (st : Nat → Nat), lowerB nm next ss = some (nm', code, next') →
    RelTop nm sc st → Below nm next →
    ∃ f sc' st', execB P f ss [sc] = some (.normal [sc']) ∧ ssaSteps code st = some st' ∧
      RelTop nm' sc' st' ∧ Below nm' next' ∧ NoRet code
  | [], nm, nm', next, next', code, sc, st, h, hrel, hbel => by
    simp only [lowerB] at h
    cases h
    exact ⟨1, sc, st, by simp [execB], by simp [ssaSteps], hrel, hbel, by intro i hi; cases hi⟩
  | s :: ss, nm, nm', next, next', code, sc, st, h, hrel, hbel => by
    simp only [lowerB] at h
    cases hs : lowerS nm next s with
    | none => simp [hs] at h
    | some r1 =>
      obtain ⟨nm1, c1, n1⟩ := r1
      simp only [hs] at h
      cases hb : lowerB nm1 n1 ss with
      | none => simp [hb] at h
      | some r2 =>
        obtain ⟨nm2, c2, n2⟩ := r2
        simp only [hb] at h
        cases h
        obtain ⟨f1, sc1, st1, he1, hc1, hrel1, hbel1, hnr1⟩ := lowerS_correct P s nm nm1 next n1 c1 sc st hs hrel hbel
        obtain ⟨f2, sc2, st2, he2, hc2, hrel2, hbel2, hnr2⟩ :=
          lowerB_correct P ss nm1 nm' n1 next' c2 sc1 st1 hb hrel1 hbel1
        refine ⟨max f1 f2 + 1, sc2, st2, ?_, ?_, hrel2, hbel2, NoRet_append hnr1 hnr2⟩
        · simp only [execB, execS_mono P (Nat.le_max_left f1 f2) _ _ _ he1]
          exact execB_mono P (Nat.le_max_right f1 f2) _ _ _ he2
        · rw [ssaSteps_append, hc1]; simpa using hc2

theorem lowerRet_correct (P : Prog) : ∀ (es : List Expr) (nm : NameMap) (next next' : Nat) (as : List SArg)
    (code : List SInstr) (sc : Scope) (st : Nat → Nat), lowerRet nm next es = some (as, code, next') →
    RelTop nm sc st → Below nm next →
    ∃ f vals st', es.mapM (fun e => evalE P f e [sc]) = some vals ∧ ssaSteps code st = some st' ∧
      as.map (argVal st') = vals.map Val.encode ∧ (∀ id, id < next → st' id = st id) ∧ NoRet code ∧
      (∀ v ∈ vals, ∃ s w n, v = Val.num s w n)
  | [], nm, next, next', as, code, sc, st, h, hrel, hbel => by
    simp only [lowerRet] at h
    cases h
    refine ⟨0, [], st, by simp, by simp [ssaSteps], by simp, fun _ _ => rfl, ?_, ?_⟩
    · intro i hi; cases hi
    · intro v hv; cases hv
  | e :: es, nm, next, next', as, code, sc, st, h, hrel, hbel => by
    simp only [lowerRet] at h
    cases hl : lowerE nm e next with
    | none => simp [hl] at h
    | some r =>
      obtain ⟨aa, t, ce, n1⟩ := r
      simp only [hl] at h
      obtain ⟨s1, w1, v1, f1, st1, hty1, hv1, he1, hs1, harg1, hkeep1, hle1, hnr1, hid1⟩ :=
        lowerE_correct P e nm next aa t ce n1 [sc] st hl hrel.rel hbel
      simp only [hty1] at h
      cases hr : lowerRet nm (n1 + 1) es with
      | none => simp [hr] at h
      | some r2 =>
        obtain ⟨as2, cs, n2⟩ := r2
        simp only [hr] at h
        cases h
        have hmov : evalOp .mov [(v1, w1)] w1 = some v1 := by simp [evalOp, Nat.mod_eq_of_lt hv1]
        let st1' : Nat → Nat := fun j => if j = n1 then v1 else st1 j
        have hrel1 : RelTop nm sc st1' := by
          intro x id t0 hf
          obtain ⟨s, w, v, a1, a2, a3, a4⟩ := hrel x id t0 hf
          have hlt := hbel x id t0 hf
          have : id ≠ n1 := by omega
          exact ⟨s, w, v, a1, a2, a3, by simp only [st1', this, if_false]; rw [hkeep1 id hlt]; exact a4⟩
        have hbel1 : Below nm (n1 + 1) := fun x id t0 hf => by have := hbel x id t0 hf; omega
        obtain ⟨f2, vals, st2, hm, hc2, hargs, hkeep2, hnr2, hnum2⟩ :=
          lowerRet_correct P es nm (n1 + 1) next' as2 cs sc st1' hr hrel1 hbel1
        refine ⟨max f1 f2, .num s1 w1 v1 :: vals, st2, ?_, ?_, ?_, ?_, ?_, ?_⟩
        · have e1 := evalE_mono P (Nat.le_max_left f1 f2) e [sc] _ he1
          have e2 := mapM_mono (fun e => evalE P f2 e [sc]) (fun e => evalE P (max f1 f2) e [sc])
            (fun a v hv => evalE_mono P (Nat.le_max_right f1 f2) a [sc] v hv) es vals hm
          simp [List.mapM_cons, e1, e2]
        · rw [ssaSteps_append, ssaSteps_append, hs1]
          simp only [Option.bind_some]
          have : ssaSteps [⟨SOp.mov, [aa], some (n1, w1)⟩] st1 = some st1' := by
            simp [ssaSteps, harg1, hmov, SStore.set, st1']
          rw [this]; simpa using hc2
        · simp only [List.map_cons, hargs]
          have h1 : st2 n1 = v1 := by rw [hkeep2 n1 (by omega)]; simp [st1']
          simp [argVal, SStore.get, h1, Val.encode, Nat.mod_eq_of_lt hv1]
        · intro id hid
          rw [hkeep2 id (by omega)]
          have : id ≠ n1 := by omega
          simp only [st1', this, if_false]
          exact hkeep1 id hid
        · refine NoRet_append (NoRet_append hnr1 ?_) hnr2
          intro i hi; simp only [List.mem_singleton] at hi; subst hi; simp
        · intro v hv
          rcases List.mem_cons.1 hv with h | h
          · exact ⟨s1, w1, v1, h⟩
          · exact hnum2 v h

theorem mapM_length {α β : Type} (g : α → Option β) : ∀ (l : List α) (vs : List β),
    l.mapM g = some vs → l.length = vs.length := by
  intro l
  induction l with
  | nil => intro vs h; simp at h; subst h; rfl
  | cons a l ih =>
    intro vs h
    simp only [List.mapM_cons] at h
    cases ha : g a with
    | none => simp [ha] at h
    | some b =>
      cases hl : l.mapM g with
      | none => simp [ha, hl] at h
      | some bs =>
        simp [ha, hl] at h
        subst h
        simp [ih bs hl]

theorem execB_append_normal (P : Prog) : ∀ (ss rest : List Stmt) (f f' : Nat) (env env' : Env) (o : Outcome),
    execB P f ss env = some (.normal env') → execB P f' rest env' = some o →
    ∃ F, execB P F (ss ++ rest) env = some o
  | [], rest, f, f', env, env', o, h, h' => by
    cases f with
    | zero => simp [execB] at h
    | succ f => simp only [execB] at h; cases h; exact ⟨f', by simpa using h'⟩
  | s :: ss, rest, f, f', env, env', o, h, h' => by
    cases f with
    | zero => simp [execB] at h
    | succ f =>
      simp only [execB] at h
      cases hs : execS P f s env with
      | none => simp [hs] at h
      | some r =>
        simp only [hs] at h
        cases r with
        | returned vs => cases h
        | normal env1 =>
          obtain ⟨F, hF⟩ := execB_append_normal P ss rest f f' env1 env' o h h'
          refine ⟨max f F + 1, ?_⟩
          simp only [List.cons_append, execB, execS_mono P (Nat.le_max_left f F) _ _ _ hs]
          exact execB_mono P (Nat.le_max_right f F) _ _ _ hF

/-- Function bodies of the fragment: the SSA code the model of ssagen emits
computes exactly what the reference interpreter computes. -/
theorem lowerBody_correct (P : Prog) (nm : NameMap) (next : Nat) (stmts : List Stmt) (es : List Expr)
    (steps : List SInstr) (sc : Scope) (st : Nat → Nat) (h : lowerBody nm next stmts es = some steps)
    (hrel : RelTop nm sc st) (hbel : Below nm next) :
    ∃ f vals, execB P f (stmts ++ [.ret es]) [sc] = some (.returned vals) ∧
      ssaRun steps st = some (vals.map Val.encode) ∧ vals.length = es.length ∧
      (∀ v ∈ vals, ∃ s w n, v = Val.num s w n) := by
  simp only [lowerBody] at h
  cases hb : lowerB nm next stmts with
  | none => simp [hb] at h
  | some r1 =>
    obtain ⟨nm1, c1, n1⟩ := r1
    simp only [hb] at h
    cases hr : lowerRet nm1 n1 es with
    | none => simp [hr] at h
    | some r2 =>
      obtain ⟨as, c2, n2⟩ := r2
      simp only [hr] at h
      cases h
      obtain ⟨f1, sc1, st1, he1, hc1, hrel1, hbel1, hnr1⟩ := lowerB_correct P stmts nm nm1 next n1 c1 sc st hb hrel hbel
      obtain ⟨f2, vals, st2, hm, hc2, hargs, _, hnr2, hnum⟩ := lowerRet_correct P es nm1 n1 n2 as c2 sc1 st1 hr hrel1 hbel1
      have hret : execB P (f2 + 2) [.ret es] [sc1] = some (.returned vals) := by
        simp [execB, execS, hm]
      obtain ⟨F, hF⟩ := execB_append_normal P stmts [.ret es] f1 (f2 + 2) [sc] [sc1] _ he1 hret
      refine ⟨F, vals, hF, ?_, (mapM_length _ es vals hm).symm, hnum⟩
      rw [ssaRun_append _ _ (NoRet_append hnr1 hnr2), ssaSteps_append, hc1]
      simp only [Option.bind_some, hc2]
      simp [ssaRun, hargs]


/-! ### Whole functions on raw wire patterns -/

def lowerParams : List (String × Ty) → Nat → Option (NameMap × List (Nat × Nat))
  | [], _ => some ([], [])
  | (x, t) :: ps, i =>
    match numTy t, lowerParams ps (i + 1) with
    | some (_, w), some (nm, ins) => some ((x, (i, t)) :: nm, (i, w) :: ins)
    | _, _ => none

/-- `lower`: the SSA program (inputs, steps) the model of ssagen produces for a
function `func(params) (results) { stmts; return es }` of the fragment. -/
def lower (params : List (String × Ty)) (stmts : List Stmt) (es : List Expr) :
    Option (List (Nat × Nat) × List SInstr) :=
  match lowerParams params 0 with
  | some (nm, ins) =>
    match lowerBody nm params.length stmts es with
    | some steps => some (ins, steps)
    | none => none
  | none => none

theorem numTy_decode {t : Ty} {s : Bool} {w : Nat} (h : numTy t = some (s, w)) (n : Nat) :
    t.decode n = .num s w (n % 2 ^ w) ∧ (t.decode n).hasTy t = true := by
  have hpos : 0 < 2 ^ w := Nat.pos_of_ne_zero (by simp)
  cases t <;> simp [numTy] at h <;> (obtain ⟨a, b⟩ := h; subst a; subst b; simp [Ty.decode, Val.hasTy, Nat.mod_lt _ hpos])

theorem lowerParams_correct : ∀ (ps : List (String × Ty)) (i : Nat) (nm : NameMap) (ins : List (Nat × Nat))
    (args : List Nat) (st : Nat → Nat), lowerParams ps i = some (nm, ins) → args.length = ps.length →
    ∃ sc st', bindParams ps ((ps.zip args).map fun (p, n) => p.2.decode n) = some sc ∧
      loadInputs ins args st = some st' ∧
      (∀ x id t, nm.find x = some (id, t) → i ≤ id ∧ id < i + ps.length ∧
        ∃ s w v, numTy t = some (s, w) ∧ v < 2 ^ w ∧ Scope.lookup sc x = some (.num s w v) ∧ st' id = v) ∧
      (∀ id, id < i → st' id = st id)
  | [], i, nm, ins, args, st, h, hlen => by
    simp only [lowerParams] at h
    cases h
    cases args with
    | nil => exact ⟨[], st, by simp [bindParams], by simp [loadInputs], by intro x id t hf; simp [NameMap.find] at hf,
        fun _ _ => rfl⟩
    | cons a as => simp at hlen
  | (x, t) :: ps, i, nm, ins, args, st, h, hlen => by
    cases args with
    | nil => simp at hlen
    | cons a as =>
      simp only [lowerParams] at h
      cases hty : numTy t with
      | none => simp [hty] at h
      | some r =>
        obtain ⟨s, w⟩ := r
        cases hr : lowerParams ps (i + 1) with
        | none => simp [hty, hr] at h
        | some r2 =>
          obtain ⟨nm2, ins2⟩ := r2
          simp only [hty, hr] at h
          cases h
          have hlen' : as.length = ps.length := by simpa using hlen
          have hpos : 0 < 2 ^ w := Nat.pos_of_ne_zero (by simp)
          obtain ⟨hdec, hhas⟩ := numTy_decode hty a
          obtain ⟨sc2, st2, hb2, hl2, hrel2, hkeep2⟩ :=
            lowerParams_correct ps (i + 1) nm2 ins2 as (fun j => if j = i then a % 2 ^ w else st j) hr hlen'
          refine ⟨(x, .num s w (a % 2 ^ w)) :: sc2, st2, ?_, ?_, ?_, ?_⟩
          · rw [hdec] at hhas
            simp only [List.zip_cons_cons, List.map_cons, bindParams, hdec, hhas, if_true, hb2, Option.map_some]
          · simp only [loadInputs, SStore.set]; exact hl2
          · intro y id t0 hf
            simp only [NameMap.find] at hf
            by_cases hy : y = x
            · simp only [hy, if_true] at hf
              cases hf
              refine ⟨Nat.le_refl _, by simp, s, w, a % 2 ^ w, hty, Nat.mod_lt _ hpos, by simp [Scope.lookup, hy], ?_⟩
              rw [hkeep2 i (by omega)]; simp
            · simp only [hy, if_false] at hf
              obtain ⟨h1, h2, s', w', v', a1, a2, a3, a4⟩ := hrel2 y id t0 hf
              refine ⟨by omega, by simp only [List.length_cons]; omega, s', w', v', a1, a2, by simp [Scope.lookup, hy, a3], a4⟩
          · intro id hid
            rw [hkeep2 id (by omega)]
            have : id ≠ i := by omega
            simp [this]

/-- (3) The two Lean semantics agree on the straight-line fragment: for a
function `func(params) { stmts; return es }` whose parameters are intN/uintN,
whose statements are `var x T = e` / `x = e` and whose expressions are built
from variables, `+ - & | ^` and integer conversions (except intN -> wider
uintM), evaluating the SSA code produced by `lower` — the Lean model of
ssagen.go for this fragment — on raw input patterns gives exactly the result
of the reference interpreter `runRaw`, for every input.

PARTIAL: the fragment has no literals/constants, no `* / % &^` shifts,
comparisons or booleans, no control flow (if / for / calls), no arrays or
structs; and `lower` is a hand-written model of the real AST -> SSA code (the
real step lists are tied to `ssaEval` only differentially, checks/C03.py). -/
theorem lower_correct_partial (params : List (String × Ty)) (stmts : List Stmt) (es : List Expr)
    (ins : List (Nat × Nat)) (steps : List SInstr) (h : lower params stmts es = some (ins, steps))
    (args : List Nat) (hlen : args.length = params.length) :
    ∃ r, ssaEval (Nat → Nat) ins steps args = some r ∧
      ∃ f, runRaw [⟨params, es.length, stmts ++ [.ret es]⟩] f 0 args = some r := by
  simp only [lower] at h
  cases hp : lowerParams params 0 with
  | none => simp [hp] at h
  | some r =>
    obtain ⟨nm, ins0⟩ := r
    simp only [hp] at h
    cases hb : lowerBody nm params.length stmts es with
    | none => simp [hb] at h
    | some steps0 =>
      simp only [hb] at h
      cases h
      obtain ⟨sc, st0, hbind, hload, hrel, _⟩ :=
        lowerParams_correct params 0 nm ins args (SStore.empty : Nat → Nat) hp hlen
      have hrelTop : RelTop nm sc st0 := fun x id t hf => (hrel x id t hf).2.2
      have hbel : Below nm params.length := fun x id t hf => by have := (hrel x id t hf).2.1; omega
      obtain ⟨f, vals, hexec, hssa, hvl, hnum⟩ :=
        lowerBody_correct [⟨params, es.length, stmts ++ [.ret es]⟩] nm params.length stmts es steps sc st0 hb hrelTop hbel
      refine ⟨vals.map Val.encode, by simp [ssaEval, hload, hssa], f, ?_⟩
      have hrun : run [⟨params, es.length, stmts ++ [.ret es]⟩] f 0
          ((params.zip args).map fun (p, n) => p.2.decode n) = some vals := by
        unfold run
        have hP : ([⟨params, es.length, stmts ++ [.ret es]⟩] : Prog)[0]? =
            some ⟨params, es.length, stmts ++ [.ret es]⟩ := rfl
        rw [hP]
        simp only [hbind, hexec]
        generalize es.length = k at hvl ⊢
        subst hvl
        match vals, hnum with
        | [], _ => simp [packResults]
        | [r], hn =>
          obtain ⟨s, w, n, e⟩ := hn r (by simp)
          subst e; simp [packResults]
        | r1 :: r2 :: rest, _ => simp [packResults]
      unfold runRaw
      have hP : ([⟨params, es.length, stmts ++ [.ret es]⟩] : Prog)[0]? =
          some ⟨params, es.length, stmts ++ [.ret es]⟩ := rfl
      rw [hP]
      have hne : ¬ args.length ≠ params.length := by simp [hlen]
      simp only [hne, if_false, hrun, Option.map_some]

end Mpc.Mpcl.Ssa

/-
Whole programs: the SSA program produced by `Ssa.lower` (Model/MpclLower.lean,
the Lean model of the AST -> SSA translation compiler/ast/ssagen.go) evaluated
by `ssaEval` agrees with the reference interpreter `runRaw`
(`lower_sound`, `lower_total`, `lower_correct_partial`; used by Props/C03.lean).

Pieces: Proofs/MpclSsaTy.lean (types, aggregate values, slice / amov),
MpclSsaBase.lean (stores, environments), MpclSsaExpr.lean (scalar expressions),
MpclSsaAgg.lean (array / struct components), MpclSsaTree.lean (phis: return
selection, branch merges), MpclSsaCall.lean (arguments, inlined calls, result
lists, stores), MpclSsaStmt.lean (statements; the induction on the fuel),
MpclSsaOk.lean (well-formedness and totality of the emitted code).
-/
import MpcVerif.Proofs.MpclSsaOk

namespace Mpc.Mpcl.Ssa
open Mpc.Mpcl

/-- Binding the parameters / loading the inputs. -/
theorem lowerParams_sound : ∀ (ps : List (String × Ty)) (i : Nat) (args : List Nat) (st : Nat → Nat),
    args.length = ps.length →
    ∃ scv st', bindParams ps ((ps.zip args).map fun (p, n) => p.2.decode n) = some scv ∧
      loadInputs (lowerParams ps i).2 args st = some st' ∧ ScopeRel st' (lowerParams ps i).1 scv ∧
      BelowS (i + ps.length) (lowerParams ps i).1 ∧ Frame i st st'
  | [], i, args, st, hlen => by
    cases args with
    | nil => exact ⟨[], st, by simp [bindParams], by simp [lowerParams, loadInputs], trivial, BelowS_nil _, Frame.refl _ _⟩
    | cons a as => simp at hlen
  | (x, t) :: ps, i, args, st, hlen => by
    cases args with
    | nil => simp at hlen
    | cons a as =>
      have hlen' : as.length = ps.length := by simpa using hlen
      let st1 : Nat → Nat := fun j => if j = i then a % 2 ^ t.bits else st j
      obtain ⟨scv2, st', hb2, hl2, hrel2, hbel2, hfr2⟩ := lowerParams_sound ps (i + 1) as st1 hlen'
      have hsi : st' i = a % 2 ^ t.bits := by rw [hfr2 i (by omega)]; simp [st1]
      refine ⟨(x, t.decode a) :: scv2, st', ?_, ?_, ?_, ?_, ?_⟩
      · simp only [List.zip_cons_cons, List.map_cons, bindParams, hasTy_decode_gen, if_true, hb2, Option.map_some]
      · simp only [lowerParams, loadInputs, SStore.set]; exact hl2
      · refine ⟨rfl, ⟨by rw [hsi]; exact Nat.mod_lt _ (two_pow_pos _), by rw [hsi, decode_mod_bits]⟩, hrel2⟩
      · refine BelowS.cons (by simp only [BelowB, List.length_cons]; omega) (fun p hp => ?_)
        have := hbel2 p hp
        exact this.mono (by simp only [List.length_cons]; omega)
      · have hfr1 : Frame i st st1 := Frame_set (Nat.le_refl _)
        exact hfr1.trans hfr2 (by omega)

/-- The pieces of a successful `lower`. -/
theorem lower_inv {fuel : Nat} {P : Prog} {main : Nat} {ins : List (Nat × Nat)} {steps : List SInstr}
    (h : lower fuel P main = some (ins, steps)) :
    ∃ fn r rs cm k, P[main]? = some fn ∧ ins = (lowerParams fn.params 0).2 ∧
      lowerB P fuel [(lowerParams fn.params 0).1] fn.params.length fn.body = some r ∧
      r.tree.mat r.next = some (rs, cm, k) ∧ rs.length = fn.nres ∧
      steps = r.code ++ cm ++ [⟨.ret, rs.map fun p => .var p.1 p.2.bits, none⟩] := by
  unfold lower at h
  split at h
  · cases h
  · cases hm : P[main]? with
    | none => simp [hm] at h
    | some fn =>
      simp only [hm] at h
      cases hb : lowerB P fuel [(lowerParams fn.params 0).1] fn.params.length fn.body with
      | none => simp [hb] at h
      | some r =>
        simp only [hb] at h
        cases hmt : r.tree.mat r.next with
        | none => simp [hmt] at h
        | some q2 =>
          obtain ⟨rs, cm, k⟩ := q2
          simp only [hmt] at h
          split at h
          · rename_i hlen
            simp only [Option.some.injEq, Prod.mk.injEq] at h
            obtain ⟨h1, h2⟩ := h
            exact ⟨fn, r, rs, cm, k, rfl, h1.symm, hb, hmt, hlen, h2.symm⟩
          · cases h

theorem run_of_exec (P : Prog) (main : Nat) (fn : Func) (hfn : P[main]? = some fn) (f : Nat) (args : List Nat)
    (sc : Scope) (vals ws : List Val) (hlen : args.length = fn.params.length)
    (hbind : bindParams fn.params ((fn.params.zip args).map fun (p, n) => p.2.decode n) = some sc)
    (hexec : execB P f fn.body [sc] = some (.returned vals)) (hrv : RetVals vals ws) (hvl : ws.length = fn.nres) :
    runRaw P f main args = some (ws.map Val.encode) := by
  have hrun : run P f main ((fn.params.zip args).map fun (p, n) => p.2.decode n) = some ws := by
    unfold run
    rw [hfn]
    simp only [hbind, hexec, packResults_retVals hrv hvl]
    generalize fn.nres = k at hvl ⊢
    subst hvl
    match ws with
    | [] => simp [packResults]
    | [r] =>
      cases r with
      | agg _ => simp [packResults]
      | bool _ => simp [packResults]
      | num _ _ _ => simp [packResults]
    | r1 :: r2 :: rest => simp [packResults]
  unfold runRaw
  rw [hfn]
  have hne : ¬ args.length ≠ fn.params.length := by simp [hlen]
  simp only [hne, if_false, hrun, Option.map_some]

/-- Soundness: whenever the SSA program `lower` produces evaluates (i.e. no
division by zero on any path, taken or not), the reference interpreter is
defined on the source program and delivers the same outputs. -/
theorem lower_sound (fuel : Nat) (P : Prog) (main : Nat) (fn : Func) (hfn : P[main]? = some fn)
    (ins : List (Nat × Nat)) (steps : List SInstr)
    (h : lower fuel P main = some (ins, steps)) (args : List Nat) (hlen : args.length = fn.params.length)
    (res : List (Nat × Nat)) (hrun : ssaEval (Nat → Nat) ins steps args = some res) :
    ∃ f, runRaw P f main args = some res := by
  obtain ⟨fn', r, rs, cm, k, hfn', hins, hb, hm, hrl, hsteps⟩ := lower_inv h
  rw [hfn] at hfn'; cases hfn'
  subst hsteps; subst hins
  obtain ⟨scv, st0, hbind, hload, hrel0, hbel0, _⟩ :=
    lowerParams_sound fn.params 0 args (SStore.empty : Nat → Nat) hlen
  have hrel : Rel st0 [(lowerParams fn.params 0).1] [scv] := ⟨hrel0, trivial⟩
  have hbel : Below fn.params.length [(lowerParams fn.params 0).1] :=
    Below.cons (by simpa using hbel0) (fun _ h => by cases h)
  have hok1 : AllOk true r.code :=
    (lower_all_ok true P (Or.inl rfl) fuel).2.2.2.2.2.1 fn.body _ _ r hb (Or.inl rfl)
  have hok2 : AllOk true cm := mat_ok true r.tree r.next rs cm k hm
  simp only [ssaEval, hload, Option.bind_some] at hrun
  rw [List.append_assoc, ssaRun_append _ _ hok1.noRet] at hrun
  cases hs1 : ssaSteps r.code st0 with
  | none => simp [hs1] at hrun
  | some st1 =>
    simp only [hs1, Option.bind_some] at hrun
    obtain ⟨_, _, _, htb, htbd, _, fi, o, hex, horel⟩ :=
      (lower_all_sound P fuel).2.2.2.2.2.1 fn.body _ _ r [scv] st0 st1 hb hrel hbel hs1
    obtain ⟨_, _, hrsb, st2, lv, hs2, _, hev, hmap, hbd⟩ := mat_sound r.tree r.next rs cm k st1 hm htb htbd
    rw [ssaRun_append _ _ hok2.noRet, hs2] at hrun
    simp only [Option.bind_some, ssaRun, if_true, Option.some.injEq] at hrun
    cases o with
    | normal env' =>
      obtain ⟨hnone, _⟩ := horel
      rw [hnone] at hev; cases hev
    | returned vals =>
      obtain ⟨lv', hev', hrv⟩ := horel
      rw [hev'] at hev
      have : lv' = lv := Option.some.inj hev
      subst this
      have hvl : (lv'.map fun p => p.2.decode p.1).length = fn.nres := by rw [← hmap]; simpa using hrl
      refine ⟨fi, ?_⟩
      rw [run_of_exec P main fn hfn fi args scv vals _ hlen hbind hex hrv hvl, ← hrun, ← hmap]
      simp only [List.map_map, Option.some.injEq]
      apply List.map_congr_left
      intro p hp
      simp only [Function.comp, argVal, SStore.get]
      rw [encode_decode_lt _ (hbd p hp)]

/-- Totality: without `/` and `%` in the program the SSA program always evaluates. -/
theorem lower_total (fuel : Nat) (P : Prog) (main : Nat) (fn : Func) (hfn : P[main]? = some fn)
    (ins : List (Nat × Nat)) (steps : List SInstr)
    (h : lower fuel P main = some (ins, steps)) (hnd : noDivP P = true) (args : List Nat)
    (hlen : args.length = fn.params.length) : ∃ res, ssaEval (Nat → Nat) ins steps args = some res := by
  obtain ⟨fn', r, rs, cm, k, hfn', hins, hb, hm, _, hsteps⟩ := lower_inv h
  rw [hfn] at hfn'; cases hfn'
  subst hsteps; subst hins
  obtain ⟨_, st0, _, hload, _, _, _⟩ :=
    lowerParams_sound fn.params 0 args (SStore.empty : Nat → Nat) hlen
  have hok1 : AllOk false r.code :=
    (lower_all_ok false P (Or.inr hnd) fuel).2.2.2.2.2.1 fn.body _ _ r hb (Or.inr (noDivP_get hnd hfn))
  have hok2 : AllOk false cm := mat_ok false r.tree r.next rs cm k hm
  have hok : AllOk false (r.code ++ cm) := AllOk_append hok1 hok2
  obtain ⟨st2, hs⟩ := ssaSteps_total _ hok st0
  refine ⟨(rs.map fun p => SArg.var p.1 p.2.bits).map (argVal st2), ?_⟩
  simp only [ssaEval, hload, Option.bind_some]
  rw [ssaRun_append _ _ hok.noRet, hs]
  simp [ssaRun]

/-- The two Lean semantics agree on the fragment of `lower` (see the header of
Model/MpclLower.lean): for every program `P` and entry function `main` on which
the model of ssagen succeeds and every input,
  * if the emitted SSA program evaluates, the reference interpreter is defined
    and gives the same outputs;
  * without `/ %` in the program the SSA program always evaluates (so both are
    defined and equal). -/
theorem lower_correct_partial (fuel : Nat) (P : Prog) (main : Nat) (fn : Func) (hfn : P[main]? = some fn)
    (ins : List (Nat × Nat)) (steps : List SInstr)
    (h : lower fuel P main = some (ins, steps)) (args : List Nat) (hlen : args.length = fn.params.length) :
    (∀ res, ssaEval (Nat → Nat) ins steps args = some res → ∃ f, runRaw P f main args = some res) ∧
    (noDivP P = true →
      ∃ res, ssaEval (Nat → Nat) ins steps args = some res ∧ ∃ f, runRaw P f main args = some res) := by
  refine ⟨fun res hr => lower_sound fuel P main fn hfn ins steps h args hlen res hr, fun hnd => ?_⟩
  obtain ⟨res, hr⟩ := lower_total fuel P main fn hfn ins steps h hnd args hlen
  exact ⟨res, hr, lower_sound fuel P main fn hfn ins steps h args hlen res hr⟩

end Mpc.Mpcl.Ssa

/-
Whole functions: the SSA program produced by `Ssa.lower` (Model/MpclLower.lean,
the Lean model of the AST -> SSA translation compiler/ast/ssagen.go) evaluated
by `ssaEval` agrees with the reference interpreter `runRaw`
(`lower_sound`, `lower_total`, `lower_correct_partial`; used by Props/C03.lean).

Pieces: Proofs/MpclSsaBase.lean (stores, environments), MpclSsaExpr.lean
(expressions), MpclSsaTree.lean (phis: return selection, branch merges),
MpclSsaStmt.lean (statements, by induction on the fuel), MpclSsaOk.lean
(well-formedness and totality of the emitted code).
-/
import MpcVerif.Proofs.MpclSsaOk

namespace Mpc.Mpcl.Ssa
open Mpc.Mpcl

theorem decode_mod {t : Ty} {w : Nat} (h : sbits t = some w) (a : Nat) : t.decode (a % 2 ^ w) = t.decode a := by
  cases t <;> simp [sbits] at h <;> subst h
  · simp [Ty.decode]
  · simp [Ty.decode]
  · simp [Ty.decode]

/-- Binding the parameters / loading the inputs. -/
theorem lowerParams_sound : ∀ (ps : List (String × Ty)) (i : Nat) (sc : NScope) (ins : List (Nat × Nat))
    (args : List Nat) (st : Nat → Nat), lowerParams ps i = some (sc, ins) → args.length = ps.length →
    ∃ scv st', bindParams ps ((ps.zip args).map fun (p, n) => p.2.decode n) = some scv ∧
      loadInputs ins args st = some st' ∧ ScopeRel st' sc scv ∧ BelowS (i + ps.length) sc ∧ Frame i st st'
  | [], i, sc, ins, args, st, h, hlen => by
    simp only [lowerParams, Option.some.injEq, Prod.mk.injEq] at h
    obtain ⟨h1, h2⟩ := h
    subst h1; subst h2
    cases args with
    | nil => exact ⟨[], st, by simp [bindParams], by simp [loadInputs], trivial, BelowS_nil _, Frame.refl _ _⟩
    | cons a as => simp at hlen
  | (x, t) :: ps, i, sc, ins, args, st, h, hlen => by
    cases args with
    | nil => simp at hlen
    | cons a as =>
      simp only [lowerParams] at h
      cases hw : sbits t with
      | none => simp [hw] at h
      | some w =>
        cases hr : lowerParams ps (i + 1) with
        | none => simp [hw, hr] at h
        | some q =>
          obtain ⟨sc2, ins2⟩ := q
          simp only [hw, hr, Option.some.injEq, Prod.mk.injEq] at h
          obtain ⟨h1, h2⟩ := h
          subst h1; subst h2
          have hlen' : as.length = ps.length := by simpa using hlen
          let st1 : Nat → Nat := fun j => if j = i then a % 2 ^ w else st j
          obtain ⟨scv2, st', hb2, hl2, hrel2, hbel2, hfr2⟩ := lowerParams_sound ps (i + 1) sc2 ins2 as st1 hr hlen'
          have hsi : st' i = a % 2 ^ w := by rw [hfr2 i (by omega)]; simp [st1]
          refine ⟨(x, t.decode a) :: scv2, st', ?_, ?_, ?_, ?_, ?_⟩
          · simp only [List.zip_cons_cons, List.map_cons, bindParams, hasTy_decode hw, if_true, hb2, Option.map_some]
          · simp only [loadInputs, SStore.set]; exact hl2
          · refine ⟨rfl, ⟨w, hw, by rw [hsi]; exact Nat.mod_lt _ (two_pow_pos w), by rw [hsi, decode_mod hw]⟩, hrel2⟩
          · refine BelowS.cons (by simp only [BelowB, List.length_cons]; omega) (fun p hp => ?_)
            have := hbel2 p hp
            exact this.mono (by simp only [List.length_cons]; omega)
          · have hfr1 : Frame i st st1 := Frame_set (Nat.le_refl _)
            exact hfr1.trans hfr2 (by omega)

/-- The pieces of a successful `lower`. -/
theorem lower_inv {fuel : Nat} {fn : Func} {ins : List (Nat × Nat)} {steps : List SInstr}
    (h : lower fuel fn = some (ins, steps)) :
    ∃ sc r rs cm k, lowerParams fn.params 0 = some (sc, ins) ∧
      lowerB fuel [sc] fn.params.length fn.body = some r ∧ r.tree.mat r.next = some (rs, cm, k) ∧
      rs.length = fn.nres ∧ steps = r.code ++ cm ++ [⟨.ret, rs.map fun p => .var p.1 p.2, none⟩] := by
  unfold lower at h
  split at h
  · cases h
  · cases hp : lowerParams fn.params 0 with
    | none => simp [hp] at h
    | some q =>
      obtain ⟨sc, ins0⟩ := q
      simp only [hp] at h
      cases hb : lowerB fuel [sc] fn.params.length fn.body with
      | none => simp [hb] at h
      | some r =>
        simp only [hb] at h
        cases hm : r.tree.mat r.next with
        | none => simp [hm] at h
        | some q2 =>
          obtain ⟨rs, cm, k⟩ := q2
          simp only [hm] at h
          split at h
          · rename_i hlen
            simp only [Option.some.injEq, Prod.mk.injEq] at h
            obtain ⟨h1, h2⟩ := h
            subst h1
            exact ⟨sc, r, rs, cm, k, rfl, hb, hm, hlen, h2.symm⟩
          · cases h

theorem run_of_exec (fn : Func) (f : Nat) (args : List Nat) (sc : Scope) (vals : List Val)
    (hlen : args.length = fn.params.length)
    (hbind : bindParams fn.params ((fn.params.zip args).map fun (p, n) => p.2.decode n) = some sc)
    (hexec : execB [fn] f fn.body [sc] = some (.returned vals)) (hvl : vals.length = fn.nres)
    (hsc : ∀ v ∈ vals, ScalarV v) : runRaw [fn] f 0 args = some (vals.map Val.encode) := by
  have hP : ([fn] : Prog)[0]? = some fn := rfl
  have hrun : run [fn] f 0 ((fn.params.zip args).map fun (p, n) => p.2.decode n) = some vals := by
    unfold run
    rw [hP]
    simp only [hbind, hexec]
    generalize fn.nres = k at hvl ⊢
    subst hvl
    match vals, hsc with
    | [], _ => simp [packResults]
    | [r], hs =>
      have := hs r (by simp)
      cases r with
      | agg _ => exact this.elim
      | bool _ => simp [packResults]
      | num _ _ _ => simp [packResults]
    | r1 :: r2 :: rest, _ => simp [packResults]
  unfold runRaw
  rw [hP]
  have hne : ¬ args.length ≠ fn.params.length := by simp [hlen]
  simp only [hne, if_false, hrun, Option.map_some]

/-- Soundness: whenever the SSA program `lower` produces evaluates (i.e. no
division by zero on any path, taken or not), the reference interpreter is
defined on the source function and delivers the same outputs. -/
theorem lower_sound (fuel : Nat) (fn : Func) (ins : List (Nat × Nat)) (steps : List SInstr)
    (h : lower fuel fn = some (ins, steps)) (args : List Nat) (hlen : args.length = fn.params.length)
    (res : List (Nat × Nat)) (hrun : ssaEval (Nat → Nat) ins steps args = some res) :
    ∃ f, runRaw [fn] f 0 args = some res := by
  obtain ⟨sc, r, rs, cm, k, hp, hb, hm, hrl, hsteps⟩ := lower_inv h
  subst hsteps
  obtain ⟨scv, st0, hbind, hload, hrel0, hbel0, _⟩ :=
    lowerParams_sound fn.params 0 sc ins args (SStore.empty : Nat → Nat) hp hlen
  have hrel : Rel st0 [sc] [scv] := ⟨hrel0, trivial⟩
  have hbel : Below fn.params.length [sc] :=
    Below.cons (by simpa using hbel0) (fun _ h => by cases h)
  have hok1 : AllOk true r.code := (lower_stmt_ok true fuel).2.1 fn.body [sc] _ r hb (Or.inl rfl)
  have hok2 : AllOk true cm := mat_ok true r.tree r.next rs cm k hm
  simp only [ssaEval, hload, Option.bind_some] at hrun
  rw [List.append_assoc, ssaRun_append _ _ hok1.noRet] at hrun
  cases hs1 : ssaSteps r.code st0 with
  | none => simp [hs1] at hrun
  | some st1 =>
    simp only [hs1, Option.bind_some] at hrun
    obtain ⟨_, _, _, htb, htbd, _, fi, o, hex, horel⟩ :=
      (lower_stmt_sound [fn] fuel).2.1 fn.body [sc] _ r [scv] st0 st1 hb hrel hbel hs1
    obtain ⟨_, _, hrsb, st2, vals0, hs2, _, hev, hmap, _⟩ := mat_sound r.tree r.next rs cm k st1 hm htb htbd
    rw [ssaRun_append _ _ hok2.noRet, hs2] at hrun
    simp only [Option.bind_some, ssaRun, if_true, Option.some.injEq] at hrun
    have hres : res = vals0 := by
      rw [← hrun, ← hmap, List.map_map]
      rfl
    cases o with
    | normal env' =>
      obtain ⟨hnone, _⟩ := horel
      rw [hnone] at hev; cases hev
    | returned vals =>
      obtain ⟨hev', hsc⟩ := horel
      rw [hev'] at hev
      have hv0 : vals0 = vals.map Val.encode := (Option.some.inj hev).symm
      have hvl : vals.length = fn.nres := by
        have : (vals.map Val.encode).length = rs.length := by rw [← hv0, ← hmap]; simp
        simpa [hrl] using this
      exact ⟨fi, by rw [hres, hv0]; exact run_of_exec fn fi args scv vals hlen hbind hex hvl hsc⟩

/-- Totality: without `/` and `%` in the source the SSA program always evaluates. -/
theorem lower_total (fuel : Nat) (fn : Func) (ins : List (Nat × Nat)) (steps : List SInstr)
    (h : lower fuel fn = some (ins, steps)) (hnd : noDivB fn.body = true) (args : List Nat)
    (hlen : args.length = fn.params.length) : ∃ res, ssaEval (Nat → Nat) ins steps args = some res := by
  obtain ⟨sc, r, rs, cm, k, hp, hb, hm, _, hsteps⟩ := lower_inv h
  subst hsteps
  obtain ⟨_, st0, _, hload, _, _, _⟩ :=
    lowerParams_sound fn.params 0 sc ins args (SStore.empty : Nat → Nat) hp hlen
  have hok1 : AllOk false r.code := (lower_stmt_ok false fuel).2.1 fn.body [sc] _ r hb (Or.inr hnd)
  have hok2 : AllOk false cm := mat_ok false r.tree r.next rs cm k hm
  have hok : AllOk false (r.code ++ cm) := AllOk_append hok1 hok2
  obtain ⟨st2, hs⟩ := ssaSteps_total _ hok st0
  refine ⟨(rs.map fun p => SArg.var p.1 p.2).map (argVal st2), ?_⟩
  simp only [ssaEval, hload, Option.bind_some]
  rw [ssaRun_append _ _ hok.noRet, hs]
  simp [ssaRun]

/-- The two Lean semantics agree on the fragment of `lower` (see the header of
Model/MpclLower.lean): for every function `fn` on which the model of ssagen
succeeds and every input,
  * if the emitted SSA program evaluates, the reference interpreter is defined
    and gives the same outputs;
  * without `/ %` in the source the SSA program always evaluates (so both are
    defined and equal). -/
theorem lower_correct_partial (fuel : Nat) (fn : Func) (ins : List (Nat × Nat)) (steps : List SInstr)
    (h : lower fuel fn = some (ins, steps)) (args : List Nat) (hlen : args.length = fn.params.length) :
    (∀ res, ssaEval (Nat → Nat) ins steps args = some res → ∃ f, runRaw [fn] f 0 args = some res) ∧
    (noDivB fn.body = true →
      ∃ res, ssaEval (Nat → Nat) ins steps args = some res ∧ ∃ f, runRaw [fn] f 0 args = some res) := by
  refine ⟨fun res hr => lower_sound fuel fn ins steps h args hlen res hr, fun hnd => ?_⟩
  obtain ⟨res, hr⟩ := lower_total fuel fn ins steps h hnd args hlen
  exact ⟨res, hr, lower_sound fuel fn ins steps h args hlen res hr⟩

end Mpc.Mpcl.Ssa

/-
Message-level lemmas for the sha2pc codec model: decode ∘ encode, totality
(no decoder crashes), documented lengths, curve mismatch.  Core Lean only.
-/
import MpcVerif.Proofs.Sha2pc

namespace Mpc.Sha2pc

/-! ## Well-formedness (what the real round functions produce) -/

/-- Facts about a supported curve: a non-empty name shorter than 128 bytes (all
four are 5 bytes), a positive field size (28/32/48/66 bytes). -/
structure Curve.WF (c : Curve) : Prop where
  name_pos : 0 < c.name.length
  name_lt : c.name.length < 128
  bl_pos : 0 < c.byteLen
  bl_le : c.byteLen ≤ 1000

/-- `v` fits the fixed field width (Go's `writeFixedBigInt` panics otherwise;
coordinates and scalars of the curve always fit). -/
def fits (c : Curve) (v : Nat) : Prop := v < 256 ^ c.byteLen

structure Round1.WF (c : Curve) (m : Round1) : Prop where
  sid : m.sid < 2 ^ 64
  name : m.curveName = c.name
  ax : fits c m.ax
  ay : fits c m.ay

structure Round2.WF (c : Curve) (m : Round2) : Prop where
  sid : m.sid < 2 ^ 64
  name : m.curveName = c.name
  count : m.choices.length = nBits
  xs : ∀ p ∈ m.choices, fits c p.x
  /-- every point is what decompression of its abscissa and parity gives
  (true for every affine point of the curve) -/
  onCurve : ∀ p ∈ m.choices, c.decompress p.x (yOdd p) = some p.y

structure Round3.WF (counts : List Nat) (m : Round3) : Prop where
  sid : m.sid < 2 ^ 64
  key : m.key.length = keyLen
  rows : m.tables.map List.length = counts
  inputs : m.inputs.length = nBits
  hints : m.hints.length = nBits
  cts : m.cts.length = nBits

structure GarblerSession.WF (c : Curve) (s : GarblerSession) : Prop where
  sid : s.sid < 2 ^ 64
  name : s.curveName = c.name
  scalar : fits c s.scalar
  ax : fits c s.ax
  ay : fits c s.ay
  ainvx : fits c s.ainvx
  ainvy : fits c s.ainvy

structure EvaluatorSession.WF (c : Curve) (s : EvaluatorSession) : Prop where
  sid : s.sid < 2 ^ 64
  name : s.curveName = c.name
  ax : fits c s.ax
  ay : fits c s.ay
  count : s.scalars.length = nBits
  scalars : ∀ v ∈ s.scalars, fits c v
  bits : s.bits.length = nBits

theorem append_ne_nil_of_length_pos (a b : Bytes) (h : 0 < a.length) : a ++ b ≠ [] := by
  cases a with
  | nil => simp at h
  | cons x xs => simp

theorem flatMap_beBytes_length (n : Nat) (vs : List Nat) : (vs.flatMap (beBytes n)).length = n * vs.length := by
  induction vs with
  | nil => simp
  | cons v vs ih => simp [ih, Nat.mul_succ, Nat.add_comm]

theorem writeChunk_length_small (d : Bytes) (h : d.length < 128) : (writeChunk d).length = 1 + d.length := by
  simp [writeChunk, putUvarint_length_small _ h]

/-! ## Round 1 -/

theorem encodeRound1_eq (c : Curve) (m : Round1) (h : m.curveName = c.name) :
    encodeRound1 c m = .ok (header magicR1 m.sid ++ (writeChunk c.name ++
      (beBytes c.byteLen m.ax ++ beBytes c.byteLen m.ay))) := by
  unfold encodeRound1
  rw [if_neg (by simp [h])]

/-- decode ∘ encode = id, even with arbitrary bytes appended. -/
theorem decodeRound1_encode (c : Curve) (hc : c.WF) (m : Round1) (hm : m.WF c) (enc extra : Bytes)
    (he : encodeRound1 c m = .ok enc) : decodeRound1 c (enc ++ extra) = .ok m := by
  rw [encodeRound1_eq c m hm.name] at he
  cases he
  unfold decodeRound1
  simp only [List.append_assoc]
  rw [readHeader_header _ _ _ magic_lengths.1 hm.sid]
  simp only [Res.ok_bind]
  rw [readChunk_write _ _ (by have := hc.name_lt; unfold chunkSizeLimit; omega)
    (by intro h; have := hc.name_pos; simp at h; simp [h.1] at this)]
  simp only [Res.ok_bind, ne_eq, not_true_eq_false, if_false]
  rw [readFixed_append _ _ _ hm.ax]
  simp only [Res.ok_bind]
  rw [readFixed_append _ _ _ hm.ay]
  simp only [Res.ok_bind, Res.pure_eq]
  rw [← hm.name]

theorem encodeRound1_length (c : Curve) (hc : c.WF) (m : Round1) (enc : Bytes) (he : encodeRound1 c m = .ok enc) :
    enc.length = 2 + 8 + 1 + c.name.length + 2 * c.byteLen := by
  unfold encodeRound1 at he
  split at he
  · cases he
  · cases he
    simp [writeChunk_length_small _ hc.name_lt, magicR1]
    omega

theorem decodeRound1_noPanic (c : Curve) (data : Bytes) : NoPanic (decodeRound1 c data) := by
  unfold decodeRound1
  apply NoPanic.bind (readHeader_noPanic _ _); intro a
  apply NoPanic.bind (readChunk_noPanic _); intro b
  apply NoPanic.ite; · simp
  apply NoPanic.bind (readFixed_noPanic _ _); intro x
  apply NoPanic.bind (readFixed_noPanic _ _); intro y
  simp

/-- A round-1 message produced for curve `c'` is rejected by the decoder of a
curve with another name. -/
theorem decodeRound1_other_curve (c c' : Curve) (hc' : c'.WF) (m : Round1) (hm : m.sid < 2 ^ 64) (enc extra : Bytes)
    (he : encodeRound1 c' m = .ok enc) (hne : c'.name ≠ c.name) : decodeRound1 c (enc ++ extra) = .error := by
  unfold encodeRound1 at he
  split at he
  · cases he
  · cases he
    unfold decodeRound1
    simp only [List.append_assoc]
    rw [readHeader_header _ _ _ magic_lengths.1 hm]
    simp only [Res.ok_bind]
    rw [readChunk_write _ _ (by have := hc'.name_lt; unfold chunkSizeLimit; omega)
      (by intro h; have := hc'.name_pos; simp at h; simp [h.1] at this)]
    simp only [Res.ok_bind, ne_eq]
    rw [if_pos hne]

/-! ### inversion of the readers (for canonicity at the documented size) -/

theorem readFull_ok (n : Nat) (r b r' : Bytes) (h : readFull n r = .ok (b, r')) : r = b ++ r' ∧ b.length = n := by
  unfold readFull at h
  split at h
  · cases h
  · rename_i hl
    simp only [Res.ok.injEq, Prod.mk.injEq] at h
    rw [← h.1, ← h.2]
    exact ⟨(List.take_append_drop n r).symm, by simp only [List.length_take]; omega⟩

theorem readUvarintGo_ok (r : Bytes) : ∀ (i x v : Nat) (r' : Bytes), readUvarintGo i x r = .ok (v, r') →
    ∃ pre, r = pre ++ r' ∧ 1 ≤ pre.length ∧ (pre.length = 1 → i = 0 → x = 0 → pre = putUvarint v) := by
  induction r with
  | nil => intro i x v r' h; simp [readUvarintGo] at h
  | cons b rest ih =>
    intro i x v r' h
    simp only [readUvarintGo] at h
    split at h
    · cases h
    · split at h
      · rename_i hb
        split at h
        · cases h
        · simp only [Res.ok.injEq, Prod.mk.injEq] at h
          refine ⟨[b], by rw [← h.2]; rfl, by simp, ?_⟩
          intro _ hi hx
          subst hi hx
          rw [← h.1, putUvarint]
          simp only [Nat.mul_zero, Nat.pow_zero, Nat.mul_one, Nat.zero_add]
          rw [if_pos hb]
          simp
      · obtain ⟨pre, h1, h2, _⟩ := ih _ _ _ _ h
        refine ⟨b :: pre, by rw [h1]; rfl, by simp, ?_⟩
        intro hl
        simp only [List.length_cons] at hl
        omega

theorem readChunk_ok (r d r' : Bytes) (h : readChunk r = .ok (d, r')) :
    ∃ pre, r = pre ++ (d ++ r') ∧ 1 ≤ pre.length ∧ (pre.length = 1 → pre = putUvarint d.length) := by
  unfold readChunk readUvarint at h
  cases hu : readUvarintGo 0 0 r with
  | ok a =>
    obtain ⟨len, r1⟩ := a
    rw [hu] at h
    simp only [Res.ok_bind] at h
    split at h
    · cases h
    · split at h
      · cases h
      · rename_i hlen
        split at h
        · cases h
        · simp only [Res.pure_eq, Res.ok.injEq, Prod.mk.injEq] at h
          obtain ⟨pre, h1, h2, h3⟩ := readUvarintGo_ok r 0 0 len r1 hu
          have hdl : d.length = len := by rw [← h.1]; simp only [List.length_take]; omega
          refine ⟨pre, ?_, h2, ?_⟩
          · rw [h1, ← h.1, ← h.2, List.take_append_drop]
          · intro hp; rw [hdl]; exact h3 hp rfl rfl
  | error => rw [hu] at h; simp at h
  | panic => rw [hu] at h; simp at h

theorem readFixed_ok (n : Nat) (r : Bytes) (v : Nat) (r' : Bytes) (h : readFixed n r = .ok (v, r')) :
    ∃ b, r = b ++ r' ∧ b.length = n ∧ v = beNat b := by
  unfold readFixed at h
  cases hf : readFull n r with
  | ok a =>
    obtain ⟨b, r1⟩ := a
    rw [hf] at h
    simp only [Res.ok_bind, Res.pure_eq, Res.ok.injEq, Prod.mk.injEq] at h
    obtain ⟨h1, h2⟩ := readFull_ok n r b r1 hf
    exact ⟨b, by rw [h1, h.2], h2, h.1.symm⟩
  | error => rw [hf] at h; simp at h
  | panic => rw [hf] at h; simp at h

theorem readHeader_ok (magic r : Bytes) (sid : Nat) (r' : Bytes) (h : readHeader magic r = .ok (sid, r')) :
    ∃ s, r = magic ++ (s ++ r') ∧ s.length = 8 ∧ sid = beNat s ∧ magic.length = 2 := by
  unfold readHeader at h
  cases hf : readFull 2 r with
  | ok a =>
    obtain ⟨m, r1⟩ := a
    rw [hf] at h
    simp only [Res.ok_bind] at h
    split at h
    · cases h
    · rename_i hm
      have hm : m = magic := Decidable.of_not_not hm
      cases hf2 : readFull 8 r1 with
      | ok a2 =>
        obtain ⟨s, r2⟩ := a2
        rw [hf2] at h
        simp only [Res.ok_bind, Res.pure_eq, Res.ok.injEq, Prod.mk.injEq] at h
        obtain ⟨h1, h2⟩ := readFull_ok 2 r m r1 hf
        obtain ⟨h3, h4⟩ := readFull_ok 8 r1 s r2 hf2
        refine ⟨s, ?_, h4, h.1.symm, by rw [← hm]; exact h2⟩
        rw [h1, h3, hm, h.2]
      | error => rw [hf2] at h; simp at h
      | panic => rw [hf2] at h; simp at h
  | error => rw [hf] at h; simp at h
  | panic => rw [hf] at h; simp at h

/-- At the documented size the round-1 format is canonical: bytes of that
length that decode are exactly the encoding of what they decode to (the only
accepted non-canonical inputs are longer: trailing bytes, padded length
prefix). -/
theorem encodeRound1_decode (c : Curve) (hc : c.WF) (data : Bytes) (m : Round1)
    (h : decodeRound1 c data = .ok m) (hlen : data.length = 2 + 8 + 1 + c.name.length + 2 * c.byteLen) :
    encodeRound1 c m = .ok data := by
  unfold decodeRound1 at h
  cases h1 : readHeader magicR1 data with
  | ok a1 =>
    obtain ⟨sid, r⟩ := a1
    rw [h1] at h; simp only [Res.ok_bind] at h
    cases h2 : readChunk r with
    | ok a2 =>
      obtain ⟨name, r1⟩ := a2
      rw [h2] at h; simp only [Res.ok_bind] at h
      split at h
      · cases h
      · rename_i hn
        have hn : name = c.name := Decidable.of_not_not hn
        cases h3 : readFixed c.byteLen r1 with
        | ok a3 =>
          obtain ⟨x, r2⟩ := a3
          rw [h3] at h; simp only [Res.ok_bind] at h
          cases h4 : readFixed c.byteLen r2 with
          | ok a4 =>
            obtain ⟨y, r3⟩ := a4
            rw [h4] at h; simp only [Res.ok_bind, Res.pure_eq, Res.ok.injEq] at h
            obtain ⟨s, e1, ls, es, lm⟩ := readHeader_ok _ _ _ _ h1
            obtain ⟨pre, e2, lp, ep⟩ := readChunk_ok _ _ _ h2
            obtain ⟨bx, e3, lx, ex⟩ := readFixed_ok _ _ _ _ h3
            obtain ⟨by', e4, ly, ey⟩ := readFixed_ok _ _ _ _ h4
            -- length accounting: one-byte prefix, nothing after the second coordinate
            have htot : data.length = 2 + (8 + (pre.length + (name.length + (c.byteLen + (c.byteLen + r3.length))))) := by
              rw [e1, e2, e3, e4]
              simp only [List.length_append, lm, ls, lx, ly]
            rw [hn] at htot
            have hp1 : pre.length = 1 := by omega
            have hr3 : r3 = [] := List.eq_nil_of_length_eq_zero (by omega)
            rw [← h]
            unfold encodeRound1
            simp only
            rw [if_neg (by simp [hn])]
            rw [e1, e2, e3, e4, hr3, ep hp1, hn, es, ex, ey]
            simp only [header, writeChunk, List.append_assoc, List.append_nil]
            rw [beBytes_beNat 8 s ls, beBytes_beNat _ bx lx, beBytes_beNat _ by' ly]
          | error => rw [h4] at h; simp at h
          | panic => rw [h4] at h; simp at h
        | error => rw [h3] at h; simp at h
        | panic => rw [h3] at h; simp at h
    | error => rw [h2] at h; simp at h
    | panic => rw [h2] at h; simp at h
  | error => rw [h1] at h; simp at h
  | panic => rw [h1] at h; simp at h

/-! ## Garbler session -/

theorem encodeSenderSetup_eq (c : Curve) (s : GarblerSession) (h : s.curveName = c.name) :
    encodeSenderSetup c s = .ok (writeChunk c.name ++ (beBytes c.byteLen s.scalar ++ (beBytes c.byteLen s.ax ++
      (beBytes c.byteLen s.ay ++ (beBytes c.byteLen s.ainvx ++ beBytes c.byteLen s.ainvy))))) := by
  unfold encodeSenderSetup
  rw [if_neg (by simp [h])]

theorem senderSetup_inner_length (c : Curve) (hc : c.WF) (s : GarblerSession) :
    (writeChunk c.name ++ (beBytes c.byteLen s.scalar ++ (beBytes c.byteLen s.ax ++
      (beBytes c.byteLen s.ay ++ (beBytes c.byteLen s.ainvx ++ beBytes c.byteLen s.ainvy))))).length =
    1 + c.name.length + 5 * c.byteLen := by
  simp [writeChunk_length_small _ hc.name_lt]
  omega

theorem decodeSenderSetup_encode (c : Curve) (hc : c.WF) (s : GarblerSession) (hs : s.WF c) (inner extra : Bytes)
    (he : encodeSenderSetup c s = .ok inner) : decodeSenderSetup c s.sid (inner ++ extra) = .ok s := by
  rw [encodeSenderSetup_eq c s hs.name] at he
  cases he
  unfold decodeSenderSetup
  simp only [List.append_assoc]
  rw [readChunk_write _ _ (by have := hc.name_lt; unfold chunkSizeLimit; omega)
    (by intro h; have := hc.name_pos; simp at h; simp [h.1] at this)]
  simp only [Res.ok_bind, ne_eq, not_true_eq_false, if_false]
  rw [readFixed_append _ _ _ hs.scalar]; simp only [Res.ok_bind]
  rw [readFixed_append _ _ _ hs.ax]; simp only [Res.ok_bind]
  rw [readFixed_append _ _ _ hs.ay]; simp only [Res.ok_bind]
  rw [readFixed_append _ _ _ hs.ainvx]; simp only [Res.ok_bind]
  rw [readFixed_append _ _ _ hs.ainvy]; simp only [Res.ok_bind, Res.pure_eq]
  rw [← hs.name]

theorem decodeGarblerSession_encode (c : Curve) (hc : c.WF) (s : GarblerSession) (hs : s.WF c) (enc extra : Bytes)
    (he : encodeGarblerSession c s = .ok enc) : decodeGarblerSession c (enc ++ extra) = .ok s := by
  unfold encodeGarblerSession at he
  rw [encodeSenderSetup_eq c s hs.name] at he
  simp only [Res.ok_bind, Res.pure_eq] at he
  cases he
  unfold decodeGarblerSession
  simp only [List.append_assoc]
  rw [readHeader_header _ _ _ magic_lengths.2.2.2.1 hs.sid]
  simp only [Res.ok_bind]
  have hl := senderSetup_inner_length c hc s
  rw [readChunk_write _ _ (by rw [hl]; have := hc.name_lt; have := hc.bl_le; unfold chunkSizeLimit; omega)
    (append_ne_nil_of_length_pos _ _ (by rw [hl]; omega))]
  simp only [Res.ok_bind]
  have := decodeSenderSetup_encode c hc s hs _ [] (encodeSenderSetup_eq c s hs.name)
  simpa using this

theorem decodeSenderSetup_noPanic (c : Curve) (sid : Nat) (chunk : Bytes) : NoPanic (decodeSenderSetup c sid chunk) := by
  unfold decodeSenderSetup
  apply NoPanic.bind (readChunk_noPanic _); intro b
  apply NoPanic.ite; · simp
  apply NoPanic.bind (readFixed_noPanic _ _); intro x1
  apply NoPanic.bind (readFixed_noPanic _ _); intro x2
  apply NoPanic.bind (readFixed_noPanic _ _); intro x3
  apply NoPanic.bind (readFixed_noPanic _ _); intro x4
  apply NoPanic.bind (readFixed_noPanic _ _); intro x5
  simp

theorem decodeGarblerSession_noPanic (c : Curve) (data : Bytes) : NoPanic (decodeGarblerSession c data) := by
  unfold decodeGarblerSession
  apply NoPanic.bind (readHeader_noPanic _ _); intro a
  apply NoPanic.bind (readChunk_noPanic _); intro b
  exact decodeSenderSetup_noPanic _ _ _

theorem decodeGarblerSession_other_curve (c c' : Curve) (hc' : c'.WF) (s : GarblerSession) (hs : s.sid < 2 ^ 64)
    (enc extra : Bytes) (he : encodeGarblerSession c' s = .ok enc) (hne : c'.name ≠ c.name) :
    decodeGarblerSession c (enc ++ extra) = .error := by
  unfold encodeGarblerSession encodeSenderSetup at he
  split at he
  · cases he
  · simp only [Res.ok_bind, Res.pure_eq] at he
    cases he
    unfold decodeGarblerSession
    simp only [List.append_assoc]
    rw [readHeader_header _ _ _ magic_lengths.2.2.2.1 hs]
    simp only [Res.ok_bind]
    have hl := senderSetup_inner_length c' hc' s
    rw [readChunk_write _ _ (by rw [hl]; have := hc'.name_lt; have := hc'.bl_le; unfold chunkSizeLimit; omega)
      (append_ne_nil_of_length_pos _ _ (by rw [hl]; omega))]
    simp only [Res.ok_bind]
    unfold decodeSenderSetup
    rw [readChunk_write _ _ (by have := hc'.name_lt; unfold chunkSizeLimit; omega)
      (by intro h; have := hc'.name_pos; simp at h; simp [h.1] at this)]
    simp only [Res.ok_bind, ne_eq]
    rw [if_pos hne]

theorem encodeGarblerSession_length (c : Curve) (hc : c.WF) (s : GarblerSession) (enc : Bytes)
    (he : encodeGarblerSession c s = .ok enc) :
    enc.length = 2 + 8 + (putUvarint (1 + c.name.length + 5 * c.byteLen)).length + (1 + c.name.length + 5 * c.byteLen) := by
  unfold encodeGarblerSession encodeSenderSetup at he
  split at he
  · cases he
  · simp only [Res.ok_bind, Res.pure_eq] at he
    cases he
    have hl := senderSetup_inner_length c hc s
    simp only [List.length_append, header_length, writeChunk] at hl ⊢
    rw [hl]
    simp [magicGS]
    omega

/-! ## Evaluator session -/

theorem encodeChoiceBundle_eq (c : Curve) (s : EvaluatorSession) (hs : s.WF c) :
    encodeChoiceBundle c s = .ok (writeChunk c.name ++ (beBytes c.byteLen s.ax ++ (beBytes c.byteLen s.ay ++
      (s.scalars.flatMap (beBytes c.byteLen) ++ bitsToBytes s.bits)))) := by
  unfold encodeChoiceBundle
  rw [if_neg (by simp [hs.name]), if_neg (by simp [hs.count]), if_neg (by simp [hs.bits])]

theorem choiceBundle_inner_length (c : Curve) (hc : c.WF) (s : EvaluatorSession) (hs : s.WF c) :
    (writeChunk c.name ++ (beBytes c.byteLen s.ax ++ (beBytes c.byteLen s.ay ++
      (s.scalars.flatMap (beBytes c.byteLen) ++ bitsToBytes s.bits)))).length =
    1 + c.name.length + 2 * c.byteLen + nBits * c.byteLen + signBytes := by
  simp only [List.length_append, writeChunk_length_small _ hc.name_lt, beBytes_length, flatMap_beBytes_length,
    bitsToBytes_length, hs.count, hs.bits]
  simp only [nBits, signBytes]
  rw [Nat.mul_comm c.byteLen 256]
  omega

theorem decodeChoiceBundle_encode (c : Curve) (hc : c.WF) (s : EvaluatorSession) (hs : s.WF c) (inner extra : Bytes)
    (he : encodeChoiceBundle c s = .ok inner) : decodeChoiceBundle c s.sid (inner ++ extra) = .ok s := by
  rw [encodeChoiceBundle_eq c s hs] at he
  cases he
  unfold decodeChoiceBundle
  simp only [List.append_assoc]
  rw [readChunk_write _ _ (by have := hc.name_lt; unfold chunkSizeLimit; omega)
    (by intro h; have := hc.name_pos; simp at h; simp [h.1] at this)]
  simp only [Res.ok_bind, ne_eq, not_true_eq_false, if_false]
  rw [readFixed_append _ _ _ hs.ax]; simp only [Res.ok_bind]
  rw [readFixed_append _ _ _ hs.ay]; simp only [Res.ok_bind]
  have hN := readFixedN_append c.byteLen s.scalars (bitsToBytes s.bits ++ extra) hs.scalars
  rw [hs.count] at hN
  rw [hN]; simp only [Res.ok_bind]
  have hbl : (bitsToBytes s.bits).length = signBytes := by rw [bitsToBytes_length, hs.bits]; rfl
  rw [readSome_full signBytes _ _ hbl (by decide)]
  simp only [Res.ok_bind]
  have hrt : bytesToBits (bitsToBytes s.bits) = s.bits := bytesToBits_bitsToBytes _ (by rw [hs.bits]; rfl)
  rw [hrt, if_neg (by rw [hs.bits]; simp)]
  simp only [Res.pure_eq]
  have : s.bits.take nBits = s.bits := by rw [← hs.bits]; exact List.take_length
  rw [this, ← hs.name]

theorem decodeEvaluatorSession_encode (c : Curve) (hc : c.WF) (s : EvaluatorSession) (hs : s.WF c) (enc extra : Bytes)
    (he : encodeEvaluatorSession c s = .ok enc) : decodeEvaluatorSession c (enc ++ extra) = .ok s := by
  unfold encodeEvaluatorSession at he
  rw [encodeChoiceBundle_eq c s hs] at he
  simp only [Res.ok_bind, Res.pure_eq] at he
  cases he
  unfold decodeEvaluatorSession
  simp only [List.append_assoc]
  rw [readHeader_header _ _ _ magic_lengths.2.2.2.2 hs.sid]
  simp only [Res.ok_bind]
  have hl := choiceBundle_inner_length c hc s hs
  rw [readChunk_write _ _ (by rw [hl]; have := hc.name_lt; have := hc.bl_le; unfold chunkSizeLimit nBits signBytes; omega)
    (append_ne_nil_of_length_pos _ _ (by rw [hl]; omega))]
  simp only [Res.ok_bind]
  have := decodeChoiceBundle_encode c hc s hs _ [] (encodeChoiceBundle_eq c s hs)
  simpa using this

theorem decodeChoiceBundle_noPanic (c : Curve) (sid : Nat) (chunk : Bytes) : NoPanic (decodeChoiceBundle c sid chunk) := by
  unfold decodeChoiceBundle
  apply NoPanic.bind (readChunk_noPanic _); intro b
  apply NoPanic.ite; · simp
  apply NoPanic.bind (readFixed_noPanic _ _); intro x1
  apply NoPanic.bind (readFixed_noPanic _ _); intro x2
  apply NoPanic.bind (readFixedN_noPanic _ _ _); intro x3
  apply NoPanic.bind (readSome_noPanic _ _); intro x4
  apply NoPanic.ite <;> simp

theorem decodeEvaluatorSession_noPanic (c : Curve) (data : Bytes) : NoPanic (decodeEvaluatorSession c data) := by
  unfold decodeEvaluatorSession
  apply NoPanic.bind (readHeader_noPanic _ _); intro a
  apply NoPanic.bind (readChunk_noPanic _); intro b
  exact decodeChoiceBundle_noPanic _ _ _

theorem decodeEvaluatorSession_other_curve (c c' : Curve) (hc' : c'.WF) (s : EvaluatorSession) (hs : s.WF c')
    (enc extra : Bytes) (he : encodeEvaluatorSession c' s = .ok enc) (hne : c'.name ≠ c.name) :
    decodeEvaluatorSession c (enc ++ extra) = .error := by
  unfold encodeEvaluatorSession at he
  rw [encodeChoiceBundle_eq c' s hs] at he
  simp only [Res.ok_bind, Res.pure_eq] at he
  cases he
  unfold decodeEvaluatorSession
  simp only [List.append_assoc]
  rw [readHeader_header _ _ _ magic_lengths.2.2.2.2 hs.sid]
  simp only [Res.ok_bind]
  have hl := choiceBundle_inner_length c' hc' s hs
  rw [readChunk_write _ _ (by rw [hl]; have := hc'.name_lt; have := hc'.bl_le; unfold chunkSizeLimit nBits signBytes; omega)
    (append_ne_nil_of_length_pos _ _ (by rw [hl]; omega))]
  simp only [Res.ok_bind]
  unfold decodeChoiceBundle
  rw [readChunk_write _ _ (by have := hc'.name_lt; unfold chunkSizeLimit; omega)
    (by intro h; have := hc'.name_pos; simp at h; simp [h.1] at this)]
  simp only [Res.ok_bind, ne_eq]
  rw [if_pos hne]

theorem encodeEvaluatorSession_length (c : Curve) (hc : c.WF) (s : EvaluatorSession) (hs : s.WF c) (enc : Bytes)
    (he : encodeEvaluatorSession c s = .ok enc) :
    enc.length = 2 + 8 + (putUvarint (1 + c.name.length + 2 * c.byteLen + nBits * c.byteLen + signBytes)).length +
      (1 + c.name.length + 2 * c.byteLen + nBits * c.byteLen + signBytes) := by
  unfold encodeEvaluatorSession at he
  rw [encodeChoiceBundle_eq c s hs] at he
  simp only [Res.ok_bind, Res.pure_eq] at he
  cases he
  have hl := choiceBundle_inner_length c hc s hs
  simp only [List.length_append, header_length, writeChunk] at hl ⊢
  rw [hl]
  simp [magicES]
  omega

/-- The bit field is read with a plain `Read`: a chunk that stops `signBytes - j`
bytes early (0 < j < 32 bytes of the bit field present) is ACCEPTED, the
missing bytes read as zero. -/
theorem decodeChoiceBundle_short_bits (c : Curve) (hc : c.WF) (s : EvaluatorSession) (hs : s.WF c) (j : Nat)
    (hj : 0 < j) (hj2 : j < signBytes) :
    decodeChoiceBundle c s.sid (writeChunk c.name ++ (beBytes c.byteLen s.ax ++ (beBytes c.byteLen s.ay ++
      (s.scalars.flatMap (beBytes c.byteLen) ++ (bitsToBytes s.bits).take j)))) =
    .ok { s with bits := (bytesToBits ((bitsToBytes s.bits).take j ++ List.replicate (signBytes - j) 0)).take nBits } := by
  unfold decodeChoiceBundle
  rw [readChunk_write _ _ (by have := hc.name_lt; unfold chunkSizeLimit; omega)
    (by intro h; have := hc.name_pos; simp at h; simp [h.1] at this)]
  simp only [Res.ok_bind, ne_eq, not_true_eq_false, if_false]
  rw [readFixed_append _ _ _ hs.ax]; simp only [Res.ok_bind]
  rw [readFixed_append _ _ _ hs.ay]; simp only [Res.ok_bind]
  have hN := readFixedN_append c.byteLen s.scalars ((bitsToBytes s.bits).take j) hs.scalars
  rw [hs.count] at hN
  rw [hN]; simp only [Res.ok_bind]
  have hbl : (bitsToBytes s.bits).length = signBytes := by rw [bitsToBytes_length, hs.bits]; rfl
  have htl : ((bitsToBytes s.bits).take j).length = j := by simp only [List.length_take, hbl]; omega
  unfold readSome
  have hne : ((bitsToBytes s.bits).take j).isEmpty = false := by
    cases h : (bitsToBytes s.bits).take j with
    | nil => rw [h] at htl; simp at htl; omega
    | cons x xs => rfl
  rw [hne]
  simp only [Bool.false_eq_true, if_false, Res.ok_bind]
  have ht2 : ((bitsToBytes s.bits).take j).take signBytes = (bitsToBytes s.bits).take j := by
    rw [List.take_of_length_le (by rw [htl]; omega)]
  rw [ht2, htl]
  have hlen : (bytesToBits ((bitsToBytes s.bits).take j ++ List.replicate (signBytes - j) 0)).length = nBits := by
    rw [bytesToBits_length]; simp only [List.length_append, htl, List.length_replicate]; simp only [signBytes, nBits] at hj2 ⊢; omega
  rw [if_neg (by rw [hlen]; simp)]
  simp only [Res.pure_eq]
  rw [← hs.name]

/-! ## Round 2 -/

theorem sliceFixedN_flatMap (n : Nat) (xs : List Nat) (post : Bytes) (h : ∀ x ∈ xs, x < 256 ^ n) :
    ∀ pre : Bytes, sliceFixedN (pre ++ (xs.flatMap (beBytes n) ++ post)) n xs.length pre.length = .ok xs := by
  induction xs with
  | nil => intro pre; simp [sliceFixedN]
  | cons x xs ih =>
    intro pre
    simp only [List.flatMap_cons, List.length_cons, sliceFixedN, List.append_assoc]
    rw [slice_of_split _ pre (beBytes n x) (xs.flatMap (beBytes n) ++ post) _ _ rfl rfl (by simp)]
    simp only [Res.ok_bind]
    have hx : x < 256 ^ n := h x (by simp)
    have := ih (fun y hy => h y (by simp [hy])) (pre ++ beBytes n x)
    simp only [List.append_assoc, List.length_append, beBytes_length] at this
    rw [this]
    simp [beNat_beBytes n x hx]

theorem sliceFixedN_noPanic (data : Bytes) (n : Nat) : ∀ (k off : Nat), off + k * n ≤ data.length →
    NoPanic (sliceFixedN data n k off) := by
  intro k
  induction k with
  | zero => intro off _; simp [sliceFixedN]
  | succ k ih =>
    intro off h
    simp only [sliceFixedN]
    have h1 : off + n + k * n ≤ data.length := by rw [Nat.succ_mul] at h; omega
    apply NoPanic.bind (slice_noPanic _ _ _ (by omega) (by
      have : 0 ≤ k * n := Nat.zero_le _
      omega))
    intro b
    apply NoPanic.bind (ih _ h1)
    intro vs; simp

theorem sliceFixedN_length (data : Bytes) (n : Nat) : ∀ (k off : Nat) (vs : List Nat),
    sliceFixedN data n k off = .ok vs → vs.length = k := by
  intro k
  induction k with
  | zero => intro off vs h; simp [sliceFixedN] at h; simp [← h]
  | succ k ih =>
    intro off vs h
    simp only [sliceFixedN] at h
    cases h1 : slice data off (off + n) with
    | ok b =>
      rw [h1] at h; simp only [Res.ok_bind] at h
      cases h2 : sliceFixedN data n k (off + n) with
      | ok ws =>
        rw [h2] at h; simp only [Res.ok_bind, Res.pure_eq, Res.ok.injEq] at h
        rw [← h]; simp [ih _ _ h2]
      | error => rw [h2] at h; simp at h
      | panic => rw [h2] at h; simp at h
    | error => rw [h1] at h; simp at h
    | panic => rw [h1] at h; simp at h

theorem decompressAll_packed (c : Curve) (ps : List Point) :
    ∀ done : List Point, (∀ p ∈ ps, c.decompress p.x (yOdd p) = some p.y) →
      decompressAll c (bitsToBytes ((done ++ ps).map yOdd)) (ps.map (·.x)) done.length = .ok ps := by
  induction ps with
  | nil => intro done _; simp [decompressAll]
  | cons p ps ih =>
    intro done h
    simp only [List.map_cons, decompressAll]
    rw [pointSign_packed _ _ (by simp)]
    simp only [Res.ok_bind]
    have hbit : ((done ++ p :: ps).map yOdd).getD done.length false = yOdd p := by
      simp [List.getD_eq_getElem?_getD]
    rw [hbit, h p (by simp)]
    simp only
    have := ih (done ++ [p]) (fun q hq => h q (by simp [hq]))
    simp only [List.append_assoc, List.singleton_append, List.length_append, List.length_singleton] at this
    rw [this]
    simp

theorem decompressAll_noPanic (c : Curve) (signs : Bytes) : ∀ (xs : List Nat) (i : Nat),
    i + xs.length ≤ 8 * signs.length → NoPanic (decompressAll c signs xs i) := by
  intro xs
  induction xs with
  | nil => intro i _; simp [decompressAll]
  | cons x xs ih =>
    intro i h
    simp only [decompressAll]
    have hps : NoPanic (pointSign signs i) := by
      unfold pointSign
      apply NoPanic.ite; · simp
      unfold byteAt
      have : i / 8 < signs.length := by simp only [List.length_cons] at h; omega
      simp [List.getElem?_eq_getElem this]
    apply NoPanic.bind hps
    intro odd
    cases c.decompress x odd with
    | none => simp
    | some y =>
      simp only
      apply NoPanic.bind (ih (i + 1) (by simp only [List.length_cons] at h; omega))
      intro ps; simp

theorem encodePoints_eq (c : Curve) (ps : List Point) (h : ps.length = nBits) :
    encodePoints c ps = .ok ((ps.map (·.x)).flatMap (beBytes c.byteLen) ++ bitsToBytes (ps.map yOdd)) := by
  unfold encodePoints
  rw [if_neg (by simp [h])]
  simp [List.flatMap_map]

theorem decodePoints_encode (c : Curve) (ps : List Point) (hn : ps.length = nBits)
    (hx : ∀ p ∈ ps, fits c p.x) (hd : ∀ p ∈ ps, c.decompress p.x (yOdd p) = some p.y) :
    decodePoints c ((ps.map (·.x)).flatMap (beBytes c.byteLen) ++ bitsToBytes (ps.map yOdd)) = .ok ps := by
  unfold decodePoints
  have hl1 : ((ps.map (·.x)).flatMap (beBytes c.byteLen)).length = nBits * c.byteLen := by
    rw [flatMap_beBytes_length, List.length_map, hn, Nat.mul_comm]
  have hl2 : (bitsToBytes (ps.map yOdd)).length = signBytes := by
    rw [bitsToBytes_length, List.length_map, hn]; rfl
  rw [if_neg (by simp only [List.length_append, hl1, hl2]; simp)]
  have h1 := sliceFixedN_flatMap c.byteLen (ps.map (·.x)) (bitsToBytes (ps.map yOdd))
    (by intro x hx'; simp only [List.mem_map] at hx'; obtain ⟨p, hp, rfl⟩ := hx'; exact hx p hp) []
  simp only [List.nil_append, List.length_map, List.length_nil, hn] at h1
  rw [h1]
  simp only [Res.ok_bind]
  rw [slice_of_split _ ((ps.map (·.x)).flatMap (beBytes c.byteLen)) (bitsToBytes (ps.map yOdd)) [] _ _ (by simp)
    hl1.symm (by simp only [List.length_append, hl1]; )]
  simp only [Res.ok_bind]
  have := decompressAll_packed c ps [] hd
  simpa using this

theorem decodePoints_noPanic (c : Curve) (data : Bytes) : NoPanic (decodePoints c data) := by
  unfold decodePoints
  split
  · simp
  · rename_i hne
    have hlen : data.length = nBits * c.byteLen + signBytes := Decidable.of_not_not hne
    cases h1 : sliceFixedN data c.byteLen nBits 0 with
    | ok xs =>
      simp only [Res.ok_bind]
      have hxs := sliceFixedN_length _ _ _ _ _ h1
      cases h2 : slice data (nBits * c.byteLen) data.length with
      | ok signs =>
        simp only [Res.ok_bind]
        have hs := slice_length _ _ _ _ h2
        apply decompressAll_noPanic
        rw [hxs, hs, hlen]; simp [nBits, signBytes]
      | error => simp
      | panic =>
        exfalso
        exact slice_noPanic data _ _ (by omega) (Nat.le_refl _) h2
    | error => simp
    | panic =>
      exfalso
      exact sliceFixedN_noPanic data c.byteLen nBits 0 (by omega) h1

theorem encodeRound2_eq (c : Curve) (m : Round2) (h : m.choices.length = nBits) :
    encodeRound2 c m = .ok (header magicR2 m.sid ++ (writeChunk c.name ++
      ((m.choices.map (·.x)).flatMap (beBytes c.byteLen) ++ bitsToBytes (m.choices.map yOdd)))) := by
  unfold encodeRound2
  rw [encodePoints_eq c _ h]
  simp

theorem decodeRound2_encode (c : Curve) (hc : c.WF) (m : Round2) (hm : m.WF c) (enc : Bytes)
    (he : encodeRound2 c m = .ok enc) : decodeRound2 c enc = .ok m := by
  rw [encodeRound2_eq c m hm.count] at he
  cases he
  unfold decodeRound2
  rw [readHeader_header _ _ _ magic_lengths.2.1 hm.sid]
  simp only [Res.ok_bind]
  rw [readChunk_write _ _ (by have := hc.name_lt; unfold chunkSizeLimit; omega)
    (by intro h; have := hc.name_pos; simp at h; simp [h.1] at this)]
  simp only [Res.ok_bind, ne_eq, not_true_eq_false, if_false]
  rw [decodePoints_encode c _ hm.count hm.xs hm.onCurve]
  simp only [Res.ok_bind, Res.pure_eq]
  rw [← hm.name]

theorem decodeRound2_noPanic (c : Curve) (data : Bytes) : NoPanic (decodeRound2 c data) := by
  unfold decodeRound2
  apply NoPanic.bind (readHeader_noPanic _ _); intro a
  apply NoPanic.bind (readChunk_noPanic _); intro b
  apply NoPanic.ite; · simp
  apply NoPanic.bind (decodePoints_noPanic _ _); intro ps
  simp

theorem decodeRound2_other_curve (c c' : Curve) (hc' : c'.WF) (m : Round2) (hs : m.sid < 2 ^ 64) (enc : Bytes)
    (he : encodeRound2 c' m = .ok enc) (hne : c'.name ≠ c.name) : decodeRound2 c enc = .error := by
  unfold encodeRound2 at he
  cases hp : encodePoints c' m.choices with
  | ok pts =>
    rw [hp] at he
    simp only [Res.ok_bind, Res.pure_eq] at he
    cases he
    unfold decodeRound2
    rw [readHeader_header _ _ _ magic_lengths.2.1 hs]
    simp only [Res.ok_bind]
    rw [readChunk_write _ _ (by have := hc'.name_lt; unfold chunkSizeLimit; omega)
      (by intro h; have := hc'.name_pos; simp at h; simp [h.1] at this)]
    simp only [Res.ok_bind, ne_eq]
    rw [if_pos hne]
  | error => rw [hp] at he; simp at he
  | panic => rw [hp] at he; simp at he

theorem encodeRound2_length (c : Curve) (hc : c.WF) (m : Round2) (enc : Bytes) (he : encodeRound2 c m = .ok enc) :
    enc.length = 2 + 8 + 1 + c.name.length + nBits * c.byteLen + signBytes := by
  unfold encodeRound2 encodePoints at he
  split at he
  · simp at he
  · rename_i hn
    have hn : m.choices.length = nBits := Decidable.of_not_not hn
    simp only [Res.ok_bind, Res.pure_eq] at he
    cases he
    simp only [List.length_append, header_length, writeChunk_length_small _ hc.name_lt, bitsToBytes_length,
      List.length_map, hn]
    have : (List.flatMap (fun p => beBytes c.byteLen p.x) m.choices).length = nBits * c.byteLen := by
      rw [← List.flatMap_map (f := fun p : Point => p.x) (g := beBytes c.byteLen), flatMap_beBytes_length,
        List.length_map, hn, Nat.mul_comm]
    rw [this]
    simp [magicR2, nBits, signBytes]
    omega

/-! ## Round 3 -/

theorem round3_body_length (counts : List Nat) (m : Round3) (hm : m.WF counts) :
    (header magicR3 m.sid ++ (m.key ++ (bytesOfLabels m.tables.flatten ++ (bytesOfLabels m.inputs ++
      (bytesOfLabels (unpairs m.hints) ++ bytesOfLabels (unpairs m.cts)))))).length = round3Len counts := by
  simp only [List.length_append, header_length, bytesOfLabels_length, unpairs_length, hm.key, hm.inputs, hm.hints,
    hm.cts, flatten_length_eq_sum, hm.rows]
  simp [round3Len, magicR3, keyLen, labelLen, nBits]
  omega

theorem encodeRound3_eq (counts : List Nat) (m : Round3) (hm : m.WF counts) :
    encodeRound3 counts m = .ok (header magicR3 m.sid ++ (m.key ++ (bytesOfLabels m.tables.flatten ++
      (bytesOfLabels m.inputs ++ (bytesOfLabels (unpairs m.hints) ++ bytesOfLabels (unpairs m.cts)))))) := by
  unfold encodeRound3
  have hl : m.tables.length = counts.length := by rw [← hm.rows]; simp
  rw [if_neg (by simp [hl]), if_neg (by simp [hm.rows]), if_neg (by simp [hm.inputs]), if_neg (by simp [hm.hints]),
    if_neg (by simp [hm.cts])]
  simp only
  rw [if_neg (by rw [round3_body_length counts m hm]; simp)]

theorem decodeRound3_encode (counts : List Nat) (m : Round3) (hm : m.WF counts) (enc : Bytes)
    (he : encodeRound3 counts m = .ok enc) : decodeRound3 counts enc = .ok m := by
  rw [encodeRound3_eq counts m hm] at he
  cases he
  unfold decodeRound3
  rw [if_neg (by rw [round3_body_length counts m hm]; simp)]
  have hsum : m.tables.flatten.length = counts.sum := by rw [flatten_length_eq_sum, hm.rows]
  -- the seven slices
  rw [slice_of_split _ [] magicR3 (beBytes 8 m.sid ++ (m.key ++ (bytesOfLabels m.tables.flatten ++
      (bytesOfLabels m.inputs ++ (bytesOfLabels (unpairs m.hints) ++ bytesOfLabels (unpairs m.cts))))))
      0 2 (by simp [header]) rfl rfl]
  simp only [Res.ok_bind, ne_eq, not_true_eq_false, if_false]
  rw [slice_of_split _ magicR3 (beBytes 8 m.sid) (m.key ++ (bytesOfLabels m.tables.flatten ++
      (bytesOfLabels m.inputs ++ (bytesOfLabels (unpairs m.hints) ++ bytesOfLabels (unpairs m.cts)))))
      2 10 (by simp [header]) rfl (by simp)]
  simp only [Res.ok_bind]
  rw [slice_of_split _ (header magicR3 m.sid) m.key (bytesOfLabels m.tables.flatten ++
      (bytesOfLabels m.inputs ++ (bytesOfLabels (unpairs m.hints) ++ bytesOfLabels (unpairs m.cts))))
      10 (10 + keyLen) rfl (by simp [magicR3]) (by rw [hm.key])]
  simp only [Res.ok_bind]
  rw [slice_of_split _ (header magicR3 m.sid ++ m.key) (bytesOfLabels m.tables.flatten) (bytesOfLabels m.inputs ++
      (bytesOfLabels (unpairs m.hints) ++ bytesOfLabels (unpairs m.cts)))
      (10 + keyLen) (10 + keyLen + labelLen * counts.sum) (by simp) (by simp [magicR3, hm.key])
      (by simp [hsum, labelLen])]
  simp only [Res.ok_bind]
  rw [slice_of_split _ (header magicR3 m.sid ++ (m.key ++ bytesOfLabels m.tables.flatten)) (bytesOfLabels m.inputs)
      (bytesOfLabels (unpairs m.hints) ++ bytesOfLabels (unpairs m.cts))
      (10 + keyLen + labelLen * counts.sum) (10 + keyLen + labelLen * counts.sum + labelLen * nBits) (by simp)
      (by simp [magicR3, hm.key, hsum, labelLen]; omega) (by simp [hm.inputs, labelLen])]
  simp only [Res.ok_bind]
  rw [slice_of_split _ (header magicR3 m.sid ++ (m.key ++ (bytesOfLabels m.tables.flatten ++ bytesOfLabels m.inputs)))
      (bytesOfLabels (unpairs m.hints)) (bytesOfLabels (unpairs m.cts))
      (10 + keyLen + labelLen * counts.sum + labelLen * nBits)
      (10 + keyLen + labelLen * counts.sum + labelLen * nBits + 2 * labelLen * nBits) (by simp)
      (by simp [magicR3, hm.key, hsum, hm.inputs, labelLen]; omega) (by simp [hm.hints, labelLen]; omega)]
  simp only [Res.ok_bind]
  rw [slice_of_split _ (header magicR3 m.sid ++ (m.key ++ (bytesOfLabels m.tables.flatten ++ (bytesOfLabels m.inputs ++
        bytesOfLabels (unpairs m.hints))))) (bytesOfLabels (unpairs m.cts)) []
      (10 + keyLen + labelLen * counts.sum + labelLen * nBits + 2 * labelLen * nBits)
      (10 + keyLen + labelLen * counts.sum + labelLen * nBits + 2 * labelLen * nBits + 2 * labelLen * nBits) (by simp)
      (by simp [magicR3, hm.key, hsum, hm.inputs, hm.hints, labelLen]; omega) (by simp [hm.cts, labelLen]; omega)]
  simp only [Res.ok_bind, Res.pure_eq]
  rw [beNat_beBytes 8 m.sid (by simpa using hm.sid)]
  simp only [labelsOfBytes_bytesOfLabels, pairs_unpairs]
  have hr := splitRows_flatten m.tables []
  rw [hm.rows, List.append_nil] at hr
  rw [hr]

theorem decodeRound3_noPanic (counts : List Nat) (data : Bytes) : NoPanic (decodeRound3 counts data) := by
  unfold decodeRound3
  split
  · simp
  · rename_i hne
    have hlen : data.length = round3Len counts := Decidable.of_not_not hne
    unfold round3Len keyLen labelLen nBits at hlen
    simp only [keyLen, labelLen, nBits]
    apply NoPanic.bind (slice_noPanic _ _ _ (by omega) (by omega)); intro m
    apply NoPanic.ite; · simp
    apply NoPanic.bind (slice_noPanic _ _ _ (by omega) (by omega)); intro sid
    apply NoPanic.bind (slice_noPanic _ _ _ (by omega) (by omega)); intro key
    apply NoPanic.bind (slice_noPanic _ _ _ (by omega) (by omega)); intro tb
    apply NoPanic.bind (slice_noPanic _ _ _ (by omega) (by omega)); intro ib
    apply NoPanic.bind (slice_noPanic _ _ _ (by omega) (by omega)); intro hb
    apply NoPanic.bind (slice_noPanic _ _ _ (by omega) (by omega)); intro cb
    simp

/-- The round-3 format is canonical: whatever decodes re-encodes to the very
same bytes. -/
theorem encodeRound3_decode (counts : List Nat) (data : Bytes) (m : Round3)
    (h : decodeRound3 counts data = .ok m) : encodeRound3 counts m = .ok data ∧ m.WF counts := by
  unfold decodeRound3 at h
  split at h
  · cases h
  · rename_i hne
    have hlen : data.length = round3Len counts := Decidable.of_not_not hne
    have hlen' := hlen
    unfold round3Len keyLen labelLen nBits at hlen'
    -- every slice succeeds
    have ex : ∀ lo hi, lo ≤ hi → hi ≤ data.length → ∃ r, slice data lo hi = .ok r := by
      intro lo hi h1 h2
      exact ⟨_, (slice_ok_iff data lo hi _).2 ⟨h1, h2, rfl⟩⟩
    obtain ⟨mg, hmg⟩ := ex 0 2 (by omega) (by omega)
    obtain ⟨sid, hsid⟩ := ex 2 10 (by omega) (by omega)
    obtain ⟨key, hkey⟩ := ex 10 (10 + keyLen) (by simp [keyLen]) (by simp only [keyLen]; omega)
    obtain ⟨tb, htb⟩ := ex (10 + keyLen) (10 + keyLen + labelLen * counts.sum) (by omega)
      (by simp only [keyLen, labelLen]; omega)
    obtain ⟨ib, hib⟩ := ex (10 + keyLen + labelLen * counts.sum) (10 + keyLen + labelLen * counts.sum + labelLen * nBits)
      (by omega) (by simp only [keyLen, labelLen, nBits]; omega)
    obtain ⟨hb, hhb⟩ := ex (10 + keyLen + labelLen * counts.sum + labelLen * nBits)
      (10 + keyLen + labelLen * counts.sum + labelLen * nBits + 2 * labelLen * nBits)
      (by omega) (by simp only [keyLen, labelLen, nBits]; omega)
    obtain ⟨cb, hcb⟩ := ex (10 + keyLen + labelLen * counts.sum + labelLen * nBits + 2 * labelLen * nBits)
      (10 + keyLen + labelLen * counts.sum + labelLen * nBits + 2 * labelLen * nBits + 2 * labelLen * nBits)
      (by omega) (by simp only [keyLen, labelLen, nBits]; omega)
    rw [hmg] at h
    simp only [Res.ok_bind] at h
    split at h
    · cases h
    · rename_i hm2
      have hmagic : mg = magicR3 := Decidable.of_not_not hm2
      rw [hsid, hkey] at h
      simp only [Res.ok_bind] at h
      rw [htb, hib, hhb, hcb] at h
      simp only [Res.ok_bind, Res.pure_eq, Res.ok.injEq] at h
      -- lengths of the pieces
      have lsid := slice_length _ _ _ _ hsid
      have lkey := slice_length _ _ _ _ hkey
      have ltb := slice_length _ _ _ _ htb
      have lib := slice_length _ _ _ _ hib
      have lhb := slice_length _ _ _ _ hhb
      have lcb := slice_length _ _ _ _ hcb
      have ltb' : tb.length = 16 * counts.sum := by rw [ltb]; simp only [labelLen]; omega
      have lib' : ib.length = 16 * nBits := by rw [lib]; simp only [labelLen]; omega
      have lhb' : hb.length = 16 * (2 * nBits) := by rw [lhb]; simp only [labelLen, nBits]; omega
      have lcb' : cb.length = 16 * (2 * nBits) := by rw [lcb]; simp only [labelLen, nBits]; omega
      obtain ⟨t1, t2⟩ := labelsOfBytes_spec _ tb ltb'
      obtain ⟨i1, i2⟩ := labelsOfBytes_spec _ ib lib'
      obtain ⟨h1, h2⟩ := labelsOfBytes_spec _ hb lhb'
      obtain ⟨c1, c2⟩ := labelsOfBytes_spec _ cb lcb'
      obtain ⟨ph1, ph2⟩ := pairs_spec nBits (labelsOfBytes hb) h2
      obtain ⟨pc1, pc2⟩ := pairs_spec nBits (labelsOfBytes cb) c2
      obtain ⟨r1, r2⟩ := splitRows_spec counts (labelsOfBytes tb) (by rw [t2]; exact Nat.le_refl _)
      have hwf : m.WF counts := by
        rw [← h]
        refine ⟨?_, ?_, r1, i2, ph2, pc2⟩
        · have := beNat_lt sid; rw [lsid] at this; simpa using this
        · simp only [keyLen] at lkey ⊢; omega
      refine ⟨?_, hwf⟩
      rw [encodeRound3_eq counts m hwf, ← h]
      simp only
      rw [r2, ← t2, List.take_length, t1, i1, ph1, h1, pc1, c1]
      have hsidb : beBytes 8 (beNat sid) = sid := beBytes_beNat 8 sid (by omega)
      simp only [header, hsidb, ← hmagic]
      -- the pieces are adjacent slices of `data`
      have j1 := slice_concat _ _ _ _ _ _ hmg hsid
      have j2 := slice_concat _ _ _ _ _ _ j1 hkey
      have j3 := slice_concat _ _ _ _ _ _ j2 htb
      have j4 := slice_concat _ _ _ _ _ _ j3 hib
      have j5 := slice_concat _ _ _ _ _ _ j4 hhb
      have j6 := slice_concat _ _ _ _ _ _ j5 hcb
      have hend : 10 + keyLen + labelLen * counts.sum + labelLen * nBits + 2 * labelLen * nBits + 2 * labelLen * nBits
          = data.length := by rw [hlen]; simp only [round3Len]
      rw [hend, slice_full] at j6
      simp only [Res.ok.injEq] at j6
      rw [j6]
      simp [List.append_assoc]

end Mpc.Sha2pc

/-
Message-level lemmas for the sha2pc codec model: decode ∘ encode, totality
(no decoder crashes), documented lengths, curve mismatch.  Core Lean only.
-/
import MpcVerif.Proofs.Sha2pc

namespace Mpc.Sha2pc

/-! ## Well-formedness (what the real round functions produce) -/

/-- Facts about a supported curve: a non-empty name shorter than 128 bytes (all
four are 5 bytes), a positive field size (28/32/48/66 bytes). -/
structure Curve.WF (c : Curve) : Prop where
  name_pos : 0 < c.name.length
  name_lt : c.name.length < 128
  bl_pos : 0 < c.byteLen
  bl_le : c.byteLen ≤ 1000

/-- `v` fits the fixed field width (Go's `writeFixedBigInt` panics otherwise;
coordinates and scalars of the curve always fit). -/
def fits (c : Curve) (v : Nat) : Prop := v < 256 ^ c.byteLen

structure Round1.WF (c : Curve) (m : Round1) : Prop where
  sid : m.sid < 2 ^ 64
  name : m.curveName = c.name
  ax : fits c m.ax
  ay : fits c m.ay

structure Round2.WF (c : Curve) (m : Round2) : Prop where
  sid : m.sid < 2 ^ 64
  name : m.curveName = c.name
  count : m.choices.length = nBits
  xs : ∀ p ∈ m.choices, fits c p.x
  /-- every point is what decompression of its abscissa and parity gives
  (true for every affine point of the curve) -/
  onCurve : ∀ p ∈ m.choices, c.decompress p.x (yOdd p) = some p.y

structure Round3.WF (counts : List Nat) (m : Round3) : Prop where
  sid : m.sid < 2 ^ 64
  key : m.key.length = keyLen
  rows : m.tables.map List.length = counts
  inputs : m.inputs.length = nBits
  hints : m.hints.length = nBits
  cts : m.cts.length = nBits

structure GarblerSession.WF (c : Curve) (s : GarblerSession) : Prop where
  sid : s.sid < 2 ^ 64
  name : s.curveName = c.name
  scalar : fits c s.scalar
  ax : fits c s.ax
  ay : fits c s.ay
  ainvx : fits c s.ainvx
  ainvy : fits c s.ainvy

structure EvaluatorSession.WF (c : Curve) (s : EvaluatorSession) : Prop where
  sid : s.sid < 2 ^ 64
  name : s.curveName = c.name
  ax : fits c s.ax
  ay : fits c s.ay
  count : s.scalars.length = nBits
  scalars : ∀ v ∈ s.scalars, fits c v
  bits : s.bits.length = nBits

theorem append_ne_nil_of_length_pos (a b : Bytes) (h : 0 < a.length) : a ++ b ≠ [] := by
  cases a with
  | nil => simp at h
  | cons x xs => simp

theorem flatMap_beBytes_length (n : Nat) (vs : List Nat) : (vs.flatMap (beBytes n)).length = n * vs.length := by
  induction vs with
  | nil => simp
  | cons v vs ih => simp [ih, Nat.mul_succ, Nat.add_comm]

theorem writeChunk_length_small (d : Bytes) (h : d.length < 128) : (writeChunk d).length = 1 + d.length := by
  simp [writeChunk, putUvarint_length_small _ h]

/-! ## inversion of the readers -/

theorem readFull_ok (n : Nat) (r b r' : Bytes) (h : readFull n r = .ok (b, r')) : r = b ++ r' ∧ b.length = n := by
  unfold readFull at h
  split at h
  · cases h
  · rename_i hl
    simp only [Res.ok.injEq, Prod.mk.injEq] at h
    rw [← h.1, ← h.2]
    exact ⟨(List.take_append_drop n r).symm, by simp only [List.length_take]; omega⟩

/-- `readChunk` accepts exactly `writeChunk d ++ r'`. -/
theorem readChunk_ok (r d r' : Bytes) (h : readChunk r = .ok (d, r')) : r = writeChunk d ++ r' := by
  unfold readChunk at h
  cases hu : readUvarint r with
  | ok a =>
    obtain ⟨len, r1⟩ := a
    rw [hu] at h
    simp only [Res.ok_bind] at h
    split at h
    · cases h
    · rename_i hmin
      have hmin : r.length - r1.length = (putUvarint len).length := Decidable.of_not_not hmin
      split at h
      · cases h
      · split at h
        · cases h
        · rename_i hlen
          split at h
          · cases h
          · simp only [Res.pure_eq, Res.ok.injEq, Prod.mk.injEq] at h
            obtain ⟨pre, h1, _, h3⟩ := readUvarint_min r len r1 hu
            have hpl : pre.length = r.length - r1.length := by rw [h1]; simp
            have hpre : pre = putUvarint len := h3 (by omega)
            have hdl : d.length = len := by rw [← h.1]; simp only [List.length_take]; omega
            unfold writeChunk
            rw [hdl, ← hpre, h1, ← h.1, ← h.2, List.append_assoc, List.take_append_drop]
  | error => rw [hu] at h; simp at h
  | panic => rw [hu] at h; simp at h

theorem readFixed_ok (n : Nat) (r : Bytes) (v : Nat) (r' : Bytes) (h : readFixed n r = .ok (v, r')) :
    r = beBytes n v ++ r' ∧ v < 256 ^ n := by
  unfold readFixed at h
  cases hf : readFull n r with
  | ok a =>
    obtain ⟨b, r1⟩ := a
    rw [hf] at h
    simp only [Res.ok_bind, Res.pure_eq, Res.ok.injEq, Prod.mk.injEq] at h
    obtain ⟨h1, h2⟩ := readFull_ok n r b r1 hf
    rw [← h.1, ← h.2]
    refine ⟨by rw [beBytes_beNat n b h2]; exact h1, ?_⟩
    have := beNat_lt b
    rwa [h2] at this
  | error => rw [hf] at h; simp at h
  | panic => rw [hf] at h; simp at h

theorem readFixedN_ok (n : Nat) : ∀ (k : Nat) (r : Bytes) (vs : List Nat) (r' : Bytes),
    readFixedN n k r = .ok (vs, r') → r = vs.flatMap (beBytes n) ++ r' ∧ vs.length = k ∧ ∀ v ∈ vs, v < 256 ^ n := by
  intro k
  induction k with
  | zero =>
    intro r vs r' h
    simp [readFixedN] at h
    obtain ⟨rfl, rfl⟩ := h
    simp
  | succ k ih =>
    intro r vs r' h
    simp only [readFixedN] at h
    cases h1 : readFixed n r with
    | ok a =>
      obtain ⟨v, r1⟩ := a
      rw [h1] at h; simp only [Res.ok_bind] at h
      cases h2 : readFixedN n k r1 with
      | ok b =>
        obtain ⟨ws, r2⟩ := b
        rw [h2] at h; simp only [Res.ok_bind, Res.pure_eq, Res.ok.injEq, Prod.mk.injEq] at h
        obtain ⟨e1, l1⟩ := readFixed_ok _ _ _ _ h1
        obtain ⟨e2, l2, l3⟩ := ih _ _ _ h2
        rw [← h.1, ← h.2]
        refine ⟨by rw [e1, e2]; simp, by simp [l2], ?_⟩
        intro w hw
        simp only [List.mem_cons] at hw
        rcases hw with rfl | hw
        · exact l1
        · exact l3 w hw
      | error => rw [h2] at h; simp at h
      | panic => rw [h2] at h; simp at h
    | error => rw [h1] at h; simp at h
    | panic => rw [h1] at h; simp at h

theorem readHeader_ok (magic r : Bytes) (sid : Nat) (r' : Bytes) (h : readHeader magic r = .ok (sid, r')) :
    r = header magic sid ++ r' ∧ sid < 2 ^ 64 := by
  unfold readHeader at h
  cases hf : readFull 2 r with
  | ok a =>
    obtain ⟨m, r1⟩ := a
    rw [hf] at h
    simp only [Res.ok_bind] at h
    split at h
    · cases h
    · rename_i hm
      have hm : m = magic := Decidable.of_not_not hm
      cases hf2 : readFull 8 r1 with
      | ok a2 =>
        obtain ⟨s, r2⟩ := a2
        rw [hf2] at h
        simp only [Res.ok_bind, Res.pure_eq, Res.ok.injEq, Prod.mk.injEq] at h
        obtain ⟨h1, _⟩ := readFull_ok 2 r m r1 hf
        obtain ⟨h3, h4⟩ := readFull_ok 8 r1 s r2 hf2
        rw [← h.1, ← h.2]
        refine ⟨?_, ?_⟩
        · unfold header
          rw [beBytes_beNat 8 s h4, h1, h3, hm, List.append_assoc]
        · have := beNat_lt s
          rw [h4] at this
          simpa using this
      | error => rw [hf2] at h; simp at h
      | panic => rw [hf2] at h; simp at h
  | error => rw [hf] at h; simp at h
  | panic => rw [hf] at h; simp at h

/-! ## Round 1 -/

theorem encodeRound1_eq (c : Curve) (m : Round1) (h : m.curveName = c.name) :
    encodeRound1 c m = .ok (header magicR1 m.sid ++ (writeChunk c.name ++
      (beBytes c.byteLen m.ax ++ beBytes c.byteLen m.ay))) := by
  unfold encodeRound1
  rw [if_neg (by simp [h])]

theorem decodeRound1_encode (c : Curve) (hc : c.WF) (m : Round1) (hm : m.WF c) (enc : Bytes)
    (he : encodeRound1 c m = .ok enc) : decodeRound1 c enc = .ok m := by
  rw [encodeRound1_eq c m hm.name] at he
  cases he
  unfold decodeRound1
  rw [readHeader_header _ _ _ magic_lengths.1 hm.sid]
  simp only [Res.ok_bind]
  rw [readChunk_write _ _ (by have := hc.name_lt; unfold chunkSizeLimit; omega)
    (by intro h; have := hc.name_pos; simp at h; simp [h.1] at this)]
  simp only [Res.ok_bind, ne_eq, not_true_eq_false, if_false]
  rw [readFixed_append _ _ _ hm.ax]
  simp only [Res.ok_bind]
  have := readFixed_append c.byteLen m.ay [] hm.ay
  rw [List.append_nil] at this
  rw [this]
  simp only [Res.ok_bind, Res.pure_eq, not_true_eq_false, if_false]
  rw [← hm.name]

theorem encodeRound1_length (c : Curve) (hc : c.WF) (m : Round1) (enc : Bytes) (he : encodeRound1 c m = .ok enc) :
    enc.length = 2 + 8 + 1 + c.name.length + 2 * c.byteLen := by
  unfold encodeRound1 at he
  split at he
  · cases he
  · cases he
    simp [writeChunk_length_small _ hc.name_lt, magicR1]
    omega

theorem decodeRound1_noPanic (c : Curve) (data : Bytes) : NoPanic (decodeRound1 c data) := by
  unfold decodeRound1
  apply NoPanic.bind (readHeader_noPanic _ _); intro a
  apply NoPanic.bind (readChunk_noPanic _); intro b
  apply NoPanic.ite; · simp
  apply NoPanic.bind (readFixed_noPanic _ _); intro x
  apply NoPanic.bind (readFixed_noPanic _ _); intro y
  apply NoPanic.ite <;> simp

/-- A round-1 message produced for curve `c'` is rejected by the decoder of a
curve with another name. -/
theorem decodeRound1_other_curve (c c' : Curve) (hc' : c'.WF) (m : Round1) (hm : m.sid < 2 ^ 64) (enc extra : Bytes)
    (he : encodeRound1 c' m = .ok enc) (hne : c'.name ≠ c.name) : decodeRound1 c (enc ++ extra) = .error := by
  unfold encodeRound1 at he
  split at he
  · cases he
  · cases he
    unfold decodeRound1
    simp only [List.append_assoc]
    rw [readHeader_header _ _ _ magic_lengths.1 hm]
    simp only [Res.ok_bind]
    rw [readChunk_write _ _ (by have := hc'.name_lt; unfold chunkSizeLimit; omega)
      (by intro h; have := hc'.name_pos; simp at h; simp [h.1] at this)]
    simp only [Res.ok_bind, ne_eq]
    rw [if_pos hne]

/-- Round 1 is canonical: whatever decodes re-encodes to the very same bytes. -/
theorem encodeRound1_decode (c : Curve) (data : Bytes) (m : Round1) (h : decodeRound1 c data = .ok m) :
    encodeRound1 c m = .ok data ∧ m.WF c := by
  unfold decodeRound1 at h
  cases h1 : readHeader magicR1 data with
  | ok a1 =>
    obtain ⟨sid, r⟩ := a1
    rw [h1] at h; simp only [Res.ok_bind] at h
    cases h2 : readChunk r with
    | ok a2 =>
      obtain ⟨name, r1⟩ := a2
      rw [h2] at h; simp only [Res.ok_bind] at h
      split at h
      · cases h
      · rename_i hn
        have hn : name = c.name := Decidable.of_not_not hn
        cases h3 : readFixed c.byteLen r1 with
        | ok a3 =>
          obtain ⟨x, r2⟩ := a3
          rw [h3] at h; simp only [Res.ok_bind] at h
          cases h4 : readFixed c.byteLen r2 with
          | ok a4 =>
            obtain ⟨y, r3⟩ := a4
            rw [h4] at h; simp only [Res.ok_bind] at h
            split at h
            · cases h
            · rename_i hr3
              have hr3 : r3 = [] := Decidable.of_not_not hr3
              simp only [Res.pure_eq, Res.ok.injEq] at h
              obtain ⟨e1, ls⟩ := readHeader_ok _ _ _ _ h1
              have e2 := readChunk_ok _ _ _ h2
              obtain ⟨e3, lx⟩ := readFixed_ok _ _ _ _ h3
              obtain ⟨e4, ly⟩ := readFixed_ok _ _ _ _ h4
              rw [← h]
              refine ⟨?_, ⟨ls, hn, lx, ly⟩⟩
              rw [encodeRound1_eq c _ hn]
              simp only
              rw [e1, e2, e3, e4, hr3, hn]
              simp
          | error => rw [h4] at h; simp at h
          | panic => rw [h4] at h; simp at h
        | error => rw [h3] at h; simp at h
        | panic => rw [h3] at h; simp at h
    | error => rw [h2] at h; simp at h
    | panic => rw [h2] at h; simp at h
  | error => rw [h1] at h; simp at h
  | panic => rw [h1] at h; simp at h

/-! ## Garbler session -/

theorem encodeSenderSetup_eq (c : Curve) (s : GarblerSession) (h : s.curveName = c.name) :
    encodeSenderSetup c s = .ok (writeChunk c.name ++ (beBytes c.byteLen s.scalar ++ (beBytes c.byteLen s.ax ++
      (beBytes c.byteLen s.ay ++ (beBytes c.byteLen s.ainvx ++ beBytes c.byteLen s.ainvy))))) := by
  unfold encodeSenderSetup
  rw [if_neg (by simp [h])]

theorem senderSetup_inner_length (c : Curve) (hc : c.WF) (s : GarblerSession) :
    (writeChunk c.name ++ (beBytes c.byteLen s.scalar ++ (beBytes c.byteLen s.ax ++
      (beBytes c.byteLen s.ay ++ (beBytes c.byteLen s.ainvx ++ beBytes c.byteLen s.ainvy))))).length =
    1 + c.name.length + 5 * c.byteLen := by
  simp [writeChunk_length_small _ hc.name_lt]
  omega

theorem decodeSenderSetup_encode (c : Curve) (hc : c.WF) (s : GarblerSession) (hs : s.WF c) (inner : Bytes)
    (he : encodeSenderSetup c s = .ok inner) : decodeSenderSetup c s.sid inner = .ok s := by
  rw [encodeSenderSetup_eq c s hs.name] at he
  cases he
  unfold decodeSenderSetup
  rw [readChunk_write _ _ (by have := hc.name_lt; unfold chunkSizeLimit; omega)
    (by intro h; have := hc.name_pos; simp at h; simp [h.1] at this)]
  simp only [Res.ok_bind, ne_eq, not_true_eq_false, if_false]
  rw [readFixed_append _ _ _ hs.scalar]; simp only [Res.ok_bind]
  rw [readFixed_append _ _ _ hs.ax]; simp only [Res.ok_bind]
  rw [readFixed_append _ _ _ hs.ay]; simp only [Res.ok_bind]
  rw [readFixed_append _ _ _ hs.ainvx]; simp only [Res.ok_bind]
  have := readFixed_append c.byteLen s.ainvy [] hs.ainvy
  rw [List.append_nil] at this
  rw [this]; simp only [Res.ok_bind, Res.pure_eq, not_true_eq_false, if_false]
  rw [← hs.name]

theorem decodeGarblerSession_encode (c : Curve) (hc : c.WF) (s : GarblerSession) (hs : s.WF c) (enc : Bytes)
    (he : encodeGarblerSession c s = .ok enc) : decodeGarblerSession c enc = .ok s := by
  unfold encodeGarblerSession at he
  rw [encodeSenderSetup_eq c s hs.name] at he
  simp only [Res.ok_bind, Res.pure_eq] at he
  cases he
  unfold decodeGarblerSession
  rw [readHeader_header _ _ _ magic_lengths.2.2.2.1 hs.sid]
  simp only [Res.ok_bind]
  have hl := senderSetup_inner_length c hc s
  have hrc := readChunk_write (writeChunk c.name ++ (beBytes c.byteLen s.scalar ++ (beBytes c.byteLen s.ax ++
      (beBytes c.byteLen s.ay ++ (beBytes c.byteLen s.ainvx ++ beBytes c.byteLen s.ainvy))))) []
    (by rw [hl]; have := hc.name_lt; have := hc.bl_le; unfold chunkSizeLimit; omega)
    (append_ne_nil_of_length_pos _ _ (by rw [hl]; omega))
  rw [List.append_nil] at hrc
  rw [hrc]
  simp only [Res.ok_bind, ne_eq, not_true_eq_false, if_false]
  exact decodeSenderSetup_encode c hc s hs _ (encodeSenderSetup_eq c s hs.name)

theorem decodeSenderSetup_noPanic (c : Curve) (sid : Nat) (chunk : Bytes) : NoPanic (decodeSenderSetup c sid chunk) := by
  unfold decodeSenderSetup
  apply NoPanic.bind (readChunk_noPanic _); intro b
  apply NoPanic.ite; · simp
  apply NoPanic.bind (readFixed_noPanic _ _); intro x1
  apply NoPanic.bind (readFixed_noPanic _ _); intro x2
  apply NoPanic.bind (readFixed_noPanic _ _); intro x3
  apply NoPanic.bind (readFixed_noPanic _ _); intro x4
  apply NoPanic.bind (readFixed_noPanic _ _); intro x5
  apply NoPanic.ite <;> simp

theorem decodeGarblerSession_noPanic (c : Curve) (data : Bytes) : NoPanic (decodeGarblerSession c data) := by
  unfold decodeGarblerSession
  apply NoPanic.bind (readHeader_noPanic _ _); intro a
  apply NoPanic.bind (readChunk_noPanic _); intro b
  apply NoPanic.ite; · simp
  exact decodeSenderSetup_noPanic _ _ _

theorem decodeGarblerSession_other_curve (c c' : Curve) (hc' : c'.WF) (s : GarblerSession) (hs : s.sid < 2 ^ 64)
    (enc : Bytes) (he : encodeGarblerSession c' s = .ok enc) (hne : c'.name ≠ c.name) :
    decodeGarblerSession c enc = .error := by
  unfold encodeGarblerSession encodeSenderSetup at he
  split at he
  · cases he
  · simp only [Res.ok_bind, Res.pure_eq] at he
    cases he
    unfold decodeGarblerSession
    rw [readHeader_header _ _ _ magic_lengths.2.2.2.1 hs]
    simp only [Res.ok_bind]
    have hl := senderSetup_inner_length c' hc' s
    have hrc := readChunk_write (writeChunk c'.name ++ (beBytes c'.byteLen s.scalar ++ (beBytes c'.byteLen s.ax ++
        (beBytes c'.byteLen s.ay ++ (beBytes c'.byteLen s.ainvx ++ beBytes c'.byteLen s.ainvy))))) []
      (by rw [hl]; have := hc'.name_lt; have := hc'.bl_le; unfold chunkSizeLimit; omega)
      (append_ne_nil_of_length_pos _ _ (by rw [hl]; omega))
    rw [List.append_nil] at hrc
    rw [hrc]
    simp only [Res.ok_bind, ne_eq, not_true_eq_false, if_false]
    unfold decodeSenderSetup
    rw [readChunk_write _ _ (by have := hc'.name_lt; unfold chunkSizeLimit; omega)
      (by intro h; have := hc'.name_pos; simp at h; simp [h.1] at this)]
    simp only [Res.ok_bind, ne_eq]
    rw [if_pos hne]

theorem encodeGarblerSession_length (c : Curve) (hc : c.WF) (s : GarblerSession) (enc : Bytes)
    (he : encodeGarblerSession c s = .ok enc) :
    enc.length = 2 + 8 + (putUvarint (1 + c.name.length + 5 * c.byteLen)).length + (1 + c.name.length + 5 * c.byteLen) := by
  unfold encodeGarblerSession encodeSenderSetup at he
  split at he
  · cases he
  · simp only [Res.ok_bind, Res.pure_eq] at he
    cases he
    have hl := senderSetup_inner_length c hc s
    simp only [List.length_append, header_length, writeChunk] at hl ⊢
    rw [hl]
    simp [magicGS]
    omega

/-- The garbler-session format is canonical. -/
theorem encodeGarblerSession_decode (c : Curve) (data : Bytes) (s : GarblerSession)
    (h : decodeGarblerSession c data = .ok s) : encodeGarblerSession c s = .ok data ∧ s.WF c := by
  unfold decodeGarblerSession at h
  cases h1 : readHeader magicGS data with
  | ok a1 =>
    obtain ⟨sid, r⟩ := a1
    rw [h1] at h; simp only [Res.ok_bind] at h
    cases h2 : readChunk r with
    | ok a2 =>
      obtain ⟨chunk, rest⟩ := a2
      rw [h2] at h; simp only [Res.ok_bind] at h
      split at h
      · cases h
      · rename_i hrest
        have hrest : rest = [] := Decidable.of_not_not hrest
        unfold decodeSenderSetup at h
        cases h3 : readChunk chunk with
        | ok a3 =>
          obtain ⟨name, q1⟩ := a3
          rw [h3] at h; simp only [Res.ok_bind] at h
          split at h
          · cases h
          · rename_i hn
            have hn : name = c.name := Decidable.of_not_not hn
            cases f1 : readFixed c.byteLen q1 with
            | ok b1 =>
              obtain ⟨v1, q2⟩ := b1
              rw [f1] at h; simp only [Res.ok_bind] at h
              cases f2 : readFixed c.byteLen q2 with
              | ok b2 =>
                obtain ⟨v2, q3⟩ := b2
                rw [f2] at h; simp only [Res.ok_bind] at h
                cases f3 : readFixed c.byteLen q3 with
                | ok b3 =>
                  obtain ⟨v3, q4⟩ := b3
                  rw [f3] at h; simp only [Res.ok_bind] at h
                  cases f4 : readFixed c.byteLen q4 with
                  | ok b4 =>
                    obtain ⟨v4, q5⟩ := b4
                    rw [f4] at h; simp only [Res.ok_bind] at h
                    cases f5 : readFixed c.byteLen q5 with
                    | ok b5 =>
                      obtain ⟨v5, q6⟩ := b5
                      rw [f5] at h; simp only [Res.ok_bind] at h
                      split at h
                      · cases h
                      · rename_i hq6
                        have hq6 : q6 = [] := Decidable.of_not_not hq6
                        simp only [Res.pure_eq, Res.ok.injEq] at h
                        obtain ⟨e1, ls⟩ := readHeader_ok _ _ _ _ h1
                        have e2 := readChunk_ok _ _ _ h2
                        have e3 := readChunk_ok _ _ _ h3
                        obtain ⟨g1, l1⟩ := readFixed_ok _ _ _ _ f1
                        obtain ⟨g2, l2⟩ := readFixed_ok _ _ _ _ f2
                        obtain ⟨g3, l3⟩ := readFixed_ok _ _ _ _ f3
                        obtain ⟨g4, l4⟩ := readFixed_ok _ _ _ _ f4
                        obtain ⟨g5, l5⟩ := readFixed_ok _ _ _ _ f5
                        rw [← h]
                        refine ⟨?_, ⟨ls, hn, l1, l2, l3, l4, l5⟩⟩
                        unfold encodeGarblerSession
                        rw [encodeSenderSetup_eq c _ hn]
                        simp only [Res.ok_bind, Res.pure_eq]
                        have hchunk : chunk = writeChunk c.name ++ (beBytes c.byteLen v1 ++ (beBytes c.byteLen v2 ++
                            (beBytes c.byteLen v3 ++ (beBytes c.byteLen v4 ++ beBytes c.byteLen v5)))) := by
                          rw [e3, g1, g2, g3, g4, g5, hq6, hn]; simp
                        rw [e1, e2, hrest, ← hchunk]
                        simp
                    | error => rw [f5] at h; simp at h
                    | panic => rw [f5] at h; simp at h
                  | error => rw [f4] at h; simp at h
                  | panic => rw [f4] at h; simp at h
                | error => rw [f3] at h; simp at h
                | panic => rw [f3] at h; simp at h
              | error => rw [f2] at h; simp at h
              | panic => rw [f2] at h; simp at h
            | error => rw [f1] at h; simp at h
            | panic => rw [f1] at h; simp at h
        | error => rw [h3] at h; simp at h
        | panic => rw [h3] at h; simp at h
    | error => rw [h2] at h; simp at h
    | panic => rw [h2] at h; simp at h
  | error => rw [h1] at h; simp at h
  | panic => rw [h1] at h; simp at h

/-! ## Evaluator session -/

theorem encodeChoiceBundle_eq (c : Curve) (s : EvaluatorSession) (hs : s.WF c) :
    encodeChoiceBundle c s = .ok (writeChunk c.name ++ (beBytes c.byteLen s.ax ++ (beBytes c.byteLen s.ay ++
      (s.scalars.flatMap (beBytes c.byteLen) ++ bitsToBytes s.bits)))) := by
  unfold encodeChoiceBundle
  rw [if_neg (by simp [hs.name]), if_neg (by simp [hs.count]), if_neg (by simp [hs.bits])]

theorem choiceBundle_inner_length (c : Curve) (hc : c.WF) (s : EvaluatorSession) (hs : s.WF c) :
    (writeChunk c.name ++ (beBytes c.byteLen s.ax ++ (beBytes c.byteLen s.ay ++
      (s.scalars.flatMap (beBytes c.byteLen) ++ bitsToBytes s.bits)))).length =
    1 + c.name.length + 2 * c.byteLen + nBits * c.byteLen + signBytes := by
  simp only [List.length_append, writeChunk_length_small _ hc.name_lt, beBytes_length, flatMap_beBytes_length,
    bitsToBytes_length, hs.count, hs.bits]
  simp only [nBits, signBytes]
  rw [Nat.mul_comm c.byteLen 256]
  omega

theorem decodeChoiceBundle_encode (c : Curve) (hc : c.WF) (s : EvaluatorSession) (hs : s.WF c) (inner : Bytes)
    (he : encodeChoiceBundle c s = .ok inner) : decodeChoiceBundle c s.sid inner = .ok s := by
  rw [encodeChoiceBundle_eq c s hs] at he
  cases he
  unfold decodeChoiceBundle
  rw [readChunk_write _ _ (by have := hc.name_lt; unfold chunkSizeLimit; omega)
    (by intro h; have := hc.name_pos; simp at h; simp [h.1] at this)]
  simp only [Res.ok_bind, ne_eq, not_true_eq_false, if_false]
  rw [readFixed_append _ _ _ hs.ax]; simp only [Res.ok_bind]
  rw [readFixed_append _ _ _ hs.ay]; simp only [Res.ok_bind]
  have hN := readFixedN_append c.byteLen s.scalars (bitsToBytes s.bits) hs.scalars
  rw [hs.count] at hN
  rw [hN]; simp only [Res.ok_bind]
  have hbl : (bitsToBytes s.bits).length = signBytes := by rw [bitsToBytes_length, hs.bits]; rfl
  have hrf := readFull_append signBytes (bitsToBytes s.bits) [] hbl
  rw [List.append_nil] at hrf
  rw [hrf]
  simp only [Res.ok_bind, not_true_eq_false, if_false]
  have hrt : bytesToBits (bitsToBytes s.bits) = s.bits := bytesToBits_bitsToBytes _ (by rw [hs.bits]; rfl)
  rw [hrt, if_neg (by rw [hs.bits]; simp)]
  simp only [Res.pure_eq]
  have : s.bits.take nBits = s.bits := by rw [← hs.bits]; exact List.take_length
  rw [this, ← hs.name]

theorem decodeEvaluatorSession_encode (c : Curve) (hc : c.WF) (s : EvaluatorSession) (hs : s.WF c) (enc : Bytes)
    (he : encodeEvaluatorSession c s = .ok enc) : decodeEvaluatorSession c enc = .ok s := by
  unfold encodeEvaluatorSession at he
  rw [encodeChoiceBundle_eq c s hs] at he
  simp only [Res.ok_bind, Res.pure_eq] at he
  cases he
  unfold decodeEvaluatorSession
  rw [readHeader_header _ _ _ magic_lengths.2.2.2.2 hs.sid]
  simp only [Res.ok_bind]
  have hl := choiceBundle_inner_length c hc s hs
  have hrc := readChunk_write (writeChunk c.name ++ (beBytes c.byteLen s.ax ++ (beBytes c.byteLen s.ay ++
      (s.scalars.flatMap (beBytes c.byteLen) ++ bitsToBytes s.bits)))) []
    (by rw [hl]; have := hc.name_lt; have := hc.bl_le; unfold chunkSizeLimit nBits signBytes; omega)
    (append_ne_nil_of_length_pos _ _ (by rw [hl]; omega))
  rw [List.append_nil] at hrc
  rw [hrc]
  simp only [Res.ok_bind, ne_eq, not_true_eq_false, if_false]
  exact decodeChoiceBundle_encode c hc s hs _ (encodeChoiceBundle_eq c s hs)

theorem decodeChoiceBundle_noPanic (c : Curve) (sid : Nat) (chunk : Bytes) : NoPanic (decodeChoiceBundle c sid chunk) := by
  unfold decodeChoiceBundle
  apply NoPanic.bind (readChunk_noPanic _); intro b
  apply NoPanic.ite; · simp
  apply NoPanic.bind (readFixed_noPanic _ _); intro x1
  apply NoPanic.bind (readFixed_noPanic _ _); intro x2
  apply NoPanic.bind (readFixedN_noPanic _ _ _); intro x3
  apply NoPanic.bind (readFull_noPanic _ _); intro x4
  apply NoPanic.ite; · simp
  apply NoPanic.ite <;> simp

theorem decodeEvaluatorSession_noPanic (c : Curve) (data : Bytes) : NoPanic (decodeEvaluatorSession c data) := by
  unfold decodeEvaluatorSession
  apply NoPanic.bind (readHeader_noPanic _ _); intro a
  apply NoPanic.bind (readChunk_noPanic _); intro b
  apply NoPanic.ite; · simp
  exact decodeChoiceBundle_noPanic _ _ _

theorem decodeEvaluatorSession_other_curve (c c' : Curve) (hc' : c'.WF) (s : EvaluatorSession) (hs : s.WF c')
    (enc : Bytes) (he : encodeEvaluatorSession c' s = .ok enc) (hne : c'.name ≠ c.name) :
    decodeEvaluatorSession c enc = .error := by
  unfold encodeEvaluatorSession at he
  rw [encodeChoiceBundle_eq c' s hs] at he
  simp only [Res.ok_bind, Res.pure_eq] at he
  cases he
  unfold decodeEvaluatorSession
  rw [readHeader_header _ _ _ magic_lengths.2.2.2.2 hs.sid]
  simp only [Res.ok_bind]
  have hl := choiceBundle_inner_length c' hc' s hs
  have hrc := readChunk_write (writeChunk c'.name ++ (beBytes c'.byteLen s.ax ++ (beBytes c'.byteLen s.ay ++
      (s.scalars.flatMap (beBytes c'.byteLen) ++ bitsToBytes s.bits)))) []
    (by rw [hl]; have := hc'.name_lt; have := hc'.bl_le; unfold chunkSizeLimit nBits signBytes; omega)
    (append_ne_nil_of_length_pos _ _ (by rw [hl]; omega))
  rw [List.append_nil] at hrc
  rw [hrc]
  simp only [Res.ok_bind, ne_eq, not_true_eq_false, if_false]
  unfold decodeChoiceBundle
  rw [readChunk_write _ _ (by have := hc'.name_lt; unfold chunkSizeLimit; omega)
    (by intro h; have := hc'.name_pos; simp at h; simp [h.1] at this)]
  simp only [Res.ok_bind, ne_eq]
  rw [if_pos hne]

theorem encodeEvaluatorSession_length (c : Curve) (hc : c.WF) (s : EvaluatorSession) (hs : s.WF c) (enc : Bytes)
    (he : encodeEvaluatorSession c s = .ok enc) :
    enc.length = 2 + 8 + (putUvarint (1 + c.name.length + 2 * c.byteLen + nBits * c.byteLen + signBytes)).length +
      (1 + c.name.length + 2 * c.byteLen + nBits * c.byteLen + signBytes) := by
  unfold encodeEvaluatorSession at he
  rw [encodeChoiceBundle_eq c s hs] at he
  simp only [Res.ok_bind, Res.pure_eq] at he
  cases he
  have hl := choiceBundle_inner_length c hc s hs
  simp only [List.length_append, header_length, writeChunk] at hl ⊢
  rw [hl]
  simp [magicES]
  omega

/-- The evaluator-session format is canonical. -/
theorem encodeEvaluatorSession_decode (c : Curve) (data : Bytes) (s : EvaluatorSession)
    (h : decodeEvaluatorSession c data = .ok s) : encodeEvaluatorSession c s = .ok data ∧ s.WF c := by
  unfold decodeEvaluatorSession at h
  cases h1 : readHeader magicES data with
  | ok a1 =>
    obtain ⟨sid, r⟩ := a1
    rw [h1] at h; simp only [Res.ok_bind] at h
    cases h2 : readChunk r with
    | ok a2 =>
      obtain ⟨chunk, rest⟩ := a2
      rw [h2] at h; simp only [Res.ok_bind] at h
      split at h
      · cases h
      · rename_i hrest
        have hrest : rest = [] := Decidable.of_not_not hrest
        unfold decodeChoiceBundle at h
        cases h3 : readChunk chunk with
        | ok a3 =>
          obtain ⟨name, q1⟩ := a3
          rw [h3] at h; simp only [Res.ok_bind] at h
          split at h
          · cases h
          · rename_i hn
            have hn : name = c.name := Decidable.of_not_not hn
            cases f1 : readFixed c.byteLen q1 with
            | ok b1 =>
              obtain ⟨v1, q2⟩ := b1
              rw [f1] at h; simp only [Res.ok_bind] at h
              cases f2 : readFixed c.byteLen q2 with
              | ok b2 =>
                obtain ⟨v2, q3⟩ := b2
                rw [f2] at h; simp only [Res.ok_bind] at h
                cases f3 : readFixedN c.byteLen nBits q3 with
                | ok b3 =>
                  obtain ⟨scalars, q4⟩ := b3
                  rw [f3] at h; simp only [Res.ok_bind] at h
                  cases f4 : readFull signBytes q4 with
                  | ok b4 =>
                    obtain ⟨raw, q5⟩ := b4
                    rw [f4] at h; simp only [Res.ok_bind] at h
                    split at h
                    · cases h
                    · rename_i hq5
                      have hq5 : q5 = [] := Decidable.of_not_not hq5
                      split at h
                      · cases h
                      · simp only [Res.pure_eq, Res.ok.injEq] at h
                        obtain ⟨e1, ls⟩ := readHeader_ok _ _ _ _ h1
                        have e2 := readChunk_ok _ _ _ h2
                        have e3 := readChunk_ok _ _ _ h3
                        obtain ⟨g1, l1⟩ := readFixed_ok _ _ _ _ f1
                        obtain ⟨g2, l2⟩ := readFixed_ok _ _ _ _ f2
                        obtain ⟨g3, l3, l3'⟩ := readFixedN_ok _ _ _ _ _ f3
                        obtain ⟨g4, l4⟩ := readFull_ok _ _ _ _ f4
                        have hbits : (bytesToBits raw).take nBits = bytesToBits raw := by
                          apply List.take_of_length_le
                          rw [bytesToBits_length, l4]; decide
                        have hbl : (bytesToBits raw).length = nBits := by rw [bytesToBits_length, l4]; rfl
                        have hwf : EvaluatorSession.WF c ⟨sid, name, v1, v2, scalars, (bytesToBits raw).take nBits⟩ :=
                          ⟨ls, hn, l1, l2, l3, l3', by rw [hbits]; exact hbl⟩
                        rw [← h]
                        refine ⟨?_, hwf⟩
                        unfold encodeEvaluatorSession
                        rw [encodeChoiceBundle_eq c _ hwf]
                        simp only [Res.ok_bind, Res.pure_eq]
                        have hchunk : chunk = writeChunk c.name ++ (beBytes c.byteLen v1 ++ (beBytes c.byteLen v2 ++
                            (scalars.flatMap (beBytes c.byteLen) ++ bitsToBytes ((bytesToBits raw).take nBits)))) := by
                          rw [hbits, bitsToBytes_bytesToBits, e3, g1, g2, g3, g4, hq5, hn]; simp
                        rw [e1, e2, hrest, ← hchunk]
                        simp
                  | error => rw [f4] at h; simp at h
                  | panic => rw [f4] at h; simp at h
                | error => rw [f3] at h; simp at h
                | panic => rw [f3] at h; simp at h
              | error => rw [f2] at h; simp at h
              | panic => rw [f2] at h; simp at h
            | error => rw [f1] at h; simp at h
            | panic => rw [f1] at h; simp at h
        | error => rw [h3] at h; simp at h
        | panic => rw [h3] at h; simp at h
    | error => rw [h2] at h; simp at h
    | panic => rw [h2] at h; simp at h
  | error => rw [h1] at h; simp at h
  | panic => rw [h1] at h; simp at h

/-! ## Round 2 -/

theorem sliceFixedN_flatMap (n : Nat) (xs : List Nat) (post : Bytes) (h : ∀ x ∈ xs, x < 256 ^ n) :
    ∀ pre : Bytes, sliceFixedN (pre ++ (xs.flatMap (beBytes n) ++ post)) n xs.length pre.length = .ok xs := by
  induction xs with
  | nil => intro pre; simp [sliceFixedN]
  | cons x xs ih =>
    intro pre
    simp only [List.flatMap_cons, List.length_cons, sliceFixedN, List.append_assoc]
    rw [slice_of_split _ pre (beBytes n x) (xs.flatMap (beBytes n) ++ post) _ _ rfl rfl (by simp)]
    simp only [Res.ok_bind]
    have hx : x < 256 ^ n := h x (by simp)
    have := ih (fun y hy => h y (by simp [hy])) (pre ++ beBytes n x)
    simp only [List.append_assoc, List.length_append, beBytes_length] at this
    rw [this]
    simp [beNat_beBytes n x hx]

theorem sliceFixedN_noPanic (data : Bytes) (n : Nat) : ∀ (k off : Nat), off + k * n ≤ data.length →
    NoPanic (sliceFixedN data n k off) := by
  intro k
  induction k with
  | zero => intro off _; simp [sliceFixedN]
  | succ k ih =>
    intro off h
    simp only [sliceFixedN]
    have h1 : off + n + k * n ≤ data.length := by rw [Nat.succ_mul] at h; omega
    apply NoPanic.bind (slice_noPanic _ _ _ (by omega) (by
      have : 0 ≤ k * n := Nat.zero_le _
      omega))
    intro b
    apply NoPanic.bind (ih _ h1)
    intro vs; simp

theorem sliceFixedN_length (data : Bytes) (n : Nat) : ∀ (k off : Nat) (vs : List Nat),
    sliceFixedN data n k off = .ok vs → vs.length = k := by
  intro k
  induction k with
  | zero => intro off vs h; simp [sliceFixedN] at h; simp [← h]
  | succ k ih =>
    intro off vs h
    simp only [sliceFixedN] at h
    cases h1 : slice data off (off + n) with
    | ok b =>
      rw [h1] at h; simp only [Res.ok_bind] at h
      cases h2 : sliceFixedN data n k (off + n) with
      | ok ws =>
        rw [h2] at h; simp only [Res.ok_bind, Res.pure_eq, Res.ok.injEq] at h
        rw [← h]; simp [ih _ _ h2]
      | error => rw [h2] at h; simp at h
      | panic => rw [h2] at h; simp at h
    | error => rw [h1] at h; simp at h
    | panic => rw [h1] at h; simp at h

theorem decompressAll_packed (c : Curve) (ps : List Point) :
    ∀ done : List Point, (∀ p ∈ ps, c.decompress p.x (yOdd p) = some p.y) →
      decompressAll c (bitsToBytes ((done ++ ps).map yOdd)) (ps.map (·.x)) done.length = .ok ps := by
  induction ps with
  | nil => intro done _; simp [decompressAll]
  | cons p ps ih =>
    intro done h
    simp only [List.map_cons, decompressAll]
    rw [pointSign_packed _ _ (by simp)]
    simp only [Res.ok_bind]
    have hbit : ((done ++ p :: ps).map yOdd).getD done.length false = yOdd p := by
      simp [List.getD_eq_getElem?_getD]
    rw [hbit, h p (by simp)]
    simp only
    have := ih (done ++ [p]) (fun q hq => h q (by simp [hq]))
    simp only [List.append_assoc, List.singleton_append, List.length_append, List.length_singleton] at this
    rw [this]
    simp

theorem decompressAll_noPanic (c : Curve) (signs : Bytes) : ∀ (xs : List Nat) (i : Nat),
    i + xs.length ≤ 8 * signs.length → NoPanic (decompressAll c signs xs i) := by
  intro xs
  induction xs with
  | nil => intro i _; simp [decompressAll]
  | cons x xs ih =>
    intro i h
    simp only [decompressAll]
    have hps : NoPanic (pointSign signs i) := by
      unfold pointSign
      apply NoPanic.ite; · simp
      unfold byteAt
      have : i / 8 < signs.length := by simp only [List.length_cons] at h; omega
      simp [List.getElem?_eq_getElem this]
    apply NoPanic.bind hps
    intro odd
    cases c.decompress x odd with
    | none => simp
    | some y =>
      simp only
      apply NoPanic.bind (ih (i + 1) (by simp only [List.length_cons] at h; omega))
      intro ps; simp

theorem encodePoints_eq (c : Curve) (ps : List Point) (h : ps.length = nBits) :
    encodePoints c ps = .ok ((ps.map (·.x)).flatMap (beBytes c.byteLen) ++ bitsToBytes (ps.map yOdd)) := by
  unfold encodePoints
  rw [if_neg (by simp [h])]
  simp [List.flatMap_map]

theorem decodePoints_encode (c : Curve) (ps : List Point) (hn : ps.length = nBits)
    (hx : ∀ p ∈ ps, fits c p.x) (hd : ∀ p ∈ ps, c.decompress p.x (yOdd p) = some p.y) :
    decodePoints c ((ps.map (·.x)).flatMap (beBytes c.byteLen) ++ bitsToBytes (ps.map yOdd)) = .ok ps := by
  unfold decodePoints
  have hl1 : ((ps.map (·.x)).flatMap (beBytes c.byteLen)).length = nBits * c.byteLen := by
    rw [flatMap_beBytes_length, List.length_map, hn, Nat.mul_comm]
  have hl2 : (bitsToBytes (ps.map yOdd)).length = signBytes := by
    rw [bitsToBytes_length, List.length_map, hn]; rfl
  rw [if_neg (by simp only [List.length_append, hl1, hl2]; simp)]
  have h1 := sliceFixedN_flatMap c.byteLen (ps.map (·.x)) (bitsToBytes (ps.map yOdd))
    (by intro x hx'; simp only [List.mem_map] at hx'; obtain ⟨p, hp, rfl⟩ := hx'; exact hx p hp) []
  simp only [List.nil_append, List.length_map, List.length_nil, hn] at h1
  rw [h1]
  simp only [Res.ok_bind]
  rw [slice_of_split _ ((ps.map (·.x)).flatMap (beBytes c.byteLen)) (bitsToBytes (ps.map yOdd)) [] _ _ (by simp)
    hl1.symm (by simp only [List.length_append, hl1]; )]
  simp only [Res.ok_bind]
  have := decompressAll_packed c ps [] hd
  simpa using this

theorem decodePoints_noPanic (c : Curve) (data : Bytes) : NoPanic (decodePoints c data) := by
  unfold decodePoints
  split
  · simp
  · rename_i hne
    have hlen : data.length = nBits * c.byteLen + signBytes := Decidable.of_not_not hne
    cases h1 : sliceFixedN data c.byteLen nBits 0 with
    | ok xs =>
      simp only [Res.ok_bind]
      have hxs := sliceFixedN_length _ _ _ _ _ h1
      cases h2 : slice data (nBits * c.byteLen) data.length with
      | ok signs =>
        simp only [Res.ok_bind]
        have hs := slice_length _ _ _ _ h2
        apply decompressAll_noPanic
        rw [hxs, hs, hlen]; simp [nBits, signBytes]
      | error => simp
      | panic =>
        exfalso
        exact slice_noPanic data _ _ (by omega) (Nat.le_refl _) h2
    | error => simp
    | panic =>
      exfalso
      exact sliceFixedN_noPanic data c.byteLen nBits 0 (by omega) h1

/-- Soundness of point decompression: the ordinate returned has the requested
parity (`elliptic.UnmarshalCompressed` selects the root by its low bit). -/
def Curve.ParitySound (c : Curve) : Prop := ∀ x odd y, c.decompress x odd = some y → y.testBit 0 = odd

theorem sliceFixedN_ok (data : Bytes) (n : Nat) : ∀ (k off : Nat) (xs : List Nat),
    sliceFixedN data n k off = .ok xs → off + k * n ≤ data.length →
    slice data off (off + k * n) = .ok (xs.flatMap (beBytes n)) ∧ xs.length = k ∧ ∀ x ∈ xs, x < 256 ^ n := by
  intro k
  induction k with
  | zero =>
    intro off xs h hb
    simp [sliceFixedN] at h
    subst h
    refine ⟨?_, rfl, by simp⟩
    rw [slice_ok_iff]
    simp at hb ⊢
    exact hb
  | succ k ih =>
    intro off xs h hb
    simp only [sliceFixedN] at h
    have hb' : off + n + k * n ≤ data.length := by rw [Nat.succ_mul] at hb; omega
    cases h1 : slice data off (off + n) with
    | ok b =>
      rw [h1] at h; simp only [Res.ok_bind] at h
      cases h2 : sliceFixedN data n k (off + n) with
      | ok vs =>
        rw [h2] at h; simp only [Res.ok_bind, Res.pure_eq, Res.ok.injEq] at h
        obtain ⟨i1, i2, i3⟩ := ih _ _ h2 hb'
        have lb : b.length = n := by rw [slice_length _ _ _ _ h1]; omega
        have hc := slice_concat _ _ _ _ _ _ h1 i1
        rw [← h]
        refine ⟨?_, by simp [i2], ?_⟩
        · have e : off + (k + 1) * n = off + n + k * n := by rw [Nat.succ_mul]; omega
          rw [e, hc]
          simp [beBytes_beNat n b lb]
        · intro x hx
          simp only [List.mem_cons] at hx
          rcases hx with rfl | hx
          · have := beNat_lt b; rwa [lb] at this
          · exact i3 x hx
      | error => rw [h2] at h; simp at h
      | panic => rw [h2] at h; simp at h
    | error => rw [h1] at h; simp at h
    | panic => rw [h1] at h; simp at h

theorem decompressAll_ok (c : Curve) (hp : c.ParitySound) (signs : Bytes) : ∀ (xs : List Nat) (i : Nat) (ps : List Point),
    decompressAll c signs xs i = .ok ps → i + xs.length ≤ 8 * signs.length →
    ps.map (·.x) = xs ∧ ps.map yOdd = (List.range' i xs.length).map (signBit signs) ∧
      ∀ p ∈ ps, c.decompress p.x (yOdd p) = some p.y := by
  intro xs
  induction xs with
  | nil => intro i ps h _; simp [decompressAll] at h; subst h; simp
  | cons x xs ih =>
    intro i ps h hb
    simp only [decompressAll] at h
    rw [pointSign_eq signs i (by simp only [List.length_cons] at hb; omega)] at h
    simp only [Res.ok_bind] at h
    cases hd : c.decompress x (signBit signs i) with
    | none => rw [hd] at h; simp at h
    | some y =>
      rw [hd] at h
      simp only at h
      cases h2 : decompressAll c signs xs (i + 1) with
      | ok ps' =>
        rw [h2] at h; simp only [Res.ok_bind, Res.pure_eq, Res.ok.injEq] at h
        obtain ⟨i1, i2, i3⟩ := ih _ _ h2 (by simp only [List.length_cons] at hb; omega)
        have hy : yOdd ⟨x, y⟩ = signBit signs i := hp _ _ _ hd
        rw [← h]
        refine ⟨by simp [i1], ?_, ?_⟩
        · simp only [List.map_cons, List.length_cons, List.range'_succ, hy, i2]
        · intro p hpm
          simp only [List.mem_cons] at hpm
          rcases hpm with rfl | hpm
          · rw [hy]; exact hd
          · exact i3 p hpm
      | error => rw [h2] at h; simp at h
      | panic => rw [h2] at h; simp at h

theorem encodePoints_decode (c : Curve) (hp : c.ParitySound) (data : Bytes) (ps : List Point)
    (h : decodePoints c data = .ok ps) :
    encodePoints c ps = .ok data ∧ ps.length = nBits ∧ (∀ p ∈ ps, fits c p.x) ∧
      ∀ p ∈ ps, c.decompress p.x (yOdd p) = some p.y := by
  unfold decodePoints at h
  split at h
  · cases h
  · rename_i hne
    have hlen : data.length = nBits * c.byteLen + signBytes := Decidable.of_not_not hne
    cases h1 : sliceFixedN data c.byteLen nBits 0 with
    | ok xs =>
      rw [h1] at h; simp only [Res.ok_bind] at h
      cases h2 : slice data (nBits * c.byteLen) data.length with
      | ok signs =>
        rw [h2] at h; simp only [Res.ok_bind] at h
        obtain ⟨s1, s2, s3⟩ := sliceFixedN_ok _ _ _ _ _ h1 (by omega)
        have ls : signs.length = signBytes := by rw [slice_length _ _ _ _ h2, hlen]; omega
        obtain ⟨d1, d2, d3⟩ := decompressAll_ok c hp signs xs 0 ps h (by rw [s2, ls]; decide)
        have hpl : ps.length = nBits := by rw [← s2, ← d1]; simp
        have hsigns : bitsToBytes (ps.map yOdd) = signs := by
          rw [d2, s2]
          have : List.range' 0 nBits = List.range (8 * signs.length) := by
            rw [ls, List.range_eq_range']; rfl
          rw [this, map_signBit_eq_bytesToBits, bitsToBytes_bytesToBits]
        refine ⟨?_, hpl, ?_, d3⟩
        · unfold encodePoints
          rw [if_neg (by simp [hpl])]
          rw [hsigns, ← List.flatMap_map (f := fun p : Point => p.x) (g := beBytes c.byteLen), d1]
          simp only [Nat.zero_add] at s1
          have hc := slice_concat _ _ _ _ _ _ s1 h2
          rw [slice_full] at hc
          simp only [Res.ok.injEq] at hc
          rw [hc]
        · intro p hpm
          exact s3 p.x (by rw [← d1]; exact List.mem_map_of_mem hpm)
      | error => rw [h2] at h; simp at h
      | panic => rw [h2] at h; simp at h
    | error => rw [h1] at h; simp at h
    | panic => rw [h1] at h; simp at h

theorem encodeRound2_eq (c : Curve) (m : Round2) (h : m.choices.length = nBits) :
    encodeRound2 c m = .ok (header magicR2 m.sid ++ (writeChunk c.name ++
      ((m.choices.map (·.x)).flatMap (beBytes c.byteLen) ++ bitsToBytes (m.choices.map yOdd)))) := by
  unfold encodeRound2
  rw [encodePoints_eq c _ h]
  simp

theorem decodeRound2_encode (c : Curve) (hc : c.WF) (m : Round2) (hm : m.WF c) (enc : Bytes)
    (he : encodeRound2 c m = .ok enc) : decodeRound2 c enc = .ok m := by
  rw [encodeRound2_eq c m hm.count] at he
  cases he
  unfold decodeRound2
  rw [readHeader_header _ _ _ magic_lengths.2.1 hm.sid]
  simp only [Res.ok_bind]
  rw [readChunk_write _ _ (by have := hc.name_lt; unfold chunkSizeLimit; omega)
    (by intro h; have := hc.name_pos; simp at h; simp [h.1] at this)]
  simp only [Res.ok_bind, ne_eq, not_true_eq_false, if_false]
  rw [decodePoints_encode c _ hm.count hm.xs hm.onCurve]
  simp only [Res.ok_bind, Res.pure_eq]
  rw [← hm.name]

theorem decodeRound2_noPanic (c : Curve) (data : Bytes) : NoPanic (decodeRound2 c data) := by
  unfold decodeRound2
  apply NoPanic.bind (readHeader_noPanic _ _); intro a
  apply NoPanic.bind (readChunk_noPanic _); intro b
  apply NoPanic.ite; · simp
  apply NoPanic.bind (decodePoints_noPanic _ _); intro ps
  simp

/-- The round-2 format is canonical (given that decompression returns the
requested parity). -/
theorem encodeRound2_decode (c : Curve) (hp : c.ParitySound) (data : Bytes) (m : Round2)
    (h : decodeRound2 c data = .ok m) : encodeRound2 c m = .ok data ∧ m.WF c := by
  unfold decodeRound2 at h
  cases h1 : readHeader magicR2 data with
  | ok a1 =>
    obtain ⟨sid, r⟩ := a1
    rw [h1] at h; simp only [Res.ok_bind] at h
    cases h2 : readChunk r with
    | ok a2 =>
      obtain ⟨name, rest⟩ := a2
      rw [h2] at h; simp only [Res.ok_bind] at h
      split at h
      · cases h
      · rename_i hn
        have hn : name = c.name := Decidable.of_not_not hn
        cases h3 : decodePoints c rest with
        | ok ps =>
          rw [h3] at h; simp only [Res.ok_bind, Res.pure_eq, Res.ok.injEq] at h
          obtain ⟨e1, ls⟩ := readHeader_ok _ _ _ _ h1
          have e2 := readChunk_ok _ _ _ h2
          obtain ⟨p1, p2, p3, p4⟩ := encodePoints_decode c hp rest ps h3
          rw [← h]
          refine ⟨?_, ⟨ls, hn, p2, p3, p4⟩⟩
          unfold encodeRound2
          simp only [p1, Res.ok_bind, Res.pure_eq]
          rw [e1, e2, hn]
        | error => rw [h3] at h; simp at h
        | panic => rw [h3] at h; simp at h
    | error => rw [h2] at h; simp at h
    | panic => rw [h2] at h; simp at h
  | error => rw [h1] at h; simp at h
  | panic => rw [h1] at h; simp at h

theorem decodeRound2_other_curve (c c' : Curve) (hc' : c'.WF) (m : Round2) (hs : m.sid < 2 ^ 64) (enc : Bytes)
    (he : encodeRound2 c' m = .ok enc) (hne : c'.name ≠ c.name) : decodeRound2 c enc = .error := by
  unfold encodeRound2 at he
  cases hp : encodePoints c' m.choices with
  | ok pts =>
    rw [hp] at he
    simp only [Res.ok_bind, Res.pure_eq] at he
    cases he
    unfold decodeRound2
    rw [readHeader_header _ _ _ magic_lengths.2.1 hs]
    simp only [Res.ok_bind]
    rw [readChunk_write _ _ (by have := hc'.name_lt; unfold chunkSizeLimit; omega)
      (by intro h; have := hc'.name_pos; simp at h; simp [h.1] at this)]
    simp only [Res.ok_bind, ne_eq]
    rw [if_pos hne]
  | error => rw [hp] at he; simp at he
  | panic => rw [hp] at he; simp at he

theorem encodeRound2_length (c : Curve) (hc : c.WF) (m : Round2) (enc : Bytes) (he : encodeRound2 c m = .ok enc) :
    enc.length = 2 + 8 + 1 + c.name.length + nBits * c.byteLen + signBytes := by
  unfold encodeRound2 encodePoints at he
  split at he
  · simp at he
  · rename_i hn
    have hn : m.choices.length = nBits := Decidable.of_not_not hn
    simp only [Res.ok_bind, Res.pure_eq] at he
    cases he
    simp only [List.length_append, header_length, writeChunk_length_small _ hc.name_lt, bitsToBytes_length,
      List.length_map, hn]
    have : (List.flatMap (fun p => beBytes c.byteLen p.x) m.choices).length = nBits * c.byteLen := by
      rw [← List.flatMap_map (f := fun p : Point => p.x) (g := beBytes c.byteLen), flatMap_beBytes_length,
        List.length_map, hn, Nat.mul_comm]
    rw [this]
    simp [magicR2, nBits, signBytes]
    omega

/-! ## Round 3 -/

theorem round3_body_length (counts : List Nat) (m : Round3) (hm : m.WF counts) :
    (header magicR3 m.sid ++ (m.key ++ (bytesOfLabels m.tables.flatten ++ (bytesOfLabels m.inputs ++
      (bytesOfLabels (unpairs m.hints) ++ bytesOfLabels (unpairs m.cts)))))).length = round3Len counts := by
  simp only [List.length_append, header_length, bytesOfLabels_length, unpairs_length, hm.key, hm.inputs, hm.hints,
    hm.cts, flatten_length_eq_sum, hm.rows]
  simp [round3Len, magicR3, keyLen, labelLen, nBits]
  omega

theorem encodeRound3_eq (counts : List Nat) (m : Round3) (hm : m.WF counts) :
    encodeRound3 counts m = .ok (header magicR3 m.sid ++ (m.key ++ (bytesOfLabels m.tables.flatten ++
      (bytesOfLabels m.inputs ++ (bytesOfLabels (unpairs m.hints) ++ bytesOfLabels (unpairs m.cts)))))) := by
  unfold encodeRound3
  have hl : m.tables.length = counts.length := by rw [← hm.rows]; simp
  rw [if_neg (by simp [hl]), if_neg (by simp [hm.rows]), if_neg (by simp [hm.inputs]), if_neg (by simp [hm.hints]),
    if_neg (by simp [hm.cts])]
  simp only
  rw [if_neg (by rw [round3_body_length counts m hm]; simp)]

theorem decodeRound3_encode (counts : List Nat) (m : Round3) (hm : m.WF counts) (enc : Bytes)
    (he : encodeRound3 counts m = .ok enc) : decodeRound3 counts enc = .ok m := by
  rw [encodeRound3_eq counts m hm] at he
  cases he
  unfold decodeRound3
  rw [if_neg (by rw [round3_body_length counts m hm]; simp)]
  have hsum : m.tables.flatten.length = counts.sum := by rw [flatten_length_eq_sum, hm.rows]
  -- the seven slices
  rw [slice_of_split _ [] magicR3 (beBytes 8 m.sid ++ (m.key ++ (bytesOfLabels m.tables.flatten ++
      (bytesOfLabels m.inputs ++ (bytesOfLabels (unpairs m.hints) ++ bytesOfLabels (unpairs m.cts))))))
      0 2 (by simp [header]) rfl rfl]
  simp only [Res.ok_bind, ne_eq, not_true_eq_false, if_false]
  rw [slice_of_split _ magicR3 (beBytes 8 m.sid) (m.key ++ (bytesOfLabels m.tables.flatten ++
      (bytesOfLabels m.inputs ++ (bytesOfLabels (unpairs m.hints) ++ bytesOfLabels (unpairs m.cts)))))
      2 10 (by simp [header]) rfl (by simp)]
  simp only [Res.ok_bind]
  rw [slice_of_split _ (header magicR3 m.sid) m.key (bytesOfLabels m.tables.flatten ++
      (bytesOfLabels m.inputs ++ (bytesOfLabels (unpairs m.hints) ++ bytesOfLabels (unpairs m.cts))))
      10 (10 + keyLen) rfl (by simp [magicR3]) (by rw [hm.key])]
  simp only [Res.ok_bind]
  rw [slice_of_split _ (header magicR3 m.sid ++ m.key) (bytesOfLabels m.tables.flatten) (bytesOfLabels m.inputs ++
      (bytesOfLabels (unpairs m.hints) ++ bytesOfLabels (unpairs m.cts)))
      (10 + keyLen) (10 + keyLen + labelLen * counts.sum) (by simp) (by simp [magicR3, hm.key])
      (by simp [hsum, labelLen])]
  simp only [Res.ok_bind]
  rw [slice_of_split _ (header magicR3 m.sid ++ (m.key ++ bytesOfLabels m.tables.flatten)) (bytesOfLabels m.inputs)
      (bytesOfLabels (unpairs m.hints) ++ bytesOfLabels (unpairs m.cts))
      (10 + keyLen + labelLen * counts.sum) (10 + keyLen + labelLen * counts.sum + labelLen * nBits) (by simp)
      (by simp [magicR3, hm.key, hsum, labelLen]; omega) (by simp [hm.inputs, labelLen])]
  simp only [Res.ok_bind]
  rw [slice_of_split _ (header magicR3 m.sid ++ (m.key ++ (bytesOfLabels m.tables.flatten ++ bytesOfLabels m.inputs)))
      (bytesOfLabels (unpairs m.hints)) (bytesOfLabels (unpairs m.cts))
      (10 + keyLen + labelLen * counts.sum + labelLen * nBits)
      (10 + keyLen + labelLen * counts.sum + labelLen * nBits + 2 * labelLen * nBits) (by simp)
      (by simp [magicR3, hm.key, hsum, hm.inputs, labelLen]; omega) (by simp [hm.hints, labelLen]; omega)]
  simp only [Res.ok_bind]
  rw [slice_of_split _ (header magicR3 m.sid ++ (m.key ++ (bytesOfLabels m.tables.flatten ++ (bytesOfLabels m.inputs ++
        bytesOfLabels (unpairs m.hints))))) (bytesOfLabels (unpairs m.cts)) []
      (10 + keyLen + labelLen * counts.sum + labelLen * nBits + 2 * labelLen * nBits)
      (10 + keyLen + labelLen * counts.sum + labelLen * nBits + 2 * labelLen * nBits + 2 * labelLen * nBits) (by simp)
      (by simp [magicR3, hm.key, hsum, hm.inputs, hm.hints, labelLen]; omega) (by simp [hm.cts, labelLen]; omega)]
  simp only [Res.ok_bind, Res.pure_eq]
  rw [beNat_beBytes 8 m.sid (by simpa using hm.sid)]
  simp only [labelsOfBytes_bytesOfLabels, pairs_unpairs]
  have hr := splitRows_flatten m.tables []
  rw [hm.rows, List.append_nil] at hr
  rw [hr]

theorem decodeRound3_noPanic (counts : List Nat) (data : Bytes) : NoPanic (decodeRound3 counts data) := by
  unfold decodeRound3
  split
  · simp
  · rename_i hne
    have hlen : data.length = round3Len counts := Decidable.of_not_not hne
    unfold round3Len keyLen labelLen nBits at hlen
    simp only [keyLen, labelLen, nBits]
    apply NoPanic.bind (slice_noPanic _ _ _ (by omega) (by omega)); intro m
    apply NoPanic.ite; · simp
    apply NoPanic.bind (slice_noPanic _ _ _ (by omega) (by omega)); intro sid
    apply NoPanic.bind (slice_noPanic _ _ _ (by omega) (by omega)); intro key
    apply NoPanic.bind (slice_noPanic _ _ _ (by omega) (by omega)); intro tb
    apply NoPanic.bind (slice_noPanic _ _ _ (by omega) (by omega)); intro ib
    apply NoPanic.bind (slice_noPanic _ _ _ (by omega) (by omega)); intro hb
    apply NoPanic.bind (slice_noPanic _ _ _ (by omega) (by omega)); intro cb
    simp

/-- The round-3 format is canonical: whatever decodes re-encodes to the very
same bytes. -/
theorem encodeRound3_decode (counts : List Nat) (data : Bytes) (m : Round3)
    (h : decodeRound3 counts data = .ok m) : encodeRound3 counts m = .ok data ∧ m.WF counts := by
  unfold decodeRound3 at h
  split at h
  · cases h
  · rename_i hne
    have hlen : data.length = round3Len counts := Decidable.of_not_not hne
    have hlen' := hlen
    unfold round3Len keyLen labelLen nBits at hlen'
    -- every slice succeeds
    have ex : ∀ lo hi, lo ≤ hi → hi ≤ data.length → ∃ r, slice data lo hi = .ok r := by
      intro lo hi h1 h2
      exact ⟨_, (slice_ok_iff data lo hi _).2 ⟨h1, h2, rfl⟩⟩
    obtain ⟨mg, hmg⟩ := ex 0 2 (by omega) (by omega)
    obtain ⟨sid, hsid⟩ := ex 2 10 (by omega) (by omega)
    obtain ⟨key, hkey⟩ := ex 10 (10 + keyLen) (by simp [keyLen]) (by simp only [keyLen]; omega)
    obtain ⟨tb, htb⟩ := ex (10 + keyLen) (10 + keyLen + labelLen * counts.sum) (by omega)
      (by simp only [keyLen, labelLen]; omega)
    obtain ⟨ib, hib⟩ := ex (10 + keyLen + labelLen * counts.sum) (10 + keyLen + labelLen * counts.sum + labelLen * nBits)
      (by omega) (by simp only [keyLen, labelLen, nBits]; omega)
    obtain ⟨hb, hhb⟩ := ex (10 + keyLen + labelLen * counts.sum + labelLen * nBits)
      (10 + keyLen + labelLen * counts.sum + labelLen * nBits + 2 * labelLen * nBits)
      (by omega) (by simp only [keyLen, labelLen, nBits]; omega)
    obtain ⟨cb, hcb⟩ := ex (10 + keyLen + labelLen * counts.sum + labelLen * nBits + 2 * labelLen * nBits)
      (10 + keyLen + labelLen * counts.sum + labelLen * nBits + 2 * labelLen * nBits + 2 * labelLen * nBits)
      (by omega) (by simp only [keyLen, labelLen, nBits]; omega)
    rw [hmg] at h
    simp only [Res.ok_bind] at h
    split at h
    · cases h
    · rename_i hm2
      have hmagic : mg = magicR3 := Decidable.of_not_not hm2
      rw [hsid, hkey] at h
      simp only [Res.ok_bind] at h
      rw [htb, hib, hhb, hcb] at h
      simp only [Res.ok_bind, Res.pure_eq, Res.ok.injEq] at h
      -- lengths of the pieces
      have lsid := slice_length _ _ _ _ hsid
      have lkey := slice_length _ _ _ _ hkey
      have ltb := slice_length _ _ _ _ htb
      have lib := slice_length _ _ _ _ hib
      have lhb := slice_length _ _ _ _ hhb
      have lcb := slice_length _ _ _ _ hcb
      have ltb' : tb.length = 16 * counts.sum := by rw [ltb]; simp only [labelLen]; omega
      have lib' : ib.length = 16 * nBits := by rw [lib]; simp only [labelLen]; omega
      have lhb' : hb.length = 16 * (2 * nBits) := by rw [lhb]; simp only [labelLen, nBits]; omega
      have lcb' : cb.length = 16 * (2 * nBits) := by rw [lcb]; simp only [labelLen, nBits]; omega
      obtain ⟨t1, t2⟩ := labelsOfBytes_spec _ tb ltb'
      obtain ⟨i1, i2⟩ := labelsOfBytes_spec _ ib lib'
      obtain ⟨h1, h2⟩ := labelsOfBytes_spec _ hb lhb'
      obtain ⟨c1, c2⟩ := labelsOfBytes_spec _ cb lcb'
      obtain ⟨ph1, ph2⟩ := pairs_spec nBits (labelsOfBytes hb) h2
      obtain ⟨pc1, pc2⟩ := pairs_spec nBits (labelsOfBytes cb) c2
      obtain ⟨r1, r2⟩ := splitRows_spec counts (labelsOfBytes tb) (by rw [t2]; exact Nat.le_refl _)
      have hwf : m.WF counts := by
        rw [← h]
        refine ⟨?_, ?_, r1, i2, ph2, pc2⟩
        · have := beNat_lt sid; rw [lsid] at this; simpa using this
        · simp only [keyLen] at lkey ⊢; omega
      refine ⟨?_, hwf⟩
      rw [encodeRound3_eq counts m hwf, ← h]
      simp only
      rw [r2, ← t2, List.take_length, t1, i1, ph1, h1, pc1, c1]
      have hsidb : beBytes 8 (beNat sid) = sid := beBytes_beNat 8 sid (by omega)
      simp only [header, hsidb, ← hmagic]
      -- the pieces are adjacent slices of `data`
      have j1 := slice_concat _ _ _ _ _ _ hmg hsid
      have j2 := slice_concat _ _ _ _ _ _ j1 hkey
      have j3 := slice_concat _ _ _ _ _ _ j2 htb
      have j4 := slice_concat _ _ _ _ _ _ j3 hib
      have j5 := slice_concat _ _ _ _ _ _ j4 hhb
      have j6 := slice_concat _ _ _ _ _ _ j5 hcb
      have hend : 10 + keyLen + labelLen * counts.sum + labelLen * nBits + 2 * labelLen * nBits + 2 * labelLen * nBits
          = data.length := by rw [hlen]; simp only [round3Len]
      rw [hend, slice_full] at j6
      simp only [Res.ok.injEq] at j6
      rw [j6]
      simp [List.append_assoc]

end Mpc.Sha2pc
